(* driver `closest` (C12): case type, model-vs-implementation comparison and
   the verified boolean observer of the property on the implementation's output *)
From F2G Require Import Drv.Common Model.Util Proofs.Closest.
From Coq Require Import Lia.

Record case := mkCase {
  c_pm : list (Z * Z);          (* key-sorted PWM map *)
  c_reqs : list Z;
  o_supported : list Z;         (* impl: ExtractKeysWithDistinctValues, sorted *)
  o_closest : list (option Z);  (* impl: FindClosest per request (None = panic) *)
  o_written : list (option Z);  (* impl: value handed to Fan.SetPwm per request *)
}.

Definition res_opt (r : fc_result) : option Z :=
  match r with FcVal z => Some z | _ => None end.

Definition model_closest (c : case) := map (fun r => res_opt (FindClosest r (supported (c_pm c)))) (c_reqs c).
Definition model_written (c : case) := map (fun r => res_opt (written (c_pm c) r)) (c_reqs c).

Definition mismatch (c : case) : bool :=
  negb (list_eqb Z.eqb (supported (c_pm c)) (o_supported c)
        && list_eqb optZ_eqb (model_closest c) (o_closest c)
        && list_eqb optZ_eqb (model_written c) (o_written c)).

(* ---- the property, judged on the implementation's own observations ---- *)
Definition nearestb (arr : list Z) (t k : Z) : bool :=
  existsb (Z.eqb k) arr && forallb (fun k' => Z.abs (k - t) <=? Z.abs (k' - t)) arr.

(* smallest distance from t to an element (0 on the empty list): one pass, so the
   observer is linear per request instead of quadratic *)
Fixpoint mind (arr : list Z) (t : Z) : Z :=
  match arr with
  | [] => 0
  | [k] => Z.abs (k - t)
  | k :: r => Z.min (Z.abs (k - t)) (mind r t)
  end.

Definition written_okb (pm : list (Z * Z)) (sup : list Z) (r : Z) (w : option Z) : bool :=
  match w with
  | None => false
  | Some w => let d := mind sup r in
              existsb (fun k => (Z.abs (k - r) <=? d) && (lookup pm k =? w)) sup
  end.

Fixpoint all2b {A B} (f : A -> B -> bool) (l1 : list A) (l2 : list B) : bool :=
  match l1, l2 with
  | [], [] => true
  | x :: r1, y :: r2 => f x y && all2b f r1 r2
  | _, _ => false
  end.

Definition holdsb (c : case) : bool :=
  list_eqb Z.eqb (o_supported c) (run_starts None (c_pm c))
  && all2b (written_okb (c_pm c) (o_supported c)) (c_reqs c) (o_written c).

(* the observer is exactly the stated property *)
Definition Holds_written (pm : list (Z * Z)) (sup : list Z) (r : Z) (w : option Z) : Prop :=
  exists k wv, w = Some wv /\ nearest sup r k /\ lookup pm k = wv.

Lemma nearestb_spec arr t k : nearestb arr t k = true <-> nearest arr t k.
Proof.
  unfold nearestb, nearest. rewrite andb_true_iff, existsb_exists, forallb_forall. split.
  - intros [[x [Hin E]] H]. apply Z.eqb_eq in E. subst x. split; auto.
    intros k' Hk'. specialize (H k' Hk'). now apply Z.leb_le.
  - intros [Hin H]. split; [exists k; split; auto; apply Z.eqb_refl|].
    intros k' Hk'. apply Z.leb_le. auto.
Qed.

Lemma mind_le arr t : forall k', In k' arr -> mind arr t <= Z.abs (k' - t).
Proof.
  induction arr as [|k r IH]; intros k' H; [contradiction|].
  destruct r as [|k2 r2].
  - destruct H as [->|[]]. cbn. lia.
  - change (mind (k :: k2 :: r2) t) with (Z.min (Z.abs (k - t)) (mind (k2 :: r2) t)).
    destruct H as [->|H]; [lia|]. specialize (IH k' H). lia.
Qed.

Lemma mind_attained arr t : arr <> [] -> exists k, In k arr /\ mind arr t = Z.abs (k - t).
Proof.
  induction arr as [|k r IH]; [congruence|]. intros _.
  destruct r as [|k2 r2].
  - exists k. split; [left; reflexivity|reflexivity].
  - change (mind (k :: k2 :: r2) t) with (Z.min (Z.abs (k - t)) (mind (k2 :: r2) t)).
    destruct IH as [k' [Hin E]]; [discriminate|].
    destruct (Z.le_ge_cases (Z.abs (k - t)) (mind (k2 :: r2) t)).
    + exists k. split; [left; reflexivity|lia].
    + exists k'. split; [right; exact Hin|lia].
Qed.

Lemma mind_nearest arr t k : In k arr -> (Z.abs (k - t) <=? mind arr t) = true <-> nearest arr t k.
Proof.
  intros Hin. rewrite Z.leb_le. unfold nearest. split.
  - intros H. split; auto. intros k' Hk'. pose proof (mind_le arr t k' Hk'). lia.
  - intros [_ H]. destruct (mind_attained arr t) as [k' [Hk' E]]; [intro; subst; contradiction|].
    rewrite E. auto.
Qed.

Lemma written_okb_spec pm sup r w : written_okb pm sup r w = true <-> Holds_written pm sup r w.
Proof.
  unfold written_okb, Holds_written. destruct w as [wv|].
  - cbv zeta. rewrite existsb_exists. split.
    + intros [k [Hin H]]. apply andb_true_iff in H. destruct H as [N E].
      apply mind_nearest in N; auto. apply Z.eqb_eq in E. exists k, wv. auto.
    + intros [k [wv' [E [N L]]]]. inversion E; subst wv'. exists k. split; [apply N|].
      apply andb_true_iff. split; [apply mind_nearest; [apply N|exact N] | now apply Z.eqb_eq].
  - split; [discriminate|]. intros [k [wv [E _]]]. discriminate.
Qed.

(* no recorded finding for this property: every failing case is a violation *)
Definition finding_code (c : case) : Z := 0.
