(* shared helpers for the correspondence case files written by ./check *)
From Coq Require Export ZArith Bool List Floats.
From F2G Require Export Go.GoFloat.
Export ListNotations.
Open Scope Z_scope.

Fixpoint bad_indices_from {A} (n : Z) (bad : A -> bool) (l : list A) : list Z :=
  match l with
  | [] => []
  | x :: r => if bad x then n :: bad_indices_from (n + 1) bad r else bad_indices_from (n + 1) bad r
  end.
Definition bad_indices {A} (bad : A -> bool) (l : list A) : list Z := bad_indices_from 0 bad l.

Fixpoint tagged_from {A} (n : Z) (f : A -> Z) (l : list A) : list (Z * Z) :=
  match l with
  | [] => []
  | x :: r => let k := f x in
              if k =? 0 then tagged_from (n + 1) f r else (n, k) :: tagged_from (n + 1) f r
  end.
(* indices with a non-zero classification code *)
Definition tagged {A} (f : A -> Z) (l : list A) : list (Z * Z) := tagged_from 0 f l.

Definition optZ_eqb (a b : option Z) : bool :=
  match a, b with
  | Some x, Some y => x =? y
  | None, None => true
  | _, _ => false
  end.

Fixpoint list_eqb {A} (eqb : A -> A -> bool) (l1 l2 : list A) : bool :=
  match l1, l2 with
  | [], [] => true
  | x :: r1, y :: r2 => eqb x y && list_eqb eqb r1 r2
  | _, _ => false
  end.

Lemma list_eqb_Z_eq l1 l2 : list_eqb Z.eqb l1 l2 = true <-> l1 = l2.
Proof.
  revert l2; induction l1 as [|x r IH]; destruct l2 as [|y r2]; cbn; split; try congruence; try discriminate.
  - intros H. apply andb_true_iff in H. destruct H as [H1 H2]. apply Z.eqb_eq in H1. apply IH in H2. congruence.
  - intros H. inversion H; subst. rewrite Z.eqb_refl. cbn. now apply IH.
Qed.
