(* driver `config` (C11): case type, model-vs-implementation comparison and the
   verified boolean observer of the property on the implementation's own
   observation (verdict of the real validator on the YAML text, and what happened
   when the accepted configuration was instantiated and run). *)
From F2G Require Export Model.Config.
From F2G Require Import Drv.Common Model.Util Proofs.ConfigGraph Proofs.Config.
From Coq Require Import Lia.

Record case := mkCase {
  c_cfg : config;              (* the decoded configuration the YAML text stands for *)
  c_perm : bool;               (* oracle: CheckFilePermissionsForExecution(config file) succeeds *)
  i_decode : bool;             (* impl: the real loader produced exactly c_cfg *)
  i_verdict : Z;               (* impl: error class of configuration.Validate (0 = accepted) *)
  i_cli : Z;                   (* impl: error class reported by the real `fan2go config validate -c file` process; -1 = not sampled *)
  i_inst : Z;                  (* accepted only: 0 = constructors succeeded, 1 = one failed *)
  i_curves : list Z;           (* per curve entry: 0 = Evaluate returned for every sensor environment, 1 = panic, 2 = endless recursion *)
  i_ctrl : Z;                  (* 0 = fan controllers constructed, 1 = crash *)
  i_fans : list Z              (* per fan entry: one calculateTargetPwm: 0 / 1 / 2 *)
}.

Definition dummy_env : env := mkEnv (fun _ => 45000%float) (fun _ => 0).
Definition out_code (o : outcome) : Z := match o with Val _ => 0 | Crash _ => 1 | OutOfFuel => 2 end.

Record run_obs := mkRun { r_inst : Z; r_curves : list Z; r_ctrl : Z; r_fans : list Z }.

Definition model_run (cfg : config) : run_obs :=
  match instantiate cfg with
  | None => mkRun 1 [] 0 []
  | Some o =>
      let n := length (curves cfg) in
      let cs := map (fun c => out_code (eval_graph n o dummy_env (c_id c))) (curves cfg) in
      if forallb (fun f => isSome (get_curve o (fo_curve f))) (o_fans o)
      then mkRun 0 cs 0 (map (fun f => out_code (run_fan n o dummy_env f)) (o_fans o))
      else mkRun 0 cs 1 []
  end.

Definition run_eqb (r : run_obs) (c : case) : bool :=
  (r_inst r =? i_inst c) && list_eqb Z.eqb (r_curves r) (i_curves c)
  && (r_ctrl r =? i_ctrl c) && list_eqb Z.eqb (r_fans r) (i_fans c).

Definition mismatch (c : case) : bool :=
  negb (i_decode c)
  || negb (verr_code (validate (c_cfg c) (c_perm c)) =? i_verdict c)
  || negb ((i_cli c =? -1) || (i_cli c =? verr_code (validate (c_cfg c) (c_perm c))))
  || ((i_verdict c =? 0) && negb (run_eqb (model_run (c_cfg c)) c)).

(* ---- the property, judged on the implementation's own observations ---- *)
Definition all_zero (l : list Z) : bool := forallb (Z.eqb 0) l.

Definition ran_okb (c : case) : bool :=
  (i_inst c =? 0)
  && all_zero (i_curves c) && (Z.of_nat (length (i_curves c)) =? Z.of_nat (length (curves (c_cfg c))))
  && (i_ctrl c =? 0)
  && all_zero (i_fans c) && (Z.of_nat (length (i_fans c)) =? Z.of_nat (length (fans (c_cfg c)))).

Definition holdsb (c : case) : bool :=
  (if i_verdict c =? 0 then soundb (c_cfg c) && ran_okb c else true)
  && (if documentedb (c_cfg c) && c_perm c then i_verdict c =? 0 else true).

Definition RanOk (c : case) : Prop :=
  i_inst c = 0
  /\ Forall (eq 0) (i_curves c) /\ length (i_curves c) = length (curves (c_cfg c))
  /\ i_ctrl c = 0
  /\ Forall (eq 0) (i_fans c) /\ length (i_fans c) = length (fans (c_cfg c)).

(* C11 on one observed case: acceptance implies the structural guarantees and a
   crash-free, terminating run; a documented configuration is accepted. *)
Definition Holds (c : case) : Prop :=
  (i_verdict c = 0 -> Sound (c_cfg c) /\ RanOk c)
  /\ (documented (c_cfg c) -> c_perm c = true -> i_verdict c = 0).

Lemma all_zero_spec l : all_zero l = true <-> Forall (eq 0) l.
Proof.
  unfold all_zero. rewrite forallb_forall, Forall_forall. split; intros H x Hx.
  - symmetry. apply Z.eqb_eq. rewrite Z.eqb_sym. rewrite Z.eqb_sym. apply H; exact Hx.
  - apply Z.eqb_eq. apply H; exact Hx.
Qed.

Lemma ran_okb_spec c : ran_okb c = true <-> RanOk c.
Proof.
  unfold ran_okb, RanOk. rewrite !andb_true_iff, !all_zero_spec, !Z.eqb_eq, !Nat2Z.inj_iff. tauto.
Qed.

Theorem holdsb_spec c : holdsb c = true <-> Holds c.
Proof.
  unfold holdsb, Holds. rewrite andb_true_iff. split.
  - intros [H1 H2]. split.
    + intros V. rewrite V in H1. cbn in H1. apply andb_true_iff in H1. destruct H1 as [S R].
      split; [apply soundb_spec; exact S | apply ran_okb_spec; exact R].
    + intros D P. apply documentedb_spec in D. rewrite D, P in H2. cbn in H2. apply Z.eqb_eq. exact H2.
  - intros [H1 H2]. split.
    + destruct (i_verdict c =? 0) eqn:E; [|reflexivity]. apply Z.eqb_eq in E. destruct (H1 E) as [S R].
      apply andb_true_iff. split; [apply soundb_spec; exact S | apply ran_okb_spec; exact R].
    + destruct (documentedb (c_cfg c)) eqn:D; [|reflexivity]. destruct (c_perm c) eqn:P; [|reflexivity].
      cbn. apply Z.eqb_eq. apply H2; [apply documentedb_spec; exact D | reflexivity].
Qed.

(* no recorded (unrepaired) finding for this property: every failing case is a violation *)
Definition finding_code (c : case) : Z := 0.
