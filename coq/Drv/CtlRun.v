(* driver `ctlrun` (C03, C09): the real DefaultFanController.Run in-process, one
   hwmon fan, scenarios driven by the controller's own progress.  The model side
   is Model.Daemon's LTS with one controller on the scenario's schedule. *)
From F2G Require Export Model.Restore Model.Daemon.
From F2G Require Import Drv.Common gen.Consts.
From Coq Require Import Lia.

Record case := mkCase {
  c_exists : bool;
  c_orig : dev;          (* device before Run *)
  c_scn : Z;             (* 1 second load fails after init, 2 second load empty (attach fails), 3 no RPM sensor (sweep, nothing stored),
                            4 control error with the device gone, 5 control error, 6 cancel while ticking,
                            7 placeholder data cannot be saved, 8 initialisation sequence fails,
                            9 never-stop fan stalled at max PWM, 10 ... after the minimum was raised step by step,
                            11 cancelled while a control cycle is in flight (released after the other actors returned),
                            12 cancelled with a tick pending,
                            13 / 14 as 5 / 9, then the controller is kept alive for more than a second before the shutdown,
                            16 as 6 after the database directory has disappeared, 17 / 18 as 6 / 5 while another controller is inside its
                            initialisation sequence (parallel initialisation disabled),
                            15 as 5, the error comes from a real cmd sensor whose command leaves an orphaned child holding its stdout *)
  c_top : Z;             (* PWM at which the start-up activity leaves the fan *)
  o_ret : Z;             (* 0 nil, 1 error, 2 panic, 3 did not return *)
  o_touched : bool;      (* some write reached the fan *)
  o_dev : dev;
  o_evals : Z;           (* curve evaluations (= control cycles) until Run returned *)
  c_norpm : bool;        (* fan without RPM input (no RPM monitor actor) *)
  o_mid : dev;           (* device while the controller still lives, some time after it gave the fan up (scenarios 13/14; else = o_dev) *)
  o_late : dev;          (* device 250 ms after Run returned and everything in flight was released (scenarios 11/12; else = o_dev) *)
  o_mode_tried : bool;   (* after the control error the restore asked the fan for its original mode *)
}.

Definition plan_ok : rplan := mkPlan WOk WOk ROk WOk.
Definition plan_gone : rplan := mkPlan WRefused WRefused ROk WRefused.
Definition mk (fail init skip sweep : bool) (d : dev) : adv := mkAdv fail init skip sweep d ROk ROk 0 plan_ok.

Definition left (c : case) : dev := mkDev (if c_exists c then ControlModePWM else mode (c_orig c)) (c_top c).
Definition a_plain (c : case) : adv := mk false false false false (left c).

Definition sched_of (c : case) : list event :=
  let ok := Advance 0%nat (a_plain c) in
  let ticking := [ok; ok; ok; ok; ok; ok; Tick 0%nat (mkTick (left c) false plan_ok)] in
  match c_scn c with
  | 1 | 2 | 3 => [ok; ok; Advance 0%nat (mk false true false false (left c)); Advance 0%nat (mk true false false false (left c))]
  | 4 => ticking ++ [Tick 0%nat (mkTick (left c) true plan_gone); SigRecv; RpmDone 0%nat]
  | 5 | 9 | 10 | 13 | 14 | 15 | 18 => ticking ++ [Tick 0%nat (mkTick (left c) true plan_ok); SigRecv; RpmDone 0%nat]
  | 6 | 11 | 12 | 16 | 17 => ticking ++ [SigRecv; ok; RpmDone 0%nat]
  | 7 => [ok; ok; Advance 0%nat (mk true true true false (left c))]
  | 8 => [ok; ok; Advance 0%nat (mk true true false false (left c))]
  | _ => []
  end.

(* scenarios 4-6: the driver cancels the context (4, 5: once the restore has begun, so that the RPM monitor
   lets Run return); in the one-controller model the signal actor stands for the canceller *)
Definition start (c : case) : proc :=
  let s := init [(BHwmon, c_exists c, negb ((c_scn c =? 3) || c_norpm c), c_orig c)] 0 in
  if ((4 <=? c_scn c) && (c_scn c <=? 6)) || (9 <=? c_scn c) then mkProc (ctrls s) (mons s) (cancelled s) true (sig_closed s) (sig_done s) (first_done s) (first_err s) (st s) else s.

Definition model (D : Defects) (c : case) : proc := exec D (start c) (sched_of c).

Definition csup (c : case) : bool := mode_supported BHwmon (c_exists c).

Definition agrees (D : Defects) (c : case) : bool :=
  match ctrls (model D c), st (model D c) with
  | [m], Running =>
      is_returned m
      && (o_ret c =? (if c_err m then 1 else 0))
      && Bool.eqb (o_touched c) (c_touched m)
      && (negb (c_touched m)
          || (forallb (fun o => ((c_scn c =? 4) || (pwm (c_dev m) =? pwm o)) && (negb (csup c) || (mode (c_dev m) =? mode o)))
                      [o_dev c; o_mid c; o_late c]))
  | _, _ => false
  end.

Definition mismatch (c : case) : bool := negb (agrees repaired c).

(* never a panic, Run returns; a fan that was touched is handed back or at 255,
   unless the device had vanished (scenario 4: every write of the restore fails) *)
(* the escape of scenario 4 (every write fails) is only available after the hand-back was tried *)
Definition gone_escape (c : case) : bool :=
  (c_scn c =? 4) && (negb (csup c && negb (mode (c_orig c) =? manual)) || o_mode_tried c).

Definition holdsb (c : case) : bool :=
  ((o_ret c =? 0) || (o_ret c =? 1))
  && (negb (o_touched c)
      || forallb (safeb (csup c) (c_orig c)) [o_dev c; o_mid c; o_late c]
      || gone_escape c).

Lemma holdsb_spec c :
  holdsb c = true <->
  (o_ret c = 0 \/ o_ret c = 1) /\
  (o_touched c = true ->
   (safe (csup c) (c_orig c) (o_dev c) /\ safe (csup c) (c_orig c) (o_mid c) /\ safe (csup c) (c_orig c) (o_late c))
   \/ gone_escape c = true).
Proof.
  unfold holdsb. cbn [forallb]. rewrite andb_true_r.
  rewrite andb_true_iff, !orb_true_iff, !andb_true_iff, !Z.eqb_eq, negb_true_iff, !safeb_spec.
  split.
  - intros [R H]. split; [exact R|]. intros T. destruct H as [[H|H]|H]; [congruence|left; tauto|right; exact H].
  - intros [R H]. split; [exact R|]. destruct (o_touched c); [|left; left; reflexivity].
    destruct (H eq_refl) as [S|G]; [left; right; tauto|right; exact G].
Qed.

Definition finding_code (c : case) : Z := 0.
