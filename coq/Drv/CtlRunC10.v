(* driver `ctlrun` judged for C10: in the stalled-at-max scenarios through the real Run
   (9: the request is at the maximum at once, 10: the minimum is raised step by step first)
   the stall must be reported - Run returns without error or panic, the fan is handed back or
   at 255 - within a bounded number of control cycles.  Same case type and model as Drv.CtlRun. *)
From F2G Require Export Drv.CtlRun.
From F2G Require Import Drv.Common gen.Consts.

(* the regulated range of these scenarios is 40..60: at most 20 raises, each needing the request to repeat
   and the RPM average to fall below 1 again (a few cycles each) *)
Definition cycle_bound (c : case) : Z := if c_scn c =? 9 then 4 else 200.

Definition holdsb (c : case) : bool :=
  if (c_scn c =? 9) || (c_scn c =? 10) then
    (o_ret c =? 0) && safeb (csup c) (c_orig c) (o_dev c) && (o_evals c <=? cycle_bound c)
  else true.

Lemma holdsb_spec c :
  holdsb c = true <->
  (c_scn c = 9 \/ c_scn c = 10 ->
   o_ret c = 0 /\ safe (csup c) (c_orig c) (o_dev c) /\ o_evals c <= cycle_bound c).
Proof.
  unfold holdsb. destruct ((c_scn c =? 9) || (c_scn c =? 10)) eqn:E.
  - rewrite !andb_true_iff, Z.eqb_eq, safeb_spec, Z.leb_le.
    apply orb_true_iff in E. rewrite !Z.eqb_eq in E. split; [intros [[A B] C] _; auto|intros H; destruct (H E) as [A [B C]]; auto].
  - apply orb_false_iff in E. destruct E as [E1 E2]. apply Z.eqb_neq in E1. apply Z.eqb_neq in E2.
    split; [intros _ [H|H]; congruence|reflexivity].
Qed.

Definition mismatch (c : case) : bool := Drv.CtlRun.mismatch c.
Definition finding_code (c : case) : Z := 0.
