(* driver `ctrl`: the case type shared by the controller properties (C01 C02 C04
   C05 C10), the model run on the same history, and the comparison of projected
   observables. The per-property observers live in Drv/CtrlCxx.v. *)
From F2G Require Import Drv.Common gen.Consts Model.Util Model.Fan Model.ControlLoop Model.Controller.
From Coq Require Import Lia.

(* named full-size PWM maps (the driver prints the name instead of 256 pairs) *)
Fixpoint zrange_from (a : Z) (n : nat) : list Z :=
  match n with O => [] | S k => a :: zrange_from (a + 1) k end.
Definition pm_of (f : Z -> Z) : list (Z * Z) := map (fun k => (k, f k)) (zrange_from 0 256).
Definition pm_identity := pm_of (fun k => k).
Definition pm_quant (q : Z) := pm_of (fun k => k / q * q).
Definition pm_plateau := pm_of (fun k => if k <? 40 then 0 else if 200 <? k then 255 else k).

Record case := mkCase {
  k_kind : kind; k_never : bool;
  k_cfg_min : option Z; k_cfg_start : option Z; k_cfg_max : option Z;
  k_meas_min : option Z; k_meas_start : option Z; k_meas_max : option Z;
  k_pm : list (Z * Z); k_q : Z; k_alg : alg; k_n : Z;
  k_has_rpm : bool; k_has_mode : bool; k_pwm0 : Z; k_mode0 : Z; k_avg0 : f64;
  k_hist : list hev;
  k_obs : list obs;          (* the implementation's observation after every event *)
}.

(* fans.NewFan followed by the non-forced setters AttachFanRpmCurveData would call *)
Definition case_fan (c : case) : fan :=
  let f0 := mkFan (k_kind c) (k_never c) (k_cfg_min c) (k_cfg_start c) (k_cfg_max c)
                  (k_cfg_min c) (k_cfg_start c) (k_cfg_max c) 0%float 0 (k_has_rpm c) (k_has_mode c) in
  let f1 := match k_meas_start c with Some v => SetStartPwm f0 v false | None => f0 end in
  let f2 := match k_meas_max c with Some v => SetMaxPwm f1 v false | None => f1 end in
  let f3 := match k_meas_min c with Some v => SetMinPwm f2 v false | None => f2 end in
  SetRpmAvg f3 (k_avg0 c).

Definition case_cfg (c : case) : cfg := mkCfg (k_pm c) (k_n c) (k_q c).
Definition case_init (c : case) : st := init_st (case_fan c) (k_alg c) (k_pwm0 c) (k_mode0 c).
Definition model_obs (c : case) : list obs := snd (run (case_cfg c) (case_init c) (k_hist c)).

Definition obs_eqb (a b : obs) : bool :=
  (o_err a =? o_err b) && optZ_eqb (o_req a) (o_req b) && list_eqb Z.eqb (o_writes a) (o_writes b)
  && (o_pwm a =? o_pwm b) && (o_mode a =? o_mode b) && (o_cnt a =? o_cnt b) && (o_offset a =? o_offset b)
  && (o_min a =? o_min b) && feqb (o_avg a) (o_avg b).

Definition mismatch (c : case) : bool := negb (list_eqb obs_eqb (model_obs c) (k_obs c)).

(* events paired with the implementation's observations *)
Fixpoint zip {A B} (l1 : list A) (l2 : list B) : list (A * B) :=
  match l1, l2 with
  | x :: r1, y :: r2 => (x, y) :: zip r1 r2
  | _, _ => []
  end.
