(* observer of C01 on the implementation's own observations (driver `ctrl`) *)
From F2G Require Export Drv.Common gen.Consts Model.Util Model.Fan Model.ControlLoop Model.Controller Drv.Ctrl.
From F2G Require Import Proofs.Closest.
From F2G Require Drv.Closest.
From Coq Require Import Lia.

(* every request of a successful cycle lies in [lo, hi] and every value handed to the fan is
   the map output of a nearest supported input of that request, an integer in 0..255 *)
Definition written_ok (pm : list (Z * Z)) (sup : list Z) (r w : Z) : bool :=
  Closest.written_okb pm sup r (Some w) && (0 <=? w) && (w <=? 255).

Definition cycle_okb (pm : list (Z * Z)) (sup : list Z) (lo hi : Z) (eo : hev * obs) : bool :=
  let '(e, o) := eo in
  match e with
  | Cycle _ =>
      if o_err o =? 0 then
        match o_req o with
        | Some r => (lo <=? r) && (r <=? hi) && forallb (written_ok pm sup r) (o_writes o)
        | None => match o_writes o with [] => true | _ => false end
        end
      else true
  | _ => match o_writes o with [] => true | _ => false end
  end.

(* the limits the property speaks about: the fan's minimum (0 unless neverStop) and maximum at
   the start of regulation *)
Definition holdsb (c : case) : bool :=
  let f := case_fan c in
  let sup := supported (k_pm c) in
  forallb (cycle_okb (k_pm c) sup (GetMinPwm f) (GetMaxPwm f)) (zip (k_hist c) (k_obs c)).

Definition finding_code (c : case) : Z := 0.

(* ---- the observer is exactly the stated property on one (event, observation) pair ---- *)
Definition Holds_cycle (pm : list (Z * Z)) (sup : list Z) (lo hi : Z) (eo : hev * obs) : Prop :=
  let '(e, o) := eo in
  match e with
  | Cycle _ =>
      o_err o = 0 ->
      match o_req o with
      | Some r => lo <= r <= hi
                  /\ Forall (fun w => Closest.Holds_written pm sup r (Some w) /\ 0 <= w <= 255) (o_writes o)
      | None => o_writes o = []
      end
  | _ => o_writes o = []
  end.

Lemma nil_b {A} (l : list A) : match l with [] => true | _ => false end = true <-> l = [].
Proof. destruct l; split; congruence. Qed.

Lemma cycle_okb_spec pm sup lo hi eo : cycle_okb pm sup lo hi eo = true <-> Holds_cycle pm sup lo hi eo.
Proof.
  destruct eo as [e o]. unfold cycle_okb, Holds_cycle. destruct e as [rpm|i|m p]; try apply nil_b.
  destruct (o_err o =? 0) eqn:E.
  - apply Z.eqb_eq in E. destruct (o_req o) as [r|].
    + rewrite !andb_true_iff, !Z.leb_le, forallb_forall, Forall_forall. split.
      * intros [[A B] C] _. split; [lia|]. intros w Hw. specialize (C w Hw). unfold written_ok in C.
        rewrite !andb_true_iff, !Z.leb_le in C. destruct C as [[C1 C2] C3].
        split; [apply Closest.written_okb_spec; exact C1|lia].
      * intros H. destruct (H E) as [[A B] C]. repeat split; auto. intros w Hw. destruct (C w Hw) as [C1 C2].
        unfold written_ok. rewrite !andb_true_iff, !Z.leb_le. repeat split; try lia.
        apply Closest.written_okb_spec; exact C1.
    + rewrite nil_b. split; auto.
  - apply Z.eqb_neq in E. split; auto. intros _ E'. contradiction.
Qed.

Theorem holdsb_spec c :
  holdsb c = true <->
  Forall (Holds_cycle (k_pm c) (supported (k_pm c)) (GetMinPwm (case_fan c)) (GetMaxPwm (case_fan c)))
         (zip (k_hist c) (k_obs c)).
Proof.
  unfold holdsb. cbv zeta. rewrite forallb_forall, Forall_forall.
  split; intros H x Hx; apply cycle_okb_spec; auto.
Qed.
