(* second observer of C01 on the implementation's observations (driver `ctrl`): what ENDS UP in the fan's PWM
   control after a control cycle that wrote successfully is exactly the value handed to the fan (passed
   through the device's response function of the case), hence an integer in 0..255 — the write itself must
   not mangle the value (e.g. leave stale digits behind, write a different representation). *)
From F2G Require Export Drv.Common gen.Consts Model.Util Model.Fan Model.ControlLoop Model.Controller Drv.Ctrl.
From Coq Require Import Lia.
From F2G Require Drv.CtrlC05.

Definition dev_okb (pm : list (Z * Z)) (sup : list Z) (q : Z) (eo : hev * obs) : bool :=
  let '(e, o) := eo in
  match e with
  | Cycle i =>
      if (o_err o =? 0) && ci_write_ok i
      then match o_req o with
           | Some r =>
               (* the control shows the device's response to the map output of a nearest supported input *)
               existsb (fun w => o_pwm o =? (w / q) * q) (CtrlC05.cands pm sup r)
               && (0 <=? o_pwm o) && (o_pwm o <=? 255)
               && match o_writes o with [w] => o_pwm o =? (w / q) * q | _ => true end
           | None => true
           end
      else true
  | _ => true
  end.

(* after the first cycle that ended in an error the controller has stopped regulating: nothing is judged *)
Fixpoint dev_scan (pm : list (Z * Z)) (sup : list Z) (q : Z) (l : list (hev * obs)) : bool :=
  match l with
  | [] => true
  | (e, o) :: r =>
      match e with
      | Cycle _ => if o_err o =? 0 then dev_okb pm sup q (e, o) && dev_scan pm sup q r else true
      | _ => dev_scan pm sup q r
      end
  end.

Definition holdsb (c : case) : bool :=
  (* maps whose outputs lie in 0..255 only (all generated maps) and which the device of the case reads back
     (every map output is a fixed point of the device's response x -> x/q*q): with another map a cycle that
     finds the expected value already in the control skips the write, and the content is then not of the form
     w/q*q (Props/C01Link.v, C01_dev_needs_reads_back) *)
  if forallb (fun kv => (0 <=? snd kv) && (snd kv <=? 255)) (k_pm c) && CtrlC05.reads_backb (k_pm c) (k_q c)
  then dev_scan (k_pm c) (supported (k_pm c)) (k_q c) (zip (k_hist c) (k_obs c))
  else true.

Definition mismatch (c : case) : bool := false.
Definition finding_code (c : case) : Z := 0.
