(* observer of C02 on the implementation's own observations (driver `ctrl`) *)
From F2G Require Export Drv.Common gen.Consts Model.Util Model.Fan Model.ControlLoop Model.Controller Drv.Ctrl.
From Coq Require Import Lia.

(* one observation against the previous one: the minimum never drops, the number of raises never
   decreases, every request is at least minimum-at-start + raises-so-far, and at a raise the new request
   is strictly higher than the request at which the fan stalled *)
Definition c02_stepb (min0 : Z) (prev o : obs) : bool :=
  (o_min prev <=? o_min o)
  && (o_offset prev <=? o_offset o)
  && (match o_req o with Some r => min0 + o_offset o <=? r | None => true end)
  && (if o_offset prev <? o_offset o
      then match o_req prev, o_req o with Some l, Some r => l <? r | _, _ => false end
      else true).

Fixpoint c02_scan (min0 : Z) (prev : obs) (l : list obs) : bool :=
  match l with [] => true | o :: r => c02_stepb min0 prev o && c02_scan min0 o r end.

Definition obs0 (min0 : Z) : obs := mkObs 0 None [] 0 0 0 0 min0 0%float.

Definition holdsb (c : case) : bool :=
  let min0 := GetMinPwm (case_fan c) in c02_scan min0 (obs0 min0) (k_obs c).

Definition finding_code (c : case) : Z := 0.

(* the observer is exactly this Prop *)
Definition C02_step (min0 : Z) (prev o : obs) : Prop :=
  o_min prev <= o_min o /\ o_offset prev <= o_offset o
  /\ (forall r, o_req o = Some r -> min0 + o_offset o <= r)
  /\ (o_offset prev < o_offset o -> exists l r, o_req prev = Some l /\ o_req o = Some r /\ l < r).

Fixpoint C02_chain (min0 : Z) (prev : obs) (l : list obs) : Prop :=
  match l with [] => True | o :: r => C02_step min0 prev o /\ C02_chain min0 o r end.

Lemma c02_stepb_spec min0 prev o : c02_stepb min0 prev o = true <-> C02_step min0 prev o.
Proof.
  unfold c02_stepb, C02_step. rewrite !andb_true_iff, !Z.leb_le. split.
  - intros [[[A B] C] D]. repeat split; auto.
    + intros r E. rewrite E in C. now apply Z.leb_le in C.
    + intros L. apply Z.ltb_lt in L. rewrite L in D.
      destruct (o_req prev) as [l|]; [|discriminate]. destruct (o_req o) as [r|]; [|discriminate].
      apply Z.ltb_lt in D. eauto.
  - intros (A & B & C & D). repeat split; auto.
    + destruct (o_req o) as [r|]; auto. apply Z.leb_le. auto.
    + destruct (o_offset prev <? o_offset o) eqn:L; auto. apply Z.ltb_lt in L.
      destruct (D L) as (l & r & -> & -> & Hlr). now apply Z.ltb_lt.
Qed.

Theorem holdsb_spec c :
  holdsb c = true <-> C02_chain (GetMinPwm (case_fan c)) (obs0 (GetMinPwm (case_fan c))) (k_obs c).
Proof.
  unfold holdsb. cbv zeta. generalize (obs0 (GetMinPwm (case_fan c))) as prev.
  induction (k_obs c) as [|o r IH]; intros prev; cbn [c02_scan C02_chain]; [tauto|].
  rewrite andb_true_iff, c02_stepb_spec, IH. tauto.
Qed.
