(* observer of C04 on the implementation's own observations (driver `ctrl`): within every maximal
   run of consecutive control cycles with the same curve value (and no stall raise) the requests
   behave as the property says. The PID rule is exploration, not backed by a theorem (DESIGN C04). *)
From F2G Require Export Drv.Common gen.Consts Model.Util Model.Fan Model.ControlLoop Model.Controller Drv.Ctrl.
From Coq Require Import Lia.

Record c04_st := mkC04 {
  q_prev : obs;            (* observation before the event *)
  q_v : option Z;          (* curve value of the current run *)
  q_len : Z;               (* cycles in the current run *)
  q_mindt : Z; q_maxdt : Z;
  q_stopped : bool;
  q_dts_ok : bool;         (* every control cycle so far had a tick period in 50 ms .. 2 s *)
}.

Definition is_default_pid (s : pidst) : bool :=
  feqb (kp s) DefaultPidP && feqb (ki s) DefaultPidI && feqb (kd s) DefaultPidD.

(* cycles after which the default PID is expected within one step (from simulation; exploration only) *)
Definition pid_settle_cycles (mindt : Z) : Z :=
  if 500000000 <=? mindt then 450 else 3100.

Definition c04_cycleb (a : alg) (hi : Z) (q : c04_st) (i : cin) (o : obs) : bool * c04_st :=
  if q_stopped q then (true, q)
  else if negb (o_err o =? 0) then (true, mkC04 o None 0 0 0 true false)
  else
    let p := q_prev q in
    let dts := q_dts_ok q && (50000000 <=? ci_dt i) && (ci_dt i <=? 2000000000) in
    if negb (o_offset o =? o_offset p) then (true, mkC04 o None 0 0 0 false dts)      (* stall raise: C02/C10 *)
    else
      let same := match q_v q, ci_curve i with Some a, Some b => a =? b | _, _ => false end in
      let j := if same then q_len q + 1 else 1 in
      let mindt := if same then Z.min (q_mindt q) (ci_dt i) else ci_dt i in
      let maxdt := if same then Z.max (q_maxdt q) (ci_dt i) else ci_dt i in
      let q' := mkC04 o (ci_curve i) j mindt maxdt false dts in
      match ci_curve i, o_req o with
      | Some v, Some r =>
          let S := steady v (o_min o + o_offset o) hi in
          let ok :=
            match a with
            | Direct None => r =? S
            | Direct (Some c) =>
                (if 2 <=? j
                 then match o_req p with
                      | Some r0 => (Z.abs (r - r0) <=? c) && (((r0 <=? r) && (r <=? S)) || ((S <=? r) && (r <=? r0)))
                      | None => true
                      end
                 else true)
                && (if 255 <=? (j - 1) * c then r =? S else true)
            | PidA s =>
                if is_default_pid s && dts
                   && (pid_settle_cycles mindt <=? j)
                then Z.abs (r - S) <=? 1 else true
            | Oracle _ => true
            end in
          (ok, q')
      | _, _ => (true, q')
      end.

Fixpoint c04_scan (a : alg) (hi : Z) (q : c04_st) (l : list (hev * obs)) : bool :=
  match l with
  | [] => true
  | (e, o) :: r =>
      match e with
      | Cycle i => let '(ok, q') := c04_cycleb a hi q i o in ok && c04_scan a hi q' r
      | _ => c04_scan a hi (mkC04 o (q_v q) (q_len q) (q_mindt q) (q_maxdt q) (q_stopped q) (q_dts_ok q)) r
      end
  end.

Definition holdsb (c : case) : bool :=
  c04_scan (k_alg c) (GetMaxPwm (case_fan c))
           (mkC04 (mkObs 0 None [] (k_pwm0 c) (k_mode0 c) 0 0 (GetMinPwm (case_fan c)) 0%float) None 0 0 0 false true)
           (zip (k_hist c) (k_obs c)).

Definition finding_code (c : case) : Z := 0.
