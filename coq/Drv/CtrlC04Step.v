(* second observer of C04 on the implementation's observations (driver `ctrl`): with maxPwmChangePerCycle = c set,
   CONSECUTIVE requests never differ by more than c — also across a change of the curve value (Drv/CtrlC04.v judges
   the steps inside a run of equal curve values only). Two consecutive ordinary cycles are compared: both ended
   without error, neither performed a stall raise, both had a curve value and a request. (The limit acts on the
   control loop's 0..255 output; the re-mapping into the fan's range is monotone and never stretches a distance.) *)
From F2G Require Export Drv.Common gen.Consts Model.Util Model.Fan Model.ControlLoop Model.Controller Drv.Ctrl.
From Coq Require Import Lia.

Fixpoint step_scan (c : Z) (armed : bool) (p : obs) (l : list (hev * obs)) : bool :=
  match l with
  | [] => true
  | (Cycle i, o) :: r =>
      let ordinary := (o_err o =? 0) && (o_offset o =? o_offset p) && is_some (ci_curve i) && is_some (o_req o) in
      (if armed && ordinary
       then match o_req p, o_req o with Some r0, Some r1 => Z.abs (r1 - r0) <=? c | _, _ => true end
       else true)
      && (if o_err o =? 0 then step_scan c ordinary o r else true)
  | (_, o) :: r => step_scan c armed o r
  end.

Definition holdsb (c : case) : bool :=
  match k_alg c with
  | Direct (Some lim) =>
      (* a negative limit is not a limit (the loop then moves by |lim|): not judged; Props/C04Link.v C04_step_needs_lim_ok *)
      if lim <? 0 then true else
      step_scan lim false (mkObs 0 None [] (k_pwm0 c) (k_mode0 c) 0 0 (GetMinPwm (case_fan c)) 0%float)
                (zip (k_hist c) (k_obs c))
  | _ => true
  end.

(* the comparison with the model is done by Drv.CtrlC04 on the same cases *)
Definition mismatch (c : case) : bool := false.
Definition finding_code (c : case) : Z := 0.
