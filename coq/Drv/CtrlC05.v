(* observer of C05 on the implementation's own observations (driver `ctrl`) *)
From F2G Require Export Drv.Common gen.Consts Model.Util Model.Fan Model.ControlLoop Model.Controller Drv.Ctrl.
From F2G Require Import Proofs.Closest.
From F2G Require Drv.Closest.
From Coq Require Import Lia.

(* outputs of the PWM map at the supported inputs nearest to r (two when equidistant) *)
Definition cands (pm : list (Z * Z)) (sup : list Z) (r : Z) : list Z :=
  let d := Closest.mind sup r in
  map (lookup pm) (filter (fun k => Z.abs (k - r) <=? d) sup).

Definition reads_backb (pm : list (Z * Z)) (q : Z) : bool :=
  forallb (fun kv => (snd kv / q) * q =? snd kv) pm.

Record scan_st := mkScan { sc_prev : obs; sc_stopped : bool }.

Definition c05_evb (pm : list (Z * Z)) (sup : list Z) (rb has_mode : bool) (sc : scan_st) (e : hev) (o : obs) : bool :=
  let p := sc_prev sc in
  let delta := o_cnt o - o_cnt p in
  match e with
  | Cycle i =>
      if sc_stopped sc then delta =? 0
      else
        (0 <=? delta) && (delta <=? 1)
        && match o_req p with
           | Some l =>
               let cs := cands pm sup l in
               if forallb (fun w => w =? o_pwm p) cs then delta =? 0                        (* nothing changed: never counted *)
               else if ci_read_ok i && is_some (ci_curve i) && forallb (fun w => negb (w =? o_pwm p)) cs
                    then delta =? 1                                                          (* changed PWM value: counted *)
                    else true
           | None => delta =? 0
           end
        && (if (o_err o =? 0) && ci_write_ok i && rb
            then match o_req o with
                 | Some r => existsb (fun w => w =? o_pwm o) (cands pm sup r)               (* PWM re-asserted *)
                 | None => false
                 end
            else true)
        && (if (o_err o =? 0) && has_mode && ci_mode_ok i then o_mode o =? ControlModePWM else true)   (* manual mode re-asserted *)
  | _ => delta =? 0
  end.

Fixpoint c05_scan pm sup rb hm (sc : scan_st) (l : list (hev * obs)) : bool :=
  match l with
  | [] => true
  | (e, o) :: r =>
      c05_evb pm sup rb hm sc e o
      && c05_scan pm sup rb hm (mkScan o (sc_stopped sc || match e with Cycle _ => negb (o_err o =? 0) | _ => false end)) r
  end.

Definition holdsb (c : case) : bool :=
  let pm := k_pm c in
  c05_scan pm (supported pm) (reads_backb pm (k_q c)) (k_has_mode c && match k_kind c with HwMon => true | _ => false end)
           (mkScan (mkObs 0 None [] (k_pwm0 c) (k_mode0 c) 0 0 0 0%float) false)
           (zip (k_hist c) (k_obs c)).

Definition finding_code (c : case) : Z := 0.

(* [cands] is exactly the set of outputs at nearest supported inputs *)
Lemma cands_spec pm sup r w :
  In w (cands pm sup r) <-> exists k, nearest sup r k /\ lookup pm k = w.
Proof.
  unfold cands. cbv zeta. rewrite in_map_iff. split.
  - intros (k & E & Hin). apply filter_In in Hin. destruct Hin as [Hin Hd].
    exists k. split; auto. apply (Closest.mind_nearest sup r k Hin). exact Hd.
  - intros (k & Hn & E). exists k. split; auto. apply filter_In. split; [apply Hn|].
    apply (Closest.mind_nearest sup r k); [apply Hn|exact Hn].
Qed.
