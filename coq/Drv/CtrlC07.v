(* observer of C07 (last clause) on the implementation's observations of the `ctrl` driver: with the
   direct control algorithm (no rate limit) the REQUESTED PWM is non-decreasing in the curve value — in
   whatever state the controller is (after any history, with any number of stall raises), as long as the
   number of raises stays the same between the two cycles compared — and the WRITTEN value follows for a
   non-decreasing PWM map. (The curvesctrl driver checks this on fresh controllers; here it is checked
   after arbitrary histories: stall episodes, recoveries, interference, faults.) *)
From F2G Require Export Drv.Common gen.Consts Model.Util Model.Fan Model.ControlLoop Model.Controller Drv.Ctrl.
From Coq Require Import Lia.

(* successful direct-algorithm cycles as (raises, curve value, request, written-or-shown value) *)
(* [off] = number of raises before the event; the cycle that performs a raise issues "stalled request + 1",
   which is not a function of the curve value alone, so it is not a comparison point *)
(* the written value of a point is comparable when the cycle's own write succeeded: whatever happened before
   (failed writes, foreign writers), such a cycle leaves the fan at the map's output for its request (C05) *)
Fixpoint c07_points (off : Z) (l : list (hev * obs)) : list (Z * Z * Z * Z * bool) :=
  match l with
  | [] => []
  | (Cycle i, o) :: r =>
      if negb (o_err o =? 0) then []
      else match ci_curve i, o_req o with
           | Some v, Some q =>
               if o_offset o =? off then (o_offset o, v, q, o_pwm o, ci_write_ok i) :: c07_points (o_offset o) r
               else c07_points (o_offset o) r
           | _, _ => c07_points (o_offset o) r
           end
  | (_, o) :: r => c07_points (o_offset o) r
  end.

(* the cycles that PERFORM a raise, as (raises after it, curve value, request): the request issued there is the stalled
   request plus one, i.e. one above what the curve value alone gives with the old floor. Against the ordinary points with
   the new floor it may therefore be at most one step too high, and never too low. *)
Fixpoint c07_raise_points (off : Z) (l : list (hev * obs)) : list (Z * Z * Z) :=
  match l with
  | [] => []
  | (Cycle i, o) :: r =>
      if negb (o_err o =? 0) then []
      else match ci_curve i, o_req o with
           | Some v, Some q =>
               if off <? o_offset o then (o_offset o, v, q) :: c07_raise_points (o_offset o) r
               else c07_raise_points (o_offset o) r
           | _, _ => c07_raise_points (o_offset o) r
           end
  | (_, o) :: r => c07_raise_points (o_offset o) r
  end.

Definition c07_raise_ok (rps : list (Z * Z * Z)) (pts : list (Z * Z * Z * Z * bool)) : bool :=
  forallb (fun rp => let '(o1, v1, r1) := rp in
    forallb (fun p2 => let '(o2, v2, r2, w2, k2) := p2 in
      if o1 =? o2
      then (if v1 <=? v2 then r1 - 1 <=? r2 else true) && (if v2 <=? v1 then r2 <=? r1 else true)
      else true) pts) rps.

Fixpoint nondec_snd (pm : list (Z * Z)) : bool :=
  match pm with
  | (_, v1) :: (((_, v2) :: _) as r) => (v1 <=? v2) && nondec_snd r
  | _ => true
  end.

(* every pair of points with the same number of raises is ordered consistently *)
Definition c07_pairs_ok (check_written : bool) (pts : list (Z * Z * Z * Z * bool)) : bool :=
  forallb (fun p1 => let '(o1, v1, r1, w1, k1) := p1 in
    forallb (fun p2 => let '(o2, v2, r2, w2, k2) := p2 in
      if (o1 =? o2) && (v1 <=? v2) then (r1 <=? r2) && (if check_written && k1 && k2 then w1 <=? w2 else true) else true) pts) pts.

Definition holdsb (c : case) : bool :=
  match k_alg c with
  | Direct None =>
      c07_pairs_ok (nondec_snd (k_pm c) && (k_q c =? 1)) (c07_points 0 (zip (k_hist c) (k_obs c)))
      && c07_raise_ok (c07_raise_points 0 (zip (k_hist c) (k_obs c))) (c07_points 0 (zip (k_hist c) (k_obs c)))
  | _ => true
  end.

Definition finding_code (c : case) : Z := 0.
