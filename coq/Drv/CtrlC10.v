(* observer of C10 on the implementation's own observations (driver `ctrl`) *)
From F2G Require Export Drv.Common gen.Consts Model.Util Model.Fan Model.ControlLoop Model.Controller Drv.Ctrl.
From Coq Require Import Lia.

Definition below_one (x : f64) : bool := PrimFloat.ltb x 1%float.

(* R1  a cycle of a never-stop fan with an RPM sensor that finds the average below 1 RPM cannot leave the
       request as it was: it moves it (curve changed), raises it, or reports the stall at maximum;
   R1' a stall error is only reported with the request at the maximum;
   R2  a poll reading 0 RPM: file/cmd fans show an average of 0 afterwards; hwmon fans' average, when it
       was at least 1, shrinks at least by the factor (1 - 1/(2n)) (and never grows);
   R3  a raise moves the request up by exactly one step and happens only below the maximum. *)
Definition c10_evb (armed : bool) (kindHw : bool) (n hi : Z) (stopped : bool) (p : obs) (e : hev) (o : obs) : bool :=
  match e with
  | Cycle i =>
      if stopped || negb armed then true
      else
        (if o_err o =? 0
         then (if below_one (o_avg p) && is_some (o_req p) && is_some (ci_curve i)
               then negb (optZ_eqb (o_req o) (o_req p)) else true)
              && (if o_offset p <? o_offset o
                  then match o_req p, o_req o with Some l, Some r => (r =? l + 1) && (l <? hi) | _, _ => false end
                  else true)
         else if o_err o =? 1
              then match o_req p with Some l => hi <=? l | None => false end
              else true)
  | Poll (Some 0) =>
      if kindHw
      then (if PrimFloat.leb 1%float (o_avg p)
            then PrimFloat.leb (PrimFloat.mul (o_avg o) (i2f (2 * n))) (PrimFloat.mul (o_avg p) (i2f (2 * n - 1)))
                 || (n =? 1) && feqb (o_avg o) 0%float
            else PrimFloat.leb (o_avg o) (o_avg p) && PrimFloat.leb 0%float (o_avg o))
      else feqb (o_avg o) 0%float
  | _ => true
  end.

Fixpoint c10_scan armed kindHw n hi (stopped : bool) (p : obs) (l : list (hev * obs)) : bool :=
  match l with
  | [] => true
  | (e, o) :: r =>
      c10_evb armed kindHw n hi stopped p e o
      && c10_scan armed kindHw n hi (stopped || match e with Cycle _ => negb (o_err o =? 0) | _ => false end) o r
  end.

Definition holdsb (c : case) : bool :=
  let f := case_fan c in
  c10_scan (k_never c && k_has_rpm c) (match k_kind c with HwMon => true | _ => false end) (k_n c) (GetMaxPwm f) false
           (mkObs 0 None [] (k_pwm0 c) (k_mode0 c) 0 0 (GetMinPwm f) (GetRpmAvg f))
           (zip (k_hist c) (k_obs c)).

Definition finding_code (c : case) : Z := 0.
