(* third observer of C10 on the implementation's observations (driver `ctrl`): a raise is KEPT. The property says
   fan2go "keeps raising [its request] step by step while the fan still reports 0 RPM ... until the fan reports
   rotation or the fan's maximum PWM is reached"; a raise that is silently handed back (the number of raises going
   down again) sends a standing fan back to the value at which it stalled. In the model the number of raises never
   decreases, whatever happens (Proofs/Ctrl.v, raise_rel). *)
From F2G Require Export Drv.Common gen.Consts Model.Util Model.Fan Model.ControlLoop Model.Controller Drv.Ctrl.

Fixpoint keep_scan (prev : Z) (l : list obs) : bool :=
  match l with
  | [] => true
  | o :: r => (prev <=? o_offset o) && keep_scan (o_offset o) r
  end.

Definition holdsb (c : case) : bool := keep_scan 0 (k_obs c).

(* the comparison with the model is done by Drv.CtrlC10 on the same cases *)
Definition mismatch (c : case) : bool := false.
Definition finding_code (c : case) : Z := 0.
