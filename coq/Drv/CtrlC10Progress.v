(* second observer of C10 on the implementation's observations (driver `ctrl`): PROGRESS of the raises.
   While a never-stop fan with an RPM sensor keeps reading 0 RPM and the curve value stays the same (direct
   algorithm without rate limit, so the loop output is constant), the request must keep being pushed: over
   k consecutive control cycles that each find the RPM average below 1, the number of raises grows by at
   least (k - 2) / 2 — or the run ends with the stall error at the maximum. (In the model a raise happens at
   least every second such cycle: after a raise the re-mapped request is either the raised one again, which is
   checked at once, or one below, which is restored and checked in the following cycle.) *)
From F2G Require Export Drv.Common gen.Consts Model.Util Model.Fan Model.ControlLoop Model.Controller Drv.Ctrl.
From Coq Require Import Lia.

Record prog_st := mkProg {
  g_prev : obs;
  g_k : Z;                (* qualifying cycles in the current streak *)
  g_off0 : Z;             (* raises before the streak *)
  g_floor0 : Z;           (* fan minimum + raises at the start of the streak *)
  g_curve : option Z;
  g_moved : bool;         (* a poll with non-zero / failed reading since the last cycle *)
  g_stopped : bool;
}.

Definition below1 (x : f64) : bool := PrimFloat.ltb x 1%float.

Definition prog_evb (armed : bool) (hi : Z) (q : prog_st) (e : hev) (o : obs) : bool * prog_st :=
  match e with
  | Poll (Some 0) => (true, mkProg o (g_k q) (g_off0 q) (g_floor0 q) (g_curve q) (g_moved q) (g_stopped q))
  | Poll _ => (true, mkProg o 0 (o_offset o) 0 None true (g_stopped q))
  | Ext _ _ => (true, mkProg o 0 (o_offset o) 0 None true (g_stopped q))
  | Cycle i =>
      if g_stopped q || negb armed then (true, mkProg o 0 0 0 None false true)
      else if negb (o_err o =? 0) then (true, mkProg o 0 0 0 None false true)
      else
        let p := g_prev q in
        let same := match g_curve q, ci_curve i with Some a, Some b => a =? b | None, Some _ => true | _, _ => false end in
        if below1 (o_avg p) && same && negb (g_moved q) && is_some (o_req p)
        then
          let off0 := if g_k q =? 0 then o_offset p else g_off0 q in
          let floor0 := if g_k q =? 0 then o_min p + o_offset p else g_floor0 q in
          let k := g_k q + 1 in
          (* (a) raises keep coming; (b) the walk to the maximum ends: after more than 2*(max - floor0 + 1) + 4 such
             cycles the run must have stopped with the stall error (this cycle still reports success) *)
          ((k <=? 2 * (o_offset o - off0) + 2) && (k <=? 2 * (hi - floor0 + 1) + 4),
           mkProg o k off0 floor0 (ci_curve i) false false)
        else (true, mkProg o 0 (o_offset o) 0 (ci_curve i) false false)
  end.

Fixpoint prog_scan (armed : bool) (hi : Z) (q : prog_st) (l : list (hev * obs)) : bool :=
  match l with
  | [] => true
  | (e, o) :: r => let '(ok, q') := prog_evb armed hi q e o in ok && prog_scan armed hi q' r
  end.

Definition holdsb (c : case) : bool :=
  let f := case_fan c in
  let armed := k_never c && k_has_rpm c && match k_alg c with Direct None => true | _ => false end in
  prog_scan armed (GetMaxPwm f) (mkProg (mkObs 0 None [] (k_pwm0 c) (k_mode0 c) 0 0 (GetMinPwm f) (GetRpmAvg f)) 0 0 0 None false false)
            (zip (k_hist c) (k_obs c)).

(* the comparison with the model is done by Drv.CtrlC10 on the same cases *)
Definition mismatch (c : case) : bool := false.
Definition finding_code (c : case) : Z := 0.
