(* observer-only module for the `ctrllag` driver (C07, last clause): the same histories as the `ctrl` driver, run
   against an ASYNCHRONOUS fan — the first read of the PWM control after a write still shows the previous content.
   The controller model assumes a device that reads back at once, so these observations are not compared with the
   model (mismatch is constantly false); what is judged is only what C07 states and what does not depend on reads:
   requests and written values of successful direct-algorithm cycles are non-decreasing in the curve value
   (Drv/CtrlC07.v). *)
From F2G Require Export Drv.CtrlC07.

Definition holdsb (c : case) : bool := CtrlC07.holdsb c.
Definition mismatch (c : case) : bool := false.
Definition finding_code (c : case) : Z := 0.
