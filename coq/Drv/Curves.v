(* driver `curves` (C06): case type, model-vs-implementation comparison and the verified
   boolean observer of "within 0..255 and equal to the documented function", judged on the
   implementation's own observations.  The documented function is evaluated in EXACT
   rational arithmetic (every finite float64 is a rational n/d), independently of the float
   model, so the observer does not inherit a modelling slip. *)
From F2G Require Export Drv.Common Model.Util Model.ControlLoop Model.Curves.
From F2G Require Import Proofs.CurveFn.
From Coq Require Import Lia SpecFloat.

Record evstep := mkEv {
  ev_dt : Z;                 (* ns the clock advances before the call *)
  ev_env : env;              (* sensor states during the call *)
  o_kind : Z;                (* impl: 0 value, 1 error, 2 panic *)
  o_val : Z;                 (* impl: returned value *)
  o_cur : Z;                 (* impl: CurrentValue() after the call *)
  o_mvals : list Z;          (* impl: CurrentValue() of the root's direct members after the call *)
}.
Record case := mkCase { c_graph : graph; c_root : Z; c_evs : list evstep }.

Definition fuel_of (g : graph) : nat := S (length g).

Definition out_kind (o : outcome) : Z * Z :=
  match o with Val v => (0, v) | Err v => (1, v) | Crash => (2, 0) | OutOfFuel => (3, 0) end.

(* one row of the model's run: what the model predicts for one call *)
Record mrow := mkRow {
  m_kind : Z; m_val : Z; m_cur : Z;
  m_nan : bool;                  (* some PID term was NaN in this call *)
  m_mvals : option (list Z);     (* root function curve, successful call: the member values, in order *)
}.

(* the member values of a root function curve in this call (the tree evaluator on the unfolding;
   by geval_unfold the same evaluation the registry performs) *)
Definition model_mvals (t : option curve) (e : env) (now : Z) (st : rtstate) : option (list Z) :=
  match t with
  | Some (Fn _ ms) => match eval_members ms e now st with (MVals vs, _) => Some vs | _ => None end
  | _ => None
  end.

Fixpoint model_run (g : graph) (root : Z) (t : option curve) (evs : list evstep) (s : runst) : list mrow :=
  match evs with
  | [] => []
  | ev :: r =>
      let s0 := mkRun (mkRts (rt_pids (ru_rt s)) false) (ru_now s) (ru_cur s) in
      let '(o, s') := run_step (fun rt now => geval (fuel_of g) g root (ev_env ev) now rt) s0 (ev_dt ev) in
      let '(k, v) := out_kind o in
      mkRow k v (ru_cur s') (rt_nan (ru_rt s')) (model_mvals t (ev_env ev) (ru_now s') (ru_rt s0))
      :: model_run g root t r s'
  end.

Fixpoint all2b {A B} (f : A -> B -> bool) (l1 : list A) (l2 : list B) : bool :=
  match l1, l2 with
  | [], [] => true
  | x :: r1, y :: r2 => f x y && all2b f r1 r2
  | _, _ => false
  end.

(* the members' CurrentValue() is compared when the call succeeded (every member was evaluated) *)
Definition ev_agrees (m : mrow) (ev : evstep) : bool :=
  (m_kind m =? o_kind ev) && (m_val m =? o_val ev) && (m_cur m =? o_cur ev)
  && match m_mvals m with
     | Some vs => if m_kind m =? 0 then list_eqb Z.eqb vs (o_mvals ev) else true
     | None => true
     end.

Definition tree_of_gr (g : graph) (root : Z) : option curve := unfold (fuel_of g) g root.

Definition model_rows (g : graph) (root : Z) (evs : list evstep) : list mrow :=
  model_run g root (tree_of_gr g root) evs init_run.

Definition mismatch (c : case) : bool :=
  negb (all2b ev_agrees (model_rows (c_graph c) (c_root c) (c_evs c)) (c_evs c)).

(* ---- exact rationals ---- *)
Definition f2q (x : f64) : option (Z * Z) :=      (* value = n / d, d > 0 *)
  match Prim2SF x with
  | S754_zero _ => Some (0, 1)
  | S754_finite s m e =>
      let n := if s then - Z.pos m else Z.pos m in
      if 0 <=? e then Some (n * 2 ^ e, 1) else Some (n, 2 ^ (- e))
  | _ => None
  end.

Definition finiteb (x : f64) : bool := match f2q x with Some _ => true | None => false end.

(* ---- well-formedness: the quantifier of the property ---- *)
Fixpoint keys_sortedb (l : list (Z * f64)) : bool :=
  match l with
  | (k, _) :: (((k', _) :: _) as r) => (k <? k') && keys_sortedb r
  | _ => true
  end.
Definition speed_okb (y : f64) : bool := PrimFloat.leb 0 y && PrimFloat.leb y 255.
Definition big : Z := 2 ^ 40.
Definition kbig : Z := 2 ^ 20.        (* step temperatures: |key| < 2^20 degrees *)

Definition wf_linb (c : lincfg) : bool :=
  match l_steps c with
  | None => (l_min c <? l_max c) && (- big <? l_min c) && (l_max c <? big)
  | Some steps => negb (match steps with [] => true | _ => false end)
                  && forallb (fun kv => speed_okb (snd kv) && (- kbig <? fst kv) && (fst kv <? kbig)) steps
                  && keys_sortedb steps
  end.
Definition wf_pidb (c : pidcfg) : bool :=
  finiteb (p_set c) && finiteb (p_kp c) && finiteb (p_ki c) && finiteb (p_kd c).

Fixpoint wfb (t : curve) : bool :=
  match t with
  | Lin c => wf_linb c
  | PidC c => wf_pidb c
  | Fn _ ms => negb (match ms with [] => true | _ => false end)
               && (Z.of_nat (length ms) <? big)
               && (fix go (l : list curve) : bool := match l with [] => true | m :: r => wfb m && go r end) ms
  end.

(* every sensor the tree reads is registered and delivers a finite value *)
Fixpoint sens_okb (e : env) (t : curve) : bool :=
  match t with
  | Lin c => match lookup_sensor e (l_sensor c) with Some s => finiteb (s_avg s) | None => false end
  | PidC c => match lookup_sensor e (p_sensor c) with
              | Some s => match s_val s with Some v => finiteb v | None => false end
              | None => false end
  | Fn _ ms => (fix go (l : list curve) : bool := match l with [] => true | m :: r => sens_okb e m && go r end) ms
  end.

Definition in255b (v : Z) : bool := (0 <=? v) && (v <=? 255).

(* ---- the documented linear functions, exactly ---- *)
(* min/max form at T = n/d (milli-degrees), a = min*1000, b = (max-min)*1000 > 0:
   255 at/above max, 0 at/below min, else -1 - 2^-40 < v - 255*(T-a)/b < 2^-40 *)
Definition lin_mm_okb (mn mx : Z) (n d v : Z) : bool :=
  let a := mn * 1000 in let b := (mx - mn) * 1000 in
  if (a + b) * d <=? n then v =? 255
  else if n <=? a * d then v =? 0
  else
    let N := 255 * (n - a * d) in let D := b * d in
    ((v * D - N) * big <? D) && (- D <? ((v + 1) * D - N) * big).

(* the piecewise-linear interpolant through the steps at x = xn/xd (degrees), as a fraction *)
Fixpoint interp_q (first : bool) (steps : list (Z * (Z * Z))) (xn xd : Z) : option (Z * Z) :=
  match steps with
  | [] => None
  | [(_, y)] => Some y
  | (k0, (y0n, y0d)) :: (((k1, (y1n, y1d)) :: _) as rest) =>
      if first && (xn <=? k0 * xd) then Some (y0n, y0d)
      else if k1 * xd <=? xn then interp_q false rest xn xd
      else
        let W := xd * (k1 - k0) in
        Some (y0n * y1d * W + (xn - k0 * xd) * (y1n * y0d - y0n * y1d), y0d * y1d * W)
  end.

Fixpoint steps_q (steps : list (Z * f64)) : option (list (Z * (Z * Z))) :=
  match steps with
  | [] => Some []
  | (k, y) :: r => match f2q y, steps_q r with
                   | Some q, Some rq => Some ((k, q) :: rq)
                   | _, _ => None end
  end.

(* |v - r| <= 1/2 + 2^-10 for r = rn/rd, rd > 0 *)
Definition near_roundb (v rn rd : Z) : bool := Z.abs (v * rd - rn) * 2048 <=? rd * 1026.

Definition lin_doc_okb (c : lincfg) (avg : f64) (v : Z) : bool :=
  match f2q avg with
  | None => true
  | Some (n, d) =>
      match l_steps c with
      | None => lin_mm_okb (l_min c) (l_max c) n d v
      | Some steps =>
          match steps_q steps with
          | None => true
          | Some sq => match interp_q true sq n (d * 1000) with
                       | Some (rn, rd) => near_roundb v rn rd
                       | None => true end
          end
      end
  end.

Definition root_doc_okb (t : curve) (ev : evstep) : bool :=
  match t with
  | Lin c => match lookup_sensor (ev_env ev) (l_sensor c) with
             | Some s => lin_doc_okb c (s_avg s) (o_val ev) | None => true end
  | PidC _ => true
  | Fn ty ms => (length (o_mvals ev) =? length ms)%nat && forallb in255b (o_mvals ev)
                && (o_val ev =? agg_spec ty (o_mvals ev))
  end.

Definition ev_okb (t : curve) (ev : evstep) : bool :=
  if sens_okb (ev_env ev) t then
    (o_kind ev =? 0) && in255b (o_val ev) && (o_cur ev =? o_val ev) && root_doc_okb t ev
  else true.

Definition tree_of (c : case) : option curve := tree_of_gr (c_graph c) (c_root c).

Definition holdsb (c : case) : bool :=
  match tree_of c with
  | Some t => if wfb t then forallb (ev_okb t) (c_evs c) else true
  | None => true
  end.

(* ---- the Prop the observer decides ---- *)
Definition In255 (v : Z) : Prop := 0 <= v <= 255.

Definition Lin_mm_ok (mn mx n d v : Z) : Prop :=
  let a := mn * 1000 in let b := (mx - mn) * 1000 in
  ((a + b) * d <= n -> v = 255) /\
  (n < (a + b) * d -> n <= a * d -> v = 0) /\
  (n < (a + b) * d -> a * d < n ->
     (v * (b * d) - 255 * (n - a * d)) * big < b * d /\ - (b * d) < ((v + 1) * (b * d) - 255 * (n - a * d)) * big).

Definition Root_doc_ok (t : curve) (ev : evstep) : Prop :=
  match t with
  | Lin c => forall s n d, lookup_sensor (ev_env ev) (l_sensor c) = Some s -> f2q (s_avg s) = Some (n, d) ->
      match l_steps c with
      | None => Lin_mm_ok (l_min c) (l_max c) n d (o_val ev)
      | Some steps => forall sq rn rd, steps_q steps = Some sq -> interp_q true sq n (d * 1000) = Some (rn, rd) ->
                      Z.abs (o_val ev * rd - rn) * 2048 <= rd * 1026
      end
  | PidC _ => True
  | Fn ty ms => length (o_mvals ev) = length ms /\ Forall In255 (o_mvals ev) /\ o_val ev = agg_spec ty (o_mvals ev)
  end.

Definition Ev_ok (t : curve) (ev : evstep) : Prop :=
  sens_okb (ev_env ev) t = true ->
  o_kind ev = 0 /\ In255 (o_val ev) /\ o_cur ev = o_val ev /\ Root_doc_ok t ev.

Definition Holds (c : case) : Prop :=
  forall t, tree_of c = Some t -> wfb t = true -> Forall (Ev_ok t) (c_evs c).

Lemma in255b_spec v : in255b v = true <-> In255 v.
Proof. unfold in255b, In255. rewrite andb_true_iff, !Z.leb_le. tauto. Qed.

Lemma lin_mm_okb_spec mn mx n d v : lin_mm_okb mn mx n d v = true <-> Lin_mm_ok mn mx n d v.
Proof.
  unfold lin_mm_okb, Lin_mm_ok. cbv zeta.
  destruct (((mn * 1000 + (mx - mn) * 1000) * d) <=? n) eqn:E1.
  - apply Z.leb_le in E1. rewrite Z.eqb_eq. split; [intros ->; repeat split; intros; lia|intros [H _]; auto].
  - apply Z.leb_gt in E1. destruct (n <=? mn * 1000 * d) eqn:E2.
    + apply Z.leb_le in E2. rewrite Z.eqb_eq. split; [intros ->; repeat split; intros; lia|intros (_ & H & _); auto].
    + apply Z.leb_gt in E2. rewrite andb_true_iff, !Z.ltb_lt. split.
      * intros H. repeat split; intros; try lia.
      * intros (_ & _ & H). apply H; lia.
Qed.

Lemma root_doc_okb_spec t ev : root_doc_okb t ev = true <-> Root_doc_ok t ev.
Proof.
  destruct t as [c|c|ty ms]; cbn [root_doc_okb Root_doc_ok].
  - destruct (lookup_sensor (ev_env ev) (l_sensor c)) as [s|] eqn:L;
      [|split; [intros _ s n d E; congruence|reflexivity]].
    unfold lin_doc_okb. destruct (f2q (s_avg s)) as [[n d]|] eqn:Q;
      [|split; [intros _ s' n' d' E1 E2; inversion E1; subst; congruence|reflexivity]].
    destruct (l_steps c) as [steps|].
    + destruct (steps_q steps) as [sq|] eqn:SQ;
        [|split; [intros _ s' n' d' E1 E2 sq' rn' rd' E3; congruence|reflexivity]].
      destruct (interp_q true sq n (d * 1000)) as [[rn rd]|] eqn:IQ.
      * unfold near_roundb. rewrite Z.leb_le. split.
        -- intros H s' n' d' E1 E2 sq' rn' rd' E3 E4.
           inversion E1; subst s'. rewrite Q in E2. inversion E2; subst n' d'.
           inversion E3; subst sq'. rewrite IQ in E4. inversion E4; subst. exact H.
        -- intros H. exact (H s n d eq_refl Q sq rn rd eq_refl IQ).
      * split; [|reflexivity]. intros _ s' n' d' E1 E2 sq' rn' rd' E3 E4.
        inversion E1; subst s'. rewrite Q in E2. inversion E2; subst n' d'.
        inversion E3; subst sq'. congruence.
    + rewrite lin_mm_okb_spec. split.
      * intros H s' n' d' E1 E2. inversion E1; subst s'. rewrite Q in E2. inversion E2; subst. exact H.
      * intros H. exact (H s n d eq_refl Q).
  - tauto.
  - rewrite !andb_true_iff, Nat.eqb_eq, Z.eqb_eq, forallb_forall, Forall_forall.
    split.
    + intros [[A B] C]. split; [exact A|]. split; [|exact C]. intros w Hw. apply in255b_spec. auto.
    + intros (A & B & C). split; [split; [exact A|]|exact C]. intros w Hw. apply in255b_spec. auto.
Qed.

Lemma ev_okb_spec t ev : ev_okb t ev = true <-> Ev_ok t ev.
Proof.
  unfold ev_okb, Ev_ok. destruct (sens_okb (ev_env ev) t).
  - rewrite !andb_true_iff, !Z.eqb_eq, in255b_spec, root_doc_okb_spec. split.
    + intros [[[A B] C] D] _. auto.
    + intros H. destruct (H eq_refl) as (A & B & C & D). auto.
  - split; [discriminate|reflexivity].
Qed.

(* the observer is exactly the stated property *)
Theorem holdsb_spec c : holdsb c = true <-> Holds c.
Proof.
  unfold holdsb, Holds. destruct (tree_of c) as [t|].
  - destruct (wfb t) eqn:W.
    + rewrite forallb_forall. split.
      * intros H t' E _. inversion E; subst t'. apply Forall_forall. intros ev Hev. apply ev_okb_spec. auto.
      * intros H ev Hev. apply ev_okb_spec. specialize (H t eq_refl W). rewrite Forall_forall in H. auto.
    + split; [|reflexivity]. intros _ t' E W'. inversion E; subst. congruence.
  - split; [|reflexivity]. intros _ t' E. discriminate.
Qed.

(* ---- recorded finding D18: a PID curve whose loop value is NaN escapes Coerce and becomes
   int(NaN) = -2^63.  A failing case is an instance iff the faithful model reproduces every
   observation of the case AND every failing call is one in which the model's PID term was NaN. *)
Definition finding_code (c : case) : Z :=
  match tree_of c with
  | Some t =>
      let m := model_rows (c_graph c) (c_root c) (c_evs c) in
      if negb (mismatch c) && wfb t
         && all2b (fun (mr : mrow) ev => ev_okb t ev || m_nan mr) m (c_evs c)
         && negb (holdsb c)
      then 1 else 0
  | None => 0
  end.
