(* driver `curvesctrl` (C07, request / written): the real DefaultFanController with the direct
   algorithm over a real curve whose value is v, for v = 0..255.  Observed: the request
   (calculateTargetPwm) and the value handed to Fan.SetPwm; -1 = error / panic / nothing. *)
From F2G Require Export Drv.Common Model.Util Model.ControlLoop Model.Controller.
From Coq Require Import Lia Sorting.Sorted.

Record case := mkCase {
  c_pm : list (Z * Z);       (* key-sorted PWM map *)
  c_lo : Z; c_hi : Z;        (* fan minPwm / maxPwm *)
  o_req : list Z;            (* impl: request for v = 0..255 *)
  o_written : list Z;        (* impl: written value for v = 0..255 *)
}.

Fixpoint zrange (n : nat) (from : Z) : list Z :=
  match n with O => [] | S k => from :: zrange k (from + 1) end.

Definition model_req (c : case) (v : Z) : Z :=
  rescale_c (clamp_target (direct_cycle None v 0)) (c_lo c) (c_hi c).

Definition mismatch (c : case) : bool :=
  let sup := supported (c_pm c) in
  negb (list_eqb Z.eqb (map (model_req c) (zrange 256 0)) (o_req c)
        && list_eqb Z.eqb
             (map (fun v => match FindClosest (model_req c v) sup with
                            | FcVal k => lookup (c_pm c) k | _ => -1 end) (zrange 256 0))
             (o_written c)).

Fixpoint nondecb (l : list Z) : bool :=
  match l with
  | x :: ((y :: _) as r) => (x <=? y) && nondecb r
  | _ => true
  end.
Fixpoint strictb (l : list Z) : bool :=
  match l with
  | x :: ((y :: _) as r) => (x <? y) && strictb r
  | _ => true
  end.

Definition limits_okb (c : case) : bool := (0 <=? c_lo c) && (c_lo c <=? c_hi c) && (c_hi c <=? 255).
Definition pm_nondecb (pm : list (Z * Z)) : bool :=
  negb (match pm with [] => true | _ => false end) && strictb (map fst pm) && nondecb (map snd pm).

(* hotter (larger curve value) never means a smaller request / written value *)
Definition holdsb (c : case) : bool :=
  if limits_okb c then
    (length (o_req c) =? 256)%nat && forallb (fun r => 0 <=? r) (o_req c) && nondecb (o_req c)
    && (if pm_nondecb (c_pm c)
        then (length (o_written c) =? 256)%nat && forallb (fun w => 0 <=? w) (o_written c) && nondecb (o_written c)
        else true)
  else true.

Fixpoint Nondec (l : list Z) : Prop :=
  match l with
  | x :: ((y :: _) as r) => x <= y /\ Nondec r
  | _ => True
  end.

Definition Holds (c : case) : Prop :=
  limits_okb c = true ->
  (length (o_req c) = 256%nat /\ Forall (fun r => 0 <= r) (o_req c) /\ Nondec (o_req c))
  /\ (pm_nondecb (c_pm c) = true ->
      length (o_written c) = 256%nat /\ Forall (fun w => 0 <= w) (o_written c) /\ Nondec (o_written c)).

Lemma nondecb_spec : forall l, nondecb l = true <-> Nondec l.
Proof.
  induction l as [|x l IH]; [cbn; tauto|]. destruct l as [|y r]; [cbn; tauto|].
  change (nondecb (x :: y :: r)) with ((x <=? y) && nondecb (y :: r)).
  change (Nondec (x :: y :: r)) with (x <= y /\ Nondec (y :: r)).
  rewrite andb_true_iff, Z.leb_le, IH. tauto.
Qed.

Lemma nonneg_spec l : forallb (fun r => 0 <=? r) l = true <-> Forall (fun r => 0 <= r) l.
Proof.
  rewrite forallb_forall, Forall_forall. split; intros H x Hx; specialize (H x Hx); [now apply Z.leb_le|now apply Z.leb_le].
Qed.

Theorem holdsb_spec c : holdsb c = true <-> Holds c.
Proof.
  unfold holdsb, Holds. destruct (limits_okb c).
  - rewrite !andb_true_iff, Nat.eqb_eq, nonneg_spec, nondecb_spec.
    destruct (pm_nondecb (c_pm c)).
    + rewrite !andb_true_iff, Nat.eqb_eq, nonneg_spec, nondecb_spec. split.
      * intros [[[A B] C] [[D E] F]] _. repeat split; auto.
      * intros H. destruct (H eq_refl) as [(A & B & C) G]. destruct (G eq_refl) as (D & E & F). repeat split; auto.
    + split.
      * intros [[[A B] C] _] _. split; [repeat split; auto|discriminate].
      * intros H. destruct (H eq_refl) as [(A & B & C) _]. repeat split; auto.
  - split; [discriminate|reflexivity].
Qed.

(* no recorded finding for request / written: every failing case is a violation *)
Definition finding_code (c : case) : Z := 0.
