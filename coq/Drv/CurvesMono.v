(* driver `curvesmono` (C07, curve level): the same case type and model run as driver `curves`;
   the calls come in pairs (2k, 2k+1) whose sensor states are ordered pointwise.  Observer:
   for a curve in the monotone class (min/max form with min < max; steps with non-decreasing
   speeds in 0..255; sum / maximum / minimum / average of such, nested) the second value of
   every ordered pair is not smaller than the first. *)
From F2G Require Export Drv.Curves.
From F2G Require Import Proofs.CurveFn.
From Coq Require Import Lia SpecFloat.

Fixpoint speeds_nondecb (l : list (Z * f64)) : bool :=
  match l with
  | (_, y) :: (((_, y') :: _) as r) => PrimFloat.leb y y' && speeds_nondecb r
  | _ => true
  end.

Definition mono_tyb (ty : fty) : bool :=
  match ty with FSum | FMaximum | FMinimum | FAverage => true | _ => false end.

Fixpoint mono_classb (t : curve) : bool :=
  match t with
  | Lin c => wf_linb c && match l_steps c with Some steps => speeds_nondecb steps | None => true end
  | PidC _ => false
  | Fn ty ms => mono_tyb ty && negb (match ms with [] => true | _ => false end) && (Z.of_nat (length ms) <? big)
                && (fix go (l : list curve) : bool := match l with [] => true | m :: r => mono_classb m && go r end) ms
  end.

(* all sensors read by the tree are registered in both states and not colder in the second *)
Fixpoint env_leb_on (t : curve) (e1 e2 : env) : bool :=
  match t with
  | Lin c => match lookup_sensor e1 (l_sensor c), lookup_sensor e2 (l_sensor c) with
             | Some s1, Some s2 => PrimFloat.leb (s_avg s1) (s_avg s2)
             | _, _ => false end
  | PidC _ => false
  | Fn _ ms => (fix go (l : list curve) : bool := match l with [] => true | m :: r => env_leb_on m e1 e2 && go r end) ms
  end.

Definition pair_okb (t : curve) (a b : evstep) : bool :=
  if env_leb_on t (ev_env a) (ev_env b)
  then (o_kind a =? 0) && (o_kind b =? 0) && (o_val a <=? o_val b) else true.

Fixpoint pairs_okb (t : curve) (evs : list evstep) : bool :=
  match evs with
  | a :: b :: r => pair_okb t a b && pairs_okb t r
  | _ => true
  end.

Definition holdsb (c : case) : bool :=
  match tree_of c with
  | Some t => if mono_classb t then pairs_okb t (c_evs c) else true
  | None => true
  end.

Definition Pair_ok (t : curve) (a b : evstep) : Prop :=
  env_leb_on t (ev_env a) (ev_env b) = true -> o_kind a = 0 /\ o_kind b = 0 /\ o_val a <= o_val b.

Fixpoint Pairs_ok (t : curve) (evs : list evstep) : Prop :=
  match evs with
  | a :: b :: r => Pair_ok t a b /\ Pairs_ok t r
  | _ => True
  end.

Definition Holds (c : case) : Prop :=
  forall t, tree_of c = Some t -> mono_classb t = true -> Pairs_ok t (c_evs c).

Lemma pair_okb_spec t a b : pair_okb t a b = true <-> Pair_ok t a b.
Proof.
  unfold pair_okb, Pair_ok. destruct (env_leb_on t (ev_env a) (ev_env b)).
  - rewrite !andb_true_iff, !Z.eqb_eq, Z.leb_le. split; [intros [[A B] C] _; auto|intros H; destruct (H eq_refl) as (A & B & C); auto].
  - split; [discriminate|reflexivity].
Qed.

Lemma pairs_okb_spec t : forall evs, pairs_okb t evs = true <-> Pairs_ok t evs.
Proof.
  fix IH 1. intros [|a [|b r]]; cbn [pairs_okb Pairs_ok]; try tauto.
  rewrite andb_true_iff, pair_okb_spec, IH. tauto.
Qed.

Theorem holdsb_spec c : holdsb c = true <-> Holds c.
Proof.
  unfold holdsb, Holds. destruct (tree_of c) as [t|].
  - destruct (mono_classb t) eqn:W.
    + rewrite pairs_okb_spec. split; [intros H t' E _; inversion E; subst; exact H|intros H; exact (H t eq_refl W)].
    + split; [|reflexivity]. intros _ t' E W'. inversion E; subst. congruence.
  - split; [|reflexivity]. intros _ t' E. discriminate.
Qed.

Definition mismatch (c : case) : bool := Drv.Curves.mismatch c.

(* ---- recorded finding D19: a steps curve with a non-integer speed can dip by one just below
   a breakpoint (interpolated values are re-rounded to float32, exact step values are not).
   A failing case is an instance iff the faithful model reproduces every observation AND the
   tree contains a steps curve with a non-integer speed. *)
Definition is_intb (y : f64) : bool :=
  match Prim2SF y with
  | S754_zero _ => true
  | S754_finite _ m e => if 0 <=? e then true else (Z.pos m mod 2 ^ (- e) =? 0)
  | _ => false
  end.

Fixpoint has_fractionalb (t : curve) : bool :=
  match t with
  | Lin c => match l_steps c with Some steps => negb (forallb (fun kv => is_intb (snd kv)) steps) | None => false end
  | PidC _ => false
  | Fn _ ms => (fix go (l : list curve) : bool := match l with [] => false | m :: r => has_fractionalb m || go r end) ms
  end.

Definition finding_code (c : case) : Z :=
  match tree_of c with
  | Some t => if negb (mismatch c) && has_fractionalb t && negb (holdsb c) then 2 else 0
  | None => 0
  end.
