(* driver `daemon` (C03/C09, process level): the real internal.RunDaemon in a
   child process on a fake hwmon tree, real SIGTERM/SIGINT sent when a phase
   marker is observed.  The model side runs Model.Daemon's LTS on the canonical
   schedule of the scenario (fault-free driver verdicts) and compares the exit
   status and the final state of every fan; the observer judges the
   implementation's own observation. *)
From F2G Require Export Model.Restore Model.Daemon.
From F2G Require Import Drv.Common gen.Consts.
From Coq Require Import Lia.

Record fanobs := mkFanObs {
  f_backend : backend;
  f_exists : bool;
  f_rpm : bool;
  f_orig : dev;          (* device before the daemon started *)
  f_began : bool;        (* the controller loop of this fan was started (log marker / first PWM write) *)
  f_final : dev;         (* device after the process ended *)
  f_touched : bool;      (* the log shows that fan2go wrote to this fan (initialisation sequence, sweep, control cycle) *)
}.

Record case := mkCase {
  c_fans : list fanobs;
  c_nmons : Z;
  c_scn : Z;             (* 1 ticking, 2 start-up wait, 3 first second, 4 second signal while restoring,
                            5 another controller fails its initialisation, 6 control error (no RPM monitor),
                            7 control error (RPM monitor) then signal,
                            8 signal while a not yet analysed fan is being measured (real-time analysis, > 10 s) *)
  c_nsig : Z;            (* signals sent *)
  o_exit : Z;            (* exit status; 2 = Go panic; 3 = had to be killed *)
  o_panic : bool;        (* "panic:" or "fatal error:" on stderr *)
}.

Definition plan_ok : rplan := mkPlan WOk WOk ROk WOk.
Definition a_ok : adv := mkAdv false false false false (mkDev 1 0) ROk ROk 0 plan_ok.
Definition a_sweep_ok : adv := mkAdv false true false true (mkDev 1 0) ROk ROk 0 plan_ok.
Definition a_init_fail : adv := mkAdv true true false false (mkDev 1 0) ROk ROk 0 plan_ok.
Definition t_ok : tick := mkTick (mkDev 1 0) false plan_ok.
Definition t_err : tick := mkTick (mkDev 1 0) true plan_ok.

Definition idx (c : case) : list nat := seq 0 (length (c_fans c)).
Definition midx (c : case) : list nat := seq 0 (Z.to_nat (c_nmons c)).
Definition each (l : list nat) (f : nat -> list event) : list event := flat_map f l.
Definition signals (n : Z) : list event := repeat Signal (Z.to_nat n).

Definition to_tick (i : nat) : list event := repeat (Advance i a_sweep_ok) 5 ++ [Tick i t_ok].
Definition wind_down (c : case) : list event :=
  each (idx c) (fun i => [Advance i a_ok; RpmDone i]) ++ each (midx c) (fun j => [MonDone j]) ++ [SigRecv; Finish].

Definition sched_of (c : case) : list event :=
  let n := c_nsig c in
  match c_scn c with
  | 1 => each (idx c) to_tick ++ [Signal; SigRecv] ++ signals (n - 1) ++ wind_down c
  | 2 | 8 => each (idx c) (fun i => [Advance i a_sweep_ok]) ++ [Signal; SigRecv] ++ signals (n - 1)
         ++ each (idx c) (fun i => repeat (Advance i a_sweep_ok) 4) ++ wind_down c
  | 3 => each (idx c) (fun i => repeat (Advance i a_sweep_ok) 4) ++ [Signal; SigRecv] ++ signals (n - 1)
         ++ each (idx c) (fun i => [Advance i a_ok]) ++ wind_down c
  | 4 => each (idx c) to_tick ++ [Signal; SigRecv; Advance 0%nat a_ok] ++ signals (n - 1) ++ wind_down c
  | 5 => (* the last fan fails its initialisation sequence while the others regulate *)
         let k := (length (c_fans c) - 1)%nat in
         each (seq 0 k) to_tick ++ [Advance k a_ok; Advance k a_ok; Advance k a_init_fail] ++ wind_down c
  | 6 => each (idx c) to_tick ++ [Tick 0%nat t_err] ++ wind_down c
  | 7 => each (idx c) to_tick ++ [Tick 0%nat t_err; Tick 1%nat t_ok; Signal; SigRecv] ++ signals (n - 1) ++ wind_down c
  | _ => []
  end.

Definition cfg_of (c : case) : list fan_cfg :=
  map (fun f => (f_backend f, f_exists f, f_rpm f, f_orig f)) (c_fans c).

Definition model (D : Defects) (c : case) : proc := exec D (init (cfg_of c) (Z.to_nat (c_nmons c))) (sched_of c).

Definition fsup (f : fanobs) : bool := mode_supported (f_backend f) (f_exists f).

(* fans without a mode file report the mode they were given *)
Definition fan_agrees (f : fanobs) (m : ctrl) : bool :=
  Bool.eqb (f_began f) (c_started m)
  && (negb (c_touched m) || ((pwm (c_dev m) =? pwm (f_final f)) && (negb (fsup f) || (mode (c_dev m) =? mode (f_final f))))).

Fixpoint all2b {A B} (f : A -> B -> bool) (l1 : list A) (l2 : list B) : bool :=
  match l1, l2 with
  | [], [] => true
  | x :: r1, y :: r2 => f x y && all2b f r1 r2
  | _, _ => false
  end.

Definition agrees (D : Defects) (c : case) : bool :=
  let s := model D c in
  match st s with
  | Exited code => (o_exit c =? code) && negb (o_panic c) && all2b fan_agrees (c_fans c) (ctrls s)
  | Crashed _ => (o_exit c =? 2) && o_panic c
  | Running => false
  end.

Definition mismatch (c : case) : bool := negb (agrees repaired c).

(* the property on the implementation's observation: no panic, a normal exit, and
   every fan whose regulation began is handed back or at 255 (fault-free drivers:
   the last-resort escape does not apply) *)
Definition fan_holdsb (f : fanobs) : bool :=
  negb (f_began f || f_touched f) || safeb (fsup f) (f_orig f) (f_final f).

Definition holdsb (c : case) : bool :=
  negb (o_panic c) && ((o_exit c =? 0) || (o_exit c =? 1)) && forallb fan_holdsb (c_fans c).

Lemma holdsb_spec c :
  holdsb c = true <->
  o_panic c = false /\ (o_exit c = 0 \/ o_exit c = 1) /\
  (forall f, In f (c_fans c) -> f_began f = true \/ f_touched f = true -> safe (fsup f) (f_orig f) (f_final f)).
Proof.
  unfold holdsb. rewrite !andb_true_iff, negb_true_iff, orb_true_iff, !Z.eqb_eq, forallb_forall.
  split.
  - intros [[P E] F]. repeat split; auto. intros f Hf B. specialize (F f Hf).
    unfold fan_holdsb in F. apply safeb_spec.
    destruct B as [B|B]; rewrite B in F; rewrite ?orb_true_r in F; exact F.
  - intros [P [E F]]. repeat split; auto. intros f Hf. unfold fan_holdsb.
    destruct (f_began f || f_touched f) eqn:B; [|reflexivity]. cbn. apply safeb_spec. apply (F f Hf).
    apply orb_true_iff in B. exact B.
Qed.

(* no recorded finding at process level: D2/D4 are repaired; diagnose for the report only *)
Definition finding_code (c : case) : Z := 0.
