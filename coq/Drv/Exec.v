(* driver `exec` (C19): one case = one call of the real SafeCmdExecution /
   CmdSensor.GetValue / CmdFan.{GetPwm,SetPwm,GetRpm} on a root-owned script
   with a known behaviour; the observation is what came back and after how many
   milliseconds of wall clock. *)
From F2G Require Export Drv.Common Model.Exec.
From F2G Require Import gen.Consts gen.ExecConsts Proofs.ExecCmd.
From Coq Require Import Lia.

Inductive obs_res :=
| OText (t : text)     (* api 0: returned string (run-length encoded), nil error *)
| OFloat (f : f64)     (* api 1: value, nil error *)
| OInt (z : Z)         (* api 2, 4 *)
| OUnit                (* api 3: nil error *)
| OErr                 (* an error was returned *)
| OPanic
| OHang.               (* the call (or the sensor's mutex afterwards) was still blocked when the harness watchdog fired *)

Record case := mkCase {
  c_api : Z;              (* 0 SafeCmdExecution 1 CmdSensor.GetValue 2 CmdFan.GetPwm 3 CmdFan.SetPwm 4 CmdFan.GetRpm *)
  c_T : Z;                (* api 0: the timeout argument, ms *)
  c_ck : Z;               (* what the permission check meets: 0 passes, else the perm_err code (1..6) *)
  c_b : behaviour;        (* what the script does *)
  c_parse : option f64;   (* harness oracle: strconv.ParseFloat on the trimmed expected output *)
  o_res : obs_res;
  o_ms : Z;               (* wall clock of the call *)
}.

(* the implementation cannot be faster than the behaviour's own sleeps *)
Definition early_ms : Z := 60.

Definition ck_of (code : Z) : check_result :=
  if code =? 0 then CkOk
  else if code =? 1 then CkErr ErrSymlink else if code =? 2 then CkErr ErrNotFound
  else if code =? 3 then CkErr ErrStat else if code =? 4 then CkErr ErrOwner
  else if code =? 5 then CkErr ErrGroupWrite else CkErr ErrOtherWrite.

(* api 6: a step of the daemon around a cmd sensor that performs at most one command call and does not hand its
   error to the caller as a value: the start-up glue (initializeSensors: the failed first read is logged), a curve
   evaluation, one poll of the sensor monitor.  Observed as OUnit when it completes, OPanic / OHang otherwise. *)
Definition timeout_of (c : case) : Z :=
  if c_api c =? 0 then c_T c
  else if (c_api c =? 1) || (c_api c =? 6) then CmdSensorTimeoutS * 1000
  else CmdFanTimeoutS * 1000.

Definition res_of_outcome (o : outcome) : obs_res :=
  match o with Ok t => OText t | Err _ => OErr | Crash => OPanic end.
Definition res_of_value (v : cmd_value) : obs_res :=
  match v with CvFloat f => OFloat f | CvInt z => OInt z | CvUnit => OUnit | CvErr => OErr | CvCrash => OPanic end.

Definition model (c : case) : obs_res * time :=
  let T := timeout_of c in
  let d := CmdWaitDelayMs in
  let ck := ck_of (c_ck c) in
  let parse := fun _ : text => c_parse c in
  if c_api c =? 0 then let r := safe_cmd T d ck (c_b c) in (res_of_outcome (r_out r), r_time r)
  else if c_api c =? 6 then
    let r := safe_cmd T d ck (c_b c) in ((match r_out r with Crash => OPanic | _ => OUnit end), r_time r)
  else if c_api c =? 1 then let '(v, t) := sensor_get_value parse T d ck (c_b c) in (res_of_value v, t)
  else if c_api c =? 3 then let '(v, t) := fan_set_pwm T d ck (c_b c) in (res_of_value v, t)
  else let '(v, t) := fan_get_int parse T d ck (c_b c) in (res_of_value v, t).

Fixpoint text_eqb (a b : text) : bool :=
  match a, b with
  | [], [] => true
  | (x, n) :: r, (y, m) :: r' => (x =? y) && (n =? m) && text_eqb r r'
  | _, _ => false
  end.

Lemma text_eqb_eq a : forall b, text_eqb a b = true <-> a = b.
Proof.
  induction a as [|[x n] r IH]; intros [|[y m] r']; cbn; split; try congruence; try discriminate.
  - rewrite !andb_true_iff, !Z.eqb_eq, IH. intros [[-> ->] ->]. reflexivity.
  - intros H. inversion H; subst. rewrite !Z.eqb_refl. cbn. now apply IH.
Qed.

Definition res_eqb (a b : obs_res) : bool :=
  match a, b with
  | OText t, OText t' => text_eqb t t'
  | OFloat f, OFloat f' => feqb f f'
  | OInt z, OInt z' => z =? z'
  | OUnit, OUnit => true
  | OErr, OErr => true
  | OPanic, OPanic => true
  | _, _ => false
  end.

Definition mismatch (c : case) : bool :=
  let '(r, t) := model c in
  negb (res_eqb r (o_res c)
        && match t with At ms => ms - early_ms <=? o_ms c | Never => false end).

(* ---- the property on the implementation's observation ---- *)
(* judged with the numbers of the PROPERTY, not of the source: the timeout given
   by the caller (api 0) or the 2 s of the statement (sensor / fan wrappers),
   plus the small margin *)
Definition bound_ms (c : case) : Z :=
  (if c_api c =? 0 then c_T c else prop_timeout_ms) + small_margin_ms.

(* "returns within its timeout plus a small margin with either the command's
   trimmed output or an error; never panics" *)
Definition Holds (c : case) : Prop :=
  o_ms c <= bound_ms c /\
  match o_res c with
  | OText t => t = trim_nl (out_of (c_b c))
  | OFloat f => exists f', c_parse c = Some f' /\ feqb f f' = true
  | OInt z => exists f', c_parse c = Some f' /\ z = f2i f'
  | OUnit => True
  | OErr => True
  | OPanic => False
  | OHang => False
  end.

Definition holdsb (c : case) : bool :=
  (o_ms c <=? bound_ms c) &&
  match o_res c with
  | OText t => text_eqb t (trim_nl (out_of (c_b c)))
  | OFloat f => match c_parse c with Some f' => feqb f f' | None => false end
  | OInt z => match c_parse c with Some f' => z =? f2i f' | None => false end
  | OUnit => true
  | OErr => true
  | OPanic => false
  | OHang => false
  end.

Lemma holdsb_spec c : holdsb c = true <-> Holds c.
Proof.
  unfold holdsb, Holds. rewrite andb_true_iff, Z.leb_le.
  destruct (o_res c) as [t|f|z| | | |].
  - rewrite text_eqb_eq. reflexivity.
  - destruct (c_parse c) as [f'|]; split.
    + intros [H1 H2]. split; [exact H1|]. exists f'. auto.
    + intros [H1 [f2 [E H2]]]. inversion E; subst. auto.
    + intros [_ H]. discriminate.
    + intros [_ [f2 [E _]]]. discriminate.
  - destruct (c_parse c) as [f'|]; split.
    + intros [H1 H2]. split; [exact H1|]. exists f'. apply Z.eqb_eq in H2. auto.
    + intros [H1 [f2 [E H2]]]. inversion E; subst. split; [exact H1|apply Z.eqb_refl].
    + intros [_ H]. discriminate.
    + intros [_ [f2 [E _]]]. discriminate.
  - tauto.
  - tauto.
  - split; [intros [_ H]; discriminate|tauto].
  - split; [intros [_ H]; discriminate|tauto].
Qed.

(* D13 is repaired in /repo; no recorded finding remains for this property *)
Definition finding_code (c : case) : Z := 0.
