(* driver `exechist` (C19): one case = a HISTORY of calls of the real
   SafeCmdExecution / CmdFan / CmdSensor on one and the same executable, spread
   over more than ten seconds, each call observed like a case of driver `exec`
   (own watchdog, logger probe).  The model has no state between calls — that is
   the content of C19_classify / C19_bounded ("every call") — so a history is
   judged call by call. *)
From F2G Require Export Drv.Common Model.Exec.
From F2G Require Drv.Exec.
From F2G Require Import Proofs.ExecCmd.

Definition call := Drv.Exec.case.
Definition mkCall := Drv.Exec.mkCase.
Notation OText := Drv.Exec.OText.
Notation OFloat := Drv.Exec.OFloat.
Notation OInt := Drv.Exec.OInt.
Notation OUnit := Drv.Exec.OUnit.
Notation OErr := Drv.Exec.OErr.
Notation OPanic := Drv.Exec.OPanic.
Notation OHang := Drv.Exec.OHang.

Definition case := list call.

Definition mismatch (c : case) : bool := existsb Drv.Exec.mismatch c.
Definition holdsb (c : case) : bool := forallb Drv.Exec.holdsb c.

(* every call of the history returned within its timeout plus the small margin
   with output or error, without panic, hang or frozen logger *)
Definition Holds (c : case) : Prop := Forall Drv.Exec.Holds c.

Lemma holdsb_spec c : holdsb c = true <-> Holds c.
Proof.
  unfold holdsb, Holds. rewrite forallb_forall, Forall_forall.
  split; intros H x Hx; apply Drv.Exec.holdsb_spec; auto.
Qed.

Definition finding_code (c : case) : Z := 0.
