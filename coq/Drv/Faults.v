(* driver `faults` (C09): real closed loops under a fault plan against Model.Faults
   with all defect flags clear; the verified observer judges the implementation's
   own observation (no crash; a stop only through a safe restore). *)
From F2G Require Export Model.Restore Model.Faults Model.FaultsOps.
From F2G Require Import Drv.Common gen.Consts Model.Util.
From Coq Require Import Lia.

Record case := mkCase {
  c_cb : combo;
  c_orig : dev;            (* what the controller holds as original state *)
  c_d0 : dev;              (* device at the start *)
  c_plan : list cyc;       (* cy_stall is taken from the observation (numeric part, not modelled here) *)
  o_kind : Z;              (* 0 regulating, 1 stopped after restorePwmEnabled, 2 panic, 3 stuck in a call (watchdog) *)
  o_cycle : Z;             (* cycle of the stop / panic; -1 when still regulating *)
  o_dev : dev;             (* device at the end *)
  o_ops : list op;         (* driver operations of the restore *)
  c_ops : list ocyc;       (* per-operation plan (fault of the k-th hooked file operation of each cycle); [] = the regime plan c_plan is used *)
  o_lastw : bool;          (* the last PWM write of the restore was hit by an injected fault *)
  o_trace : list (list Z); (* per cycle: classes of the hooked file operations in the order they happened
                              (0 sensor read, 1 RPM read, 2 PWM read, 3 PWM write, 4 mode write, 5 mode read) *)
  o_cyc : list (Z * Z);    (* per control cycle that ended WITHOUT error, in order: (request = lastSetPwm after the cycle,
                              PWM the device shows after the cycle).  The driver's PWM map is the identity on 0..255,
                              so the PWM-map output for a request is the request itself. *)
  c_nwin : Z;              (* TempRollingWindowSize *)
  c_avg0 : f64;            (* the sensor's moving average before the first cycle *)
  c_temps : list Z;        (* what the sensor shows in each cycle *)
  o_avgs : list f64;       (* the sensor's moving average after the sensor-monitor poll of each cycle (as long as nothing panicked) *)
}.

Definition dev_eqb (a b : dev) : bool := (mode a =? mode b) && (pwm a =? pwm b).
(* the model does not track PWM numbers while regulating: pwm = -1 means "not predicted" *)
Definition dev_matches (m o : dev) : bool := (mode m =? mode o) && ((pwm m =? -1) || (pwm m =? pwm o)).
Definition op_eqb (a b : op) : bool :=
  match a, b with
  | OpWPwm x, OpWPwm y => x =? y
  | OpWMode x, OpWMode y => x =? y
  | OpRMode, OpRMode => true
  | _, _ => false
  end.
(* the read-back is not logged by this driver *)
Definition no_reads (l : list op) : list op :=
  filter (fun o => match o with OpRMode => false | _ => true end) l.

Definition per_op (c : case) : bool := match c_ops c with [] => false | _ => true end.

Definition model (D : Defects) (c : case) : outcome :=
  if per_op c then fst (run_ops D (c_cb c) (c_orig c) (c_d0 c) (c_ops c))
  else run D (c_cb c) (c_orig c) (c_d0 c) (c_plan c).

(* the order of operations: the model's trace against the hook log, class by class *)
Definition class_of (k : okind) : Z :=
  match k with
  | KSensorMon | KSensorCurve => 0
  | KRpmRead => 1
  | KPwmWrite | KRestoreWrite | KRestoreLast => 3
  | KModeWrite | KRestoreMode => 4
  | KModeReadBack | KRestoreReadBack => 5
  | _ => 2
  end.
(* the PWM write at the end of setPwm is value-dependent (skipped when the fan already shows the target)
   and not part of the model's trace: one trailing write is tolerated *)
Definition cycle_trace_ok (m : list (okind * fault)) (o : list Z) : bool :=
  let mc := map (fun e => class_of (fst e)) m in
  list_eqb Z.eqb mc o || list_eqb Z.eqb (mc ++ [3]) o.
Fixpoint traces_ok (ms : list (list (okind * fault))) (os : list (list Z)) : bool :=
  match ms, os with
  | [], _ => true
  | m :: mr, o :: or => cycle_trace_ok m o && traces_ok mr or
  | _ :: _, [] => false
  end.
Definition trace_agrees (D : Defects) (c : case) : bool :=
  if per_op c then traces_ok (snd (run_ops D (c_cb c) (c_orig c) (c_d0 c) (c_ops c))) (o_trace c) else true.

Definition agrees (D : Defects) (c : case) : bool :=
  match model D c with
  | Regulating s => (o_kind c =? 0) && (mode (l_dev s) =? mode (o_dev c))
  | FanStopped k p r => (o_kind c =? 1) && (o_cycle c =? k) && dev_matches (r_dev r) (o_dev c)
                        && list_eqb op_eqb (no_reads (r_ops r)) (o_ops c)
  | Crash k _ => (o_kind c =? 2) && (o_cycle c =? k)
  end.

Definition mismatch (c : case) : bool := negb (agrees repaired c && trace_agrees repaired c).

Fixpoint count_wpwm (l : list op) : Z :=
  match l with
  | [] => 0
  | OpWPwm _ :: r => 1 + count_wpwm r
  | _ :: r => count_wpwm r
  end.
Definition attempted_last_resort (ops : list op) : bool := 2 <=? count_wpwm ops.
(* the escape is only available AFTER the hand-back was tried: with a mode and a non-manual original one,
   the restore must have asked the fan for the original mode *)
Fixpoint count_wmode (l : list op) : Z :=
  match l with
  | [] => 0
  | OpWMode _ :: r => 1 + count_wmode r
  | _ :: r => count_wmode r
  end.
Definition mode_tried_if_needed (sup : bool) (orig : dev) (ops : list op) : bool :=
  negb (sup && negb (mode orig =? manual)) || (1 <=? count_wmode ops).

Definition sup (c : case) : bool := mode_supported (cb_fan (c_cb c)) (cb_enable_exists (c_cb c)).

(* the property on the implementation's observation: never a panic; a stop only
   with the fan handed back / at 255, or with the last-resort write (seen in the
   operation log) hit by that cycle's PWM-write fault *)
(* "keeps regulating with the last good data": a control cycle that ended without error and in which
   no PWM write was hit by a fault (per-operation plans: no operation at all) must leave the device at
   the value asked for in that cycle - fan2go may not believe it regulates while the fan stays at a stale
   value (e.g. after an earlier failed write) *)
Definition is_none (f : fault) : bool := match f with FNone => true | _ => false end.
Definition applicable (c : case) (k : nat) : bool :=
  if per_op c then forallb is_none (oy_ops (nth k (c_ops c) (mkOC [] false)))
  else is_none (cy_pwm_write (nth k (c_plan c) (mkCyc FNone FNone FNone 0 FNone FNone false))).

Fixpoint cyc_scan (app : nat -> bool) (k : nat) (l : list (Z * Z)) : bool :=
  match l with
  | [] => true
  | (r, p) :: t => (negb (app k) || (p =? r)) && cyc_scan app (S k) t
  end.

Lemma cyc_scan_spec app l : forall k,
  cyc_scan app k l = true <->
  (forall i r p, nth_error l i = Some (r, p) -> app (k + i)%nat = true -> p = r).
Proof.
  induction l as [|[r0 p0] t IH]; intros k; cbn [cyc_scan].
  - split; [intros _ i r p H; destruct i; discriminate|reflexivity].
  - rewrite andb_true_iff, IH, orb_true_iff, negb_true_iff, Z.eqb_eq. split.
    + intros [H0 Ht] i r p Hn Ha. destruct i as [|i].
      * cbn in Hn. inversion Hn; subst. rewrite Nat.add_0_r in Ha. destruct H0; congruence.
      * cbn in Hn. apply (Ht i r p Hn). rewrite <- Nat.add_succ_comm in Ha. exact Ha.
    + intros H. split.
      * destruct (app k) eqn:A; [right|left; reflexivity]. apply (H 0%nat r0 p0); [reflexivity|]. rewrite Nat.add_0_r. exact A.
      * intros i r p Hn Ha. apply (H (S i) r p); [exact Hn|]. rewrite <- Nat.add_succ_comm. exact Ha.
Qed.

Definition regulates_freshb (c : case) : bool := cyc_scan (applicable c) 0 (o_cyc c).
Definition regulates_fresh (c : case) : Prop :=
  forall k r p, nth_error (o_cyc c) k = Some (r, p) -> applicable c k = true -> p = r.
Lemma regulates_freshb_spec c : regulates_freshb c = true <-> regulates_fresh c.
Proof. unfold regulates_freshb, regulates_fresh. rewrite cyc_scan_spec. cbn. reflexivity. Qed.

Definition holdsb1 (c : case) : bool :=
  if o_kind c =? 3 then false else
  if o_kind c =? 2 then false
  else if o_kind c =? 1 then
    safeb (sup c) (c_orig c) (o_dev c)
    || (attempted_last_resort (o_ops c) && mode_tried_if_needed (sup c) (c_orig c) (o_ops c) && o_lastw c)
  else true.

(* "with the last good data": the sensor-monitor poll of a cycle whose sensor read was hit by a fault
   leaves the moving average exactly as it was (a failed or garbage read never enters the average the
   curve works on); a good poll moves it by util.UpdateSimpleMovingAvg of the value shown.  Judged on
   consecutive OBSERVED averages. *)
Definition sensor_faulted (c : case) (k : nat) : bool :=
  if per_op c then match oy_ops (nth k (c_ops c) (mkOC [] false)) with f :: _ => negb (is_none f) | [] => false end
  else negb (is_none (cy_sensor (nth k (c_plan c) (mkCyc FNone FNone FNone 0 FNone FNone false)))).

Definition expected_avg (c : case) (prev : f64) (k : nat) : f64 :=
  if sensor_faulted c k then prev else upd_avg prev (c_nwin c) (i2f (nth k (c_temps c) 0)).

Fixpoint avg_scan (c : case) (prev : f64) (k : nat) (l : list f64) : bool :=
  match l with
  | [] => true
  | a :: t => feqb a (expected_avg c prev k) && avg_scan c a (S k) t
  end.
Fixpoint avg_ok (c : case) (prev : f64) (k : nat) (l : list f64) : Prop :=
  match l with
  | [] => True
  | a :: t => feqb a (expected_avg c prev k) = true /\ avg_ok c a (S k) t
  end.
Lemma avg_scan_spec c l : forall prev k, avg_scan c prev k l = true <-> avg_ok c prev k l.
Proof.
  induction l as [|a t IH]; intros prev k; cbn [avg_scan avg_ok]; [tauto|].
  rewrite andb_true_iff, IH. reflexivity.
Qed.

Definition last_good_datab (c : case) : bool := avg_scan c (c_avg0 c) 0 (o_avgs c).
Definition last_good_data (c : case) : Prop := avg_ok c (c_avg0 c) 0 (o_avgs c).

(* "keeps regulating with the last good data, or stops": a control cycle whose curve evaluation FAILED (regime plans: a
   sensor fault in a cycle of a curve with a PID leaf, which reads the sensor itself) either ends regulation (then the
   cycle is not in o_cyc) or leaves the request where the previous good cycle had put it - never a request derived
   from whatever the failed evaluation returned.  In the first cycle there is no good data: it must stop. *)
Fixpoint curve_has_pid (cv : curve) : bool :=
  match cv with
  | CLinear => false
  | CPid => true
  | CFunc _ ms => existsb curve_has_pid ms
  end.
Definition curve_failed (c : case) (k : nat) : bool :=
  negb (per_op c) && curve_has_pid (cb_curve (c_cb c))
  && negb (is_none (cy_sensor (nth k (c_plan c) (mkCyc FNone FNone FNone 0 FNone FNone false)))).

Fixpoint req_scan (c : case) (prev : option Z) (k : nat) (l : list (Z * Z)) : bool :=
  match l with
  | [] => true
  | (r, _) :: t =>
      (negb (curve_failed c k) || match prev with Some r0 => r =? r0 | None => false end)
      && req_scan c (Some r) (S k) t
  end.
Fixpoint req_ok (c : case) (prev : option Z) (k : nat) (l : list (Z * Z)) : Prop :=
  match l with
  | [] => True
  | (r, _) :: t => (curve_failed c k = true -> prev = Some r) /\ req_ok c (Some r) (S k) t
  end.
Lemma req_scan_spec c l : forall prev k, req_scan c prev k l = true <-> req_ok c prev k l.
Proof.
  induction l as [|[r p] t IH]; intros prev k; cbn [req_scan req_ok]; [tauto|].
  rewrite andb_true_iff, IH, orb_true_iff, negb_true_iff.
  assert (E : match prev with Some r0 => r =? r0 | None => false end = true <-> prev = Some r).
  { destruct prev as [r0|]; [rewrite Z.eqb_eq; split; congruence|split; discriminate]. }
  rewrite E. destruct (curve_failed c k); split; intros [A B]; split; auto.
  - intros _. destruct A as [A|A]; [discriminate|exact A].
  - intros H. discriminate.
Qed.
Definition no_made_up_requestb (c : case) : bool := req_scan c None 0 (o_cyc c).
Definition no_made_up_request (c : case) : Prop := req_ok c None 0 (o_cyc c).

Definition holdsb (c : case) : bool := holdsb1 c && regulates_freshb c && last_good_datab c && no_made_up_requestb c.

Definition Holds1 (c : case) : Prop :=
  o_kind c <> 3 /\ o_kind c <> 2 /\
  (o_kind c = 1 -> safe (sup c) (c_orig c) (o_dev c)
                   \/ ((attempted_last_resort (o_ops c) = true /\ mode_tried_if_needed (sup c) (c_orig c) (o_ops c) = true)
                       /\ o_lastw c = true)).

Lemma holdsb1_spec c : holdsb1 c = true <-> Holds1 c.
Proof.
  unfold holdsb1, Holds1.
  destruct (o_kind c =? 3) eqn:E3; [apply Z.eqb_eq in E3; split; [discriminate|intros [H _]; congruence]|].
  apply Z.eqb_neq in E3.
  assert (G : forall P : Prop, (o_kind c <> 3 /\ P) <-> P) by (intros P; tauto). rewrite G. clear G.
  destruct (o_kind c =? 2) eqn:E2.
  - apply Z.eqb_eq in E2. split; [discriminate|]. intros [H _]. congruence.
  - apply Z.eqb_neq in E2.
    destruct (o_kind c =? 1) eqn:E1.
    + apply Z.eqb_eq in E1.
      rewrite orb_true_iff, !andb_true_iff, safeb_spec. split.
      * intros H. split; [exact E2|intros _; exact H].
      * intros [_ H]. apply H. exact E1.
    + apply Z.eqb_neq in E1. split; [|reflexivity].
      intros _. split; [exact E2|]. intros H. congruence.
Qed.

Definition Holds (c : case) : Prop := ((Holds1 c /\ regulates_fresh c) /\ last_good_data c) /\ no_made_up_request c.
Lemma holdsb_spec c : holdsb c = true <-> Holds c.
Proof.
  unfold holdsb, Holds, last_good_datab, last_good_data, no_made_up_requestb, no_made_up_request.
  rewrite !andb_true_iff, holdsb1_spec, regulates_freshb_spec, avg_scan_spec, req_scan_spec. reflexivity.
Qed.

(* a panic on the implementation is diagnosed with the model of the code as found *)
Definition finding_code (c : case) : Z :=
  if o_kind c =? 2 then
    if agrees d13_only c then 13
    else if agrees d5_only c then 5
    else 0
  else 0.
