(* driver `faults` (C09): real closed loops under a fault plan against Model.Faults
   with all defect flags clear; the verified observer judges the implementation's
   own observation (no crash; a stop only through a safe restore). *)
From F2G Require Export Model.Restore Model.Faults.
From F2G Require Import Drv.Common gen.Consts.
From Coq Require Import Lia.

Record case := mkCase {
  c_cb : combo;
  c_orig : dev;            (* what the controller holds as original state *)
  c_d0 : dev;              (* device at the start *)
  c_plan : list cyc;       (* cy_stall is taken from the observation (numeric part, not modelled here) *)
  o_kind : Z;              (* 0 regulating, 1 stopped after restorePwmEnabled, 2 panic *)
  o_cycle : Z;             (* cycle of the stop / panic; -1 when still regulating *)
  o_dev : dev;             (* device at the end *)
  o_ops : list op;         (* driver operations of the restore *)
}.

Definition dev_eqb (a b : dev) : bool := (mode a =? mode b) && (pwm a =? pwm b).
(* the model does not track PWM numbers while regulating: pwm = -1 means "not predicted" *)
Definition dev_matches (m o : dev) : bool := (mode m =? mode o) && ((pwm m =? -1) || (pwm m =? pwm o)).
Definition op_eqb (a b : op) : bool :=
  match a, b with
  | OpWPwm x, OpWPwm y => x =? y
  | OpWMode x, OpWMode y => x =? y
  | OpRMode, OpRMode => true
  | _, _ => false
  end.
(* the read-back is not logged by this driver *)
Definition no_reads (l : list op) : list op :=
  filter (fun o => match o with OpRMode => false | _ => true end) l.

Definition model (D : Defects) (c : case) : outcome := run D (c_cb c) (c_orig c) (c_d0 c) (c_plan c).

Definition agrees (D : Defects) (c : case) : bool :=
  match model D c with
  | Regulating s => (o_kind c =? 0) && (mode (l_dev s) =? mode (o_dev c))
  | FanStopped k p r => (o_kind c =? 1) && (o_cycle c =? k) && dev_matches (r_dev r) (o_dev c)
                        && list_eqb op_eqb (no_reads (r_ops r)) (o_ops c)
  | Crash k _ => (o_kind c =? 2) && (o_cycle c =? k)
  end.

Definition mismatch (c : case) : bool := negb (agrees repaired c).

Fixpoint count_wpwm (l : list op) : Z :=
  match l with
  | [] => 0
  | OpWPwm _ :: r => 1 + count_wpwm r
  | _ :: r => count_wpwm r
  end.
Definition attempted_last_resort (ops : list op) : bool := 2 <=? count_wpwm ops.

Definition stop_regime (c : case) : cyc :=
  nth (Z.to_nat (o_cycle c)) (c_plan c) (mkCyc FNone FNone FNone 0 FNone FNone false).

Definition sup (c : case) : bool := mode_supported (cb_fan (c_cb c)) (cb_enable_exists (c_cb c)).

(* the property on the implementation's observation: never a panic; a stop only
   with the fan handed back / at 255, or with the last-resort write (seen in the
   operation log) hit by that cycle's PWM-write fault *)
Definition holdsb (c : case) : bool :=
  if o_kind c =? 2 then false
  else if o_kind c =? 1 then
    safeb (sup c) (c_orig c) (o_dev c)
    || (attempted_last_resort (o_ops c) && match w_of_fault (cy_pwm_write (stop_regime c)) with WOk => false | _ => true end)
  else true.

Definition Holds (c : case) : Prop :=
  o_kind c <> 2 /\
  (o_kind c = 1 -> safe (sup c) (c_orig c) (o_dev c)
                   \/ (attempted_last_resort (o_ops c) = true /\ w_of_fault (cy_pwm_write (stop_regime c)) <> WOk)).

Lemma holdsb_spec c : holdsb c = true <-> Holds c.
Proof.
  unfold holdsb, Holds.
  destruct (o_kind c =? 2) eqn:E2.
  - apply Z.eqb_eq in E2. split; [discriminate|]. intros [H _]. congruence.
  - apply Z.eqb_neq in E2.
    destruct (o_kind c =? 1) eqn:E1.
    + apply Z.eqb_eq in E1.
      set (w := w_of_fault (cy_pwm_write (stop_regime c))).
      assert (W : (match w with WOk => false | _ => true end) = true <-> w <> WOk).
      { destruct w; split; intros H; first [discriminate | congruence | reflexivity]. }
      rewrite orb_true_iff, andb_true_iff, safeb_spec, W. split.
      * intros H. split; [exact E2|intros _; exact H].
      * intros [_ H]. apply H. exact E1.
    + apply Z.eqb_neq in E1. split; [|reflexivity].
      intros _. split; [exact E2|]. intros H. congruence.
Qed.

(* a panic on the implementation is diagnosed with the model of the code as found *)
Definition finding_code (c : case) : Z :=
  if o_kind c =? 2 then
    if agrees d13_only c then 13
    else if agrees d5_only c then 5
    else 0
  else 0.
