(* driver `hwmon` (C17): case type, model-vs-implementation comparison and the
   verified boolean observer of the property on the implementation's output.

   One case = one fake hwmon tree in one enumeration order + the configured
   hwmon sensor and fan entries + what the real internal.InitializeObjects did
   (paths every entry ended up with / returned error class and which entry IDs
   its text contains / Go runtime panic). *)
From F2G Require Import Drv.Common.
From F2G Require Export Model.Hwmon.
From F2G Require Import Proofs.Hwmon.
From Coq Require Import Lia.

Inductive obs :=
| OOk (sensors : list spath) (fans : list fan_paths)
| OErr (class : Z) (named : list (Z * Z))   (* (kind, position) of every entry whose ID occurs in the message *)
| OCrash.                                    (* runtime error (or any panic) inside InitializeObjects *)

Record case := mkCase {
  c_raw : list raw_chip;            (* chips in enumeration order *)
  c_invalid : list Z;               (* pattern ids for which regexp.Compile("(?i)"+p) failed *)
  c_match : list (Z * Z);           (* (pattern id, platform id) pairs the real regexp matched *)
  c_sensors : list sensor_sel;
  c_fans : list fan_sel;
  o_res : obs;
}.

Definition memZ (x : Z) (l : list Z) : bool := existsb (Z.eqb x) l.
Definition memZZ (x : Z * Z) (l : list (Z * Z)) : bool :=
  existsb (fun y => (fst x =? fst y) && (snd x =? snd y)) l.

Definition c_valid (c : case) (p : Z) : bool := negb (memZ p (c_invalid c)).
Definition c_matches (c : case) (p pl : Z) : bool := memZZ (p, pl) (c_match c).

(* ---- equality on observations ---- *)
Definition spath_eqb (a b : spath) : bool :=
  let '(a1, a2, a3) := a in let '(b1, b2, b3) := b in (a1 =? b1) && (a2 =? b2) && (a3 =? b3).
Definition fpaths_eqb (a b : fan_paths) : bool :=
  let '(a1, a2, a3) := a in let '(b1, b2, b3) := b in spath_eqb a1 b1 && spath_eqb a2 b2 && spath_eqb a3 b3.
Definition zz_eqb (a b : Z * Z) : bool := (fst a =? fst b) && (snd a =? snd b).

Definition obs_of (r : init_outcome) : obs :=
  match r with
  | IOk ps pf => OOk ps pf
  | IErr e k i => OErr (berr_code e) [(k, i)]
  | ICrash => OCrash
  end.

Definition obs_eqb (a b : obs) : bool :=
  match a, b with
  | OOk s1 f1, OOk s2 f2 => list_eqb spath_eqb s1 s2 && list_eqb fpaths_eqb f1 f2
  | OErr c1 n1, OErr c2 n2 => (c1 =? c2) && list_eqb zz_eqb n1 n2
  | OCrash, OCrash => true
  | _, _ => false
  end.

Definition model (d17 : bool) (c : case) : obs :=
  obs_of (init_objects_gen (c_valid c) (c_matches c) d17 (c_raw c) (c_sensors c) (c_fans c)).

(* the model of the tree as it is (D17 repaired) against the implementation *)
Definition mismatch (c : case) : bool := negb (obs_eqb (model false c) (o_res c)).

(* ---- the property on the implementation's own observation ----
   What each entry is entitled to, from the tree and the selector alone,
   independently of the enumeration order:
     XBind p  the pattern selects exactly one chip and the selector exactly one
              device on it: the entry must be bound to exactly p
     XFail    no device matches (pattern does not compile, matches no chip, or no
              matching chip has the index/channel): start-up must fail naming the entry
     XOut     outside the property's quantifier (several chips match and one has
              the device; selector shape the validator rejects): not judged *)
Inductive expect (A : Type) := XOut | XFail | XBind (a : A).
Arguments XOut {A}. Arguments XFail {A}. Arguments XBind {A} a.

Section Spec.
Variable valid : Z -> bool.
Variable matches : Z -> Z -> bool.

Definition fan_in_scope (s : fan_sel) : bool :=
  (((0 <? fs_index s) && (fs_rpm s =? 0)) || ((fs_index s =? 0) && (0 <? fs_rpm s))) && (0 <=? fs_pwm s).

Definition spec_fan (chips : list chip) (s : fan_sel) : expect fan_paths :=
  if negb (valid (fs_pat s)) then XFail else
  match fan_cands matches chips s with
  | [] => XFail
  | [(c, f)] =>
      match matching matches (fs_pat s) chips with
      | [_] => if fan_in_scope s then XBind (set_paths (cfg_of c f s)) else XOut
      | _ => XOut
      end
  | _ => XOut
  end.

Definition has_temp (s : sensor_sel) (c : chip) : bool :=
  match lookup (ss_index s) (ch_temps c) with Some _ => true | None => false end.

Definition spec_sensor (chips : list chip) (s : sensor_sel) : expect spath :=
  if negb (valid (ss_pat s)) then XFail else
  let ms := matching matches (ss_pat s) chips in
  if negb (existsb (has_temp s) ms) then XFail else
  match ms with
  | [c] => match lookup (ss_index s) (ch_temps c) with
           | Some ti => XBind (ch_id c, K_TEMP_INPUT, ti)
           | None => XFail
           end
  | _ => XOut
  end.
End Spec.

Definition entry_okb {A} (eqb : A -> A -> bool) (e : expect A) (p : A) : bool :=
  match e with XOut => true | XFail => false | XBind q => eqb q p end.

Fixpoint all2b {A B} (f : A -> B -> bool) (l1 : list A) (l2 : list B) : bool :=
  match l1, l2 with
  | [], [] => true
  | x :: r1, y :: r2 => f x y && all2b f r1 r2
  | _, _ => false
  end.

Definition may_fail {A} (e : option (expect A)) : bool :=
  match e with Some (XBind _) => false | Some _ => true | None => false end.

Definition nthZ {A} (l : list A) (i : Z) : option A :=
  if i <? 0 then None else nth_error l (Z.to_nat i).

Definition holds_obs (es : list (expect spath)) (ef : list (expect fan_paths)) (o : obs) : bool :=
  match o with
  | OCrash => false
  | OOk ps pf => all2b (entry_okb spath_eqb) es ps && all2b (entry_okb fpaths_eqb) ef pf
  | OErr _ named =>
      existsb (fun ki => if fst ki =? 0 then may_fail (nthZ es (snd ki))
                         else if fst ki =? 1 then may_fail (nthZ ef (snd ki)) else false) named
  end.

Definition expectations (c : case) : list (expect spath) * list (expect fan_paths) :=
  let chips := get_chips (c_raw c) in
  (map (spec_sensor (c_valid c) (c_matches c) chips) (c_sensors c),
   map (spec_fan (c_valid c) (c_matches c) chips) (c_fans c)).

Definition holdsb (c : case) : bool :=
  let '(es, ef) := expectations c in holds_obs es ef (o_res c).

(* D17 (code 1): the failing observation is a crash, the model of the code
   before the repair reproduces it, and the repaired model satisfies the property. *)
Definition finding_code (c : case) : Z :=
  let '(es, ef) := expectations c in
  match o_res c with
  | OCrash => if obs_eqb (model true c) OCrash && holds_obs es ef (model false c) then 1 else 0
  | _ => 0
  end.

(* ================= the observer is the stated property ================= *)
Definition entry_ok {A} (e : expect A) (p : A) : Prop := e = XOut \/ e = XBind p.
Definition fail_allowed {A} (e : option (expect A)) : Prop :=
  exists x, e = Some x /\ forall p, x <> XBind p.

Definition Holds_obs (es : list (expect spath)) (ef : list (expect fan_paths)) (o : obs) : Prop :=
  match o with
  | OCrash => False
  | OOk ps pf => Forall2 entry_ok es ps /\ Forall2 entry_ok ef pf
  | OErr _ named =>
      exists ki, In ki named /\
        ((fst ki = 0 /\ fail_allowed (nthZ es (snd ki))) \/ (fst ki = 1 /\ fail_allowed (nthZ ef (snd ki))))
  end.

Lemma spath_eqb_spec a b : spath_eqb a b = true <-> a = b.
Proof.
  destruct a as [[a1 a2] a3], b as [[b1 b2] b3]. cbn. rewrite !andb_true_iff, !Z.eqb_eq. split.
  - intros [[-> ->] ->]. reflexivity.
  - intros H; inversion H; auto.
Qed.

Lemma fpaths_eqb_spec a b : fpaths_eqb a b = true <-> a = b.
Proof.
  destruct a as [[a1 a2] a3], b as [[b1 b2] b3]. cbn. rewrite !andb_true_iff, !spath_eqb_spec. split.
  - intros [[-> ->] ->]. reflexivity.
  - intros H; inversion H; auto.
Qed.

Lemma entry_okb_spec {A} (eqb : A -> A -> bool) (E : forall a b, eqb a b = true <-> a = b) e p :
  entry_okb eqb e p = true <-> entry_ok e p.
Proof.
  unfold entry_ok. destruct e as [| |q]; cbn.
  - split; auto.
  - split; [discriminate|]. intros [H|H]; discriminate.
  - rewrite E. split; [intros ->; auto|]. intros [H|H]; [discriminate|]. inversion H; reflexivity.
Qed.

Lemma all2b_spec {A B} (f : A -> B -> bool) (P : A -> B -> Prop) (E : forall a b, f a b = true <-> P a b) l1 l2 :
  all2b f l1 l2 = true <-> Forall2 P l1 l2.
Proof.
  revert l2. induction l1 as [|x r IH]; destruct l2 as [|y r2]; cbn.
  - split; auto.
  - split; [discriminate|]. intros H; inversion H.
  - split; [discriminate|]. intros H; inversion H.
  - rewrite andb_true_iff, E, IH. split.
    + intros [H1 H2]. constructor; auto.
    + intros H; inversion H; auto.
Qed.

Lemma may_fail_spec {A} (e : option (expect A)) : may_fail e = true <-> fail_allowed e.
Proof.
  unfold fail_allowed. destruct e as [[| |q]|]; cbn; split; intros H; try discriminate; auto.
  - exists XOut. split; auto. discriminate.
  - exists XFail. split; auto. discriminate.
  - destruct H as [x [H1 H2]]. inversion H1; subst. exfalso. apply (H2 q). reflexivity.
  - destruct H as [x [H1 _]]. discriminate.
Qed.

Lemma holds_obs_spec es ef o : holds_obs es ef o = true <-> Holds_obs es ef o.
Proof.
  destruct o as [ps pf|cls named|]; cbn.
  - rewrite andb_true_iff.
    rewrite (all2b_spec _ entry_ok (entry_okb_spec spath_eqb spath_eqb_spec)).
    rewrite (all2b_spec _ entry_ok (entry_okb_spec fpaths_eqb fpaths_eqb_spec)). reflexivity.
  - rewrite existsb_exists. split; intros [ki [Hin H]]; exists ki; split; auto.
    + destruct (fst ki =? 0) eqn:E0.
      * left. apply Z.eqb_eq in E0. split; auto. apply may_fail_spec; exact H.
      * destruct (fst ki =? 1) eqn:E1; [|discriminate].
        right. apply Z.eqb_eq in E1. split; auto. apply may_fail_spec; exact H.
    + destruct H as [[E H]|[E H]]; rewrite E; cbn; apply may_fail_spec; exact H.
  - split; [discriminate|contradiction].
Qed.

(* the property, as a proposition about one case *)
Definition Holds (c : case) : Prop :=
  let chips := get_chips (c_raw c) in
  Holds_obs (map (spec_sensor (c_valid c) (c_matches c) chips) (c_sensors c))
            (map (spec_fan (c_valid c) (c_matches c) chips) (c_fans c)) (o_res c).

Lemma holdsb_spec c : holdsb c = true <-> Holds c.
Proof. unfold holdsb, Holds, expectations. apply holds_obs_spec. Qed.

(* ================= the model satisfies the observer, for every input ================= *)
Section ModelHolds.
Variable valid : Z -> bool.
Variable matches : Z -> Z -> bool.

Lemma spec_fan_bind chips s p : spec_fan valid matches chips s = XBind p ->
  exists cfg, bind_fan valid matches chips s = Ok cfg /\ set_paths cfg = p.
Proof.
  unfold spec_fan. destruct (valid (fs_pat s)) eqn:V; cbn [negb]; [|discriminate].
  rewrite (bind_fan_char valid matches chips s V).
  destruct (fan_cands matches chips s) as [|[c f] [|? ?]]; try discriminate.
  destruct (matching matches (fs_pat s) chips) as [|? [|? ?]]; try discriminate.
  destruct (fan_in_scope s); [|discriminate].
  intros H; inversion H. eauto.
Qed.

Lemma spec_fan_fail chips s : spec_fan valid matches chips s = XFail ->
  exists e, bind_fan valid matches chips s = Err e.
Proof.
  unfold spec_fan. destruct (valid (fs_pat s)) eqn:V; cbn [negb].
  - rewrite (bind_fan_char valid matches chips s V).
    destruct (fan_cands matches chips s) as [|[c f] [|? ?]]; try discriminate; [eauto|].
    destruct (matching matches (fs_pat s) chips) as [|? [|? ?]]; try discriminate.
    destruct (fan_in_scope s); discriminate.
  - intros _. rewrite (bind_fan_invalid valid matches chips s V). destruct chips; eauto.
Qed.

Lemma spec_sensor_bind chips s p : spec_sensor valid matches chips s = XBind p ->
  bind_sensor valid matches chips s = Ok p.
Proof.
  unfold spec_sensor. destruct (valid (ss_pat s)) eqn:V; cbn [negb]; [|discriminate]. cbv zeta.
  destruct (existsb (has_temp s) (matching matches (ss_pat s) chips)); cbn [negb]; [|discriminate].
  destruct (matching matches (ss_pat s) chips) as [|c [|? ?]] eqn:M; try discriminate.
  destruct (lookup (ss_index s) (ch_temps c)) as [ti|] eqn:L; [|discriminate].
  intros H; inversion H; subst. eapply sensor_bound; eauto.
Qed.

Lemma spec_sensor_fail chips s : spec_sensor valid matches chips s = XFail ->
  exists e, bind_sensor valid matches chips s = Err e.
Proof.
  unfold spec_sensor. destruct (valid (ss_pat s)) eqn:V; cbn [negb].
  - cbv zeta. destruct (existsb (has_temp s) (matching matches (ss_pat s) chips)) eqn:X; cbn [negb].
    + destruct (matching matches (ss_pat s) chips) as [|c [|? ?]] eqn:M; try discriminate.
      destruct (lookup (ss_index s) (ch_temps c)) eqn:L; [discriminate|].
      cbn in X. unfold has_temp in X. rewrite L in X. discriminate.
    + intros _. destruct (sensor_fails_cleanly valid matches chips s) as [e [H _]]; [|eauto].
      intros c Hc Hm.
      assert (Hin : In c (matching matches (ss_pat s) chips)) by (apply filter_In; auto).
      destruct (lookup (ss_index s) (ch_temps c)) eqn:L; [|reflexivity].
      exfalso. assert (existsb (has_temp s) (matching matches (ss_pat s) chips) = true).
      { apply existsb_exists. exists c. split; auto. unfold has_temp. rewrite L. reflexivity. }
      congruence.
  - intros _. unfold bind_sensor, bind_sensor_gen. rewrite (sensor_loop_invalid valid matches _ chips s None V).
    destruct chips; eauto.
Qed.

Lemma nthZ_cons {A} (x : A) l j : 0 < j -> nthZ (x :: l) j = nthZ l (j - 1).
Proof.
  intros H. unfold nthZ. replace (j <? 0) with false by (symmetry; apply Z.ltb_ge; lia).
  replace (j - 1 <? 0) with false by (symmetry; apply Z.ltb_ge; lia).
  replace (Z.to_nat j) with (S (Z.to_nat (j - 1))) by lia. reflexivity.
Qed.

Lemma init_sensors_holds chips sels : forall i,
  match init_sensors valid matches false chips sels i with
  | SOk ps => all2b (entry_okb spath_eqb) (map (spec_sensor valid matches chips) sels) ps = true
  | SErr e j => i <= j /\ may_fail (nthZ (map (spec_sensor valid matches chips) sels) (j - i)) = true
  | SCrash => False
  end.
Proof.
  induction sels as [|s r IH]; intros i; [reflexivity|].
  cbn [init_sensors map]. change (bind_sensor_gen valid matches false chips s) with (bind_sensor valid matches chips s).
  destruct (bind_sensor valid matches chips s) as [p|e|] eqn:B.
  - specialize (IH (i + 1)). destruct (init_sensors valid matches false chips r (i + 1)) as [ps|e j|].
    + cbn [all2b]. rewrite IH, andb_true_r.
      destruct (spec_sensor valid matches chips s) as [| |q] eqn:S; cbn; auto.
      * apply spec_sensor_fail in S. destruct S as [e S]. congruence.
      * apply spec_sensor_bind in S. rewrite S in B. inversion B; subst. apply spath_eqb_spec; reflexivity.
    + destruct IH as [L IH]. split; [lia|]. rewrite nthZ_cons by lia. replace (j - i - 1) with (j - (i + 1)) by lia. exact IH.
    + exact IH.
  - split; [lia|]. replace (i - i) with 0 by lia. cbn.
    destruct (spec_sensor valid matches chips s) as [| |q] eqn:S; auto.
    apply spec_sensor_bind in S. congruence.
  - exact (sensor_never_crashes valid matches chips s B).
Qed.

Lemma init_fans_holds chips sels : forall i,
  match init_fans valid matches chips sels i with
  | SOk ps => all2b (entry_okb fpaths_eqb) (map (spec_fan valid matches chips) sels) ps = true
  | SErr e j => i <= j /\ may_fail (nthZ (map (spec_fan valid matches chips) sels) (j - i)) = true
  | SCrash => False
  end.
Proof.
  induction sels as [|s r IH]; intros i; [reflexivity|].
  cbn [init_fans map].
  destruct (bind_fan valid matches chips s) as [cfg|e|] eqn:B.
  - specialize (IH (i + 1)). destruct (init_fans valid matches chips r (i + 1)) as [ps|e j|].
    + cbn [all2b]. rewrite IH, andb_true_r.
      destruct (spec_fan valid matches chips s) as [| |q] eqn:S; cbn; auto.
      * apply spec_fan_fail in S. destruct S as [e S]. congruence.
      * apply spec_fan_bind in S. destruct S as [cfg' [S1 S2]]. rewrite S1 in B. inversion B; subst.
        apply fpaths_eqb_spec; reflexivity.
    + destruct IH as [L IH]. split; [lia|]. rewrite nthZ_cons by lia. replace (j - i - 1) with (j - (i + 1)) by lia. exact IH.
    + exact IH.
  - split; [lia|]. replace (i - i) with 0 by lia. cbn.
    destruct (spec_fan valid matches chips s) as [| |q] eqn:S; auto.
    apply spec_fan_bind in S. destruct S as [cfg' [S1 _]]. congruence.
  - exact (fan_never_crashes valid matches chips s B).
Qed.

(* InitializeObjects as modelled (tree with D17 repaired): for EVERY tree, every
   enumeration order, every list of sensor and fan entries and every regexp
   oracle, the outcome satisfies the property observer *)
Lemma init_objects_holds raws ss fs :
  let chips := get_chips raws in
  Holds_obs (map (spec_sensor valid matches chips) ss) (map (spec_fan valid matches chips) fs)
            (obs_of (init_objects valid matches raws ss fs)).
Proof.
  cbv zeta. apply holds_obs_spec. unfold init_objects, init_objects_gen.
  pose proof (init_sensors_holds (get_chips raws) ss 0) as HS.
  destruct (init_sensors valid matches false (get_chips raws) ss 0) as [ps|e j|]; [| |contradiction].
  - pose proof (init_fans_holds (get_chips raws) fs 0) as HF.
    destruct (init_fans valid matches (get_chips raws) fs 0) as [pf|e j|]; [| |contradiction].
    + cbn. rewrite HS, HF. reflexivity.
    + destruct HF as [_ HF]. replace (j - 0) with j in HF by lia. cbn. rewrite HF. reflexivity.
  - destruct HS as [_ HS]. replace (j - 0) with j in HS by lia. cbn. rewrite HS. reflexivity.
Qed.
End ModelHolds.

Lemma model_never_crashes c : model false c <> OCrash.
Proof.
  unfold model. pose proof (init_objects_holds (c_valid c) (c_matches c) (c_raw c) (c_sensors c) (c_fans c)) as H.
  cbv zeta in H. intros E. unfold init_objects in H. rewrite E in H. exact H.
Qed.
