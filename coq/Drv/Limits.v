(* driver `limits` (C13): case type, model-vs-implementation comparison and the
   verified boolean observer of the property on the implementation's output *)
From F2G Require Export Drv.Common Model.Fan Model.Limits.
From F2G Require Import Model.Util Proofs.Limits.
From Coq Require Import Lia Sorting.Sorted.

Definition lim := (Z * Z * Z)%type.          (* GetMinPwm, GetStartPwm, GetMaxPwm *)

Record case := mkCase {
  c_kind : kind; c_ns : bool;
  c_min : option Z; c_start : option Z; c_max : option Z;     (* configuration *)
  c_ops : list op;
  o_init : lim;                        (* impl: the getters right after fans.NewFan *)
  o_steps : list (Z * lim);            (* impl: per call: error code (0 nil, 1 os.ErrInvalid, 2 other, 3 panic), getters after it *)
}.

Definition lim_eqb (a b : lim) : bool :=
  let '(a1, a2, a3) := a in let '(b1, b2, b3) := b in (a1 =? b1) && (a2 =? b2) && (a3 =? b3).
Definition obs_eqb (a b : Z * lim) : bool := (fst a =? fst b) && lim_eqb (snd a) (snd b).

Definition fan0 (c : case) : fan := new_fan (c_kind c) (c_ns c) (c_min c) (c_start c) (c_max c).

Definition mismatch_with (stp : fan -> op -> fan * Z) (c : case) : bool :=
  negb (lim_eqb (limits (fan0 c)) (o_init c)
        && list_eqb obs_eqb (run_obs_with stp (fan0 c) (c_ops c)) (o_steps c)).
Definition mismatch (c : case) : bool := mismatch_with step c.

(* ---- the property, judged on the implementation's own observations ---- *)
Definition l_min (l : lim) : Z := fst (fst l).
Definition l_start (l : lim) : Z := snd (fst l).
Definition l_max (l : lim) : Z := snd l.

Definition impb (a b : bool) : bool := if a then b else true.
Definition is_hwmon (k : kind) : bool := match k with HwMon => true | _ => false end.
Definition optb (o : option Z) (p : Z -> bool) : bool := match o with Some x => p x | None => true end.

Fixpoint adjb (prev : Z) (l : rpm_curve) : bool :=
  match l with [] => true | (p, _) :: t => (prev <? p) && adjb p t end.
Definition sorted_keysb (d : rpm_curve) : bool :=
  match d with [] => true | (p, _) :: t => adjb p t end.
Definition keys_le_255b (d : rpm_curve) : bool := forallb (fun kv => fst kv <=? 255) d.

(* executable forms of start_spec / max_spec on a key-sorted curve (written
   differently from the loop in ComputePwmBoundaries: filter + head, fold max) *)
Definition spec_start (d : rpm_curve) : Z :=
  match filter (fun kv => 0 <? whole (snd kv)) d with [] => 255 | kv :: _ => fst kv end.
Definition top_rpm (d : rpm_curve) : Z := fold_right (fun kv acc => Z.max (whole (snd kv)) acc) 0 d.
Definition spec_max (d : rpm_curve) : Z :=
  let t := top_rpm d in
  if t <=? 0 then 255
  else match filter (fun kv => whole (snd kv) =? t) d with [] => 255 | kv :: _ => fst kv end.

(* holds in every observed state: no neverStop -> minimum 0; configured limits win
   (judged when the case contains no forced setter call) *)
Definition state_okb (c : case) (noforce : bool) (l : lim) : bool :=
  impb (negb (c_ns c)) (l_min l =? 0)
  && impb (is_hwmon (c_kind c)) (impb noforce
       (optb (c_min c) (fun x => l_min l =? (if c_ns c then x else 0))
        && (optb (c_start c) (fun x => l_start l =? x)
        && optb (c_max c) (fun x => l_max l =? x)))).

(* one call on a hwmon fan: empty data is refused and changes nothing; other data is
   accepted and unconfigured start / max are the measured ones of THIS data *)
Definition step_okb (c : case) (prev : lim) (o : op) (e : Z) (l : lim) : bool :=
  impb (is_hwmon (c_kind c))
    match o with
    | Attach [] => (e =? 1) && lim_eqb l prev
    | Attach d => (e =? 0)
                  && (impb (negb (is_some (c_start c))) (impb (keys_le_255b d) (impb (sorted_keysb d) (l_start l =? spec_start d)))
                  && impb (negb (is_some (c_max c))) (impb (sorted_keysb d) (l_max l =? spec_max d)))
    | UpdateCurve _ _ => (e =? 0) && lim_eqb l prev
    | _ => e =? 0
    end.

Fixpoint steps_okb (c : case) (noforce : bool) (prev : lim) (ops : list op) (obs : list (Z * lim)) : bool :=
  match ops, obs with
  | [], [] => true
  | o :: r, (e, l) :: r' => step_okb c prev o e l && (state_okb c noforce l && steps_okb c noforce l r r')
  | _, _ => false
  end.

Definition holdsb (c : case) : bool :=
  let noforce := forallb (fun o => negb (forced o)) (c_ops c) in
  state_okb c noforce (o_init c) && steps_okb c noforce (o_init c) (c_ops c) (o_steps c).

(* ---- the same as a Prop over the specification of Proofs/Limits.v ---- *)
Definition state_ok (c : case) (noforce : bool) (l : lim) : Prop :=
  (c_ns c = false -> l_min l = 0) /\
  (c_kind c = HwMon -> noforce = true ->
     (forall x, c_min c = Some x -> l_min l = if c_ns c then x else 0) /\
     (forall x, c_start c = Some x -> l_start l = x) /\
     (forall x, c_max c = Some x -> l_max l = x)).

Definition step_ok (c : case) (prev : lim) (o : op) (e : Z) (l : lim) : Prop :=
  c_kind c = HwMon ->
  match o with
  | Attach [] => e = 1 /\ l = prev
  | Attach d => e = 0 /\
                (c_start c = None -> keys_le_255 d -> sorted_keys d -> start_spec d (l_start l)) /\
                (c_max c = None -> sorted_keys d -> max_spec d (l_max l))
  | UpdateCurve _ _ => e = 0 /\ l = prev
  | _ => e = 0
  end.

Fixpoint steps_ok (c : case) (noforce : bool) (prev : lim) (ops : list op) (obs : list (Z * lim)) : Prop :=
  match ops, obs with
  | [], [] => True
  | o :: r, (e, l) :: r' => step_ok c prev o e l /\ state_ok c noforce l /\ steps_ok c noforce l r r'
  | _, _ => False
  end.

Definition Holds (c : case) : Prop :=
  let noforce := forallb (fun o => negb (forced o)) (c_ops c) in
  state_ok c noforce (o_init c) /\ steps_ok c noforce (o_init c) (c_ops c) (o_steps c).

(* ---- the observer is exactly that Prop ---- *)
Lemma impb_iff (a b : bool) (A B : Prop) :
  (a = true <-> A) -> (A -> (b = true <-> B)) -> (impb a b = true <-> (A -> B)).
Proof.
  intros HA HB. destruct a; cbn.
  - assert (A) by (apply HA; reflexivity). split; [intros E _; now apply HB|intros F; apply HB; auto].
  - split; [intros _ F; apply HA in F; discriminate|reflexivity].
Qed.

Lemma andb_iff (a b : bool) (A B : Prop) :
  (a = true <-> A) -> (b = true <-> B) -> (a && b = true <-> A /\ B).
Proof. intros HA HB. rewrite andb_true_iff, HA, HB. reflexivity. Qed.

Lemma optb_iff (o : option Z) (p : Z -> bool) (P : Z -> Prop) :
  (forall x, p x = true <-> P x) -> (optb o p = true <-> forall x, o = Some x -> P x).
Proof.
  intros H. destruct o as [y|]; cbn.
  - rewrite H. split; [intros Py x E; inversion E; subst; exact Py|intros F; apply F; reflexivity].
  - split; [intros _ x E; discriminate|reflexivity].
Qed.

Lemma is_hwmon_iff k : is_hwmon k = true <-> k = HwMon.
Proof. destruct k; cbn; split; congruence. Qed.

Lemma negb_iff_false b : negb b = true <-> b = false.
Proof. destruct b; cbn; split; congruence. Qed.

Lemma no_start_iff (o : option Z) : negb (is_some o) = true <-> o = None.
Proof. destruct o; cbn; split; congruence. Qed.

Lemma lim_eqb_iff a b : lim_eqb a b = true <-> a = b.
Proof.
  destruct a as [[a1 a2] a3], b as [[b1 b2] b3]. cbn. rewrite !andb_true_iff, !Z.eqb_eq.
  split; [intros [[-> ->] ->]; reflexivity|intros E; inversion E; auto].
Qed.

Lemma adjb_iff : forall t p, adjb p t = true <-> StronglySorted Z.lt (p :: map fst t).
Proof.
  induction t as [|[q r] t IH]; intros p; cbn [adjb map fst].
  - split; [intros _; repeat constructor|reflexivity].
  - rewrite andb_true_iff, IH, Z.ltb_lt. split.
    + intros [Hpq HS]. constructor; [exact HS|]. constructor; [exact Hpq|].
      inversion HS as [|? ? _ HF]; subst. eapply Forall_impl; [|exact HF]. cbn. intros; lia.
    + intros HS. inversion HS as [|? ? HS' HF]; subst. inversion HF; subst. split; assumption.
Qed.

Lemma sorted_keysb_iff d : sorted_keysb d = true <-> sorted_keys d.
Proof.
  unfold sorted_keysb, sorted_keys. destruct d as [|[p r] t].
  - split; [intros _; constructor|reflexivity].
  - apply adjb_iff.
Qed.

Lemma keys_le_255b_iff d : keys_le_255b d = true <-> keys_le_255 d.
Proof.
  unfold keys_le_255b, keys_le_255. rewrite forallb_forall, Forall_forall.
  split; intros H x Hx; specialize (H x Hx); [now apply Z.leb_le|now apply Z.leb_le].
Qed.

(* spec_start / spec_max meet the specification on key-sorted data *)
Lemma spec_start_ok : forall d, sorted_keys d -> start_spec d (spec_start d).
Proof.
  unfold spec_start. induction d as [|[p r] t IH]; intros HS.
  - right. split; [intros ? ? []|reflexivity].
  - apply sorted_keys_cons in HS. destruct HS as [HS Hlt]. cbn [filter snd].
    destruct (0 <? whole r) eqn:E; [apply Z.ltb_lt in E|apply Z.ltb_ge in E].
    + left. exists r. cbn [fst]. split; [left; reflexivity|]. split; [exact E|].
      intros p' r' [H|H] _; [inversion H; subst; lia|]. specialize (Hlt _ _ H). lia.
    + destruct (IH HS) as [[r' [Hin [Hp Hlow]]]|[N Ev]].
      * left. exists r'. split; [right; exact Hin|]. split; [exact Hp|].
        intros p' r'' [H|H] Hpos; [inversion H; subst; lia|exact (Hlow _ _ H Hpos)].
      * right. split; [|exact Ev]. intros p' r' [H|H]; [inversion H; subst; lia|exact (N _ _ H)].
Qed.

Lemma top_rpm_ge0 d : 0 <= top_rpm d.
Proof. unfold top_rpm. induction d as [|[p r] t IH]; cbn [fold_right]; lia. Qed.

Lemma top_rpm_upper d : forall p r, In (p, r) d -> whole r <= top_rpm d.
Proof.
  induction d as [|[p0 r0] t IH]; intros p r []; cbn [top_rpm fold_right snd].
  - inversion H; subst. lia.
  - specialize (IH _ _ H). unfold top_rpm in IH. lia.
Qed.

Lemma top_rpm_attained d : 0 < top_rpm d -> exists p r, In (p, r) d /\ whole r = top_rpm d.
Proof.
  induction d as [|[p0 r0] t IH]; cbn [top_rpm fold_right snd]; intros H; [lia|].
  fold (top_rpm t) in *. destruct (Z_le_gt_dec (top_rpm t) (whole r0)) as [L|G].
  - exists p0, r0. split; [left; reflexivity|lia].
  - destruct IH as [p [r [Hin E]]]; [lia|]. exists p, r. split; [right; exact Hin|lia].
Qed.

(* first element of a key-sorted curve that satisfies a predicate on the RPM value *)
Lemma first_match_lowest (q : f64 -> bool) : forall d, sorted_keys d ->
  match filter (fun kv => q (snd kv)) d with
  | [] => forall p r, In (p, r) d -> q r = false
  | kv :: _ => In kv d /\ q (snd kv) = true /\ forall p r, In (p, r) d -> q r = true -> fst kv <= p
  end.
Proof.
  induction d as [|[p r] t IH]; intros HS; cbn [filter snd].
  - intros ? ? [].
  - apply sorted_keys_cons in HS. destruct HS as [HS Hlt]. destruct (q r) eqn:E.
    + split; [left; reflexivity|]. split; [exact E|]. cbn [fst].
      intros p' r' [H|H] _; [inversion H; subst; lia|]. specialize (Hlt _ _ H). lia.
    + specialize (IH HS). destruct (filter (fun kv => q (snd kv)) t) as [|kv rest].
      * intros p' r' [H|H]; [inversion H; subst; exact E|exact (IH _ _ H)].
      * destruct IH as [Hin [Hq Hlow]]. split; [right; exact Hin|]. split; [exact Hq|].
        intros p' r' [H|H] Hq'; [inversion H; subst; congruence|exact (Hlow _ _ H Hq')].
Qed.

Lemma spec_max_ok d : sorted_keys d -> max_spec d (spec_max d).
Proof.
  intros HS. unfold spec_max. cbv zeta. pose proof (top_rpm_upper d) as U.
  destruct (top_rpm d <=? 0) eqn:E; [apply Z.leb_le in E|apply Z.leb_gt in E].
  - right. split; [|reflexivity]. intros p r H. specialize (U _ _ H). lia.
  - left. pose proof (first_match_lowest (fun r => whole r =? top_rpm d) d HS) as F. cbv beta in F.
    destruct (filter (fun kv => whole (snd kv) =? top_rpm d) d) as [|[m rm] rest].
    + destruct (top_rpm_attained d E) as [p [r [Hin Er]]]. specialize (F _ _ Hin).
      apply Z.eqb_neq in F. congruence.
    + destruct F as [Hin [Hq Hlow]]. cbn [fst snd] in *. apply Z.eqb_eq in Hq.
      exists rm. split; [exact Hin|]. split; [lia|]. split.
      * intros p' r' H. rewrite Hq. exact (U _ _ H).
      * intros p' r' H Eq. apply (Hlow _ _ H). apply Z.eqb_eq. congruence.
Qed.

Lemma start_check_iff d s : sorted_keys d -> ((s =? spec_start d) = true <-> start_spec d s).
Proof.
  intros HS. rewrite Z.eqb_eq. split.
  - intros ->. apply spec_start_ok. exact HS.
  - intros H. eapply start_spec_unique; [exact H|apply spec_start_ok; exact HS].
Qed.

Lemma max_check_iff d m : sorted_keys d -> ((m =? spec_max d) = true <-> max_spec d m).
Proof.
  intros HS. rewrite Z.eqb_eq. split.
  - intros ->. apply spec_max_ok. exact HS.
  - intros H. eapply max_spec_unique; [exact H|apply spec_max_ok; exact HS].
Qed.

Lemma state_okb_iff c nf l : state_okb c nf l = true <-> state_ok c nf l.
Proof.
  unfold state_okb, state_ok. apply andb_iff.
  - apply impb_iff; [apply negb_iff_false|intros _; apply Z.eqb_eq].
  - apply impb_iff; [apply is_hwmon_iff|intros _].
    apply impb_iff; [reflexivity|intros _].
    apply andb_iff; [apply optb_iff; intros x; apply Z.eqb_eq|].
    apply andb_iff; apply optb_iff; intros x; apply Z.eqb_eq.
Qed.

Lemma step_okb_iff c prev o e l : step_okb c prev o e l = true <-> step_ok c prev o e l.
Proof.
  unfold step_okb, step_ok. apply impb_iff; [apply is_hwmon_iff|intros _].
  destruct o as [d|v b|v b|v b|k r]; try apply Z.eqb_eq; [|apply andb_iff; [apply Z.eqb_eq|apply lim_eqb_iff]].
  destruct d as [|kv t].
  - apply andb_iff; [apply Z.eqb_eq|apply lim_eqb_iff].
  - set (d := kv :: t). apply andb_iff; [apply Z.eqb_eq|]. apply andb_iff.
    + apply impb_iff; [apply no_start_iff|intros _].
      apply impb_iff; [apply keys_le_255b_iff|intros _].
      apply impb_iff; [apply sorted_keysb_iff|intros HS]. apply start_check_iff. exact HS.
    + apply impb_iff; [apply no_start_iff|intros _].
      apply impb_iff; [apply sorted_keysb_iff|intros HS]. apply max_check_iff. exact HS.
Qed.

Lemma steps_okb_iff c nf : forall ops prev obs, steps_okb c nf prev ops obs = true <-> steps_ok c nf prev ops obs.
Proof.
  induction ops as [|o r IH]; intros prev obs; destruct obs as [|[e l] r']; cbn [steps_okb steps_ok];
    try (split; [discriminate|contradiction]).
  - split; auto.
  - apply andb_iff; [apply step_okb_iff|]. apply andb_iff; [apply state_okb_iff|apply IH].
Qed.

Theorem holdsb_spec c : holdsb c = true <-> Holds c.
Proof. unfold holdsb, Holds. cbv zeta. apply andb_iff; [apply state_okb_iff|apply steps_okb_iff]. Qed.

(* the model's own observations satisfy the observer's Prop (the theorems of
   Proofs/Limits.v, restated on a case): whenever the implementation agrees with the
   model on a case, the case holds *)
Definition is_setstart (o : op) : bool := match o with SetStart _ _ => true | _ => false end.

(* D16 (repaired in the tree; kept so that a regression is diagnosed by name): a
   failing case is an instance iff the pre-repair model reproduces the whole
   observation, the fan has no configured start PWM, and data was attached at least
   twice or after a SetStartPwm call (the stale start PWM the old code mistook for a user override) *)
Definition finding_code (c : case) : Z :=
  if negb (holdsb c)
     && negb (mismatch_with step_old c)
     && is_hwmon (c_kind c) && negb (is_some (c_start c))
     && ((2 <=? Z.of_nat (length (filter is_attach (c_ops c)))) || existsb is_setstart (c_ops c))
  then 16 else 0.
