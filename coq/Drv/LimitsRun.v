(* driver `limitsrun` (C13, C02): the limits a fan is really started with by
   DefaultFanController.Run (stored RPM curve from the database, configuration),
   and the requests of the first control cycles. Case type, comparison with the
   C13 model and the verified observer. *)
From F2G Require Export Drv.Common Model.Fan Model.Limits.
From F2G Require Model.Controller.
From F2G Require Import Model.Util Proofs.Limits Drv.Limits.
From Coq Require Import Lia Sorting.Sorted.

Record case := mkCase {
  r_ns : bool;
  r_min : option Z; r_start : option Z; r_max : option Z;     (* configuration *)
  r_stored : rpm_curve;     (* the RPM curve in the database for this fan (read back through the real LoadFanPwmData) *)
  r_v : Z;                  (* constant curve value *)
  o_ret : Z;                (* impl: 0 regulation started, 1 Run returned an error before, 2 panic, 3 never got there *)
  o_lim : lim;              (* impl: GetMinPwm, GetStartPwm, GetMaxPwm when the first control cycle starts *)
  o_reqs : list Z;          (* impl: the request (lastSetPwm) of every control cycle *)
}.

(* the model: a fresh fan to which the stored curve is attached - nothing else may touch the limits *)
Definition mfan (c : case) : fan :=
  run_ops (new_fan HwMon (r_ns c) (r_min c) (r_start c) (r_max c)) [Attach (r_stored c)].

(* direct control loop without rate limit, fan spinning: every request is the curve value
   rescaled into [GetMinPwm, GetMaxPwm] *)
Definition mreq (c : case) : Z :=
  Model.Controller.steady (r_v c) (GetMinPwm (mfan c)) (GetMaxPwm (mfan c)).

Definition mismatch (c : case) : bool :=
  match r_stored c with
  | [] => negb (o_ret c =? 1)
  | _ => negb ((o_ret c =? 0) && lim_eqb (limits (mfan c)) (o_lim c)
               && forallb (fun q => q =? mreq c) (o_reqs c))
  end.

(* ---- the property, judged on the implementation's own observations ---- *)
(* the minimum a neverStop fan must never be driven below: the configured minPwm, else
   (nothing configured that could stand in for it) the measured one *)
Definition floor (c : case) : option Z :=
  match r_min c with
  | Some x => Some x
  | None => match r_start c with None => Some (spec_start (r_stored c)) | Some _ => None end
  end.

Definition holdsb (c : case) : bool :=
  let d := r_stored c in
  let l := o_lim c in
  match d with
  | [] => o_ret c =? 1
  | _ =>
    (o_ret c =? 0)
    && (impb (negb (r_ns c)) (l_min l =? 0)
    && (optb (r_min c) (fun x => l_min l =? (if r_ns c then x else 0))
    && (optb (r_start c) (fun x => l_start l =? x)
    && (optb (r_max c) (fun x => l_max l =? x)
    && (impb (negb (is_some (r_start c))) (impb (keys_le_255b d) (impb (sorted_keysb d) (l_start l =? spec_start d)))
    && (impb (negb (is_some (r_max c))) (impb (sorted_keysb d) (l_max l =? spec_max d))
    && impb (r_ns c) (impb (l_min l <=? l_max l) (impb (sorted_keysb d) (optb (floor c) (fun m => forallb (fun q => m <=? q) (o_reqs c)))))))))))
  end.

Definition is_floor (c : case) (m : Z) : Prop :=
  r_min c = Some m \/ (r_min c = None /\ r_start c = None /\ start_spec (r_stored c) m).

Definition Holds (c : case) : Prop :=
  let d := r_stored c in
  let l := o_lim c in
  match d with
  | [] => o_ret c = 1                      (* no measurements: start-up refuses *)
  | _ =>
    o_ret c = 0 /\
    (r_ns c = false -> l_min l = 0) /\
    (forall x, r_min c = Some x -> l_min l = if r_ns c then x else 0) /\
    (forall x, r_start c = Some x -> l_start l = x) /\
    (forall x, r_max c = Some x -> l_max l = x) /\
    (r_start c = None -> keys_le_255 d -> sorted_keys d -> start_spec d (l_start l)) /\
    (r_max c = None -> sorted_keys d -> max_spec d (l_max l)) /\
    (* C02 is stated for fans whose limits are not inverted (min <= max) *)
    (r_ns c = true -> l_min l <= l_max l -> sorted_keys d -> forall m, is_floor c m -> Forall (fun q => m <= q) (o_reqs c))
  end.

Lemma true_iff (b : bool) : b = true <-> b = true.
Proof. reflexivity. Qed.

Lemma ge_all_iff m l : forallb (fun q => m <=? q) l = true <-> Forall (fun q => m <= q) l.
Proof.
  rewrite forallb_forall, Forall_forall. split; intros H x Hx; specialize (H x Hx); now apply Z.leb_le.
Qed.

Lemma floor_iff c : sorted_keys (r_stored c) ->
  (optb (floor c) (fun m => forallb (fun q => m <=? q) (o_reqs c)) = true
   <-> forall m, is_floor c m -> Forall (fun q => m <= q) (o_reqs c)).
Proof.
  intros HS. unfold floor, is_floor. destruct (r_min c) as [x|]; [|destruct (r_start c) as [y|]]; cbn [optb].
  - rewrite ge_all_iff. split.
    + intros H m [E|[E _]]; [inversion E; subst; exact H|discriminate].
    + intros H. apply H. left. reflexivity.
  - split; [|reflexivity]. intros _ m [E|[_ [E _]]]; discriminate.
  - rewrite ge_all_iff. split.
    + intros H m [E|[_ [_ S]]]; [discriminate|].
      assert (m = spec_start (r_stored c)) by (eapply start_spec_unique; [exact S|apply spec_start_ok; exact HS]).
      subst m. exact H.
    + intros H. apply H. right. repeat split. apply spec_start_ok. exact HS.
Qed.

Theorem holdsb_spec c : holdsb c = true <-> Holds c.
Proof.
  unfold holdsb, Holds. cbv zeta. destruct (r_stored c) as [|kv t] eqn:Ed; [apply Z.eqb_eq|].
  rewrite <- Ed. clear Ed.
  apply andb_iff; [apply Z.eqb_eq|].
  apply andb_iff; [apply impb_iff; [apply negb_iff_false|intros _; apply Z.eqb_eq]|].
  apply andb_iff; [apply optb_iff; intros x; apply Z.eqb_eq|].
  apply andb_iff; [apply optb_iff; intros x; apply Z.eqb_eq|].
  apply andb_iff; [apply optb_iff; intros x; apply Z.eqb_eq|].
  apply andb_iff.
  { apply impb_iff; [apply no_start_iff|intros _].
    apply impb_iff; [apply keys_le_255b_iff|intros _].
    apply impb_iff; [apply sorted_keysb_iff|intros HS]. apply start_check_iff. exact HS. }
  apply andb_iff.
  { apply impb_iff; [apply no_start_iff|intros _].
    apply impb_iff; [apply sorted_keysb_iff|intros HS]. apply max_check_iff. exact HS. }
  apply impb_iff; [apply true_iff|intros _].
  apply impb_iff; [apply Z.leb_le|intros _].
  apply impb_iff; [apply sorted_keysb_iff|intros HS]. apply floor_iff. exact HS.
Qed.

(* no recorded finding for this driver: every failing case is a violation *)
Definition finding_code (c : case) : Z := 0.
