(* driver `parinit` (C16): several real controllers started concurrently.
   Observation per fan: the classified start-up actions and the analysis interval
   [first device access of the analysis, analysis finished] in global log order. *)
From F2G Require Export Drv.Common gen.Consts Model.Util Model.Fan Model.Startup Model.Sched.
From F2G Require Import Proofs.Sched Drv.Startup.
From Coq Require Import Lia.

Record case := mkCase {
  c_par : bool;                               (* runFanInitializationInParallel *)
  c_fans : list (Z * (fancfg * caps));
  c_db0 : list (Z * entry);
  c_init : bool;                              (* true: every thread runs `fan init`'s sequence (delete both entries,
                                                 RunInitializationSequence) instead of Run *)
  c_faulty : list Z;                          (* fans with an injected device fault (write / read error during the analysis):
                                                 outside the model's assumption that the device answers; their action lists are
                                                 not compared, their analysis intervals count like everybody's *)
  o_acts : list (Z * list action);            (* per fan: observable start-up actions *)
  o_ivs : list (Z * (Z * Z));                 (* per analysed fan: (first, last) sequence number of its analysis *)
}.

(* ---- pairwise disjointness of intervals ---- *)
Definition disjoint (a b : Z * Z) : Prop := snd a < fst b \/ snd b < fst a.
Definition disjointb (a b : Z * Z) : bool := (snd a <? fst b) || (snd b <? fst a).

Fixpoint pdb (l : list (Z * Z)) : bool :=
  match l with
  | [] => true
  | x :: r => forallb (disjointb x) r && pdb r
  end.

Lemma disjointb_spec a b : disjointb a b = true <-> disjoint a b.
Proof. unfold disjointb, disjoint. rewrite orb_true_iff, !Z.ltb_lt. tauto. Qed.

(* the boolean check is exactly "every two distinct positions hold disjoint intervals" *)
Lemma pdb_spec l : pdb l = true <-> ForallOrdPairs disjoint l.
Proof.
  induction l as [|x r IH]; cbn.
  - split; [constructor|reflexivity].
  - rewrite andb_true_iff, forallb_forall, IH. split.
    + intros [H1 H2]. constructor; [|exact H2]. apply Forall_forall. intros y Hy. apply disjointb_spec. auto.
    + intros H. inversion H as [|? ? H1 H2]; subst. split; [|exact H2].
      intros y Hy. apply disjointb_spec. rewrite Forall_forall in H1. auto.
Qed.

Lemma pdb_pairwise l : pdb l = true ->
  forall i j a b, (i < j)%nat -> nth_error l i = Some a -> nth_error l j = Some b -> disjoint a b.
Proof.
  rewrite pdb_spec. induction 1 as [|x r H1 H2 IH]; intros i j a b Lt Hi Hj.
  - destruct i; discriminate.
  - destruct j as [|j']; [lia|]. destruct i as [|i'].
    + cbn in Hi, Hj. inversion Hi; subst. rewrite Forall_forall in H1. apply H1. eapply nth_error_In; eauto.
    + cbn in Hi, Hj. apply (IH i' j'); auto. lia.
Qed.

(* ---- the model on the same input ---- *)
Definition fan_triples (c : case) : list (fancfg * caps * entry) :=
  map (fun x => (fst (snd x), snd (snd x), db_of (c_db0 c) (fst x))) (c_fans c).

Definition acts_of (c : case) (x : fancfg * caps * entry) : list action :=
  let '(f, cp, e) := x in if c_init c then fst (init_cmd f cp e) else start_actions f cp e.
Definition prog_of_thread (c : case) (x : fancfg * caps * entry) : list op :=
  if c_init c then init_prog x else thread_prog x.

Definition model_acts (c : case) : list (Z * list action) :=
  map (fun x => (fst x, filter observable (acts_of c (fst (snd x), snd (snd x), db_of (c_db0 c) (fst x))))) (c_fans c).

Definition analysed (a : list action) : bool := has Sweep a || has MeasureRpm a.

(* overlap is possible in the model only if some thread's program is not well locked
   (theorem Proofs.Sched.exclusive: all well locked -> never two threads inside) *)
Definition overlap_allowed (c : case) : bool :=
  negb (forallb (fun x => wlb false false (prog_of_thread c x)) (fan_triples c)).

Definition acts_eqb (a b : Z * list action) : bool := (fst a =? fst b) && list_eqb action_eqb (snd a) (snd b).

Definition sound (c : case) (id : Z) : bool := negb (existsb (Z.eqb id) (c_faulty c)).

Definition mismatch (c : case) : bool :=
  negb (list_eqb acts_eqb (filter (fun x => sound c (fst x)) (model_acts c)) (filter (fun x => sound c (fst x)) (o_acts c))
        && list_eqb Z.eqb (map fst (filter (fun x => sound c (fst x) && analysed (snd x)) (model_acts c)))
                          (filter (sound c) (map fst (o_ivs c)))
        && implb (negb (pdb (map snd (o_ivs c)))) (overlap_allowed c)).

(* ---- the property on the implementation's observation ---- *)
Definition holdsb (c : case) : bool := implb (negb (c_par c)) (pdb (map snd (o_ivs c))).

Definition Holds (c : case) : Prop :=
  c_par c = false -> ForallOrdPairs disjoint (map snd (o_ivs c)).

Theorem holdsb_spec c : holdsb c = true <-> Holds c.
Proof.
  unfold holdsb, Holds. rewrite implb_true_iff, negb_true_iff, pdb_spec. tauto.
Qed.

(* with parallel initialisation disabled the model never allows an overlap, whatever the fans *)
Lemma sequential_never_allowed c :
  Forall (fun x => f_par (fst (snd x)) = false) (c_fans c) -> overlap_allowed c = false.
Proof.
  intros H. unfold overlap_allowed. apply negb_false_iff. apply forallb_forall.
  intros [[f cp] e] Hin. unfold fan_triples in Hin. apply in_map_iff in Hin.
  destruct Hin as [[id [f' cp']] [E Hin]]. cbn in E. inversion E; subst.
  rewrite Forall_forall in H. specialize (H _ Hin). cbn in H.
  unfold prog_of_thread. destruct (c_init c).
  - exact (init_well_locked f cp _ H).
  - exact (start_well_locked f cp _ H).
Qed.

(* agreement with the model on a case implies the property on that case *)
Theorem no_mismatch_holds c :
  Forall (fun x => f_par (fst (snd x)) = c_par c) (c_fans c) -> mismatch c = false -> holdsb c = true.
Proof.
  intros HP M. unfold holdsb. destruct (c_par c) eqn:P; [reflexivity|]. cbn [negb implb].
  unfold mismatch in M. apply negb_false_iff in M. rewrite !andb_true_iff in M. destruct M as [_ M].
  rewrite (sequential_never_allowed c HP) in M.
  destruct (pdb (map snd (o_ivs c))); [reflexivity|discriminate].
Qed.

Definition finding_code (c : case) : Z := 0.
