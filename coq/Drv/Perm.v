(* driver `perm` (C18): one case = a sequence of file-system operations and
   calls performed on real files by the harness, with what the real code did at
   every call.  [mismatch] replays the sequence in the model; [holdsb] judges
   the property on the implementation's own observation: the file attributes
   the harness read from the real file system just before the call, and — for
   EVERY start of the executable inside the call — the attributes the started
   script read from its own file at that moment. *)
From F2G Require Export Drv.Common Model.Exec.
From F2G Require Import Proofs.ExecPerm.
From Coq Require Import Lia.

Record obs := mkObs {
  ob_stat : option (Z * Z * Z);        (* harness, before the call: uid, gid, mode&07777 of the file the path leads to *)
  ob_starts : list (Z * (Z * Z * Z));  (* one entry per start inside the call, written by the started script itself:
                                          its id and stat -L of its own path at that moment *)
  ob_res : Z;                          (* 0 = nil error, 1 = error returned, 2 = panic *)
  ob_reason : Z;                       (* projected error: 0 none, 1 symlink, 2 not found, 3 stat, 4 owner, 5 group write,
                                          6 other write, 7 could not start / command failed, 8 other validation error *)
}.

Record case := mkCase {
  c_failing : list Z;            (* ids whose script exits with status 1 (all others print 42 and exit 0) *)
  c_ops : list op;               (* performed on an empty directory *)
  c_obs : list obs;              (* one per OpExec / OpExecDuring / OpValidate, in order *)
}.

(* ---- model side ---- *)
Definition reason_code (e : perm_err) : Z :=
  match e with
  | ErrSymlink => 1 | ErrNotFound => 2 | ErrStat => 3
  | ErrOwner => 4 | ErrGroupWrite => 5 | ErrOtherWrite => 6
  end.

Definition stat_of (s : fs) (p : Z) : option (Z * Z * Z) :=
  match follow 300 s p with RFile _ u g m => Some (u, g, m) | _ => None end.

Definition memb (x : Z) (l : list Z) : bool := existsb (Z.eqb x) l.

(* api 5 = initializeSensors: the error of the sensor's first read is logged, not returned *)
Definition call_obs (failing : list Z) (s : fs) (api p : Z) : obs :=
  let swallow := api =? 5 in
  match exec_call s p with
  | Ran f u g m =>
      let bad := memb f failing && negb swallow in
      mkObs (stat_of s p) [(f, (u, g, m))] (if bad then 1 else 0) (if bad then 7 else 0)
  | Refused e => mkObs (stat_of s p) [] (if swallow then 0 else 1) (if swallow then 0 else reason_code e)
  | StartFailed => mkObs (stat_of s p) [] (if swallow then 0 else 1) (if swallow then 0 else 7)
  | Panicked => mkObs (stat_of s p) [] 2 0
  end.

(* a bare command name: the observation of the call through what LookPath finds;
   nothing found: the working-directory file is checked and os/exec cannot start it *)
Definition bare_obs (failing : list Z) (s : fs) (api l : Z) (q : option Z) : obs :=
  match q with
  | Some q' => call_obs failing s api q'
  | None =>
      let swallow := api =? 5 in
      match check_file s l with
      | CkOk => mkObs (stat_of s l) [] (if swallow then 0 else 1) (if swallow then 0 else 7)
      | CkErr e => mkObs (stat_of s l) [] (if swallow then 0 else 1) (if swallow then 0 else reason_code e)
      | CkPanic => mkObs (stat_of s l) [] 2 0
      end
  end.

Definition model_obs (failing : list Z) (s : fs) (o : op) : option obs :=
  match o with
  | OpExecBare api l q => Some (bare_obs failing s api l q)
  | OpExec api p | OpExecDuring api p _ => Some (call_obs failing s api p)
  | OpValidate c p =>
      Some match validate c s p with
           | VOk => mkObs (stat_of s p) [] 0 0
           | VErrOther => mkObs (stat_of s p) [] 1 8
           | VErrPerm e => mkObs (stat_of s p) [] 1 (reason_code e)
           | VPanic => mkObs (stat_of s p) [] 2 0
           end
  | _ => None
  end.

Fixpoint model_run (failing : list Z) (s : fs) (ops : list op) : list obs :=
  match ops with
  | [] => []
  | o :: r => match model_obs failing s o with
              | Some ob => ob :: model_run failing (apply_op s o) r
              | None => model_run failing (apply_op s o) r
              end
  end.

Definition attrs_eqb (a b : Z * Z * Z) : bool :=
  let '(u, g, m) := a in let '(u', g', m') := b in (u =? u') && (g =? g') && (m =? m').

Definition stat_eqb (a b : option (Z * Z * Z)) : bool :=
  match a, b with
  | Some x, Some y => attrs_eqb x y
  | None, None => true
  | _, _ => false
  end.

Definition start_eqb (a b : Z * (Z * Z * Z)) : bool := (fst a =? fst b) && attrs_eqb (snd a) (snd b).

Definition obs_eqb (a b : obs) : bool :=
  stat_eqb (ob_stat a) (ob_stat b) && list_eqb start_eqb (ob_starts a) (ob_starts b)
  && (ob_res a =? ob_res b) && (ob_reason a =? ob_reason b).

Definition mismatch (c : case) : bool :=
  negb (list_eqb obs_eqb (model_run (c_failing c) [] (c_ops c)) (c_obs c)).

(* ---- the property on the implementation's observation ---- *)
Definition stat_allowedb (o : obs) : bool :=
  match ob_stat o with Some (u, g, m) => allowed u g m | None => false end.

Definition stat_allowed (o : obs) : Prop :=
  exists u g m, ob_stat o = Some (u, g, m) /\ root_controlled u g m.

Definition start_okb (st : Z * (Z * Z * Z)) : bool :=
  let '(_, (u, g, m)) := st in allowed u g m.
Definition start_ok (st : Z * (Z * Z * Z)) : Prop :=
  let '(_, (u, g, m)) := st in root_controlled u g m.

(* an external-command call: EVERY start inside the call was of a file that was
   root-controlled at that start; a path that does not lead to a root-controlled
   file gave an error (api 5: a logged one) and nothing was started *)
Definition Call_holds (api : Z) (o : obs) : Prop :=
  Forall start_ok (ob_starts o) /\
  (~ stat_allowed o -> (api <> 5 -> ob_res o = 1) /\ ob_starts o = []).

(* a call by bare command name: every start was of a root-controlled file, no panic
   (which file the name denotes is the code's business; the clause is the same:
   only a file that passes the test may run) *)
Definition Bare_holds (o : obs) : Prop := Forall start_ok (ob_starts o) /\ ob_res o <> 2.

(* Validate of a configuration that declares a command sensor or fan *)
Definition Validate_holds (o : obs) : Prop :=
  (ob_res o = 0 -> stat_allowed o) /\ (~ stat_allowed o -> ob_res o = 1).

Definition is_nil {A} (l : list A) : bool := match l with [] => true | _ => false end.

Definition call_okb (api : Z) (o : obs) : bool :=
  forallb start_okb (ob_starts o) &&
  (stat_allowedb o || (((api =? 5) || (ob_res o =? 1)) && is_nil (ob_starts o))).

Definition bare_okb (o : obs) : bool := forallb start_okb (ob_starts o) && negb (ob_res o =? 2).

Definition validate_okb (o : obs) : bool :=
  if stat_allowedb o then true else (ob_res o =? 1).

Lemma stat_allowedb_spec o : stat_allowedb o = true <-> stat_allowed o.
Proof.
  unfold stat_allowedb, stat_allowed. destruct (ob_stat o) as [[[u g] m]|].
  - rewrite allowed_spec. split.
    + intros H. exists u, g, m. auto.
    + intros [u' [g' [m' [E H]]]]. inversion E; subst. exact H.
  - split; [discriminate|]. intros [u [g [m [E _]]]]. discriminate.
Qed.

Lemma start_okb_spec st : start_okb st = true <-> start_ok st.
Proof. destruct st as [f [[u g] m]]. cbn. apply allowed_spec. Qed.

Lemma starts_okb_spec l : forallb start_okb l = true <-> Forall start_ok l.
Proof.
  rewrite forallb_forall, Forall_forall. split; intros H x Hx; apply start_okb_spec; auto.
Qed.

Lemma is_nil_spec {A} (l : list A) : is_nil l = true <-> l = [].
Proof. destruct l; cbn; split; congruence. Qed.

Lemma call_okb_spec api o : call_okb api o = true <-> Call_holds api o.
Proof.
  unfold call_okb, Call_holds. rewrite andb_true_iff, starts_okb_spec.
  split; intros [H1 H2]; (split; [exact H1|]).
  - intros N. apply orb_true_iff in H2. destruct H2 as [A|B].
    + apply stat_allowedb_spec in A. contradiction.
    + apply andb_true_iff in B. destruct B as [B1 B2]. apply is_nil_spec in B2. split; [|exact B2].
      intros N5. apply orb_true_iff in B1. destruct B1 as [B1|B1]; [apply Z.eqb_eq in B1; contradiction|now apply Z.eqb_eq].
  - destruct (stat_allowedb o) eqn:A; [reflexivity|]. cbn [orb].
    assert (N : ~ stat_allowed o) by (intro H; apply stat_allowedb_spec in H; congruence).
    destruct (H2 N) as [R Q]. rewrite Q. cbn [is_nil]. rewrite andb_true_r.
    destruct (Z.eqb_spec api 5) as [E|NE]; [reflexivity|]. cbn [orb]. apply Z.eqb_eq. auto.
Qed.

Lemma bare_okb_spec o : bare_okb o = true <-> Bare_holds o.
Proof.
  unfold bare_okb, Bare_holds. rewrite andb_true_iff, starts_okb_spec, negb_true_iff, Z.eqb_neq. reflexivity.
Qed.

Lemma validate_okb_spec o : validate_okb o = true <-> Validate_holds o.
Proof.
  unfold validate_okb, Validate_holds. destruct (stat_allowedb o) eqn:A.
  - apply stat_allowedb_spec in A. split; [|reflexivity]. intros _. split; [auto|]. intros N. contradiction.
  - assert (N : ~ stat_allowed o) by (intro H; apply stat_allowedb_spec in H; congruence).
    rewrite Z.eqb_eq. split.
    + intros R. split; [|auto]. intros H. lia.
    + intros [_ H]. auto.
Qed.

(* pair the calls of the sequence with the observations *)
Fixpoint holds_ops (ops : list op) (os : list obs) : bool :=
  match ops with
  | [] => match os with [] => true | _ => false end
  | OpExec api _ :: r | OpExecDuring api _ _ :: r =>
      match os with o :: os' => call_okb api o && holds_ops r os' | [] => false end
  | OpExecBare _ _ _ :: r =>
      match os with o :: os' => bare_okb o && holds_ops r os' | [] => false end
  | OpValidate c _ :: r =>
      match os with
      | o :: os' => (if has_cmd c then validate_okb o else negb (ob_res o =? 2)) && holds_ops r os'
      | [] => false
      end
  | _ :: r => holds_ops r os
  end.

Definition holdsb (c : case) : bool := holds_ops (c_ops c) (c_obs c).

Fixpoint Holds_ops (ops : list op) (os : list obs) : Prop :=
  match ops with
  | [] => os = []
  | OpExec api _ :: r | OpExecDuring api _ _ :: r =>
      match os with o :: os' => Call_holds api o /\ Holds_ops r os' | [] => False end
  | OpExecBare _ _ _ :: r =>
      match os with o :: os' => Bare_holds o /\ Holds_ops r os' | [] => False end
  | OpValidate c _ :: r =>
      match os with
      | o :: os' => (if has_cmd c then Validate_holds o else ob_res o <> 2) /\ Holds_ops r os'
      | [] => False
      end
  | _ :: r => Holds_ops r os
  end.

Lemma holds_ops_spec ops : forall os, holds_ops ops os = true <-> Holds_ops ops os.
Proof.
  induction ops as [|o r IH]; intros os; cbn.
  - destruct os; split; congruence.
  - destruct o; try apply IH.
    + destruct os as [|ob os']; [split; [discriminate|contradiction]|].
      rewrite andb_true_iff, call_okb_spec, IH. reflexivity.
    + destruct os as [|ob os']; [split; [discriminate|contradiction]|].
      rewrite andb_true_iff, IH. destruct (has_cmd c).
      * rewrite validate_okb_spec. reflexivity.
      * rewrite negb_true_iff, Z.eqb_neq. reflexivity.
    + destruct os as [|ob os']; [split; [discriminate|contradiction]|].
      rewrite andb_true_iff, bare_okb_spec, IH. reflexivity.
    + destruct os as [|ob os']; [split; [discriminate|contradiction]|].
      rewrite andb_true_iff, call_okb_spec, IH. reflexivity.
Qed.

(* no recorded finding for this property: every failing case is a violation *)
Definition finding_code (c : case) : Z := 0.
