(* driver `perm` (C18): one case = a sequence of file-system operations and
   calls performed on real files by the harness, with what the real code did at
   every call.  [mismatch] replays the sequence in the model; [holdsb] judges
   the property on the implementation's own observation, using the file
   attributes the harness read from the real file system just before the call. *)
From F2G Require Export Drv.Common Model.Exec.
From F2G Require Import Proofs.ExecPerm.
From Coq Require Import Lia.

Record obs := mkObs {
  ob_stat : option (Z * Z * Z);  (* harness: uid, gid, mode&07777 of the file the path leads to (readlink loop), None = none *)
  ob_ran : option Z;             (* id the started script wrote to the marker file; None = nothing ran *)
  ob_res : Z;                    (* 0 = nil error, 1 = error returned, 2 = panic *)
  ob_reason : Z;                 (* projected error: 0 none, 1 symlink, 2 not found, 3 stat, 4 owner, 5 group write,
                                    6 other write, 7 could not start, 8 other validation error *)
}.

Record case := mkCase {
  c_ops : list op;               (* performed on an empty directory *)
  c_obs : list obs;              (* one per OpExec / OpValidate, in order *)
}.

(* ---- model side ---- *)
Definition reason_code (e : perm_err) : Z :=
  match e with
  | ErrSymlink => 1 | ErrNotFound => 2 | ErrStat => 3
  | ErrOwner => 4 | ErrGroupWrite => 5 | ErrOtherWrite => 6
  end.

Definition stat_of (s : fs) (p : Z) : option (Z * Z * Z) :=
  match follow 300 s p with RFile _ u g m => Some (u, g, m) | _ => None end.

Definition model_obs (s : fs) (o : op) : option obs :=
  match o with
  | OpExec _ p =>
      Some match exec_call s p with
           | Ran f _ _ _ => mkObs (stat_of s p) (Some f) 0 0
           | Refused e => mkObs (stat_of s p) None 1 (reason_code e)
           | StartFailed => mkObs (stat_of s p) None 1 7
           | Panicked => mkObs (stat_of s p) None 2 0
           end
  | OpValidate c p =>
      Some match validate c s p with
           | VOk => mkObs (stat_of s p) None 0 0
           | VErrOther => mkObs (stat_of s p) None 1 8
           | VErrPerm e => mkObs (stat_of s p) None 1 (reason_code e)
           | VPanic => mkObs (stat_of s p) None 2 0
           end
  | _ => None
  end.

Fixpoint model_run (s : fs) (ops : list op) : list obs :=
  match ops with
  | [] => []
  | o :: r => match model_obs s o with
              | Some ob => ob :: model_run (apply_op s o) r
              | None => model_run (apply_op s o) r
              end
  end.

Definition stat_eqb (a b : option (Z * Z * Z)) : bool :=
  match a, b with
  | Some (u, g, m), Some (u', g', m') => (u =? u') && (g =? g') && (m =? m')
  | None, None => true
  | _, _ => false
  end.

Definition obs_eqb (a b : obs) : bool :=
  stat_eqb (ob_stat a) (ob_stat b) && optZ_eqb (ob_ran a) (ob_ran b)
  && (ob_res a =? ob_res b) && (ob_reason a =? ob_reason b).

Definition mismatch (c : case) : bool :=
  negb (list_eqb obs_eqb (model_run [] (c_ops c)) (c_obs c)).

(* ---- the property on the implementation's observation ---- *)
Definition stat_allowedb (o : obs) : bool :=
  match ob_stat o with Some (u, g, m) => allowed u g m | None => false end.

Definition stat_allowed (o : obs) : Prop :=
  exists u g m, ob_stat o = Some (u, g, m) /\ root_controlled u g m.

(* an external-command call: it ran only a root-controlled file; a file that is
   not root-controlled gave an error and nothing ran *)
Definition Call_holds (o : obs) : Prop :=
  (ob_ran o <> None -> stat_allowed o) /\
  (~ stat_allowed o -> ob_res o = 1 /\ ob_ran o = None).

(* Validate of a configuration that declares a command sensor or fan *)
Definition Validate_holds (o : obs) : Prop :=
  (ob_res o = 0 -> stat_allowed o) /\ (~ stat_allowed o -> ob_res o = 1).

Definition is_some {A} (x : option A) : bool := match x with Some _ => true | None => false end.

Definition call_okb (o : obs) : bool :=
  if stat_allowedb o then true else (ob_res o =? 1) && negb (is_some (ob_ran o)).

Definition validate_okb (o : obs) : bool :=
  if stat_allowedb o then true else (ob_res o =? 1).

Lemma stat_allowedb_spec o : stat_allowedb o = true <-> stat_allowed o.
Proof.
  unfold stat_allowedb, stat_allowed. destruct (ob_stat o) as [[[u g] m]|].
  - rewrite allowed_spec. split.
    + intros H. exists u, g, m. auto.
    + intros [u' [g' [m' [E H]]]]. inversion E; subst. exact H.
  - split; [discriminate|]. intros [u [g [m [E _]]]]. discriminate.
Qed.

Lemma call_okb_spec o : call_okb o = true <-> Call_holds o.
Proof.
  unfold call_okb, Call_holds. destruct (stat_allowedb o) eqn:A.
  - apply stat_allowedb_spec in A. split; [|reflexivity]. intros _. split; [auto|]. intros N. contradiction.
  - assert (N : ~ stat_allowed o) by (intro H; apply stat_allowedb_spec in H; congruence).
    rewrite andb_true_iff, Z.eqb_eq, negb_true_iff. split.
    + intros [R Q]. split.
      * intros H. destruct (ob_ran o); [discriminate|contradiction].
      * intros _. split; [exact R|]. destruct (ob_ran o); [discriminate|reflexivity].
    + intros [_ H]. destruct (H N) as [R Q]. rewrite Q. auto.
Qed.

Lemma validate_okb_spec o : validate_okb o = true <-> Validate_holds o.
Proof.
  unfold validate_okb, Validate_holds. destruct (stat_allowedb o) eqn:A.
  - apply stat_allowedb_spec in A. split; [|reflexivity]. intros _. split; [auto|]. intros N. contradiction.
  - assert (N : ~ stat_allowed o) by (intro H; apply stat_allowedb_spec in H; congruence).
    rewrite Z.eqb_eq. split.
    + intros R. split; [|auto]. intros H. lia.
    + intros [_ H]. auto.
Qed.

(* pair the calls of the sequence with the observations *)
Fixpoint holds_ops (ops : list op) (os : list obs) : bool :=
  match ops with
  | [] => match os with [] => true | _ => false end
  | OpExec _ _ :: r => match os with o :: os' => call_okb o && holds_ops r os' | [] => false end
  | OpValidate c _ :: r =>
      match os with
      | o :: os' => (if has_cmd c then validate_okb o else negb (ob_res o =? 2)) && holds_ops r os'
      | [] => false
      end
  | _ :: r => holds_ops r os
  end.

Definition holdsb (c : case) : bool := holds_ops (c_ops c) (c_obs c).

Fixpoint Holds_ops (ops : list op) (os : list obs) : Prop :=
  match ops with
  | [] => os = []
  | OpExec _ _ :: r => match os with o :: os' => Call_holds o /\ Holds_ops r os' | [] => False end
  | OpValidate c _ :: r =>
      match os with
      | o :: os' => (if has_cmd c then Validate_holds o else ob_res o <> 2) /\ Holds_ops r os'
      | [] => False
      end
  | _ :: r => Holds_ops r os
  end.

Lemma holds_ops_spec ops : forall os, holds_ops ops os = true <-> Holds_ops ops os.
Proof.
  induction ops as [|o r IH]; intros os; cbn.
  - destruct os; split; congruence.
  - destruct o; try apply IH.
    + destruct os as [|ob os']; [split; [discriminate|contradiction]|].
      rewrite andb_true_iff, call_okb_spec, IH. reflexivity.
    + destruct os as [|ob os']; [split; [discriminate|contradiction]|].
      rewrite andb_true_iff, IH. destruct (has_cmd c).
      * rewrite validate_okb_spec. reflexivity.
      * rewrite negb_true_iff, Z.eqb_neq. reflexivity.
Qed.

(* the model's own observation of a call satisfies the observer, in every file
   system: a case with mismatch = false cannot fail [Call_holds] at a call *)
Lemma model_call_holds s api p ob :
  model_obs s (OpExec api p) = Some ob -> Call_holds ob.
Proof.
  cbn [model_obs]. intros H. inversion H as [E]. clear H E.
  destruct (exec_call s p) as [f u g m|e| |] eqn:X.
  - apply exec_call_ran in X. destruct X as [R [A _]].
    assert (S : stat_of s p = Some (u, g, m)).
    { unfold stat_of. unfold eval_symlinks in R.
      rewrite (follow_mono _ _ _ _ _ _ _ R 300%nat) by (unfold go_maxlinks; lia). reflexivity. }
    assert (SA : stat_allowed (mkObs (stat_of s p) (Some f) 0 0)).
    { exists u, g, m. cbn [ob_stat]. auto. }
    split; [intros _; exact SA|intros N; contradiction].
  - split; cbn [ob_ran ob_res]; [congruence|auto].
  - split; cbn [ob_ran ob_res]; [congruence|auto].
  - exfalso. eapply exec_call_never_panics. exact X.
Qed.

(* no recorded finding for this property: every failing case is a violation *)
Definition finding_code (c : case) : Z := 0.
