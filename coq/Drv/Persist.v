(* driver `persist` (C14): concrete instance of the persistence model, case type,
   model-vs-implementation comparison and the verified boolean observer of the
   property on the implementation's own observations.  Depends on the model
   only (not on Proofs/Persist.v), so the implementation's observations can
   still be judged when a proof obligation has broken; the lemmas relating the
   observer to the theorems are in Proofs/PersistDrv.v. *)
From stdpp Require Import gmap.
From F2G Require Export Model.Persist.
From F2G Require Import Drv.Common.
Open Scope Z_scope.

(* a stored value: None = nil map, Some l = entries sorted by key.  Payloads are
   integers: the int of a PWM map entry, or the 64 IEEE-754 bits of a float64 of
   RPM-curve data (so "unchanged" means bit-identical, -0 and 5e-324 included) *)
Definition cval := option (list (Z * Z)).
(* stored bytes as far as the wrapper can tell them apart: the JSON text of a
   value, or text that json.Unmarshal rejects for this kind (numbered by the harness) *)
Inductive cbytes := BJson (v : cval) | BGarbage (n : Z).

(* float64 bits with all exponent bits set: NaN or +-Inf, rejected by json.Marshal *)
Definition finite_bits (x : Z) : bool := negb ((x / 4503599627370496) mod 2048 =? 2047).
Definition c_encodable (k : kind) (v : cval) : bool :=
  match k, v with
  | KData, Some l => forallb (fun kv => finite_bits (snd kv)) l
  | _, _ => true
  end.
Definition c_encode (k : kind) (v : cval) : option cbytes := if c_encodable k v then Some (BJson v) else None.
Definition c_decode (k : kind) (b : cbytes) : option cval :=
  match b with BJson v => Some v | BGarbage _ => None end.

Lemma c_enc_dec : forall k v b, c_encode k v = Some b -> c_decode k b = Some v.
Proof. intros k v b. unfold c_encode. destruct (c_encodable k v); [|discriminate]. intros [= <-]. reflexivity. Qed.
Lemma c_enc_able : forall k v, c_encodable k v = true <-> exists b, c_encode k v = Some b.
Proof.
  intros k v. unfold c_encode. destruct (c_encodable k v); split; eauto; try discriminate.
  intros [b H]. discriminate.
Qed.

Notation cop := (op cval cbytes).
Notation cbop := (bop cval cbytes).
Notation cout := (out cval).

Record case := mkCase {
  c_pre : list cop;            (* operations completed before the observed ones (kill cases: by the worker) *)
  c_inflight : option cbop;    (* kill cases: the operation the worker was in when it was killed *)
  c_ops : list cop;            (* operations whose outputs were observed *)
  c_obs : list cout;           (* impl: their outputs *)
  c_raw : list (option (list Z)); (* impl: ids present per bucket afterwards, read with bbolt directly
                                     ([KData; KMap], None = no such bucket; [] = not observed) *)
}.

(* the histories the crash relation allows before the observed operations *)
Definition hists (c : case) : list (list cop) :=
  match c_inflight c with
  | None => [c_pre c]
  | Some o => [c_pre c ++ [CrashDuring o false]; c_pre c ++ [CrashDuring o true]]
  end.

Definition pair_eqb (a b : Z * Z) : bool := (fst a =? fst b) && (snd a =? snd b).
Definition cval_eqb (a b : cval) : bool :=
  match a, b with
  | None, None => true
  | Some x, Some y => list_eqb pair_eqb x y
  | _, _ => false
  end.
Definition out_eqb (a b : cout) : bool :=
  match a, b with
  | OSaved, OSaved | OSaveErr, OSaveErr | ONotFound, ONotFound | ODeleted, ODeleted
  | OReopened, OReopened | OCorrupted, OCorrupted | OCrashed, OCrashed | OError, OError => true
  | OFound x, OFound y => cval_eqb x y
  | _, _ => false
  end.

Definition m_run := run c_encode c_decode.
Definition model_final (h : list cop) (ops : list cop) : db cbytes * list cout :=
  m_run (fst (m_run db_init h)) ops.
Definition model_obs (h : list cop) (ops : list cop) : list cout := snd (model_final h ops).

(* the bucket-exists flags and key sets of the model's final state against the raw dump *)
Definition all_ids : list Z := [0; 1; 2; 3].
Definition has_key (m : gmap Z cbytes) (id : Z) : bool := match m !! id with Some _ => true | None => false end.
Definition bucket_matches (b : option (gmap Z cbytes)) (r : option (list Z)) : bool :=
  match b, r with
  | None, None => true
  | Some m, Some l => forallb (fun id => Bool.eqb (has_key m id) (existsb (Z.eqb id) l)) all_ids
                      && forallb (has_key m) l
  | _, _ => false
  end.
Definition raw_matches (s : db cbytes) (raw : list (option (list Z))) : bool :=
  match raw with
  | [] => true
  | [rd; rm] => bucket_matches (get_bucket KData s) rd && bucket_matches (get_bucket KMap s) rm
  | _ => false
  end.

(* model (of the code as written) disagrees with the implementation: outputs, or the raw
   bucket contents (e.g. an undecodable entry that was reported missing but not removed) *)
Definition mismatch (c : case) : bool :=
  negb (existsb (fun h => let r := model_final h (c_ops c) in
                          list_eqb out_eqb (snd r) (c_obs c) && raw_matches (fst r) (c_raw c)) (hists c)).

(* ---- the property, judged on the implementation's own observations ---- *)
Definition x_trace := expected_trace c_decode c_encodable.

Definition holdsb (c : case) : bool :=
  existsb (fun h => list_eqb out_eqb (x_trace (rev h) (c_ops c)) (c_obs c)) (hists c).

(* every observed output is the one the history dictates (a load returns the
   most recent effective write to exactly that kind and fan, else not found);
   for a kill case: for the history without or with the interrupted operation *)
Definition Holds (c : case) : Prop :=
  exists h, In h (hists c) /\ c_obs c = x_trace (rev h) (c_ops c).

Lemma pair_eqb_eq a b : pair_eqb a b = true <-> a = b.
Proof.
  destruct a as [a1 a2], b as [b1 b2]. unfold pair_eqb. cbn [fst snd].
  rewrite andb_true_iff, !Z.eqb_eq. split; [intros [-> ->]; reflexivity|intros [= -> ->]; auto].
Qed.
Lemma list_eqb_eq {A} (eqb : A -> A -> bool) (H : forall a b, eqb a b = true <-> a = b) l1 l2 :
  list_eqb eqb l1 l2 = true <-> l1 = l2.
Proof.
  revert l2; induction l1 as [|x r IH]; destruct l2 as [|y r2]; cbn; split; try congruence; try discriminate.
  - intros E. apply andb_true_iff in E. destruct E as [E1 E2]. apply H in E1. apply IH in E2. congruence.
  - intros [= -> ->]. apply andb_true_iff. split; [apply H; reflexivity|apply IH; reflexivity].
Qed.
Lemma cval_eqb_eq a b : cval_eqb a b = true <-> a = b.
Proof.
  destruct a as [x|], b as [y|]; cbn; split; try congruence; try discriminate.
  - intros E. apply (list_eqb_eq _ pair_eqb_eq) in E. congruence.
  - intros [= ->]. apply (list_eqb_eq _ pair_eqb_eq). reflexivity.
Qed.
Lemma out_eqb_eq a b : out_eqb a b = true <-> a = b.
Proof.
  destruct a, b; cbn; split; try congruence; try discriminate; try reflexivity.
  - intros E. apply cval_eqb_eq in E. congruence.
  - intros [= ->]. apply cval_eqb_eq. reflexivity.
Qed.

Lemma holdsb_spec c : holdsb c = true <-> Holds c.
Proof.
  unfold holdsb, Holds. rewrite existsb_exists. split.
  - intros [h [Hin E]]. exists h. split; [exact Hin|]. apply (list_eqb_eq _ out_eqb_eq) in E. congruence.
  - intros [h [Hin E]]. exists h. split; [exact Hin|]. apply (list_eqb_eq _ out_eqb_eq). congruence.
Qed.

(* no recorded finding for this property: every failing case is a violation *)
Definition finding_code (c : case) : Z := 0.
