(* driver `race` (C20): one case per candidate group (memory cell x unordered pair of goroutine kinds that
   both access the cell, at least one access conflicting) plus one case per race-detector report that could not
   be mapped to any table pair.  The static verdict is the verified classifier of Model/Races.v evaluated on
   the regenerated table; the dynamic observation is the number of Go race-detector reports (both stacks
   mapped to table entries) that fell into the group during the in-process stress run. *)
From F2G Require Export Model.Races.
From F2G Require Import Drv.Common Model.RaceFindings Proofs.Races gen.Accesses.
From Coq Require Export String.
Open Scope string_scope.
Open Scope Z_scope.

Record case := mkCase {
  c_loc : string; c_ka : kind; c_kb : kind;   (* the group; kind_code c_ka <= kind_code c_kb *)
  c_dyn : Z;          (* race-detector reports (or fatal concurrent-map aborts) mapped to this group *)
  c_mapped : bool     (* false: an observation that cannot be reconciled with the table / the recorded findings: a report whose
                         two stacks match no pair of table entries, a stress child that crashed, or a recorded finding
                         that gained an access site since it was triaged (lib/props/C20_sites.json) *)
}.

Definition case_group (c : case) : group := (c_loc c, c_ka c, c_kb c).

(* the groups the verified classifier finds on the generated table; evaluated once, when this file is compiled *)
Definition table_racy_groups : list group := Eval vm_compute in racy_groups table.

Lemma table_racy_groups_eq : table_racy_groups = racy_groups table.
Proof. vm_compute. reflexivity. Qed.

Definition static_racy (c : case) : bool := existsb (group_eqb (case_group c)) table_racy_groups.

(* model (classifier over the table) vs implementation (race detector): a report outside the table, or in a
   group the classifier calls race-free, means the translator / sharing relation misses something *)
Definition mismatch (c : case) : bool :=
  negb (c_mapped c) || ((0 <? c_dyn c) && negb (static_racy c)).

(* the property judged on this group: no race, neither by the lock-set argument over the source as it is
   now nor observed by the race detector *)
Definition holdsb (c : case) : bool :=
  negb (static_racy c) && (c_dyn c =? 0) && c_mapped c.

Definition Holds (c : case) : Prop :=
  (forall a b, In a table -> In b table -> race a b -> group_of a b <> case_group c)
  /\ c_dyn c = 0 /\ c_mapped c = true.

(* stated for an arbitrary table so that no proof step unfolds the generated one *)
Lemma in_groups_generic : forall t gs g, gs = racy_groups t ->
  (existsb (group_eqb g) gs = true <-> exists a b, In a t /\ In b t /\ race a b /\ group_of a b = g).
Proof.
  intros t gs g ->. rewrite existsb_exists. split.
  - intros [h [Hin He]]. apply group_eqb_eq in He. subst h. apply (racy_groups_spec t g) in Hin. exact Hin.
  - intros H. exists g. split.
    + apply (racy_groups_spec t g). exact H.
    + apply group_eqb_eq. reflexivity.
Qed.

Lemma static_racy_spec : forall c,
  static_racy c = true <-> exists a b, In a table /\ In b table /\ race a b /\ group_of a b = case_group c.
Proof. intros c. exact (in_groups_generic table table_racy_groups (case_group c) table_racy_groups_eq). Qed.

Lemma holdsb_spec : forall c, holdsb c = true <-> Holds c.
Proof.
  intros c. unfold holdsb, Holds. rewrite !andb_true_iff, negb_true_iff, Z.eqb_eq. split.
  - intros [[Hs Hd] Hm]. repeat split; try assumption.
    intros a b Ha Hb Hr Hg.
    assert (static_racy c = true) as E by (apply static_racy_spec; exists a, b; tauto).
    rewrite E in Hs. discriminate Hs.
  - intros [Hs [Hd Hm]]. repeat split; try assumption.
    destruct (static_racy c) eqn:E; [|reflexivity].
    apply static_racy_spec in E. destruct E as [a [b [Ha [Hb [Hr Hg]]]]]. exfalso. exact (Hs a b Ha Hb Hr Hg).
Qed.

(* a failing group is an instance of recorded finding R<n> iff the group is listed with code n *)
Definition finding_code (c : case) : Z := finding_of findings (case_group c).

Lemma finding_code_listed : forall c, finding_code c <> 0 \/ listedb findings (case_group c) = false \/
  In (case_group c, 0) findings.
Proof.
  intros c. unfold finding_code. destruct (listedb findings (case_group c)) eqn:E.
  - destruct (finding_of_listed _ _ E) as [n [Hn Hin]]. destruct (Z.eq_dec n 0) as [->|Hz].
    + right. right. exact Hin.
    + left. rewrite Hn. exact Hz.
  - right. left. reflexivity.
Qed.
