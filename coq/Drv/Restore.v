(* driver `restore` (C03): the real restorePwmEnabled / trySetManualPwm /
   HwMonFan.SetPwmEnabled over the hooked file layer (hwmon, file) or a verdict-
   driven set script (cmd), against Model.Restore with all defect flags clear. *)
From F2G Require Export Model.Restore.
From F2G Require Import Drv.Common gen.Consts.
From Coq Require Import Lia.

Inductive case :=
| CRestore (b : backend) (ex : bool) (orig cur : dev) (p : rplan)
           (o_dev : dev) (o_ops : list op)
| CTry (b : backend) (ex : bool) (cur : dev) (mv1 : wverdict) (rb1 : rverdict) (mv2 : wverdict) (rb2 : rverdict)
       (o_dev : dev) (o_err : bool) (o_ops : list op).

Definition dev_eqb (a b : dev) : bool := (mode a =? mode b) && (pwm a =? pwm b).
Definition op_eqb (a b : op) : bool :=
  match a, b with
  | OpWPwm x, OpWPwm y => x =? y
  | OpWMode x, OpWMode y => x =? y
  | OpRMode, OpRMode => true
  | _, _ => false
  end.

(* file/cmd fans have no mode file: the driver reports the mode it was given *)
Definition mismatch (c : case) : bool :=
  match c with
  | CRestore b ex orig cur p o_dev o_ops =>
      let r := restore repaired b ex orig p cur in
      negb (dev_eqb (r_dev r) o_dev && list_eqb op_eqb (r_ops r) o_ops)
  | CTry b ex cur mv1 rb1 mv2 rb2 o_dev o_err o_ops =>
      let '(d, e, ops) := try_manual repaired b ex mv1 rb1 mv2 rb2 cur in
      negb (dev_eqb d o_dev && Bool.eqb e o_err && list_eqb op_eqb ops o_ops)
  end.

(* the last-resort write as seen in the implementation's own operation log:
   a second PWM write *)
Fixpoint count_wpwm (l : list op) : Z :=
  match l with
  | [] => 0
  | OpWPwm _ :: r => 1 + count_wpwm r
  | _ :: r => count_wpwm r
  end.
Definition attempted_last_resort (ops : list op) : bool := 2 <=? count_wpwm ops.

(* the escape "the last-resort write failed" is only available AFTER the hand-back was tried: when the fan has a
   mode and the original one was not manual, the operation log must show the mode write *)
Fixpoint count_wmode (l : list op) : Z :=
  match l with
  | [] => 0
  | OpWMode _ :: r => 1 + count_wmode r
  | _ :: r => count_wmode r
  end.
Definition mode_tried_if_needed (sup : bool) (orig : dev) (ops : list op) : bool :=
  negb (sup && negb (mode orig =? manual)) || (1 <=? count_wmode ops).

Definition holdsb (c : case) : bool :=
  match c with
  | CRestore b ex orig cur p o_dev o_ops =>
      safeb (mode_supported b ex) orig o_dev
      || (attempted_last_resort o_ops && mode_tried_if_needed (mode_supported b ex) orig o_ops
          && match p_v2 p with WOk => false | _ => true end)
  | CTry _ _ _ _ _ _ _ _ _ _ => true
  end.

(* the observer is the stated property, on the implementation's observation *)
Lemma holdsb_spec b ex orig cur p o_dev o_ops :
  holdsb (CRestore b ex orig cur p o_dev o_ops) = true <->
  safe (mode_supported b ex) orig o_dev
  \/ ((attempted_last_resort o_ops = true /\ mode_tried_if_needed (mode_supported b ex) orig o_ops = true) /\ p_v2 p <> WOk).
Proof.
  cbn [holdsb]. rewrite orb_true_iff, !andb_true_iff, safeb_spec.
  destruct (p_v2 p); split; intros [H|[H1 H2]]; auto; try discriminate; try congruence;
    right; split; auto; discriminate.
Qed.

(* when the implementation agrees with the model, the log-based escape is the model's *)
Lemma attempted_agrees b ex orig p cur :
  attempted_last_resort (r_ops (restore repaired b ex orig p cur)) = r_last_resort (restore repaired b ex orig p cur).
Proof.
  unfold restore.
  destruct (write_pwm (p_v1 p) cur (pwm orig)) as [d1 e1].
  destruct (mode_supported b ex && negb (mode orig =? ControlModePWM)).
  - destruct b; cbn [set_mode].
    + unfold hw_set_mode. destruct (write_mode (p_mv p) d1 (mode orig)) as [dm we].
      destruct we; [destruct (write_pwm (p_v2 p) dm RestoreFallbackPwm); reflexivity|].
      destruct (p_rb p); cbn [d3_readback_dead repaired];
        try (destruct (negb (mode dm =? mode orig)));
        try (destruct (write_pwm (p_v2 p) dm RestoreFallbackPwm)); reflexivity.
    + destruct (write_pwm (p_v2 p) d1 RestoreFallbackPwm); reflexivity.
    + destruct (write_pwm (p_v2 p) d1 RestoreFallbackPwm); reflexivity.
  - destruct (write_pwm (p_v2 p) d1 RestoreFallbackPwm); reflexivity.
Qed.

(* recorded finding D22: the ErrPermission tolerance of SetPwmEnabled makes an
   ignored mode write undetectable.  Code 22 only when the case fails, is in
   exactly that trigger class, and the model reproduces the observation. *)
Definition finding_code (c : case) : Z :=
  match c with
  | CRestore b ex orig cur p o_dev o_ops =>
      if negb (holdsb c) && undetectableb p && negb (mismatch c) then 22 else 0
  | _ => 0
  end.
