(* driver `sensmon` (C09): the real sensor monitor actor (NewSensorMonitor(...).Run with its ticker) on
   real hwmon / file / cmd sensors through a "fault then recovery" poll sequence.  Model: the monitor never
   panics, keeps polling, a failed or garbage poll leaves the moving average untouched, a good poll moves it
   by UpdateSimpleMovingAvg (the sensor-monitor step of Model/Faults.v, with values). *)
From F2G Require Import Drv.Common gen.Consts Model.Util.
From Coq Require Import Lia.

Record case := mkCase {
  c_nwin : Z;              (* TempRollingWindowSize *)
  c_avg0 : f64;            (* moving average before the first poll *)
  c_temps : list Z;        (* value the sensor shows at each planned poll *)
  c_failed : list bool;    (* the read of that poll fails (error or garbage) *)
  o_panic : bool;          (* Run panicked *)
  o_hang : bool;           (* the planned polls did not all happen in time, or Run did not return after the cancellation *)
  o_polls : Z;             (* planned polls that happened *)
  o_avgs : list f64;       (* moving average after each of them *)
}.

Definition step_avg (c : case) (prev : f64) (k : nat) : f64 :=
  if nth k (c_failed c) false then prev else upd_avg prev (c_nwin c) (i2f (nth k (c_temps c) 0)).

Fixpoint model_from (c : case) (prev : f64) (k : nat) (n : nat) : list f64 :=
  match n with
  | O => []
  | S n' => let a := step_avg c prev k in a :: model_from c a (S k) n'
  end.
Definition model (c : case) : list f64 := model_from c (c_avg0 c) 0 (length (c_temps c)).

Definition mismatch (c : case) : bool :=
  negb (negb (o_panic c) && negb (o_hang c) && (o_polls c =? Z.of_nat (length (c_temps c)))
        && list_eqb feqb (model c) (o_avgs c)).

(* the property on the observation: never a panic; the monitor keeps polling (all planned polls happen and it
   stops when told to); each observed average follows from the previous OBSERVED one with the last good data *)
Fixpoint avg_scan (c : case) (prev : f64) (k : nat) (l : list f64) : bool :=
  match l with
  | [] => true
  | a :: t => feqb a (step_avg c prev k) && avg_scan c a (S k) t
  end.
Fixpoint avg_ok (c : case) (prev : f64) (k : nat) (l : list f64) : Prop :=
  match l with
  | [] => True
  | a :: t => feqb a (step_avg c prev k) = true /\ avg_ok c a (S k) t
  end.
Lemma avg_scan_spec c l : forall prev k, avg_scan c prev k l = true <-> avg_ok c prev k l.
Proof.
  induction l as [|a t IH]; intros prev k; cbn [avg_scan avg_ok]; [tauto|].
  rewrite andb_true_iff, IH. reflexivity.
Qed.

Definition holdsb (c : case) : bool :=
  negb (o_panic c) && negb (o_hang c) && (Z.of_nat (length (c_temps c)) <=? o_polls c)
  && avg_scan c (c_avg0 c) 0 (o_avgs c).

Lemma holdsb_spec c :
  holdsb c = true <->
  ((o_panic c = false /\ o_hang c = false) /\ Z.of_nat (length (c_temps c)) <= o_polls c)
  /\ avg_ok c (c_avg0 c) 0 (o_avgs c).
Proof.
  unfold holdsb. rewrite !andb_true_iff, !negb_true_iff, Z.leb_le, avg_scan_spec. reflexivity.
Qed.

Definition finding_code (c : case) : Z := 0.
