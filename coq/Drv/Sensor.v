(* driver `sensor` (C08): case type, model-vs-implementation comparison and the
   verified boolean observers of the property on the implementation's own
   sequence of averages. *)
From F2G Require Export Drv.Common Model.Util Model.Sensor Proofs.Sensor.
From Coq Require Import Lia SpecFloat.

(* how the driver produced the initial average *)
Inductive init_mode :=
| InitRead (r : reading)     (* real initializeSensors with this first read *)
| InitSet (f : f64).         (* sensors.NewSensor + SetMovingAvg(f) *)

Record case := mkCase {
  c_kind : kind;
  c_n : Z;                   (* configuration.CurrentConfig.TempRollingWindowSize *)
  c_init : init_mode;
  c_reads : list reading;    (* one per poll *)
  o_ok : bool;               (* impl: no panic *)
  o_init : f64;              (* impl: GetMovingAvg() after seeding *)
  o_avgs : list f64;         (* impl: GetMovingAvg() after each updateSensor *)
  o_errs : list bool;        (* impl: updateSensor returned an error *)
}.

(* monitor-loop cases (drv_sensor_mon.go): the real sensorMonitor.Run polls a hook-served file;
   the per-poll reads and averages are recorded exactly, but whether Run saw an error is not
   observable (it only logs), so the error flags are taken from the model: averages only. *)
Definition mkMonCase (k : kind) (n : Z) (i : init_mode) (rs : list reading) (ok : bool) (oi : f64) (oa : list f64) : case :=
  mkCase k n i rs ok oi oa (errs k rs).

(* ---- model side ---- *)
Definition gv := get_value.

Definition model_init (c : case) : f64 :=
  match c_init c with InitRead r => seed_with gv (c_kind c) r | InitSet f => f end.

Fixpoint model_run (k : kind) (n : Z) (avg : f64) (rs : list reading) : list (f64 * bool) :=
  match rs with
  | [] => []
  | r :: rest => let res := update_sensor_with gv k n avg r in res :: model_run k n (fst res) rest
  end.

Definition mismatch (c : case) : bool :=
  let run := model_run (c_kind c) (c_n c) (model_init c) (c_reads c) in
  negb (o_ok c
        && feqb (model_init c) (o_init c)
        && list_eqb feqb (map fst run) (o_avgs c)
        && list_eqb Bool.eqb (map snd run) (o_errs c)).

(* ---- the property, judged on the implementation's own observations ---- *)

(* exact value of a finite float in units of 2^-1074 (every finite binary64 is an integer multiple) *)
Definition fz (x : f64) : option Z :=
  match Prim2SF x with
  | S754_zero _ => Some 0
  | S754_finite s m e => let v := Z.pos m * 2 ^ (e + 1074) in Some (if s then - v else v)
  | _ => None
  end.

(* valid value of a poll as the property sees it: a successful read of a finite number *)
Definition pvalue (k : kind) (r : reading) : option f64 :=
  match r with
  | ReadErr => None
  | ValZ z => Some (i2f z)
  | ValF f => match k with KCmd => if is_finite f then Some f else None | _ => None end
  end.

(* fle, in_hull (Model/Sensor.v) and in_hullb, in_hullb_spec (Proofs/Sensor.v): the average lies
   between two of the values seen so far (initial value included) *)

(* per-step contraction, exact integer arithmetic in units of 2^-1074 (the slack of theorem
   C08_converges):   n*|x - a'| <= (n-1)*|x - a| + n*(2^-50 * (|x|+|a|) + 2^-1074)            *)
Definition contractsb (n : Z) (a x a' : f64) : bool :=
  match fz a, fz x, fz a' with
  | Some A, Some X, Some A' =>
      n * Z.abs (X - A') * 2 ^ 50 <=? (n - 1) * Z.abs (X - A) * 2 ^ 50 + n * (Z.abs X + Z.abs A + 2 ^ 50)
  | _, _, _ => false
  end.

(* walk the polls: [seen] = initial value and valid values so far, [a] = previous average *)
Fixpoint walkb (k : kind) (n : Z) (seen : list f64) (a : f64) (rs : list reading) (obs : list f64) : bool :=
  match rs, obs with
  | [], [] => true
  | r :: rest, a' :: obs' =>
      match pvalue k r with
      | None => feqb a' a && walkb k n seen a' rest obs'                 (* failed / non-finite read: unchanged *)
      | Some x => let seen' := x :: seen in
                  is_finite a' && in_hullb seen' a' && contractsb n a x a' && walkb k n seen' a' rest obs'
      end
  | _, _ => false
  end.

Definition holdsb (c : case) : bool :=
  if c_n c <? 1 then true
  else o_ok c && is_finite (o_init c) && walkb (c_kind c) (c_n c) [o_init c] (o_init c) (c_reads c) (o_avgs c).

(* ---- Prop forms and the proof that the observers decide them ---- *)
Definition contracts (n : Z) (a x a' : f64) : Prop :=
  exists A X A', fz a = Some A /\ fz x = Some X /\ fz a' = Some A' /\
    n * Z.abs (X - A') * 2 ^ 50 <= (n - 1) * Z.abs (X - A) * 2 ^ 50 + n * (Z.abs X + Z.abs A + 2 ^ 50).

Lemma contractsb_spec n a x a' : contractsb n a x a' = true <-> contracts n a x a'.
Proof.
  unfold contractsb, contracts. split.
  - destruct (fz a) as [A|]; [|discriminate]. destruct (fz x) as [X|]; [|discriminate].
    destruct (fz a') as [A'|]; [|discriminate]. intros H. apply Z.leb_le in H.
    exists A, X, A'. auto.
  - intros [A [X [A' [-> [-> [-> H]]]]]]. now apply Z.leb_le.
Qed.

(* the property on an observed sequence: every failed poll leaves the average
   bit-identical; after every valid poll the average is finite, lies between two
   of the values seen so far and has moved toward the reading by the factor (1-1/n) *)
Fixpoint Walk (k : kind) (n : Z) (seen : list f64) (a : f64) (rs : list reading) (obs : list f64) : Prop :=
  match rs, obs with
  | [], [] => True
  | r :: rest, a' :: obs' =>
      match pvalue k r with
      | None => feqb a' a = true /\ Walk k n seen a' rest obs'
      | Some x => let seen' := x :: seen in
                  is_finite a' = true /\ in_hull seen' a' /\ contracts n a x a' /\ Walk k n seen' a' rest obs'
      end
  | _, _ => False
  end.

Lemma walkb_spec k n : forall rs obs seen a, walkb k n seen a rs obs = true <-> Walk k n seen a rs obs.
Proof.
  induction rs as [|r rest IH]; destruct obs as [|a' obs']; cbn; intros seen a; try (split; [discriminate|tauto]); try tauto.
  destruct (pvalue k r) as [x|].
  - rewrite !andb_true_iff, in_hullb_spec, contractsb_spec, IH. tauto.
  - rewrite andb_true_iff, IH. tauto.
Qed.

(* ---- recorded finding D20: the hull / contraction fail outside the magnitude guard ----
   trigger class: the model reproduces the observation (so it is UpdateSimpleMovingAvg itself,
   not the fault handling) and some reading, the initial value or an observed average is outside
   the guard of theorem C08_hull:
     n >= 2 : magnitude above 2^1021 (or non-finite)        (boundedb, Model/Sensor.v)
     n  = 1 : not an integer of magnitude below 2^52 *)
(* exact: the value in units of 2^-1074 is a multiple of 2^1074 and below 2^52 * 2^1074 *)
Definition small_intb (v : f64) : bool :=
  match fz v with
  | Some V => (V mod 2 ^ 1074 =? 0) && (Z.abs V <? 2 ^ 1126)
  | None => false
  end.

Definition in_guardb (n : Z) (v : f64) : bool := if n =? 1 then small_intb v else boundedb v.

Fixpoint pvalues (k : kind) (rs : list reading) : list f64 :=
  match rs with
  | [] => []
  | r :: rest => match pvalue k r with Some v => v :: pvalues k rest | None => pvalues k rest end
  end.

Definition outside_guard (c : case) : bool :=
  negb (forallb (in_guardb (c_n c)) (o_init c :: pvalues (c_kind c) (c_reads c) ++ o_avgs c)).

Definition finding_code (c : case) : Z :=
  if holdsb c then 0
  else if mismatch c then 0
  else if outside_guard c then 1 else 0.
