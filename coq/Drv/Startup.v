(* driver `startup` (C15): case type, model-vs-implementation comparison and the
   verified boolean observer of the property on the implementation's own
   observations (actions classified from the write / read / persistence log). *)
From F2G Require Export Drv.Common gen.Consts Model.Util Model.Fan Model.Startup Proofs.Startup.
From Coq Require Import Lia.

(* what the harness observed for one command *)
Record ostep := mkOStep {
  os_acts : list action;        (* observable actions up to the first regulation cycle / the return *)
  os_data : bool;               (* RPM data stored for this fan after the command *)
  os_map : bool;                (* PWM map stored for this fan after the command *)
  os_final : option pmap;       (* Start: the controller's pwmMap *)
}.

Record case := mkCase {
  c_fans : list (Z * (fancfg * caps));
  c_db0 : list (Z * entry);
  c_cmds : list cmd;
  o_steps : list ostep;
  o_c05 : list (bool * Z * Z);   (* per command (used by Drv/StartupC05.v only): anything but the controller wrote the fan's
                                    files during the start?, control cycles completed, third-party counter after them *)
}.

(* ---- the model on the same input ---- *)
Fixpoint fleet_of (l : list (Z * (fancfg * caps))) : fleet :=
  fun id => match l with
            | [] => None
            | (k, x) :: r => if k =? id then Some x else fleet_of r id
            end.
Fixpoint db_of (l : list (Z * entry)) : db :=
  fun id => match l with
            | [] => empty_entry
            | (k, e) :: r => if k =? id then e else db_of r id
            end.

(* the mutex operations and the choice of the configured map leave no trace in the logs *)
Definition observable (a : action) : bool :=
  match a with Lock | Unlock | UseConfigMap => false | _ => true end.

Definition cmd_id (c : cmd) : Z := match c with Start i | Stop i | Reset i | Init i => i end.

Definition model_step (fl : fleet) (d : db) (c : cmd) : ostep :=
  let d' := step fl d c in
  let e := d' (cmd_id c) in
  let fin := match c with
             | Start id => match fl id with Some (f, cp) => start_map f cp (d id) | None => None end
             | _ => None
             end in
  mkOStep (filter observable (acts fl d c)) (e_data e) (is_some (e_map e)) fin.

Fixpoint model_steps (fl : fleet) (d : db) (cs : list cmd) : list ostep :=
  match cs with
  | [] => []
  | c :: r => model_step fl d c :: model_steps fl (step fl d c) r
  end.

Definition pair_eqb (a b : Z * Z) : bool := (fst a =? fst b) && (snd a =? snd b).
Definition pmap_eqb (a b : pmap) : bool := list_eqb pair_eqb a b.
Definition opmap_eqb (a b : option pmap) : bool :=
  match a, b with
  | Some x, Some y => pmap_eqb x y
  | None, None => true
  | _, _ => false
  end.
Definition ostep_eqb (a b : ostep) : bool :=
  list_eqb action_eqb (os_acts a) (os_acts b) && Bool.eqb (os_data a) (os_data b)
  && Bool.eqb (os_map a) (os_map b) && opmap_eqb (os_final a) (os_final b).

Definition mismatch (c : case) : bool :=
  negb (list_eqb ostep_eqb (model_steps (fleet_of (c_fans c)) (db_of (c_db0 c)) (c_cmds c)) (o_steps c)).

(* ---- the property, judged on the implementation's observations ---- *)
Definition has (x : action) (a : list action) : bool := existsb (action_eqb x) a.
Definition no_analysisb (a : list action) : bool := negb (has Sweep a) && negb (has MeasureRpm a).

(* what is known about a fan's stored state and history just before a command *)
Record ctx := mkCtx {
  x_data : bool;       (* RPM data stored (observed after the previous command on this fan / initial) *)
  x_map : bool;        (* PWM map stored *)
  x_settled : bool;    (* a start of this fan completed, or a `fan init` of it succeeded, and no reset / later init of it happened since *)
}.
Definition tracker := Z -> ctx.
Definition tupd (t : tracker) (id : Z) (x : ctx) : tracker := fun j => if j =? id then x else t j.

Definition tracker0 (d : db) : tracker :=
  fun id => mkCtx (e_data (d id)) (is_some (e_map (d id))) false.

Definition track (t : tracker) (c : cmd) (o : ostep) : tracker :=
  let id := cmd_id c in
  let s := match c with
           | Start _ => x_settled (t id) || has Regulate (os_acts o)
           | Stop _ => x_settled (t id)
           | Reset _ => false
           | Init _ => negb (has Err (os_acts o))      (* what `fan init` measured is stored: analysed once *)
           end in
  tupd t id (mkCtx (os_data o) (os_map o) s).

(* one annotated step: the command, its fan's configuration, the context before it, the observation *)
Definition astep := (cmd * option (fancfg * caps) * ctx * ostep)%type.

Fixpoint annot (fl : fleet) (t : tracker) (cs : list cmd) (os : list ostep) : list astep :=
  match cs, os with
  | c :: cr, o :: or => (c, fl (cmd_id c), t (cmd_id c), o) :: annot fl (track t c o) cr or
  | _, _ => []
  end.

Definition is_hwmon (k : kind) : bool := match k with HwMon => true | _ => false end.

Definition step_okb (s : astep) : bool :=
  match s with
  | (Start _, Some (f, _), x, o) =>
      let a := os_acts o in
      (* stored characterisation is reused *)
      implb (x_data x && x_map x) (no_analysisb a)
      (* a configured map is used as is, without a sweep *)
      && match f_map f with
         | Some m => negb (has Sweep a) && opmap_eqb (os_final o) (Some m)
         | None => true
         end
      (* configured minPwm + maxPwm: no RPM-curve measurement *)
      && implb (is_hwmon (f_kind f) && is_some (f_min f) && is_some (f_max f)) (negb (has MeasureRpm a))
      (* analysed once: no analysis on a restart *)
      && implb (x_settled x) (no_analysisb a)
  | _ => true
  end.

Definition holdsb (c : case) : bool :=
  forallb step_okb (annot (fleet_of (c_fans c)) (tracker0 (db_of (c_db0 c))) (c_cmds c) (o_steps c)).

(* ---- the observer is exactly the stated property ---- *)
Definition Holds_step (s : astep) : Prop :=
  match s with
  | (Start _, Some (f, _), x, o) =>
      let a := os_acts o in
      (x_data x = true -> x_map x = true -> analysis_free a)
      /\ (forall m, f_map f = Some m -> ~ In Sweep a /\ os_final o = Some m)
      /\ (f_kind f = HwMon -> f_min f <> None -> f_max f <> None -> ~ In MeasureRpm a)
      /\ (x_settled x = true -> analysis_free a)
  | _ => True
  end.

Definition Holds (c : case) : Prop :=
  Forall Holds_step (annot (fleet_of (c_fans c)) (tracker0 (db_of (c_db0 c))) (c_cmds c) (o_steps c)).

Lemma has_spec x a : has x a = true <-> In x a.
Proof.
  unfold has. rewrite existsb_exists. split.
  - intros [y [Hy E]]. apply action_eqb_eq in E. now subst.
  - intros H. exists x. split; [exact H|now apply action_eqb_eq].
Qed.

Lemma has_false x a : has x a = false <-> ~ In x a.
Proof.
  rewrite <- has_spec. destruct (has x a); split; intros; congruence.
Qed.

Lemma no_analysisb_spec a : no_analysisb a = true <-> analysis_free a.
Proof.
  unfold no_analysisb, analysis_free. rewrite andb_true_iff, !negb_true_iff, !has_false. tauto.
Qed.

Lemma pair_eqb_eq a b : pair_eqb a b = true <-> a = b.
Proof.
  destruct a, b. unfold pair_eqb. cbn. rewrite andb_true_iff, !Z.eqb_eq. split; [intros []; congruence|intros H; inversion H; auto].
Qed.

Lemma pmap_eqb_eq a b : pmap_eqb a b = true <-> a = b.
Proof.
  unfold pmap_eqb. revert b. induction a as [|x r IH]; destruct b as [|y r2]; cbn; split; try congruence; try discriminate.
  - rewrite andb_true_iff, pair_eqb_eq, IH. intros []; congruence.
  - intros H. inversion H; subst. rewrite andb_true_iff, pair_eqb_eq, IH. auto.
Qed.

Lemma opmap_eqb_eq a b : opmap_eqb a b = true <-> a = b.
Proof.
  destruct a, b; cbn; try (split; congruence).
  rewrite pmap_eqb_eq. split; congruence.
Qed.

Lemma is_some_spec {A} (o : option A) : is_some o = true <-> o <> None.
Proof. destruct o; cbn; split; congruence. Qed.

Lemma step_okb_spec s : step_okb s = true <-> Holds_step s.
Proof.
  destruct s as [[[c fo] x] o]. destruct c; cbn [step_okb Holds_step]; try tauto.
  destruct fo as [[f cp]|]; [|tauto]. cbv zeta.
  rewrite !andb_true_iff, !implb_true_iff, !andb_true_iff, !no_analysisb_spec, negb_true_iff, has_false, !is_some_spec.
  assert (K : is_hwmon (f_kind f) = true <-> f_kind f = HwMon) by (destruct (f_kind f); cbn; split; congruence).
  rewrite K.
  assert (M : match f_map f with
              | Some m => negb (has Sweep (os_acts o)) && opmap_eqb (os_final o) (Some m)
              | None => true
              end = true <-> (forall m, f_map f = Some m -> ~ In Sweep (os_acts o) /\ os_final o = Some m)).
  { destruct (f_map f) as [m|].
    - rewrite andb_true_iff, negb_true_iff, has_false, opmap_eqb_eq. split.
      + intros H m' E. inversion E; subst. exact H.
      + intros H. now apply H.
    - split; [intros _ m E; discriminate|reflexivity]. }
  rewrite M. tauto.
Qed.

Theorem holdsb_spec c : holdsb c = true <-> Holds c.
Proof.
  unfold holdsb, Holds. rewrite forallb_forall, Forall_forall.
  split; intros H s Hs; apply step_okb_spec; auto.
Qed.

(* ---- the model's own output always passes the observer (for ALL fleets, databases and command
   sequences), so agreement with the model on a case implies the property on that case ---- *)
Definition Rel (fl : fleet) (t : tracker) (d : db) : Prop :=
  forall id, x_data (t id) = e_data (d id) /\ x_map (t id) = is_some (e_map (d id))
             /\ (x_settled (t id) = true -> fl id <> None -> calm fl d id).

Lemma in_filter_obs x a : In x (filter observable a) -> In x a.
Proof. intros H. apply filter_In in H. tauto. Qed.

Lemma analysis_free_filter a : analysis_free a -> analysis_free (filter observable a).
Proof. intros [H1 H2]. split; intros H; apply in_filter_obs in H; auto. Qed.

Lemma model_step_holds fl t d c :
  Rel fl t d -> Holds_step (c, fl (cmd_id c), t (cmd_id c), model_step fl d c).
Proof.
  intros R. destruct c as [id|id|id|id]; cbn [Holds_step cmd_id]; auto.
  destruct (fl id) as [[f cp]|] eqn:F; [|exact I].
  destruct (R id) as [Rd [Rm Rs]]. cbv zeta.
  assert (A : os_acts (model_step fl d (Start id)) = filter observable (start_actions f cp (d id))).
  { unfold model_step. cbn [os_acts acts]. now rewrite F. }
  assert (Fm : os_final (model_step fl d (Start id)) = start_map f cp (d id)).
  { unfold model_step. cbn [os_final]. now rewrite F. }
  rewrite A, Fm. split; [|split; [|split]].
  - intros Hd Hm. apply analysis_free_filter. apply start_reuse; [congruence|].
    rewrite Rm in Hm. now apply is_some_spec.
  - intros m H. destruct (start_cfg_map f cp (d id) m H) as [S1 S2]. split; [|exact S2].
    intros X. apply in_filter_obs in X. auto.
  - intros K Hlo Hhi X. apply in_filter_obs in X.
    destruct (f_min f) as [lo|] eqn:E1; [|congruence]. destruct (f_max f) as [hi|] eqn:E2; [|congruence].
    exact (start_minmax f cp (d id) lo hi K E1 E2 X).
  - intros S. apply analysis_free_filter. assert (NN : fl id <> None) by congruence. pose proof (calm_no_analysis fl d id (Rs S NN)) as Q.
    unfold acts in Q. now rewrite F in Q.
Qed.

Lemma cmd_id_neq c id : cmd_id c <> id -> c <> Start id /\ c <> Stop id /\ c <> Reset id /\ c <> Init id.
Proof. intros H. repeat split; intros ->; cbn in H; congruence. Qed.

Lemma Rel_step fl t d c : Rel fl t d -> Rel fl (track t c (model_step fl d c)) (step fl d c).
Proof.
  intros R id. unfold track, tupd. destruct (Z.eqb_spec id (cmd_id c)) as [->|Ne].
  - cbn [x_data x_map x_settled]. unfold model_step at 1 2. cbn [os_data os_map]. split; [reflexivity|split; [reflexivity|]].
    destruct (R (cmd_id c)) as [_ [_ Rs]].
    destruct c as [j|j|j|j]; cbn [cmd_id] in *; try discriminate.
    + intros H NN. apply orb_true_iff in H. destruct H as [H|H].
      * apply calm_preserved; [discriminate|discriminate|auto].
      * apply has_spec in H. unfold model_step in H. cbn [os_acts] in H. apply in_filter_obs in H.
        apply settled_calm. now apply settled_after_completed_start.
    + intros H NN. apply calm_preserved; [discriminate|discriminate|auto].
    + intros H NN. apply negb_true_iff in H. apply has_false in H.
      unfold model_step in H. cbn [os_acts] in H.
      apply calm_after_ok_init; [exact NN|]. intros E. apply H. apply filter_In. split; [exact E|reflexivity].
  - destruct (R id) as [Rd [Rm Rs]].
    assert (N : cmd_id c <> id) by congruence.
    pose proof (cmd_id_neq c id N) as Q. rewrite (step_isolated fl d c id Q).
    split; [exact Rd|split; [exact Rm|]]. intros S NN. destruct Q as [_ [_ [Q3 Q4]]].
    now apply calm_preserved; auto.
Qed.

Lemma model_annot_holds fl cs : forall t d, Rel fl t d ->
  Forall Holds_step (annot fl t cs (model_steps fl d cs)).
Proof.
  induction cs as [|c r IH]; intros t d R; cbn [annot model_steps]; constructor.
  - now apply model_step_holds.
  - apply IH. now apply Rel_step.
Qed.

Lemma Rel_init fl d : Rel fl (tracker0 d) d.
Proof. intros id. unfold tracker0. cbn. repeat split. discriminate. Qed.

(* whatever the model produces passes the observer: model = implementation on a case (mismatch = false)
   therefore implies that the case holds *)
Theorem model_output_holds : forall fans db0 cmds x,
  holdsb (mkCase fans db0 cmds (model_steps (fleet_of fans) (db_of db0) cmds) x) = true.
Proof.
  intros. apply holdsb_spec. unfold Holds. cbn [c_fans c_db0 c_cmds o_steps].
  apply model_annot_holds. apply Rel_init.
Qed.

Lemma list_eqb_true {A} (eqb : A -> A -> bool) (H : forall a b, eqb a b = true -> a = b) :
  forall l1 l2, list_eqb eqb l1 l2 = true -> l1 = l2.
Proof.
  induction l1 as [|x r IH]; destruct l2 as [|y r2]; cbn; intros E; try discriminate; [reflexivity|].
  apply andb_true_iff in E. destruct E as [E1 E2]. f_equal; auto.
Qed.

Lemma ostep_eqb_true a b : ostep_eqb a b = true -> a = b.
Proof.
  destruct a as [a1 a2 a3 a4], b as [b1 b2 b3 b4]. unfold ostep_eqb. cbn [os_acts os_data os_map os_final].
  rewrite !andb_true_iff. intros [[[E1 E2] E3] E4].
  apply (list_eqb_true action_eqb (fun x y => proj1 (action_eqb_eq x y))) in E1.
  apply Bool.eqb_prop in E2, E3. apply opmap_eqb_eq in E4. congruence.
Qed.

(* agreement with the model on a case implies the property on that case *)
Theorem no_mismatch_holds c : mismatch c = false -> holdsb c = true.
Proof.
  destruct c as [fans db0 cmds o x]. unfold mismatch. cbn [c_fans c_db0 c_cmds o_steps].
  intros H. apply negb_false_iff in H. apply (list_eqb_true ostep_eqb ostep_eqb_true) in H. subst o.
  apply model_output_holds.
Qed.

(* no recorded finding for this property: every failing case is a violation *)
Definition finding_code (c : case) : Z := 0.
