(* driver `startup` as a second driver of C05: every start the start-up driver performs (first start with
   sweep and RPM measurement, restart, after `fan init` / `fan reset`, configured maps, hwmon / file / cmd
   fans, concurrent starts, CLI-driven histories) is followed by a few real control cycles; nothing but the
   controller touches the fan's files and all writes succeed, so the controller's third-party counter
   (FanControllerStatistics.UnexpectedPwmValueCount) must still be 0 -- provided C05's standing assumption
   holds for the start: the device reads back what the PWM map says that the MODEL expects the controller to use
   after this start ([reads_back]: every output of that map is a value the device shows when it is written; the
   start-up driver also generates configured / stored maps that contradict the device, those starts are not judged).
   Same case type as Drv/Startup.v (field o_c05); no model comparison here: the start-up actions are
   compared by C15, the regulation cycles by the ctrl driver of C05. *)
From F2G Require Export Drv.Startup.
From Coq Require Import Lia.

(* the device shows every output of the map when it is written *)
Definition reads_back (cp : caps) (m : pmap) : bool := forallb (fun kv => dev cp (snd kv) =? snd kv) m.

(* per command: the device and the PWM map the MODEL expects the controller to regulate with after that start
   (the configured map, the stored one, or the one the start itself measures), and what was observed *)
Definition annot05 := (option (caps * pmap) * (bool * Z * Z))%type.

Fixpoint expect (fl : fleet) (d : db) (cs : list cmd) (xs : list (bool * Z * Z)) : list annot05 :=
  match cs, xs with
  | c :: cr, x :: xr =>
      let e := match c with
               | Start id =>
                   match fl id with
                   | Some (f, cp) => match start_map f cp (d id) with Some m => Some (cp, m) | None => None end
                   | None => None
                   end
               | _ => None
               end in
      (e, x) :: expect fl (step fl d c) cr xr
  | _, _ => []
  end.

(* is this step a start that C05 speaks about: undisturbed, and the device reads back the expected map.
   (Judging by the controller's OWN final map would excuse a start whose map was corrupted on the way.) *)
Definition judged (s : annot05) : bool :=
  match s with
  | (Some (cp, m), (disturbed, _, _)) => negb disturbed && reads_back cp m
  | (None, _) => false
  end.

Definition count_of (s : annot05) : Z := let '(_, (_, _, n)) := s in n.

Definition step_c05b (s : annot05) : bool := implb (judged s) (count_of s =? 0).

Definition steps05 (c : case) : list annot05 :=
  expect (fleet_of (c_fans c)) (db_of (c_db0 c)) (c_cmds c) (o_c05 c).

Definition holdsb (c : case) : bool := forallb step_c05b (steps05 c).

(* no false count: every judged start shows a zero counter after its control cycles *)
Definition Holds (c : case) : Prop :=
  forall s, In s (steps05 c) -> judged s = true -> count_of s = 0.

Theorem holdsb_spec c : holdsb c = true <-> Holds c.
Proof.
  unfold holdsb, Holds, step_c05b. rewrite forallb_forall. split.
  - intros H s Hin J. specialize (H s Hin). rewrite J in H. cbn in H. now apply Z.eqb_eq.
  - intros H s Hin. destruct (judged s) eqn:J; [|reflexivity].
    cbn. apply Z.eqb_eq. now apply H.
Qed.

(* the judged class is not empty: the restart of a fan whose stored step map matches its quantising device is judged *)
Example judged_nonempty :
  let fl : fleet := fun _ => Some (mkFanCfg HwMon None None None true, mkCaps true true [(1, 0); (3, 2)]) in
  let d : db := fun _ => mkEntry true (Some [(0, 0); (1, 0); (2, 2); (3, 2)]) in
  map judged (expect fl d [Start 1] [(false, 3, 0)]) = [true].
Proof. reflexivity. Qed.

Definition mismatch (c : case) : bool := false.
Definition finding_code (c : case) : Z := 0.
