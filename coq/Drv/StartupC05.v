(* driver `startup` as a second driver of C05: every start the start-up driver performs (first start with
   sweep and RPM measurement, restart, after `fan init` / `fan reset`, configured maps, hwmon / file / cmd
   fans, concurrent starts, CLI-driven histories) is followed by a few real control cycles; nothing but the
   controller touches the fan's files and all writes succeed, so the controller's third-party counter
   (FanControllerStatistics.UnexpectedPwmValueCount) must still be 0.
   Same case type as Drv/Startup.v (field o_c05); no model comparison here: the start-up actions are
   compared by C15, the regulation cycles by the ctrl driver of C05. *)
From F2G Require Export Drv.Startup.
From Coq Require Import Lia.

Definition step_c05b (x : bool * Z * Z) : bool :=
  let '(disturbed, cycles, count) := x in disturbed || (count =? 0).

Definition holdsb (c : case) : bool := forallb step_c05b (o_c05 c).

(* no false count: every undisturbed start shows a zero counter after its control cycles *)
Definition Holds (c : case) : Prop :=
  forall disturbed cycles count, In (disturbed, cycles, count) (o_c05 c) -> disturbed = false -> count = 0.

Theorem holdsb_spec c : holdsb c = true <-> Holds c.
Proof.
  unfold holdsb, Holds. rewrite forallb_forall. split.
  - intros H d cy n Hin Hd. specialize (H _ Hin). cbn in H. subst d. cbn in H. now apply Z.eqb_eq.
  - intros H [[d cy] n] Hin. cbn. destruct d; [reflexivity|]. cbn. apply Z.eqb_eq. eapply H; eauto.
Qed.

Definition mismatch (c : case) : bool := false.
Definition finding_code (c : case) : Z := 0.
