(* driver `startup` as a second driver of C05: every start the start-up driver performs (first start with
   sweep and RPM measurement, restart, after `fan init` / `fan reset`, configured maps, hwmon / file / cmd
   fans, concurrent starts, CLI-driven histories) is followed by a few real control cycles; nothing but the
   controller touches the fan's files and all writes succeed, so the controller's third-party counter
   (FanControllerStatistics.UnexpectedPwmValueCount) must still be 0 -- provided C05's standing assumption
   holds for the start: the device reads back what the controller's PWM map says ([reads_back]: every output
   of the map is a value the device shows when it is written; the start-up driver also generates configured /
   stored maps that contradict the device, those starts are not judged).
   Same case type as Drv/Startup.v (field o_c05); no model comparison here: the start-up actions are
   compared by C15, the regulation cycles by the ctrl driver of C05. *)
From F2G Require Export Drv.Startup.
From Coq Require Import Lia.

(* the device shows every output of the map when it is written *)
Definition reads_back (cp : caps) (m : pmap) : bool := forallb (fun kv => dev cp (snd kv) =? snd kv) m.

Fixpoint zip3 {A B C} (a : list A) (b : list B) (c : list C) : list (A * B * C) :=
  match a, b, c with
  | x :: a', y :: b', z :: c' => (x, y, z) :: zip3 a' b' c'
  | _, _, _ => []
  end.

(* is this step a start that C05 speaks about: undisturbed, and the device reads back the controller's map *)
Definition judged (fl : fleet) (s : cmd * ostep * (bool * Z * Z)) : bool :=
  let '(c, o, (disturbed, _, _)) := s in
  match c with
  | Start id =>
      match fl id, os_final o with
      | Some (_, cp), Some m => negb disturbed && reads_back cp m
      | _, _ => false
      end
  | _ => false
  end.

Definition count_of (s : cmd * ostep * (bool * Z * Z)) : Z := let '(_, _, (_, _, n)) := s in n.

Definition step_c05b (fl : fleet) (s : cmd * ostep * (bool * Z * Z)) : bool :=
  implb (judged fl s) (count_of s =? 0).

Definition holdsb (c : case) : bool :=
  forallb (step_c05b (fleet_of (c_fans c))) (zip3 (c_cmds c) (o_steps c) (o_c05 c)).

(* no false count: every judged start shows a zero counter after its control cycles *)
Definition Holds (c : case) : Prop :=
  forall s, In s (zip3 (c_cmds c) (o_steps c) (o_c05 c)) -> judged (fleet_of (c_fans c)) s = true -> count_of s = 0.

Theorem holdsb_spec c : holdsb c = true <-> Holds c.
Proof.
  unfold holdsb, Holds, step_c05b. rewrite forallb_forall. split.
  - intros H s Hin J. specialize (H s Hin). rewrite J in H. cbn in H. now apply Z.eqb_eq.
  - intros H s Hin. destruct (judged (fleet_of (c_fans c)) s) eqn:J; [|reflexivity].
    cbn. apply Z.eqb_eq. now apply H.
Qed.

(* the judged class is not empty: a start whose configured map matches an identity device is judged *)
Example judged_nonempty :
  judged (fun _ => Some (mkFanCfg HwMon None None None true, mkCaps true true []))
         (Start 1, mkOStep [Regulate] true true (Some [(0, 0); (255, 255)]), (false, 3, 0)) = true.
Proof. reflexivity. Qed.

Definition mismatch (c : case) : bool := false.
Definition finding_code (c : case) : Z := 0.
