(* Go semantics layer: float64 as Coq primitive floats (IEEE-754 binary64,
   round-to-nearest-even: what Go computes on amd64, which never fuses a*b+c),
   int as Z, and the conversions between them written out explicitly. *)
From Coq Require Import ZArith Bool List Floats Uint63 SpecFloat.
Import ListNotations.
Open Scope Z_scope.

Notation f64 := PrimFloat.float.

Definition two63 : Z := 9223372036854775808.

(* float64(int) : correctly rounded, exact for |z| < 2^53.  Defined for |z| < 2^63. *)
Definition i2f (z : Z) : f64 :=
  if z <? 0 then PrimFloat.opp (PrimFloat.of_uint63 (Uint63.of_Z (- z)))
  else PrimFloat.of_uint63 (Uint63.of_Z z).

(* int(float64) on amd64 (CVTTSD2SQ): truncation toward zero; NaN, +-Inf and
   out-of-range values give the "integer indefinite" value -2^63. *)
Definition f2i (x : f64) : Z :=
  match Prim2SF x with
  | S754_zero _ => 0
  | S754_infinity _ => - two63
  | S754_nan => - two63
  | S754_finite s m e =>
      let mag := if 0 <=? e then Z.pos m * 2 ^ e else Z.pos m / 2 ^ (- e) in
      let v := if s then - mag else mag in
      if (v <? - two63) || (two63 <=? v) then - two63 else v
  end.

(* math.Round: nearest integer, halves away from zero; NaN, +-Inf, +-0 unchanged. *)
Definition goRound (x : f64) : f64 :=
  match Prim2SF x with
  | S754_finite s m e =>
      if 0 <=? e then x
      else
        let d := 2 ^ (- e) in
        let q := Z.pos m / d in
        let r := Z.pos m mod d in
        let q' := if d <=? 2 * r then q + 1 else q in
        let v := i2f q' in
        if s then PrimFloat.opp v else v
  | _ => x
  end.

Definition is_nan (x : f64) : bool := negb (PrimFloat.eqb x x).
Definition is_inf (x : f64) : bool :=
  match Prim2SF x with S754_infinity _ => true | _ => false end.
Definition is_finite (x : f64) : bool :=
  match Prim2SF x with S754_zero _ | S754_finite _ _ _ => true | _ => false end.
Definition sign_bit (x : f64) : bool :=
  match Prim2SF x with
  | S754_zero s | S754_infinity s | S754_finite s _ _ => s
  | S754_nan => false
  end.

(* math.Min / math.Max (Go: special cases for Inf, NaN and signed zeros) *)
Definition goMin (x y : f64) : f64 :=
  if is_inf x && sign_bit x then x
  else if is_inf y && sign_bit y then y
  else if is_nan x then x else if is_nan y then y
  else if PrimFloat.eqb x 0 && PrimFloat.eqb y 0 then (if sign_bit x then x else y)
  else if PrimFloat.ltb x y then x else y.

Definition goMax (x y : f64) : f64 :=
  if is_inf x && negb (sign_bit x) then x
  else if is_inf y && negb (sign_bit y) then y
  else if is_nan x then x else if is_nan y then y
  else if PrimFloat.eqb x 0 && PrimFloat.eqb y 0 then (if sign_bit x then y else x)
  else if PrimFloat.ltb y x then x else y.

(* float64(float32(x)): re-round to binary32 (prec 24, emax 128), re-embed exactly. *)
Definition to_f32 (x : f64) : f64 :=
  match Prim2SF x with
  | S754_finite s m e =>
      match binary_normalize 24 128 (cond_Zopp s (Z.pos m)) e s with
      | S754_finite s' m' e' =>
          SF2Prim (binary_normalize 53 1024 (cond_Zopp s' (Z.pos m')) e' s')
      | other => SF2Prim other
      end
  | _ => x
  end.

(* time.Duration(ns).Seconds() = float64(sec) + float64(nsec)/1e9 *)
Definition seconds (ns : Z) : f64 :=
  PrimFloat.add (i2f (Z.quot ns 1000000000))
                (PrimFloat.div (i2f (Z.rem ns 1000000000)) 1e9%float).

(* bit-exact comparison of floats across the Go/Coq boundary (all NaNs identified) *)
Definition feqb (x y : f64) : bool :=
  match Prim2SF x, Prim2SF y with
  | S754_zero a, S754_zero b => Bool.eqb a b
  | S754_infinity a, S754_infinity b => Bool.eqb a b
  | S754_nan, S754_nan => true
  | S754_finite s m e, S754_finite s' m' e' => Bool.eqb s s' && Pos.eqb m m' && Z.eqb e e'
  | _, _ => false
  end.

(* sanity: the probes recorded in DESIGN.md section 2.2 *)
Example f2i_trunc : f2i 2.9%float = 2 /\ f2i (-2.9)%float = -2 /\ f2i nan = - two63 /\ f2i infinity = - two63.
Proof. vm_compute. repeat split. Qed.
Example round_half_away : f2i (goRound 2.5%float) = 3 /\ f2i (goRound (-2.5)%float) = -3 /\ f2i (goRound 0.49999999999999994%float) = 0.
Proof. vm_compute. repeat split. Qed.
Example f32_tenth : feqb (to_f32 0.1%float) 0x1.99999ap-4%float = true /\ feqb (to_f32 16777217%float) 16777216%float = true
  /\ feqb (to_f32 1e40%float) infinity = true /\ feqb (to_f32 1e-46%float) 0%float = true.
Proof. vm_compute. repeat split. Qed.
