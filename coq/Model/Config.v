(* Model of internal/configuration/validation.go over an abstract configuration
   AST (what viper + mapstructure hand to the validator), of the start-up glue
   that instantiates sensors, curves, fans and fan controllers
   (internal/backend.go: initializeSensors/Curves/Fans, initializeFanControllers,
   sensors.NewSensor, curves.NewSpeedCurve, fans.NewFan, controller.NewFanController)
   and of curve evaluation through the global registries
   (internal/curves/{linear,pid,functional}.go).  Hand-written; tied to the code
   by the correspondence driver `config` (YAML text -> real loader -> real
   validator -> real constructors -> real Evaluate / calculateTargetPwm).

   Strings are abstracted to Z: ids are numbers, 0 is the empty string (a missing
   `id:` / `sensor:` / `curve:` key decodes to "").  Decoding itself (YAML,
   mapstructure hooks, the UnmarshalText hook of controlAlgorithm) is not
   modelled; the AST is the *decoded* shape and the driver renders every
   spelling that decodes to it. *)
From Coq Require Import ZArith Bool List Floats Lia.
From F2G Require Import Go.GoFloat Model.Util.
Import ListNotations.
Open Scope Z_scope.

(* ------------------------------------------------------------------ AST *)
Record sensor_cfg := mkSensor {
  s_id : Z;
  s_hwmon : option Z;        (* hwmon block present, with its index *)
  s_file : bool;             (* file block present *)
  s_cmd : bool               (* cmd block present *)
}.

Record linear_cfg := mkLinear {
  l_sensor : Z; l_min : Z; l_max : Z;
  l_steps : option (list (Z * f64))   (* None = nil map; Some [] = non-nil empty map; key-sorted *)
}.
Record pidc_cfg := mkPidC { pc_sensor : Z; pc_set : f64; pc_p : f64; pc_i : f64; pc_d : f64 }.
Inductive ftype := FMin | FAvg | FMax | FDelta | FSum | FDiff | FOther.
Record func_cfg := mkFunc { fn_type : ftype; fn_curves : list Z }.
Record curve_cfg := mkCurve {
  c_id : Z;
  c_linear : option linear_cfg; c_pid : option pidc_cfg; c_func : option func_cfg
}.

Record pid3 := mkPid3 { k_p : f64; k_i : f64; k_d : f64 }.
(* *ControlAlgorithmConfig after decoding: a_direct = Some lim  <->  .Direct != nil
   (lim = MaxPwmChangePerCycle, itself optional); a_pid = Some _ <-> .Pid != nil.
   "direct" decodes to {Some None, None}; "pid" to {None, Some defaults}; {} to {None, None}. *)
Record alg_cfg := mkAlg { a_direct : option (option Z); a_pid : option pid3 }.
Record hwfan_cfg := mkHwFan { hf_index : Z; hf_rpm : Z; hf_pwm : Z }.
(* cmd fan: Some b = block present, b = its exec is a non-empty string *)
Record cmdfan_cfg := mkCmdFan { cf_set : option bool; cf_get : option bool }.
Record fan_cfg := mkFan {
  f_id : Z; f_curve : Z;
  f_alg : option alg_cfg;          (* controlAlgorithm *)
  f_legacy : bool;                 (* deprecated controlLoop block present *)
  f_hwmon : option hwfan_cfg;
  f_file : option bool;            (* Some b: file block present, b = path non-empty *)
  f_cmd : option cmdfan_cfg
}.

Record config := mkConfig { sensors : list sensor_cfg; curves : list curve_cfg; fans : list fan_cfg }.

(* ------------------------------------------------------------------ errors *)
Inductive verr :=
  | Ok
  | EDupSensor | ESensorMulti | ESensorNone | ESensorIndex
  | EDupCurve | ECurveMulti | ECurveNone | EFuncType | EFuncEmpty | ESelfRef | ECurveRef
  | ENoSensorId | ESensorRef | EStepsEmpty | ECurvePidZero | ECycle
  | EDupFan | EFanMulti | EFanNone | EFanNoCurve | EFanCurveRef | EAlgEmpty | EMaxChange | EFanPidZero
  | EHwOneOf | EHwIndex | EHwRpm | EHwPwm | EFilePath
  | ECmdNoSet | ECmdSetExec | ECmdNoGet | ECmdGetExec
  | EPerm.

Definition verr_code (e : verr) : Z :=
  match e with
  | Ok => 0
  | EDupSensor => 1 | ESensorMulti => 2 | ESensorNone => 3 | ESensorIndex => 4
  | EDupCurve => 10 | ECurveMulti => 11 | ECurveNone => 12 | EFuncType => 13 | ESelfRef => 14
  | ECurveRef => 15 | ENoSensorId => 16 | ESensorRef => 17 | ECurvePidZero => 18 | ECycle => 19
  | EFuncEmpty => 20 | EStepsEmpty => 21
  | EDupFan => 30 | EFanMulti => 31 | EFanNone => 32 | EFanNoCurve => 33 | EFanCurveRef => 34
  | EMaxChange => 35 | EFanPidZero => 36 | EHwOneOf => 37 | EHwIndex => 38 | EHwRpm => 39 | EHwPwm => 40
  | EFilePath => 41 | ECmdNoSet => 42 | ECmdSetExec => 43 | ECmdNoGet => 44 | ECmdGetExec => 45
  | EAlgEmpty => 46
  | EPerm => 50
  end.

(* ------------------------------------------------------------------ helpers *)
Definition memZ (x : Z) (l : list Z) : bool := existsb (Z.eqb x) l.
Definition b2z (b : bool) : Z := if b then 1 else 0.
Definition isSome {A} (o : option A) : bool := match o with Some _ => true | None => false end.
Definition fzero (x : f64) : bool := PrimFloat.eqb x 0.     (* Go: x == 0 (true for -0, false for NaN) *)

(* the common shape of the three validate loops: duplicate-id test first, then
   the per-entry checks, ids appended to the seen list *)
Fixpoint v_each {A} (id : A -> Z) (dup : verr) (chk : A -> verr) (seen : list Z) (l : list A) : verr :=
  match l with
  | [] => Ok
  | x :: r =>
      if memZ (id x) seen then dup
      else match chk x with
           | Ok => v_each id dup chk (id x :: seen) r
           | e => e
           end
  end.

Definition sensor_ids (cfg : config) := map s_id (sensors cfg).
Definition curve_ids (cfg : config) := map c_id (curves cfg).
Definition fan_ids (cfg : config) := map f_id (fans cfg).
Definition sensorIdExists (id : Z) (cfg : config) : bool := memZ id (sensor_ids cfg).
Definition curveIdExists (id : Z) (cfg : config) : bool := memZ id (curve_ids cfg).

(* ------------------------------------------------------------------ validateSensors *)
Definition sensor_backends (s : sensor_cfg) : Z := b2z (isSome (s_hwmon s)) + b2z (s_file s) + b2z (s_cmd s).

Definition chk_sensor (s : sensor_cfg) : verr :=
  let n := sensor_backends s in
  if 1 <? n then ESensorMulti
  else if n <=? 0 then ESensorNone
  else match s_hwmon s with
       | Some idx => if idx <=? 0 then ESensorIndex else Ok
       | None => Ok
       end.

Definition v_sensors (cfg : config) : verr := v_each s_id EDupSensor chk_sensor [] (sensors cfg).

(* ------------------------------------------------------------------ validateCurves *)
Definition curve_backends (c : curve_cfg) : Z :=
  b2z (isSome (c_linear c)) + b2z (isSome (c_pid c)) + b2z (isSome (c_func c)).

Fixpoint chk_members (cfg : config) (self : Z) (ms : list Z) : verr :=
  match ms with
  | [] => Ok
  | m :: r => if m =? self then ESelfRef
              else if negb (curveIdExists m cfg) then ECurveRef
              else chk_members cfg self r
  end.

Definition chk_func (cfg : config) (self : Z) (f : func_cfg) : verr :=
  match fn_type f with
  | FOther => EFuncType
  | _ => match fn_curves f with
         | [] => EFuncEmpty                       (* repaired validator (D15) *)
         | ms => chk_members cfg self ms
         end
  end.

Definition chk_linear (cfg : config) (l : linear_cfg) : verr :=
  if l_sensor l =? 0 then ENoSensorId
  else if negb (sensorIdExists (l_sensor l) cfg) then ESensorRef
  else match l_steps l with
       | Some [] => EStepsEmpty                    (* repaired validator (D15) *)
       | _ => Ok
       end.

Definition chk_pidc (cfg : config) (p : pidc_cfg) : verr :=
  if pc_sensor p =? 0 then ENoSensorId
  else if negb (sensorIdExists (pc_sensor p) cfg) then ESensorRef
  else if fzero (pc_p p) && fzero (pc_i p) && fzero (pc_d p) then ECurvePidZero
  else Ok.

Definition opt_chk {A} (o : option A) (chk : A -> verr) (k : verr) : verr :=
  match o with
  | Some x => match chk x with Ok => k | e => e end
  | None => k
  end.

Definition chk_curve (cfg : config) (c : curve_cfg) : verr :=
  let n := curve_backends c in
  if 1 <? n then ECurveMulti
  else if n <=? 0 then ECurveNone
  else opt_chk (c_func c) (chk_func cfg (c_id c))
       (opt_chk (c_linear c) (chk_linear cfg)
       (opt_chk (c_pid c) (chk_pidc cfg) Ok)).

(* --- the dependency graph handed to tarjan.Connections: graph[id] = members
       for every function curve --- *)
Definition gmembers (c : curve_cfg) : list Z :=
  match c_func c with Some f => fn_curves f | None => [] end.

(* Go map / registry semantics: a later entry with the same key replaces an earlier one *)
Fixpoint find_last {A} (p : A -> bool) (l : list A) : option A :=
  match l with
  | [] => None
  | x :: r => match find_last p r with
              | Some y => Some y
              | None => if p x then Some x else None
              end
  end.

Definition curve_by_id (cfg : config) (id : Z) : option curve_cfg :=
  find_last (fun c => c_id c =? id) (curves cfg).

Definition succs (cfg : config) (id : Z) : list Z :=
  match curve_by_id cfg id with Some c => gmembers c | None => [] end.

(* Executable cycle check (the validator uses Tarjan's SCC algorithm from
   github.com/looplab/tarjan, an oracle here): peel the graph -- round k+1 keeps
   the nodes all of whose successors were kept in round k; the graph is acyclic
   iff every node is kept after #nodes rounds (Proofs/ConfigGraph.v). *)
Section Peel.
  Variable nodes : list Z.
  Variable succ : Z -> list Z.
  Definition peel_round (S : list Z) : list Z :=
    filter (fun u => forallb (fun v => memZ v S) (succ u)) nodes.
  Fixpoint peel (k : nat) : list Z :=
    match k with O => [] | S k' => peel_round (peel k') end.
  Definition acyclicb : bool := forallb (fun u => memZ u (peel (length nodes))) nodes.
End Peel.

Definition graph_acyclicb (cfg : config) : bool := acyclicb (curve_ids cfg) (succs cfg).

Definition v_curves (cfg : config) : verr :=
  match v_each c_id EDupCurve (chk_curve cfg) [] (curves cfg) with
  | Ok => if graph_acyclicb cfg then Ok else ECycle
  | e => e
  end.

(* ------------------------------------------------------------------ validateFans *)
Definition fan_backends (f : fan_cfg) : Z :=
  b2z (isSome (f_hwmon f)) + b2z (isSome (f_file f)) + b2z (isSome (f_cmd f)).

Definition chk_alg (a : alg_cfg) : verr :=
  match a_direct a, a_pid a with
  | None, None => EAlgEmpty                        (* repaired validator (D15) *)
  | _, _ =>
    match (match a_direct a with
           | Some (Some lim) => if lim <=? 0 then EMaxChange else Ok
           | _ => Ok
           end) with
    | Ok => match a_pid a with
            | Some k => if fzero (k_p k) && fzero (k_i k) && fzero (k_d k) then EFanPidZero else Ok
            | None => Ok
            end
    | e => e
    end
  end.

Definition chk_hwfan (h : hwfan_cfg) : verr :=
  if (negb (hf_index h =? 0) && negb (hf_rpm h =? 0)) || ((hf_index h =? 0) && (hf_rpm h =? 0)) then EHwOneOf
  else if hf_index h <? 0 then EHwIndex
  else if hf_rpm h <? 0 then EHwRpm
  else if hf_pwm h <? 0 then EHwPwm
  else Ok.

Definition chk_filefan (path_nonempty : bool) : verr := if path_nonempty then Ok else EFilePath.

Definition chk_cmdfan (c : cmdfan_cfg) : verr :=
  match cf_set c with
  | None => ECmdNoSet
  | Some false => ECmdSetExec
  | Some true =>
      match cf_get c with
      | None => ECmdNoGet
      | Some false => ECmdGetExec
      | Some true => Ok
      end
  end.

Definition chk_fan (cfg : config) (f : fan_cfg) : verr :=
  let n := fan_backends f in
  if 1 <? n then EFanMulti
  else if n <=? 0 then EFanNone
  else if f_curve f =? 0 then EFanNoCurve
  else if negb (curveIdExists (f_curve f) cfg) then EFanCurveRef
  else opt_chk (f_alg f) chk_alg
       (opt_chk (f_hwmon f) chk_hwfan
       (opt_chk (f_file f) chk_filefan
       (opt_chk (f_cmd f) chk_cmdfan Ok))).

Definition v_fans (cfg : config) : verr := v_each f_id EDupFan (chk_fan cfg) [] (fans cfg).

(* ------------------------------------------------------------------ validateConfig *)
Definition has_cmd (cfg : config) : bool :=
  existsb s_cmd (sensors cfg) || existsb (fun f => isSome (f_cmd f)) (fans cfg).

(* [perm_ok]: oracle for util.CheckFilePermissionsForExecution(configPath) (C18's subject) *)
Definition validate (cfg : config) (perm_ok : bool) : verr :=
  match v_sensors cfg with
  | Ok => match v_curves cfg with
          | Ok => let e := v_fans cfg in
                  if has_cmd cfg && negb perm_ok then EPerm else e
          | e => e
          end
  | e => e
  end.

(* ================================================================== instantiation *)
Inductive cobj := CLinear (l : linear_cfg) | CPid (p : pidc_cfg) | CFunc (f : func_cfg).
Inductive loopobj := LPid | LDirect (lim : option Z).
Record fanobj := mkFanObj { fo_id : Z; fo_curve : Z; fo_loop : option loopobj (* None = nil ControlLoop interface *) }.
Record objs := mkObjs {
  o_sensors : list Z;               (* ids in the sensor registry *)
  o_curves : list (Z * cobj);       (* registration order; a later id replaces an earlier one *)
  o_fans : list fanobj
}.

(* sensors.NewSensor / fans.NewFan: error when no backend block is present *)
Definition new_sensor (s : sensor_cfg) : option Z :=
  if isSome (s_hwmon s) || s_file s || s_cmd s then Some (s_id s) else None.

(* curves.NewSpeedCurve: first of linear | pid | function *)
Definition new_curve (c : curve_cfg) : option (Z * cobj) :=
  match c_linear c, c_pid c, c_func c with
  | Some l, _, _ => Some (c_id c, CLinear l)
  | None, Some p, _ => Some (c_id c, CPid p)
  | None, None, Some f => Some (c_id c, CFunc f)
  | None, None, None => None
  end.

(* initializeFanControllers: the control loop handed to NewFanController *)
Definition select_loop (f : fan_cfg) : option loopobj :=
  if f_legacy f then Some LPid
  else match f_alg f with
       | Some a => match a_pid a with
                   | Some _ => Some LPid
                   | None => match a_direct a with
                             | Some lim => Some (LDirect lim)
                             | None => None            (* controlAlgorithm: {} -> nil interface *)
                             end
                   end
       | None => Some LPid                              (* default PID loop *)
       end.

Definition new_fan (f : fan_cfg) : option fanobj :=
  if isSome (f_hwmon f) || isSome (f_file f) || isSome (f_cmd f)
  then Some (mkFanObj (f_id f) (f_curve f) (select_loop f)) else None.

Fixpoint map_opt {A B} (f : A -> option B) (l : list A) : option (list B) :=
  match l with
  | [] => Some []
  | x :: r => match f x with
              | Some y => match map_opt f r with Some ys => Some (y :: ys) | None => None end
              | None => None
              end
  end.

Definition instantiate (cfg : config) : option objs :=
  match map_opt new_sensor (sensors cfg) with
  | Some ss => match map_opt new_curve (curves cfg) with
               | Some cs => match map_opt new_fan (fans cfg) with
                            | Some fs => Some (mkObjs ss cs fs)
                            | None => None
                            end
               | None => None
               end
  | None => None
  end.

(* ================================================================== evaluation *)
Inductive site :=
  | SNilCurve        (* GetSpeedCurve miss -> nil interface -> Evaluate on nil *)
  | SNilSensor       (* GetSensor miss -> nil interface -> GetMovingAvg/GetValue on nil *)
  | SIndexEmpty      (* delta: values[0] with no member *)
  | SDivZero         (* average: total / len(curves) with no member *)
  | SEmptySteps      (* CalculateInterpolatedCurveValue: xValues[len-1] on an empty map *)
  | SFatalFuncType   (* ui.Fatal("Unknown curve function") *)
  | SFatalNoCurve    (* NewFanController: ui.Fatal, curve id not registered *)
  | SNilLoop.        (* calculateTargetPwm: f.controlLoop.Cycle on a nil interface *)
Inductive outcome := Val (z : Z) | Crash (s : site) | OutOfFuel.

(* any sensor environment: the moving average per sensor id (any float64, NaN and
   infinities included) and, for PID curves, the value the PID loop happens to produce *)
Record env := mkEnv { e_avg : Z -> f64; e_pid : Z -> Z }.

Definition get_curve (o : objs) (id : Z) : option cobj :=
  match find_last (fun p => fst p =? id) (o_curves o) with Some p => Some (snd p) | None => None end.

Definition linear_minmax (mn mx : Z) (avg : f64) : Z :=
  let minT := PrimFloat.mul (i2f mn) 1000 in
  let maxT := PrimFloat.mul (i2f mx) 1000 in
  if PrimFloat.leb maxT avg then 255
  else if PrimFloat.leb avg minT then 0
  else f2i (PrimFloat.mul (PrimFloat.div (PrimFloat.sub avg minT) (PrimFloat.sub maxT minT)) 255).

Definition eval_linear (o : objs) (e : env) (l : linear_cfg) : outcome :=
  if negb (memZ (l_sensor l) (o_sensors o)) then Crash SNilSensor
  else match l_steps l with
       | None => Val (linear_minmax (l_min l) (l_max l) (e_avg e (l_sensor l)))
       | Some steps =>
           match interpolate steps (PrimFloat.div (e_avg e (l_sensor l)) 1000) with
           | IvVal y => Val (f2i (goRound y))
           | IvPanic => Crash SEmptySteps
           end
       end.

Definition zsum (l : list Z) : Z := fold_left Z.add l 0.

Definition aggregate (t : ftype) (vals : list Z) : outcome :=
  match t with
  | FSum => Val (Z.min 255 (zsum vals))
  | FDiff => Val (Z.max 0 (match vals with [] => 0 | v :: r => fold_left Z.sub r v end))
  | FDelta => match vals with
              | [] => Crash SIndexEmpty
              | v :: _ => Val (fold_left Z.max vals v - fold_left Z.min vals v)
              end
  | FMin => Val (fold_left Z.min vals 255)
  | FMax => Val (fold_left Z.max vals 0)
  | FAvg => match vals with
            | [] => Crash SDivZero
            | _ => Val (Z.quot (zsum vals) (Z.of_nat (length vals)))
            end
  | FOther => Crash SFatalFuncType
  end.

(* FunctionSpeedCurve.Evaluate: members are evaluated left to right; the first
   crash / endless recursion wins (later members are never reached) *)
Fixpoint eval_members (ev : Z -> outcome) (t : ftype) (ms : list Z) (acc : list Z) : outcome :=
  match ms with
  | [] => aggregate t (rev acc)
  | m :: r => match ev m with
              | Val v => eval_members ev t r (v :: acc)
              | bad => bad
              end
  end.

Fixpoint eval (fuel : nat) (o : objs) (e : env) (id : Z) {struct fuel} : outcome :=
  match fuel with
  | O => OutOfFuel
  | S fuel' =>
      match get_curve o id with
      | None => Crash SNilCurve
      | Some (CLinear l) => eval_linear o e l
      | Some (CPid p) => if negb (memZ (pc_sensor p) (o_sensors o)) then Crash SNilSensor
                         else Val (e_pid e id)
      | Some (CFunc f) => eval_members (eval fuel' o e) (fn_type f) (fn_curves f) []
      end
  end.

Definition eval_graph (fuel : nat) (o : objs) (e : env) (id : Z) : outcome := eval fuel o e id.

(* one control cycle of a fan controller as far as C11 is concerned:
   NewFanController (curve must be registered), curve.Evaluate, controlLoop.Cycle *)
Definition run_fan (fuel : nat) (o : objs) (e : env) (f : fanobj) : outcome :=
  match get_curve o (fo_curve f) with
  | None => Crash SFatalNoCurve
  | Some _ => match eval fuel o e (fo_curve f) with
              | Val v => match fo_loop f with
                         | None => Crash SNilLoop
                         | Some _ => Val v
                         end
              | bad => bad
              end
  end.

Definition controllers_constructible (cfg : config) (o : objs) : Prop :=
  forall f, In f (o_fans o) -> get_curve o (fo_curve f) <> None /\ fo_loop f <> None.
