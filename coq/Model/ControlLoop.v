(* Model of internal/util/pid.go and internal/control_loop/{direct,pid}.go *)
From Coq Require Import ZArith Bool List Floats Lia.
From F2G Require Import Go.GoFloat gen.Consts Model.Util.
Import ListNotations.
Open Scope Z_scope.

Record pidst := mkPid { kp : f64; ki : f64; kd : f64; perr : f64; integ : f64; started : bool }.

Definition new_pid (p i d : f64) : pidst := mkPid p i d 0 0 false.

(* util.PidLoop.Loop with the elapsed time since the previous call as an input *)
Definition pid_loop (s : pidst) (target measured : f64) (dt_ns : Z) : pidst * f64 :=
  let err := PrimFloat.sub target measured in
  if started s then
    let dt := seconds dt_ns in
    let integ' := PrimFloat.add (integ s) (PrimFloat.mul err dt) in
    let deriv := PrimFloat.div (PrimFloat.sub err (perr s)) dt in
    let out := PrimFloat.add (PrimFloat.add (PrimFloat.mul (kp s) err) (PrimFloat.mul (ki s) integ'))
                             (PrimFloat.mul (kd s) deriv) in
    (mkPid (kp s) (ki s) (kd s) err integ' true, out)
  else
    (mkPid (kp s) (ki s) (kd s) err (integ s) true, 0%float).

Definition clampZ (x lo hi : Z) : Z := if hi <? x then hi else if x <? lo then lo else x.

(* DirectControlLoop.Cycle.  All float64 operations in it act on integers of
   magnitude < 2^53 and are exact, so it is modelled in Z (assumption recorded in
   the trusted base and exercised by the `ctrl` driver with large targets). *)
Definition direct_cycle (lim : option Z) (target current : Z) : Z :=
  let step := match lim with
              | None => target
              | Some c => current + clampZ (target - current) (- c) c
              end in
  clampZ step 0 255.

(* PidControlLoop.Cycle *)
Definition pid_cycle (s : pidst) (target current dt_ns : Z) : pidst * Z :=
  let '(s', res) := pid_loop s (i2f target) (i2f current) dt_ns in
  let coerced := Coerce (PrimFloat.add (i2f current) res) 0 255 in
  (s', f2i (goRound coerced)).

Inductive alg := Direct (lim : option Z) | PidA (s : pidst) | Oracle (f : Z -> Z -> Z).

Definition alg_cycle (a : alg) (target current dt_ns : Z) : alg * Z :=
  match a with
  | Direct lim => (a, direct_cycle lim target current)
  | PidA s => let '(s', r) := pid_cycle s target current dt_ns in (PidA s', r)
  | Oracle f => (a, f target current)
  end.
