(* Model of internal/controller/controller.go: one regulation history as a fold
   over events (RPM poll, control cycle, external interference), each control
   cycle mirroring UpdateFanSpeed -> calculateTargetPwm -> trySetManualPwm -> setPwm. *)
From Coq Require Import ZArith Bool List Floats Lia.
From F2G Require Import Go.GoFloat gen.Consts Model.Util Model.Fan Model.ControlLoop.
Import ListNotations.
Open Scope Z_scope.

(* constant per run *)
Record cfg := mkCfg {
  c_pm : list (Z * Z);     (* the controller's PWM map, key-sorted *)
  c_nrpm : Z;              (* rpmRollingWindowSize *)
  c_respq : Z;             (* device response: a write of w shows (w / q) * q  (q = 1: identity) *)
}.

Definition resp (c : cfg) (w : Z) : Z := (w / c_respq c) * c_respq c.

Record st := mkSt {
  s_fan : fan;
  s_last : option Z;       (* lastSetPwm *)
  s_loopcur : option Z;    (* previous control-loop output (curve scale) *)
  s_offset : Z;            (* minPwmOffset *)
  s_cnt : Z;               (* stats.UnexpectedPwmValueCount *)
  s_alg : alg;
  s_pwm : Z;               (* device: pwmN *)
  s_mode : Z;              (* device: pwmN_enable *)
  s_stopped : Z;           (* 0 = regulating; 1 = stalled at max; 2 = control error; 3 = crash *)
}.

Record cin := mkCin {
  ci_curve : option Z;     (* curve.Evaluate(): None = error *)
  ci_dt : Z;               (* ns since the previous control-loop call *)
  ci_read_ok : bool;       (* PWM reads of this cycle succeed *)
  ci_write_ok : bool;      (* the PWM write of this cycle succeeds *)
  ci_mode_ok : bool;       (* the mode write of this cycle succeeds *)
}.

Inductive hev :=
| Poll (rpm : option Z)
| Cycle (i : cin)
| Ext (mode : option Z) (pwm : option Z).

(* what one event shows to the outside *)
Record obs := mkObs {
  o_err : Z;               (* cycle: 0 ok, 1 ErrFanStalledAtMaxPwm, 2 other error, 3 panic; else 0 *)
  o_req : option Z;        (* lastSetPwm after the event *)
  o_writes : list Z;       (* values handed to Fan.SetPwm during the event *)
  o_pwm : Z; o_mode : Z;   (* device after the event *)
  o_cnt : Z; o_offset : Z;
  o_min : Z;               (* Fan.GetMinPwm() after the event *)
  o_avg : f64;             (* Fan.GetRpmAvg() after the event *)
}.

Definition clamp_target (t : Z) : Z :=
  if ClampHiTest <? t then ClampHiSet else if t <? ClampLoTest then ClampLoSet else t.

Definition rescale_c (t lo hi : Z) : Z :=
  lo + f2i (PrimFloat.mul (PrimFloat.div (i2f t) (i2f RescaleDivisor)) (PrimFloat.sub (i2f hi) (i2f lo))).

(* the steady request for curve value v on a fan with effective limits [lo, hi] (C04) *)
Definition steady (v lo hi : Z) : Z := rescale_c (clamp_target v) lo hi.

Definition stall_test (avg : f64) : bool :=
  if StallTestStrict then PrimFloat.ltb avg StallThreshold else PrimFloat.leb avg StallThreshold.

(* Supports(FeaturePwmSensor) in this cycle: hwmon/file probe the file, cmd is static *)
Definition supports_pwm (f : fan) (i : cin) : bool :=
  match fk f with CmdK => true | _ => ci_read_ok i end.

Definition set_fan s f := mkSt f (s_last s) (s_loopcur s) (s_offset s) (s_cnt s) (s_alg s) (s_pwm s) (s_mode s) (s_stopped s).
Definition set_stopped s v := mkSt (s_fan s) (s_last s) (s_loopcur s) (s_offset s) (s_cnt s) (s_alg s) (s_pwm s) (s_mode s) v.

Inductive target_result :=
| TOk (s : st) (r : Z)
| TErr (s : st) (code : Z).

(* ensureNoThirdPartyIsMessingWithUs: the counter after the check of this cycle *)
Definition third_party_cnt (c : cfg) (s : st) (i : cin) : Z :=
  match s_last s with
  | Some l =>
      if supports_pwm (s_fan s) i && ci_read_ok i then
        match written (c_pm c) l with
        | FcVal expected => if s_pwm s =? expected then s_cnt s else s_cnt s + 1
        | _ => s_cnt s
        end
      else s_cnt s
  | None => s_cnt s
  end.

(* calculateTargetPwm *)
Definition calc_target (c : cfg) (s : st) (i : cin) : target_result :=
  let f := s_fan s in
  let cur0 :=
    match s_last s with
    | Some l => Some l
    | None => if supports_pwm f i
              then (if ci_read_ok i then Some (s_pwm s) else None)
              else Some (GetMinPwm f)
    end in
  match cur0 with
  | None => TErr s 2
  | Some cur0 =>
    match ci_curve i with
    | None => TErr s 2
    | Some v =>
      let current := match s_loopcur s with Some t => t | None => cur0 end in
      let '(alg', t0) := alg_cycle (s_alg s) v current (ci_dt i) in
      let t := clamp_target t0 in
      let hi := GetMaxPwm f in
      let lo := GetMinPwm f + s_offset s in
      let r := rescale_c t lo hi in
      let cnt' := third_party_cnt c s i in
      let s1 := mkSt f (s_last s) (Some t) (s_offset s) cnt' alg' (s_pwm s) (s_mode s) (s_stopped s) in
      if has_rpm f && never_stop f && (match s_last s with Some l => l =? r | None => false end)
         && stall_test (GetRpmAvg f) then
        if hi <=? r then TErr s1 1
        else
          let f' := SetRpmAvg f PostRaiseAvg in
          TOk (mkSt f' (s_last s) (Some t) (s_offset s + 1) cnt' alg' (s_pwm s) (s_mode s) (s_stopped s)) (r + 1)
      else TOk s1 r
    end
  end.

(* trySetManualPwm + setPwm *)
Definition apply_target (c : cfg) (s : st) (i : cin) (r : Z) : st * list Z * Z :=
  let f := s_fan s in
  let mode' := if has_mode f && ci_mode_ok i then ControlModePWM else s_mode s in
  match written (c_pm c) r with
  | FcVal w =>
      let skip := supports_pwm f i && ci_read_ok i && (w =? s_pwm s) in
      if skip then
        (mkSt f (Some r) (s_loopcur s) (s_offset s) (s_cnt s) (s_alg s) (s_pwm s) mode' (s_stopped s), [], 0)
      else
        let pwm' := if ci_write_ok i then resp c w else s_pwm s in
        (mkSt f (Some r) (s_loopcur s) (s_offset s) (s_cnt s) (s_alg s) pwm' mode' (s_stopped s), [w], 0)
  | _ => (* FindClosest on an empty slice: index out of range *)
      (mkSt f (s_last s) (s_loopcur s) (s_offset s) (s_cnt s) (s_alg s) (s_pwm s) mode' 3, [], 3)
  end.

Definition mk_obs (s : st) (err : Z) (ws : list Z) : obs :=
  mkObs err (s_last s) ws (s_pwm s) (s_mode s) (s_cnt s) (s_offset s) (GetMinPwm (s_fan s)) (GetRpmAvg (s_fan s)).

Definition step (c : cfg) (s : st) (e : hev) : st * obs :=
  match e with
  | Poll rpm =>
      let s' := set_fan s (poll_rpm (c_nrpm c) (s_fan s) rpm) in (s', mk_obs s' 0 [])
  | Ext m p =>
      let s' := mkSt (s_fan s) (s_last s) (s_loopcur s) (s_offset s) (s_cnt s) (s_alg s)
                     (match p with Some x => x | None => s_pwm s end)
                     (match m with Some x => x | None => s_mode s end) (s_stopped s) in
      (s', mk_obs s' 0 [])
  | Cycle i =>
      if negb (s_stopped s =? 0) then (s, mk_obs s 0 [])
      else
        match calc_target c s i with
        | TErr s1 code => let s' := set_stopped s1 code in (s', mk_obs s' code [])
        | TOk s1 r =>
            let '(s2, ws, err) := apply_target c s1 i r in (s2, mk_obs s2 err ws)
        end
  end.

Fixpoint run (c : cfg) (s : st) (h : list hev) : st * list obs :=
  match h with
  | [] => (s, [])
  | e :: r => let '(s1, o) := step c s e in
              let '(s2, os) := run c s1 r in (s2, o :: os)
  end.

Definition init_st (f : fan) (a : alg) (pwm mode : Z) : st :=
  mkSt f None None 0 0 a pwm mode 0.
