(* Model of internal/curves/{linear,functional,pid}.go and the registry lookups of
   curve.go.  Hand-written, line by line; tied to the code by the correspondence
   drivers `curves`, `curvesmono`, `curvesctrl` (harness/overlay/cmd/verifharness/drv_curves.go).

   A curve is a tree (function curves contain their members); the registry form
   is a graph of ids, evaluated with fuel; [geval_unfold] shows that on an
   acyclic graph with fuel >= number of curves the graph evaluator is the tree
   evaluator on the unfolding, so theorems by structural induction on trees cover
   nesting to any depth.

   Go panics are outcomes: [Crash] (index out of range on an empty step map or
   an empty delta member list, integer division by zero in average over no
   members, nil sensor / nil curve interface), never totalised. *)
From Coq Require Import ZArith Bool List Floats Lia.
From F2G Require Import Go.GoFloat Model.Util Model.ControlLoop.
Import ListNotations.
Open Scope Z_scope.

(* ---- Go int arithmetic that can be reached with a NaN-born -2^63: wraps ---- *)
Definition two64 : Z := 18446744073709551616.
Definition wrap64 (z : Z) : Z := (z + two63) mod two64 - two63.

(* float64(int) for every int64 (Go/GoFloat.i2f covers |z| < 2^63 only) *)
Definition i2f64 (z : Z) : f64 := if z =? - two63 then (-0x1p63)%float else i2f z.

(* ---- configuration ---- *)
Inductive fty := FSum | FDifference | FDelta | FMinimum | FMaximum | FAverage.

Record lincfg := mkLin {
  l_sensor : Z;
  l_min : Z; l_max : Z;
  l_steps : option (list (Z * f64));     (* nil map = None; key-sorted (the code sorts the keys) *)
}.

Record pidcfg := mkPidCfg {
  p_id : Z;                              (* identity of the curve object: owner of the PID state *)
  p_sensor : Z;
  p_set : f64; p_kp : f64; p_ki : f64; p_kd : f64;
}.

Inductive curve :=
| Lin (c : lincfg)
| PidC (c : pidcfg)
| Fn (ty : fty) (members : list curve).

(* ---- sensor environment ---- *)
Record sensor_st := mkSen {
  s_avg : f64;                           (* GetMovingAvg() *)
  s_val : option f64;                    (* GetValue(): None = error *)
}.
Definition env := list (Z * sensor_st).  (* missing id: GetSensor returns a nil interface *)

Fixpoint lookup_sensor (e : env) (id : Z) : option sensor_st :=
  match e with
  | [] => None
  | (k, s) :: r => if k =? id then Some s else lookup_sensor r id
  end.

(* ---- run-time state of the curve objects that have any ---- *)
Record pidrt := mkRt {
  r_pid : pidst;                         (* util.PidLoop *)
  r_last : Z;                            (* lastTime, ns on the (virtual) clock *)
  r_value : Z;                           (* PidSpeedCurve.Value *)
}.

Record rtstate := mkRts {
  rt_pids : list (Z * pidrt);
  rt_nan : bool;                         (* ghost: some PID loop value was NaN so far *)
}.

Fixpoint lookup_pid (l : list (Z * pidrt)) (id : Z) : option pidrt :=
  match l with
  | [] => None
  | (k, s) :: r => if k =? id then Some s else lookup_pid r id
  end.

Fixpoint set_pid (l : list (Z * pidrt)) (id : Z) (v : pidrt) : list (Z * pidrt) :=
  match l with
  | [] => [(id, v)]
  | (k, s) :: r => if k =? id then (k, v) :: r else (k, s) :: set_pid r id v
  end.

Definition init_rts : rtstate := mkRts [] false.

(* ---- outcomes of Evaluate() ---- *)
Inductive outcome :=
| Val (v : Z)          (* (v, nil) *)
| Err (v : Z)          (* (v, err) *)
| Crash                (* Go panic *)
| OutOfFuel.           (* graph evaluator only: unbounded recursion *)

(* ---- LinearSpeedCurve.Evaluate ---- *)
Definition eval_lin (c : lincfg) (avg : f64) : outcome :=
  match l_steps c with
  | Some steps =>
      match interpolate steps (PrimFloat.div avg 1000) with
      | IvVal y => Val (f2i (goRound y))
      | IvPanic => Crash
      end
  | None =>
      let minT := PrimFloat.mul (i2f64 (l_min c)) 1000 in
      let maxT := PrimFloat.mul (i2f64 (l_max c)) 1000 in
      if PrimFloat.leb maxT avg then Val 255
      else if PrimFloat.leb avg minT then Val 0
      else
        let ratio := PrimFloat.div (PrimFloat.sub avg minT) (PrimFloat.sub maxT minT) in
        Val (f2i (PrimFloat.mul ratio 255))
  end.

(* ---- PidSpeedCurve.Evaluate; [now] is the clock reading of this call ---- *)
Definition pid_term (c : pidcfg) (rt : pidrt) (measured : f64) (now : Z) : pidst * f64 :=
  pid_loop (r_pid rt) (p_set c) (PrimFloat.div measured 1000) (now - r_last rt).

Definition init_pidrt (c : pidcfg) : pidrt := mkRt (new_pid (p_kp c) (p_ki c) (p_kd c)) 0 0.

Definition pid_value (loopv : f64) : Z := f2i (PrimFloat.mul (Coerce loopv 0 1) 255).

Definition eval_pid (c : pidcfg) (s : sensor_st) (now : Z) (st : rtstate) : outcome * rtstate :=
  let rt := match lookup_pid (rt_pids st) (p_id c) with Some rt => rt | None => init_pidrt c end in
  match s_val s with
  | None => (Err (r_value rt), st)
  | Some measured =>
      let '(p', loopv) := pid_term c rt measured now in
      let v := pid_value loopv in
      (Val v, mkRts (set_pid (rt_pids st) (p_id c) (mkRt p' now v)) (rt_nan st || is_nan loopv))
  end.

(* ---- FunctionSpeedCurve.Evaluate: the aggregation switch ---- *)
Definition isum (values : list Z) : Z := fold_left (fun a v => wrap64 (a + v)) values 0.

Definition idiff (values : list Z) : Z :=
  match values with
  | [] => 0
  | v :: r => fold_left (fun a x => wrap64 (a - x)) r v
  end.

Definition fmin_fold (values : list Z) (start : f64) : f64 :=
  fold_left (fun m v => goMin m (i2f64 v)) values start.
Definition fmax_fold (values : list Z) (start : f64) : f64 :=
  fold_left (fun m v => goMax m (i2f64 v)) values start.

Definition agg (ty : fty) (values : list Z) : outcome :=
  match ty with
  | FSum => Val (f2i (goMin 255 (i2f64 (isum values))))
  | FDifference => Val (f2i (goMax 0 (i2f64 (idiff values))))
  | FDelta =>
      match values with
      | [] => Crash                                          (* values[0]: index out of range *)
      | v0 :: _ =>
          let dmax := fmax_fold values (i2f64 v0) in
          let dmin := fmin_fold values (i2f64 v0) in
          Val (f2i (PrimFloat.sub dmax dmin))
      end
  | FMinimum => Val (f2i (fmin_fold values 255))
  | FMaximum => Val (f2i (fmax_fold values 0))
  | FAverage =>
      match values with
      | [] => Crash                                          (* integer divide by zero *)
      | _ => Val (Z.quot (isum values) (Z.of_nat (length values)))
      end
  end.

(* result of evaluating the members in order *)
Inductive mres := MVals (vs : list Z) | MStop (o : outcome).

(* ---- the tree evaluator ---- *)
Fixpoint eval (c : curve) (e : env) (now : Z) (st : rtstate) : outcome * rtstate :=
  match c with
  | Lin cfg =>
      match lookup_sensor e (l_sensor cfg) with
      | None => (Crash, st)                                  (* nil sensor interface *)
      | Some s => (eval_lin cfg (s_avg s), st)
      end
  | PidC cfg =>
      match lookup_sensor e (p_sensor cfg) with
      | None => (Crash, st)
      | Some s => eval_pid cfg s now st
      end
  | Fn ty ms =>
      let fix members (ms : list curve) (st : rtstate) : mres * rtstate :=
        match ms with
        | [] => (MVals [], st)
        | m :: r =>
            match eval m e now st with
            | (Val v, st1) =>
                match members r st1 with
                | (MVals vs, st2) => (MVals (v :: vs), st2)
                | other => other
                end
            | (Err _, st1) => (MStop (Err 0), st1)           (* return 0, err *)
            | (o, st1) => (MStop o, st1)
            end
        end in
      match members ms st with
      | (MVals vs, st') => (agg ty vs, st')
      | (MStop o, st') => (o, st')
      end
  end.

(* the member loop as a top-level function (same text as the local fix) *)
Fixpoint eval_members (ms : list curve) (e : env) (now : Z) (st : rtstate) : mres * rtstate :=
  match ms with
  | [] => (MVals [], st)
  | m :: r =>
      match eval m e now st with
      | (Val v, st1) =>
          match eval_members r e now st1 with
          | (MVals vs, st2) => (MVals (v :: vs), st2)
          | other => other
          end
      | (Err _, st1) => (MStop (Err 0), st1)
      | (o, st1) => (MStop o, st1)
      end
  end.

Lemma eval_Fn ty ms e now st :
  eval (Fn ty ms) e now st =
  match eval_members ms e now st with
  | (MVals vs, st') => (agg ty vs, st')
  | (MStop o, st') => (o, st')
  end.
Proof.
  cbn [eval].
  match goal with |- match ?f ms st with _ => _ end = _ => set (F := f) end.
  assert (H : forall l s, F l s = eval_members l e now s).
  { induction l as [|m r IH]; intros s; [reflexivity|].
    cbn [eval_members]. subst F. cbn. fold (eval m e now s).
    destruct (eval m e now s) as [[v|v| |] s1]; try reflexivity.
    rewrite IH. reflexivity. }
  rewrite H. reflexivity.
Qed.

(* ---- induction principle for the nested type ---- *)
Section curve_ind2.
  Variable P : curve -> Prop.
  Hypothesis HL : forall c, P (Lin c).
  Hypothesis HP : forall c, P (PidC c).
  Hypothesis HF : forall ty ms, Forall P ms -> P (Fn ty ms).
  Fixpoint curve_ind2 (c : curve) : P c :=
    match c with
    | Lin cfg => HL cfg
    | PidC cfg => HP cfg
    | Fn ty ms =>
        HF ty ms ((fix go (l : list curve) : Forall P l :=
                     match l with
                     | [] => Forall_nil P
                     | x :: r => Forall_cons x (curve_ind2 x) (go r)
                     end) ms)
    end.
End curve_ind2.

(* ---- the registry form: a graph of ids ---- *)
Inductive gnode := GLin (c : lincfg) | GPid (c : pidcfg) | GFn (ty : fty) (members : list Z).
Definition graph := list (Z * gnode).

Fixpoint lookup_node (g : graph) (id : Z) : option gnode :=
  match g with
  | [] => None
  | (k, n) :: r => if k =? id then Some n else lookup_node r id
  end.

Fixpoint geval (fuel : nat) (g : graph) (id : Z) (e : env) (now : Z) (st : rtstate) : outcome * rtstate :=
  match fuel with
  | O => (OutOfFuel, st)
  | S fuel' =>
      match lookup_node g id with
      | None => (Crash, st)                                  (* nil SpeedCurve interface *)
      | Some (GLin cfg) =>
          match lookup_sensor e (l_sensor cfg) with
          | None => (Crash, st)
          | Some s => (eval_lin cfg (s_avg s), st)
          end
      | Some (GPid cfg) =>
          match lookup_sensor e (p_sensor cfg) with
          | None => (Crash, st)
          | Some s => eval_pid cfg s now st
          end
      | Some (GFn ty ids) =>
          let fix members (ids : list Z) (st : rtstate) : mres * rtstate :=
            match ids with
            | [] => (MVals [], st)
            | m :: r =>
                match geval fuel' g m e now st with
                | (Val v, st1) =>
                    match members r st1 with
                    | (MVals vs, st2) => (MVals (v :: vs), st2)
                    | other => other
                    end
                | (Err _, st1) => (MStop (Err 0), st1)
                | (o, st1) => (MStop o, st1)
                end
            end in
          match members ids st with
          | (MVals vs, st') => (agg ty vs, st')
          | (MStop o, st') => (o, st')
          end
      end
  end.

(* the tree a curve id stands for *)
Fixpoint unfold (fuel : nat) (g : graph) (id : Z) : option curve :=
  match fuel with
  | O => None
  | S fuel' =>
      match lookup_node g id with
      | None => None
      | Some (GLin cfg) => Some (Lin cfg)
      | Some (GPid cfg) => Some (PidC cfg)
      | Some (GFn ty ids) =>
          let fix go (ids : list Z) : option (list curve) :=
            match ids with
            | [] => Some []
            | m :: r =>
                match unfold fuel' g m, go r with
                | Some t, Some ts => Some (t :: ts)
                | _, _ => None
                end
            end in
          match go ids with
          | Some ts => Some (Fn ty ts)
          | None => None
          end
      end
  end.

Fixpoint unfold_list (fuel : nat) (g : graph) (ids : list Z) : option (list curve) :=
  match ids with
  | [] => Some []
  | m :: r =>
      match unfold fuel g m, unfold_list fuel g r with
      | Some t, Some ts => Some (t :: ts)
      | _, _ => None
      end
  end.

Fixpoint geval_members (fuel : nat) (g : graph) (ids : list Z) (e : env) (now : Z) (st : rtstate) : mres * rtstate :=
  match ids with
  | [] => (MVals [], st)
  | m :: r =>
      match geval fuel g m e now st with
      | (Val v, st1) =>
          match geval_members fuel g r e now st1 with
          | (MVals vs, st2) => (MVals (v :: vs), st2)
          | other => other
          end
      | (Err _, st1) => (MStop (Err 0), st1)
      | (o, st1) => (MStop o, st1)
      end
  end.

Lemma geval_S fuel g id e now st :
  geval (S fuel) g id e now st =
  match lookup_node g id with
  | None => (Crash, st)
  | Some (GLin cfg) =>
      match lookup_sensor e (l_sensor cfg) with
      | None => (Crash, st)
      | Some s => (eval_lin cfg (s_avg s), st)
      end
  | Some (GPid cfg) =>
      match lookup_sensor e (p_sensor cfg) with
      | None => (Crash, st)
      | Some s => eval_pid cfg s now st
      end
  | Some (GFn ty ids) =>
      match geval_members fuel g ids e now st with
      | (MVals vs, st') => (agg ty vs, st')
      | (MStop o, st') => (o, st')
      end
  end.
Proof.
  cbn [geval]. destruct (lookup_node g id) as [[c|c|ty ids]|]; try reflexivity.
  match goal with |- match ?f ids st with _ => _ end = _ => set (F := f) end.
  assert (H : forall l s, F l s = geval_members fuel g l e now s).
  { induction l as [|m r IH]; intros s; [reflexivity|].
    cbn [geval_members]. subst F. cbn beta iota.
    destruct (geval fuel g m e now s) as [[v|v| |] s1]; try reflexivity.
    rewrite IH. reflexivity. }
  rewrite H. reflexivity.
Qed.

Lemma unfold_S fuel g id :
  unfold (S fuel) g id =
  match lookup_node g id with
  | None => None
  | Some (GLin cfg) => Some (Lin cfg)
  | Some (GPid cfg) => Some (PidC cfg)
  | Some (GFn ty ids) =>
      match unfold_list fuel g ids with
      | Some ts => Some (Fn ty ts)
      | None => None
      end
  end.
Proof.
  cbn [unfold]. destruct (lookup_node g id) as [[c|c|ty ids]|]; try reflexivity.
  match goal with |- match ?f ids with _ => _ end = _ => set (F := f) end.
  assert (H : forall l, F l = unfold_list fuel g l).
  { induction l as [|m r IH]; [reflexivity|].
    cbn [unfold_list]. subst F. cbn beta iota. rewrite IH. reflexivity. }
  rewrite H. reflexivity.
Qed.

(* whenever the unfolding exists, the registry evaluator IS the tree evaluator on it *)
Lemma geval_unfold fuel : forall g id t e now st,
  unfold fuel g id = Some t -> geval fuel g id e now st = eval t e now st.
Proof.
  induction fuel as [|fuel IH]; intros g id t e now st H; [discriminate|].
  rewrite unfold_S in H. rewrite geval_S.
  destruct (lookup_node g id) as [[c|c|ty ids]|]; try discriminate.
  - inversion H; subst. reflexivity.
  - inversion H; subst. reflexivity.
  - destruct (unfold_list fuel g ids) as [ts|] eqn:U; [|discriminate].
    inversion H; subst t. rewrite eval_Fn.
    assert (M : forall ids ts st, unfold_list fuel g ids = Some ts ->
                geval_members fuel g ids e now st = eval_members ts e now st).
    { clear U H ids ts st. induction ids as [|m r IHr]; intros ts st U.
      - inversion U; subst. reflexivity.
      - cbn [unfold_list] in U.
        destruct (unfold fuel g m) as [tm|] eqn:Um; [|discriminate].
        destruct (unfold_list fuel g r) as [tr|] eqn:Ur; [|discriminate].
        inversion U; subst ts. cbn [geval_members eval_members].
        rewrite (IH g m tm e now st Um).
        destruct (eval tm e now st) as [[v|v| |] s1]; try reflexivity.
        rewrite (IHr tr s1 eq_refl). reflexivity. }
    rewrite (M ids ts st U). reflexivity.
Qed.

(* acyclic: a rank strictly decreasing along member edges, all referenced ids registered *)
Definition acyclic (g : graph) (rank : Z -> nat) : Prop :=
  forall id ty ids, lookup_node g id = Some (GFn ty ids) ->
    forall m, In m ids -> lookup_node g m <> None /\ (rank m < rank id)%nat.

Lemma unfold_exists g rank : acyclic g rank ->
  forall fuel id, lookup_node g id <> None -> (rank id < fuel)%nat -> exists t, unfold fuel g id = Some t.
Proof.
  intros A. induction fuel as [|fuel IH]; intros id Hin Hr; [lia|].
  rewrite unfold_S. destruct (lookup_node g id) as [[c|c|ty ids]|] eqn:L; try congruence; eauto.
  pose proof (A id ty ids L) as Am.
  assert (E : exists ts, unfold_list fuel g ids = Some ts).
  { clear L Hin. induction ids as [|m r IHr]; [eexists; reflexivity|].
    cbn [unfold_list].
    destruct (Am m (or_introl eq_refl)) as [Hm Hrk].
    destruct (IH m Hm ltac:(lia)) as [tm ->].
    destruct IHr as [tr ->]; [intros; apply Am; right; assumption|]. eauto. }
  destruct E as [ts ->]. eauto.
Qed.

(* the lemma of DESIGN.md C06: acyclic graph, rank < #curves <= fuel: registry evaluation =
   tree evaluation of the unfolding (which exists) *)
Theorem geval_tree g rank fuel id e now st :
  acyclic g rank -> lookup_node g id <> None ->
  (forall i, (rank i < length g)%nat) -> (length g <= fuel)%nat ->
  exists t, unfold fuel g id = Some t /\ geval fuel g id e now st = eval t e now st.
Proof.
  intros A Hin Hr Hf.
  destruct (unfold_exists g rank A fuel id Hin) as [t U]; [specialize (Hr id); lia|].
  exists t. split; [exact U|]. now apply geval_unfold.
Qed.

(* ---- a run: successive Evaluate() calls on one root, CurrentValue() after each ---- *)
Record runst := mkRun { ru_rt : rtstate; ru_now : Z; ru_cur : Z }.

Definition init_run : runst := mkRun init_rts 0 0.

(* CurrentValue() of the root after the call: SetValue only on success *)
Definition run_step (ev : rtstate -> Z -> outcome * rtstate) (s : runst) (dt : Z) : outcome * runst :=
  let now := ru_now s + dt in
  let '(o, rt') := ev (ru_rt s) now in
  let cur := match o with Val v => v | _ => ru_cur s end in
  (o, mkRun rt' now cur).
