(* Labelled transition system of the fan2go process (C03, process part):
     internal/backend.go RunDaemon: the outer run.Group (fan controllers, sensor
       monitors, signal actor), its interrupt functions (cancel, as found also
       close(sig)), the panic(err) sites, os.Exit after g.Run;
     internal/controller/controller.go Run: Capture -> Wait -> LoadOrInit ->
       Attach/Map -> inner run.Group (control actor: FirstSecond -> Ticking ->
       Restoring -> stopped; RPM monitor), context cancellation observed only at
       the tick select.
   A schedule is a list of events of ANY length: the environment (scheduler, OS
   signals, driver verdicts, outcome of every start-up step and control cycle)
   is the schedule.  Events that are not enabled are no-ops, so every list is a
   schedule.  oklog/run: the first actor to return triggers all interrupt
   functions; Run returns when all actors have returned. *)
From Coq Require Import ZArith Bool List Lia.
From F2G Require Import gen.Consts Model.Restore.
Import ListNotations.
Open Scope Z_scope.

Inductive phase := PInit | PWait | PLoad | PAttach | PFirstSecond | PTicking | PStopped | PReturned.

Record ctrl := mkCtrl {
  c_backend : backend;
  c_exists : bool;              (* pwmN_enable present *)
  c_has_rpm : bool;             (* the RPM monitor actor exists *)
  c_phase : phase;
  c_orig : dev;                 (* captured original state *)
  c_dev : dev;                  (* the device now *)
  c_started : bool;             (* regulation began: the inner run group was started *)
  c_touched : bool;             (* fan2go has written to the fan (init sequence, PWM-map sweep, control cycle) *)
  c_rpm_done : bool;            (* RPM monitor returned *)
  c_restore : option (rplan * rres);   (* the restorePwmEnabled call that ended this controller *)
  c_err : bool;                 (* Run returned an error *)
}.

Inductive status := Running | Exited (code : Z) | Crashed (site : Z).   (* 2 = send on closed channel, 4 = panic(err) *)

Record proc := mkProc {
  ctrls : list ctrl;
  mons : list bool;             (* sensor monitors: returned? *)
  cancelled : bool;             (* the shared context *)
  sig_buf : bool;               (* one-element buffer of the signal channel *)
  sig_closed : bool;
  sig_done : bool;              (* signal actor returned *)
  first_done : bool;            (* some actor of the outer group returned: interrupts ran *)
  first_err : bool;
  st : status;
}.

(* environment choices of one start-up / shutdown step of a controller *)
Record adv := mkAdv {
  a_fail : bool;                (* this step ends with an error return *)
  a_init : bool;                (* LoadOrInit: no stored data, initialisation needed *)
  a_skip : bool;                (* hwmon: minPwm and maxPwm configured, placeholder data instead of the initialisation sequence *)
  a_sweep : bool;               (* Attach/Map: the PWM map is computed by sweeping the fan *)
  a_dev : dev;                  (* device state the step leaves behind when it touches the fan *)
  a_rp : rverdict; a_rm : rverdict;   (* capture reads *)
  a_min : Z;                    (* fan.GetMinPwm() at capture *)
  a_plan : rplan;               (* driver verdicts if this step runs restorePwmEnabled *)
}.

(* one control cycle (UpdateFanSpeed): where it leaves the device, whether it returned an error *)
Record tick := mkTick { t_dev : dev; t_err : bool; t_plan : rplan }.

Inductive event :=
| Signal                        (* the OS delivers SIGTERM / SIGINT *)
| SigRecv                       (* the signal actor's select fires (signal buffered, or context cancelled) *)
| Advance (i : nat) (a : adv)   (* controller i takes its next step; in Ticking: the select observes ctx.Done *)
| Tick (i : nat) (t : tick)     (* the select of controller i's control actor picks tick.C *)
| RpmDone (i : nat)             (* RPM monitor of i observes ctx.Done and returns *)
| MonDone (j : nat)             (* sensor monitor j observes ctx.Done and returns *)
| MonitorErr (j : nat)          (* sensor monitor j returns an error *)
| Finish.                       (* all actors returned: g.Run returns, os.Exit *)

(* ---- controller-level steps ---- *)
Definition sup (c : ctrl) : bool := mode_supported (c_backend c) (c_exists c).

Definition set_phase (c : ctrl) (p : phase) : ctrl :=
  mkCtrl (c_backend c) (c_exists c) (c_has_rpm c) p (c_orig c) (c_dev c) (c_started c) (c_touched c) (c_rpm_done c) (c_restore c) (c_err c).
Definition return_err (c : ctrl) : ctrl :=
  mkCtrl (c_backend c) (c_exists c) (c_has_rpm c) PReturned (c_orig c) (c_dev c) (c_started c) (c_touched c) (c_rpm_done c) (c_restore c) true.
Definition touch (c : ctrl) (d : dev) : ctrl :=
  mkCtrl (c_backend c) (c_exists c) (c_has_rpm c) (c_phase c) (c_orig c) d (c_started c) true (c_rpm_done c) (c_restore c) (c_err c).

(* restorePwmEnabled on controller c, then the phase the caller moves to *)
Definition do_restore (D : Defects) (c : ctrl) (p : rplan) (ph : phase) (err : bool) : ctrl :=
  let r := restore D (c_backend c) (c_exists c) (c_orig c) p (c_dev c) in
  mkCtrl (c_backend c) (c_exists c) (c_has_rpm c) ph (c_orig c) (r_dev r) (c_started c) true (c_rpm_done c) (Some (p, r)) err.

(* the control actor returned: Run returns once the RPM monitor (if any) has returned too *)
Definition after_control (c : ctrl) : phase :=
  if c_has_rpm c && negb (c_rpm_done c) then PStopped else PReturned.

Definition ctrl_adv (D : Defects) (canc : bool) (c : ctrl) (a : adv) : ctrl :=
  match c_phase c with
  | PInit =>
      if a_fail a then return_err c                      (* persistence.Init failed: nothing touched *)
      else mkCtrl (c_backend c) (c_exists c) (c_has_rpm c) PWait
                  (capture (sup c) (a_min a) (a_rp a) (a_rm a) (c_dev c))
                  (c_dev c) false (c_touched c) (c_rpm_done c) (c_restore c) (c_err c)
  | PWait => set_phase c PLoad
  | PLoad =>
      if a_init a then
        match c_backend c with
        | BHwmon =>
            if a_skip a then
              (if a_fail a then return_err c else set_phase c PAttach)   (* placeholder data, SaveFanPwmData: nothing touched *)
            else
              let c1 := touch c (a_dev a) in             (* RunInitializationSequence *)
              if a_fail a then do_restore D c1 (a_plan a) PReturned true
              else set_phase c1 PAttach
        | _ => if a_fail a then return_err c else set_phase c PAttach     (* SaveFanPwmData *)
        end
      else set_phase c PAttach
  | PAttach =>
      if a_fail a then                                   (* LoadFanPwmData / AttachFanRpmCurveData failed *)
        if c_touched c && negb (d23_no_restore_after_init D)
        then do_restore D c (a_plan a) PReturned true    (* the initialisation sequence has touched the fan *)
        else return_err c
      else
        let c1 := if a_sweep a then touch c (a_dev a) else c in
        mkCtrl (c_backend c1) (c_exists c1) (c_has_rpm c1) PFirstSecond (c_orig c1) (c_dev c1) true
               (c_touched c1) (c_rpm_done c1) (c_restore c1) (c_err c1)
  | PFirstSecond => set_phase c PTicking                 (* time.Sleep(1s); ctx is not looked at *)
  | PTicking =>
      if canc then do_restore D c (a_plan a) (after_control c) false   (* case <-ctx.Done() *)
      else c
  | PStopped | PReturned => c
  end.

Definition ctrl_tick (D : Defects) (c : ctrl) (t : tick) : ctrl :=
  match c_phase c with
  | PTicking =>
      let c1 := touch c (t_dev t) in
      if t_err t then do_restore D c1 (t_plan t) (after_control c1) false
      else c1
  | _ => c
  end.

Definition ctrl_rpm_done (canc : bool) (c : ctrl) : ctrl :=
  if c_started c && c_has_rpm c && canc && negb (c_rpm_done c) then
    mkCtrl (c_backend c) (c_exists c) (c_has_rpm c)
           (match c_phase c with PStopped => PReturned | p => p end)
           (c_orig c) (c_dev c) (c_started c) (c_touched c) true (c_restore c) (c_err c)
  else c.

(* ---- process-level step ---- *)
Fixpoint upd {A} (i : nat) (f : A -> A) (l : list A) : list A :=
  match l, i with
  | [], _ => []
  | x :: r, O => f x :: r
  | x :: r, S n => x :: upd n f r
  end.

Definition is_returned (c : ctrl) : bool := match c_phase c with PReturned => true | _ => false end.

Definition set_st (s : proc) (x : status) : proc :=
  mkProc (ctrls s) (mons s) (cancelled s) (sig_buf s) (sig_closed s) (sig_done s) (first_done s) (first_err s) x.
Definition set_ctrls (s : proc) (l : list ctrl) : proc :=
  mkProc l (mons s) (cancelled s) (sig_buf s) (sig_closed s) (sig_done s) (first_done s) (first_err s) (st s).

(* an actor of the outer group returned (backend.go:118-150, oklog/run Group.Run) *)
Definition actor_ret (D : Defects) (err : bool) (s : proc) : proc :=
  if err && d4_panic_on_err D then set_st s (Crashed 4)
  else if first_done s then s
  else mkProc (ctrls s) (mons s) true (sig_buf s) (d2_close_sig D) (sig_done s) true err (st s).

Definition newly_returned (l l' : list ctrl) (i : nat) : option bool :=
  match nth_error l i, nth_error l' i with
  | Some c, Some c' => if negb (is_returned c) && is_returned c' then Some (c_err c') else None
  | _, _ => None
  end.

Definition with_ctrl (D : Defects) (s : proc) (i : nat) (f : ctrl -> ctrl) : proc :=
  let l' := upd i f (ctrls s) in
  let s' := set_ctrls s l' in
  match newly_returned (ctrls s) l' i with
  | Some err => actor_ret D err s'
  | None => s'
  end.

Definition all_returned (s : proc) : bool :=
  forallb is_returned (ctrls s) && forallb (fun b => b) (mons s) && sig_done s.

Definition step (D : Defects) (s : proc) (e : event) : proc :=
  match st s with
  | Running =>
    match e with
    | Signal =>
        if sig_closed s then set_st s (Crashed 2)      (* os/signal: send on closed channel *)
        else mkProc (ctrls s) (mons s) (cancelled s) true (sig_closed s) (sig_done s) (first_done s) (first_err s) (st s)
    | SigRecv =>
        if negb (sig_done s) && (sig_buf s || cancelled s) then
          actor_ret D false (mkProc (ctrls s) (mons s) (cancelled s) false (sig_closed s) true (first_done s) (first_err s) (st s))
        else s
    | Advance i a => with_ctrl D s i (fun c => ctrl_adv D (cancelled s) c a)
    | Tick i t => with_ctrl D s i (fun c => ctrl_tick D c t)
    | RpmDone i => with_ctrl D s i (ctrl_rpm_done (cancelled s))
    | MonDone j =>
        if cancelled s then
          mkProc (ctrls s) (upd j (fun _ => true) (mons s)) (cancelled s) (sig_buf s) (sig_closed s) (sig_done s) (first_done s) (first_err s) (st s)
        else s
    | MonitorErr j =>
        match nth_error (mons s) j with
        | Some false =>
            actor_ret D true (mkProc (ctrls s) (upd j (fun _ => true) (mons s)) (cancelled s) (sig_buf s) (sig_closed s) (sig_done s) (first_done s) (first_err s) (st s))
        | _ => s
        end
    | Finish =>
        if first_done s && all_returned s then set_st s (Exited (if first_err s then 1 else 0)) else s
    end
  | _ => s
  end.

Definition exec (D : Defects) (s : proc) (sched : list event) : proc := fold_left (step D) sched s.

(* configuration: the fans (backend, pwmN_enable present, RPM sensor, device state at start) and the number of sensors *)
Definition fan_cfg := (backend * bool * bool * dev)%type.
Definition init_ctrl (f : fan_cfg) : ctrl :=
  let '(b, ex, rpm, d) := f in mkCtrl b ex rpm PInit d d false false false None false.
Definition init (fans : list fan_cfg) (nmons : nat) : proc :=
  mkProc (map init_ctrl fans) (repeat false nmons) false false false false false false Running.

Definition terminated (s : proc) : Prop := exists code, st s = Exited code.

(* D22 hypothesis, per event *)
Definition ev_detectable (e : event) : bool :=
  match e with
  | Advance _ a => negb (undetectableb (a_plan a))
  | Tick _ t => negb (undetectableb (t_plan t))
  | _ => true
  end.
