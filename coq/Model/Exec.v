(* Model of internal/util/file.go:CheckFilePermissionsForExecution,
   internal/util/exec.go:SafeCmdExecution, the config-file rule of
   internal/configuration/validation.go:validateConfig and the command wrappers
   of internal/fans/cmd.go and internal/sensors/cmd.go  (properties C18, C19).

   Hand-written; tied to the code by the correspondence drivers `perm` and
   `exec` (harness/overlay/cmd/verifharness/drv_perm.go, drv_exec.go) and, for
   the wait delay and the shape of the error classification, by the
   regenerated gen/ExecConsts.v.

   External behaviour is explicit input: the file system is a finite map from
   path ids to nodes (what stat(2)/readlink(2) report), a command is an abstract
   [behaviour] (what the started process does, in milliseconds), os/exec's
   [Cmd.Output] is modelled by [cmd_output] (kill at the deadline; Wait blocks on
   the stdout pipe until every holder closed it unless a wait delay is set). *)
From Coq Require Import ZArith Bool List Lia.
From F2G Require Import Go.GoFloat.
Import ListNotations.
Open Scope Z_scope.

(* ------------------------------------------------------------------ *)
(* 1. the permission decision (file.go:31-48)                          *)
(* ------------------------------------------------------------------ *)
Inductive perm_err :=
| ErrSymlink      (* filepath.EvalSymlinks failed: missing component or > 255 links *)
| ErrNotFound     (* os.Stat: not exist *)
| ErrStat         (* os.Stat: any other error (ELOOP, ENOTDIR, EACCES after a concurrent change) *)
| ErrOwner        (* "owner is not root" *)
| ErrGroupWrite   (* "group is not root but has write permission" *)
| ErrOtherWrite.  (* "others have write permission" *)

(* mode & 0o020, mode & 0o002 *)
Definition group_write (mode : Z) : bool := negb (Z.land mode 16 =? 0).
Definition other_write (mode : Z) : bool := negb (Z.land mode 2 =? 0).

Definition decide (uid gid mode : Z) : option perm_err :=
  if negb (uid =? 0) then Some ErrOwner
  else if negb (gid =? 0) && group_write mode then Some ErrGroupWrite
  else if other_write mode then Some ErrOtherWrite
  else None.

Definition allowed (uid gid mode : Z) : bool :=
  match decide uid gid mode with None => true | Some _ => false end.

(* ------------------------------------------------------------------ *)
(* 2. files, symlinks and the two resolution procedures               *)
(* ------------------------------------------------------------------ *)
Inductive node :=
| NFile (uid gid mode : Z)     (* st_uid, st_gid, st_mode & 07777 *)
| NLink (target : Z).

(* latest binding wins; [None] = removed *)
Definition fs := list (Z * option node).

Fixpoint lookup (s : fs) (p : Z) : option node :=
  match s with
  | [] => None
  | (q, n) :: r => if q =? p then n else lookup r p
  end.

Definition bind (s : fs) (p : Z) (n : option node) : fs := (p, n) :: s.

(* filepath.EvalSymlinks: follows at most 255 links ("too many links" beyond) *)
Inductive resolved := RFile (p uid gid mode : Z) | RMissing | RTooMany.

Fixpoint follow (fuel : nat) (s : fs) (p : Z) : resolved :=
  match lookup s p with
  | None => RMissing
  | Some (NFile u g m) => RFile p u g m
  | Some (NLink t) => match fuel with O => RTooMany | S f => follow f s t end
  end.

Definition go_maxlinks : nat := 255.       (* path/filepath/symlink.go: linksWalked > 255 *)
Definition kernel_maxlinks : nat := 40.    (* Linux MAXSYMLINKS: stat(2)/execve(2) give ELOOP *)

Definition eval_symlinks (s : fs) (p : Z) : resolved := follow go_maxlinks s p.
Definition kstat (s : fs) (p : Z) : resolved := follow kernel_maxlinks s p.

(* ------------------------------------------------------------------ *)
(* 3. CheckFilePermissionsForExecution                                 *)
(* ------------------------------------------------------------------ *)
Inductive check_result := CkOk | CkErr (e : perm_err) | CkPanic.

(* [s1] is the file system when EvalSymlinks runs, [s2] when os.Stat runs (they
   differ only when another process changes the tree in between).
   Repaired code (D13b): a Stat error that is not "not exist" is returned.
   The pinned code dereferenced the nil FileInfo there (CkPanic). *)
Definition check_file2 (s1 s2 : fs) (p : Z) : check_result :=
  match eval_symlinks s1 p with
  | RMissing | RTooMany => CkErr ErrSymlink
  | RFile f _ _ _ =>
      match kstat s2 f with
      | RMissing => CkErr ErrNotFound
      | RTooMany => CkErr ErrStat
      | RFile _ u g m =>
          match decide u g m with
          | None => CkOk
          | Some e => CkErr e
          end
      end
  end.

Definition check_file (s : fs) (p : Z) : check_result := check_file2 s s p.

(* ------------------------------------------------------------------ *)
(* 4. one external-command call on a file system (C18 view)           *)
(* ------------------------------------------------------------------ *)
(* root may execute a file iff some execute bit is set (0o111) *)
Definition has_exec (mode : Z) : bool := negb (Z.land mode 73 =? 0).

Inductive call_result :=
| Ran (f uid gid mode : Z)     (* the command was started: file f with these attributes *)
| Refused (e : perm_err)       (* error from the permission check, nothing started *)
| StartFailed                  (* check passed, exec.Cmd could not start it: error, nothing started *)
| Panicked.

(* exec.CommandContext is given the ORIGINAL path; LookPath/execve resolve it
   in the kernel (<= 40 links) *)
Definition exec_call (s : fs) (p : Z) : call_result :=
  match check_file s p with
  | CkPanic => Panicked
  | CkErr e => Refused e
  | CkOk =>
      match kstat s p with
      | RFile f u g m => if has_exec m then Ran f u g m else StartFailed
      | _ => StartFailed
      end
  end.

(* A bare command name (no path separator): os/exec looks it up in $PATH, never in
   the working directory.  Repaired code (D25): SafeCmdExecution resolves such a
   name with exec.LookPath first and checks and starts THAT file; when nothing is
   found the name is still handed to the check (working directory) and the start
   then fails in os/exec ("executable file not found in $PATH").  The pinned code
   checked [l] (working directory) and started [in_path] unchecked. *)
Definition exec_bare (s : fs) (l : Z) (in_path : option Z) : call_result :=
  match in_path with
  | Some q => exec_call s q
  | None =>
      match check_file s l with
      | CkOk => StartFailed
      | CkErr e => Refused e
      | CkPanic => Panicked
      end
  end.

(* the configuration-file rule, validation.go:17-35.  The three validators are
   abstracted to their verdicts; [n_cmd_sensors]/[n_cmd_fans] count the entries
   with a cmd block (containsCmdSensors / containsCmdFan). *)
Record cfg_class := mkCfg {
  early_err : bool;       (* validateSensors or validateCurves returned an error *)
  fans_err : bool;        (* validateFans returned an error *)
  n_cmd_sensors : Z;
  n_cmd_fans : Z;
}.
Definition has_cmd (c : cfg_class) : bool := (0 <? n_cmd_sensors c) || (0 <? n_cmd_fans c).

Inductive validate_result := VOk | VErrOther | VErrPerm (e : perm_err) | VPanic.

Definition validate (c : cfg_class) (s : fs) (path : Z) : validate_result :=
  if early_err c then VErrOther
  else if has_cmd c then
    match check_file s path with
    | CkOk => if fans_err c then VErrOther else VOk
    | CkErr e => VErrPerm e
    | CkPanic => VPanic
    end
  else if fans_err c then VErrOther else VOk.

(* ---- arbitrary operation sequences ---- *)
Inductive op :=
| OpCreate (p uid gid mode : Z)       (* write a fresh executable script *)
| OpChmod (p mode : Z)                (* chmod(2): follows symlinks *)
| OpChown (p uid gid : Z)             (* chown(2): follows symlinks *)
| OpSymlink (l target : Z)            (* (re)create l -> target *)
| OpRemove (p : Z)                    (* unlink(2): the name itself *)
| OpExec (api : Z) (p : Z)            (* SafeCmdExecution / CmdSensor.GetValue / CmdFan.{GetPwm,SetPwm,GetRpm} /
                                         api 5: initializeSensors with a cmd sensor no curve uses *)
| OpValidate (c : cfg_class) (p : Z)  (* configuration.Validate(p) *)
| OpExecBare (api : Z) (l : Z) (in_path : option Z)
                                      (* a call whose executable is a bare command name: [l] is what the name denotes
                                         in the working directory, [in_path] the first executable file of that name in
                                         $PATH (what exec.LookPath finds), if any *)
| OpExecDuring (api : Z) (p : Z) (during : op).
                                      (* a call during which, WHILE the started command runs, another process
                                         performs [during]; the command then ends with a failure status *)

Fixpoint apply_op (s : fs) (o : op) : fs :=
  match o with
  | OpExecDuring _ p d => match exec_call s p with Ran _ _ _ _ => apply_op s d | _ => s end
  | OpCreate p u g m => bind s p (Some (NFile u g m))
  | OpChmod p m => match kstat s p with RFile f u g _ => bind s f (Some (NFile u g m)) | _ => s end
  | OpChown p u g => match kstat s p with RFile f _ _ m => bind s f (Some (NFile u g m)) | _ => s end
  | OpSymlink l t => bind s l (Some (NLink t))
  | OpRemove p => bind s p None
  | OpExec _ _ | OpValidate _ _ | OpExecBare _ _ _ => s
  end.

Inductive event :=
| EvFs                               (* a file-system operation of the environment *)
| EvCall (r : call_result)
| EvValidate (r : validate_result).

Definition event_of (s : fs) (o : op) : event :=
  match o with
  | OpExec _ p | OpExecDuring _ p _ => EvCall (exec_call s p)   (* one check, at most one start, per call *)
  | OpExecBare _ l q => EvCall (exec_bare s l q)
  | OpValidate c p => EvValidate (validate c s p)
  | _ => EvFs
  end.

Fixpoint run (s : fs) (ops : list op) : list event :=
  match ops with
  | [] => []
  | o :: r => event_of s o :: run (apply_op s o) r
  end.

(* the file system as it is when the k-th operation starts *)
Fixpoint state_at (s : fs) (ops : list op) (k : nat) : fs :=
  match k, ops with
  | S k', o :: r => state_at (apply_op s o) r k'
  | _, _ => s
  end.

(* ------------------------------------------------------------------ *)
(* 5. process behaviours and os/exec (C19 view)                        *)
(* ------------------------------------------------------------------ *)
(* text = run-length encoded bytes (byte, count); strings.Trim(s, "\n") *)
Definition text := list (Z * Z).

Fixpoint drop_nl (t : text) : text :=
  match t with
  | (b, n) :: r => if (b =? 10) || (n <=? 0) then drop_nl r else t
  | [] => []
  end.
Definition trim_nl (t : text) : text := rev (drop_nl (rev (drop_nl t))).

Inductive time := At (ms : Z) | Never.
Definition tleb (a b : time) : bool :=
  match a, b with
  | At x, At y => x <=? y
  | At _, Never => true
  | Never, At _ => false
  | Never, Never => true
  end.
Definition tmax (a b : time) : time :=
  match a, b with At x, At y => At (Z.max x y) | _, _ => Never end.

Inductive start_fault :=
| SfNoExecBit     (* no execute bit: LookPath -> *exec.Error{EACCES} *)
| SfBadFormat     (* execve: ENOEXEC -> *fs.PathError *)
| SfVanished      (* removed between the check and the start: ENOENT *)
| SfNoInterp      (* #! interpreter missing: execve ENOENT *)
| SfIsDir         (* a directory *)
| SfTextBusy.     (* open for writing by another process: execve ETXTBSY *)

Inductive exit_kind := ExitCode (c : Z) | KilledBy (sig : Z).

Record proc := mkProc {
  p_exit : exit_kind;        (* how it ends when left alone *)
  p_exit_at : time;          (* when (Never = does not end by itself) *)
  p_out : text;              (* everything written to stdout before the pipe is closed *)
  p_held_until : time;       (* descendants that inherited the stdout/stderr pipes keep
                                them open until then (At 0 = none; Never = for ever);
                                the process's own descriptors close when it ends *)
}.

Inductive behaviour := CannotStart (f : start_fault) | Starts (pr : proc).

Definition out_of (b : behaviour) : text :=
  match b with Starts pr => p_out pr | CannotStart _ => [] end.

Inductive go_err :=
| EPerm (e : perm_err)       (* fmt.Errorf("cannot execute ...") *)
| EStart (f : start_fault)   (* *exec.Error / *fs.PathError — NOT an *exec.ExitError *)
| EExit (k : exit_kind)      (* *exec.ExitError *)
| EWaitDelay                 (* exec.ErrWaitDelay — NOT an *exec.ExitError *)
| EDeadline.                 (* context.DeadlineExceeded *)

(* cmd.Output() under CommandContext(ctx with timeout T) and cmd.WaitDelay = d
   (d = 0 is Go's "wait for the pipes without bound").  Returns the error (None
   = nil) and the time Output returns.
   - the context kills the child (SIGKILL) at T if it has not ended by then;
   - Wait then waits for the stdout/stderr-copying goroutines, i.e. for every
     holder of the pipes (a killed child's descendants are NOT killed); with d > 0 it stops waiting d after (child exit | deadline),
     whichever came first, closes the pipe and reports ErrWaitDelay unless the
     child's own status is already an error. *)
Definition cmd_output (T d : Z) (b : behaviour) : option go_err * time :=
  match b with
  | CannotStart f => (Some (EStart f), At 0)
  | Starts pr =>
      let killed := negb (tleb (p_exit_at pr) (At T)) in
      let te := if killed then T else match p_exit_at pr with At t => t | Never => T end in
      let status := if killed then KilledBy 9 else p_exit pr in
      let perr := match status with ExitCode 0 => None | k => Some (EExit k) end in
      let tp := tmax (At te) (p_held_until pr) in
      if d =? 0 then (perr, tp)
      else if tleb tp (At (te + d)) then (perr, tp)
      else (match perr with Some e => Some e | None => Some EWaitDelay end, At (te + d))
  end.

Inductive outcome := Ok (t : text) | Err (e : go_err) | Crash.
Record result := mkRes { r_out : outcome; r_time : time }.

(* SafeCmdExecution (repaired, D13): permission check; Output with wait delay;
   deadline branch returns an error even when Output returned nil; the error is
   classified with errors.As, so a non-ExitError is returned, not asserted. *)
Definition safe_cmd (T d : Z) (ck : check_result) (b : behaviour) : result :=
  match ck with
  | CkPanic => mkRes Crash (At 0)
  | CkErr e => mkRes (Err (EPerm e)) (At 0)
  | CkOk =>
      let '(err, tau) := cmd_output T d b in
      if tleb (At T) tau then                       (* ctx.Err() == context.DeadlineExceeded *)
        mkRes (Err (match err with Some e => e | None => EDeadline end)) tau
      else
        match err with
        | Some e => mkRes (Err e) tau
        | None => mkRes (Ok (trim_nl (out_of b))) tau
        end
  end.

(* ---- the callers: sensors/cmd.go GetValue, fans/cmd.go GetPwm/GetRpm/SetPwm ---- *)
Inductive cmd_value := CvFloat (f : f64) | CvInt (z : Z) | CvUnit | CvErr | CvCrash.

Section Callers.
  (* strconv.ParseFloat on the trimmed output: not modelled, an oracle *)
  Variable parse : text -> option f64.

  Definition sensor_get_value (T d : Z) ck b : cmd_value * time :=
    let r := safe_cmd T d ck b in
    (match r_out r with
     | Ok t => match parse t with
               | Some f => if is_finite f then CvFloat f else CvErr   (* NaN / +-Inf rejected (D9 repair) *)
               | None => CvErr
               end
     | Err _ => CvErr
     | Crash => CvCrash
     end, r_time r).

  (* GetPwm / GetRpm: int(ParseFloat(output)) *)
  Definition fan_get_int (T d : Z) ck b : cmd_value * time :=
    let r := safe_cmd T d ck b in
    (match r_out r with
     | Ok t => match parse t with Some f => CvInt (f2i f) | None => CvErr end
     | Err _ => CvErr
     | Crash => CvCrash
     end, r_time r).

  Definition fan_set_pwm (T d : Z) ck b : cmd_value * time :=
    let r := safe_cmd T d ck b in
    (match r_out r with
     | Ok _ => CvUnit
     | Err _ => CvErr
     | Crash => CvCrash
     end, r_time r).
End Callers.
