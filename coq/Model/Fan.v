(* Model of internal/fans: limits, setters with [force], RPM-average semantics
   per backend, ComputePwmBoundaries and AttachFanRpmCurveData. *)
From Coq Require Import ZArith Bool List Floats Lia.
From F2G Require Import Go.GoFloat gen.Consts Model.Util.
Import ListNotations.
Open Scope Z_scope.

Inductive kind := HwMon | FileK | CmdK.

Record fan := mkFan {
  fk : kind;
  never_stop : bool;
  cfg_min : option Z; cfg_start : option Z; cfg_max : option Z;   (* Config.MinPwm / StartPwm / MaxPwm *)
  cur_min : option Z; cur_start : option Z; cur_max : option Z;   (* HwMonFan.MinPwm / StartPwm / MaxPwm *)
  rpm_avg : f64;           (* hwmon: RpmMovingAvg *)
  rpm_last : Z;            (* file/cmd: fan.Rpm *)
  has_rpm : bool;          (* Supports(FeatureRpmSensor) *)
  has_mode : bool;         (* Supports(FeatureControlMode) *)
}.

Definition set_cur_min f v := mkFan (fk f) (never_stop f) (cfg_min f) (cfg_start f) (cfg_max f) v (cur_start f) (cur_max f) (rpm_avg f) (rpm_last f) (has_rpm f) (has_mode f).
Definition set_cur_start f v := mkFan (fk f) (never_stop f) (cfg_min f) (cfg_start f) (cfg_max f) (cur_min f) v (cur_max f) (rpm_avg f) (rpm_last f) (has_rpm f) (has_mode f).
Definition set_cur_max f v := mkFan (fk f) (never_stop f) (cfg_min f) (cfg_start f) (cfg_max f) (cur_min f) (cur_start f) v (rpm_avg f) (rpm_last f) (has_rpm f) (has_mode f).
Definition set_rpm_avg f v := mkFan (fk f) (never_stop f) (cfg_min f) (cfg_start f) (cfg_max f) (cur_min f) (cur_start f) (cur_max f) v (rpm_last f) (has_rpm f) (has_mode f).
Definition set_rpm_last f v := mkFan (fk f) (never_stop f) (cfg_min f) (cfg_start f) (cfg_max f) (cur_min f) (cur_start f) (cur_max f) (rpm_avg f) v (has_rpm f) (has_mode f).

Definition odflt (o : option Z) (d : Z) : Z := match o with Some x => x | None => d end.
Definition is_some {A} (o : option A) : bool := match o with Some _ => true | None => false end.

Definition GetMinPwm (f : fan) : Z :=
  match fk f with
  | HwMon => if never_stop f then odflt (cur_min f) MinPwmValue else MinPwmValue
  | _ => MinPwmValue
  end.
Definition GetStartPwm (f : fan) : Z :=
  match fk f with HwMon => odflt (cur_start f) MaxPwmValue | _ => 1 end.
Definition GetMaxPwm (f : fan) : Z :=
  match fk f with HwMon => odflt (cur_max f) MaxPwmValue | _ => MaxPwmValue end.

Definition SetMinPwm (f : fan) (v : Z) (force : bool) : fan :=
  match fk f with
  | HwMon => if negb (is_some (cfg_min f)) || force then set_cur_min f (Some v) else f
  | _ => f
  end.
Definition SetStartPwm (f : fan) (v : Z) (force : bool) : fan :=
  match fk f with
  | HwMon => if negb (is_some (cfg_start f)) || force then set_cur_start f (Some v) else f
  | _ => f
  end.
Definition SetMaxPwm (f : fan) (v : Z) (force : bool) : fan :=
  match fk f with
  | HwMon => if negb (is_some (cfg_max f)) || force then set_cur_max f (Some v) else f
  | _ => f
  end.

Definition GetRpmAvg (f : fan) : f64 :=
  match fk f with HwMon => rpm_avg f | _ => i2f (rpm_last f) end.
Definition SetRpmAvg (f : fan) (x : f64) : fan :=
  match fk f with HwMon => set_rpm_avg f x | _ => set_rpm_last f (f2i x) end.

(* controller.measureRpm: one RPM poll (None = the read failed: the code carries on with rpm = 0) *)
Definition poll_rpm (n : Z) (f : fan) (rpm : option Z) : fan :=
  let f1 := match fk f, rpm with
            | HwMon, _ => f
            | _, Some r => set_rpm_last f r          (* GetRpm stores fan.Rpm on success *)
            | _, None => f
            end in
  let x := odflt rpm 0 in
  SetRpmAvg f1 (upd_avg (GetRpmAvg f1) n (i2f x)).

(* ---- fans.ComputePwmBoundaries over the key-sorted RPM curve ---- *)
Fixpoint bounds_loop (data : list (Z * f64)) (maxRpm startPwm maxPwm : Z) : Z * Z :=
  match data with
  | [] => (startPwm, maxPwm)
  | (pwm, rpm) :: r =>
      let avgRpm := f2i rpm in
      let '(maxRpm', maxPwm') := if maxRpm <? avgRpm then (avgRpm, pwm) else (maxRpm, maxPwm) in
      let startPwm' := if (0 <? avgRpm) && (pwm <? startPwm) then pwm else startPwm in
      bounds_loop r maxRpm' startPwm' maxPwm'
  end.

Definition ComputePwmBoundaries (f : fan) (data : list (Z * f64)) : Z * Z :=
  let userStart := GetStartPwm f in
  let '(s, m) := bounds_loop data 0 255 255 in
  ((if userStart <? 255 then userStart else s), m).

(* HwMonFan.AttachFanRpmCurveData (None = os.ErrInvalid, fan unchanged) *)
Definition attach (f : fan) (data : list (Z * f64)) : option fan :=
  match data with
  | [] => None
  | _ =>
      let '(s, m) := ComputePwmBoundaries f data in
      let f1 := SetStartPwm f s false in
      let f2 := SetMaxPwm f1 m false in
      Some (SetMinPwm f2 s false)
  end.
