(* Error-flow model of the running closed loop under a fault plan (C09):
     one cycle = sensor monitor tick (monitor.go updateSensor)
               + RPM monitor tick (controller.go measureRpm, fans with an RPM sensor)
               + control tick (controller.go UpdateFanSpeed; on error: restorePwmEnabled, stop)
   for every fan backend x sensor backend x curve shape.  The model is
   value-abstract: it tracks which operations fail, what is returned, what
   panics and what the restore path does - not the PWM numbers (those are the
   business of C01/C04/C10).  Panics are explicit outcomes. *)
From Coq Require Import ZArith Bool List Lia.
From F2G Require Import gen.Consts Model.Restore.
Import ListNotations.
Open Scope Z_scope.

Inductive skind := SHwmon | SFile | SCmd.
Inductive ftype := FSum | FDiff | FDelta | FMin | FMax | FAvg.
Inductive curve := CLinear | CPid | CFunc (t : ftype) (ms : list curve).

(* fault kinds of the property text: error, garbage, timeout, cannot-start
   (the last two exist for command backends; on file backends they act as an error) *)
Inductive fault := FNone | FErr | FGarbage | FTimeout | FCannotStart.

Record combo := mkCombo {
  cb_fan : backend;
  cb_sensor : skind;
  cb_curve : curve;
  cb_enable_exists : bool;    (* hwmon: pwmN_enable present *)
  cb_has_rpm : bool;          (* Supports(FeatureRpmSensor): the RPM monitor actor exists *)
  cb_never_stop : bool;
  cb_map_nonempty : bool;     (* pwmValuesWithDistinctTarget is not empty *)
}.

(* the fault regime of one cycle: every operation on the component during the cycle is affected *)
Record cyc := mkCyc {
  cy_sensor : fault;          (* sensor reads (monitor and PID curve) *)
  cy_rpm : fault;             (* RPM reads *)
  cy_pwm_read : fault;        (* PWM reads ... *)
  cy_pwm_from : Z;            (* ... of UpdateFanSpeed with index >= this fail (0 = all; measureRpm's fail iff 0) *)
  cy_pwm_write : fault;       (* PWM writes; FGarbage = silently ignored *)
  cy_mode_write : fault;      (* pwmN_enable writes; FGarbage = silently ignored *)
  cy_stall : bool;            (* numeric part: this cycle finds a never-stop fan stalled at max PWM *)
}.

Inductive opres := OpOk | OpErr | OpCrash.

Definition is_cmd_fan (cb : combo) : bool := match cb_fan cb with BCmd => true | _ => false end.
Definition is_cmd_sensor (cb : combo) : bool := match cb_sensor cb with SCmd => true | _ => false end.

(* util.SafeCmdExecution / util.ReadIntFromFile under a fault *)
Definition op_result (D : Defects) (cmd : bool) (f : fault) : opres :=
  match f with
  | FNone => OpOk
  | FCannotStart => if cmd && d13_exec_assert D then OpCrash else OpErr
  | _ => OpErr
  end.

Definition w_of_fault (f : fault) : wverdict :=
  match f with FNone => WOk | FGarbage => WIgnored | _ => WRefused end.

(* curves: linear reads the moving average (no I/O); PID reads the sensor itself;
   function curves evaluate their members in order and return the first error *)
(* evaluate the members in order; the first error (or panic) is returned *)
Definition first_fail (ev : curve -> opres) : list curve -> opres :=
  fix go (l : list curve) : opres :=
    match l with
    | [] => OpOk
    | m :: r => match ev m with
                | OpOk => go r
                | x => x
                end
    end.

Definition empty_members_crash (t : ftype) : bool :=
  match t with
  | FDelta => true      (* values[0]: index out of range *)
  | FAvg => true        (* total / len(curves): division by zero *)
  | _ => false
  end.

Fixpoint eval_curve (D : Defects) (cmd : bool) (f : fault) (c : curve) : opres :=
  match c with
  | CLinear => OpOk
  | CPid => op_result D cmd f
  | CFunc t ms =>
      match first_fail (eval_curve D cmd f) ms with
      | OpOk => match ms with
                | [] => if empty_members_crash t then OpCrash else OpOk
                | _ => OpOk
                end
      | x => x
      end
  end.

Fixpoint curve_valid (c : curve) : bool :=
  match c with
  | CFunc _ ms => negb (match ms with [] => true | _ => false end) && forallb curve_valid ms
  | _ => true
  end.

Definition valid_config (cb : combo) : Prop := curve_valid (cb_curve cb) = true /\ cb_map_nonempty cb = true.

(* loop state *)
Record lstate := mkL {
  l_dev : dev;            (* device; pwm = -1 when the model does not know the value *)
  l_last : bool;          (* lastSetPwm <> nil *)
}.

Inductive outcome :=
| Regulating (s : lstate)
| FanStopped (k : Z) (p : rplan) (r : rres)      (* control error in cycle k: restorePwmEnabled ran, then the controller stopped *)
| Crash (k : Z) (site : Z).                      (* 5 = ui.Fatal on curve error, 13 = exec type assertion, 12 = empty PWM map, 11 = empty function curve *)

Definition pwm_read_fails (y : cyc) (i : Z) : bool :=
  match cy_pwm_read y with FNone => false | _ => cy_pwm_from y <=? i end.

(* the restore operations of a cycle run under that cycle's regime *)
Definition plan_of (y : cyc) : rplan :=
  mkPlan (w_of_fault (cy_pwm_write y)) (w_of_fault (cy_mode_write y)) ROk (w_of_fault (cy_pwm_write y)).

Inductive cres := CCont (s : lstate) | CErr | CCrash (site : Z).

Definition cmd_crash (D : Defects) (cmd : bool) (f : fault) : bool :=
  match op_result D cmd f with OpCrash => true | _ => false end.

(* one UpdateFanSpeed *)
Definition update_fan_speed (D : Defects) (cb : combo) (s : lstate) (y : cyc) : cres :=
  let cmdf := is_cmd_fan cb in
  (* calculateTargetPwm: first cycle reads the current PWM *)
  let first :=
    if l_last s then OpOk
    else if cmdf then
      (if pwm_read_fails y 0 then op_result D true (cy_pwm_read y) else OpOk)
    else
      (* hwmon/file: Supports probes the file (read 0); getPwm probes again (read 1); GetPwm is read 2 *)
      (if pwm_read_fails y 0 then OpOk
       else if pwm_read_fails y 1 then OpOk
       else if pwm_read_fails y 2 then OpErr else OpOk) in
  match first with
  | OpCrash => CCrash 13
  | OpErr => CErr
  | OpOk =>
    match eval_curve D (is_cmd_sensor cb) (cy_sensor y) (cb_curve cb) with
    | OpCrash => CCrash (match cy_sensor y with FCannotStart => 13 | _ => 11 end)
    | OpErr => if d5_fatal_on_curve D then CCrash 5 else CErr
    | OpOk =>
      (* ensureNoThirdPartyIsMessingWithUs / setPwm read the PWM of a cmd fan through the command *)
      if cmdf && pwm_read_fails y 0 && cmd_crash D true (cy_pwm_read y) then CCrash 13
      else if cb_has_rpm cb && cb_never_stop cb && l_last s && cy_stall y then CErr   (* ErrFanStalledAtMaxPwm *)
      else
        (* trySetManualPwm: errors ignored *)
        let '(d1, _, _) := try_manual D (cb_fan cb) (cb_enable_exists cb)
                             (w_of_fault (cy_mode_write y)) ROk (w_of_fault (cy_mode_write y)) ROk (l_dev s) in
        (* setPwm *)
        if negb (cb_map_nonempty cb) then CCrash 12
        else if cmdf && cmd_crash D true (cy_pwm_write y) then CCrash 13
        else CCont (mkL (mkDev (mode d1) (-1)) true)
    end
  end.

(* one closed-loop cycle *)
Definition cycle (D : Defects) (cb : combo) (orig : dev) (k : Z) (s : lstate) (y : cyc) : outcome :=
  (* sensor monitor *)
  if cmd_crash D (is_cmd_sensor cb) (cy_sensor y) then Crash k 13
  (* RPM monitor: getPwm + GetRpm, errors are warnings *)
  else if cb_has_rpm cb && is_cmd_fan cb
          && ((pwm_read_fails y 0 && cmd_crash D true (cy_pwm_read y)) || cmd_crash D true (cy_rpm y))
  then Crash k 13
  else
    match update_fan_speed D cb s y with
    | CCont s' => Regulating s'
    | CCrash site => Crash k site
    | CErr =>
        let p := plan_of y in
        if is_cmd_fan cb && cmd_crash D true (cy_pwm_write y) then Crash k 13
        else FanStopped k p (restore D (cb_fan cb) (cb_enable_exists cb) orig p (l_dev s))
    end.

Fixpoint run_from (D : Defects) (cb : combo) (orig : dev) (k : Z) (s : lstate) (plan : list cyc) : outcome :=
  match plan with
  | [] => Regulating s
  | y :: rest =>
      match cycle D cb orig k s y with
      | Regulating s' => run_from D cb orig (k + 1) s' rest
      | o => o
      end
  end.

Definition run (D : Defects) (cb : combo) (orig d0 : dev) (plan : list cyc) : outcome :=
  run_from D cb orig 0 (mkL d0 false) plan.

(* faults that must not stop regulation: RPM reads, PWM writes, mode writes,
   PWM reads after the first control cycle; no sensor fault, no stall verdict *)
Definition benign_cycle (first : bool) (y : cyc) : bool :=
  match cy_sensor y with FNone => true | _ => false end
  && negb (cy_stall y)
  && (negb first || match cy_pwm_read y with FNone => true | _ => false end).

Fixpoint benign_from (first : bool) (plan : list cyc) : bool :=
  match plan with
  | [] => true
  | y :: r => benign_cycle first y && benign_from false r
  end.
Definition benign (plan : list cyc) : bool := benign_from true plan.
