(* Per-operation fault plans for the closed loop (C09): the same cycle as
   Model/Faults.v, but every single fallible operation (file read/write or
   command execution) is an indexed step, and a plan gives, per cycle, the fault
   of the k-th operation of that cycle (k counted over ALL operations of the
   cycle in program order: sensor monitor read, RPM monitor probe/read/RPM read,
   then inside UpdateFanSpeed the Supports() probes, the first PWM read of getPwm,
   the sensor reads of the curve, the probe and read of
   ensureNoThirdPartyIsMessingWithUs, the mode write and its read-back (and the
   fallback mode write), the probes/read of setPwm, the PWM write, and - after a
   control error - the writes and the read-back of restorePwmEnabled).
   Written as a state-and-error monad over (plan, next index, trace) so that the
   theorems are compositional. *)
From Coq Require Import ZArith Bool List Lia.
From F2G Require Import gen.Consts Model.Restore Model.Faults.
Import ListNotations.
Open Scope Z_scope.

Inductive okind :=
| KSensorMon | KRpmProbe | KRpmPwmRead | KRpmRead
| KFirstProbe | KFirstProbe2 | KFirstRead
| KSensorCurve
| KThirdProbe | KThirdRead
| KModeWrite | KModeReadBack
| KSetProbe | KSetProbe2 | KSetRead | KPwmWrite
| KRestoreWrite | KRestoreMode | KRestoreReadBack | KRestoreLast.

Record octx := mkO { oc_plan : list fault; oc_i : nat; oc_trace : list (okind * fault) }.

Inductive res (A : Type) := ROk_ (a : A) | RErr_ | RCrash_ (site : Z).
Arguments ROk_ {A} a. Arguments RErr_ {A}. Arguments RCrash_ {A} site.

Definition M (A : Type) := octx -> res A * octx.
Definition ret {A} (a : A) : M A := fun x => (ROk_ a, x).
Definition fail {A} : M A := fun x => (RErr_, x).
Definition crash {A} (site : Z) : M A := fun x => (RCrash_ site, x).
Definition bind {A B} (m : M A) (f : A -> M B) : M B :=
  fun x => match m x with
           | (ROk_ a, x') => f a x'
           | (RErr_, x') => (RErr_, x')
           | (RCrash_ s, x') => (RCrash_ s, x')
           end.
Notation "'do' a <- m ; f" := (bind m (fun a => f)) (at level 200, a name, m at level 100, f at level 200).

(* the next operation: which fault hits it *)
Definition next (k : okind) : M fault :=
  fun x => let f := nth (oc_i x) (oc_plan x) FNone in
           (ROk_ f, mkO (oc_plan x) (S (oc_i x)) (oc_trace x ++ [(k, f)])).

(* a read or command whose failure is an error VALUE for the caller: true = it worked *)
Definition attempt (D : Defects) (cmd : bool) (k : okind) : M bool :=
  do f <- next k;
  match op_result D cmd f with
  | OpOk => ret true
  | OpErr => ret false
  | OpCrash => crash 13
  end.

Definition r_of_fault (f : fault) : rverdict :=
  match f with FNone => ROk | FGarbage => RGarbage | _ => RFails end.

(* Supports(FeaturePwmSensor): hwmon/file probe the file, a cmd fan answers statically *)
Definition probe (D : Defects) (cb : combo) (k : okind) : M bool :=
  if is_cmd_fan cb then ret true else attempt D false k.

(* HwMonFan.SetPwmEnabled step by step: (device, error) *)
Definition set_mode_ops (D : Defects) (cb : combo) (kw kr : okind) (d : dev) (value : Z) : M (dev * bool) :=
  do fw <- next kw;
  let mv := w_of_fault fw in
  match mv with
  | WRefused => ret (d, true)
  | _ =>
      do fr <- next kr;
      let '(d1, e, _) := hw_set_mode D mv (r_of_fault fr) d value in ret (d1, e)
  end.

Definition try_manual_ops (D : Defects) (cb : combo) (d : dev) : M dev :=
  if negb (mode_supported (cb_fan cb) (cb_enable_exists cb)) then ret d
  else
    do r1 <- set_mode_ops D cb KModeWrite KModeReadBack d ControlModePWM;
    let '(d1, e1) := r1 in
    if e1 then
      do r2 <- set_mode_ops D cb KModeWrite KModeReadBack d1 ControlModeDisabled;
      ret (fst r2)
    else ret d1.

(* curve evaluation: one sensor operation per PID leaf, in order; the first error is returned *)
Fixpoint eval_ops (D : Defects) (cmd : bool) (c : curve) : M unit :=
  match c with
  | CLinear => ret tt
  | CPid => do ok <- attempt D cmd KSensorCurve; if ok then ret tt else fail
  | CFunc t ms =>
      let fix members (l : list curve) : M unit :=
        match l with
        | [] => ret tt
        | m :: r => do _ <- eval_ops D cmd m; members r
        end in
      do _ <- members ms;
      match ms with
      | [] => if empty_members_crash t then crash 11 else ret tt
      | _ => ret tt
      end
  end.

(* controller.getPwm in the places where its error matters or not *)
Definition update_ops (D : Defects) (cb : combo) (s : lstate) (stall : bool) : M lstate :=
  let cmdf := is_cmd_fan cb in
  (* calculateTargetPwm: the first cycle reads the current PWM *)
  do _ <- (if l_last s then ret tt
           else
             do p1 <- probe D cb KFirstProbe;
             if p1 then
               do p2 <- probe D cb KFirstProbe2;
               if p2 then (do ok <- attempt D cmdf KFirstRead; if ok then ret tt else fail)
               else ret tt
             else ret tt);
  (* curve *)
  do _ <- (fun x => match eval_ops D (is_cmd_sensor cb) (cb_curve cb) x with
                    | (RErr_, x') => if d5_fatal_on_curve D then (RCrash_ 5, x') else (RErr_, x')
                    | y => y
                    end);
  (* ensureNoThirdPartyIsMessingWithUs: errors ignored *)
  do _ <- (do p <- probe D cb KThirdProbe;
           if p && l_last s then (do _ <- attempt D cmdf KThirdRead; ret tt) else ret tt);
  if cb_has_rpm cb && cb_never_stop cb && l_last s && stall then fail          (* ErrFanStalledAtMaxPwm *)
  else
    do d1 <- try_manual_ops D cb (l_dev s);
    if negb (cb_map_nonempty cb) then crash 12
    else
      (* setPwm: probe, getPwm (probe, read), write unless already there (value-dependent: the plan
         entry of the write is consumed only if the write happens; it is the last operation anyway) *)
      do p <- probe D cb KSetProbe;
      do _ <- (if p then
                 do p2 <- probe D cb KSetProbe2;
                 if p2 then (do _ <- attempt D cmdf KSetRead; ret tt) else ret tt
               else ret tt);
      ret (mkL (mkDev (mode d1) (-1)) true).

(* restorePwmEnabled under the plan: which verdict each of its operations gets *)
Definition restore_ops (D : Defects) (cb : combo) (orig : dev) (d : dev) : M (rplan * rres) :=
  do f1 <- next KRestoreWrite;
  let v1 := w_of_fault f1 in
  if mode_supported (cb_fan cb) (cb_enable_exists cb) && negb (mode orig =? ControlModePWM) then
    do fm <- next KRestoreMode;
    let mv := w_of_fault fm in
    do rb <- (match mv with WRefused => ret ROk | _ => do fr <- next KRestoreReadBack; ret (r_of_fault fr) end);
    let '(_, e, _) := hw_set_mode D mv rb d (mode orig) in
    do v2 <- (if e then do f2 <- next KRestoreLast; ret (w_of_fault f2) else ret WOk);
    let p := mkPlan v1 mv rb v2 in
    ret (p, restore D (cb_fan cb) (cb_enable_exists cb) orig p d)
  else
    do f2 <- next KRestoreLast;
    let p := mkPlan v1 WOk ROk (w_of_fault f2) in
    ret (p, restore D (cb_fan cb) (cb_enable_exists cb) orig p d).

(* one closed-loop cycle: monitor ticks, control tick, restore on error *)
Definition monitors_ops (D : Defects) (cb : combo) : M unit :=
  do _ <- attempt D (is_cmd_sensor cb) KSensorMon;
  if cb_has_rpm cb then
    do p <- probe D cb KRpmProbe;
    do _ <- (if p then (do _ <- attempt D (is_cmd_fan cb) KRpmPwmRead; ret tt) else ret tt);
    do _ <- attempt D (is_cmd_fan cb) KRpmRead;
    ret tt
  else ret tt.

Record ocyc := mkOC { oy_ops : list fault; oy_stall : bool }.

Definition cycle_ops (D : Defects) (cb : combo) (orig : dev) (k : Z) (s : lstate) (y : ocyc)
  : outcome * list (okind * fault) :=
  let x0 := mkO (oy_ops y) 0 [] in
  match monitors_ops D cb x0 with
  | (RCrash_ site, x1) => (Crash k site, oc_trace x1)
  | (RErr_, x1) => (Crash k 0, oc_trace x1)          (* unreachable: monitor errors are warnings *)
  | (ROk_ _, x1) =>
      match update_ops D cb s (oy_stall y) x1 with
      | (ROk_ s', x2) => (Regulating s', oc_trace x2)
      | (RCrash_ site, x2) => (Crash k site, oc_trace x2)
      | (RErr_, x2) =>
          match restore_ops D cb orig (l_dev s) x2 with
          | (ROk_ (p, r), x3) => (FanStopped k p r, oc_trace x3)
          | (RCrash_ site, x3) => (Crash k site, oc_trace x3)
          | (RErr_, x3) => (Crash k 0, oc_trace x3)  (* unreachable *)
          end
      end
  end.

Fixpoint run_ops_from (D : Defects) (cb : combo) (orig : dev) (k : Z) (s : lstate) (plan : list ocyc)
  : outcome * list (list (okind * fault)) :=
  match plan with
  | [] => (Regulating s, [])
  | y :: rest =>
      match cycle_ops D cb orig k s y with
      | (Regulating s', t) => let '(o, ts) := run_ops_from D cb orig (k + 1) s' rest in (o, t :: ts)
      | (o, t) => (o, [t])
      end
  end.

Definition run_ops (D : Defects) (cb : combo) (orig d0 : dev) (plan : list ocyc) :=
  run_ops_from D cb orig 0 (mkL d0 false) plan.

(* operations whose failure must not stop regulation *)
Definition allowed (k : okind) : bool :=
  match k with
  | KFirstRead | KSensorCurve => false
  | _ => true
  end.
Definition benign_entry (e : okind * fault) : bool :=
  match snd e with FNone => true | _ => allowed (fst e) end.
