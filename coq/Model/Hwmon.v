(* Model of hwmon discovery and binding (C17):
     internal/hwmon/hwmon.go   GetChips (skip rule), GetFans, GetTempSensors,
                               UpdateFanConfigFromHwMonControllers, setFanConfigPaths
     internal/backend.go       InitializeObjects, initializeSensors, initializeFans
     cmd/sensor/sensor.go      getSensor (the `fan2go sensor` CLI binding, modelled only)
   Hand-written, line by line; tied to the code by the correspondence driver
   `hwmon` (harness/overlay/cmd/verifharness/drv_hwmon.go, coq/Drv/Hwmon.v).

   Go's regexp is not modelled: [valid pat] says whether "(?i)"+pat compiles and
   [matches pat platform] whether it matches the controller's platform string;
   both are Section variables (oracles), instantiated per case by the driver with
   the table the real regexp package produced.

   Go runtime errors are explicit: [Crash] (nil-map-entry dereference).  Errors
   returned to the caller are [Err e]; every constructor of [berr] stands for a
   message that contains the configured entry's ID (see [names_entry]). *)
From Coq Require Import ZArith Bool List Lia.
Import ListNotations.
Open Scope Z_scope.

(* ---- sysfs paths, canonically: (chip directory id, file kind, number) ---- *)
Definition K_FAN_INPUT : Z := 1.   (* <sysfs>/fan<N>_input   *)
Definition K_PWM : Z := 2.         (* <sysfs>/pwm<N>         *)
Definition K_PWM_ENABLE : Z := 3.  (* <sysfs>/pwm<N>_enable  *)
Definition K_TEMP_INPUT : Z := 4.  (* <sysfs>/temp<N>_input  *)
Definition spath : Type := (Z * Z * Z)%type.
Definition fan_paths : Type := (spath * spath * spath)%type.   (* RpmInputPath, PwmPath, PwmEnablePath *)

(* ---- what libsensors reports for one chip, in feature order ---- *)
Record raw_chip := mkRaw {
  rc_id : Z;                       (* identity of chip.Path (the sysfs directory) *)
  rc_platform : Z;                 (* identity of the Platform string GetChips computes *)
  rc_fans : list (Z * bool);       (* fan features: (N of "fanN", has fanN_input) *)
  rc_temps : list (Z * bool);      (* temp features: (N of "tempN", has tempN_input) *)
}.

(* fans.HwMonFan as built by GetFans: Config.HwMon.{Index,RpmChannel,PwmChannel} *)
Record hfan := mkHFan { hf_index : Z; hf_rpm : Z; hf_pwm : Z }.

(* hwmon.HwMonController *)
Record chip := mkChip {
  ch_id : Z;
  ch_platform : Z;
  ch_fans : list hfan;             (* Fans slice, in order *)
  ch_temps : list (Z * Z);         (* Sensors map: ordinal -> N of the tempN_input it reads *)
}.

(* GetFans: Index = len(result)+1 at the time of the append, channel parsed from the name *)
Fixpoint get_fans_from (n : Z) (feats : list (Z * bool)) : list hfan :=
  match feats with
  | [] => []
  | (ch, has_input) :: r =>
      if has_input then mkHFan (n + 1) ch ch :: get_fans_from (n + 1) r
      else get_fans_from n r
  end.
Definition get_fans (feats : list (Z * bool)) : list hfan := get_fans_from 0 feats.

(* GetTempSensors: currentOutputIndex++ for every temp feature with an input *)
Fixpoint get_temps_from (n : Z) (feats : list (Z * bool)) : list (Z * Z) :=
  match feats with
  | [] => []
  | (ti, has_input) :: r =>
      if has_input then (n + 1, ti) :: get_temps_from (n + 1) r
      else get_temps_from n r
  end.
Definition get_temps (feats : list (Z * bool)) : list (Z * Z) := get_temps_from 0 feats.

Definition is_nil {A} (l : list A) : bool := match l with [] => true | _ => false end.

(* GetChips: chips without fans and without temperature inputs are skipped *)
Fixpoint get_chips (raws : list raw_chip) : list chip :=
  match raws with
  | [] => []
  | rc :: r =>
      let fs := get_fans (rc_fans rc) in
      let ts := get_temps (rc_temps rc) in
      if is_nil fs && is_nil ts then get_chips r
      else mkChip (rc_id rc) (rc_platform rc) fs ts :: get_chips r
  end.

Fixpoint lookup (k : Z) (m : list (Z * Z)) : option Z :=
  match m with
  | [] => None
  | (k', v) :: r => if k' =? k then Some v else lookup k r
  end.

(* ---- outcomes ---- *)
Inductive berr :=
| ERegex        (* "failed to match platform regex of <ID> ..." *)
| ENoFan        (* "no hwmon fan matched fan config: &{ID:<ID> ...}" *)
| ENoPlatform   (* "couldn't find hwmon device with platform '<p>' for sensor: <ID> ..." *)
| ENoIndex.     (* "couldn't find temp input with index <i> on hwmon device ... for sensor: <ID>" *)
Definition names_entry (e : berr) : bool := true.   (* every message above contains the entry's ID *)
Definition berr_code (e : berr) : Z :=
  match e with ERegex => 1 | ENoFan => 2 | ENoPlatform => 3 | ENoIndex => 4 end.

Inductive result (A : Type) := Ok (a : A) | Err (e : berr) | Crash.
Arguments Ok {A} a. Arguments Err {A} e. Arguments Crash {A}.

(* ---- selectors (configuration.HwMonFanConfig / HwMonSensorConfig as configured) ---- *)
Record fan_sel := mkFanSel { fs_pat : Z; fs_index : Z; fs_rpm : Z; fs_pwm : Z }.
Record sensor_sel := mkSensorSel { ss_pat : Z; ss_index : Z }.

(* config.HwMon after UpdateFanConfigFromHwMonControllers *)
Record fan_cfg := mkFanCfg { fc_sysfs : Z; fc_index : Z; fc_rpm : Z; fc_pwm : Z }.

(* setFanConfigPaths *)
Definition set_paths (c : fan_cfg) : fan_paths :=
  ((fc_sysfs c, K_FAN_INPUT, fc_rpm c), (fc_sysfs c, K_PWM, fc_pwm c), (fc_sysfs c, K_PWM_ENABLE, fc_pwm c)).

(* outcome of binding a list of entries in order: all bound | the entry at position i failed | runtime error *)
Inductive seq_result (A : Type) := SOk (a : A) | SErr (e : berr) (i : Z) | SCrash.
Arguments SOk {A} a. Arguments SErr {A} e i. Arguments SCrash {A}.

Section Binding.
Variable valid : Z -> bool.           (* regexp.Compile("(?i)"+pattern) succeeds *)
Variable matches : Z -> Z -> bool.    (* regexp.MatchString("(?i)"+pattern, platform) *)

(* the two `continue` filters of the inner loop *)
Definition selectedb (s : fan_sel) (f : hfan) : bool :=
  negb ((0 <? fs_index s) && negb (hf_index f =? fs_index s))
  && negb ((0 <? fs_rpm s) && negb (hf_rpm f =? fs_rpm s)).

Fixpoint find_fan (s : fan_sel) (fans : list hfan) : option hfan :=
  match fans with
  | [] => None
  | f :: r => if selectedb s f then Some f else find_fan s r
  end.

Definition cfg_of (c : chip) (f : hfan) (s : fan_sel) : fan_cfg :=
  mkFanCfg (ch_id c) (hf_index f) (hf_rpm f) (if fs_pwm s =? 0 then hf_pwm f else fs_pwm s).

(* UpdateFanConfigFromHwMonControllers *)
Fixpoint bind_fan (chips : list chip) (s : fan_sel) : result fan_cfg :=
  match chips with
  | [] => Err ENoFan
  | c :: r =>
      if negb (valid (fs_pat s)) then Err ERegex
      else if negb (matches (fs_pat s) (ch_platform c)) then bind_fan r s
      else match find_fan s (ch_fans c) with
           | Some f => Ok (cfg_of c f s)
           | None => bind_fan r s
           end
  end.

(* initializeSensors, the `for _, c := range controllers` loop.  [acc] carries
   (found, config.HwMon.TempInput): the loop has no break, so the last matching
   controller wins.  d17 = true is the code before the repair (a missing index
   dereferences the nil map entry: runtime error); d17 = false is the repaired
   code (comma-ok lookup, error naming sensor and index). *)
Fixpoint sensor_loop (d17 : bool) (chips : list chip) (s : sensor_sel) (acc : option spath) : result spath :=
  match chips with
  | [] => match acc with Some p => Ok p | None => Err ENoPlatform end
  | c :: r =>
      if negb (valid (ss_pat s)) then Err ERegex
      else if matches (ss_pat s) (ch_platform c) then
        match lookup (ss_index s) (ch_temps c) with
        | Some ti => sensor_loop d17 r s (Some (ch_id c, K_TEMP_INPUT, ti))
        | None => if d17 then Crash else Err ENoIndex
        end
      else sensor_loop d17 r s acc
  end.
Definition bind_sensor_gen (d17 : bool) (chips : list chip) (s : sensor_sel) : result spath :=
  sensor_loop d17 chips s None.
Definition bind_sensor := bind_sensor_gen false.       (* the tree as repaired (fix D17) *)
Definition bind_sensor_d17 := bind_sensor_gen true.    (* the tree before the repair *)

(* cmd/sensor/sensor.go getSensor: first matching controller that HAS the index
   wins (break); nothing found is not an error there: the sensor is created with
   an empty input path (None).  Modelled for the record; not driven. *)
Fixpoint bind_sensor_cli (chips : list chip) (s : sensor_sel) : result (option spath) :=
  match chips with
  | [] => Ok None
  | c :: r =>
      if negb (valid (ss_pat s)) then Err ERegex
      else if matches (ss_pat s) (ch_platform c) then
        match lookup (ss_index s) (ch_temps c) with
        | Some ti => Ok (Some (ch_id c, K_TEMP_INPUT, ti))
        | None => bind_sensor_cli r s
        end
      else bind_sensor_cli r s
  end.

(* ---- InitializeObjects: sensors in configured order, then fans; first error aborts ---- *)
Inductive init_outcome :=
| IOk (sensors : list spath) (fans : list fan_paths)
| IErr (e : berr) (kind : Z) (idx : Z)       (* kind 0 = sensor entry, 1 = fan entry; idx = position *)
| ICrash.

Fixpoint init_sensors (d17 : bool) (chips : list chip) (sels : list sensor_sel) (i : Z) : seq_result (list spath) :=
  match sels with
  | [] => SOk []
  | s :: r =>
      match bind_sensor_gen d17 chips s with
      | Crash => SCrash
      | Err e => SErr e i
      | Ok p => match init_sensors d17 chips r (i + 1) with
                | SOk ps => SOk (p :: ps)
                | other => other
                end
      end
  end.

Fixpoint init_fans (chips : list chip) (sels : list fan_sel) (i : Z) : seq_result (list fan_paths) :=
  match sels with
  | [] => SOk []
  | s :: r =>
      match bind_fan chips s with
      | Crash => SCrash
      | Err e => SErr e i
      | Ok c => match init_fans chips r (i + 1) with
                | SOk ps => SOk (set_paths c :: ps)
                | other => other
                end
      end
  end.

Definition init_objects_gen (d17 : bool) (raws : list raw_chip) (ss : list sensor_sel) (fs : list fan_sel) : init_outcome :=
  let chips := get_chips raws in
  match init_sensors d17 chips ss 0 with
  | SCrash => ICrash
  | SErr e i => IErr e 0 i
  | SOk ps =>
      match init_fans chips fs 0 with
      | SCrash => ICrash
      | SErr e i => IErr e 1 i
      | SOk pf => IOk ps pf
      end
  end.
Definition init_objects := init_objects_gen false.

End Binding.
