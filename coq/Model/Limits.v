(* C13: fan limits.  Extra model definitions on top of Model/Fan.v:
     new_fan      = fans.NewFan (common.go:89-111)
     op / step    = one call of AttachFanRpmCurveData / SetMinPwm / SetStartPwm / SetMaxPwm
                    on a fan of any kind, with the error the call returns
     attachL      = HwMonFan.AttachFanRpmCurveData as it is in the tree (with the D16
                    repair: a start PWM that does not come from the configuration is
                    forgotten before ComputePwmBoundaries looks at it), kind-aware (file/cmd: "not
                    supported", returns nil, nothing changes - Fan.attach returns
                    Invalid for empty data whatever the kind)
     step_old     = the same with Fan.attach, i.e. the code before the D16 repair;
                    kept to diagnose a regression and for the _refuted witness. *)
From Coq Require Import ZArith Bool List Floats Lia.
From F2G Require Import Go.GoFloat gen.Consts Model.Util Model.Fan.
Import ListNotations.
Open Scope Z_scope.

Definition rpm_curve := list (Z * f64).   (* key-sorted: Go sorts the map keys *)

(* int(rpm): Go's float64 -> int conversion on amd64 (NaN, +-Inf, |x| >= 2^63 give -2^63) *)
Definition whole (r : f64) : Z := f2i r.

(* fans.NewFan: the three pointers of the configuration are copied into the
   HwMonFan fields, so the effective limits start out equal to the configured ones.
   File and cmd fans have no limit fields at all. *)
Definition new_fan (k : kind) (ns : bool) (mn st mx : option Z) : fan :=
  match k with
  | HwMon => mkFan HwMon ns mn st mx mn st mx zero 0 false false
  | _ => mkFan k ns mn st mx None None None zero 0 false false
  end.

(* HwMonFan.AttachFanRpmCurveData, current tree *)
Definition attach_hwmon (f : fan) (data : rpm_curve) : option fan :=
  match data with
  | [] => None
  | _ =>
      (* if fan.Config.StartPwm == nil { fan.StartPwm = nil } *)
      let f0 := if is_some (cfg_start f) then f else set_cur_start f None in
      let '(s, m) := ComputePwmBoundaries f0 data in
      let f1 := SetStartPwm f0 s false in
      let f2 := SetMaxPwm f1 m false in
      Some (SetMinPwm f2 s false)
  end.

Definition attachL (f : fan) (data : rpm_curve) : option fan :=
  match fk f with HwMon => attach_hwmon f data | _ => Some f end.

(* the code before the repair (= Fan.attach for hwmon fans) *)
Definition attach_old (f : fan) (data : rpm_curve) : option fan :=
  match fk f with HwMon => attach f data | _ => Some f end.

Inductive op :=
| Attach (data : rpm_curve)
| SetMin (v : Z) (force : bool)
| SetStart (v : Z) (force : bool)
| SetMax (v : Z) (force : bool)
| UpdateCurve (k : Z) (r : f64).   (* fan.UpdateFanRpmCurveValue(k, r): what the RPM monitor does every poll *)

(* error codes of a call: 0 = nil, 1 = os.ErrInvalid *)
Definition step_with (att : fan -> rpm_curve -> option fan) (f : fan) (o : op) : fan * Z :=
  match o with
  | Attach d => match att f d with Some f' => (f', 0) | None => (f, 1) end
  | SetMin v b => (SetMinPwm f v b, 0)
  | SetStart v b => (SetStartPwm f v b, 0)
  | SetMax v b => (SetMaxPwm f v b, 0)
  | UpdateCurve _ _ => (f, 0)        (* changes the curve data only, never a limit *)
  end.
Definition step := step_with attachL.
Definition step_old := step_with attach_old.

Definition run_ops (f : fan) (ops : list op) : fan := fold_left (fun f o => fst (step f o)) ops f.
Definition run_ops_old (f : fan) (ops : list op) : fan := fold_left (fun f o => fst (step_old f o)) ops f.

Definition limits (f : fan) : Z * Z * Z := (GetMinPwm f, GetStartPwm f, GetMaxPwm f).

(* what the driver observes: error code and the three getters after every call *)
Fixpoint run_obs_with (stp : fan -> op -> fan * Z) (f : fan) (ops : list op) : list (Z * (Z * Z * Z)) :=
  match ops with
  | [] => []
  | o :: r => let '(f', e) := stp f o in (e, limits f') :: run_obs_with stp f' r
  end.
Definition run_obs := run_obs_with step.
Definition run_obs_old := run_obs_with step_old.

Definition forced (o : op) : bool :=
  match o with Attach _ | UpdateCurve _ _ => false | SetMin _ b | SetStart _ b | SetMax _ b => b end.
Definition is_attach (o : op) : bool := match o with Attach _ => true | _ => false end.
