(* Classification of every explicit abrupt-termination site of internal/...
   (gen/PanicSites.v, regenerated from the source on every run).  A site that is
   not in this table - a new panic( / ui.Fatal( / os.Exit(, or one moved into
   another function - is unclassified and breaks Proofs/PanicSites.v. *)
From Coq Require Import String List ZArith Bool.
From F2G Require Import gen.PanicSites.
Import ListNotations.
Open Scope string_scope.

Inductive cls :=
| BeforeAnyFanTouched (why : string)     (* start-up: configuration / object construction, no fan written yet *)
| Unreachable (why : string)             (* cannot execute in the daemon; the reason is stated (and, where possible, checked) *)
| Modelled (crash_id : Z)                (* an outcome of Model/Daemon.v or Model/Faults.v *)
| Helper (why : string).                 (* body of a fatal helper: every caller is a site of its own *)

Definition kind_eqb (a b : site_kind) : bool :=
  match a, b with
  | SPanic, SPanic | SFatal, SFatal | SFatalNoTrace, SFatalNoTrace | SExit, SExit | SIndexCall, SIndexCall => true
  | _, _ => false
  end.

Definition table : list (string * string * site_kind * nat * cls) := [
  ("internal/backend.go", "RunDaemon", SFatal, 0%nat, BeforeAnyFanTouched "InitializeObjects failed");
  ("internal/backend.go", "RunDaemon", SFatal, 1%nat, BeforeAnyFanTouched "initializeFanControllers failed");
  ("internal/backend.go", "RunDaemon", SFatalNoTrace, 0%nat, BeforeAnyFanTouched "no fan configured; the run group has not been started");
  ("internal/backend.go", "RunDaemon", SExit, 0%nat, Modelled 1);   (* Finish: Exited 1, after every actor returned *)
  ("internal/backend.go", "RunDaemon", SExit, 1%nat, Modelled 0);   (* Finish: Exited 0 *)
  ("internal/configuration/config.go", "InitConfig", SExit, 0%nat, BeforeAnyFanTouched "home directory lookup at configuration load");
  ("internal/configuration/config.go", "DetectAndReadConfigFile", SFatalNoTrace, 0%nat, BeforeAnyFanTouched "configuration file unreadable");
  ("internal/configuration/config.go", "LoadConfig", SFatal, 0%nat, BeforeAnyFanTouched "configuration cannot be decoded");
  ("internal/controller/controller.go", "NewFanController", SFatal, 0%nat, BeforeAnyFanTouched "curve id of a fan not registered (rejected by validation); controllers are built before the run group starts");
  ("internal/controller/controller.go", "Run", SFatal, 0%nat,
     Unreachable "interrupt handler of the inner run group: called with the first actor's result, and both actors return nil on every path (inner_actors_return_nil)");
  ("internal/curves/functional.go", "Evaluate", SFatal, 0%nat,
     Unreachable "default branch of the function-type switch: validation accepts only the six known types (Model.Faults.ftype)");
  ("internal/ui/logging.go", "FatalWithoutStacktrace", SExit, 0%nat, Helper "ui.FatalWithoutStacktrace");
  ("internal/util/file.go", "FindFilesMatching", SFatal, 0%nat, Unreachable "FindFilesMatching has no caller");
  ("internal/util/file.go", "FindFilesMatching", SPanic, 0%nat, Unreachable "FindFilesMatching has no caller");
  ("internal/util/file.go", "FindFilesMatching", SPanic, 1%nat, Unreachable "FindFilesMatching has no caller")
].

Definition classify (s : string * string * site_kind * nat) : option cls :=
  let '(f, fn, k, n) := s in
  match find (fun e => let '(f', fn', k', n', _) := e in
                       String.eqb f f' && String.eqb fn fn' && kind_eqb k k' && Nat.eqb n n') table with
  | Some (_, _, _, _, c) => Some c
  | None => None
  end.

Definition classified (s : string * string * site_kind * nat) : bool :=
  match classify s with Some _ => true | None => false end.
