(* Model of internal/persistence/persistence.go (C14): the bbolt file as two
   buckets of raw bytes keyed by fan id, the six exported operations as they
   are written in the Go code, plus the events a test bench can cause from
   outside (reopen, bytes written behind the wrapper's back, a kill during an
   operation).  std++ file (gmap); everything the driver evaluates is
   computable.

   External behaviour is a Section variable:
     encode / decode  = encoding/json on map[int]float64 / map[int]int
     the [committed] flag of CrashDuring = bbolt's transaction atomicity
   The hypotheses about them live in Proofs/Persist.v. *)
From stdpp Require Import gmap.
From F2G Require Import gen.Consts.

(* which kind of per-fan data: RPM-curve data (bucket "fans") or the PWM map
   (bucket "fanPwmMap") *)
Inductive kind := KData | KMap.
Global Instance kind_eq_dec : EqDecision kind.
Proof. solve_decision. Defined.

(* basic operations: the wrapper's API + what can happen from outside *)
Inductive bop {value bytes : Type} :=
| Save (k : kind) (id : Z) (v : value)       (* SaveFanPwmData / SaveFanPwmMap *)
| Load (k : kind) (id : Z)                   (* LoadFanPwmData / LoadFanPwmMap *)
| Delete (k : kind) (id : Z)                 (* DeleteFanPwmData / DeleteFanPwmMap *)
| Reopen                                     (* a new Persistence value / a new process on the same file *)
| Corrupt (k : kind) (id : Z) (b : bytes).   (* bytes put under the key directly with bbolt *)
Arguments bop : clear implicits.

Inductive op {value bytes : Type} :=
| Do (o : bop value bytes)
| CrashDuring (o : bop value bytes) (committed : bool).   (* SIGKILL while o runs; bbolt: all or nothing *)
Arguments op : clear implicits.

(* results, as the caller can tell them apart *)
Inductive out {value : Type} :=
| OSaved                 (* Save returned nil *)
| OSaveErr               (* Save returned an error (json: unsupported value) *)
| OFound (v : value)     (* Load returned (v, nil) *)
| ONotFound              (* Load returned an error that Is os.ErrNotExist *)
| ODeleted               (* Delete returned nil *)
| OReopened
| OCorrupted
| OCrashed
| OError.                (* any other error / panic: never produced by the model *)
Arguments out : clear implicits.

Section Persist.
  Context {value bytes : Type}.
  Variable encode : kind -> value -> option bytes.   (* json.Marshal; None = error *)
  Variable decode : kind -> bytes -> option value.   (* json.Unmarshal into a fresh map variable; None = error *)

  (* None = the bucket does not exist (tx.Bucket returns nil) *)
  Record db := mkDb { b_fans : option (gmap Z bytes); b_pwm : option (gmap Z bytes) }.
  Definition db_init : db := mkDb None None.

  (* the bucket a kind is stored in; if somebody makes the two bucket names
     equal (gen/Consts.v is regenerated from the source) both kinds share one *)
  Definition bkt (k : kind) : kind := if BucketsDistinct then k else KData.
  Definition get_bucket (k : kind) (s : db) : option (gmap Z bytes) :=
    match bkt k with KData => b_fans s | KMap => b_pwm s end.
  Definition set_bucket (k : kind) (m : option (gmap Z bytes)) (s : db) : db :=
    match bkt k with KData => mkDb m (b_pwm s) | KMap => mkDb (b_fans s) m end.

  (* tx.CreateBucketIfNotExists + b.Put *)
  Definition put (k : kind) (id : Z) (b : bytes) (s : db) : db :=
    set_bucket k (Some (<[id := b]> (default ∅ (get_bucket k s)))) s.

  Definition bstep (s : db) (o : bop value bytes) : db * out value :=
    match o with
    | Save k id v =>
        (* json.Marshal first; on error return before any transaction *)
        match encode k v with
        | None => (s, OSaveErr)
        | Some b => (put k id b s, OSaved)
        end
    | Load k id =>
        match get_bucket k s with
        | None => (s, ONotFound)                       (* b == nil -> os.ErrNotExist *)
        | Some m =>
            match m !! id with
            | None => (s, ONotFound)                   (* v == nil -> os.ErrNotExist *)
            | Some b =>
                match decode k b with
                | Some v => (s, OFound v)
                | None =>
                    (* undecodable: b.Delete(key), transaction commits, the caller is told
                       the entry does not exist *)
                    (set_bucket k (Some (delete id m)) s, ONotFound)
                end
            end
        end
    | Delete k id =>
        match get_bucket k s with
        | None => (s, ODeleted)                        (* no bucket yet *)
        | Some m =>
            match m !! id with
            | None => (s, ODeleted)                    (* no data for the key *)
            | Some _ => (set_bucket k (Some (delete id m)) s, ODeleted)
            end
        end
    | Reopen => (s, OReopened)                         (* the wrapper keeps no state besides the path *)
    | Corrupt k id b => (put k id b s, OCorrupted)
    end.

  Definition step (s : db) (o : op value bytes) : db * out value :=
    match o with
    | Do o => bstep s o
    | CrashDuring o committed => (if committed then fst (bstep s o) else s, OCrashed)
    end.

  Fixpoint run (s : db) (ops : list (op value bytes)) : db * list (out value) :=
    match ops with
    | [] => (s, [])
    | o :: r => let '(s1, x) := step s o in
                let '(s2, xs) := run s1 r in (s2, x :: xs)
    end.

  (* what a Load of (k, id) would return in state s — the only observable *)
  Definition absb (k : kind) (s : db) : gmap Z value :=
    omap (decode k) (default ∅ (get_bucket k s)).
  Definition look (s : db) (k : kind) (id : Z) : option value := absb k s !! id.

  (* ---- abstract specification: two maps id -> value ---- *)
  Variable encodable : kind -> value -> bool.        (* no NaN / Inf inside *)

  Record sdb := mkS { s_data : gmap Z value; s_pwm : gmap Z value }.
  Definition s_init : sdb := mkS ∅ ∅.
  Definition sget (k : kind) (s : sdb) : gmap Z value :=
    match k with KData => s_data s | KMap => s_pwm s end.
  Definition sset (k : kind) (m : gmap Z value) (s : sdb) : sdb :=
    match k with KData => mkS m (s_pwm s) | KMap => mkS (s_data s) m end.

  Definition sbstep (s : sdb) (o : bop value bytes) : sdb * out value :=
    match o with
    | Save k id v => if encodable k v then (sset k (<[id := v]> (sget k s)) s, OSaved) else (s, OSaveErr)
    | Load k id => (s, match sget k s !! id with Some v => OFound v | None => ONotFound end)
    | Delete k id => (sset k (delete id (sget k s)) s, ODeleted)
    | Reopen => (s, OReopened)
    | Corrupt k id b =>
        (* bytes written from outside count as a save of what they decode to, or as a removal *)
        (sset k (match decode k b with Some v => <[id := v]> (sget k s) | None => delete id (sget k s) end) s,
         OCorrupted)
    end.
  Definition sstep (s : sdb) (o : op value bytes) : sdb * out value :=
    match o with
    | Do o => sbstep s o
    | CrashDuring o committed => (if committed then fst (sbstep s o) else s, OCrashed)
    end.
  Fixpoint srun (s : sdb) (ops : list (op value bytes)) : sdb * list (out value) :=
    match ops with
    | [] => (s, [])
    | o :: r => let '(s1, x) := sstep s o in
                let '(s2, xs) := srun s1 r in (s2, x :: xs)
    end.

  Definition abs (s : db) : sdb := mkS (absb KData s) (absb KMap s).

  (* ---- the property in history form: a load returns the value of the most
     recent effective write to exactly that (kind, fan), else "not found" ---- *)
  Definition same (k k' : kind) (id id' : Z) : bool := bool_decide (k = k') && bool_decide (id = id').

  (* Some e = the operation sets entry (k,id) to e (None = absent); None = it leaves (k,id) alone *)
  Definition beffect (o : bop value bytes) (k : kind) (id : Z) : option (option value) :=
    match o with
    | Save k' id' v => if same k k' id id' && encodable k' v then Some (Some v) else None
    | Delete k' id' => if same k k' id id' then Some None else None
    | Corrupt k' id' b => if same k k' id id' then Some (decode k' b) else None
    | Load _ _ | Reopen => None
    end.
  Definition effect (o : op value bytes) (k : kind) (id : Z) : option (option value) :=
    match o with
    | Do o => beffect o k id
    | CrashDuring o committed => if committed then beffect o k id else None
    end.
  (* history newest first *)
  Fixpoint expected (rev_hist : list (op value bytes)) (k : kind) (id : Z) : option value :=
    match rev_hist with
    | [] => None
    | o :: r => match effect o k id with Some e => e | None => expected r k id end
    end.

  Definition load_out (e : option value) : out value :=
    match e with Some v => OFound v | None => ONotFound end.

  (* the output the property demands of operation o after history rev_hist *)
  Definition expected_out (rev_hist : list (op value bytes)) (o : op value bytes) : out value :=
    match o with
    | Do (Save k _ v) => if encodable k v then OSaved else OSaveErr
    | Do (Load k id) => load_out (expected rev_hist k id)
    | Do (Delete _ _) => ODeleted
    | Do Reopen => OReopened
    | Do (Corrupt _ _ _) => OCorrupted
    | CrashDuring _ _ => OCrashed
    end.
  Fixpoint expected_trace (rev_hist : list (op value bytes)) (ops : list (op value bytes)) : list (out value) :=
    match ops with
    | [] => []
    | o :: r => expected_out rev_hist o :: expected_trace (o :: rev_hist) r
    end.
End Persist.

Arguments db : clear implicits.
Arguments sdb : clear implicits.
