(* Recorded findings of property C20 (defect D21): memory cell x unordered pair of goroutine kinds that
   race on it according to Model/Races.v over gen/Accesses.v.  Maintained with tools/mk_race_findings.py;
   committed; code n <-> key R<nn> in known_findings.txt.  An entry that no longer races is harmless
   (C20_race_free_modulo only needs every racy pair to be listed); codes are never reused. *)
From Coq Require Import ZArith List String.
From F2G Require Import Model.Races.
Import ListNotations.
Open Scope string_scope.
Open Scope Z_scope.

Definition findings : list finding := [
  (("controller.DefaultFanController.lastSetPwm", KRpmMon, KControl), 1);
  (("controller.DefaultFanController.lastSetPwm*", KRpmMon, KControl), 2);
  (("controller.DefaultFanController.stats.IncreasedMinPwmCount", KControl, KMetrics), 3);
  (("controller.DefaultFanController.stats.MinPwmOffset", KControl, KMetrics), 4);
  (("controller.DefaultFanController.stats.UnexpectedPwmValueCount", KControl, KMetrics), 5);
  (("curves.FunctionSpeedCurve.Value", KControl, KApi), 6);
  (("curves.LinearSpeedCurve.Value", KControl, KApi), 7);
  (("curves.PidSpeedCurve.Value", KControl, KControl), 8);
  (("curves.PidSpeedCurve.Value", KControl, KApi), 9);
  (("fans.CmdFan.Pwm", KRpmMon, KControl), 10);
  (("fans.CmdFan.Pwm", KRpmMon, KApi), 11);
  (("fans.CmdFan.Pwm", KRpmMon, KMetrics), 12);
  (("fans.CmdFan.Pwm", KControl, KApi), 13);
  (("fans.CmdFan.Pwm", KControl, KMetrics), 14);
  (("fans.CmdFan.Pwm", KPrelude, KApi), 15);
  (("fans.CmdFan.Pwm", KPrelude, KMetrics), 16);
  (("fans.CmdFan.Pwm", KApi, KMetrics), 17);
  (("fans.CmdFan.Pwm", KMetrics, KMetrics), 18);
  (("fans.CmdFan.Rpm", KRpmMon, KControl), 19);
  (("fans.CmdFan.Rpm", KRpmMon, KApi), 20);
  (("fans.CmdFan.Rpm", KRpmMon, KMetrics), 21);
  (("fans.CmdFan.Rpm", KControl, KApi), 22);
  (("fans.CmdFan.Rpm", KControl, KMetrics), 23);
  (("fans.CmdFan.Rpm", KPrelude, KApi), 24);
  (("fans.CmdFan.Rpm", KPrelude, KMetrics), 25);
  (("fans.CmdFan.Rpm", KApi, KMetrics), 26);
  (("fans.CmdFan.Rpm", KMetrics, KMetrics), 27);
  (("fans.FileFan.Pwm", KRpmMon, KControl), 28);
  (("fans.FileFan.Pwm", KRpmMon, KApi), 29);
  (("fans.FileFan.Pwm", KRpmMon, KMetrics), 30);
  (("fans.FileFan.Pwm", KControl, KApi), 31);
  (("fans.FileFan.Pwm", KControl, KMetrics), 32);
  (("fans.FileFan.Pwm", KPrelude, KApi), 33);
  (("fans.FileFan.Pwm", KPrelude, KMetrics), 34);
  (("fans.FileFan.Pwm", KApi, KMetrics), 35);
  (("fans.FileFan.Pwm", KMetrics, KMetrics), 36);
  (("fans.FileFan.Rpm", KRpmMon, KControl), 37);
  (("fans.FileFan.Rpm", KRpmMon, KApi), 38);
  (("fans.FileFan.Rpm", KRpmMon, KMetrics), 39);
  (("fans.FileFan.Rpm", KControl, KApi), 40);
  (("fans.FileFan.Rpm", KControl, KMetrics), 41);
  (("fans.FileFan.Rpm", KPrelude, KApi), 42);
  (("fans.FileFan.Rpm", KPrelude, KMetrics), 43);
  (("fans.FileFan.Rpm", KApi, KMetrics), 44);
  (("fans.FileFan.Rpm", KMetrics, KMetrics), 45);
  (("fans.HwMonFan.FanCurveData", KRpmMon, KApi), 46);
  (("fans.HwMonFan.FanCurveData", KPrelude, KApi), 47);
  (("fans.HwMonFan.FanCurveData*", KRpmMon, KApi), 48);
  (("fans.HwMonFan.FanCurveData*[]", KRpmMon, KApi), 49);
  (("fans.HwMonFan.MaxPwm", KPrelude, KApi), 50);
  (("fans.HwMonFan.MaxPwm*", KPrelude, KApi), 51);
  (("fans.HwMonFan.MinPwm", KPrelude, KApi), 52);
  (("fans.HwMonFan.MinPwm*", KPrelude, KApi), 53);
  (("fans.HwMonFan.Pwm", KRpmMon, KControl), 54);
  (("fans.HwMonFan.Pwm", KRpmMon, KApi), 55);
  (("fans.HwMonFan.Pwm", KRpmMon, KMetrics), 56);
  (("fans.HwMonFan.Pwm", KControl, KApi), 57);
  (("fans.HwMonFan.Pwm", KControl, KMetrics), 58);
  (("fans.HwMonFan.Pwm", KPrelude, KApi), 59);
  (("fans.HwMonFan.Pwm", KPrelude, KMetrics), 60);
  (("fans.HwMonFan.Pwm", KApi, KMetrics), 61);
  (("fans.HwMonFan.Pwm", KMetrics, KMetrics), 62);
  (("fans.HwMonFan.Rpm", KRpmMon, KApi), 63);
  (("fans.HwMonFan.Rpm", KRpmMon, KMetrics), 64);
  (("fans.HwMonFan.Rpm", KPrelude, KApi), 65);
  (("fans.HwMonFan.Rpm", KPrelude, KMetrics), 66);
  (("fans.HwMonFan.Rpm", KApi, KMetrics), 67);
  (("fans.HwMonFan.Rpm", KMetrics, KMetrics), 68);
  (("fans.HwMonFan.RpmMovingAvg", KRpmMon, KControl), 69);
  (("fans.HwMonFan.RpmMovingAvg", KRpmMon, KApi), 70);
  (("fans.HwMonFan.RpmMovingAvg", KControl, KApi), 71);
  (("fans.HwMonFan.RpmMovingAvg", KPrelude, KApi), 72);
  (("fans.HwMonFan.StartPwm", KPrelude, KApi), 73);
  (("fans.HwMonFan.StartPwm*", KPrelude, KApi), 74);
  (("sensors.CmdSensor.MovingAvg", KSensorMon, KApi), 75);
  (("sensors.CmdSensor.mu", KSensorMon, KApi), 76);
  (("sensors.CmdSensor.mu", KControl, KApi), 77);
  (("sensors.FileSensor.MovingAvg", KSensorMon, KApi), 78);
  (("sensors.FileSensor.mu", KSensorMon, KApi), 79);
  (("sensors.FileSensor.mu", KControl, KApi), 80);
  (("sensors.HwmonSensor.MovingAvg", KSensorMon, KApi), 81);
  (("sensors.HwmonSensor.mu", KSensorMon, KApi), 82);
  (("sensors.HwmonSensor.mu", KControl, KApi), 83);
  (("util.PidLoop.error", KControl, KControl), 84);
  (("util.PidLoop.error", KControl, KApi), 85);
  (("util.PidLoop.integral", KControl, KControl), 86);
  (("util.PidLoop.integral", KControl, KApi), 87);
  (("util.PidLoop.lastTime", KControl, KControl), 88);
  (("util.PidLoop.lastTime", KControl, KApi), 89);
  (("fans.HwMonFan.FanCurveData*", KPrelude, KApi), 90);
  (("fans.HwMonFan.FanCurveData*[]", KPrelude, KApi), 91)
].
