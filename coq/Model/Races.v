(* C20 - lock-set (Eraser-style) model of the daemon's shared-memory accesses.

   The table of accesses (gen/Accesses.v) is regenerated from the Go source on
   every run by tools/gen_accesses.py.  This file is the hand-written part:
   what an access is, which goroutine kinds exist, which of them can touch the
   SAME INSTANCE of a memory cell (may_share), which are ordered by goroutine
   start (ordered_by_start), and the executable race classifier `racy`.

   Goroutine kinds (roots listed in the header of gen/Accesses.v):
     KSensorMon  one per sensor   backend.go: sensorMonitor.Run / updateSensor
     KRpmMon     one per fan      controller.go Run: the measureRpm actor
     KControl    one per fan      controller.go Run: UpdateFanSpeed / restorePwmEnabled actor
     KPrelude    one per fan      controller.go Run up to its g.Run() (start-up, initialisation sequence)
     KApi        one per request  internal/api handlers (echo spawns a goroutine per connection)
     KMetrics    one per scrape   statistics.*Collector.Collect (also run concurrently by the registry)
     KWebStart   web-server start actor of RunDaemon and the goroutines it spawns
     KAux        remaining run.Group actors / interrupt callbacks (signal wait, shutdown, profiling)
   Not in the table: the main goroutine up to g.Run() in RunDaemon (InitializeObjects,
   initializeFanControllers): it happens-before every goroutine above (go statement rule).

   Classes of memory cells (decided by the translator from the package of the
   struct type / the global):
     OFan OController OControlLoop   per-fan objects: one fan, one controller, one control loop per
                                     configured fan (backend.go initializeFans / initializeFanControllers)
     OCurve OSensor                  curve and sensor objects: shared by every fan that references them
     OPid                            util.PidLoop: reachable both from a per-fan PidControlLoop and from a
                                     PidSpeedCurve, which several fans may share -> treated as shared
     OConfig OGlobal OOther          configuration structs, package variables, anything else: shared by all *)
From Coq Require Import ZArith List String Bool.
Import ListNotations.
Open Scope string_scope.

Inductive kind := KSensorMon | KRpmMon | KControl | KPrelude | KApi | KMetrics | KWebStart | KAux.
Inductive oclass := OFan | OController | OControlLoop | OCurve | OSensor | OPid | OConfig | OGlobal | OOther.
(* MS = synchronisation operation on a mutex cell (Lock/Unlock): conflicts with plain reads/writes of
   the cell (e.g. reprint.This copying a live sync.Mutex) but not with other sync operations *)
Inductive mode := MR | MW | MS.

Record access := mkAccess {
  a_kind : kind; a_loc : string; a_class : oclass; a_mode : mode;
  a_locks : list string;          (* mutexes held (function-level lockset); [] also for "unknown" *)
  a_file : Z; a_line : Z          (* first site; file codes in the header of gen/Accesses.v *)
}.

Definition kind_code (k : kind) : Z :=
  match k with KSensorMon => 1 | KRpmMon => 2 | KControl => 3 | KPrelude => 4
             | KApi => 5 | KMetrics => 6 | KWebStart => 7 | KAux => 8 end%Z.

Lemma kind_code_inj : forall a b, kind_code a = kind_code b -> a = b.
Proof. destruct a, b; simpl; intros H; try reflexivity; discriminate H. Qed.

Definition kind_eqb (a b : kind) : bool := Z.eqb (kind_code a) (kind_code b).

Lemma kind_eqb_eq : forall a b, kind_eqb a b = true <-> a = b.
Proof.
  intros a b. unfold kind_eqb. rewrite Z.eqb_eq. split.
  - apply kind_code_inj.
  - intros ->. reflexivity.
Qed.

Definition conflict (m1 m2 : mode) : bool :=
  match m1, m2 with
  | MR, MR => false
  | MS, MS => false
  | _, _ => true
  end.

Definition per_fan (c : oclass) : bool :=
  match c with OFan | OController | OControlLoop => true | _ => false end.

(* single_owner k c: two DISTINCT goroutines of kind k never touch the same instance of a cell of class c.
   - a sensor monitor holds exactly one sensor (monitor.go: sensorMonitor.sensor) and RunDaemon creates
     one monitor per registry entry;
   - the RPM monitor, control loop and prelude of a fan only reach that fan's Fan object, its
     DefaultFanController and its ControlLoop (closures over `f` and `fan` in controller.go Run).
   Everything else (API, metrics, web start, aux; curves, sensors, PID state, config, globals) is shared. *)
Definition single_owner (k : kind) (c : oclass) : bool :=
  match k with
  | KSensorMon => match c with OSensor => true | _ => false end
  | KRpmMon | KControl | KPrelude => per_fan c
  | _ => false
  end.

(* may_share kA kB c: a goroutine of kind kA and a DIFFERENT goroutine of kind kB can access the same
   instance of a cell of class c.  Different kinds always can (RPM monitor and control loop of the same
   fan; API/metrics and everything); the same kind unless it is the single owner. *)
Definition may_share (ka kb : kind) (c : oclass) : bool :=
  if kind_eqb ka kb then negb (single_owner ka c) else true.

Definition starts (ka kb : kind) : bool :=
  match ka, kb with
  | KPrelude, KRpmMon | KPrelude, KControl => true
  | _, _ => false
  end.

(* ordered_by_start: on per-fan cells the only RPM monitor / control loop that can touch the same instance
   as a prelude are those of the same fan, and they are started by that prelude (g.Run() at the end of
   DefaultFanController.Run): go-statement happens-before.  On shared cells (curves, sensors, PID state,
   globals) the prelude of fan i is concurrent with the actors of fan j, so nothing is ordered. *)
Definition ordered_by_start (ka kb : kind) (c : oclass) : bool :=
  per_fan c && (starts ka kb || starts kb ka).

Definition disjointb (l1 l2 : list string) : bool :=
  forallb (fun x => negb (existsb (String.eqb x) l2)) l1.

Definition race (a b : access) : Prop :=
  a_loc a = a_loc b /\
  conflict (a_mode a) (a_mode b) = true /\
  may_share (a_kind a) (a_kind b) (a_class a) = true /\
  (forall l, In l (a_locks a) -> ~ In l (a_locks b)) /\
  ordered_by_start (a_kind a) (a_kind b) (a_class a) = false.

Definition raceb (a b : access) : bool :=
  String.eqb (a_loc a) (a_loc b) &&
  conflict (a_mode a) (a_mode b) &&
  may_share (a_kind a) (a_kind b) (a_class a) &&
  disjointb (a_locks a) (a_locks b) &&
  negb (ordered_by_start (a_kind a) (a_kind b) (a_class a)).

(* every ordered pair of table entries (an entry also pairs with itself: two goroutines of one kind) *)
Definition racy (t : list access) : list (access * access) :=
  filter (fun p => raceb (fst p) (snd p)) (list_prod t t).

(* ---- grouping for the findings list: cell x unordered kind pair ---- *)
Definition group := (string * kind * kind)%type.

Definition group_of (a b : access) : group :=
  if Z.leb (kind_code (a_kind a)) (kind_code (a_kind b))
  then (a_loc a, a_kind a, a_kind b) else (a_loc a, a_kind b, a_kind a).

Definition group_eqb (g h : group) : bool :=
  match g, h with
  | (l1, a1, b1), (l2, a2, b2) => String.eqb l1 l2 && kind_eqb a1 a2 && kind_eqb b1 b2
  end.

Definition finding := (group * Z)%type.   (* recorded finding: group and its code n (key R<n>) *)

Definition finding_of (fs : list finding) (g : group) : Z :=
  match find (fun f => group_eqb (fst f) g) fs with
  | Some f => snd f
  | None => 0%Z
  end.

Definition listedb (fs : list finding) (g : group) : bool :=
  existsb (fun f => group_eqb (fst f) g) fs.

Definition racy_groups (t : list access) : list group :=
  map (fun p => group_of (fst p) (snd p)) (racy t).
