(* Model of the hand-back path (C03):
     internal/fans/hwmon.go   SetPwmEnabled (mode write + read-back), SetPwm
     internal/fans/file.go, cmd.go   SetPwmEnabled = no-op, Supports(FeatureControlMode) = false
     internal/controller/controller.go   trySetManualPwm, restorePwmEnabled
   over a device (mode, pwm) whose driver answers every single write with a
   verdict Ok | Refused | Ignored and every read with Ok | Fails | Garbage |
   PermissionDenied.  [Defects] selects between the code as found (flags set)
   and the repaired code (all flags clear); theorems are about [repaired]. *)
From Coq Require Import ZArith Bool List Lia.
From F2G Require Import gen.Consts.
Import ListNotations.
Open Scope Z_scope.

(* one flag per defect of DESIGN.md section 6 that this part of the model can exhibit *)
Record Defects := mkDefects {
  d2_close_sig : bool;        (* backend.go: defer close(sig) on a channel still registered with signal.Notify *)
  d3_readback_dead : bool;    (* hwmon.go: read-back comparison inside `if err != nil` *)
  d4_panic_on_err : bool;     (* backend.go: panic(err) when a controller's Run returns an error *)
  d5_fatal_on_curve : bool;   (* controller.go: ui.Fatal on a curve evaluation error *)
  d13_exec_assert : bool;     (* util/exec.go: unchecked err.( *exec.ExitError) *)
  d23_no_restore_after_init : bool;   (* controller.go Run: error return after a completed initialisation sequence without restorePwmEnabled *)
}.
Definition repaired : Defects := mkDefects false false false false false false.
Definition as_found : Defects := mkDefects true true true true true true.

Inductive wverdict := WOk | WRefused | WIgnored.
Inductive rverdict := ROk | RFails | RGarbage | RPerm.
Inductive backend := BHwmon | BFile | BCmd.

Record dev := mkDev { mode : Z; pwm : Z }.

(* what reaches the driver, in order (compared with the hook log of the real code) *)
Inductive op := OpWPwm (x : Z) | OpWMode (x : Z) | OpRMode.

Definition manual : Z := ControlModePWM.

(* a single write: (device afterwards, error reported to fan2go) *)
Definition write_pwm (v : wverdict) (d : dev) (x : Z) : dev * bool :=
  match v with
  | WOk => (mkDev (mode d) x, false)
  | WRefused => (d, true)
  | WIgnored => (d, false)
  end.
Definition write_mode (v : wverdict) (d : dev) (x : Z) : dev * bool :=
  match v with
  | WOk => (mkDev x (pwm d), false)
  | WRefused => (d, true)
  | WIgnored => (d, false)
  end.

(* Supports(FeatureControlMode): hwmon = os.Stat(pwmN_enable) succeeds; file/cmd = false *)
Definition mode_supported (b : backend) (enable_exists : bool) : bool :=
  match b with BHwmon => enable_exists | _ => false end.

(* util.ReadIntFromFile: (-1, err) when the read fails, (0, err) when Atoi fails *)
Definition read_int_on_error (v : rverdict) : Z :=
  match v with RGarbage => 0 | _ => -1 end.

(* HwMonFan.SetPwmEnabled(value): (device, error returned, driver operations) *)
Definition hw_set_mode (D : Defects) (mv : wverdict) (rb : rverdict) (d : dev) (value : Z)
  : dev * bool * list op :=
  let '(d1, werr) := write_mode mv d value in
  if werr then (d1, true, [OpWMode value])
  else
    let ops := [OpWMode value; OpRMode] in
    match rb with
    | RPerm => (d1, false, ops)       (* "Continuing assuming it worked." *)
    | ROk =>
        if d3_readback_dead D then (d1, false, ops)       (* as found: never compared *)
        else (d1, negb (mode d1 =? value), ops)           (* "PWM mode stuck to %d" *)
    | RFails | RGarbage =>
        if d3_readback_dead D then (d1, negb (read_int_on_error rb =? value), ops)
        else (d1, true, ops)
    end.

(* Fan.SetPwmEnabled per backend *)
Definition set_mode (D : Defects) (b : backend) (mv : wverdict) (rb : rverdict) (d : dev) (value : Z)
  : dev * bool * list op :=
  match b with
  | BHwmon => hw_set_mode D mv rb d value
  | _ => (d, false, [])
  end.

(* controller.trySetManualPwm *)
Definition try_manual (D : Defects) (b : backend) (exists_ : bool)
           (mv1 : wverdict) (rb1 : rverdict) (mv2 : wverdict) (rb2 : rverdict) (d : dev)
  : dev * bool * list op :=
  if negb (mode_supported b exists_) then (d, false, [])
  else
    let '(d1, e1, ops1) := set_mode D b mv1 rb1 d ControlModePWM in
    if e1 then
      let '(d2, e2, ops2) := set_mode D b mv2 rb2 d1 ControlModeDisabled in
      (d2, e2, ops1 ++ ops2)
    else (d1, false, ops1).

(* the verdicts of the (up to) four driver operations of one restorePwmEnabled call *)
Record rplan := mkPlan {
  p_v1 : wverdict;      (* SetPwm(originalPwmValue) *)
  p_mv : wverdict;      (* write of pwmN_enable *)
  p_rb : rverdict;      (* read-back of pwmN_enable *)
  p_v2 : wverdict;      (* SetPwm(MaxPwmValue), the last resort *)
}.

Record rres := mkRes {
  r_dev : dev;
  r_ops : list op;
  r_last_resort : bool;     (* the last-resort write was attempted *)
}.

(* controller.restorePwmEnabled; [orig] = (originalPwmEnabled, originalPwmValue) *)
Definition restore (D : Defects) (b : backend) (exists_ : bool) (orig : dev) (p : rplan) (d : dev) : rres :=
  let '(d1, _) := write_pwm (p_v1 p) d (pwm orig) in
  let ops1 := [OpWPwm (pwm orig)] in
  let last (d2 : dev) (ops : list op) :=
    let '(d3, _) := write_pwm (p_v2 p) d2 RestoreFallbackPwm in
    mkRes d3 (ops ++ [OpWPwm RestoreFallbackPwm]) true in
  if mode_supported b exists_ && negb (mode orig =? ControlModePWM) then
    let '(d2, err, ops2) := set_mode D b (p_mv p) (p_rb p) d1 (mode orig) in
    if err then last d2 (ops1 ++ ops2)
    else mkRes d2 (ops1 ++ ops2) false
  else last d1 ops1.

(* ---- the property ---- *)
(* handed back (only meaningful when the fan has a mode and it was not manual) or at full speed *)
Definition safe (sup : bool) (orig d : dev) : Prop :=
  (sup = true /\ mode orig <> manual /\ mode d = mode orig) \/ pwm d = 255.

Definition safeb (sup : bool) (orig d : dev) : bool :=
  (sup && negb (mode orig =? manual) && (mode d =? mode orig)) || (pwm d =? 255).

(* the only escape: the last-resort write was attempted and the driver did not carry it out *)
Definition last_resort_write_failed (p : rplan) (r : rres) : Prop :=
  r_last_resort r = true /\ p_v2 p <> WOk.
Definition last_resort_write_failedb (p : rplan) (r : rres) : bool :=
  r_last_resort r && match p_v2 p with WOk => false | _ => true end.

(* what fan2go cannot know: an ignored mode write whose read-back is tolerated (EACCES) *)
Definition undetectable (p : rplan) : Prop := p_mv p = WIgnored /\ p_rb p = RPerm.
Definition undetectableb (p : rplan) : bool :=
  match p_mv p, p_rb p with WIgnored, RPerm => true | _, _ => false end.

(* start-up capture (controller.go:123-137): what fan2go believes the original state to be *)
Definition capture (sup : bool) (min_pwm : Z) (rp rm : rverdict) (d : dev) : dev :=
  mkDev (if sup then match rm with ROk => mode d | _ => read_int_on_error rm end
         else ControlModeDisabled (* zero value: never assigned *))
        (match rp with ROk => pwm d | _ => min_pwm end).

(* enumerations used by exhaustive statements *)
Definition all_w : list wverdict := [WOk; WRefused; WIgnored].
Definition all_r : list rverdict := [ROk; RFails; RGarbage; RPerm].
Definition all_b : list backend := [BHwmon; BFile; BCmd].

(* ---- the boolean observers are the Props (used by the drivers' verified observers;
        kept here so that they do not depend on the proofs about the constants) ---- *)
Lemma safeb_spec sup orig d : safeb sup orig d = true <-> safe sup orig d.
Proof.
  unfold safeb, safe. rewrite orb_true_iff, !andb_true_iff, negb_true_iff, Z.eqb_neq, !Z.eqb_eq.
  tauto.
Qed.

Lemma last_resort_write_failedb_spec p r :
  last_resort_write_failedb p r = true <-> last_resort_write_failed p r.
Proof.
  unfold last_resort_write_failedb, last_resort_write_failed. rewrite andb_true_iff.
  destruct (p_v2 p); split; intros [H1 H2]; split; auto; try discriminate; congruence.
Qed.

Lemma undetectableb_spec p : undetectableb p = true <-> undetectable p.
Proof.
  unfold undetectableb, undetectable.
  destruct (p_mv p), (p_rb p); split; try discriminate; try tauto;
    intros [H1 H2]; discriminate.
Qed.


Definition d2_only : Defects := mkDefects true false false false false false.
Definition d3_only : Defects := mkDefects false true false false false false.
Definition d4_only : Defects := mkDefects false false true false false false.
Definition d5_only : Defects := mkDefects false false false true false false.
Definition d13_only : Defects := mkDefects false false false false true false.
Definition d23_only : Defects := mkDefects false false false false false true.
