(* InitializationSequenceMutex discipline of N concurrently starting fan
   controllers (N arbitrary).  Each controller is a thread running a
   straight-line program over Acquire | Release | Begin phase | End phase; the
   program of a thread is DERIVED from the start-up model (Model/Startup.v): the
   Lock / Unlock actions are where the code takes and releases the mutex, a Sweep
   or MeasureRpm action is an analysis phase.  A schedule is a list of thread
   indices; a step of a thread whose next operation is Acquire is blocked (no
   change) while the lock is held. *)
From Coq Require Import ZArith Bool List Lia.
From F2G Require Import Go.GoFloat gen.Consts Model.Util Model.Fan Model.Startup.
Import ListNotations.
Open Scope nat_scope.

Inductive phase := PSweep | PMeasure.
Inductive op := Acquire | Release | Begin (p : phase) | End (p : phase).

Definition ops_of_action (a : action) : list op :=
  match a with
  | Lock => [Acquire]
  | Unlock => [Release]
  | Sweep => [Begin PSweep; End PSweep]
  | MeasureRpm => [Begin PMeasure; End PMeasure]
  | _ => []
  end.
Definition prog_of (a : list action) : list op := flat_map ops_of_action a.

(* the program of the controller of fan (f, c) started on database entry e *)
Definition thread_prog (x : fancfg * caps * entry) : list op :=
  let '(f, c, e) := x in prog_of (start_actions f c e).
(* ... and of `fan init` *)
Definition init_prog (x : fancfg * caps * entry) : list op :=
  let '(f, c, e) := x in prog_of (fst (init_cmd f c e)).

Record thread := mkThread {
  t_prog : list op;      (* what is left to do *)
  t_holds : bool;        (* between its Acquire and its Release *)
  t_in : bool;           (* inside an analysis phase *)
}.
Record state := mkState { s_threads : list thread; s_lock : bool }.

Definition step_thread (lock : bool) (t : thread) : thread * bool :=
  match t_prog t with
  | [] => (t, lock)
  | Acquire :: r => if lock then (t, lock) else (mkThread r true (t_in t), true)
  | Release :: r => (mkThread r false (t_in t), false)          (* sync.Mutex.Unlock *)
  | Begin _ :: r => (mkThread r (t_holds t) true, lock)
  | End _ :: r => (mkThread r (t_holds t) false, lock)
  end.

Fixpoint step_at (ts : list thread) (lock : bool) (i : nat) : list thread * bool :=
  match ts, i with
  | [], _ => ([], lock)
  | t :: r, O => let '(t', l') := step_thread lock t in (t' :: r, l')
  | t :: r, S i' => let '(r', l') := step_at r lock i' in (t :: r', l')
  end.

Definition step (s : state) (i : nat) : state :=
  let '(ts, l) := step_at (s_threads s) (s_lock s) i in mkState ts l.

Definition run (s : state) (sched : list nat) : state := fold_left step sched s.

Definition init (progs : list (list op)) : state :=
  mkState (map (fun p => mkThread p false false) progs) false.

(* number of threads inside an analysis phase / holding the lock *)
Definition inside (s : state) : nat := length (filter t_in (s_threads s)).
Definition holders (ts : list thread) : nat := length (filter t_holds ts).

(* a program that analyses only while holding the lock *)
Fixpoint wlb (h i : bool) (p : list op) : bool :=
  implb i h &&
  match p with
  | [] => true
  | Acquire :: r => negb h && negb i && wlb true false r
  | Release :: r => h && negb i && wlb false false r
  | Begin _ :: r => h && negb i && wlb h true r
  | End _ :: r => i && wlb h false r
  end.
Definition well_locked (p : list op) : Prop := wlb false false p = true.
