(* Model of the sensor smoothing path (C08):
     internal/sensors/{hwmon,file,cmd}.go  GetValue   (result class of one read)
     internal/monitor.go                   updateSensor
     internal/backend.go:319-331           seeding of the average from the first read
     internal/util/math.go                 UpdateSimpleMovingAvg  (= Util.upd_avg, tied by Proofs/LeafTie.v)
   Parsing (strconv.Atoi / ParseFloat, os.ReadFile, os/exec) is not modelled: the
   model starts from the class of one read,
     hwmon / file :  ReadErr | ValZ z      (Atoi succeeded with the integer z)
     cmd          :  ReadErr | ValF f      (ParseFloat succeeded with f; "nan", "inf",
                                            "+Inf", "-Infinity" are accepted by ParseFloat,
                                            so f may be NaN or +-Inf)
   and the correspondence driver `sensor` feeds text through the real parsers. *)
From Coq Require Import ZArith Bool List Floats.
From F2G Require Import Go.GoFloat Model.Util.
Import ListNotations.
Open Scope Z_scope.

Inductive kind := KHwmon | KFile | KCmd.

Inductive reading :=
| ReadErr            (* unreadable / empty / non-numeric file, EISDIR, EIO, failing command, timeout, garbage output *)
| ValZ (z : Z)       (* hwmon/file: the integer that Atoi returned (|z| < 2^63) *)
| ValF (f : f64).    (* cmd: the float64 that ParseFloat returned *)

(* (float64, error) of Sensor.GetValue *)
Inductive gv_result := GvOk (v : f64) | GvErr.

(* ---- the code as it is after the D9 repairs (fixes/D9-file.patch, fixes/D9-cmd.patch) ----
   hwmon.go: integer, err := util.ReadIntFromFile(..); if err != nil { return 0, err }; return float64(integer), nil
   file.go : the same (the repair returns the error instead of (0, nil))
   cmd.go  : SafeCmdExecution error -> error; ParseFloat error -> error;
             the repair adds: math.IsNaN(temp) || math.IsInf(temp, 0) -> error *)
Definition get_value (k : kind) (r : reading) : gv_result :=
  match k, r with
  | _, ReadErr => GvErr
  | KHwmon, ValZ z => GvOk (i2f z)
  | KFile, ValZ z => GvOk (i2f z)
  | KCmd, ValF f => if is_finite f then GvOk f else GvErr
  | KCmd, ValZ z => GvOk (i2f z)      (* a command printing the integer z: ParseFloat is correctly rounded, like i2f *)
  | _, ValF _ => GvErr                (* text that is not an integer in an hwmon/file sensor: Atoi fails *)
  end.

(* ---- the code as it was before the repairs (defect D9), kept to document what failed ----
   file.go:  if err != nil { ui.Warning(..); return 0, nil }      -- a read error becomes the value 0
   cmd.go :  temp, err := strconv.ParseFloat(result, 64) ... return temp, nil  -- NaN / Inf pass through *)
Definition get_value_d9 (k : kind) (r : reading) : gv_result :=
  match k, r with
  | KHwmon, ReadErr => GvErr
  | KHwmon, ValZ z => GvOk (i2f z)
  | KHwmon, ValF _ => GvErr
  | KFile, ReadErr => GvOk 0%float
  | KFile, ValZ z => GvOk (i2f z)
  | KFile, ValF _ => GvOk 0%float
  | KCmd, ReadErr => GvErr
  | KCmd, ValF f => GvOk f
  | KCmd, ValZ z => GvOk (i2f z)
  end.

(* monitor.go updateSensor:
     value, err := s.GetValue(); if err != nil { return err }
     n := CurrentConfig.TempRollingWindowSize
     s.SetMovingAvg(util.UpdateSimpleMovingAvg(s.GetMovingAvg(), n, value))
   The result is the new average and whether an error was returned. *)
Definition update_sensor_with (gv : kind -> reading -> gv_result) (k : kind) (n : Z) (avg : f64) (r : reading) : f64 * bool :=
  match gv k r with
  | GvErr => (avg, true)
  | GvOk v => (upd_avg avg n v, false)
  end.

Definition update_sensor := update_sensor_with get_value.

(* one poll of the monitor: the average afterwards *)
Definition poll (k : kind) (n : Z) (avg : f64) (r : reading) : f64 := fst (update_sensor k n avg r).
Definition poll_d9 (k : kind) (n : Z) (avg : f64) (r : reading) : f64 := fst (update_sensor_with get_value_d9 k n avg r).

(* backend.go initializeSensors:
     currentValue, err := sensor.GetValue(); if err != nil { ui.Warning(..) }; sensor.SetMovingAvg(currentValue)
   every backend returns 0 together with an error, so a failed first read seeds 0. *)
Definition seed_with (gv : kind -> reading -> gv_result) (k : kind) (r : reading) : f64 :=
  match gv k r with GvOk v => v | GvErr => 0%float end.
Definition seed := seed_with get_value.
Definition seed_d9 := seed_with get_value_d9.

(* the averages after each poll of a reading sequence *)
Fixpoint avgs (k : kind) (n : Z) (avg : f64) (rs : list reading) : list f64 :=
  match rs with
  | [] => []
  | r :: rest => let a := poll k n avg r in a :: avgs k n a rest
  end.

Fixpoint errs (k : kind) (rs : list reading) : list bool :=
  match rs with
  | [] => []
  | r :: rest => (match get_value k r with GvErr => true | GvOk _ => false end) :: errs k rest
  end.

(* the value a poll contributes to the average, if any *)
Definition value_of (k : kind) (r : reading) : option f64 :=
  match get_value k r with GvOk v => Some v | GvErr => None end.

(* the values contributed by a reading sequence (failed reads contribute nothing) *)
Fixpoint values (k : kind) (rs : list reading) : list f64 :=
  match rs with
  | [] => []
  | r :: rest => match value_of k r with Some v => v :: values k rest | None => values k rest end
  end.

(* a poll that must not move the average *)
Definition fault (r : reading) : Prop :=
  r = ReadErr \/ exists f, r = ValF f /\ is_finite f = false.

Definition faultb (r : reading) : bool :=
  match r with ReadErr => true | ValF f => negb (is_finite f) | ValZ _ => false end.

(* ---- the hull statement of C08 ---- *)

(* a <= b on float64 (false when either side is NaN) *)
Definition fle (a b : f64) : bool := PrimFloat.leb a b.

(* the average lies between two of the values seen so far (initial value included):
   "between the smallest and the largest of its initial value and all readings so far" *)
Definition in_hull (seen : list f64) (a : f64) : Prop :=
  (exists v, In v seen /\ fle v a = true) /\ (exists v, In v seen /\ fle a v = true).

(* along a reading sequence: after every poll the average is finite and inside the hull of
   the initial value and the values read so far ([seen]); failed reads add nothing to [seen] *)
Fixpoint HullRun (k : kind) (n : Z) (seen : list f64) (a : f64) (rs : list reading) : Prop :=
  match rs with
  | [] => True
  | r :: rest =>
      let a' := poll k n a r in
      let seen' := match value_of k r with Some v => v :: seen | None => seen end in
      is_finite a' = true /\ in_hull seen' a' /\ HullRun k n seen' a' rest
  end.

(* the magnitude guard (DESIGN section 5 C08, finding D20):
     window n >= 2 : |v| <= 2^1021 (about 2.2e307); every integer reading satisfies it
     window n  = 1 : v is an integer of magnitude below 2^52 *)
Definition boundedb (v : f64) : bool := PrimFloat.leb (PrimFloat.abs v) 0x1p1021%float.
Definition small_int (v : f64) : Prop := exists z, Z.abs z < 2 ^ 52 /\ v = i2f z.
Definition value_ok (n : Z) (v : f64) : Prop := if n =? 1 then small_int v else boundedb v = true.
