(* Model of the start-up decision logic of internal/controller/controller.go:
   the prelude of DefaultFanController.Run (load RPM data, initialise when it is
   missing, attach, compute the PWM map), RunInitializationSequence,
   computePwmMap / computePwmMapAutomatically, and of the commands `fan reset`
   (cmd/fan/reset.go) and `fan init` (cmd/fan/init.go), as total functions over a
   database state (per fan id: RPM data stored?, stored PWM map).

   What is abstracted: the contents of the RPM curve (only "stored or not"),
   device / bbolt failures (the device and the database answer; assumption
   [device_answers], [db_answers] of lib/props/C15.py), the settle detector
   waitForFanToSettle (terminates; driven by the fake fan in the harness).
   The device's response to a PWM write is the explicit oracle [cap_dev]. *)
From Coq Require Import ZArith Bool List Lia.
From F2G Require Import Go.GoFloat gen.Consts Model.Util Model.Fan.
Import ListNotations.
Open Scope Z_scope.

Definition pmap := list (Z * Z).          (* key-sorted association list *)

Inductive action :=
| Sweep            (* computePwmMapAutomatically: SetPwm 255, 254, ..., 0 with read-back *)
| MeasureRpm       (* RPM-curve measurement loop of RunInitializationSequence read an RPM at a set PWM *)
| LoadedData       (* persistence.LoadFanPwmData succeeded *)
| LoadedMap        (* persistence.LoadFanPwmMap succeeded and the stored map was taken *)
| UseConfigMap     (* configured pwmMap taken *)
| SavedData        (* persistence.SaveFanPwmData *)
| SavedMap         (* persistence.SaveFanPwmMap *)
| Regulate         (* the control loop was entered (first regulation cycle) *)
| Err              (* Run / RunInitializationSequence returned an error *)
| Lock | Unlock.   (* InitializationSequenceMutex, taken only when runFanInitializationInParallel = false *)

Definition action_eqb (a b : action) : bool :=
  match a, b with
  | Sweep, Sweep | MeasureRpm, MeasureRpm | LoadedData, LoadedData | LoadedMap, LoadedMap
  | UseConfigMap, UseConfigMap | SavedData, SavedData | SavedMap, SavedMap | Regulate, Regulate
  | Err, Err | Lock, Lock | Unlock, Unlock => true
  | _, _ => false
  end.

Lemma action_eqb_eq a b : action_eqb a b = true <-> a = b.
Proof. destruct a, b; cbn; split; congruence. Qed.

(* ---- configuration of one fan (fixed over a history) ---- *)
Record fancfg := mkFanCfg {
  f_kind : kind;                 (* HwMon | FileK | CmdK  (Model.Fan) *)
  f_map : option pmap;           (* Config.PwmMap *)
  f_min : option Z;              (* Config.MinPwm *)
  f_max : option Z;              (* Config.MaxPwm *)
  f_par : bool;                  (* configuration.CurrentConfig.RunFanInitializationInParallel *)
}.

(* ---- capabilities of the device behind it ---- *)
Record caps := mkCaps {
  cap_pwm : bool;                (* Supports(FeaturePwmSensor): the PWM value can be read back *)
  cap_rpm : bool;                (* Supports(FeatureRpmSensor) *)
  cap_dev : list (Z * Z);        (* device response oracle: a write of w reads back as v for (w, v) listed, as w otherwise *)
}.

Fixpoint assoc (l : list (Z * Z)) (k : Z) : option Z :=
  match l with
  | [] => None
  | (k', v) :: r => if k' =? k then Some v else assoc r k
  end.
Definition dev (c : caps) (w : Z) : Z := match assoc (cap_dev c) w with Some v => v | None => w end.

(* ---- database: per fan id ---- *)
Record entry := mkEntry { e_data : bool; e_map : option pmap }.
Definition db := Z -> entry.
Definition empty_entry := mkEntry false None.
Definition upd (d : db) (id : Z) (e : entry) : db := fun j => if j =? id then e else d j.

(* ---- maps ---- *)
Fixpoint zrange_from (lo : Z) (n : nat) : list Z :=
  match n with O => [] | S n' => lo :: zrange_from (lo + 1) n' end.
Definition pwm_values : list Z := zrange_from MinPwmValue (Z.to_nat (MaxPwmValue - MinPwmValue + 1)).
(* util.InterpolateLinearlyInt({0:0, 255:255}, 0, 255) *)
Definition default_map : pmap := map (fun i => (i, i)) pwm_values.
(* computePwmMapAutomatically on a readable device: pwmMap[i] = read-back after SetPwm(i) *)
Definition swept_map (c : caps) : pmap := map (fun i => (i, dev c i)) pwm_values.

(* computePwmMap without the mutex (the body shared by Run and RunInitializationSequence).
   [mem] = f.pwmMap on entry, [st] = the stored map. Result: actions, f.pwmMap, stored map. *)
Definition compute_map (f : fancfg) (c : caps) (mem : option pmap) (st : option pmap)
  : list action * option pmap * option pmap :=
  match f_map f with
  | Some m => ([UseConfigMap], Some m, st)
  | None =>
    match st with
    | Some sm => ([LoadedMap], Some sm, st)
    | None =>
      match mem with
      | Some m => ([SavedMap], Some m, Some m)
      | None =>
        if cap_pwm c then ([Sweep; SavedMap], Some (swept_map c), Some (swept_map c))
        else ([SavedMap], Some default_map, Some default_map)
      end
    end
  end.

Definition locked (par : bool) (a : list action) : list action :=
  if par then a else Lock :: a ++ [Unlock].

(* RPM-curve measurement: the distinct targets whose read-back equals the mapped value
   (the others are skipped by the loop). Unreadable PWM: getPwm() answers lastSetPwm. *)
Definition passes (c : caps) (m : pmap) (k : Z) : bool :=
  let w := lookup m k in
  if cap_pwm c then dev c w =? w else w =? k.
Definition measured (c : caps) (m : pmap) : list Z := filter (passes c m) (supported m).

Definition odflt_map (o : option pmap) : pmap := match o with Some m => m | None => [] end.

(* RunInitializationSequence.  Result: actions, ok?, f.pwmMap, db entry. *)
Definition init_seq (f : fancfg) (c : caps) (mem : option pmap) (e : entry)
  : list action * bool * option pmap * entry :=
  let '(a1, mem1, _) := compute_map f c mem (e_map e) in
  (* SaveFanPwmMap(fan.GetId(), f.pwmMap) *)
  let e1 := mkEntry (e_data e) mem1 in
  let a := a1 ++ [SavedMap] in
  if negb (cap_rpm c) then (locked (f_par f) a, true, mem1, e1)
  else
    match measured c (odflt_map mem1) with
    | [] =>
        (* nothing measured: AttachFanRpmCurveData rejects empty data on a hwmon fan *)
        match f_kind f with
        | HwMon => (locked (f_par f) a, false, mem1, e1)
        | _ => (locked (f_par f) (a ++ [SavedData]), true, mem1, mkEntry true mem1)
        end
    | _ :: _ => (locked (f_par f) (a ++ [MeasureRpm; SavedData]), true, mem1, mkEntry true mem1)
    end.

(* Run: does a missing RPM curve lead to the initialisation sequence? *)
Definition needs_init (f : fancfg) : bool :=
  match f_kind f with
  | HwMon => negb (is_some (f_min f) && is_some (f_max f))
  | _ => false
  end.

(* Run up to the first regulation cycle. Result: actions, db entry, f.pwmMap *)
Definition start (f : fancfg) (c : caps) (e : entry) : list action * entry * option pmap :=
  let '(a0, ok0, mem0, e0) :=
    if e_data e then ([LoadedData], true, None, e)
    else if needs_init f then init_seq f c None e
    else ([SavedData], true, None, mkEntry true (e_map e)) in
  if negb ok0 then (a0 ++ [Err], e0, mem0)
  else if negb (e_data e0) then (a0 ++ [Err], e0, mem0)       (* second LoadFanPwmData fails *)
  else
    let '(a1, mem1, st1) := compute_map f c mem0 (e_map e0) in
    (a0 ++ [LoadedData] ++ locked (f_par f) a1 ++ [Regulate], mkEntry true st1, mem1).

(* the interface named in DESIGN.md: startup cfg caps db : list action * db' *)
Definition startup (f : fancfg) (c : caps) (e : entry) : list action * entry :=
  let '(a, e', _) := start f c e in (a, e').
Definition start_actions f c e := fst (startup f c e).
Definition start_map f c e := snd (start f c e).

(* `fan init`: delete both entries, then RunInitializationSequence on a fresh controller *)
Definition init_cmd (f : fancfg) (c : caps) (e : entry) : list action * entry :=
  let '(a, ok, _, e') := init_seq f c None empty_entry in
  (if ok then a else a ++ [Err], e').

(* ---- commands over the database ---- *)
Inductive cmd := Start (id : Z) | Stop (id : Z) | Reset (id : Z) | Init (id : Z).
Definition fleet := Z -> option (fancfg * caps).

Definition acts (fl : fleet) (d : db) (c : cmd) : list action :=
  match c with
  | Start id => match fl id with Some (f, cp) => start_actions f cp (d id) | None => [] end
  | Init id => match fl id with Some (f, cp) => fst (init_cmd f cp (d id)) | None => [] end
  | Stop _ | Reset _ => []
  end.

Definition step (fl : fleet) (d : db) (c : cmd) : db :=
  match c with
  | Start id => match fl id with Some (f, cp) => upd d id (snd (startup f cp (d id))) | None => d end
  | Init id => match fl id with Some (f, cp) => upd d id (snd (init_cmd f cp (d id))) | None => d end
  | Reset id => upd d id empty_entry
  | Stop _ => d
  end.

Definition exec (fl : fleet) (d : db) (cs : list cmd) : db := fold_left (step fl) cs d.

Fixpoint run (fl : fleet) (d : db) (cs : list cmd) : list (cmd * list action) :=
  match cs with
  | [] => []
  | c :: r => (c, acts fl d c) :: run fl (step fl d c) r
  end.

Definition analysis_free (a : list action) : Prop := ~ In Sweep a /\ ~ In MeasureRpm a.
Definition completed (a : list action) : Prop := In Regulate a.
