(* Model of internal/util/math.go, map.go, slice.go (hand-written; tied to the
   code by the correspondence drivers `closest`, `curves`, `sensor`, and for the
   leaf arithmetic functions by gen/Leaf.v + Proofs/LeafTie.v). *)
From Coq Require Import ZArith Bool List Floats Lia.
From F2G Require Import Go.GoFloat.
Import ListNotations.
Open Scope Z_scope.

(* ---- util.Coerce / Ratio / UpdateSimpleMovingAvg (float64) ---- *)
Definition Coerce (v lo hi : f64) : f64 :=
  if PrimFloat.ltb hi v then hi else if PrimFloat.ltb v lo then lo else v.

Definition Ratio (t a b : f64) : f64 :=
  PrimFloat.div (PrimFloat.mul (PrimFloat.div (PrimFloat.sub t a) (PrimFloat.sub b a)) 100) 100.

Definition upd_avg (old : f64) (n : Z) (x : f64) : f64 :=
  PrimFloat.add old (PrimFloat.mul (PrimFloat.div 1 (i2f n)) (PrimFloat.sub x old)).

(* ---- FindClosest / getClosest (int) ---- *)
Definition getClosest (v1 v2 t : Z) : Z := if v2 - t <=? t - v1 then v2 else v1.

Inductive fc_result := FcVal (z : Z) | FcPanic | FcOutOfFuel.

Definition get (arr : list Z) (i : Z) : option Z :=
  if (i <? 0) then None else nth_error arr (Z.to_nat i).

Definition zlen (arr : list Z) : Z := Z.of_nat (length arr).

(* one `for i < j` loop of FindClosest; [mid0] is the value of mid on entry *)
Fixpoint fc_loop (fuel : nat) (t : Z) (arr : list Z) (i j mid0 : Z) : fc_result :=
  match fuel with
  | O => FcOutOfFuel
  | S fuel' =>
    if i <? j then
      let mid := (i + j) / 2 in
      match get arr mid with
      | None => FcPanic
      | Some am =>
        if am =? t then FcVal am
        else if t <? am then
          if 0 <? mid then
            match get arr (mid - 1) with
            | None => FcPanic
            | Some ap => if ap <? t then FcVal (getClosest ap am t)
                         else fc_loop fuel' t arr i mid mid
            end
          else fc_loop fuel' t arr i mid mid
        else
          if mid <? zlen arr - 1 then
            match get arr (mid + 1) with
            | None => FcPanic
            | Some an => if t <? an then FcVal (getClosest am an t)
                         else fc_loop fuel' t arr (mid + 1) j mid
            end
          else fc_loop fuel' t arr (mid + 1) j mid
      end
    else match get arr mid0 with Some a => FcVal a | None => FcPanic end
  end.

Definition FindClosest (t : Z) (arr : list Z) : fc_result :=
  match get arr 0, get arr (zlen arr - 1) with
  | Some a0, Some al =>
      if t <=? a0 then FcVal a0
      else if al <=? t then FcVal al
      else fc_loop (S (length arr)) t arr 0 (zlen arr) 0
  | _, _ => FcPanic      (* arr[0] on an empty slice: index out of range *)
  end.

(* ---- ExtractKeysWithDistinctValues over the key-sorted association list ---- *)
Fixpoint extract (last : Z) (pm : list (Z * Z)) : list Z :=
  match pm with
  | [] => []
  | (k, v) :: r =>
      if (last =? -1) || negb (last =? v) then k :: extract v r else extract last r
  end.
Definition supported (pm : list (Z * Z)) : list Z := extract (-1) pm.

(* Go map lookup: the zero value for a missing key *)
Fixpoint lookup (pm : list (Z * Z)) (k : Z) : Z :=
  match pm with
  | [] => 0
  | (k', v) :: r => if k' =? k then v else lookup r k
  end.

(* controller.setPwm: value handed to Fan.SetPwm for request r *)
Definition written (pm : list (Z * Z)) (r : Z) : fc_result :=
  match FindClosest r (supported pm) with
  | FcVal k => FcVal (lookup pm k)
  | other => other
  end.

(* ---- the controller's rescale  min + int(float64(t)/255 * (float64(max)-float64(min))) ---- *)
Definition rescale (t lo hi : Z) : Z :=
  lo + f2i (PrimFloat.mul (PrimFloat.div (i2f t) 255) (PrimFloat.sub (i2f hi) (i2f lo))).

(* ---- CalculateInterpolatedCurveValue over key-sorted steps ---- *)
Inductive interp_result := IvVal (x : f64) | IvPanic.

Fixpoint interp_loop (first : bool) (steps : list (Z * f64)) (input : f64) : interp_result :=
  match steps with
  | [] => IvPanic
  | [(x, y)] => IvVal y                                   (* fell through: largest step *)
  | (cx, cy) :: (((nx, ny) :: _) as rest) =>
      if first && PrimFloat.leb input (i2f cx) then IvVal cy
      else if PrimFloat.leb (i2f nx) input then interp_loop false rest input
      else if PrimFloat.eqb input (i2f cx) then IvVal cy
      else
        let ratio := Ratio input (i2f cx) (i2f nx) in
        IvVal (to_f32 (PrimFloat.add cy (PrimFloat.mul ratio (PrimFloat.sub ny cy))))
  end.

Definition interpolate (steps : list (Z * f64)) (input : f64) : interp_result :=
  interp_loop true steps input.
