(* C12: FindClosest returns a nearest element of a strictly sorted, non-empty
   slice; ExtractKeysWithDistinctValues returns the first key of each run. *)
From Coq Require Import ZArith Bool List Lia Sorting.Sorted.
From F2G Require Import Go.GoFloat Model.Util.
Import ListNotations.
Open Scope Z_scope.

Definition sorted_idx (arr : list Z) : Prop :=
  forall a b x y, 0 <= a -> a < b -> get arr a = Some x -> get arr b = Some y -> x < y.

Lemma get_some_lt arr i x : get arr i = Some x -> 0 <= i < zlen arr.
Proof.
  unfold get, zlen. destruct (i <? 0) eqn:E; [discriminate|].
  intros H. apply Z.ltb_ge in E. split; [lia|].
  assert (Z.to_nat i < length arr)%nat by (apply nth_error_Some; congruence). lia.
Qed.

Lemma get_in arr i x : get arr i = Some x -> In x arr.
Proof. unfold get. destruct (i <? 0); [discriminate|]. apply nth_error_In. Qed.

Lemma get_ex arr i : 0 <= i < zlen arr -> exists x, get arr i = Some x.
Proof.
  unfold get, zlen. intros H. destruct (i <? 0) eqn:E; [apply Z.ltb_lt in E; lia|].
  destruct (nth_error arr (Z.to_nat i)) eqn:N; [eauto|].
  apply nth_error_None in N. lia.
Qed.

Lemma in_get arr x : In x arr -> exists i, get arr i = Some x.
Proof.
  intros H. apply In_nth_error in H. destruct H as [n Hn].
  exists (Z.of_nat n). unfold get. destruct (Z.of_nat n <? 0) eqn:E; [apply Z.ltb_lt in E; lia|].
  now rewrite Nat2Z.id.
Qed.

Lemma sorted_idx_le arr a b x y :
  sorted_idx arr -> 0 <= a -> a <= b -> get arr a = Some x -> get arr b = Some y -> x <= y.
Proof.
  intros S Ha Hab Hx Hy. destruct (Z.eq_dec a b) as [->|N].
  - rewrite Hx in Hy. inversion Hy. lia.
  - assert (x < y) by (eapply (S a b); eauto; lia). lia.
Qed.

Lemma StronglySorted_sorted_idx arr : StronglySorted Z.lt arr -> sorted_idx arr.
Proof.
  induction 1 as [|h tl Hs IH Hall]; intros a b x y Ha Hab Hx Hy.
  - unfold get in Hx. destruct (a <? 0); [discriminate|]. destruct (Z.to_nat a); discriminate.
  - unfold get in Hx, Hy.
    destruct (a <? 0) eqn:Ea; [apply Z.ltb_lt in Ea; lia|].
    destruct (b <? 0) eqn:Eb; [apply Z.ltb_lt in Eb; lia|].
    destruct (Z.to_nat b) as [|nb] eqn:Nb; [lia|]. simpl in Hy.
    destruct (Z.to_nat a) as [|na] eqn:Na; simpl in Hx.
    + inversion Hx; subst. rewrite Forall_forall in Hall. apply Hall. eapply nth_error_In; eauto.
    + apply (IH (Z.of_nat na) (Z.of_nat nb) x y); try lia.
      * unfold get. destruct (Z.of_nat na <? 0) eqn:E; [apply Z.ltb_lt in E; lia|]. now rewrite Nat2Z.id.
      * unfold get. destruct (Z.of_nat nb <? 0) eqn:E; [apply Z.ltb_lt in E; lia|]. now rewrite Nat2Z.id.
Qed.

Definition nearest (arr : list Z) (t k : Z) : Prop :=
  In k arr /\ forall k', In k' arr -> Z.abs (k - t) <= Z.abs (k' - t).

(* between two adjacent elements nothing else lives *)
Lemma adjacent_gap arr m x y k :
  sorted_idx arr -> 0 <= m -> get arr m = Some x -> get arr (m + 1) = Some y ->
  In k arr -> k <= x \/ y <= k.
Proof.
  intros S Hm Hx Hy Hk. apply in_get in Hk. destruct Hk as [i Hi].
  pose proof (get_some_lt _ _ _ Hi) as Bi.
  destruct (Z_le_gt_dec i m) as [L|G].
  - left. eapply (sorted_idx_le arr i m); eauto; lia.
  - right. eapply (sorted_idx_le arr (m+1) i); eauto; lia.
Qed.

Lemma getClosest_nearest arr m x y t :
  sorted_idx arr -> 0 <= m -> get arr m = Some x -> get arr (m + 1) = Some y ->
  x < t -> t < y -> nearest arr t (getClosest x y t).
Proof.
  intros S Hm Hx Hy L R. unfold nearest, getClosest.
  destruct (y - t <=? t - x) eqn:E; [apply Z.leb_le in E | apply Z.leb_gt in E].
  - split; [eapply get_in; eauto|]. intros k' Hk'.
    destruct (adjacent_gap arr m x y k' S Hm Hx Hy Hk'); lia.
  - split; [eapply get_in; eauto|]. intros k' Hk'.
    destruct (adjacent_gap arr m x y k' S Hm Hx Hy Hk'); lia.
Qed.

Definition loop_inv (t : Z) (arr : list Z) (i j : Z) : Prop :=
  0 <= i /\ i < j /\ j <= zlen arr /\
  (forall x, 0 < i -> get arr (i - 1) = Some x -> x < t) /\
  (forall y, j < zlen arr -> get arr j = Some y -> t < y) /\
  (forall a0, get arr 0 = Some a0 -> a0 < t) /\
  (forall al, get arr (zlen arr - 1) = Some al -> t < al).

Lemma fc_loop_correct fuel : forall t arr i j mid0,
  sorted_idx arr -> loop_inv t arr i j -> (Z.to_nat (j - i) < fuel)%nat ->
  exists k, fc_loop fuel t arr i j mid0 = FcVal k /\ nearest arr t k.
Proof.
  induction fuel as [|fuel IH]; intros t arr i j mid0 S Inv F; [lia|].
  destruct Inv as (Hi & Hij & Hj & HL & HR & H0 & HN).
  cbn [fc_loop]. destruct (i <? j) eqn:Eij; [|apply Z.ltb_ge in Eij; lia].
  remember ((i + j) / 2) as mid eqn:Emid.
  assert (Hmid : i <= mid < j) by (subst mid; split; [apply Z.div_le_lower_bound|apply Z.div_lt_upper_bound]; lia).
  clear Emid.
  destruct (get_ex arr mid) as [am Ham]; [lia|]. rewrite Ham.
  destruct (am =? t) eqn:Eam.
  { apply Z.eqb_eq in Eam. subst am. exists t. split; [reflexivity|].
    split; [eapply get_in; eauto|]. intros; lia. }
  apply Z.eqb_neq in Eam.
  destruct (t <? am) eqn:Elt; [apply Z.ltb_lt in Elt | apply Z.ltb_ge in Elt].
  - (* target left of arr[mid] *)
    destruct (0 <? mid) eqn:Em; [apply Z.ltb_lt in Em | apply Z.ltb_ge in Em].
    + destruct (get_ex arr (mid - 1)) as [ap Hap]; [lia|]. rewrite Hap.
      destruct (ap <? t) eqn:Eap; [apply Z.ltb_lt in Eap | apply Z.ltb_ge in Eap].
      * eexists; split; [reflexivity|].
        apply (getClosest_nearest arr (mid - 1)); auto; try lia.
        replace (mid - 1 + 1) with mid by lia. exact Ham.
      * (* continue left: j := mid, and i < mid *)
        assert (i < mid).
        { destruct (Z.eq_dec i mid) as [->|]; [|lia].
          specialize (HL ap Em Hap). lia. }
        apply IH; auto; [|lia].
        repeat split; auto; try lia.
        intros y _ Hy. rewrite Ham in Hy. inversion Hy; subst. lia.
    + (* mid = 0: then arr[0] > t contradicts the corner case *)
      assert (mid = 0) by lia. rewrite H in Ham. specialize (H0 _ Ham). lia.
  - (* target right of arr[mid] *)
    assert (am < t) by lia.
    destruct (mid <? zlen arr - 1) eqn:Em; [apply Z.ltb_lt in Em | apply Z.ltb_ge in Em].
    + destruct (get_ex arr (mid + 1)) as [an Han]; [lia|]. rewrite Han.
      destruct (t <? an) eqn:Ean; [apply Z.ltb_lt in Ean | apply Z.ltb_ge in Ean].
      * eexists; split; [reflexivity|].
        apply (getClosest_nearest arr mid); auto; lia.
      * assert (mid + 1 < j).
        { destruct (Z.eq_dec (mid + 1) j) as [E|]; [|lia].
          rewrite E in Han. specialize (HR an ltac:(lia) Han). lia. }
        apply IH; auto; [|lia].
        repeat split; auto; try lia.
        intros x _ Hx. replace (mid + 1 - 1) with mid in Hx by lia.
        rewrite Ham in Hx. inversion Hx; subst. lia.
    + assert (mid = zlen arr - 1) by lia. rewrite H1 in Ham. specialize (HN _ Ham). lia.
Qed.

Theorem FindClosest_nearest t arr :
  sorted_idx arr -> arr <> [] ->
  exists k, FindClosest t arr = FcVal k /\ nearest arr t k.
Proof.
  intros S NE. unfold FindClosest.
  assert (Hlen : 0 < zlen arr) by (unfold zlen; destruct arr; [congruence|simpl; lia]).
  destruct (get_ex arr 0) as [a0 H0]; [lia|].
  destruct (get_ex arr (zlen arr - 1)) as [al Hl]; [lia|].
  rewrite H0, Hl.
  destruct (t <=? a0) eqn:E0; [apply Z.leb_le in E0 | apply Z.leb_gt in E0].
  { exists a0. split; [reflexivity|]. split; [eapply get_in; eauto|].
    intros k' Hk'. apply in_get in Hk'. destruct Hk' as [i Hi].
    pose proof (get_some_lt _ _ _ Hi).
    assert (a0 <= k') by (eapply (sorted_idx_le arr 0 i); eauto; lia). lia. }
  destruct (al <=? t) eqn:El; [apply Z.leb_le in El | apply Z.leb_gt in El].
  { exists al. split; [reflexivity|]. split; [eapply get_in; eauto|].
    intros k' Hk'. apply in_get in Hk'. destruct Hk' as [i Hi].
    pose proof (get_some_lt _ _ _ Hi).
    assert (k' <= al) by (eapply (sorted_idx_le arr i (zlen arr - 1)); eauto; lia). lia. }
  apply fc_loop_correct; auto.
  - repeat split; try lia.
    + intros a Ha. rewrite H0 in Ha. inversion Ha; subst; lia.
    + intros a Ha. rewrite Hl in Ha. inversion Ha; subst; lia.
  - unfold zlen. lia.
Qed.

(* exact hit and the two out-of-range cases, as corollaries of nearest-ness *)
Corollary FindClosest_exact t arr :
  sorted_idx arr -> In t arr -> FindClosest t arr = FcVal t.
Proof.
  intros S Hin. destruct (FindClosest_nearest t arr S) as [k [E [_ N]]].
  { intro; subst; contradiction. }
  rewrite E. f_equal. specialize (N t Hin). lia.
Qed.

Corollary FindClosest_never_panics t arr :
  sorted_idx arr -> arr <> [] -> FindClosest t arr <> FcPanic /\ FindClosest t arr <> FcOutOfFuel.
Proof.
  intros S NE. destruct (FindClosest_nearest t arr S NE) as [k [E _]]. rewrite E. split; discriminate.
Qed.

(* ---- supported inputs = first key of every maximal run of equal outputs ---- *)
Fixpoint run_starts (prev : option Z) (pm : list (Z * Z)) : list Z :=
  match pm with
  | [] => []
  | (k, v) :: r =>
      match prev with
      | Some p => if p =? v then run_starts (Some v) r else k :: run_starts (Some v) r
      | None => k :: run_starts (Some v) r
      end
  end.

Lemma extract_run_starts pm : forall last,
  Forall (fun kv => snd kv <> -1) pm -> last <> -1 ->
  extract last pm = run_starts (Some last) pm.
Proof.
  induction pm as [|[k v] r IH]; intros last Hall Hl; [reflexivity|].
  inversion Hall as [|? ? Hv Hr]; subst. simpl in Hv. cbn [extract run_starts].
  destruct (last =? -1) eqn:E1; [apply Z.eqb_eq in E1; congruence|].
  destruct (last =? v) eqn:E2; cbn [orb negb].
  - apply Z.eqb_eq in E2. subst. apply IH; auto.
  - f_equal. apply IH; auto.
Qed.

Theorem supported_run_starts pm :
  Forall (fun kv => snd kv <> -1) pm -> supported pm = run_starts None pm.
Proof.
  unfold supported. destruct pm as [|[k v] r]; [reflexivity|]. intros Hall.
  inversion Hall as [|? ? Hv Hr]; subst. simpl in Hv.
  cbn [extract run_starts]. rewrite Z.eqb_refl. cbn [orb]. f_equal.
  apply extract_run_starts; auto.
Qed.

(* outside the hypothesis the sentinel -1 bites: documented, not hidden *)
Example supported_sentinel : supported [(0, -1); (1, -1); (2, 5)] = [0; 1; 2]
  /\ run_starts None [(0, -1); (1, -1); (2, 5)] = [0; 2].
Proof. split; reflexivity. Qed.

(* keys of [supported pm] are keys of pm, in order *)
Lemma extract_sub pm : forall last k, In k (extract last pm) -> In k (map fst pm).
Proof.
  induction pm as [|[k' v] r IH]; intros last k H; [contradiction|].
  cbn [extract] in H. destruct ((last =? -1) || negb (last =? v)).
  - destruct H as [->|H]; [left; reflexivity|right; eapply IH; eauto].
  - right; eapply IH; eauto.
Qed.

Lemma extract_sorted pm : forall last,
  StronglySorted Z.lt (map fst pm) -> StronglySorted Z.lt (extract last pm).
Proof.
  induction pm as [|[k v] r IH]; intros last S; [constructor|].
  cbn [map fst] in S. inversion S as [|? ? Sr Hall]; subst.
  cbn [extract]. destruct ((last =? -1) || negb (last =? v)); [|apply IH; auto].
  constructor; [apply IH; auto|].
  rewrite Forall_forall in *. intros x Hx. apply Hall. eapply extract_sub; eauto.
Qed.

Lemma supported_nonempty pm : pm <> [] -> supported pm <> [].
Proof. destruct pm as [|[k v] r]; [congruence|]. intros _. unfold supported. cbn. discriminate. Qed.

Lemma lookup_in pm k : In k (map fst pm) -> In (lookup pm k) (map snd pm).
Proof.
  induction pm as [|[k' v] r IH]; [contradiction|]. cbn [map fst snd lookup]. intros [->|H].
  - rewrite Z.eqb_refl. left; reflexivity.
  - destruct (k' =? k); [left; reflexivity | right; auto].
Qed.

(* C12 assembled: what setPwm hands to the fan *)
Theorem written_spec pm r :
  pm <> [] -> StronglySorted Z.lt (map fst pm) ->
  exists k, FindClosest r (supported pm) = FcVal k /\ nearest (supported pm) r k
            /\ written pm r = FcVal (lookup pm k) /\ In (lookup pm k) (map snd pm).
Proof.
  intros NE S.
  destruct (FindClosest_nearest r (supported pm)) as [k [E N]].
  - apply StronglySorted_sorted_idx, extract_sorted, S.
  - apply supported_nonempty, NE.
  - exists k. repeat split; auto; try apply N.
    + unfold written. now rewrite E.
    + apply lookup_in. destruct N as [Hin _]. eapply extract_sub; eauto.
Qed.
