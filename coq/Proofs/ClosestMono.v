(* C12, further consequences of nearest-ness: the value chosen for a request is
   monotone in the request (a larger request is never mapped to a smaller
   supported input), and supported inputs are fixed points of the selection. *)
From Coq Require Import ZArith Bool List Lia Sorting.Sorted.
From F2G Require Import Go.GoFloat Model.Util Proofs.Closest.
Import ListNotations.
Open Scope Z_scope.

(* two nearest elements for two ordered requests cannot cross: the difference
   |k1-t| - |k2-t| is non-increasing in t and vanishes at one point only *)
Lemma nearest_no_cross arr t1 t2 k1 k2 :
  t1 < t2 -> nearest arr t1 k1 -> nearest arr t2 k2 -> k1 <= k2.
Proof.
  intros Hlt [I1 N1] [I2 N2]. specialize (N1 k2 I2). specialize (N2 k1 I1). lia.
Qed.

Theorem FindClosest_monotone arr t1 t2 k1 k2 :
  sorted_idx arr -> arr <> [] -> t1 <= t2 ->
  FindClosest t1 arr = FcVal k1 -> FindClosest t2 arr = FcVal k2 -> k1 <= k2.
Proof.
  intros S NE Hle E1 E2.
  destruct (Z.eq_dec t1 t2) as [->|Hne].
  - rewrite E1 in E2. inversion E2. lia.
  - destruct (FindClosest_nearest t1 arr S NE) as [a [Ea Na]].
    destruct (FindClosest_nearest t2 arr S NE) as [b [Eb Nb]].
    rewrite E1 in Ea. rewrite E2 in Eb. inversion Ea; inversion Eb; subst.
    eapply nearest_no_cross; eauto. lia.
Qed.

(* the selected supported input is monotone in the request, for every map *)
Theorem selected_monotone pm r1 r2 :
  pm <> [] -> StronglySorted Z.lt (map fst pm) -> r1 <= r2 ->
  exists k1 k2, FindClosest r1 (supported pm) = FcVal k1 /\ FindClosest r2 (supported pm) = FcVal k2
                /\ k1 <= k2 /\
                written pm r1 = FcVal (lookup pm k1) /\ written pm r2 = FcVal (lookup pm k2).
Proof.
  intros NE S Hle.
  assert (S' : sorted_idx (supported pm)) by (apply StronglySorted_sorted_idx, extract_sorted, S).
  assert (NE' : supported pm <> []) by (apply supported_nonempty, NE).
  destruct (FindClosest_nearest r1 _ S' NE') as [k1 [E1 N1]].
  destruct (FindClosest_nearest r2 _ S' NE') as [k2 [E2 N2]].
  exists k1, k2.
  assert (Hk : k1 <= k2) by (eapply FindClosest_monotone; eauto).
  repeat split; auto; try lia.
  - unfold written. now rewrite E1.
  - unfold written. now rewrite E2.
Qed.

(* a supported input is handed through unchanged: the fan receives exactly the
   mapped output of the request *)
Theorem written_fixed_point pm k :
  StronglySorted Z.lt (map fst pm) -> In k (supported pm) ->
  written pm k = FcVal (lookup pm k).
Proof.
  intros S Hin. unfold written.
  rewrite FindClosest_exact; auto.
  apply StronglySorted_sorted_idx, extract_sorted, S.
Qed.

(* if the outputs are non-decreasing along the keys (the usual shape of a PWM
   map), the value written is monotone in the request as well *)
Lemma lookup_monotone pm : 
  StronglySorted Z.lt (map fst pm) -> StronglySorted Z.le (map snd pm) ->
  forall k1 k2, In k1 (map fst pm) -> In k2 (map fst pm) -> k1 <= k2 -> lookup pm k1 <= lookup pm k2.
Proof.
  induction pm as [|[k v] r IH]; intros SK SV k1 k2 H1 H2 Hle; [contradiction|].
  cbn [map fst snd] in *. inversion SK as [|? ? SKr HK]; subst. inversion SV as [|? ? SVr HV]; subst.
  rewrite Forall_forall in HK, HV.
  cbn [lookup].
  destruct (Z.eqb_spec k k1) as [E1|E1]; destruct (Z.eqb_spec k k2) as [E2|E2].
  - lia.
  - destruct H2 as [H2|H2]; [congruence|]. apply HV. apply lookup_in. exact H2.
  - subst k2. destruct H1 as [H1|H1]; [congruence|]. specialize (HK _ H1). lia.
  - destruct H1 as [H1|H1]; [congruence|]. destruct H2 as [H2|H2]; [congruence|]. apply IH; auto.
Qed.

Theorem written_monotone pm r1 r2 v1 v2 :
  pm <> [] -> StronglySorted Z.lt (map fst pm) -> StronglySorted Z.le (map snd pm) -> r1 <= r2 ->
  written pm r1 = FcVal v1 -> written pm r2 = FcVal v2 -> v1 <= v2.
Proof.
  intros NE SK SV Hle W1 W2.
  destruct (selected_monotone pm r1 r2 NE SK Hle) as [k1 [k2 [E1 [E2 [Hk [X1 X2]]]]]].
  rewrite W1 in X1. rewrite W2 in X2. inversion X1; inversion X2; subst.
  assert (S' : sorted_idx (supported pm)) by (apply StronglySorted_sorted_idx, extract_sorted, SK).
  assert (NE' : supported pm <> []) by (apply supported_nonempty, NE).
  destruct (FindClosest_nearest r1 _ S' NE') as [a [Ea [Ia _]]].
  destruct (FindClosest_nearest r2 _ S' NE') as [b [Eb [Ib _]]].
  rewrite E1 in Ea. rewrite E2 in Eb. inversion Ea; inversion Eb; subst.
  apply lookup_monotone; auto; eapply extract_sub; eauto.
Qed.

(* ---- nothing the map can produce is lost: every output value of the map is
   the mapped output of some supported input (first key of its first run) ---- *)
Lemma lookup_skip k0 v0 r k :
  Forall (fun x => k0 < x) (map fst r) -> In k (map fst r) -> lookup ((k0, v0) :: r) k = lookup r k.
Proof.
  intros HK Hin. rewrite Forall_forall in HK. specialize (HK _ Hin).
  cbn [lookup]. destruct (Z.eqb_spec k0 k); [lia|reflexivity].
Qed.

Lemma extract_covers pm : forall last v,
  StronglySorted Z.lt (map fst pm) -> In v (map snd pm) ->
  v = last \/ exists k, In k (extract last pm) /\ lookup pm k = v.
Proof.
  induction pm as [|[k0 v0] r IH]; intros last v S Hin; [contradiction|].
  cbn [map fst snd] in S, Hin. inversion S as [|? ? Sr HK]; subst.
  assert (Hk0 : lookup ((k0, v0) :: r) k0 = v0) by (cbn [lookup]; now rewrite Z.eqb_refl).
  cbn [extract]. destruct ((last =? -1) || negb (last =? v0)) eqn:C.
  - right. destruct Hin as [<-|Hin].
    + exists k0. split; [left; reflexivity|exact Hk0].
    + destruct (IH v0 v Sr Hin) as [->|[k [Hk L]]].
      * exists k0. split; [left; reflexivity|exact Hk0].
      * exists k. split; [right; exact Hk|].
        rewrite lookup_skip; auto. eapply extract_sub; eauto.
  - apply orb_false_iff in C. destruct C as [_ C]. apply negb_false_iff, Z.eqb_eq in C. subst v0.
    destruct Hin as [<-|Hin]; [left; reflexivity|].
    destruct (IH last v Sr Hin) as [->|[k [Hk L]]]; [left; reflexivity|].
    right. exists k. split; [exact Hk|].
    rewrite lookup_skip; auto. eapply extract_sub; eauto.
Qed.

Theorem supported_covers_outputs pm v :
  StronglySorted Z.lt (map fst pm) -> Forall (fun kv => snd kv <> -1) pm ->
  In v (map snd pm) -> exists k, In k (supported pm) /\ written pm k = FcVal v.
Proof.
  intros S Hall Hin.
  destruct (extract_covers pm (-1) v S Hin) as [->|[k [Hk L]]].
  - exfalso. apply in_map_iff in Hin. destruct Hin as [kv [E Hkv]].
    rewrite Forall_forall in Hall. apply (Hall kv Hkv). exact E.
  - exists k. split; [exact Hk|]. rewrite written_fixed_point; auto. now rewrite L.
Qed.
