(* C11: what acceptance by the (repaired) validator guarantees, that accepted
   configurations instantiate and run without crash or endless recursion, and
   that every configuration assembled from the documented forms is accepted. *)
From Coq Require Import ZArith Bool List Floats Lia.
From F2G Require Import Go.GoFloat Model.Util Model.Config Proofs.ConfigGraph.
Import ListNotations.
Open Scope Z_scope.
Local Opaque fzero.

(* ================================================================== generic lemmas *)
Lemma find_last_some {A} (p : A -> bool) l x : find_last p l = Some x -> In x l /\ p x = true.
Proof.
  induction l as [|a r IH]; cbn; [discriminate|].
  destruct (find_last p r) as [y|] eqn:E.
  - intros H. inversion H; subst. destruct (IH eq_refl). auto.
  - destruct (p a) eqn:Pa; [|discriminate]. intros H. inversion H; subst. auto.
Qed.

Lemma find_last_ex {A} (p : A -> bool) l x : In x l -> p x = true -> exists y, find_last p l = Some y.
Proof.
  induction l as [|a r IH]; cbn; [contradiction|]. intros [->|Hin] Px.
  - destruct (find_last p r); [eauto|]. rewrite Px. eauto.
  - destruct (IH Hin Px) as [y ->]. eauto.
Qed.

Lemma find_last_map {A B} (g : A -> B) (p : B -> bool) l :
  find_last p (map g l) = option_map g (find_last (fun x => p (g x)) l).
Proof.
  induction l as [|a r IH]; cbn; [reflexivity|]. rewrite IH.
  destruct (find_last (fun x => p (g x)) r); cbn; [reflexivity|]. destruct (p (g a)); reflexivity.
Qed.

Lemma map_opt_total {A B} (f : A -> option B) (g : A -> B) l :
  (forall x, In x l -> f x = Some (g x)) -> map_opt f l = Some (map g l).
Proof.
  induction l as [|a r IH]; cbn; intros H; [reflexivity|].
  rewrite (H a (or_introl eq_refl)), IH; [reflexivity|]. intros; apply H; auto.
Qed.

Lemma opt_chk_ok {A} (o : option A) chk k :
  opt_chk o chk k = Ok -> (forall x, o = Some x -> chk x = Ok) /\ k = Ok.
Proof.
  unfold opt_chk. destruct o as [x|].
  - destruct (chk x) eqn:E; try discriminate. intros ->. split; [|reflexivity]. intros y Hy. inversion Hy; subst. exact E.
  - intros ->. split; [discriminate|reflexivity].
Qed.

Lemma opt_chk_intro {A} (o : option A) chk k :
  (forall x, o = Some x -> chk x = Ok) -> k = Ok -> opt_chk o chk k = Ok.
Proof. unfold opt_chk. intros H ->. destruct o as [x|]; [rewrite (H x eq_refl)|]; reflexivity. Qed.

Lemma v_each_ok {A} (id : A -> Z) dup chk : dup <> Ok -> forall l seen,
  v_each id dup chk seen l = Ok ->
  NoDup (map id l) /\ (forall x, In x l -> ~ In (id x) seen) /\ Forall (fun x => chk x = Ok) l.
Proof.
  intros Hd. induction l as [|a r IH]; intros seen H.
  - cbn. repeat split; [constructor | intros x [] | constructor].
  - cbn in H. destruct (memZ (id a) seen) eqn:M; [congruence|]. apply memZ_false in M.
    destruct (chk a) eqn:C; try discriminate.
    destruct (IH _ H) as [ND [NS F]]. split; [|split].
    + cbn. constructor; [|exact ND]. intro Hin. apply in_map_iff in Hin. destruct Hin as [y [E Hy]].
      apply (NS y Hy). left. symmetry. exact E.
    + intros x [<-|Hx]; [exact M|]. intro Hs. apply (NS x Hx). right. exact Hs.
    + constructor; assumption.
Qed.

Lemma v_each_intro {A} (id : A -> Z) dup chk : forall l seen,
  NoDup (map id l) -> (forall x, In x l -> ~ In (id x) seen) -> Forall (fun x => chk x = Ok) l ->
  v_each id dup chk seen l = Ok.
Proof.
  induction l as [|a r IH]; intros seen ND NS F; [reflexivity|].
  cbn. inversion ND as [|? ? Hn ND']; subst. inversion F as [|? ? Ca F']; subst.
  assert (memZ (id a) seen = false) as -> by (apply memZ_false, NS; left; reflexivity).
  rewrite Ca. apply IH; auto.
  intros x Hx [E|Hs].
  - apply Hn. rewrite E. apply in_map. exact Hx.
  - apply (NS x); [right; exact Hx | exact Hs].
Qed.

(* ================================================================== what acceptance guarantees *)
Definition one_backend_each (cfg : config) : Prop :=
  Forall (fun s => sensor_backends s = 1) (sensors cfg)
  /\ Forall (fun c => curve_backends c = 1) (curves cfg)
  /\ Forall (fun f => fan_backends f = 1) (fans cfg).

Definition curve_refs_ok (cfg : config) (c : curve_cfg) : Prop :=
  (forall l, c_linear c = Some l -> In (l_sensor l) (sensor_ids cfg))
  /\ (forall p, c_pid c = Some p -> In (pc_sensor p) (sensor_ids cfg))
  /\ (forall f m, c_func c = Some f -> In m (fn_curves f) -> In m (curve_ids cfg)).

Definition refs_resolve (cfg : config) : Prop :=
  Forall (curve_refs_ok cfg) (curves cfg) /\ Forall (fun f => In (f_curve f) (curve_ids cfg)) (fans cfg).

(* the dependency graph of the curves: an edge from a curve id to every member of
   the function curve registered under that id *)
Definition graph_acyclic (cfg : config) : Prop := acyclic (curve_ids cfg) (succs cfg).

Definition Sound (cfg : config) : Prop :=
  NoDup (sensor_ids cfg) /\ NoDup (curve_ids cfg) /\ NoDup (fan_ids cfg)
  /\ one_backend_each cfg /\ refs_resolve cfg /\ graph_acyclic cfg.

Lemma succs_closed cfg :
  (forall c f m, In c (curves cfg) -> c_func c = Some f -> In m (fn_curves f) -> In m (curve_ids cfg)) ->
  forall u v, In u (curve_ids cfg) -> In v (succs cfg u) -> In v (curve_ids cfg).
Proof.
  intros H u v _ Hv. unfold succs, curve_by_id in Hv.
  destruct (find_last (fun c => c_id c =? u) (curves cfg)) as [c|] eqn:E; [|contradiction].
  apply find_last_some in E. destruct E as [Hc _]. unfold gmembers in Hv.
  destruct (c_func c) as [f|] eqn:Ef; [|contradiction]. eapply H; eauto.
Qed.

Lemma refs_closed cfg : refs_resolve cfg ->
  forall c f m, In c (curves cfg) -> c_func c = Some f -> In m (fn_curves f) -> In m (curve_ids cfg).
Proof.
  intros [R _] c f m Hc Ef Hm. rewrite Forall_forall in R. destruct (R c Hc) as [_ [_ R3]]. eapply R3; eauto.
Qed.

(* ---- per-entry consequences of the checks ---- *)
Lemma chk_sensor_ok s : chk_sensor s = Ok -> sensor_backends s = 1.
Proof.
  unfold chk_sensor. cbv zeta. destruct (1 <? sensor_backends s) eqn:A; [discriminate|].
  destruct (sensor_backends s <=? 0) eqn:B; [discriminate|]. lia.
Qed.

Lemma chk_members_ok cfg self ms :
  chk_members cfg self ms = Ok <-> (forall m, In m ms -> m <> self /\ In m (curve_ids cfg)).
Proof.
  induction ms as [|a r IH]; cbn.
  - split; [intros _ m [] | reflexivity].
  - destruct (a =? self) eqn:E.
    + split; [discriminate|]. intros H. apply Z.eqb_eq in E. destruct (H a (or_introl eq_refl)). contradiction.
    + apply Z.eqb_neq in E. unfold curveIdExists. destruct (memZ a (curve_ids cfg)) eqn:M; cbn.
      * apply memZ_In in M. rewrite IH. split.
        -- intros H m [<-|Hm]; auto.
        -- intros H m Hm. apply H. right. exact Hm.
      * split; [discriminate|]. intros H. apply memZ_false in M. destruct (H a (or_introl eq_refl)). contradiction.
Qed.

Lemma chk_func_ok cfg self f :
  chk_func cfg self f = Ok <->
  fn_type f <> FOther /\ fn_curves f <> [] /\ (forall m, In m (fn_curves f) -> m <> self /\ In m (curve_ids cfg)).
Proof.
  unfold chk_func. destruct (fn_curves f) as [|a r] eqn:Ec.
  - destruct (fn_type f); split; try discriminate; intros [? [? ?]]; congruence.
  - destruct (fn_type f); try (split; [discriminate | intros [? _]; congruence]);
      (rewrite chk_members_ok; split;
       [intros H; split; [discriminate | split; [discriminate | exact H]] | intros [_ [_ H]]; exact H]).
Qed.

Lemma chk_linear_ok cfg l :
  chk_linear cfg l = Ok <-> l_sensor l <> 0 /\ In (l_sensor l) (sensor_ids cfg) /\ l_steps l <> Some [].
Proof.
  unfold chk_linear, sensorIdExists. destruct (l_sensor l =? 0) eqn:E.
  - apply Z.eqb_eq in E. split; [discriminate | intros [? _]; contradiction].
  - apply Z.eqb_neq in E. destruct (memZ (l_sensor l) (sensor_ids cfg)) eqn:M; cbn.
    + apply memZ_In in M. destruct (l_steps l) as [[|? ?]|]; split; try discriminate; try (intros [_ [_ H]]; congruence);
        intros _; repeat split; auto; try discriminate.
    + apply memZ_false in M. split; [discriminate | intros [_ [? _]]; contradiction].
Qed.

Definition nzpid (p i d : f64) : bool := negb (fzero p && fzero i && fzero d).

Lemma chk_pidc_ok cfg p :
  chk_pidc cfg p = Ok <-> pc_sensor p <> 0 /\ In (pc_sensor p) (sensor_ids cfg) /\ nzpid (pc_p p) (pc_i p) (pc_d p) = true.
Proof.
  unfold chk_pidc, sensorIdExists, nzpid. destruct (pc_sensor p =? 0) eqn:E.
  - apply Z.eqb_eq in E. split; [discriminate | intros [? _]; contradiction].
  - apply Z.eqb_neq in E. destruct (memZ (pc_sensor p) (sensor_ids cfg)) eqn:M; cbn.
    + apply memZ_In in M. destruct (fzero (pc_p p) && fzero (pc_i p) && fzero (pc_d p)); cbn; split; try discriminate;
        try (intros [_ [_ H]]; discriminate); intros _; repeat split; auto.
    + apply memZ_false in M. split; [discriminate | intros [_ [? _]]; contradiction].
Qed.

Lemma chk_curve_ok cfg c : chk_curve cfg c = Ok ->
  curve_backends c = 1
  /\ (forall f, c_func c = Some f -> chk_func cfg (c_id c) f = Ok)
  /\ (forall l, c_linear c = Some l -> chk_linear cfg l = Ok)
  /\ (forall p, c_pid c = Some p -> chk_pidc cfg p = Ok).
Proof.
  unfold chk_curve. cbv zeta. destruct (1 <? curve_backends c) eqn:A; [discriminate|].
  destruct (curve_backends c <=? 0) eqn:B; [discriminate|]. intros H.
  apply opt_chk_ok in H. destruct H as [H1 H]. apply opt_chk_ok in H. destruct H as [H2 H].
  apply opt_chk_ok in H. destruct H as [H3 _]. repeat split; auto. lia.
Qed.

Lemma chk_curve_refs cfg c : chk_curve cfg c = Ok -> curve_refs_ok cfg c.
Proof.
  intros H. apply chk_curve_ok in H. destruct H as [_ [Hf [Hl Hp]]]. repeat split.
  - intros l El. apply Hl, chk_linear_ok in El. tauto.
  - intros p Ep. apply Hp, chk_pidc_ok in Ep. tauto.
  - intros f m Ef Hm. apply Hf, chk_func_ok in Ef. destruct Ef as [_ [_ H]]. apply H. exact Hm.
Qed.

Lemma chk_alg_ok a : chk_alg a = Ok -> a_direct a <> None \/ a_pid a <> None.
Proof.
  unfold chk_alg. destruct (a_direct a), (a_pid a); intros H; try discriminate; [left | left | right]; discriminate.
Qed.

Lemma chk_fan_ok cfg f : chk_fan cfg f = Ok ->
  fan_backends f = 1 /\ In (f_curve f) (curve_ids cfg) /\ (forall a, f_alg f = Some a -> chk_alg a = Ok).
Proof.
  unfold chk_fan. cbv zeta. destruct (1 <? fan_backends f) eqn:A; [discriminate|].
  destruct (fan_backends f <=? 0) eqn:B; [discriminate|].
  destruct (f_curve f =? 0); [discriminate|]. unfold curveIdExists.
  destruct (memZ (f_curve f) (curve_ids cfg)) eqn:M; cbn; [|discriminate].
  intros H. apply opt_chk_ok in H. destruct H as [H1 _]. apply memZ_In in M. repeat split; auto. lia.
Qed.

(* ---- boolean form of Sound (used by the observer on implementation output) ---- *)
Fixpoint nodupb (l : list Z) : bool :=
  match l with [] => true | x :: r => negb (memZ x r) && nodupb r end.

Lemma nodupb_spec l : nodupb l = true <-> NoDup l.
Proof.
  induction l as [|a r IH]; cbn.
  - split; [constructor | reflexivity].
  - rewrite andb_true_iff, negb_true_iff, memZ_false, IH. split.
    + intros [? ?]. constructor; assumption.
    + intros H. inversion H; subst. auto.
Qed.

Definition curve_refs_okb (cfg : config) (c : curve_cfg) : bool :=
  match c_linear c with Some l => memZ (l_sensor l) (sensor_ids cfg) | None => true end
  && match c_pid c with Some p => memZ (pc_sensor p) (sensor_ids cfg) | None => true end
  && match c_func c with Some f => forallb (fun m => memZ m (curve_ids cfg)) (fn_curves f) | None => true end.

Lemma curve_refs_okb_spec cfg c : curve_refs_okb cfg c = true <-> curve_refs_ok cfg c.
Proof.
  unfold curve_refs_okb, curve_refs_ok. rewrite !andb_true_iff. split.
  - intros [[H1 H2] H3]. repeat split.
    + intros l E. rewrite E in H1. apply memZ_In. exact H1.
    + intros p E. rewrite E in H2. apply memZ_In. exact H2.
    + intros f m E Hm. rewrite E in H3. rewrite forallb_forall in H3. apply memZ_In. auto.
  - intros [H1 [H2 H3]]. repeat split.
    + destruct (c_linear c) as [l|]; [apply memZ_In; auto | reflexivity].
    + destruct (c_pid c) as [p|]; [apply memZ_In; auto | reflexivity].
    + destruct (c_func c) as [f|]; [|reflexivity]. apply forallb_forall. intros m Hm. apply memZ_In. eauto.
Qed.

Definition soundb (cfg : config) : bool :=
  nodupb (sensor_ids cfg) && nodupb (curve_ids cfg) && nodupb (fan_ids cfg)
  && forallb (fun s => sensor_backends s =? 1) (sensors cfg)
  && forallb (fun c => curve_backends c =? 1) (curves cfg)
  && forallb (fun f => fan_backends f =? 1) (fans cfg)
  && forallb (curve_refs_okb cfg) (curves cfg)
  && forallb (fun f => memZ (f_curve f) (curve_ids cfg)) (fans cfg)
  && graph_acyclicb cfg.

Lemma forallb_Forall {A} (f : A -> bool) (P : A -> Prop) l :
  (forall x, f x = true <-> P x) -> (forallb f l = true <-> Forall P l).
Proof.
  intros H. rewrite forallb_forall, Forall_forall. split; intros G x Hx; apply H, G, Hx.
Qed.

Theorem soundb_spec cfg : soundb cfg = true <-> Sound cfg.
Proof.
  unfold soundb, Sound, one_backend_each, refs_resolve, graph_acyclic, graph_acyclicb.
  rewrite !andb_true_iff, !nodupb_spec.
  rewrite (forallb_Forall _ (fun s => sensor_backends s = 1)) by (intros; apply Z.eqb_eq).
  rewrite (forallb_Forall _ (fun c => curve_backends c = 1)) by (intros; apply Z.eqb_eq).
  rewrite (forallb_Forall _ (fun f => fan_backends f = 1)) by (intros; apply Z.eqb_eq).
  rewrite (forallb_Forall _ (curve_refs_ok cfg)) by (intros; apply curve_refs_okb_spec).
  rewrite (forallb_Forall _ (fun f => In (f_curve f) (curve_ids cfg))) by (intros; apply memZ_In).
  split.
  - intros [[[[[[[[A B] C] D] E] F] G] H] I]. repeat split; auto.
    apply acyclicb_sound. exact I.
  - intros [A [B [C [[D [E F]] [[G H] I]]]]]. repeat split; auto.
    apply acyclicb_complete; [|exact I]. apply succs_closed. apply refs_closed. split; assumption.
Qed.

(* ================================================================== C11_sound *)
Lemma verr_dup_neq : EDupSensor <> Ok /\ EDupCurve <> Ok /\ EDupFan <> Ok.
Proof. repeat split; discriminate. Qed.

Lemma validate_ok_parts cfg p : validate cfg p = Ok -> v_sensors cfg = Ok /\ v_curves cfg = Ok /\ v_fans cfg = Ok.
Proof.
  unfold validate. destruct (v_sensors cfg) eqn:S; try discriminate.
  destruct (v_curves cfg) eqn:C; try discriminate.
  destruct (has_cmd cfg && negb p); [discriminate|]. auto.
Qed.

Lemma v_curves_ok cfg : v_curves cfg = Ok ->
  v_each c_id EDupCurve (chk_curve cfg) [] (curves cfg) = Ok /\ graph_acyclicb cfg = true.
Proof.
  unfold v_curves. destruct (v_each c_id EDupCurve (chk_curve cfg) [] (curves cfg)); try discriminate.
  destruct (graph_acyclicb cfg); [auto | discriminate].
Qed.

Theorem validate_sound cfg p : validate cfg p = Ok -> Sound cfg.
Proof.
  intros H. apply validate_ok_parts in H. destruct H as [S [C F]].
  apply v_curves_ok in C. destruct C as [C A].
  apply v_each_ok in S; [|discriminate]. apply v_each_ok in C; [|discriminate]. apply v_each_ok in F; [|discriminate].
  destruct S as [NS [_ FS]], C as [NC [_ FC]], F as [NF [_ FF]].
  unfold Sound, one_backend_each, refs_resolve. repeat split; auto.
  - eapply Forall_impl; [|exact FS]. intros s. apply chk_sensor_ok.
  - eapply Forall_impl; [|exact FC]. intros c Hc. apply chk_curve_ok in Hc. tauto.
  - eapply Forall_impl; [|exact FF]. intros f Hf. apply chk_fan_ok in Hf. tauto.
  - eapply Forall_impl; [|exact FC]. intros c. apply chk_curve_refs.
  - eapply Forall_impl; [|exact FF]. intros f Hf. apply chk_fan_ok in Hf. tauto.
  - apply acyclicb_sound. exact A.
Qed.

(* ================================================================== C11_runnable *)
Definition obj_of (c : curve_cfg) : cobj :=
  match c_linear c, c_pid c, c_func c with
  | Some l, _, _ => CLinear l
  | None, Some p, _ => CPid p
  | None, None, Some f => CFunc f
  | None, None, None => CFunc (mkFunc FOther [])
  end.

Definition objs_of (cfg : config) : objs :=
  mkObjs (sensor_ids cfg)
         (map (fun c => (c_id c, obj_of c)) (curves cfg))
         (map (fun f => mkFanObj (f_id f) (f_curve f) (select_loop f)) (fans cfg)).

Lemma backends_new_sensor s : sensor_backends s = 1 -> new_sensor s = Some (s_id s).
Proof.
  unfold sensor_backends, new_sensor. destruct (s_hwmon s), (s_file s), (s_cmd s); cbn; intros; try reflexivity; lia.
Qed.

Lemma backends_new_curve c : curve_backends c = 1 -> new_curve c = Some (c_id c, obj_of c).
Proof.
  unfold curve_backends, new_curve, obj_of. destruct (c_linear c), (c_pid c), (c_func c); cbn; intros; try reflexivity; lia.
Qed.

Lemma backends_new_fan f : fan_backends f = 1 -> new_fan f = Some (mkFanObj (f_id f) (f_curve f) (select_loop f)).
Proof.
  unfold fan_backends, new_fan. destruct (f_hwmon f), (f_file f), (f_cmd f); cbn; intros; try reflexivity; lia.
Qed.

Lemma instantiate_sound cfg : one_backend_each cfg -> instantiate cfg = Some (objs_of cfg).
Proof.
  intros [S [C F]]. rewrite Forall_forall in S, C, F. unfold instantiate.
  rewrite (map_opt_total new_sensor s_id) by (intros; apply backends_new_sensor; auto).
  rewrite (map_opt_total new_curve (fun c => (c_id c, obj_of c))) by (intros; apply backends_new_curve; auto).
  rewrite (map_opt_total new_fan (fun f => mkFanObj (f_id f) (f_curve f) (select_loop f))) by (intros; apply backends_new_fan; auto).
  reflexivity.
Qed.

Lemma get_curve_objs cfg u :
  get_curve (objs_of cfg) u = option_map obj_of (curve_by_id cfg u).
Proof.
  unfold get_curve, objs_of, curve_by_id. cbn [o_curves]. rewrite find_last_map. cbn [fst].
  destruct (find_last (fun x => c_id x =? u) (curves cfg)); reflexivity.
Qed.

Lemma curve_by_id_ex cfg u : In u (curve_ids cfg) -> exists c, curve_by_id cfg u = Some c /\ In c (curves cfg) /\ c_id c = u.
Proof.
  intros H. apply in_map_iff in H. destruct H as [c [E Hc]].
  destruct (find_last_ex (fun c => c_id c =? u) (curves cfg) c Hc) as [y Hy]; [apply Z.eqb_eq; exact E|].
  exists y. split; [exact Hy|]. apply find_last_some in Hy. destruct Hy as [? Q]. apply Z.eqb_eq in Q. auto.
Qed.

Lemma interp_loop_nonempty : forall steps first input, steps <> [] -> exists y, interp_loop first steps input = IvVal y.
Proof.
  induction steps as [|[cx cy] r IH]; intros first input H; [congruence|].
  destruct r as [|[nx ny] r'].
  - cbn. eauto.
  - cbn [interp_loop]. destruct (first && PrimFloat.leb input (i2f cx)); [eauto|].
    destruct (PrimFloat.leb (i2f nx) input); [apply IH; discriminate|].
    destruct (PrimFloat.eqb input (i2f cx)); eauto.
Qed.

Lemma eval_linear_val cfg e l : chk_linear cfg l = Ok -> exists v, eval_linear (objs_of cfg) e l = Val v.
Proof.
  intros H. apply chk_linear_ok in H. destruct H as [_ [Hs Hst]]. unfold eval_linear. cbn [o_sensors objs_of].
  apply memZ_In in Hs. rewrite Hs. cbn [negb]. destruct (l_steps l) as [st|]; [|eauto].
  destruct (interp_loop_nonempty st true (PrimFloat.div (e_avg e (l_sensor l)) 1000)) as [y Hy]; [congruence|].
  unfold interpolate. rewrite Hy. eauto.
Qed.

Lemma aggregate_val t vals : t <> FOther -> vals <> [] -> exists v, aggregate t vals = Val v.
Proof. intros Ht Hv. destruct t; try congruence; destruct vals; try congruence; cbn; eauto. Qed.

Lemma eval_members_val ev t : forall ms acc, (forall m, In m ms -> exists v, ev m = Val v) ->
  exists vals, eval_members ev t ms acc = aggregate t vals /\ length vals = (length ms + length acc)%nat.
Proof.
  induction ms as [|m r IH]; intros acc H; cbn.
  - exists (rev acc). split; [reflexivity | apply rev_length].
  - destruct (H m (or_introl eq_refl)) as [v ->].
    destruct (IH (v :: acc)) as [vals [E L]]; [intros; apply H; right; assumption|].
    exists vals. split; [exact E | cbn in L; lia].
Qed.

(* a curve kept by peeling round k evaluates with fuel k *)
Lemma eval_peeled cfg e :
  Forall (fun c => chk_curve cfg c = Ok) (curves cfg) ->
  forall k u, In u (peel (curve_ids cfg) (succs cfg) k) -> exists v, eval k (objs_of cfg) e u = Val v.
Proof.
  intros FC. rewrite Forall_forall in FC. induction k as [|k IH]; intros u Hu; [contradiction|].
  apply peel_S_in in Hu. destruct Hu as [Hn Hs].
  destruct (curve_by_id_ex cfg u Hn) as [c [Ec [Hc Eid]]].
  cbn [eval]. rewrite get_curve_objs, Ec. cbn [option_map].
  pose proof (chk_curve_ok cfg c (FC c Hc)) as [B [Hf [Hl Hp]]].
  unfold obj_of. unfold curve_backends in B.
  destruct (c_linear c) as [l|] eqn:El.
  - apply eval_linear_val. apply Hl. reflexivity.
  - destruct (c_pid c) as [p|] eqn:Ep.
    + pose proof (Hp p eq_refl) as Cp. apply chk_pidc_ok in Cp. destruct Cp as [_ [Hs' _]].
      cbn [o_sensors objs_of]. apply memZ_In in Hs'. rewrite Hs'. cbn. eauto.
    + destruct (c_func c) as [f|] eqn:Ef; [|cbn in B; lia].
      pose proof (Hf f eq_refl) as Cf. apply chk_func_ok in Cf. destruct Cf as [Ht [Hne _]].
      assert (succs cfg u = fn_curves f) as Es by (unfold succs; rewrite Ec; unfold gmembers; rewrite Ef; reflexivity).
      destruct (eval_members_val (eval k (objs_of cfg) e) (fn_type f) (fn_curves f) []) as [vals [E L]].
      { intros m Hm. apply IH, Hs. rewrite Es. exact Hm. }
      rewrite E. apply aggregate_val; [exact Ht|]. intro Z0. subst vals. cbn in L.
      destruct (fn_curves f); [congruence | cbn in L; lia].
Qed.

Lemma select_loop_some cfg f : chk_fan cfg f = Ok -> select_loop f <> None.
Proof.
  intros H. apply chk_fan_ok in H. destruct H as [_ [_ Ha]]. unfold select_loop.
  destruct (f_legacy f); [discriminate|]. destruct (f_alg f) as [a|]; [|discriminate].
  pose proof (chk_alg_ok a (Ha a eq_refl)) as [D|P].
  - destruct (a_pid a); [discriminate|]. destruct (a_direct a); [discriminate | congruence].
  - destruct (a_pid a); [discriminate | congruence].
Qed.

Definition runs (cfg : config) (o : objs) : Prop :=
  (forall e c, In c (curves cfg) -> exists v, eval_graph (length (curves cfg)) o e (c_id c) = Val v)
  /\ controllers_constructible cfg o
  /\ (forall e f, In f (o_fans o) -> exists v, run_fan (length (curves cfg)) o e f = Val v).

Theorem validate_runnable cfg p : validate cfg p = Ok ->
  exists o, instantiate cfg = Some o /\ runs cfg o.
Proof.
  intros H. pose proof (validate_sound cfg p H) as [_ [_ [_ [OB _]]]].
  apply validate_ok_parts in H. destruct H as [_ [C F]].
  apply v_curves_ok in C. destruct C as [C A].
  apply v_each_ok in C; [|discriminate]. apply v_each_ok in F; [|discriminate].
  destruct C as [_ [_ FC]], F as [_ [_ FF]].
  exists (objs_of cfg). split; [apply instantiate_sound; exact OB|].
  assert (forall e u, In u (curve_ids cfg) -> exists v, eval (length (curves cfg)) (objs_of cfg) e u = Val v) as EV.
  { intros e u Hu. replace (length (curves cfg)) with (length (curve_ids cfg)) by apply map_length.
    apply eval_peeled; [exact FC|]. unfold graph_acyclicb, acyclicb in A. rewrite forallb_forall in A.
    apply memZ_In, A, Hu. }
  assert (forall f, In f (fans cfg) -> In (f_curve f) (curve_ids cfg) /\ select_loop f <> None) as FN.
  { intros f Hf. rewrite Forall_forall in FF. split; [apply (chk_fan_ok cfg f (FF f Hf)) | apply (select_loop_some cfg f (FF f Hf))]. }
  assert (forall u, In u (curve_ids cfg) -> get_curve (objs_of cfg) u <> None) as GC.
  { intros u Hu. rewrite get_curve_objs. destruct (curve_by_id_ex cfg u Hu) as [c [-> _]]. discriminate. }
  split; [|split].
  - intros e c Hc. apply EV. apply in_map. exact Hc.
  - intros fo Hfo. cbn [o_fans objs_of] in Hfo. apply in_map_iff in Hfo. destruct Hfo as [f [<- Hf]]. cbn.
    destruct (FN f Hf). split; auto.
  - intros e fo Hfo. cbn [o_fans objs_of] in Hfo. apply in_map_iff in Hfo. destruct Hfo as [f [<- Hf]].
    destruct (FN f Hf) as [Hc Hl]. unfold run_fan. cbn [fo_curve fo_loop].
    destruct (get_curve (objs_of cfg) (f_curve f)) eqn:G; [|exfalso; exact (GC _ Hc G)].
    destruct (EV e _ Hc) as [v ->]. destruct (select_loop f); [eauto | congruence].
Qed.

(* ================================================================== the documented forms *)
(* sensors (README "Sensors"): hwmon {platform, index >= 1} | file {path} | cmd {exec, args} *)
Inductive doc_sensor : sensor_cfg -> Prop :=
| DS_hwmon id idx : id <> 0 -> 1 <= idx -> doc_sensor (mkSensor id (Some idx) false false)
| DS_file id : id <> 0 -> doc_sensor (mkSensor id None true false)
| DS_cmd id : id <> 0 -> doc_sensor (mkSensor id None false true).

(* curves (README "Curves"): linear with min/max | linear with a step list | pid | function over other curves *)
Inductive doc_curve (cfg : config) : curve_cfg -> Prop :=
| DC_minmax id s mn mx : id <> 0 -> s <> 0 -> In s (sensor_ids cfg) ->
    doc_curve cfg (mkCurve id (Some (mkLinear s mn mx None)) None None)
| DC_steps id s mn mx st : id <> 0 -> s <> 0 -> In s (sensor_ids cfg) -> st <> [] ->
    doc_curve cfg (mkCurve id (Some (mkLinear s mn mx (Some st))) None None)
| DC_pid id s sp p i d : id <> 0 -> s <> 0 -> In s (sensor_ids cfg) -> nzpid p i d = true ->
    doc_curve cfg (mkCurve id None (Some (mkPidC s sp p i d)) None)
| DC_func id t ms : id <> 0 -> t <> FOther -> ms <> [] -> ~ In id ms -> (forall m, In m ms -> In m (curve_ids cfg)) ->
    doc_curve cfg (mkCurve id None None (Some (mkFunc t ms))).

(* controlAlgorithm (README "Control Algorithms", fan2go.yaml): absent | direct | pid |
   {direct: {maxPwmChangePerCycle: n}} | {pid: {p, i, d}} *)
Inductive doc_alg : option alg_cfg -> Prop :=
| DA_absent : doc_alg None
| DA_direct : doc_alg (Some (mkAlg (Some None) None))                       (* controlAlgorithm: direct *)
| DA_direct_lim lim : 0 < lim -> doc_alg (Some (mkAlg (Some (Some lim)) None))
| DA_pid k : nzpid (k_p k) (k_i k) (k_d k) = true -> doc_alg (Some (mkAlg None (Some k))).   (* "pid" (defaults) or the object form *)

(* fans (README "Fans"): hwmon {platform, rpmChannel >= 1, pwmChannel} | file {path, rpmPath} | cmd {setPwm, getPwm, getRpm?} *)
Inductive doc_fan_backend : option hwfan_cfg -> option bool -> option cmdfan_cfg -> Prop :=
| DF_hwmon rpm pwm : 1 <= rpm -> 0 <= pwm -> doc_fan_backend (Some (mkHwFan 0 rpm pwm)) None None
| DF_file : doc_fan_backend None (Some true) None
| DF_cmd : doc_fan_backend None None (Some (mkCmdFan (Some true) (Some true))).

Inductive doc_fan (cfg : config) : fan_cfg -> Prop :=
| DFan id cv alg hw fl cmd : id <> 0 -> cv <> 0 -> In cv (curve_ids cfg) -> doc_alg alg -> doc_fan_backend hw fl cmd ->
    doc_fan cfg (mkFan id cv alg false hw fl cmd).

Record documented (cfg : config) : Prop := mkDocumented {
  d_sids : NoDup (sensor_ids cfg);
  d_cids : NoDup (curve_ids cfg);
  d_fids : NoDup (fan_ids cfg);
  d_sensors : Forall doc_sensor (sensors cfg);
  d_curves : Forall (doc_curve cfg) (curves cfg);
  d_fans : Forall (doc_fan cfg) (fans cfg);
  d_acyclic : graph_acyclic cfg              (* function curves may nest, but not circularly *)
}.

Lemma doc_sensor_chk s : doc_sensor s -> chk_sensor s = Ok.
Proof.
  intros H. inversion H; subst; unfold chk_sensor, sensor_backends; cbn; try reflexivity.
  destruct (idx <=? 0) eqn:E; [lia | reflexivity].
Qed.

Lemma neq0_eqb x : x <> 0 -> (x =? 0) = false.
Proof. apply Z.eqb_neq. Qed.

Lemma doc_curve_chk cfg c : doc_curve cfg c -> chk_curve cfg c = Ok.
Proof.
  intros H. inversion H; subst; unfold chk_curve, curve_backends; cbn [c_linear c_pid c_func c_id isSome b2z Z.add Z.ltb Z.leb Z.compare Pos.compare Pos.compare_cont opt_chk].
  - assert (chk_linear cfg (mkLinear s mn mx None) = Ok) as -> by (apply chk_linear_ok; cbn; repeat split; auto; discriminate). reflexivity.
  - assert (chk_linear cfg (mkLinear s mn mx (Some st)) = Ok) as -> by (apply chk_linear_ok; cbn; repeat split; auto; congruence). reflexivity.
  - assert (chk_pidc cfg (mkPidC s sp p i d) = Ok) as -> by (apply chk_pidc_ok; cbn; repeat split; auto). reflexivity.
  - assert (chk_func cfg id (mkFunc t ms) = Ok) as ->; [|reflexivity]. apply chk_func_ok. cbn. repeat split; auto.
    intro E. subst. contradiction.
Qed.

Lemma doc_alg_chk a : doc_alg (Some a) -> chk_alg a = Ok.
Proof.
  intros H. inversion H; subst; unfold chk_alg; cbn; try reflexivity.
  - destruct (lim <=? 0) eqn:E; [lia | reflexivity].
  - unfold nzpid in *. destruct (fzero (k_p k) && fzero (k_i k) && fzero (k_d k)); [discriminate | reflexivity].
Qed.

Lemma doc_fan_chk cfg f : doc_fan cfg f -> chk_fan cfg f = Ok.
Proof.
  intros H. inversion H as [id cv alg hw fl cmd Hid Hcv Hin Ha Hb]; subst.
  assert (opt_chk alg chk_alg Ok = Ok) as A.
  { apply opt_chk_intro; [|reflexivity]. intros a ->. apply doc_alg_chk. exact Ha. }
  unfold chk_fan, curveIdExists. cbn [f_curve f_alg f_hwmon f_file f_cmd]. rewrite (neq0_eqb cv Hcv).
  apply memZ_In in Hin. rewrite Hin. cbn [negb].
  inversion Hb; subst; unfold fan_backends; cbn [f_hwmon f_file f_cmd isSome b2z Z.add Z.ltb Z.leb Z.compare Pos.compare Pos.compare_cont].
  - unfold opt_chk at 2 3 4. unfold chk_hwfan. cbn [hf_index hf_rpm hf_pwm].
    assert ((rpm =? 0) = false) as -> by (apply Z.eqb_neq; lia). cbn.
    assert ((rpm <? 0) = false) as -> by (apply Z.ltb_ge; lia).
    assert ((pwm <? 0) = false) as -> by (apply Z.ltb_ge; lia).
    destruct alg as [a|]; cbn in *; [destruct (chk_alg a); try discriminate|]; reflexivity.
  - cbn. destruct alg as [a|]; cbn in *; [destruct (chk_alg a); try discriminate|]; reflexivity.
  - cbn. destruct alg as [a|]; cbn in *; [destruct (chk_alg a); try discriminate|]; reflexivity.
Qed.

Lemma doc_closed cfg : Forall (doc_curve cfg) (curves cfg) ->
  forall c f m, In c (curves cfg) -> c_func c = Some f -> In m (fn_curves f) -> In m (curve_ids cfg).
Proof.
  intros D c f m Hc Ef Hm. rewrite Forall_forall in D. pose proof (D c Hc) as Dc.
  inversion Dc; subst; cbn in Ef; try discriminate. inversion Ef; subst. cbn in Hm. auto.
Qed.

Theorem documented_validates cfg p : documented cfg -> (has_cmd cfg = true -> p = true) -> validate cfg p = Ok.
Proof.
  intros D P. destruct D as [NS NC NF DS DC DF DA]. unfold validate.
  assert (v_sensors cfg = Ok) as ->.
  { apply v_each_intro; [exact NS | intros x _ [] |]. eapply Forall_impl; [|exact DS]. apply doc_sensor_chk. }
  assert (v_curves cfg = Ok) as ->.
  { unfold v_curves. rewrite v_each_intro; [| exact NC | intros x _ [] | eapply Forall_impl; [|exact DC]; apply doc_curve_chk].
    assert (graph_acyclicb cfg = true) as ->; [|reflexivity].
    apply acyclicb_complete; [|exact DA]. apply succs_closed. apply doc_closed. exact DC. }
  assert (v_fans cfg = Ok) as ->.
  { apply v_each_intro; [exact NF | intros x _ [] |]. eapply Forall_impl; [|exact DF]. apply doc_fan_chk. }
  destruct (has_cmd cfg); [rewrite (P eq_refl)|]; reflexivity.
Qed.

(* ---- boolean form of [documented] (used by the observer) ---- *)
Definition doc_sensorb (s : sensor_cfg) : bool :=
  negb (s_id s =? 0) &&
  match s_hwmon s, s_file s, s_cmd s with
  | Some idx, false, false => 1 <=? idx
  | None, true, false => true
  | None, false, true => true
  | _, _, _ => false
  end.

Definition doc_curveb (cfg : config) (c : curve_cfg) : bool :=
  negb (c_id c =? 0) &&
  match c_linear c, c_pid c, c_func c with
  | Some l, None, None =>
      negb (l_sensor l =? 0) && memZ (l_sensor l) (sensor_ids cfg)
      && match l_steps l with Some [] => false | _ => true end
  | None, Some p, None =>
      negb (pc_sensor p =? 0) && memZ (pc_sensor p) (sensor_ids cfg) && nzpid (pc_p p) (pc_i p) (pc_d p)
  | None, None, Some f =>
      match fn_type f with FOther => false | _ => true end
      && match fn_curves f with [] => false | _ => true end
      && negb (memZ (c_id c) (fn_curves f))
      && forallb (fun m => memZ m (curve_ids cfg)) (fn_curves f)
  | _, _, _ => false
  end.

Definition doc_algb (a : option alg_cfg) : bool :=
  match a with
  | None => true
  | Some (mkAlg (Some None) None) => true
  | Some (mkAlg (Some (Some lim)) None) => 0 <? lim
  | Some (mkAlg None (Some k)) => nzpid (k_p k) (k_i k) (k_d k)
  | _ => false
  end.

Definition doc_fan_backendb (hw : option hwfan_cfg) (fl : option bool) (cmd : option cmdfan_cfg) : bool :=
  match hw, fl, cmd with
  | Some (mkHwFan idx rpm pwm), None, None => (idx =? 0) && (1 <=? rpm) && (0 <=? pwm)
  | None, Some true, None => true
  | None, None, Some (mkCmdFan (Some true) (Some true)) => true
  | _, _, _ => false
  end.

Definition doc_fanb (cfg : config) (f : fan_cfg) : bool :=
  negb (f_id f =? 0) && negb (f_curve f =? 0) && memZ (f_curve f) (curve_ids cfg)
  && doc_algb (f_alg f) && negb (f_legacy f) && doc_fan_backendb (f_hwmon f) (f_file f) (f_cmd f).

Definition documentedb (cfg : config) : bool :=
  nodupb (sensor_ids cfg) && nodupb (curve_ids cfg) && nodupb (fan_ids cfg)
  && forallb doc_sensorb (sensors cfg) && forallb (doc_curveb cfg) (curves cfg) && forallb (doc_fanb cfg) (fans cfg)
  && graph_acyclicb cfg.

Lemma negb_eqb0 x : negb (x =? 0) = true <-> x <> 0.
Proof. rewrite negb_true_iff. apply Z.eqb_neq. Qed.

Lemma doc_sensorb_spec s : doc_sensorb s = true <-> doc_sensor s.
Proof.
  unfold doc_sensorb. rewrite andb_true_iff, negb_eqb0. split.
  - destruct s as [id [idx|] [] []]; cbn; intros [H1 H2]; try discriminate; constructor; auto. lia.
  - intros H. inversion H; subst; cbn; split; auto. apply Z.leb_le. assumption.
Qed.

Lemma doc_curveb_spec cfg c : doc_curveb cfg c = true <-> doc_curve cfg c.
Proof.
  unfold doc_curveb. rewrite andb_true_iff, negb_eqb0. split.
  - destruct c as [id [l|] [p|] [f|]]; cbn [c_id c_linear c_pid c_func]; intros [H1 H2]; try discriminate.
    + destruct l as [s mn mx st]. cbn in H2. rewrite !andb_true_iff, negb_eqb0, memZ_In in H2. destruct H2 as [[A B] C].
      destruct st as [[|x r]|]; try discriminate; constructor; auto; discriminate.
    + destruct p as [s sp pp ii dd]. cbn in H2. rewrite !andb_true_iff, negb_eqb0, memZ_In in H2. destruct H2 as [[A B] C].
      constructor; auto.
    + destruct f as [t ms]. cbn [fn_type fn_curves] in H2. rewrite !andb_true_iff, negb_true_iff, memZ_false, forallb_forall in H2.
      destruct H2 as [[[A B] C] D]. constructor; auto.
      * intro E. subst. discriminate.
      * intro E. subst. discriminate.
      * intros m Hm. apply memZ_In. auto.
  - intros H. inversion H; subst; cbn [c_id c_linear c_pid c_func l_sensor l_steps pc_sensor pc_p pc_i pc_d fn_type fn_curves]; split; auto.
    + rewrite !andb_true_iff, negb_eqb0, memZ_In. auto.
    + rewrite !andb_true_iff, negb_eqb0, memZ_In. repeat split; auto. destruct st; [congruence | reflexivity].
    + rewrite !andb_true_iff, negb_eqb0, memZ_In. auto.
    + rewrite !andb_true_iff, negb_true_iff, memZ_false, forallb_forall. repeat split; auto.
      * destruct t; try reflexivity. congruence.
      * destruct ms; [congruence | reflexivity].
      * intros m Hm. apply memZ_In. auto.
Qed.

Lemma doc_algb_spec a : doc_algb a = true <-> doc_alg a.
Proof.
  split.
  - destruct a as [[[[lim|]|] [k|]]|]; cbn; intros H; try discriminate; try constructor; auto. apply Z.ltb_lt. exact H.
  - intros H. inversion H; subst; cbn; auto. apply Z.ltb_lt. assumption.
Qed.

Lemma doc_fan_backendb_spec hw fl cmd : doc_fan_backendb hw fl cmd = true <-> doc_fan_backend hw fl cmd.
Proof.
  split.
  - destruct hw as [[idx rpm pwm]|], fl as [[]|], cmd as [[[[]|] [[]|]]|]; cbn; intros H; try discriminate; try constructor.
    rewrite !andb_true_iff in H. destruct H as [[A B] C]. apply Z.eqb_eq in A. subst. constructor; [apply Z.leb_le | apply Z.leb_le]; assumption.
  - intros H. inversion H; subst; cbn; auto. rewrite !andb_true_iff. repeat split; [apply Z.leb_le | apply Z.leb_le]; assumption.
Qed.

Lemma doc_fanb_spec cfg f : doc_fanb cfg f = true <-> doc_fan cfg f.
Proof.
  unfold doc_fanb. rewrite !andb_true_iff, !negb_eqb0, memZ_In, doc_algb_spec, doc_fan_backendb_spec, negb_true_iff. split.
  - destruct f as [id cv alg leg hw fl cmd]. cbn. intros [[[[[A B] C] D] E] F]. subst. constructor; auto.
  - intros H. inversion H; subst; cbn. repeat split; auto.
Qed.

Theorem documentedb_spec cfg : documentedb cfg = true <-> documented cfg.
Proof.
  unfold documentedb. rewrite !andb_true_iff, !nodupb_spec.
  rewrite (forallb_Forall _ doc_sensor) by apply doc_sensorb_spec.
  rewrite (forallb_Forall _ (doc_curve cfg)) by apply doc_curveb_spec.
  rewrite (forallb_Forall _ (doc_fan cfg)) by apply doc_fanb_spec.
  split.
  - intros [[[[[[A B] C] D] E] F] G]. constructor; auto. apply acyclicb_sound. exact G.
  - intros [A B C D E F G]. repeat split; auto.
    apply acyclicb_complete; [|exact G]. apply succs_closed. apply doc_closed. exact E.
Qed.

(* non-vacuity: the shipped fan2go.yaml (ids: sensors cpu_package=1 mainboard=2 sata_ssd=3,
   curves cpu_curve=1 mainboard_curve=2 ssd_curve=3 case_avg_curve=4, fans cpu=1 in_front=2 out_back=3) *)
Definition shipped_yaml : config :=
  mkConfig
    [mkSensor 1 (Some 1) false false; mkSensor 2 (Some 3) false false; mkSensor 3 (Some 1) false false]
    [mkCurve 1 (Some (mkLinear 1 0 0 (Some [(40, 0%float); (50, 50%float); (80, 255%float)]))) None None;
     mkCurve 2 (Some (mkLinear 2 40 80 None)) None None;
     mkCurve 3 (Some (mkLinear 3 40 70 None)) None None;
     mkCurve 4 None None (Some (mkFunc FAvg [1; 2; 3]))]
    [mkFan 1 1 (Some (mkAlg (Some (Some 10)) None)) false (Some (mkHwFan 0 1 1)) None None;
     mkFan 2 4 (Some (mkAlg (Some None) None)) false (Some (mkHwFan 0 4 0)) None None;
     mkFan 3 4 None false (Some (mkHwFan 0 5 0)) None None].

Lemma shipped_documentedb : documentedb shipped_yaml = true.
Proof. vm_compute. reflexivity. Qed.
