(* The executable cycle check of Model/Config.v (peeling) is exactly acyclicity;
   and acyclicity is the validator's specification "no strongly connected
   component has more than one node" once self-references are excluded. *)
From Coq Require Import ZArith Bool List Lia Arith.
From F2G Require Import Model.Config.
Import ListNotations.
Open Scope Z_scope.

Lemma memZ_In x l : memZ x l = true <-> In x l.
Proof.
  unfold memZ. rewrite existsb_exists. split.
  - intros [y [Hy E]]. apply Z.eqb_eq in E. subst. exact Hy.
  - intros H. exists x. split; [exact H | apply Z.eqb_refl].
Qed.

Lemma memZ_false x l : memZ x l = false <-> ~ In x l.
Proof.
  rewrite <- memZ_In. destruct (memZ x l); split; intros H.
  - discriminate.
  - exfalso; apply H; reflexivity.
  - intro; discriminate.
  - reflexivity.
Qed.

Lemma forallb_false_ex {A} (f : A -> bool) l : forallb f l = false -> exists x, In x l /\ f x = false.
Proof.
  induction l as [|a r IH]; cbn; [discriminate|]. intros H. apply andb_false_iff in H. destruct H as [H|H].
  - exists a. auto.
  - destruct (IH H) as [x [Hx Fx]]. exists x. auto.
Qed.

Lemma not_NoDup_split (l : list Z) : ~ NoDup l -> exists x l1 l2 l3, l = l1 ++ x :: l2 ++ x :: l3.
Proof.
  induction l as [|a r IH]; intros H.
  - exfalso. apply H. constructor.
  - destruct (in_dec Z.eq_dec a r) as [Hin|Hnin].
    + apply in_split in Hin. destruct Hin as [l2 [l3 E]]. exists a, [], l2, l3. cbn. now rewrite E.
    + assert (~ NoDup r) as Hr by (intro N; apply H; constructor; assumption).
      destruct (IH Hr) as [x [l1 [l2 [l3 E]]]]. exists x, (a :: l1), l2, l3. cbn. now rewrite E.
Qed.

Section Graph.
  Variable nodes : list Z.
  Variable succ : Z -> list Z.

  Definition edge (u v : Z) : Prop := In u nodes /\ In v (succ u).

  (* non-empty paths *)
  Inductive tpath : Z -> Z -> Prop :=
  | tp1 u v : edge u v -> tpath u v
  | tpS u w v : edge u w -> tpath w v -> tpath u v.

  Definition acyclic : Prop := forall u, ~ tpath u u.

  Lemma tpath_trans u v w : tpath u v -> tpath v w -> tpath u w.
  Proof. induction 1; intros; [eapply tpS; eauto | eapply tpS; eauto]. Qed.

  (* the validator's own formulation: Tarjan reports a component with more than
     one node, i.e. two distinct mutually reachable nodes *)
  Definition big_scc : Prop := exists u v, u <> v /\ tpath u v /\ tpath v u.

  Lemma big_scc_iff_cyclic : (forall u, ~ edge u u) -> (big_scc <-> exists u, tpath u u).
  Proof.
    intros NoSelf. split.
    - intros [u [v [_ [P Q]]]]. exists u. eapply tpath_trans; eauto.
    - intros [u P]. inversion P; subst.
      + exfalso. eapply NoSelf; eauto.
      + exists u, w. split; [|split].
        * intro E. subst. eapply NoSelf; eauto.
        * apply tp1; assumption.
        * assumption.
  Qed.

  (* ---------------- peeling is sound ---------------- *)
  Lemma peel_S_in k u : In u (peel nodes succ (S k)) <-> In u nodes /\ forall v, In v (succ u) -> In v (peel nodes succ k).
  Proof.
    cbn. unfold peel_round. rewrite filter_In, forallb_forall. split; intros [H1 H2]; split; auto.
    - intros v Hv. apply memZ_In. auto.
    - intros v Hv. apply memZ_In. auto.
  Qed.

  Lemma peel_descends : forall u v, tpath u v -> forall k, In u (peel nodes succ k) -> exists k', (k' < k)%nat /\ In v (peel nodes succ k').
  Proof.
    induction 1 as [u v E | u w v E P IH]; intros k Hk.
    - destruct k as [|k]; [contradiction|]. apply peel_S_in in Hk. destruct Hk as [_ Hs]. exists k. split; [lia|]. apply Hs, E.
    - destruct k as [|k]; [contradiction|]. apply peel_S_in in Hk. destruct Hk as [_ Hs].
      destruct (IH k (Hs w (proj2 E))) as [k' [Lt Hv]]. exists k'. split; [lia | exact Hv].
  Qed.

  Lemma peel_no_cycle : forall k u, In u (peel nodes succ k) -> ~ tpath u u.
  Proof.
    induction k as [k IH] using lt_wf_ind. intros u Hu P.
    destruct (peel_descends u u P k Hu) as [k' [Lt Hu']]. exact (IH k' Lt u Hu' P).
  Qed.

  Theorem acyclicb_sound : acyclicb nodes succ = true -> acyclic.
  Proof.
    unfold acyclicb. rewrite forallb_forall. intros H u P.
    assert (In u nodes) as Hu by (inversion P; subst; match goal with E : edge _ _ |- _ => exact (proj1 E) end).
    apply (peel_no_cycle (length nodes) u); [apply memZ_In, H, Hu | exact P].
  Qed.

  (* ---------------- peeling is complete (for graphs closed under succ) ---------------- *)
  Hypothesis closed : forall u v, In u nodes -> In v (succ u) -> In v nodes.

  (* chains: lists of nodes, consecutive ones joined by an edge *)
  Fixpoint chain (l : list Z) : Prop :=
    match l with
    | [] => True
    | x :: r => match r with
                | [] => In x nodes
                | y :: _ => edge x y /\ chain r
                end
    end.

  Lemma chain_nodes l : chain l -> forall x, In x l -> In x nodes.
  Proof.
    induction l as [|a r IH]; intros C x Hx; [contradiction|].
    destruct r as [|b r'].
    - destruct Hx as [<-|[]]. exact C.
    - destruct C as [E C]. destruct Hx as [<-|Hx]; [exact (proj1 E) | apply IH; assumption].
  Qed.

  Lemma chain_suffix l1 l2 : chain (l1 ++ l2) -> chain l2.
  Proof.
    induction l1 as [|a r IH]; cbn [app]; intros C; [exact C|].
    apply IH. destruct (r ++ l2) as [|b t] eqn:E; [exact I | exact (proj2 C)].
  Qed.

  Lemma chain_tpath : forall l2 a b l3, chain (a :: l2 ++ b :: l3) -> tpath a b.
  Proof.
    induction l2 as [|c l2 IH]; intros a b l3 C.
    - cbn in C. apply tp1. exact (proj1 C).
    - cbn [app] in C. destruct C as [E C]. eapply tpS; [exact E | eapply IH; exact C].
  Qed.

  Lemma unpeeled_chain : forall k u, In u nodes -> ~ In u (peel nodes succ k) ->
    exists l, length l = k /\ chain (u :: l).
  Proof.
    induction k as [|k IH]; intros u Hu Hn.
    - exists []. split; [reflexivity | exact Hu].
    - cbn in Hn. unfold peel_round in Hn. rewrite filter_In in Hn.
      destruct (forallb (fun v => memZ v (peel nodes succ k)) (succ u)) eqn:F.
      + exfalso. apply Hn. split; auto.
      + apply forallb_false_ex in F. destruct F as [v [Hv Mv]]. apply memZ_false in Mv.
        destruct (IH v (closed u v Hu Hv) Mv) as [l [Len C]].
        exists (v :: l). split; [cbn; lia|]. split; [split; assumption | exact C].
  Qed.

  Theorem acyclicb_complete : acyclic -> acyclicb nodes succ = true.
  Proof.
    intros A. unfold acyclicb. apply forallb_forall. intros u Hu.
    destruct (memZ u (peel nodes succ (length nodes))) eqn:M; [reflexivity|]. exfalso.
    apply memZ_false in M. destruct (unpeeled_chain (length nodes) u Hu M) as [l [Len C]].
    assert (~ NoDup (u :: l)) as ND.
    { intro N. pose proof (NoDup_incl_length N (chain_nodes _ C)) as L. cbn in L. lia. }
    destruct (not_NoDup_split _ ND) as [x [l1 [l2 [l3 E]]]]. rewrite E in C.
    apply chain_suffix in C. apply (A x). eapply chain_tpath. exact C.
  Qed.

  Theorem acyclicb_spec : acyclicb nodes succ = true <-> acyclic.
  Proof. split; [apply acyclicb_sound | apply acyclicb_complete]. Qed.
End Graph.
