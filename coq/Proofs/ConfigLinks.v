(* C11 observer link: the boolean observer of Drv/Config.v demands nothing that the
   theorems about the model (validate_sound, validate_runnable, documented_validates)
   do not deliver.  Hence a case on which implementation and model agree passes the
   observer: ./check cannot report F (property violated on the implementation's own
   observation) without also reporting M (model differs from implementation). *)
From Coq Require Import ZArith Bool List Floats Lia.
From F2G Require Import Go.GoFloat Model.Util Model.Config Proofs.ConfigGraph Proofs.Config Drv.Common Drv.Config.
Import ListNotations.
Open Scope Z_scope.

(* No side condition on the case is needed (the model is total on every abstract
   configuration); [case_wf] exists only for uniformity with the other link files. *)
Definition case_wf (c : case) : Prop := True.
Definition case_wfb (c : case) : bool := true.
Lemma case_wfb_wf c : case_wfb c = true -> case_wf c.
Proof. intros _. exact I. Qed.

Lemma verr_code_0 e : verr_code e = 0 -> e = Ok.
Proof. destruct e; cbn; intros H; try reflexivity; discriminate. Qed.

Definition zeros {A} (l : list A) : list Z := map (fun _ => 0) l.

Lemma all_zero_zeros {A} (l : list A) : all_zero (zeros l) = true.
Proof. induction l; cbn; auto. Qed.

Lemma map_const_zeros {A} (f : A -> Z) l : (forall x, In x l -> f x = 0) -> map f l = zeros l.
Proof. intros H. apply map_ext_in. exact H. Qed.

(* the model's own run of an accepted configuration: everything instantiates, every
   curve and every fan cycle returns *)
Lemma model_run_ok cfg p : validate cfg p = Ok ->
  model_run cfg = mkRun 0 (zeros (curves cfg)) 0 (zeros (fans cfg)).
Proof.
  intros V. destruct (validate_runnable cfg p V) as [o [I [EV [CC RF]]]].
  pose proof (validate_sound cfg p V) as [_ [_ [_ [OB _]]]].
  rewrite (instantiate_sound cfg OB) in I. inversion I; subst o. clear I.
  unfold model_run. rewrite (instantiate_sound cfg OB).
  assert (forallb (fun f => isSome (get_curve (objs_of cfg) (fo_curve f))) (o_fans (objs_of cfg)) = true) as ->.
  { apply forallb_forall. intros f Hf. destruct (CC f Hf) as [G _]. destruct (get_curve (objs_of cfg) (fo_curve f)); [reflexivity | congruence]. }
  f_equal.
  - apply map_const_zeros. intros c Hc. destruct (EV dummy_env c Hc) as [v ->]. reflexivity.
  - cbn [o_fans objs_of]. rewrite map_map. apply map_const_zeros. intros f Hf.
    destruct (RF dummy_env (mkFanObj (f_id f) (f_curve f) (select_loop f))) as [v ->]; [|reflexivity].
    cbn [o_fans objs_of]. apply (in_map (fun x => mkFanObj (f_id x) (f_curve x) (select_loop x))). exact Hf.
Qed.

(* the case carrying the model's own observation *)
Definition model_case (cfg : config) (perm : bool) : case :=
  let e := validate cfg perm in
  match e with
  | Ok => let r := model_run cfg in mkCase cfg perm true 0 (-1) (r_inst r) (r_curves r) (r_ctrl r) (r_fans r)
  | _ => mkCase cfg perm true (verr_code e) (-1) 0 [] 0 []
  end.

Lemma list_eqb_Z_refl l : list_eqb Z.eqb l l = true.
Proof. apply list_eqb_Z_eq. reflexivity. Qed.

Theorem model_case_agrees cfg perm : mismatch (model_case cfg perm) = false.
Proof.
  unfold model_case, mismatch. destruct (validate cfg perm) eqn:V;
    cbn [c_cfg c_perm i_decode i_verdict i_cli negb orb]; rewrite V; cbn [verr_code]; rewrite ?Z.eqb_refl; cbn [negb orb andb];
    try reflexivity.
  unfold run_eqb. cbn [i_inst i_curves i_ctrl i_fans]. rewrite !Z.eqb_refl, !list_eqb_Z_refl. reflexivity.
Qed.

Theorem no_false_alarm : forall c, case_wf c -> mismatch c = false -> holdsb c = true.
Proof.
  intros c _ M. unfold mismatch in M. apply orb_false_iff in M. destruct M as [M R].
  apply orb_false_iff in M. destruct M as [M _]. apply orb_false_iff in M. destruct M as [_ V]. apply negb_false_iff, Z.eqb_eq in V.
  unfold holdsb. apply andb_true_iff. split.
  - destruct (Z.eqb_spec (i_verdict c) 0) as [E|E]; [|reflexivity].
    rewrite E in V. apply verr_code_0 in V. cbn [andb] in R.
    apply negb_false_iff in R. rewrite (model_run_ok _ _ V) in R. unfold run_eqb in R. cbn [r_inst r_curves r_ctrl r_fans] in R.
    rewrite !andb_true_iff in R. destruct R as [[[R1 R2] R3] R4].
    apply Z.eqb_eq in R1, R3. apply list_eqb_Z_eq in R2, R4.
    apply andb_true_iff. split; [apply soundb_spec; eapply validate_sound; exact V|].
    unfold ran_okb. rewrite <- R1, <- R2, <- R3, <- R4. rewrite !all_zero_zeros. unfold zeros. rewrite !map_length, !Z.eqb_refl. reflexivity.
  - destruct (documentedb (c_cfg c)) eqn:D; [|reflexivity]. destruct (c_perm c) eqn:P; [|reflexivity]. cbn [andb].
    apply documentedb_spec in D. apply Z.eqb_eq. rewrite <- V. rewrite (documented_validates _ true D); reflexivity.
Qed.

Theorem model_passes : forall cfg perm, holdsb (model_case cfg perm) = true.
Proof. intros. apply no_false_alarm; [exact I | apply model_case_agrees]. Qed.
