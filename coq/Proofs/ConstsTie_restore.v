(* Tie: the constants of group g_restore in gen/Consts.v were translated from the CURRENT source. When the source no
   longer has the shape tools/gen_consts.py recognises, the generator keeps the model building with the pinned
   values (so the correspondence run can still search for a failing input) and sets the flag to false: this
   obligation of every property that uses those names then stops compiling. *)
From F2G Require Import gen.Consts.
Lemma tie_consts_restore : Translated_g_restore = true. Proof. reflexivity. Qed.
