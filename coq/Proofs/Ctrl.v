(* Invariants of the controller model (Model/Controller.v) over arbitrary histories:
   the request envelope (C01), the never-stop floor (C02). *)
From Coq Require Import ZArith Bool List Floats Lia Sorting.Sorted.
From F2G Require Import Go.GoFloat gen.Consts Model.Util Model.Fan Model.ControlLoop Model.Controller
                        Proofs.Closest Proofs.Rescale.
Import ListNotations.
Open Scope Z_scope.

(* ---- fan limits are untouched by everything the regulation phase does to a fan ---- *)
Lemma SetRpmAvg_limits f x :
  GetMinPwm (SetRpmAvg f x) = GetMinPwm f /\ GetMaxPwm (SetRpmAvg f x) = GetMaxPwm f
  /\ never_stop (SetRpmAvg f x) = never_stop f /\ has_rpm (SetRpmAvg f x) = has_rpm f
  /\ has_mode (SetRpmAvg f x) = has_mode f /\ fk (SetRpmAvg f x) = fk f.
Proof. unfold SetRpmAvg, GetMinPwm, GetMaxPwm. destruct (fk f) eqn:E; cbn; rewrite ?E; auto 10. Qed.

Lemma set_rpm_last_limits f x :
  GetMinPwm (set_rpm_last f x) = GetMinPwm f /\ GetMaxPwm (set_rpm_last f x) = GetMaxPwm f
  /\ never_stop (set_rpm_last f x) = never_stop f /\ has_rpm (set_rpm_last f x) = has_rpm f
  /\ has_mode (set_rpm_last f x) = has_mode f /\ fk (set_rpm_last f x) = fk f.
Proof. unfold GetMinPwm, GetMaxPwm. cbn. auto 10. Qed.

Lemma poll_rpm_limits n f rpm :
  GetMinPwm (poll_rpm n f rpm) = GetMinPwm f /\ GetMaxPwm (poll_rpm n f rpm) = GetMaxPwm f
  /\ never_stop (poll_rpm n f rpm) = never_stop f /\ has_rpm (poll_rpm n f rpm) = has_rpm f
  /\ has_mode (poll_rpm n f rpm) = has_mode f /\ fk (poll_rpm n f rpm) = fk f.
Proof.
  unfold poll_rpm.
  set (f1 := match fk f, rpm with HwMon, _ => f | _, Some r => set_rpm_last f r | _, None => f end).
  assert (H1 : GetMinPwm f1 = GetMinPwm f /\ GetMaxPwm f1 = GetMaxPwm f /\ never_stop f1 = never_stop f
               /\ has_rpm f1 = has_rpm f /\ has_mode f1 = has_mode f /\ fk f1 = fk f).
  { assert (Hc : f1 = f \/ exists r, f1 = set_rpm_last f r) by (subst f1; destruct (fk f), rpm; eauto).
    destruct Hc as [->|[r ->]]; [auto 10|apply set_rpm_last_limits]. }
  destruct H1 as (A & B & C & D & E & F).
  destruct (SetRpmAvg_limits f1 (upd_avg (GetRpmAvg f1) n (i2f (odflt rpm 0)))) as (A' & B' & C' & D' & E' & F').
  repeat split; congruence.
Qed.

(* ---- the invariant ---- *)
Record inv (lo hi : Z) (s : st) : Prop := mkInv {
  inv_min : GetMinPwm (s_fan s) = lo;
  inv_max : GetMaxPwm (s_fan s) = hi;
  inv_off : 0 <= s_offset s;
  inv_floor : lo + s_offset s <= hi;
  inv_last : forall r, s_last s = Some r -> lo <= r <= hi;
}.

Lemma inv_ext lo hi s s' :
  GetMinPwm (s_fan s') = GetMinPwm (s_fan s) -> GetMaxPwm (s_fan s') = GetMaxPwm (s_fan s) ->
  s_offset s' = s_offset s -> s_last s' = s_last s -> inv lo hi s -> inv lo hi s'.
Proof. intros A B C D [I1 I2 I3 I4 I5]. constructor; try congruence; try lia. rewrite D. exact I5. Qed.

Definition pm_ok (pm : list (Z * Z)) : Prop := pm <> [] /\ StronglySorted Z.lt (map fst pm).

(* what calculateTargetPwm returns, for EVERY control algorithm (the algorithm's output t0 is
   arbitrary: only the clamp and the rescale carry the envelope) *)
Lemma calc_target_spec c s i lo hi :
  0 <= lo -> hi <= 255 -> inv lo hi s ->
  match calc_target c s i with
  | TErr s1 code => inv lo hi s1 /\ s_last s1 = s_last s /\ s_offset s1 = s_offset s /\ (code = 1 \/ code = 2)
                    /\ s_pwm s1 = s_pwm s /\ s_mode s1 = s_mode s /\ s_stopped s1 = s_stopped s
  | TOk s1 r => inv lo hi s1 /\ s_last s1 = s_last s /\ lo + s_offset s1 <= r <= hi
                /\ s_pwm s1 = s_pwm s /\ s_mode s1 = s_mode s /\ s_stopped s1 = s_stopped s
                /\ (s_offset s1 = s_offset s
                    \/ (s_offset s1 = s_offset s + 1 /\ never_stop (s_fan s) = true
                        /\ exists l, s_last s = Some l /\ r = l + 1))
  end.
Proof.
  intros Hlo Hhi I. destruct I as [Imin Imax Ioff Ifloor Ilast].
  Ltac fin := try lia; try match goal with Il : forall r, ?l = Some r -> _ |- _ =>
                              let A := fresh in let B := fresh in edestruct Il as [A B]; [eassumption|lia] end.
  unfold calc_target.
  destruct (match s_last s with
            | Some l => Some l
            | None => if supports_pwm (s_fan s) i then (if ci_read_ok i then Some (s_pwm s) else None)
                      else Some (GetMinPwm (s_fan s))
            end) as [cur0|].
  2:{ repeat split; auto; fin. }
  destruct (ci_curve i) as [v|].
  2:{ repeat split; auto; fin. }
  destruct (alg_cycle (s_alg s) v (match s_loopcur s with Some t => t | None => cur0 end) (ci_dt i)) as [alg' t0].
  set (t := clamp_target t0).
  pose proof (clamp_target_range t0) as Ht. fold t in Ht.
  rewrite Imin, Imax.
  pose proof (rescale_bounds t (lo + s_offset s) hi Ht ltac:(lia) Ifloor Hhi) as Hr.
  set (r := rescale_c t (lo + s_offset s) hi) in *.
  set (cnt' := third_party_cnt c s i).
  destruct (has_rpm (s_fan s) && never_stop (s_fan s)
            && match s_last s with Some l => l =? r | None => false end
            && stall_test (GetRpmAvg (s_fan s))) eqn:Stall.
  - destruct (hi <=? r) eqn:Emax.
    + cbn. repeat split; auto; fin.
    + apply Z.leb_gt in Emax.
      destruct (SetRpmAvg_limits (s_fan s) PostRaiseAvg) as (A & B & C & _).
      apply andb_true_iff in Stall. destruct Stall as [Stall _].
      apply andb_true_iff in Stall. destruct Stall as [Stall Hl].
      apply andb_true_iff in Stall. destruct Stall as [_ Hns].
      cbn. repeat split; cbn [s_fan s_last s_offset s_pwm s_mode s_stopped]; auto; try congruence; fin.
      right. repeat split; auto.
      destruct (s_last s) as [l|]; [|discriminate]. apply Z.eqb_eq in Hl. exists l. split; auto. lia.
  - cbn. repeat split; auto; fin.
Qed.

(* trySetManualPwm + setPwm *)
Lemma apply_target_spec c s i r lo hi :
  pm_ok (c_pm c) -> inv lo hi s -> lo <= r <= hi ->
  let '(s2, ws, err) := apply_target c s i r in
  inv lo hi s2 /\ err = 0 /\ s_last s2 = Some r /\ s_offset s2 = s_offset s /\ s_stopped s2 = s_stopped s
  /\ exists k, nearest (supported (c_pm c)) r k /\ In (lookup (c_pm c) k) (map snd (c_pm c))
     /\ (ws = [] \/ ws = [lookup (c_pm c) k]).
Proof.
  intros [Hne Hsorted] I Hr. destruct I as [Imin Imax Ioff Ifloor Ilast].
  unfold apply_target.
  destruct (written_spec (c_pm c) r Hne Hsorted) as (k & _ & Hn & Hw & Hin).
  rewrite Hw.
  destruct (supports_pwm (s_fan s) i && ci_read_ok i && (lookup (c_pm c) k =? s_pwm s)).
  - split; [constructor; cbn; auto; intros r' E; inversion E; subst; auto|].
    repeat split; auto. exists k. auto.
  - split; [constructor; cbn; auto; intros r' E; inversion E; subst; auto|].
    repeat split; auto. exists k. auto.
Qed.

(* ---- one event ---- *)
Definition obs_ok (c : cfg) (lo hi : Z) (o : obs) : Prop :=
  (o_err o = 0 \/ o_err o = 1 \/ o_err o = 2)                                  (* never a crash *)
  /\ (forall r, o_req o = Some r ->
        lo <= r <= hi
        /\ exists k, nearest (supported (c_pm c)) r k
                     /\ (o_writes o = [] \/ o_writes o = [lookup (c_pm c) k])
                     /\ In (lookup (c_pm c) k) (map snd (c_pm c)))
  /\ (o_req o = None -> o_writes o = []).

Lemma nearest_exists_for (c : cfg) r : pm_ok (c_pm c) -> exists k, nearest (supported (c_pm c)) r k
  /\ In (lookup (c_pm c) k) (map snd (c_pm c)).
Proof. intros [Hne Hs]. destruct (written_spec (c_pm c) r Hne Hs) as (k & _ & Hn & _ & Hin). eauto. Qed.

(* an event that hands nothing to the fan *)
Lemma obs_ok_quiet c lo hi s err :
  pm_ok (c_pm c) -> inv lo hi s -> (err = 0 \/ err = 1 \/ err = 2) -> obs_ok c lo hi (mk_obs s err []).
Proof.
  intros Hpm [_ _ _ _ Il] He. split; [exact He|]. split; cbn.
  - intros r E. split; [apply Il; exact E|].
    destruct (nearest_exists_for c r Hpm) as (k & Hk & Hin). exists k. auto.
  - auto.
Qed.

Lemma step_spec c s e lo hi :
  0 <= lo -> hi <= 255 -> pm_ok (c_pm c) -> inv lo hi s ->
  let '(s', o) := step c s e in
  inv lo hi s' /\ obs_ok c lo hi o /\ s_offset s <= s_offset s' /\ o_offset o = s_offset s' /\ o_req o = s_last s'
  /\ o_min o = lo.
Proof.
  intros Hlo Hhi Hpm I. destruct e as [rpm|i|m p]; cbn [step].
  - (* Poll *)
    destruct (poll_rpm_limits (c_nrpm c) (s_fan s) rpm) as (A & B & _).
    assert (I' : inv lo hi (set_fan s (poll_rpm (c_nrpm c) (s_fan s) rpm))) by (apply (inv_ext lo hi s); auto).
    split; [exact I'|]. split; [apply obs_ok_quiet; auto|].
    cbn. destruct I'. repeat split; auto; lia.
  - (* Cycle *)
    destruct (negb (s_stopped s =? 0)).
    + split; [exact I|]. split; [apply obs_ok_quiet; auto|]. cbn. destruct I. repeat split; auto; lia.
    + pose proof (calc_target_spec c s i lo hi Hlo Hhi I) as T.
      destruct (calc_target c s i) as [s1 r|s1 code].
      * destruct T as (I1 & L1 & Hr & _ & _ & _ & Hoff).
        assert (Hr' : lo <= r <= hi) by (destruct I1; lia).
        pose proof (apply_target_spec c s1 i r lo hi Hpm I1 Hr') as A.
        destruct (apply_target c s1 i r) as [[s2 ws] err].
        destruct A as (I2 & -> & L2 & O2 & _ & k & Hk & Hin & Hws).
        split; [exact I2|]. split.
        -- split; [cbn; auto|]. split; cbn.
           ++ intros r' E. rewrite L2 in E. inversion E; subst r'. split; [lia|]. exists k. auto.
           ++ rewrite L2. discriminate.
        -- cbn. destruct I2. repeat split; auto. destruct Hoff as [E|[E _]]; lia.
      * destruct T as (I1 & L1 & O1 & Hcode & _).
        assert (I1' : inv lo hi (set_stopped s1 code)) by (apply (inv_ext lo hi s1); auto).
        split; [exact I1'|]. split; [apply obs_ok_quiet; auto; destruct Hcode; auto|].
        cbn. destruct I1. repeat split; auto; lia.
  - (* Ext *)
    set (s' := mkSt (s_fan s) (s_last s) (s_loopcur s) (s_offset s) (s_cnt s) (s_alg s)
                    (match p with Some x => x | None => s_pwm s end)
                    (match m with Some x => x | None => s_mode s end) (s_stopped s)).
    assert (I' : inv lo hi s') by (apply (inv_ext lo hi s); auto).
    split; [exact I'|]. split; [apply obs_ok_quiet; auto|]. cbn. destruct I. repeat split; auto; lia.
Qed.

(* ---- every history ---- *)
Theorem run_envelope c : forall h s lo hi,
  0 <= lo -> hi <= 255 -> pm_ok (c_pm c) -> inv lo hi s ->
  inv lo hi (fst (run c s h)) /\ Forall (obs_ok c lo hi) (snd (run c s h)).
Proof.
  induction h as [|e h IH]; intros s lo hi Hlo Hhi Hpm I; cbn [run].
  - split; [exact I|constructor].
  - pose proof (step_spec c s e lo hi Hlo Hhi Hpm I) as S.
    destruct (step c s e) as [s1 o]. destruct S as (I1 & O & _).
    specialize (IH s1 lo hi Hlo Hhi Hpm I1).
    destruct (run c s1 h) as [s2 os]. cbn in *. destruct IH. split; auto.
Qed.

Lemma init_inv f a pwm mode :
  0 <= GetMinPwm f -> GetMinPwm f <= GetMaxPwm f ->
  inv (GetMinPwm f) (GetMaxPwm f) (init_st f a pwm mode).
Proof. intros. constructor; cbn; auto; try lia. discriminate. Qed.

(* values handed to the fan are integers in 0..255 whenever the map's outputs are *)
Lemma obs_ok_written_range c lo hi o :
  Forall (fun kv => 0 <= snd kv <= 255) (c_pm c) -> obs_ok c lo hi o ->
  Forall (fun w => 0 <= w <= 255) (o_writes o).
Proof.
  intros Hout (_ & Hreq & Hnone).
  destruct (o_req o) as [r|] eqn:E.
  - destruct (Hreq r eq_refl) as (_ & k & _ & [->| ->] & Hin); constructor; auto.
    rewrite Forall_forall in Hout. apply in_map_iff in Hin. destruct Hin as ([k' v] & Ev & Hin).
    cbn in Ev. subst v. apply (Hout _ Hin).
  - rewrite (Hnone eq_refl). constructor.
Qed.

Lemma GetMinPwm_no_neverstop f : never_stop f = false -> GetMinPwm f = 0.
Proof. unfold GetMinPwm, MinPwmValue. intros ->. destruct (fk f); reflexivity. Qed.

(* ---- C02: the floor lo + (number of raises) and the strict raise ---- *)
Definition floor_inv (lo : Z) (s : st) : Prop := forall r, s_last s = Some r -> lo + s_offset s <= r.

Definition raise_rel (s s' : st) : Prop :=
  s_offset s' = s_offset s
  \/ (s_offset s' = s_offset s + 1 /\ never_stop (s_fan s) = true
      /\ exists l, s_last s = Some l /\ s_last s' = Some (l + 1)).

Lemma step_floor c s e lo hi :
  0 <= lo -> hi <= 255 -> pm_ok (c_pm c) -> inv lo hi s -> floor_inv lo s ->
  floor_inv lo (fst (step c s e)) /\ raise_rel s (fst (step c s e)).
Proof.
  intros Hlo Hhi Hpm I F. destruct e as [rpm|i|m p]; cbn [step].
  - cbn. split; [exact F|left; reflexivity].
  - destruct (negb (s_stopped s =? 0)); [cbn; split; [exact F|left; reflexivity]|].
    pose proof (calc_target_spec c s i lo hi Hlo Hhi I) as T.
    destruct (calc_target c s i) as [s1 r|s1 code].
    + destruct T as (I1 & L1 & Hr & _ & _ & _ & Hoff).
      assert (Hr' : lo <= r <= hi) by (destruct I1; lia).
      pose proof (apply_target_spec c s1 i r lo hi Hpm I1 Hr') as A.
      destruct (apply_target c s1 i r) as [[s2 ws] err].
      destruct A as (I2 & -> & L2 & O2 & _).
      cbn. split.
      * intros r' E. rewrite L2 in E. inversion E; subst r'. lia.
      * destruct Hoff as [E|(E & Hn & l & El & Er)]; [left; lia|].
        right. repeat split; auto; try lia. exists l. split; auto. rewrite L2, Er. reflexivity.
    + destruct T as (I1 & L1 & O1 & _). unfold set_stopped. cbn. split.
      * intros r E. cbn in E. rewrite L1 in E. rewrite O1. apply F; exact E.
      * left. exact O1.
  - cbn. split; [exact F|left; reflexivity].
Qed.

(* the k-th state of a history *)
Fixpoint states (c : cfg) (s : st) (h : list hev) : list st :=
  match h with [] => [] | e :: r => let s1 := fst (step c s e) in s1 :: states c s1 r end.

Lemma run_states c : forall h s lo hi,
  0 <= lo -> hi <= 255 -> pm_ok (c_pm c) -> inv lo hi s -> floor_inv lo s ->
  Forall (fun s' => inv lo hi s' /\ floor_inv lo s') (states c s h).
Proof.
  induction h as [|e h IH]; intros s lo hi Hlo Hhi Hpm I F; cbn [states]; [constructor|].
  pose proof (step_spec c s e lo hi Hlo Hhi Hpm I) as S.
  pose proof (step_floor c s e lo hi Hlo Hhi Hpm I F) as [F1 _].
  destruct (step c s e) as [s1 o]. cbn in *. destruct S as (I1 & _).
  constructor; [split; auto|]. apply IH; auto.
Qed.

(* consecutive states are related by [raise_rel]: the offset never decreases, grows by one at a time,
   and the request issued at a raise is the stalled request plus one *)
Fixpoint chain {A} (R : A -> A -> Prop) (x : A) (l : list A) : Prop :=
  match l with [] => True | y :: r => R x y /\ chain R y r end.

Lemma run_chain c : forall h s lo hi,
  0 <= lo -> hi <= 255 -> pm_ok (c_pm c) -> inv lo hi s -> floor_inv lo s ->
  chain raise_rel s (states c s h).
Proof.
  induction h as [|e h IH]; intros s lo hi Hlo Hhi Hpm I F; cbn [states chain]; [exact Logic.I|].
  pose proof (step_spec c s e lo hi Hlo Hhi Hpm I) as S.
  pose proof (step_floor c s e lo hi Hlo Hhi Hpm I F) as [F1 R1].
  destruct (step c s e) as [s1 o]. cbn in *. destruct S as (I1 & _).
  split; [exact R1|]. apply (IH s1 lo hi); auto.
Qed.

Lemma init_floor f a pwm mode lo : floor_inv lo (init_st f a pwm mode).
Proof. intros r E. discriminate. Qed.

(* the observation after an event is the projection of the state after it *)
Lemma step_obs_state c s e :
  let '(s', o) := step c s e in
  o_req o = s_last s' /\ o_offset o = s_offset s' /\ o_min o = GetMinPwm (s_fan s') /\ o_pwm o = s_pwm s'
  /\ o_mode o = s_mode s' /\ o_cnt o = s_cnt s'.
Proof.
  destruct e as [rpm|i|m p]; cbn [step].
  - cbn. auto 10.
  - destruct (negb (s_stopped s =? 0)); [cbn; auto 10|].
    destruct (calc_target c s i) as [s1 r|s1 code]; [|cbn; auto 10].
    destruct (apply_target c s1 i r) as [[s2 ws] err]. cbn. auto 10.
  - cbn. auto 10.
Qed.

Inductive Forall2' {A B} (R : A -> B -> Prop) : list A -> list B -> Prop :=
| F2nil : Forall2' R [] []
| F2cons x y l l' : R x y -> Forall2' R l l' -> Forall2' R (x :: l) (y :: l').

Definition obs_of_state (s' : st) (o : obs) : Prop :=
  o_req o = s_last s' /\ o_offset o = s_offset s' /\ o_min o = GetMinPwm (s_fan s') /\ o_pwm o = s_pwm s'
  /\ o_mode o = s_mode s' /\ o_cnt o = s_cnt s'.

Lemma run_obs_states c : forall h s, Forall2' obs_of_state (states c s h) (snd (run c s h)).
Proof.
  induction h as [|e h IH]; intros s; cbn [states run]; [constructor|].
  pose proof (step_obs_state c s e) as S. specialize (IH (fst (step c s e))).
  destruct (step c s e) as [s1 o]. cbn [fst] in *.
  destruct (run c s1 h) as [s2 os]. cbn [snd] in *. constructor; auto.
Qed.

Lemma run_floor c f a pwm mode h :
  0 <= GetMinPwm f -> GetMinPwm f <= GetMaxPwm f -> GetMaxPwm f <= 255 -> pm_ok (c_pm c) ->
  Forall (fun s' => GetMinPwm (s_fan s') = GetMinPwm f
                    /\ 0 <= s_offset s'
                    /\ forall r, s_last s' = Some r -> GetMinPwm f + s_offset s' <= r <= GetMaxPwm f)
         (states c (init_st f a pwm mode) h).
Proof.
  intros H0 H1 H2 Hpm.
  pose proof (run_states c h (init_st f a pwm mode) (GetMinPwm f) (GetMaxPwm f) H0 H2 Hpm
                         (init_inv f a pwm mode H0 H1) (init_floor f a pwm mode (GetMinPwm f))) as R.
  eapply Forall_impl; [|exact R]. intros s' [[I1 I2 I3 I4 I5] F].
  split; [exact I1|]. split; [exact I3|]. intros r E. split; [apply F; exact E|apply I5; exact E].
Qed.

Lemma run_raises c f a pwm mode h :
  0 <= GetMinPwm f -> GetMinPwm f <= GetMaxPwm f -> GetMaxPwm f <= 255 -> pm_ok (c_pm c) ->
  chain raise_rel (init_st f a pwm mode) (states c (init_st f a pwm mode) h).
Proof.
  intros H0 H1 H2 Hpm.
  exact (run_chain c h (init_st f a pwm mode) (GetMinPwm f) (GetMaxPwm f) H0 H2 Hpm
                   (init_inv f a pwm mode H0 H1) (init_floor f a pwm mode (GetMinPwm f))).
Qed.

Lemma GetMinPwm_not_hwmon f : fk f <> HwMon -> GetMinPwm f = 0.
Proof. unfold GetMinPwm, MinPwmValue. destruct (fk f); congruence. Qed.
