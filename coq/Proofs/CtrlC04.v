(* C04: with a constant curve value the direct algorithms settle at one target that depends on the
   curve value and the fan's limits alone. *)
From Coq Require Import ZArith Bool List Floats Lia ZifyBool Sorting.Sorted.
From F2G Require Import Go.GoFloat gen.Consts Model.Util Model.Fan Model.ControlLoop Model.Controller
                        Proofs.Closest Proofs.Rescale Proofs.Ctrl.
Import ListNotations.
Open Scope Z_scope.


Lemma clampZ_range x : 0 <= clampZ x 0 255 <= 255.
Proof. unfold clampZ. destruct (255 <? x) eqn:A; [lia|]. destruct (x <? 0) eqn:B; lia. Qed.

Lemma clampZ_id x : 0 <= x <= 255 -> clampZ x 0 255 = x.
Proof. intros H. unfold clampZ. destruct (255 <? x) eqn:A; [lia|]. destruct (x <? 0) eqn:B; lia. Qed.

Lemma clamp_target_clampZ v : clamp_target (clampZ v 0 255) = clamp_target v.
Proof.
  unfold clamp_target, clampZ, ClampHiTest, ClampHiSet, ClampLoTest, ClampLoSet, MaxPwmValue, MinPwmValue.
  repeat match goal with |- context [?x <? ?y] => destruct (x <? y) eqn:? end; lia.
Qed.

(* ---- shape of the steady value ---- *)
Theorem steady_shape lo hi : 0 <= lo -> lo <= hi -> hi <= 255 ->
  steady 0 lo hi = lo /\ steady 255 lo hi = hi
  /\ (forall v, lo <= steady v lo hi <= hi)
  /\ (forall v v', v <= v' -> steady v lo hi <= steady v' lo hi)
  /\ (forall v, v <= 0 -> steady v lo hi = lo) /\ (forall v, 255 <= v -> steady v lo hi = hi).
Proof.
  intros H0 H1 H2. unfold steady.
  destruct (rescale_ends lo hi H0 H1 H2) as [E0 E255].
  assert (C0 : forall v, v <= 0 -> clamp_target v = 0).
  { intros v Hv. unfold clamp_target, ClampHiTest, ClampHiSet, ClampLoTest, ClampLoSet, MaxPwmValue, MinPwmValue.
    destruct (255 <? v) eqn:A; [lia|]. destruct (v <? 0) eqn:B; lia. }
  assert (C255 : forall v, 255 <= v -> clamp_target v = 255).
  { intros v Hv. unfold clamp_target, ClampHiTest, ClampHiSet, ClampLoTest, ClampLoSet, MaxPwmValue, MinPwmValue.
    destruct (255 <? v) eqn:A; [lia|]. destruct (v <? 0) eqn:B; lia. }
  assert (Cm : forall v v', v <= v' -> clamp_target v <= clamp_target v').
  { intros v v' Hv. unfold clamp_target, ClampHiTest, ClampHiSet, ClampLoTest, ClampLoSet, MaxPwmValue, MinPwmValue.
    destruct (255 <? v) eqn:A; destruct (255 <? v') eqn:A'; destruct (v <? 0) eqn:B; destruct (v' <? 0) eqn:B'; lia. }
  repeat split.
  - rewrite (C0 0); [exact E0|lia].
  - rewrite (C255 255); [exact E255|lia].
  - apply rescale_bounds; auto. apply clamp_target_range.
  - apply rescale_bounds; auto. apply clamp_target_range.
  - intros v v' Hv. pose proof (clamp_target_range v). pose proof (clamp_target_range v').
    apply rescale_mono; auto; try lia.
  - intros v Hv. rewrite (C0 v Hv). exact E0.
  - intros v Hv. rewrite (C255 v Hv). exact E255.
Qed.

(* |rescale t' - rescale t| <= |t' - t| *)
Lemma rescale_lipschitz lo hi : 0 <= lo -> lo <= hi -> hi <= 255 ->
  forall t t', 0 <= t -> t <= t' -> t' <= 255 ->
  rescale_c t lo hi <= rescale_c t' lo hi <= rescale_c t lo hi + (t' - t).
Proof.
  intros H0 H1 H2 t t' Ht Hle H255.
  split; [apply rescale_mono; auto|].
  replace t' with (t + Z.of_nat (Z.to_nat (t' - t))) in * by lia.
  revert H255 Hle. generalize (Z.to_nat (t' - t)) as n. induction n as [|n IH]; intros H255 Hle.
  - replace (t + Z.of_nat 0) with t by lia. lia.
  - replace (t + Z.of_nat (S n)) with (t + Z.of_nat n + 1) in * by lia.
    specialize (IH ltac:(lia) ltac:(lia)).
    pose proof (rescale_step (t + Z.of_nat n) lo hi ltac:(lia) ltac:(lia) H0 H1 H2). lia.
Qed.

(* ---- the rate-limited loop variable ---- *)
Definition lim_step (c v t : Z) : Z := direct_cycle (Some c) v t.

Lemma lim_step_spec c v t : 1 <= c -> 0 <= t <= 255 ->
  let v' := clampZ v 0 255 in
  0 <= lim_step c v t <= 255
  /\ (t <= v' -> t <= lim_step c v t <= v' /\ ((lim_step c v t = v' /\ v' - t <= c) \/ lim_step c v t = t + c))
  /\ (v' <= t -> v' <= lim_step c v t <= t /\ ((lim_step c v t = v' /\ t - v' <= c) \/ lim_step c v t = t - c)).
Proof.
  intros Hc Ht. cbv zeta. unfold lim_step, direct_cycle, clampZ.
  destruct (c <? v - t) eqn:A; destruct (v - t <? - c) eqn:B;
  destruct (255 <? v) eqn:C; destruct (v <? 0) eqn:D;
  repeat match goal with |- context [?x <? ?y] => destruct (x <? y) eqn:? end; lia.
Qed.

Fixpoint lim_iter (n : nat) (c v t : Z) : Z :=
  match n with O => t | S k => lim_iter k c v (lim_step c v t) end.

Lemma lim_iter_dist c v : 1 <= c -> forall n t, 0 <= t <= 255 ->
  let v' := clampZ v 0 255 in
  0 <= lim_iter n c v t <= 255
  /\ Z.abs (v' - lim_iter n c v t) = Z.max 0 (Z.abs (v' - t) - Z.of_nat n * c).
Proof.
  intros Hc. induction n as [|n IH]; intros t Ht; cbv zeta.
  - cbn [lim_iter]. split; [exact Ht|lia].
  - cbn [lim_iter]. pose proof (lim_step_spec c v t Hc Ht) as (R & Up & Down). cbv zeta in *.
    specialize (IH (lim_step c v t) R). cbv zeta in IH. destruct IH as [IH1 IH2].
    split; [exact IH1|]. rewrite IH2. pose proof (clampZ_range v).
    assert (Hnc : 0 <= Z.of_nat n * c) by (apply Z.mul_nonneg_nonneg; lia).
    replace (Z.of_nat (S n) * c) with (Z.of_nat n * c + c) by lia.
    generalize dependent (Z.of_nat n * c). intros nc _ Hnc.
    destruct (Z.le_ge_cases t (clampZ v 0 255)) as [L|L].
    + destruct (Up L) as (U1 & [[U2 U3]|U2]); rewrite U2; lia.
    + destruct (Down ltac:(lia)) as (D1 & [[D2 D3]|D2]); rewrite D2; lia.
Qed.

Theorem lim_iter_settles c v n t : 1 <= c -> 0 <= t <= 255 -> 255 <= Z.of_nat n * c ->
  lim_iter n c v t = clampZ v 0 255.
Proof.
  intros Hc Ht Hn. pose proof (lim_iter_dist c v Hc n t Ht) as [R D]. cbv zeta in D.
  pose proof (clampZ_range v). lia.
Qed.

(* ---- one cycle of the controller for the direct algorithms (fans on which the stall branch cannot fire) ---- *)
Definition no_stall (f : fan) : Prop := has_rpm f && never_stop f = false.

Lemma calc_target_direct c s i lim v l :
  no_stall (s_fan s) -> s_alg s = Direct lim -> ci_curve i = Some v -> s_last s = Some l ->
  let cur := match s_loopcur s with Some t => t | None => l end in
  let t' := clamp_target (direct_cycle lim v cur) in
  exists s1, calc_target c s i = TOk s1 (rescale_c t' (GetMinPwm (s_fan s) + s_offset s) (GetMaxPwm (s_fan s)))
  /\ s_loopcur s1 = Some t' /\ s_alg s1 = Direct lim
  /\ s_fan s1 = s_fan s /\ s_offset s1 = s_offset s /\ s_last s1 = s_last s /\ s_stopped s1 = s_stopped s.
Proof.
  intros Hns Ha Hv Hl. cbv zeta. unfold calc_target. rewrite Hl, Hv, Ha. cbn [alg_cycle].
  unfold no_stall in Hns. rewrite Hns. cbn [andb].
  eexists. split; [reflexivity|]. cbn. auto 10.
Qed.

(* one full control cycle (any elapsed time, any read / write / mode fault) under a direct algorithm *)
Lemma cycle_direct c s i lim v l lo hi :
  0 <= lo -> hi <= 255 -> pm_ok (c_pm c) -> inv lo hi s -> no_stall (s_fan s) -> s_stopped s = 0 ->
  s_alg s = Direct lim -> ci_curve i = Some v -> s_last s = Some l ->
  let cur := match s_loopcur s with Some t => t | None => l end in
  let t' := clamp_target (direct_cycle lim v cur) in
  let s' := fst (step c s (Cycle i)) in
  s_last s' = Some (rescale_c t' (lo + s_offset s) hi) /\ s_loopcur s' = Some t' /\ s_alg s' = Direct lim
  /\ s_offset s' = s_offset s /\ s_stopped s' = 0 /\ inv lo hi s' /\ no_stall (s_fan s').
Proof.
  intros Hlo Hhi Hpm I Hns Hrun Ha Hv Hl. cbv zeta. cbn [step]. rewrite Hrun. cbn [Z.eqb negb].
  pose proof (calc_target_spec c s i lo hi Hlo Hhi I) as T.
  destruct (calc_target_direct c s i lim v l Hns Ha Hv Hl) as (s1 & E & Lc & A1 & F1 & O1 & L1 & St1).
  cbv zeta in E. rewrite E in *. destruct T as (I1 & _ & Hr & _).
  destruct I as [Imin Imax _ _ _]. rewrite Imin, Imax in *.
  set (r := rescale_c (clamp_target (direct_cycle lim v match s_loopcur s with Some t => t | None => l end))
                      (lo + s_offset s) hi) in *.
  assert (Hr' : lo <= r <= hi) by (destruct I1; lia).
  pose proof (apply_target_spec c s1 i r lo hi Hpm I1 Hr') as A.
  assert (Keep : forall s2 ws err, apply_target c s1 i r = (s2, ws, err) ->
                 s_loopcur s2 = s_loopcur s1 /\ s_alg s2 = s_alg s1 /\ s_fan s2 = s_fan s1).
  { intros s2 ws err EA. unfold apply_target in EA.
    destruct (written (c_pm c) r); [destruct (_ && _ && _)|..]; inversion EA; auto. }
  destruct (apply_target c s1 i r) as [[s2 ws] err] eqn:EA.
  destruct (Keep s2 ws err eq_refl) as (K1 & K2 & K3).
  destruct A as (I2 & _ & L2 & O2 & St2 & _). cbn [fst].
  split; [congruence|]. split; [congruence|]. split; [congruence|]. split; [congruence|].
  split; [congruence|]. split; [exact I2|]. unfold no_stall in *. congruence.
Qed.

(* n consecutive cycles with the same curve value under the rate-limited algorithm *)
Fixpoint const_states (c : cfg) (s : st) (cs : list cin) : list st :=
  match cs with [] => [] | i :: r => let s1 := fst (step c s (Cycle i)) in s1 :: const_states c s1 r end.

Lemma limited_run c lim v lo hi : 1 <= lim -> 0 <= lo -> hi <= 255 -> pm_ok (c_pm c) ->
  forall cs s t l off,
  Forall (fun i => ci_curve i = Some v) cs ->
  inv lo hi s -> no_stall (s_fan s) -> s_stopped s = 0 -> s_alg s = Direct (Some lim) ->
  s_last s = Some l -> s_loopcur s = Some t -> 0 <= t <= 255 -> s_offset s = off ->
  forall k sk, nth_error (const_states c s cs) k = Some sk ->
    s_loopcur sk = Some (lim_iter (S k) lim v t)
    /\ s_last sk = Some (rescale_c (lim_iter (S k) lim v t) (lo + off) hi).
Proof.
  intros Hc Hlo Hhi Hpm. induction cs as [|i cs IH]; intros s t l off Hall I Hns Hrun Ha Hl Ht Htr Hoff k sk Hk.
  - destruct k; discriminate.
  - inversion Hall as [|i0 cs0 Hi His]; subst i0 cs0.
    pose proof (cycle_direct c s i (Some lim) v l lo hi Hlo Hhi Hpm I Hns Hrun Ha Hi Hl) as C.
    cbv zeta in C. rewrite Ht in C. fold (lim_step lim v t) in C.
    pose proof (lim_step_spec lim v t Hc Htr) as (R & _). cbv zeta in R.
    rewrite (clamp_target_id _ R) in C.
    destruct C as (L1 & Lc1 & A1 & O1 & St1 & I1 & N1).
    cbn [const_states] in Hk. destruct k as [|k].
    + cbn in Hk. inversion Hk; subst sk. cbn [lim_iter]. rewrite Hoff in L1. auto.
    + cbn [nth_error] in Hk.
      specialize (IH (fst (step c s (Cycle i))) (lim_step lim v t) _ off His I1 N1 St1 A1 L1 Lc1 R ltac:(congruence) k sk Hk).
      cbn [lim_iter]. exact IH.
Qed.

Lemma clamp_target_is_clampZ v : clamp_target v = clampZ v 0 255.
Proof.
  unfold clamp_target, clampZ, ClampHiTest, ClampHiSet, ClampLoTest, ClampLoSet, MaxPwmValue, MinPwmValue.
  reflexivity.
Qed.

Lemma lim_iter_S n c v t : lim_iter (S n) c v t = lim_step c v (lim_iter n c v t).
Proof. revert t. induction n as [|n IH]; intros t; [reflexivity|]. cbn [lim_iter] in *. rewrite IH. reflexivity. Qed.

(* the sequence of requests rescale(T_k): bounded steps, monotone toward the steady value, settled after
   ceil(255/c) cycles *)
Theorem limited_requests c v t lo hi : 1 <= c -> 0 <= t <= 255 -> 0 <= lo -> lo <= hi -> hi <= 255 ->
  let r := fun k => rescale_c (lim_iter k c v t) lo hi in
  forall k,
    Z.abs (r (S k) - r k) <= c
    /\ ((r k <= r (S k) <= steady v lo hi) \/ (steady v lo hi <= r (S k) <= r k))
    /\ (255 <= Z.of_nat k * c -> r k = steady v lo hi).
Proof.
  intros Hc Ht H0 H1 H2 r k. subst r. cbv beta.
  pose proof (lim_iter_dist c v Hc k t Ht) as [Rk _]. cbv zeta in Rk.
  rewrite lim_iter_S. set (T := lim_iter k c v t) in *.
  pose proof (lim_step_spec c v T Hc Rk) as (R1 & Up & Down). cbv zeta in *.
  unfold steady. rewrite clamp_target_is_clampZ. pose proof (clampZ_range v) as Hv.
  set (v' := clampZ v 0 255) in *. set (T1 := lim_step c v T) in *.
  split; [|split].
  - destruct (Z.le_ge_cases T v') as [L|L].
    + destruct (Up L) as (U1 & U2).
      pose proof (rescale_lipschitz lo hi H0 H1 H2 T T1 ltac:(lia) ltac:(lia) ltac:(lia)). lia.
    + destruct (Down ltac:(lia)) as (D1 & D2).
      pose proof (rescale_lipschitz lo hi H0 H1 H2 T1 T ltac:(lia) ltac:(lia) ltac:(lia)). lia.
  - destruct (Z.le_ge_cases T v') as [L|L].
    + destruct (Up L) as (U1 & U2). left. split; apply rescale_mono; lia.
    + destruct (Down ltac:(lia)) as (D1 & D2). right. split; apply rescale_mono; lia.
  - intros Hk. subst T. rewrite (lim_iter_settles c v k t Hc Ht Hk). reflexivity.
Qed.

(* the plain direct algorithm: the steady value in ONE cycle from any state *)
Lemma cycle_direct_plain c s i v l lo hi :
  0 <= lo -> hi <= 255 -> pm_ok (c_pm c) -> inv lo hi s -> no_stall (s_fan s) -> s_stopped s = 0 ->
  s_alg s = Direct None -> ci_curve i = Some v -> s_last s = Some l ->
  s_last (fst (step c s (Cycle i))) = Some (steady v (lo + s_offset s) hi).
Proof.
  intros Hlo Hhi Hpm I Hns Hrun Ha Hv Hl.
  pose proof (cycle_direct c s i None v l lo hi Hlo Hhi Hpm I Hns Hrun Ha Hv Hl) as C. cbv zeta in C.
  destruct C as (L1 & _). rewrite L1. unfold steady, direct_cycle. rewrite clamp_target_clampZ. reflexivity.
Qed.
