(* C05: external interference is undone within one control cycle; the third-party counter counts
   exactly the changed PWM values and never counts while nothing else touches the fan. *)
From Coq Require Import ZArith Bool List Floats Lia Sorting.Sorted.
From F2G Require Import Go.GoFloat gen.Consts Model.Util Model.Fan Model.ControlLoop Model.Controller
                        Proofs.Closest Proofs.Rescale Proofs.Ctrl.
Import ListNotations.
Open Scope Z_scope.

(* the fan reads back what the PWM map says (identity, user map on an exact device, idempotent quantiser) *)
Definition reads_back (c : cfg) : Prop := forall k, In k (map fst (c_pm c)) -> resp c (lookup (c_pm c) k) = lookup (c_pm c) k.

(* the device shows what the last request dictates *)
Definition shows (c : cfg) (s : st) : Prop := forall r, s_last s = Some r -> written (c_pm c) r = FcVal (s_pwm s).

Lemma nearest_supported_in_keys pm r k : nearest (supported pm) r k -> In k (map fst pm).
Proof. intros [Hin _]. unfold supported in Hin. eapply extract_sub; eauto. Qed.

Lemma calc_target_fan c s i :
  match calc_target c s i with
  | TOk s1 _ | TErr s1 _ => has_mode (s_fan s1) = has_mode (s_fan s) /\ fk (s_fan s1) = fk (s_fan s)
                            /\ (s_cnt s1 = s_cnt s \/ s_cnt s1 = third_party_cnt c s i)
  end.
Proof.
  unfold calc_target.
  destruct (match s_last s with Some l => Some l | None => _ end); [|auto].
  destruct (ci_curve i); [|auto].
  destruct (alg_cycle _ _ _ _).
  destruct (_ && _ && _ && _); [|cbn; auto].
  destruct (_ <=? _); [cbn; auto|]. cbn.
  destruct (SetRpmAvg_limits (s_fan s) PostRaiseAvg) as (_ & _ & _ & _ & A & B). auto.
Qed.

(* one cycle whose PWM write succeeds, from ANY state (i.e. after any interference) *)
Lemma cycle_reasserts c s i lo hi :
  0 <= lo -> hi <= 255 -> pm_ok (c_pm c) -> reads_back c -> inv lo hi s -> s_stopped s = 0 ->
  ci_write_ok i = true ->
  let '(s', o) := step c s (Cycle i) in
  o_err o = 0 ->
  shows c s' /\ (exists r, s_last s' = Some r)
  /\ (has_mode (s_fan s) = true -> ci_mode_ok i = true -> s_mode s' = ControlModePWM).
Proof.
  intros Hlo Hhi Hpm Hrb I Hrun Hw. cbn [step]. rewrite Hrun. cbn [Z.eqb negb].
  pose proof (calc_target_spec c s i lo hi Hlo Hhi I) as T.
  pose proof (calc_target_fan c s i) as Tf.
  destruct (calc_target c s i) as [s1 r|s1 code].
  - destruct T as (I1 & L1 & Hr & P1 & M1 & _).
    assert (Hmode1 : has_mode (s_fan s1) = has_mode (s_fan s)) by (destruct Tf as (A & _); exact A).
    destruct Hpm as [Hne Hsorted].
    destruct (written_spec (c_pm c) r Hne Hsorted) as (k & _ & Hn & Hwr & Hin).
    unfold apply_target. rewrite Hwr.
    destruct (supports_pwm (s_fan s1) i && ci_read_ok i && (lookup (c_pm c) k =? s_pwm s1)) eqn:Sk.
    + cbn. intros _. repeat split.
      * intros r' E. cbn in E. inversion E; subst r'. cbn.
        apply andb_true_iff in Sk. destruct Sk as [_ Sk]. apply Z.eqb_eq in Sk. rewrite Hwr, Sk. reflexivity.
      * eauto.
      * intros Hm Hmo. rewrite Hmode1, Hm, Hmo. reflexivity.
    + cbn. rewrite Hw. intros _. repeat split.
      * intros r' E. cbn in E. inversion E; subst r'. cbn. rewrite Hwr. f_equal.
        symmetry. apply Hrb. eapply nearest_supported_in_keys; eauto.
      * eauto.
      * intros Hm Hmo. rewrite Hmode1, Hm, Hmo. reflexivity.
  - destruct T as (_ & _ & _ & Hcode & _). cbn. intros E. destruct Hcode; lia.
Qed.

(* the counter after a cycle that gets as far as the third-party check *)
Lemma cycle_cnt c s i lo hi l v :
  0 <= lo -> hi <= 255 -> pm_ok (c_pm c) -> inv lo hi s -> s_stopped s = 0 ->
  s_last s = Some l -> ci_curve i = Some v ->
  s_cnt (fst (step c s (Cycle i))) = third_party_cnt c s i.
Proof.
  intros Hlo Hhi Hpm I Hrun Hl Hv. cbn [step]. rewrite Hrun. cbn [Z.eqb negb].
  pose proof (calc_target_spec c s i lo hi Hlo Hhi I) as T.
  assert (Hc : match calc_target c s i with TOk s1 _ | TErr s1 _ => s_cnt s1 = third_party_cnt c s i end).
  { unfold calc_target. rewrite Hl, Hv.
    destruct (alg_cycle _ _ _ _).
    destruct (_ && _ && _ && _); [|reflexivity].
    destruct (_ <=? _); reflexivity. }
  destruct (calc_target c s i) as [s1 r|s1 code].
  - destruct T as (I1 & L1 & Hr & _).
    assert (Hr' : lo <= r <= hi) by (destruct I1; lia).
    unfold apply_target. destruct Hpm as [Hne Hs].
    destruct (written_spec (c_pm c) r Hne Hs) as (k & _ & _ & Hw & _). rewrite Hw.
    destruct (_ && _ && _); cbn; exact Hc.
  - cbn. exact Hc.
Qed.

Lemma third_party_changed c s i l e :
  s_last s = Some l -> written (c_pm c) l = FcVal e -> supports_pwm (s_fan s) i && ci_read_ok i = true ->
  (s_pwm s <> e -> third_party_cnt c s i = s_cnt s + 1) /\ (s_pwm s = e -> third_party_cnt c s i = s_cnt s).
Proof.
  intros Hl Hw Hs. unfold third_party_cnt. rewrite Hl, Hs, Hw. split; intros H.
  - destruct (s_pwm s =? e) eqn:E; [apply Z.eqb_eq in E; contradiction|reflexivity].
  - subst e. rewrite Z.eqb_refl. reflexivity.
Qed.

Lemma third_party_quiet c s i : shows c s -> third_party_cnt c s i = s_cnt s.
Proof.
  intros Sh. unfold third_party_cnt. destruct (s_last s) as [l|] eqn:Hl; [|reflexivity].
  rewrite (Sh l Hl). destruct (_ && _); [|reflexivity]. rewrite Z.eqb_refl. reflexivity.
Qed.

(* histories in which nothing else touches the fan and its PWM writes succeed *)
Definition quiet_ev (e : hev) : Prop :=
  match e with Ext _ _ => False | Cycle i => ci_write_ok i = true | Poll _ => True end.

Lemma step_quiet c s e lo hi :
  0 <= lo -> hi <= 255 -> pm_ok (c_pm c) -> reads_back c -> inv lo hi s -> quiet_ev e ->
  shows c s -> shows c (fst (step c s e)) /\ s_cnt (fst (step c s e)) = s_cnt s.
Proof.
  intros Hlo Hhi Hpm Hrb I Q Sh. destruct e as [rpm|i|m p]; [cbn; auto| |contradiction].
  cbn in Q.
  destruct (s_stopped s =? 0) eqn:Hrun.
  2:{ cbn [step]. rewrite Hrun. cbn. auto. }
  apply Z.eqb_eq in Hrun.
  pose proof (cycle_reasserts c s i lo hi Hlo Hhi Hpm Hrb I Hrun Q) as R.
  cbn [step] in *. rewrite Hrun in *. cbn [Z.eqb negb] in *.
  pose proof (calc_target_spec c s i lo hi Hlo Hhi I) as T.
  pose proof (calc_target_fan c s i) as Tf.
  destruct (calc_target c s i) as [s1 r|s1 code].
  - destruct T as (I1 & L1 & Hr & _).
    assert (Hr' : lo <= r <= hi) by (destruct I1; lia).
    pose proof (apply_target_spec c s1 i r lo hi Hpm I1 Hr') as A.
    destruct Tf as (_ & _ & Hc).
    assert (Hc1 : s_cnt s1 = s_cnt s) by (destruct Hc as [E|E]; [exact E|rewrite E; apply third_party_quiet; exact Sh]).
    assert (Hc2 : forall s2 ws err, apply_target c s1 i r = (s2, ws, err) -> s_cnt s2 = s_cnt s1).
    { intros s2 ws err E. unfold apply_target in E. destruct (written (c_pm c) r); destruct (_ && _ && _) in E || idtac;
        inversion E; reflexivity. }
    destruct (apply_target c s1 i r) as [[s2 ws] err] eqn:EA.
    destruct A as (_ & -> & _). cbn in *. split; [apply R; reflexivity|].
    rewrite (Hc2 s2 ws 0 eq_refl). exact Hc1.
  - destruct T as (_ & L1 & _ & _ & P1 & _). destruct Tf as (_ & _ & Hc). unfold set_stopped. cbn. split.
    + intros r E. cbn in E. rewrite L1 in E. cbn. rewrite P1. apply Sh; exact E.
    + destruct Hc as [E|E]; [exact E|rewrite E; apply third_party_quiet; exact Sh].
Qed.

Theorem run_quiet c : forall h s lo hi,
  0 <= lo -> hi <= 255 -> pm_ok (c_pm c) -> reads_back c -> inv lo hi s -> Forall quiet_ev h ->
  shows c s -> Forall (fun s' => s_cnt s' = s_cnt s) (states c s h).
Proof.
  induction h as [|e h IH]; intros s lo hi Hlo Hhi Hpm Hrb I Q Sh; cbn [states]; [constructor|].
  inversion Q as [|e' h' Qe Qh]; subst.
  pose proof (step_quiet c s e lo hi Hlo Hhi Hpm Hrb I Qe Sh) as [Sh1 C1].
  pose proof (step_spec c s e lo hi Hlo Hhi Hpm I) as S.
  destruct (step c s e) as [s1 o]. cbn [fst] in *. destruct S as (I1 & _).
  constructor; [exact C1|].
  specialize (IH s1 lo hi Hlo Hhi Hpm Hrb I1 Qh Sh1). rewrite C1 in IH. exact IH.
Qed.

Lemma init_shows c f a pwm mode : shows c (init_st f a pwm mode).
Proof. intros r E. discriminate. Qed.
