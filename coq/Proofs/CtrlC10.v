(* C10: a stalled never-stop fan is noticed and pushed. *)
From Coq Require Import ZArith Bool List Floats Lia ZifyBool Sorting.Sorted.
From F2G Require Import Go.GoFloat gen.Consts Model.Util Model.Fan Model.ControlLoop Model.Controller
                        Proofs.Closest Proofs.Rescale Proofs.Ctrl.
Import ListNotations.
Open Scope Z_scope.

(* ---- the stall branch: a cycle that would repeat the previous request while the RPM average is below
   the threshold either raises (request + 1, one more raise counted) or reports the stall at max ---- *)
Lemma stall_cycle c s i lo hi l v :
  0 <= lo -> hi <= 255 -> inv lo hi s ->
  has_rpm (s_fan s) = true -> never_stop (s_fan s) = true -> stall_test (GetRpmAvg (s_fan s)) = true ->
  s_last s = Some l -> ci_curve i = Some v ->
  let '(_, t0) := alg_cycle (s_alg s) v (match s_loopcur s with Some t => t | None => l end) (ci_dt i) in
  let r := rescale_c (clamp_target t0) (lo + s_offset s) hi in
  r = l ->
  match calc_target c s i with
  | TErr _ code => code = 1 /\ hi <= l
  | TOk s1 r' => r' = l + 1 /\ s_offset s1 = s_offset s + 1 /\ l < hi
                 /\ GetRpmAvg (s_fan s1) = GetRpmAvg (SetRpmAvg (s_fan s) PostRaiseAvg)
  end.
Proof.
  intros Hlo Hhi [Imin Imax _ _ _] Hrpm Hns Hst Hl Hv.
  unfold calc_target. rewrite Hl, Hv.
  destruct (alg_cycle (s_alg s) v (match s_loopcur s with Some t => t | None => l end) (ci_dt i)) as [alg' t0].
  cbv zeta. rewrite Imin, Imax. intros Hr. rewrite Hr, Hrpm, Hns, Hst, Z.eqb_refl. cbn [andb].
  destruct (hi <=? l) eqn:E.
  - split; [reflexivity|lia].
  - cbn. repeat split; lia.
Qed.

(* conversely: with a healthy RPM average the stall branch never fires *)
Lemma no_stall_cycle c s i :
  stall_test (GetRpmAvg (s_fan s)) = false ->
  match calc_target c s i with
  | TErr _ code => code = 2
  | TOk s1 _ => s_offset s1 = s_offset s
  end.
Proof.
  intros Hst. unfold calc_target.
  destruct (match s_last s with Some l => Some l | None => _ end); [|reflexivity].
  destruct (ci_curve i); [|reflexivity].
  destruct (alg_cycle _ _ _ _). rewrite Hst, andb_false_r. reflexivity.
Qed.

(* ---- what one poll reading 0 RPM does to the average, for every window size 1..1000
   (finite domain, checked by computation; the property quantifies over window sizes 1..50) ---- *)
Definition poll0_ok (n : Z) : bool :=
  (* file / cmd fans: the average is the last reading; after a reading of 0 it is 0, whatever it was *)
  feqb (upd_avg 0%float n 0%float) 0%float
  (* hwmon fans: right after a raise the average is PostRaiseAvg; one more poll of 0 puts it below the threshold *)
  && stall_test (upd_avg PostRaiseAvg n 0%float)
  (* and an average of exactly 0 stays 0 *)
  && stall_test (upd_avg 0%float n 0%float).

Lemma poll0_ok_all : upto 1001 (fun n => (n =? 0) || poll0_ok n) = true.
Proof. vm_compute. reflexivity. Qed.

Lemma poll0_facts n : 1 <= n <= 1000 ->
  feqb (upd_avg 0%float n 0%float) 0%float = true
  /\ stall_test (upd_avg PostRaiseAvg n 0%float) = true
  /\ stall_test (upd_avg 0%float n 0%float) = true.
Proof.
  intros Hn. pose proof (upto_spec _ _ poll0_ok_all n ltac:(lia)) as H. cbv beta in H.
  apply orb_true_iff in H. destruct H as [H|H]; [apply Z.eqb_eq in H; lia|].
  unfold poll0_ok in H. apply andb_true_iff in H. destruct H as [H H3]. apply andb_true_iff in H. tauto.
Qed.

(* file / cmd fan: GetRpm stores the reading, measureRpm averages the reading with itself *)
Lemma poll_zero_file_cmd n f :
  fk f <> HwMon -> 1 <= n <= 1000 ->
  stall_test (GetRpmAvg (poll_rpm n f (Some 0))) = true.
Proof.
  intros Hk Hn. destruct (poll0_facts n Hn) as (A & _ & C).
  assert (E : GetRpmAvg (poll_rpm n f (Some 0)) = i2f (f2i (upd_avg 0%float n 0%float))).
  { unfold poll_rpm, GetRpmAvg, SetRpmAvg. destruct (fk f) eqn:E; [congruence| |]; cbn; rewrite ?E; cbn; rewrite ?E; reflexivity. }
  rewrite E.
  assert (Z0 : f2i (upd_avg 0%float n 0%float) = 0).
  { revert A. generalize (upd_avg 0%float n 0%float). intros x Hx. unfold feqb in Hx. unfold f2i.
    destruct (Prim2SF x); try discriminate. reflexivity. }
  rewrite Z0. vm_compute. reflexivity.
Qed.

Lemma poll_rpm_hwmon n f rpm : fk f = HwMon ->
  GetRpmAvg (poll_rpm n f rpm) = upd_avg (rpm_avg f) n (i2f (odflt rpm 0)).
Proof.
  intros Hk. unfold poll_rpm. rewrite Hk. unfold SetRpmAvg. rewrite Hk.
  unfold GetRpmAvg at 1. unfold set_rpm_avg at 1. cbn [fk rpm_avg]. rewrite Hk.
  unfold GetRpmAvg. rewrite Hk. reflexivity.
Qed.

(* hwmon fan right after a raise: one poll reading 0 re-arms the stall test *)
Lemma poll_zero_after_raise n f :
  fk f = HwMon -> 1 <= n <= 1000 -> rpm_avg f = PostRaiseAvg ->
  stall_test (GetRpmAvg (poll_rpm n f (Some 0))) = true.
Proof.
  intros Hk Hn Ha. destruct (poll0_facts n Hn) as (_ & B & _).
  rewrite (poll_rpm_hwmon n f (Some 0) Hk), Ha. exact B.
Qed.

Lemma stall_test_unfold avg : stall_test avg = PrimFloat.ltb avg 1%float.
Proof. reflexivity. Qed.
