(* C10, hwmon fans: the first detection after the fan had been spinning. Ties the geometric-decay
   theorem of Proofs/Decay.v (binary64, all values) to the fan model. *)
From Coq Require Import ZArith Bool List Floats Reals Lia.
From F2G Require Import Go.GoFloat gen.Consts Model.Util Model.Fan Model.ControlLoop Model.Controller
                        Proofs.Ctrl Proofs.CtrlC10 Proofs.Decay.
Import ListNotations.
Open Scope Z_scope.

Definition polls0 (n : Z) (k : nat) (f : fan) : fan := Nat.iter k (fun g => poll_rpm n g (Some 0)) f.

Lemma polls0_avg n k f : fk f = HwMon ->
  fk (polls0 n k f) = HwMon
  /\ GetRpmAvg (polls0 n k f) = Nat.iter k (fun a => upd_avg a n 0%float) (rpm_avg f).
Proof.
  intros Hk. induction k as [|k [IH1 IH2]].
  - split; [exact Hk|]. cbn. unfold GetRpmAvg. rewrite Hk. reflexivity.
  - unfold polls0 in *. change (Nat.iter (S k) (fun g => poll_rpm n g (Some 0)) f) with (poll_rpm n (Nat.iter k (fun g => poll_rpm n g (Some 0)) f) (Some 0)). change (Nat.iter (S k) (fun a => upd_avg a n 0%float) (rpm_avg f)) with (upd_avg (Nat.iter k (fun a => upd_avg a n 0%float) (rpm_avg f)) n 0%float). set (g := Nat.iter k (fun g => poll_rpm n g (Some 0)) f) in *.
    destruct (poll_rpm_limits n g (Some 0)) as (_ & _ & _ & _ & _ & Hfk).
    split; [rewrite Hfk; exact IH1|].
    rewrite (poll_rpm_hwmon n g (Some 0) IH1).
    assert (E : rpm_avg g = GetRpmAvg g) by (unfold GetRpmAvg; rewrite IH1; reflexivity).
    rewrite E, IH2. reflexivity.
Qed.
(*
    destruct (poll_rpm_limits n (Nat.iter k (fun g => poll_rpm n g (Some 0)) f) (Some 0)) as (_ & _ & _ & _ & _ & Hfk).
    split; [congruence|].
    rewrite (poll_rpm_hwmon n _ (Some 0) IH1).
    assert (E : rpm_avg (Nat.iter k (fun g => poll_rpm n g (Some 0)) f)
                = GetRpmAvg (Nat.iter k (fun g => poll_rpm n g (Some 0)) f)).
    { unfold GetRpmAvg. rewrite IH1. reflexivity. }
    rewrite E, IH2. reflexivity.
Qed. *)

(* For every hwmon fan whose RPM average is any finite binary64 value in [0, A] (the fan was spinning at
   any speed up to A RPM, or never spun), every window size n in 1..65536: after decay_polls n A =
   2*n*(log2_up A + 1) polls reading 0 RPM — and after any larger number — the stall test is armed. *)
Theorem hwmon_detect n A f k :
  fk f = HwMon -> 1 <= n <= 65536 -> 1 <= A <= 2 ^ 62 ->
  GoFloat.is_finite (rpm_avg f) = true -> (0 <= RV (rpm_avg f) <= IZR A)%R ->
  (Z.to_nat (decay_polls n A) <= k)%nat ->
  stall_test (GetRpmAvg (polls0 n k f)) = true.
Proof.
  intros Hk Hn HA Hfin Hr Hkk.
  destruct (polls0_avg n k f Hk) as [_ E]. rewrite E.
  rewrite stall_test_unfold.
  exact (hwmon_detect_bound n A (rpm_avg f) k Hn HA Hfin Hr Hkk).
Qed.
