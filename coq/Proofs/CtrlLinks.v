(* Links between the boolean observers of the `ctrl` correspondence driver (Drv/CtrlC0x.v) and the
   verified controller model: the model's own observations always satisfy each observer, so on a
   tree where implementation and model agree the check cannot raise a false alarm.
   This file: shared definitions (with_obs, well-formed cases and their boolean form, equality
   reflected by the comparison of observations) and the links for C01 and C02. *)
From Coq Require Import ZArith Bool List Floats Lia Sorting.Sorted RelationClasses.
From F2G Require Import Go.GoFloat gen.Consts Model.Util Model.Fan Model.ControlLoop Model.Controller
                        Proofs.Closest Proofs.Rescale Proofs.Ctrl Drv.Common Drv.Ctrl.
From F2G Require Drv.Closest Drv.CtrlC01 Drv.CtrlC02.
Import ListNotations.
Open Scope Z_scope.

(* ------------------------------------------------------------------ the case with other observations *)
Definition with_obs (c : case) (os : list obs) : case :=
  mkCase (k_kind c) (k_never c) (k_cfg_min c) (k_cfg_start c) (k_cfg_max c)
         (k_meas_min c) (k_meas_start c) (k_meas_max c)
         (k_pm c) (k_q c) (k_alg c) (k_n c) (k_has_rpm c) (k_has_mode c) (k_pwm0 c) (k_mode0 c) (k_avg0 c)
         (k_hist c) os.

Lemma with_obs_id c : with_obs c (k_obs c) = c.
Proof. destruct c; reflexivity. Qed.
Lemma with_obs_fan c os : case_fan (with_obs c os) = case_fan c.
Proof. reflexivity. Qed.
Lemma with_obs_cfg c os : case_cfg (with_obs c os) = case_cfg c.
Proof. reflexivity. Qed.
Lemma with_obs_init c os : case_init (with_obs c os) = case_init c.
Proof. reflexivity. Qed.
Lemma with_obs_model c os : model_obs (with_obs c os) = model_obs c.
Proof. reflexivity. Qed.
Lemma with_obs_obs c os : k_obs (with_obs c os) = os.
Proof. reflexivity. Qed.

(* ------------------------------------------------------------------ the comparison of observations
   reflects equality. Coq's primitive floats have ONE NaN (SF2Prim_Prim2SF), so [feqb], which identifies
   all NaNs, is Leibniz equality: no observer can tell apart two observation lists that compare equal. *)
Lemma feqb_eq x y : feqb x y = true -> x = y.
Proof.
  unfold feqb. intros H.
  rewrite <- (SF2Prim_Prim2SF x), <- (SF2Prim_Prim2SF y). f_equal.
  destruct (Prim2SF x) as [a|a| |a m e], (Prim2SF y) as [b|b| |b m' e']; try discriminate; try reflexivity.
  - apply eqb_prop in H. congruence.
  - apply eqb_prop in H. congruence.
  - apply andb_true_iff in H. destruct H as [H H3]. apply andb_true_iff in H. destruct H as [H1 H2].
    apply eqb_prop in H1. apply Pos.eqb_eq in H2. apply Z.eqb_eq in H3. congruence.
Qed.

Lemma list_eqb_eq {A} (eqb : A -> A -> bool) :
  (forall a b, eqb a b = true -> a = b) -> forall l1 l2, list_eqb eqb l1 l2 = true -> l1 = l2.
Proof.
  intros He. induction l1 as [|x r IH]; destruct l2 as [|y r2]; cbn; intros H; try discriminate; auto.
  apply andb_true_iff in H. destruct H as [H1 H2]. f_equal; auto.
Qed.

Lemma optZ_eqb_eq a b : optZ_eqb a b = true -> a = b.
Proof. destruct a, b; cbn; intros H; try discriminate; auto. apply Z.eqb_eq in H. congruence. Qed.

Lemma obs_eqb_eq a b : obs_eqb a b = true -> a = b.
Proof.
  destruct a, b. unfold obs_eqb. cbn.
  rewrite !andb_true_iff. intros [[[[[[[[H1 H2] H3] H4] H5] H6] H7] H8] H9].
  apply Z.eqb_eq in H1, H4, H5, H6, H7, H8. apply optZ_eqb_eq in H2. apply feqb_eq in H9.
  apply (list_eqb_eq Z.eqb) in H3; [|intros x y; apply Z.eqb_eq]. congruence.
Qed.

Lemma mismatch_false c : mismatch c = false -> model_obs c = k_obs c.
Proof.
  unfold mismatch. intros H. apply negb_false_iff in H. exact (list_eqb_eq obs_eqb obs_eqb_eq _ _ H).
Qed.

Lemma agree_with_obs c : mismatch c = false -> with_obs c (model_obs c) = c.
Proof. intros H. rewrite (mismatch_false c H). apply with_obs_id. Qed.

(* ------------------------------------------------------------------ well-formed cases, shared part *)
Fixpoint sortedb (l : list Z) : bool :=
  match l with
  | a :: ((b :: _) as r) => (a <? b) && sortedb r
  | _ => true
  end.

Lemma sortedb_sorted l : sortedb l = true -> StronglySorted Z.lt l.
Proof.
  intros H. apply Sorted_StronglySorted; [intros x y z; apply Z.lt_trans|].
  induction l as [|a r IH]; [constructor|].
  destruct r as [|b r2]; [constructor; constructor|].
  cbn [sortedb] in H. apply andb_true_iff in H. destruct H as [H1 H2]. apply Z.ltb_lt in H1.
  constructor; [apply IH; exact H2|constructor; exact H1].
Qed.

Definition pm_okb (pm : list (Z * Z)) : bool :=
  match pm with [] => false | _ => true end && sortedb (map fst pm).

Lemma pm_okb_ok pm : pm_okb pm = true -> pm_ok pm.
Proof.
  unfold pm_okb, pm_ok. intros H. apply andb_true_iff in H. destruct H as [H1 H2].
  split; [destruct pm; [discriminate|discriminate]|apply sortedb_sorted; exact H2].
Qed.

Definition outs_ok (pm : list (Z * Z)) : Prop := Forall (fun kv => 0 <= snd kv <= 255) pm.
Definition outs_okb (pm : list (Z * Z)) : bool := forallb (fun kv => (0 <=? snd kv) && (snd kv <=? 255)) pm.

Lemma outs_okb_ok pm : outs_okb pm = true -> outs_ok pm.
Proof.
  unfold outs_okb, outs_ok. rewrite forallb_forall, Forall_forall. intros H x Hx.
  specialize (H x Hx). apply andb_true_iff in H. destruct H as [A B]. apply Z.leb_le in A, B. lia.
Qed.

Definition limits_ok (f : fan) : Prop := 0 <= GetMinPwm f /\ GetMinPwm f <= GetMaxPwm f /\ GetMaxPwm f <= 255.
Definition limits_okb (f : fan) : bool :=
  (0 <=? GetMinPwm f) && (GetMinPwm f <=? GetMaxPwm f) && (GetMaxPwm f <=? 255).

Lemma limits_okb_ok f : limits_okb f = true -> limits_ok f.
Proof.
  unfold limits_okb, limits_ok. rewrite !andb_true_iff, !Z.leb_le. tauto.
Qed.

(* what C01, C02 (and every other link) need: a usable PWM map and sane fan limits *)
Record base_wf (c : case) : Prop := mkBaseWf {
  bw_pm : pm_ok (k_pm c);
  bw_outs : outs_ok (k_pm c);
  bw_limits : limits_ok (case_fan c);
}.

Definition base_wfb (c : case) : bool := pm_okb (k_pm c) && outs_okb (k_pm c) && limits_okb (case_fan c).

Lemma base_wfb_wf c : base_wfb c = true -> base_wf c.
Proof.
  unfold base_wfb. rewrite !andb_true_iff. intros [[A B] C].
  constructor; [apply pm_okb_ok|apply outs_okb_ok|apply limits_okb_ok]; assumption.
Qed.

Lemma base_init_inv c : base_wf c -> inv (GetMinPwm (case_fan c)) (GetMaxPwm (case_fan c)) (case_init c).
Proof. intros [_ _ (A & B & _)]. apply init_inv; assumption. Qed.

(* ------------------------------------------------------------------ C01 *)
Lemma c01_step c s e lo hi :
  0 <= lo -> hi <= 255 -> pm_ok (c_pm c) -> outs_ok (c_pm c) -> inv lo hi s ->
  CtrlC01.Holds_cycle (c_pm c) (supported (c_pm c)) lo hi (e, snd (step c s e)).
Proof.
  intros Hlo Hhi Hpm Hout I. pose proof (step_spec c s e lo hi Hlo Hhi Hpm I) as S.
  destruct e as [rpm|i|m p]; [reflexivity| |reflexivity].
  destruct (step c s (Cycle i)) as [s' o]. cbn [snd]. destruct S as (_ & O & _).
  unfold CtrlC01.Holds_cycle. intros _.
  pose proof (obs_ok_written_range c lo hi o Hout O) as Hrange.
  destruct O as (_ & Hreq & Hnone).
  destruct (o_req o) as [r|]; [|apply Hnone; reflexivity].
  destruct (Hreq r eq_refl) as (Hr & k & Hk & Hws & _). split; [exact Hr|].
  destruct Hws as [E|E]; rewrite E in *; [constructor|].
  constructor; [|constructor]. split.
  - exists k, (lookup (c_pm c) k). auto.
  - inversion Hrange; assumption.
Qed.

Lemma c01_run c lo hi :
  0 <= lo -> hi <= 255 -> pm_ok (c_pm c) -> outs_ok (c_pm c) -> forall h s, inv lo hi s ->
  forallb (CtrlC01.cycle_okb (c_pm c) (supported (c_pm c)) lo hi) (zip h (snd (run c s h))) = true.
Proof.
  intros Hlo Hhi Hpm Hout. induction h as [|e h IH]; intros s I; [reflexivity|].
  cbn [run]. pose proof (c01_step c s e lo hi Hlo Hhi Hpm Hout I) as S1.
  pose proof (step_spec c s e lo hi Hlo Hhi Hpm I) as S.
  destruct (step c s e) as [s1 o]. destruct S as (I1 & _). specialize (IH s1 I1).
  destruct (run c s1 h) as [s2 os]. cbn [snd zip forallb] in *.
  apply andb_true_iff. split; [apply CtrlC01.cycle_okb_spec; exact S1|exact IH].
Qed.

Lemma C01_model_passes_base c : base_wf c -> CtrlC01.holdsb (with_obs c (model_obs c)) = true.
Proof.
  intros W. pose proof (base_init_inv c W) as I. destruct W as [Hpm Hout (A & B & C)].
  unfold CtrlC01.holdsb. cbv zeta. rewrite with_obs_fan.
  exact (c01_run (case_cfg c) _ _ A C Hpm Hout (k_hist c) (case_init c) I).
Qed.

(* ------------------------------------------------------------------ C02 *)
Definition req_off_of (s : st) (o : obs) : Prop :=
  o_req o = s_last s /\ o_offset o = s_offset s /\ o_min o = GetMinPwm (s_fan s).

Lemma c02_run c lo hi :
  0 <= lo -> hi <= 255 -> pm_ok (c_pm c) -> forall h s prev, inv lo hi s -> floor_inv lo s ->
  req_off_of s prev ->
  CtrlC02.C02_chain lo prev (snd (run c s h)).
Proof.
  intros Hlo Hhi Hpm. induction h as [|e h IH]; intros s prev I F P; [exact Logic.I|].
  cbn [run].
  pose proof (step_spec c s e lo hi Hlo Hhi Hpm I) as S.
  pose proof (step_floor c s e lo hi Hlo Hhi Hpm I F) as [F1 R1].
  pose proof (step_obs_state c s e) as SO.
  destruct (step c s e) as [s1 o]. cbn [fst] in *.
  destruct S as (I1 & _ & Hoffle & _ & _ & Hmin).
  destruct SO as (Oreq & Ooff & Omin & _).
  specialize (IH s1 o I1 F1 (conj Oreq (conj Ooff Omin))).
  destruct (run c s1 h) as [s2 os]. cbn [snd] in *. split; [|exact IH].
  destruct P as (Preq & Poff & Pmin). destruct I as [Imin _ _ _ _].
  unfold CtrlC02.C02_step. rewrite Preq, Poff, Pmin, Oreq, Ooff, Hmin, Imin.
  split; [lia|]. split; [exact Hoffle|]. split.
  - intros r E. apply F1; exact E.
  - intros Hlt. destruct R1 as [E|(E & _ & l & El & Er)]; [lia|]. exists l, (l + 1). repeat split; auto. lia.
Qed.

Lemma C02_model_passes_base c : base_wf c -> CtrlC02.holdsb (with_obs c (model_obs c)) = true.
Proof.
  intros W. pose proof (base_init_inv c W) as I. destruct W as [Hpm Hout (A & B & C)].
  apply CtrlC02.holdsb_spec. rewrite with_obs_fan, with_obs_obs.
  apply (c02_run (case_cfg c) _ (GetMaxPwm (case_fan c)) A C Hpm (k_hist c) (case_init c)); auto.
  - apply init_floor.
  - repeat split.
Qed.

(* ------------------------------------------------------------------ shared step facts for C05 / C10 / C04 *)
Definition same_static (f f' : fan) : Prop :=
  has_mode f' = has_mode f /\ fk f' = fk f /\ never_stop f' = never_stop f /\ has_rpm f' = has_rpm f.

Lemma same_static_refl f : same_static f f.
Proof. repeat split. Qed.

Lemma calc_target_static c s i :
  match calc_target c s i with TOk s1 _ | TErr s1 _ => same_static (s_fan s) (s_fan s1) end.
Proof.
  unfold calc_target.
  destruct (match s_last s with Some l => Some l | None => _ end); [|apply same_static_refl].
  destruct (ci_curve i); [|apply same_static_refl].
  destruct (alg_cycle _ _ _ _).
  destruct (_ && _ && _ && _); [|apply same_static_refl].
  destruct (_ <=? _); [apply same_static_refl|]. cbn [s_fan].
  destruct (SetRpmAvg_limits (s_fan s) PostRaiseAvg) as (_ & _ & A & B & C & D). repeat split; assumption.
Qed.

Lemma apply_target_keeps c s1 i r s2 ws err :
  apply_target c s1 i r = (s2, ws, err) ->
  s_fan s2 = s_fan s1 /\ s_cnt s2 = s_cnt s1 /\ s_loopcur s2 = s_loopcur s1 /\ s_alg s2 = s_alg s1
  /\ s_offset s2 = s_offset s1.
Proof.
  unfold apply_target. intros E.
  destruct (written (c_pm c) r); [destruct (_ && _ && _)|..]; inversion E; cbn; auto.
Qed.

Lemma step_static c s e : same_static (s_fan s) (s_fan (fst (step c s e))).
Proof.
  destruct e as [rpm|i|m p]; cbn [step].
  - cbn. destruct (poll_rpm_limits (c_nrpm c) (s_fan s) rpm) as (_ & _ & A & B & C & D). repeat split; assumption.
  - destruct (negb (s_stopped s =? 0)); [apply same_static_refl|].
    pose proof (calc_target_static c s i) as T.
    destruct (calc_target c s i) as [s1 r|s1 code]; [|exact T].
    destruct (apply_target c s1 i r) as [[s2 ws] err] eqn:EA.
    destruct (apply_target_keeps c s1 i r s2 ws err EA) as (K & _). cbn [fst]. rewrite K. exact T.
  - apply same_static_refl.
Qed.

(* the model stops regulating exactly when a control cycle reported an error *)
Lemma step_stopped c s e lo hi :
  0 <= lo -> hi <= 255 -> pm_ok (c_pm c) -> inv lo hi s ->
  negb (s_stopped (fst (step c s e)) =? 0)
  = negb (s_stopped s =? 0) || match e with Cycle _ => negb (o_err (snd (step c s e)) =? 0) | _ => false end.
Proof.
  intros Hlo Hhi Hpm I. destruct e as [rpm|i|m p]; cbn [step].
  - cbn. rewrite orb_false_r. reflexivity.
  - destruct (s_stopped s =? 0) eqn:Hrun; cbn [negb]; [|cbn; rewrite Hrun; reflexivity].
    cbn [orb].
    pose proof (calc_target_spec c s i lo hi Hlo Hhi I) as T.
    destruct (calc_target c s i) as [s1 r|s1 code].
    + destruct T as (I1 & _ & Hr & _ & _ & St1 & _).
      assert (Hr' : lo <= r <= hi) by (destruct I1; lia).
      pose proof (apply_target_spec c s1 i r lo hi Hpm I1 Hr') as A.
      destruct (apply_target c s1 i r) as [[s2 ws] err].
      destruct A as (_ & -> & _ & _ & St2 & _). cbn. rewrite St2, St1, Hrun. reflexivity.
    + destruct T as (_ & _ & _ & Hcode & _). cbn. destruct Hcode; subst code; reflexivity.
  - cbn. rewrite orb_false_r. reflexivity.
Qed.

Lemma SetMinPwm_static f v b : same_static f (SetMinPwm f v b).
Proof. unfold SetMinPwm. destruct (fk f) eqn:E; [destruct (_ || _)|..]; repeat split; cbn; auto. Qed.
Lemma SetMaxPwm_static f v b : same_static f (SetMaxPwm f v b).
Proof. unfold SetMaxPwm. destruct (fk f) eqn:E; [destruct (_ || _)|..]; repeat split; cbn; auto. Qed.
Lemma SetStartPwm_static f v b : same_static f (SetStartPwm f v b).
Proof. unfold SetStartPwm. destruct (fk f) eqn:E; [destruct (_ || _)|..]; repeat split; cbn; auto. Qed.
Lemma SetRpmAvg_static f x : same_static f (SetRpmAvg f x).
Proof. destruct (SetRpmAvg_limits f x) as (_ & _ & A & B & C & D). repeat split; assumption. Qed.

Lemma same_static_trans f g h : same_static f g -> same_static g h -> same_static f h.
Proof. intros (A & B & C & D) (A' & B' & C' & D'). repeat split; congruence. Qed.

Lemma case_fan_static c :
  has_mode (case_fan c) = k_has_mode c /\ fk (case_fan c) = k_kind c
  /\ never_stop (case_fan c) = k_never c /\ has_rpm (case_fan c) = k_has_rpm c.
Proof.
  unfold case_fan. cbv zeta.
  match goal with |- context [mkFan ?a ?b ?c1 ?d ?e ?f ?g ?h ?i ?j ?k ?l] => set (f0 := mkFan a b c1 d e f g h i j k l) end.
  set (f1 := match k_meas_start c with Some v => SetStartPwm f0 v false | None => f0 end).
  set (f2 := match k_meas_max c with Some v => SetMaxPwm f1 v false | None => f1 end).
  set (f3 := match k_meas_min c with Some v => SetMinPwm f2 v false | None => f2 end).
  assert (S1 : same_static f0 f1) by (subst f1; destruct (k_meas_start c); [apply SetStartPwm_static|apply same_static_refl]).
  assert (S2 : same_static f1 f2) by (subst f2; destruct (k_meas_max c); [apply SetMaxPwm_static|apply same_static_refl]).
  assert (S3 : same_static f2 f3) by (subst f3; destruct (k_meas_min c); [apply SetMinPwm_static|apply same_static_refl]).
  pose proof (same_static_trans _ _ _ (same_static_trans _ _ _ (same_static_trans _ _ _ S1 S2) S3) (SetRpmAvg_static f3 (k_avg0 c)))
    as (A & B & C & D).
  rewrite A, B, C, D. subst f0. cbn. auto.
Qed.
