(* The five observer links assembled over ONE well-formedness predicate on driver cases, its boolean
   form, and the no-false-alarm corollaries (model and implementation agree => the observer passes). *)
From Coq Require Import ZArith Bool List Floats Lia Sorting.Sorted.
From F2G Require Import Go.GoFloat gen.Consts Model.Util Model.Fan Model.ControlLoop Model.Controller
                        Proofs.Ctrl Proofs.CtrlC05 Drv.Common Drv.Ctrl
                        Proofs.CtrlLinks Proofs.CtrlLinksAvg Proofs.CtrlLinksC05 Proofs.CtrlLinksC10 Proofs.CtrlLinksC04.
From F2G Require Drv.CtrlC01 Drv.CtrlC02 Drv.CtrlC05 Drv.CtrlC10 Drv.CtrlC04.
Import ListNotations.
Open Scope Z_scope.

(* Every case the Go driver `ctrl` generates (genCtrlCase / ctrlGenPm in drv_ctrl.go) satisfies this:
   - cw_base/bw_pm, bw_outs: the PWM map is pm_identity, pm_quant q (q in 2,5,16,51), pm_plateau or a
     user map built by a loop over k = 0..255 (keys strictly increasing, at least one entry), outputs 0..255;
   - cw_base/bw_limits: file/cmd fans have limits 0..255; hwmon fans get lo in 0..120, hi in lo..255
     (either as config or as measured value), or the defaults 0 / 255;
   - cw_c10/cw_n: rpmRollingWindowSize is one of 1,2,3,10,50;
   - cw_c10/cw_avg: the initial RPM average is 0 or float64 of an integer in 1..5000
     (any finite value in [0, 2^40] is accepted for windows >= 2; window 1 additionally wants an integer);
   - cw_c10/cw_polls: polled RPM values are 0..4000 (accepted: 0..2^40; a failed read carries no value).
   The device quantiser k_q needs no hypothesis: the C05 observer itself only demands re-assertion when
   [reads_backb (k_pm c) (k_q c)] holds, and that boolean is what the proof uses (see [reads_back_named]). *)
Record case_wf (c : case) : Prop := mkCaseWf {
  cw_base : base_wf c;
  cw_c10 : c10_wf c;
}.

Definition case_wfb (c : case) : bool := base_wfb c && c10_wfb c.

Theorem case_wfb_wf c : case_wfb c = true -> case_wf c.
Proof.
  unfold case_wfb. rewrite andb_true_iff. intros [A B].
  constructor; [apply base_wfb_wf|apply c10_wfb_wf]; assumption.
Qed.

Lemma case_wf_with_obs c os : case_wf c -> case_wf (with_obs c os).
Proof. intros [[A B C] [D E F]]. constructor; constructor; assumption. Qed.

(* ---- the model's own observations satisfy every observer ---- *)
Theorem C01_model_passes c : case_wf c -> CtrlC01.holdsb (with_obs c (model_obs c)) = true.
Proof. intros [W _]. apply C01_model_passes_base; exact W. Qed.

Theorem C02_model_passes c : case_wf c -> CtrlC02.holdsb (with_obs c (model_obs c)) = true.
Proof. intros [W _]. apply C02_model_passes_base; exact W. Qed.

Theorem C05_model_passes c : case_wf c -> CtrlC05.holdsb (with_obs c (model_obs c)) = true.
Proof. intros [W _]. apply C05_model_passes_base; exact W. Qed.

Theorem C10_model_passes c : case_wf c -> CtrlC10.holdsb (with_obs c (model_obs c)) = true.
Proof. intros [W W10]. apply C10_model_passes_base; assumption. Qed.

(* the default-PID settling rule of the C04 observer is exploration, not backed by a theorem: [alg_ok]
   excludes exactly the cases in which that rule can fire (and rate limits < 1, never generated) *)
Theorem C04_model_passes c : case_wf c -> alg_ok (k_alg c) -> CtrlC04.holdsb (with_obs c (model_obs c)) = true.
Proof. intros [W _] Ha. apply C04_model_passes_base; assumption. Qed.

(* ---- no false alarm: where implementation and model agree, the observers pass on the implementation ---- *)
Theorem C01_no_false_alarm c : mismatch c = false -> case_wf c -> CtrlC01.holdsb c = true.
Proof. intros M W. rewrite <- (agree_with_obs c M) at 1. apply C01_model_passes; exact W. Qed.

Theorem C02_no_false_alarm c : mismatch c = false -> case_wf c -> CtrlC02.holdsb c = true.
Proof. intros M W. rewrite <- (agree_with_obs c M) at 1. apply C02_model_passes; exact W. Qed.

Theorem C05_no_false_alarm c : mismatch c = false -> case_wf c -> CtrlC05.holdsb c = true.
Proof. intros M W. rewrite <- (agree_with_obs c M) at 1. apply C05_model_passes; exact W. Qed.

Theorem C10_no_false_alarm c : mismatch c = false -> case_wf c -> CtrlC10.holdsb c = true.
Proof. intros M W. rewrite <- (agree_with_obs c M) at 1. apply C10_model_passes; exact W. Qed.

Theorem C04_no_false_alarm c : mismatch c = false -> case_wf c -> alg_ok (k_alg c) -> CtrlC04.holdsb c = true.
Proof. intros M W Ha. rewrite <- (agree_with_obs c M) at 1. apply C04_model_passes; assumption. Qed.

(* ---- the re-assertion conjunct of C05 is live for every generated device: the named maps read back
   under their quantiser, and every map reads back on an exact device (q = 1) ---- *)
Lemma reads_back_q1 pm : CtrlC05.reads_backb pm 1 = true.
Proof.
  unfold CtrlC05.reads_backb. apply forallb_forall. intros kv _. apply Z.eqb_eq.
  rewrite Z.div_1_r. lia.
Qed.

Lemma reads_back_named :
  CtrlC05.reads_backb pm_identity 1 = true /\ CtrlC05.reads_backb pm_plateau 1 = true
  /\ CtrlC05.reads_backb (pm_quant 2) 2 = true /\ CtrlC05.reads_backb (pm_quant 5) 5 = true
  /\ CtrlC05.reads_backb (pm_quant 16) 16 = true /\ CtrlC05.reads_backb (pm_quant 51) 51 = true.
Proof. vm_compute. repeat split. Qed.

Lemma named_maps_ok :
  pm_okb pm_identity && outs_okb pm_identity && pm_okb pm_plateau && outs_okb pm_plateau
  && pm_okb (pm_quant 2) && outs_okb (pm_quant 2) && pm_okb (pm_quant 5) && outs_okb (pm_quant 5)
  && pm_okb (pm_quant 16) && outs_okb (pm_quant 16) && pm_okb (pm_quant 51) && outs_okb (pm_quant 51) = true.
Proof. vm_compute. reflexivity. Qed.

(* ---- non-vacuity: a stalling never-stop hwmon fan with interference, rate-limited algorithm ---- *)
Definition link_example : case :=
  mkCase HwMon true (Some 30) None (Some 200) None None None pm_plateau 1 (Direct (Some 5)) 10 true true 100 2 1200%float
    [Poll (Some 0); Cycle (mkCin (Some 100) 100000000 true true true); Ext (Some 2) (Some 7);
     Cycle (mkCin (Some 100) 100000000 true true true); Poll (Some 0); Poll None; Poll (Some 1500);
     Cycle (mkCin (Some 0) 100000000 true false true); Cycle (mkCin None 100000000 true true true);
     Cycle (mkCin (Some 10) 100000000 true true true)]
    [].

Definition wfb_and_alg (c : case) : bool := case_wfb c && alg_okb (k_alg c).

Example link_example_wf : wfb_and_alg link_example = true.
Proof. vm_compute. reflexivity. Qed.

Example link_example_passes :
  let c := with_obs link_example (model_obs link_example) in
  CtrlC01.holdsb c = true /\ CtrlC02.holdsb c = true /\ CtrlC05.holdsb c = true /\ CtrlC10.holdsb c = true
  /\ CtrlC04.holdsb c = true.
Proof.
  pose proof link_example_wf as H. unfold wfb_and_alg in H. apply andb_true_iff in H. destruct H as [H1 H2].
  apply case_wfb_wf in H1. apply alg_okb_ok in H2. cbv zeta.
  split; [|split; [|split; [|split]]];
    [apply C01_model_passes|apply C02_model_passes|apply C05_model_passes|apply C10_model_passes
    |apply C04_model_passes]; assumption.
Qed.
