(* Float facts behind the C10 link: the hwmon RPM average stays a finite non-negative bounded number
   under every poll the driver generates, and one poll reading 0 RPM satisfies the decay rule R2 of the
   C10 observer EXACTLY as the observer computes it (two binary64 products and a comparison). *)
From Coq Require Import ZArith Reals Lra Lia Psatz Floats Uint63 Bool.
From Flocq Require Import Core Plus_error Relative BinarySingleNaN.
From Flocq Require PrimFloat.
From F2G Require Import Go.GoFloat gen.Consts Model.Util Proofs.SensorFloat Proofs.Sensor Proofs.Decay Proofs.CtrlLinks.
Import Flocq.IEEE754.PrimFloat.
Open Scope R_scope.

Definition AvgMax : Z := 1099511627776.   (* 2^40 *)

Definition avg_ok (n : Z) (x : f64) : Prop :=
  fin x /\ 0 <= R_of x <= IZR AvgMax /\ (n = 1%Z -> exists z, R_of x = IZR z).

Definition avg_okb (n : Z) (x : f64) : bool :=
  GoFloat.is_finite x && PrimFloat.leb 0%float x && PrimFloat.leb x (i2f AvgMax)
  && (negb (n =? 1)%Z || (let z := f2i x in (0 <=? z)%Z && (z <=? AvgMax)%Z && feqb x (i2f z))).

Lemma i2f_small z : (Z.abs z < 2 ^ 53)%Z -> fin (i2f z) /\ R_of (i2f z) = IZR z.
Proof.
  intros H. destruct (i2f_R z) as [F E]; [lia|]. split; auto. rewrite E. apply rnd_id. now apply format_IZR_small.
Qed.

Lemma avg_okb_ok n x : avg_okb n x = true -> avg_ok n x.
Proof.
  unfold avg_okb. rewrite !andb_true_iff. intros [[[F L0] L1] Hint].
  apply fin_is_finite in F. destruct zero_R as [F0 E0]. destruct (i2f_small AvgMax) as [Fm Em]; [unfold AvgMax; lia|].
  apply (leb_R _ _ F0 F) in L0. apply (leb_R _ _ F Fm) in L1. rewrite E0 in L0. rewrite Em in L1.
  split; [exact F|]. split; [lra|]. intros ->. cbn in Hint. cbv zeta in Hint.
  rewrite !andb_true_iff in Hint. destruct Hint as [[Z0 Z1] E]. apply Z.leb_le in Z0, Z1.
  apply feqb_eq in E. exists (f2i x). rewrite E at 1.
  apply i2f_small. unfold AvgMax in Z1. lia.
Qed.

Lemma AvgMax_bpow : IZR AvgMax = bpow radix2 40.
Proof. reflexivity. Qed.

Lemma avg_ok_bnd n x : avg_ok n x -> bnd x.
Proof.
  intros (F & H & _). split; auto. rewrite Rabs_pos_eq by lra.
  apply Rle_trans with (IZR AvgMax); [lra|]. rewrite AvgMax_bpow. unfold B1021. apply bpow_le. lia.
Qed.

Lemma avg_ok_sint x : avg_ok 1 x -> sint x.
Proof.
  intros (F & H & Hz). destruct (Hz eq_refl) as [z Ez]. split; auto. exists z. split; auto.
  rewrite Ez in H. destruct H as [H0 H1]. apply le_IZR in H0, H1. unfold AvgMax in H1. lia.
Qed.

Lemma avg_ok_i2f n r : (0 <= r <= AvgMax)%Z -> avg_ok n (i2f r).
Proof.
  intros H. destruct (i2f_small r) as [F E]; [unfold AvgMax in H; lia|].
  split; auto. rewrite E. split; [split; apply IZR_le; lia|]. intros _. exists r. reflexivity.
Qed.

(* one poll with a reading in range *)
Lemma avg_ok_upd n x r : (1 <= n <= 1000)%Z -> avg_ok n x -> (0 <= r <= AvgMax)%Z ->
  avg_ok n (upd_avg x n (i2f r)).
Proof.
  intros Hn Hx Hr. pose proof (avg_ok_i2f n r Hr) as Hv.
  destruct (Z.eq_dec n 1) as [->|N1].
  - destruct (step_one x (i2f r) (avg_ok_sint x Hx) (avg_ok_sint _ Hv)) as [F E].
    destruct Hv as (_ & Hb & Hz). split; auto. rewrite E. auto.
  - destruct (step_between x n (i2f r) ltac:(lia) (avg_ok_bnd n x Hx) (avg_ok_bnd n _ Hv)) as [[F _] Hbt].
    destruct Hx as (_ & Hxb & _), Hv as (_ & Hvb & _).
    split; auto. split; [destruct Hbt; lra|]. intros E1. contradiction.
Qed.

Lemma i2f_0 : i2f 0 = 0%float.
Proof. reflexivity. Qed.

Lemma avg_ok_one n : avg_ok n PostRaiseAvg.
Proof.
  destruct one_R as [F E]. change PostRaiseAvg with 1%float. split; auto. rewrite E.
  split; [unfold AvgMax; split; [lra|apply (IZR_le 1); lia]|]. intros _. exists 1%Z. reflexivity.
Qed.

(* rule R2 of the C10 observer for hwmon fans, as a function of the window size, the average before the
   poll and the average after it *)
Definition poll0_hw_okb (n : Z) (x y : f64) : bool :=
  if PrimFloat.leb 1%float x
  then PrimFloat.leb (PrimFloat.mul y (i2f (2 * n))) (PrimFloat.mul x (i2f (2 * n - 1)))
       || (n =? 1)%Z && feqb y 0%float
  else PrimFloat.leb y x && PrimFloat.leb 0%float y.

Lemma mul_small a k : fin a -> 0 <= R_of a <= IZR AvgMax -> (0 <= k <= 2000)%Z ->
  fin (PrimFloat.mul a (i2f k)) /\ R_of (PrimFloat.mul a (i2f k)) = rnd (R_of a * IZR k).
Proof.
  intros F H Hk. destruct (i2f_small k) as [Fk Ek]; [lia|].
  assert (Hb : Rabs (rnd (R_of a * R_of (i2f k))) < bmax).
  { apply Rle_lt_trans with (bpow radix2 51); [|now apply bpow_lt_max].
    apply rnd_abs_le_bpow; [lia|]. rewrite Ek.
    assert (0 <= IZR k <= 2000) by (split; [apply (IZR_le 0)|apply (IZR_le k 2000)]; lia).
    rewrite Rabs_pos_eq by nra.
    apply Rle_trans with (IZR AvgMax * 2000); [nra|].
    rewrite AvgMax_bpow. change 51%Z with (40 + 11)%Z. rewrite bpow_plus. change (bpow radix2 11) with 2048.
    pose proof (bpow_gt_0 radix2 40). nra. }
  destruct (mul_R a (i2f k) F Fk Hb) as [Fm Em]. rewrite Ek in Em. auto.
Qed.

Theorem decay_obs n x : (1 <= n <= 1000)%Z -> avg_ok n x ->
  poll0_hw_okb n x (upd_avg x n 0%float) = true.
Proof.
  intros Hn (F & Hx & _). unfold poll0_hw_okb.
  assert (H64 : IZR AvgMax <= 2 ^ 64).
  { rewrite AvgMax_bpow, <- bpow64. apply bpow_le. lia. }
  destruct (upd_zero_mono x n ltac:(lia) F ltac:(lra)) as (Fy & Hy).
  set (y := upd_avg x n 0%float) in *.
  destruct one_R as [F1 E1]. destruct zero_R as [F0 E0].
  destruct (PrimFloat.leb 1%float x) eqn:L1.
  - apply (leb_R _ _ F1 F) in L1. rewrite E1 in L1.
    pose proof (upd_zero_decay_R x n ltac:(lia) F ltac:(lra)) as Hd. fold y in Hd.
    destruct (mul_small y (2 * n) Fy ltac:(lra) ltac:(lia)) as [Fa Ea].
    destruct (mul_small x (2 * n - 1) F Hx ltac:(lia)) as [Fb Eb].
    apply orb_true_iff. left. apply (leb_R _ _ Fa Fb). rewrite Ea, Eb. apply rnd_le.
    rewrite minus_IZR, mult_IZR.
    assert (Hn1 : 1 <= IZR n) by (apply (IZR_le 1); lia).
    assert (Hq : R_of x * (1 - / (2 * IZR n)) * (2 * IZR n) = R_of x * (2 * IZR n - 1)) by (field; lra).
    rewrite <- Hq. apply Rmult_le_compat_r; lra.
  - apply andb_true_iff. split.
    + apply (leb_R _ _ Fy F). lra.
    + apply (leb_R _ _ F0 Fy). rewrite E0. lra.
Qed.
