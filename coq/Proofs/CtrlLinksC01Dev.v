(* C01 device-content link: the model's own observations satisfy the second C01 observer
   (Drv/CtrlC01Dev.v) on every case whose PWM map reads back under the device quantiser
   ([reads_backb (k_pm c) (k_q c)], true of every generated case); without that hypothesis the
   observer is FALSE of the model (see [dev_needs_reads_back]). *)
From Coq Require Import ZArith Bool List Floats Lia Sorting.Sorted.
From F2G Require Import Go.GoFloat gen.Consts Model.Util Model.Fan Model.ControlLoop Model.Controller
                        Proofs.Closest Proofs.Rescale Proofs.Ctrl Proofs.CtrlC05 Drv.Common Drv.Ctrl
                        Proofs.CtrlLinks Proofs.CtrlLinksC05.
From F2G Require Drv.Closest Drv.CtrlC05 Drv.CtrlC01Dev.
Import ListNotations.
Open Scope Z_scope.

Lemma dev_cycle c s i lo hi :
  0 <= lo -> hi <= 255 -> pm_ok (c_pm c) -> outs_ok (c_pm c) ->
  CtrlC05.reads_backb (c_pm c) (c_respq c) = true -> inv lo hi s -> s_stopped s = 0 ->
  o_err (snd (step c s (Cycle i))) = 0 ->
  CtrlC01Dev.dev_okb (c_pm c) (supported (c_pm c)) (c_respq c) (Cycle i, snd (step c s (Cycle i))) = true.
Proof.
  intros Hlo Hhi Hpm Hout Hrb I Hrun. cbn [step]. rewrite Hrun. cbn [Z.eqb negb].
  pose proof (calc_target_spec c s i lo hi Hlo Hhi I) as T.
  destruct (calc_target c s i) as [s1 r|s1 code].
  2:{ destruct T as (_ & _ & _ & Hcode & _). cbn. intros E. destruct Hcode; lia. }
  destruct T as (I1 & _ & Hr & _).
  destruct Hpm as [Hne Hsorted].
  destruct (written_spec (c_pm c) r Hne Hsorted) as (k & _ & Hn & Hw & Hin).
  set (e := lookup (c_pm c) k) in *.
  assert (Hc : In e (CtrlC05.cands (c_pm c) (supported (c_pm c)) r)) by (apply CtrlC05.cands_spec; exists k; auto).
  apply in_map_iff in Hin. destruct Hin as (kv & Ekv & Hkv).
  assert (He : 0 <= e <= 255) by (rewrite <- Ekv; unfold outs_ok in Hout; rewrite Forall_forall in Hout; apply Hout; exact Hkv).
  assert (Hq : e / c_respq c * c_respq c = e).
  { unfold CtrlC05.reads_backb in Hrb. rewrite forallb_forall in Hrb. specialize (Hrb kv Hkv).
    apply Z.eqb_eq in Hrb. rewrite <- Ekv. exact Hrb. }
  assert (Hex : existsb (fun w => e =? w / c_respq c * c_respq c) (CtrlC05.cands (c_pm c) (supported (c_pm c)) r) = true).
  { apply existsb_exists. exists e. split; [exact Hc|]. apply Z.eqb_eq. lia. }
  unfold apply_target. rewrite Hw.
  destruct (supports_pwm (s_fan s1) i && ci_read_ok i && (e =? s_pwm s1)) eqn:Sk.
  - apply andb_true_iff in Sk. destruct Sk as [_ Sk]. apply Z.eqb_eq in Sk.
    cbn. intros _. destruct (ci_write_ok i); [|reflexivity]. rewrite <- Sk, Hex. cbn.
    apply andb_true_iff. split; [apply andb_true_iff; split|reflexivity]; apply Z.leb_le; lia.
  - cbn. intros _. destruct (ci_write_ok i); [|reflexivity]. unfold resp. rewrite Hq, Hex. cbn.
    apply andb_true_iff. split; [apply andb_true_iff; split; apply Z.leb_le; lia|apply Z.eqb_refl].
Qed.

Lemma dev_run c lo hi :
  0 <= lo -> hi <= 255 -> pm_ok (c_pm c) -> outs_ok (c_pm c) ->
  CtrlC05.reads_backb (c_pm c) (c_respq c) = true ->
  forall h s, inv lo hi s -> s_stopped s = 0 ->
  CtrlC01Dev.dev_scan (c_pm c) (supported (c_pm c)) (c_respq c) (zip h (snd (run c s h))) = true.
Proof.
  intros Hlo Hhi Hpm Hout Hrb. induction h as [|e h IH]; intros s I Hrun; [reflexivity|].
  cbn [run].
  pose proof (step_spec c s e lo hi Hlo Hhi Hpm I) as S.
  pose proof (step_stopped c s e lo hi Hlo Hhi Hpm I) as SS. rewrite Hrun in SS. cbn [Z.eqb negb orb] in SS.
  assert (Hc : forall i, e = Cycle i -> o_err (snd (step c s e)) = 0 ->
     CtrlC01Dev.dev_okb (c_pm c) (supported (c_pm c)) (c_respq c) (e, snd (step c s e)) = true)
    by (intros i ->; apply (dev_cycle c s i lo hi); assumption).
  destruct (step c s e) as [s1 o]. cbn [fst snd] in *. destruct S as (I1 & _).
  pose proof (IH s1 I1) as IH1.
  destruct (run c s1 h) as [s2 os]. cbn [snd zip CtrlC01Dev.dev_scan] in *.
  destruct e as [rpm|i|m p].
  - apply IH1. apply negb_false_iff in SS. apply Z.eqb_eq in SS. exact SS.
  - destruct (o_err o =? 0) eqn:E; [|reflexivity]. cbn [negb] in SS. apply Z.eqb_eq in E.
    apply andb_true_iff. split; [apply (Hc i eq_refl E)|].
    apply IH1. apply negb_false_iff in SS. apply Z.eqb_eq in SS. exact SS.
  - apply IH1. apply negb_false_iff in SS. apply Z.eqb_eq in SS. exact SS.
Qed.

Definition dev_wf (c : case) : Prop := base_wf c /\ CtrlC05.reads_backb (k_pm c) (k_q c) = true.
Definition dev_wfb (c : case) : bool := base_wfb c && CtrlC05.reads_backb (k_pm c) (k_q c).
Lemma dev_wfb_wf c : dev_wfb c = true -> dev_wf c.
Proof. unfold dev_wfb. rewrite andb_true_iff. intros [A B]. split; [apply base_wfb_wf|]; assumption. Qed.

(* the observer guards itself with [reads_backb] (see the counter-example below), so [base_wf] suffices *)
Theorem C01_dev_model_passes c : base_wf c -> CtrlC01Dev.holdsb (with_obs c (model_obs c)) = true.
Proof.
  intros W. pose proof (base_init_inv c W) as I. destruct W as [Hpm Hout (A & B & C)].
  unfold CtrlC01Dev.holdsb. destruct (forallb _ _); [|reflexivity]. cbn [andb].
  destruct (CtrlC05.reads_backb _ _) eqn:Hrb; [|reflexivity].
  exact (dev_run (case_cfg c) _ _ A C Hpm Hout Hrb (k_hist c) (case_init c) I eq_refl).
Qed.

Theorem C01_dev_no_false_alarm c : mismatch c = false -> base_wf c -> CtrlC01Dev.holdsb c = true.
Proof. intros M W. rewrite <- (agree_with_obs c M) at 1. apply C01_dev_model_passes; exact W. Qed.

(* Why the guard is there: without the reads-back condition the scan is false of a model-conformant run — a device
   quantising to multiples of 5 that happens to show 7 (initial content), a map sending everything to 7:
   the cycle finds the expected value already there, skips the write, and the control keeps 7 <> 7/5*5. *)
Definition dev_counterexample : case :=
  mkCase FileK false None None None None None None [(0, 7)] 5 (Direct None) 10 false false 7 0 0%float
    [Cycle (mkCin (Some 100) 100000000 true true true)] [].

Example dev_needs_reads_back :
  base_wfb dev_counterexample = true
  /\ mismatch (with_obs dev_counterexample (model_obs dev_counterexample)) = false
  /\ CtrlC01Dev.dev_scan (k_pm dev_counterexample) (supported (k_pm dev_counterexample)) (k_q dev_counterexample)
       (zip (k_hist dev_counterexample) (model_obs dev_counterexample)) = false
  /\ CtrlC01Dev.holdsb (with_obs dev_counterexample (model_obs dev_counterexample)) = true.
Proof. vm_compute. repeat split. Qed.
