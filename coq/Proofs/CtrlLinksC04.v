(* C04 link: the model's own observations satisfy the C04 observer (Drv/CtrlC04.v) for the direct and the
   rate-limited algorithm (and trivially for oracle / non-default PID algorithms; the default-PID rule of
   the observer is exploration only and is excluded by [alg_ok]). *)
From Coq Require Import ZArith Bool List Floats Lia Sorting.Sorted.
From F2G Require Import Go.GoFloat gen.Consts Model.Util Model.Fan Model.ControlLoop Model.Controller
                        Proofs.Closest Proofs.Rescale Proofs.Ctrl Proofs.CtrlC04 Drv.Common Drv.Ctrl
                        Proofs.CtrlLinks.
From F2G Require Drv.CtrlC04.
Import ListNotations.
Open Scope Z_scope.

Definition alg_ok (a : alg) : Prop :=
  match a with
  | Direct (Some cl) => 1 <= cl
  | Direct None => True
  | PidA p => CtrlC04.is_default_pid p = false
  | Oracle _ => True
  end.

Definition alg_okb (a : alg) : bool :=
  match a with
  | Direct (Some cl) => 1 <=? cl
  | Direct None => true
  | PidA p => negb (CtrlC04.is_default_pid p)
  | Oracle _ => true
  end.

Lemma alg_okb_ok a : alg_okb a = true -> alg_ok a.
Proof.
  destruct a as [[cl|]|p|f]; cbn; auto; [apply Z.leb_le|apply negb_true_iff].
Qed.

Definition c04_rel (a : alg) (lo hi : Z) (s : st) (q : CtrlC04.c04_st) : Prop :=
  CtrlC04.q_stopped q = negb (s_stopped s =? 0)
  /\ o_req (CtrlC04.q_prev q) = s_last s /\ o_offset (CtrlC04.q_prev q) = s_offset s
  /\ match a with
     | Direct lim =>
         s_alg s = Direct lim
         /\ match lim with
            | Some cl =>
                forall v, CtrlC04.q_v q = Some v ->
                  1 <= CtrlC04.q_len q
                  /\ exists T, s_loopcur s = Some T /\ 0 <= T <= 255
                               /\ s_last s = Some (rescale_c T (lo + s_offset s) hi)
                               /\ Z.abs (clampZ v 0 255 - T) <= Z.max 0 (255 - (CtrlC04.q_len q - 1) * cl)
            | None => True
            end
     | _ => True
     end.

Lemma calc_target_alg_direct c s i lim : s_alg s = Direct lim ->
  match calc_target c s i with TOk s1 _ | TErr s1 _ => s_alg s1 = Direct lim end.
Proof.
  intros Ha. unfold calc_target.
  destruct (match s_last s with Some l => Some l | None => _ end); [|exact Ha].
  destruct (ci_curve i); [|exact Ha]. rewrite Ha. cbn [alg_cycle].
  destruct (_ && _ && _ && _); [|reflexivity].
  destruct (_ <=? _); reflexivity.
Qed.

Lemma step_alg_direct c s e lim : s_alg s = Direct lim -> s_alg (fst (step c s e)) = Direct lim.
Proof.
  intros Ha. destruct e as [rpm|i|m p]; cbn [step]; [exact Ha| |exact Ha].
  destruct (negb (s_stopped s =? 0)); [exact Ha|].
  pose proof (calc_target_alg_direct c s i lim Ha) as T.
  destruct (calc_target c s i) as [s1 r|s1 code]; [|exact T].
  destruct (apply_target c s1 i r) as [[s2 ws] err] eqn:EA.
  destruct (apply_target_keeps c s1 i r s2 ws err EA) as (_ & _ & _ & K & _). cbn [fst]. rewrite K. exact T.
Qed.

(* a cycle that reports no error went through calculateTargetPwm and setPwm *)
Lemma cycle_ok_shape c s i lo hi :
  0 <= lo -> hi <= 255 -> pm_ok (c_pm c) -> inv lo hi s -> s_stopped s = 0 ->
  o_err (snd (step c s (Cycle i))) = 0 ->
  exists s1 r, calc_target c s i = TOk s1 r
    /\ s_last (fst (step c s (Cycle i))) = Some r
    /\ s_offset (fst (step c s (Cycle i))) = s_offset s1
    /\ s_loopcur (fst (step c s (Cycle i))) = s_loopcur s1.
Proof.
  intros Hlo Hhi Hpm I Hrun. cbn [step]. rewrite Hrun. cbn [Z.eqb negb].
  pose proof (calc_target_spec c s i lo hi Hlo Hhi I) as T.
  destruct (calc_target c s i) as [s1 r|s1 code].
  - destruct T as (I1 & _ & Hr & _).
    assert (Hr' : lo <= r <= hi) by (destruct I1; lia).
    pose proof (apply_target_spec c s1 i r lo hi Hpm I1 Hr') as A.
    destruct (apply_target c s1 i r) as [[s2 ws] err] eqn:EA.
    destruct (apply_target_keeps c s1 i r s2 ws err EA) as (_ & _ & K & _).
    destruct A as (_ & _ & L2 & O2 & _). cbn. intros _. exists s1, r. auto.
  - destruct T as (_ & _ & _ & Hcode & _). cbn. intros E. destruct Hcode; lia.
Qed.

Lemma calc_target_direct_ok c s i lim s1 r lo hi :
  inv lo hi s -> s_alg s = Direct lim -> calc_target c s i = TOk s1 r -> s_offset s1 = s_offset s ->
  exists v cur, ci_curve i = Some v /\ (forall T, s_loopcur s = Some T -> cur = T)
    /\ r = rescale_c (clamp_target (direct_cycle lim v cur)) (lo + s_offset s) hi
    /\ s_loopcur s1 = Some (clamp_target (direct_cycle lim v cur)).
Proof.
  intros [Imin Imax _ _ _] Ha. unfold calc_target.
  destruct (match s_last s with Some l => Some l | None => _ end) as [cur0|]; [|discriminate].
  destruct (ci_curve i) as [v|]; [|discriminate]. rewrite Ha. cbn [alg_cycle]. rewrite Imin, Imax.
  set (cur := match s_loopcur s with Some t => t | None => cur0 end).
  assert (Hcur : forall T, s_loopcur s = Some T -> cur = T) by (intros T E; subst cur; rewrite E; reflexivity).
  destruct (_ && _ && _ && _).
  - destruct (_ <=? _); [discriminate|]. intros E Ho. inversion E; subst s1. cbn in Ho. lia.
  - intros E _. inversion E. exists v, cur. cbn. auto.
Qed.

Lemma direct_cycle_range lim v t : 0 <= direct_cycle lim v t <= 255.
Proof. unfold direct_cycle. apply clampZ_range. Qed.

Lemma c04_cycle c s i a lo hi q :
  0 <= lo -> hi <= 255 -> pm_ok (c_pm c) -> inv lo hi s -> alg_ok a -> c04_rel a lo hi s q ->
  fst (CtrlC04.c04_cycleb a hi q i (snd (step c s (Cycle i)))) = true
  /\ c04_rel a lo hi (fst (step c s (Cycle i))) (snd (CtrlC04.c04_cycleb a hi q i (snd (step c s (Cycle i))))).
Proof.
  intros Hlo Hhi Hpm I Hok (Rs & Rr & Ro & Ra).
  unfold CtrlC04.c04_cycleb. rewrite Rs.
  destruct (s_stopped s =? 0) eqn:Hrun; cbn [negb].
  2:{ cbn [step]. rewrite Hrun. cbn [negb fst snd]. split; [reflexivity|].
      split; [rewrite Rs, Hrun; reflexivity|]. auto. }
  pose proof (step_stopped c s (Cycle i) lo hi Hlo Hhi Hpm I) as SS. rewrite Hrun in SS. cbn [negb orb] in SS.
  pose proof (step_obs_state c s (Cycle i)) as SO.
  pose proof (step_spec c s (Cycle i) lo hi Hlo Hhi Hpm I) as SP.
  assert (Halg : forall lim, s_alg s = Direct lim -> s_alg (fst (step c s (Cycle i))) = Direct lim)
    by (intros lim; apply step_alg_direct).
  apply Z.eqb_eq in Hrun.
  pose proof (cycle_ok_shape c s i lo hi Hlo Hhi Hpm I Hrun) as Shape.
  destruct (step c s (Cycle i)) as [s' o]. cbn [fst snd] in *.
  destruct SO as (Oreq & Ooff & _). destruct SP as (I' & _ & _ & _ & _ & Omin).
  destruct (o_err o =? 0) eqn:Eerr; cbn [negb].
  2:{ cbn [fst snd]. split; [reflexivity|]. repeat split; cbn; auto.
      destruct a as [lim|p|f]; auto. destruct Ra as [Ra _]. split; [auto|]. destruct lim; [intros v E; discriminate|exact Logic.I]. }
  apply Z.eqb_eq in Eerr. destruct (Shape Eerr) as (s1 & r & ET & L' & O' & C'). clear Shape.
  cbv zeta. rewrite Ooff, Ro.
  destruct (s_offset s' =? s_offset s) eqn:Eoff; cbn [negb].
  2:{ cbn [fst snd]. split; [reflexivity|]. repeat split; cbn; auto.
      destruct a as [lim|p|f]; auto. destruct Ra as [Ra _]. split; [auto|]. destruct lim; [intros v E; discriminate|exact Logic.I]. }
  apply Z.eqb_eq in Eoff.
  rewrite Oreq, L', Omin, Rr.
  destruct a as [lim|p|f].
  - (* direct / rate-limited *)
    destruct Ra as [Ra Rrun].
    destruct (calc_target_direct_ok c s i lim s1 r lo hi I Ra ET ltac:(lia)) as (v & cur & Ev & Hcur & Er & Ec).
    rewrite Ev. cbn [fst snd].
    assert (Ht' : clamp_target (direct_cycle lim v cur) = direct_cycle lim v cur)
      by (apply clamp_target_id, direct_cycle_range).
    rewrite Ht' in *.
    destruct lim as [cl|].
    + (* rate-limited *)
      cbn in Hok.
      destruct I as [_ _ Ioff Ifloor _].
      assert (HT' : 0 <= direct_cycle (Some cl) v cur <= 255) by apply direct_cycle_range.
      set (same := match CtrlC04.q_v q with Some a0 => a0 =? v | None => false end).
      destruct same eqn:Esame; subst same.
      * (* the run continues *)
        destruct (CtrlC04.q_v q) as [v0|] eqn:Eqv; [|discriminate]. apply Z.eqb_eq in Esame. subst v0.
        destruct (Rrun v eq_refl) as (Hlen & T & ET0 & HT & EL & Hdist).
        rewrite (Hcur T ET0) in *. clear Hcur.
        fold (lim_step cl v T) in *.
        pose proof (limited_requests cl v T (lo + s_offset s) hi Hok HT ltac:(lia) Ifloor Hhi 0%nat) as (LR1 & LR2 & _).
        cbn [lim_iter] in LR1, LR2.
        pose proof (lim_iter_dist cl v Hok 1%nat T HT) as [_ LD]. cbv zeta in LD. cbn [lim_iter] in LD.
        assert (Hdist' : Z.abs (clampZ v 0 255 - lim_step cl v T) <= Z.max 0 (255 - CtrlC04.q_len q * cl)) by nia.
        split.
        -- apply andb_true_iff. split.
           ++ replace (2 <=? CtrlC04.q_len q + 1) with true by (symmetry; apply Z.leb_le; lia).
              rewrite EL, Eoff, Er. apply andb_true_iff. split; [apply Z.leb_le; exact LR1|].
              apply orb_true_iff. destruct LR2 as [[A B]|[A B]]; [left|right]; apply andb_true_iff; split; apply Z.leb_le; assumption.
           ++ replace (CtrlC04.q_len q + 1 - 1) with (CtrlC04.q_len q) by lia.
              destruct (255 <=? CtrlC04.q_len q * cl) eqn:Eset; [|reflexivity]. apply Z.leb_le in Eset.
              apply Z.eqb_eq. rewrite Er, Eoff. unfold steady. rewrite clamp_target_is_clampZ.
              pose proof (clampZ_range v). f_equal. lia.
        -- split; [cbn; symmetry; exact SS|]. split; [cbn; congruence|]. split; [cbn; auto|].
           split; [apply Halg; exact Ra|]. cbn [CtrlC04.q_v CtrlC04.q_len]. intros v1 E1. inversion E1; subst v1.
           split; [lia|]. exists (lim_step cl v T). rewrite C', Ec, L', Er, Eoff.
           replace (CtrlC04.q_len q + 1 - 1) with (CtrlC04.q_len q) by lia. auto.
      * (* a new run *)
        split; [reflexivity|].
        split; [cbn; symmetry; exact SS|]. split; [cbn; congruence|]. split; [cbn; auto|].
        split; [apply Halg; exact Ra|]. cbn [CtrlC04.q_v CtrlC04.q_len]. intros v1 E1. inversion E1; subst v1.
        split; [lia|]. exists (direct_cycle (Some cl) v cur). rewrite C', Ec, L', Er, Eoff.
        pose proof (clampZ_range v). repeat split; auto; try lia.
    + (* plain direct: the steady value at once *)
      split.
      * apply Z.eqb_eq. rewrite Er, Eoff. unfold steady. rewrite clamp_target_is_clampZ. reflexivity.
      * split; [cbn; symmetry; exact SS|]. split; [cbn; congruence|]. split; [cbn; auto|].
        split; [apply Halg; exact Ra|exact Logic.I].
  - (* PID: only a non-default PID is covered *)
    cbn in Hok.
    destruct (ci_curve i) as [v|]; cbn [fst snd]; rewrite ?Hok; cbn [andb];
      (split; [reflexivity|]); (split; [cbn; symmetry; exact SS|]); (split; [cbn; congruence|]); (split; [cbn; auto|exact Logic.I]).
  - destruct (ci_curve i) as [v|]; cbn [fst snd];
      (split; [reflexivity|]); (split; [cbn; symmetry; exact SS|]); (split; [cbn; congruence|]); (split; [cbn; auto|exact Logic.I]).
Qed.

Lemma c04_quiet c s e a lo hi q :
  match e with Cycle _ => False | _ => True end -> c04_rel a lo hi s q ->
  c04_rel a lo hi (fst (step c s e))
    (CtrlC04.mkC04 (snd (step c s e)) (CtrlC04.q_v q) (CtrlC04.q_len q) (CtrlC04.q_mindt q) (CtrlC04.q_maxdt q)
                   (CtrlC04.q_stopped q) (CtrlC04.q_dts_ok q)).
Proof.
  intros He (Rs & Rr & Ro & Ra). destruct e as [rpm|i|m p]; [|contradiction|]; cbn; repeat split; auto.
Qed.

Lemma c04_run c a lo hi :
  0 <= lo -> hi <= 255 -> pm_ok (c_pm c) -> alg_ok a ->
  forall h s q, inv lo hi s -> c04_rel a lo hi s q ->
  CtrlC04.c04_scan a hi q (zip h (snd (run c s h))) = true.
Proof.
  intros Hlo Hhi Hpm Hok. induction h as [|e h IH]; intros s q I R; [reflexivity|].
  cbn [run].
  pose proof (step_spec c s e lo hi Hlo Hhi Hpm I) as S.
  assert (Hc : forall i, e = Cycle i ->
     fst (CtrlC04.c04_cycleb a hi q i (snd (step c s e))) = true
     /\ c04_rel a lo hi (fst (step c s e)) (snd (CtrlC04.c04_cycleb a hi q i (snd (step c s e)))))
    by (intros i ->; apply c04_cycle; assumption).
  assert (Hq : match e with Cycle _ => False | _ => True end ->
     c04_rel a lo hi (fst (step c s e))
       (CtrlC04.mkC04 (snd (step c s e)) (CtrlC04.q_v q) (CtrlC04.q_len q) (CtrlC04.q_mindt q) (CtrlC04.q_maxdt q)
                      (CtrlC04.q_stopped q) (CtrlC04.q_dts_ok q)))
    by (intros He; apply c04_quiet; assumption).
  destruct (step c s e) as [s1 o]. cbn [fst snd] in *. destruct S as (I1 & _).
  pose proof (IH s1) as IH1.
  destruct (run c s1 h) as [s2 os]. cbn [snd zip CtrlC04.c04_scan] in *.
  destruct e as [rpm|i|m p].
  - apply IH1; [exact I1|apply Hq; exact Logic.I].
  - destruct (Hc i eq_refl) as [H1 H2].
    destruct (CtrlC04.c04_cycleb a hi q i o) as [ok q']. cbn [fst snd] in *. subst ok. cbn [andb].
    apply IH1; assumption.
  - apply IH1; [exact I1|apply Hq; exact Logic.I].
Qed.

Lemma C04_model_passes_base c : base_wf c -> alg_ok (k_alg c) -> CtrlC04.holdsb (with_obs c (model_obs c)) = true.
Proof.
  intros W Hok. pose proof (base_init_inv c W) as I. destruct W as [Hpm Hout (A & B & C)].
  unfold CtrlC04.holdsb.
  apply (c04_run (case_cfg c) (k_alg c) (GetMinPwm (case_fan c)) (GetMaxPwm (case_fan c))); auto.
  repeat split. cbn. destruct (k_alg c) as [[cl|]|p|f]; auto. split; [reflexivity|]. intros v E. discriminate.
Qed.
