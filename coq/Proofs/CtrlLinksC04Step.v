(* C04 step link: the model's own observations satisfy the consecutive-step observer of
   Drv/CtrlC04Step.v for every rate limit >= 0 (the limit bounds the move of the loop output, the loop is
   fed its own previous output, and the rescale into [lo+offset, hi] never stretches a distance). *)
From Coq Require Import ZArith Bool List Floats Lia ZifyBool Sorting.Sorted.
From F2G Require Import Go.GoFloat gen.Consts Model.Util Model.Fan Model.ControlLoop Model.Controller
                        Proofs.Closest Proofs.Rescale Proofs.Ctrl Proofs.CtrlC04 Drv.Common Drv.Ctrl
                        Proofs.CtrlLinks Proofs.CtrlLinksC04.
From F2G Require Drv.CtrlC04Step.
Import ListNotations.
Open Scope Z_scope.

Definition lim_ok (a : alg) : Prop := match a with Direct (Some cl) => 0 <= cl | _ => True end.
Definition lim_okb (a : alg) : bool := match a with Direct (Some cl) => 0 <=? cl | _ => true end.
Lemma lim_okb_ok a : lim_okb a = true -> lim_ok a.
Proof. destruct a as [[cl|]|p|f]; cbn; auto. apply Z.leb_le. Qed.
Lemma alg_ok_lim_ok a : alg_ok a -> lim_ok a.
Proof. destruct a as [[cl|]|p|f]; cbn; auto. lia. Qed.

Lemma direct_cycle_move cl v t : 0 <= cl -> 0 <= t <= 255 -> Z.abs (direct_cycle (Some cl) v t - t) <= cl.
Proof.
  intros Hc Ht. unfold direct_cycle, clampZ. cbv zeta.
  destruct (cl <? v - t) eqn:A; destruct (v - t <? - cl) eqn:B;
  repeat match goal with |- context [?x <? ?y] => destruct (x <? y) eqn:? end; lia.
Qed.

Lemma rescale_dist lo hi t t' : 0 <= lo -> lo <= hi -> hi <= 255 -> 0 <= t <= 255 -> 0 <= t' <= 255 ->
  Z.abs (rescale_c t' lo hi - rescale_c t lo hi) <= Z.abs (t' - t).
Proof.
  intros H0 H1 H2 Ht Ht'. destruct (Z.le_ge_cases t t') as [L|L].
  - pose proof (rescale_lipschitz lo hi H0 H1 H2 t t' ltac:(lia) L ltac:(lia)). lia.
  - pose proof (rescale_lipschitz lo hi H0 H1 H2 t' t ltac:(lia) ltac:(lia) ltac:(lia)). lia.
Qed.

Definition step_rel (cl lo hi : Z) (s : st) (p : obs) (armed : bool) : Prop :=
  o_req p = s_last s /\ o_offset p = s_offset s /\ s_stopped s = 0 /\ s_alg s = Direct (Some cl)
  /\ (armed = true -> exists T, s_loopcur s = Some T /\ 0 <= T <= 255
                                /\ s_last s = Some (rescale_c T (lo + s_offset s) hi)).

Lemma step_run c cl lo hi :
  0 <= lo -> hi <= 255 -> pm_ok (c_pm c) -> 0 <= cl ->
  forall h s p armed, inv lo hi s -> step_rel cl lo hi s p armed ->
  CtrlC04Step.step_scan cl armed p (zip h (snd (run c s h))) = true.
Proof.
  intros Hlo Hhi Hpm Hcl. induction h as [|e h IH]; intros s p armed I (Rr & Ro & Rs & Ra & Rt); [reflexivity|].
  cbn [run].
  pose proof (step_spec c s e lo hi Hlo Hhi Hpm I) as S.
  pose proof (step_stopped c s e lo hi Hlo Hhi Hpm I) as SS. rewrite Rs in SS. cbn [Z.eqb negb orb] in SS.
  pose proof (step_alg_direct c s e (Some cl) Ra) as Ha1.
  pose proof (step_obs_state c s e) as SO.
  assert (Hc : forall i, e = Cycle i -> o_err (snd (step c s e)) = 0 ->
     exists s1 r, calc_target c s i = TOk s1 r
       /\ s_last (fst (step c s e)) = Some r /\ s_offset (fst (step c s e)) = s_offset s1
       /\ s_loopcur (fst (step c s e)) = s_loopcur s1)
    by (intros i -> E; exact (cycle_ok_shape c s i lo hi Hlo Hhi Hpm I Rs E)).
  assert (Hq : match e with Cycle _ => False | _ => True end ->
     s_last (fst (step c s e)) = s_last s /\ s_offset (fst (step c s e)) = s_offset s
     /\ s_loopcur (fst (step c s e)) = s_loopcur s /\ s_stopped (fst (step c s e)) = 0)
    by (destruct e as [rpm|i|m q]; [|contradiction|]; cbn; auto).
  destruct (step c s e) as [s1 o]. cbn [fst snd] in *. destruct S as (I1 & _).
  destruct SO as (Oreq & Ooff & _).
  pose proof (IH s1 o) as IH1.
  destruct (run c s1 h) as [s2 os]. cbn [snd zip CtrlC04Step.step_scan] in *.
  destruct e as [rpm|i|m q].
  - destruct (Hq Logic.I) as (K1 & K2 & K3 & K4). apply IH1; [exact I1|].
    repeat split; auto. rewrite K1, K2, K3. exact Rt.
  - destruct (o_err o =? 0) eqn:E; cbn [andb]; [|rewrite andb_false_r; reflexivity]. cbn [negb] in SS.
    apply Z.eqb_eq in E.
    assert (Hrun1 : s_stopped s1 = 0) by (apply negb_false_iff in SS; apply Z.eqb_eq in SS; exact SS).
    destruct (Hc i eq_refl E) as (sc & r & ET & EL & EO & EC).
    rewrite Ooff, Ro, Oreq, EL, Rr. cbn [is_some]. rewrite andb_true_r.
    destruct (s_offset s1 =? s_offset s) eqn:Eoff; cbn [andb].
    2:{ rewrite andb_false_r. cbn [andb]. apply IH1; [exact I1|]. repeat split; auto. intros X; discriminate. }
    apply Z.eqb_eq in Eoff.
    destruct (calc_target_direct_ok c s i (Some cl) sc r lo hi I Ra ET ltac:(lia)) as (v & cur & Ev & Hcur & Er & Ec).
    rewrite (clamp_target_id _ (direct_cycle_range (Some cl) v cur)) in Er, Ec.
    rewrite Ev. cbn [is_some].
    destruct I as [_ _ Ioff Ifloor _].
    apply andb_true_iff. split.
    + rewrite andb_true_r. destruct armed; [|reflexivity]. cbn [andb].
      destruct (Rt eq_refl) as (T & ET0 & HT & EL0). rewrite EL0. apply Z.leb_le.
      rewrite (Hcur T ET0) in Er. rewrite Er.
      pose proof (rescale_dist (lo + s_offset s) hi T (direct_cycle (Some cl) v T) ltac:(lia) Ifloor Hhi HT
                               (direct_cycle_range (Some cl) v T)).
      pose proof (direct_cycle_move cl v T Hcl HT). lia.
    + apply IH1; [exact I1|]. repeat split; auto. intros _.
      exists (direct_cycle (Some cl) v cur). rewrite EC, Ec, EL, Er, Eoff.
      split; [reflexivity|]. split; [apply direct_cycle_range|reflexivity].
  - destruct (Hq Logic.I) as (K1 & K2 & K3 & K4). apply IH1; [exact I1|].
    repeat split; auto. rewrite K1, K2, K3. exact Rt.
Qed.

(* the observer does not judge a negative limit (see the counter-example below), so [base_wf] suffices *)
Theorem C04_step_model_passes c : base_wf c ->
  CtrlC04Step.holdsb (with_obs c (model_obs c)) = true.
Proof.
  intros W. pose proof (base_init_inv c W) as I. destruct W as [Hpm Hout (A & B & C)].
  unfold CtrlC04Step.holdsb. change (k_alg (with_obs c (model_obs c))) with (k_alg c).
  destruct (k_alg c) as [[cl|]|p|f] eqn:Ea; try reflexivity.
  destruct (cl <? 0) eqn:L; [reflexivity|]. apply Z.ltb_ge in L.
  apply (step_run (case_cfg c) cl (GetMinPwm (case_fan c)) (GetMaxPwm (case_fan c)) A C Hpm L (k_hist c) (case_init c)); auto.
  repeat split; auto. intros X; discriminate.
Qed.

Theorem C04_step_no_false_alarm c : mismatch c = false -> base_wf c -> CtrlC04Step.holdsb c = true.
Proof. intros M W. rewrite <- (agree_with_obs c M) at 1. apply C04_step_model_passes; assumption. Qed.

(* why the observer skips a negative limit (never generated): the model then moves by |lim| while the scan demands
   <= lim *)
Definition step_counterexample : case :=
  mkCase FileK false None None None None None None [(0, 0); (255, 255)] 1 (Direct (Some (-3))) 10 false false 0 0 0%float
    [Cycle (mkCin (Some 100) 100000000 true true true); Cycle (mkCin (Some 200) 100000000 true true true)] [].

Example step_needs_lim_ok :
  base_wfb step_counterexample = true
  /\ CtrlC04Step.step_scan (-3) false (mkObs 0 None [] 0 0 0 0 (Model.Fan.GetMinPwm (case_fan step_counterexample)) 0%float)
       (zip (k_hist step_counterexample) (model_obs step_counterexample)) = false
  /\ CtrlC04Step.holdsb (with_obs step_counterexample (model_obs step_counterexample)) = true.
Proof. vm_compute. repeat split; reflexivity. Qed.
