(* C05 link: the model's own observations satisfy the C05 observer (Drv/CtrlC05.v). *)
From Coq Require Import ZArith Bool List Floats Lia Sorting.Sorted.
From F2G Require Import Go.GoFloat gen.Consts Model.Util Model.Fan Model.ControlLoop Model.Controller
                        Proofs.Closest Proofs.Rescale Proofs.Ctrl Proofs.CtrlC05 Drv.Common Drv.Ctrl Proofs.CtrlLinks.
From F2G Require Drv.Closest Drv.CtrlC05.
Import ListNotations.
Open Scope Z_scope.

Lemma reads_backb_back c : CtrlC05.reads_backb (c_pm c) (c_respq c) = true -> reads_back c.
Proof.
  unfold CtrlC05.reads_backb, reads_back. rewrite forallb_forall. intros H k Hk.
  pose proof (lookup_in (c_pm c) k Hk) as Hin. apply in_map_iff in Hin. destruct Hin as (kv & E & Hin).
  specialize (H kv Hin). apply Z.eqb_eq in H. unfold resp. rewrite <- E. exact H.
Qed.

(* the scan state of the observer against the model state *)
Definition c05_rel (s : st) (sc : CtrlC05.scan_st) : Prop :=
  o_cnt (CtrlC05.sc_prev sc) = s_cnt s /\ o_req (CtrlC05.sc_prev sc) = s_last s
  /\ o_pwm (CtrlC05.sc_prev sc) = s_pwm s /\ CtrlC05.sc_stopped sc = negb (s_stopped s =? 0).

Lemma third_party_cases c s i :
  third_party_cnt c s i = s_cnt s
  \/ (third_party_cnt c s i = s_cnt s + 1
      /\ exists l e, s_last s = Some l /\ written (c_pm c) l = FcVal e /\ s_pwm s <> e).
Proof.
  unfold third_party_cnt. destruct (s_last s) as [l|]; [|auto].
  destruct (_ && _); [|auto]. destruct (written (c_pm c) l) as [e| |] eqn:W; auto.
  destruct (s_pwm s =? e) eqn:E; [auto|]. apply Z.eqb_neq in E. right. split; auto. exists l, e. auto.
Qed.

Lemma cycle_cnt_cases c s i lo hi :
  0 <= lo -> hi <= 255 -> pm_ok (c_pm c) -> inv lo hi s -> s_stopped s = 0 ->
  s_cnt (fst (step c s (Cycle i))) = s_cnt s \/ s_cnt (fst (step c s (Cycle i))) = third_party_cnt c s i.
Proof.
  intros Hlo Hhi Hpm I Hrun. cbn [step]. rewrite Hrun. cbn [Z.eqb negb].
  pose proof (calc_target_fan c s i) as Tf.
  destruct (calc_target c s i) as [s1 r|s1 code].
  - destruct (apply_target c s1 i r) as [[s2 ws] err] eqn:EA.
    destruct (apply_target_keeps c s1 i r s2 ws err EA) as (_ & K & _). cbn [fst]. rewrite K. apply Tf.
  - cbn. apply Tf.
Qed.

Lemma written_in_cands pm l : pm_ok pm ->
  exists e, written pm l = FcVal e /\ In e (CtrlC05.cands pm (supported pm) l).
Proof.
  intros [Hne Hs]. destruct (written_spec pm l Hne Hs) as (k & _ & Hn & Hw & _).
  exists (lookup pm k). split; [exact Hw|]. apply CtrlC05.cands_spec. exists k. auto.
Qed.

Lemma c05_cycle c s i lo hi rb hm sc :
  0 <= lo -> hi <= 255 -> pm_ok (c_pm c) -> inv lo hi s -> c05_rel s sc ->
  (hm = true -> has_mode (s_fan s) = true) -> (rb = true -> reads_back c) ->
  CtrlC05.c05_evb (c_pm c) (supported (c_pm c)) rb hm sc (Cycle i) (snd (step c s (Cycle i))) = true.
Proof.
  intros Hlo Hhi Hpm I (Rc & Rr & Rp & Rs) Hhm Hrb.
  unfold CtrlC05.c05_evb. cbv zeta. rewrite Rs.
  destruct (s_stopped s =? 0) eqn:Hrun; cbn [negb].
  2:{ cbn [step]. rewrite Hrun. cbn. rewrite Rc. apply Z.eqb_eq. lia. }
  apply Z.eqb_eq in Hrun.
  pose proof (step_obs_state c s (Cycle i)) as SO.
  pose proof (cycle_cnt_cases c s i lo hi Hlo Hhi Hpm I Hrun) as CC.
  pose proof (third_party_cases c s i) as TP.
  destruct (step c s (Cycle i)) as [s' o] eqn:ES. cbn [snd fst] in *.
  destruct SO as (Oreq & Ooff & Omin & Opwm & Omode & Ocnt).
  rewrite Ocnt, Rc, Rr, Rp.
  apply andb_true_iff. split; [apply andb_true_iff; split; [apply andb_true_iff; split|]|].
  - (* the counter moves by 0 or 1 *)
    apply andb_true_iff. split; apply Z.leb_le; destruct CC as [E|E]; rewrite E; destruct TP as [T|[T _]]; lia.
  - (* counted exactly when the PWM value differs from what the last request dictates *)
    destruct (s_last s) as [l|] eqn:Hl.
    + destruct (written_in_cands (c_pm c) l Hpm) as (e & We & Ine).
      destruct (forallb (fun w => w =? s_pwm s) (CtrlC05.cands (c_pm c) (supported (c_pm c)) l)) eqn:Aeq.
      * rewrite forallb_forall in Aeq. specialize (Aeq e Ine). apply Z.eqb_eq in Aeq.
        apply Z.eqb_eq. destruct CC as [E|E]; rewrite E; [lia|].
        destruct TP as [T|(_ & l' & e' & El & We' & Hne)]; [lia|].
        inversion El; subst l'. rewrite We in We'. inversion We'; subst e'. congruence.
      * destruct (ci_read_ok i && is_some (ci_curve i)
                  && forallb (fun w => negb (w =? s_pwm s)) (CtrlC05.cands (c_pm c) (supported (c_pm c)) l)) eqn:Ane;
          [|reflexivity].
        apply andb_true_iff in Ane. destruct Ane as [Ane Aall]. apply andb_true_iff in Ane. destruct Ane as [Hread Hcurve].
        destruct (ci_curve i) as [v|] eqn:Hv; [|discriminate].
        rewrite forallb_forall in Aall. specialize (Aall e Ine). apply negb_true_iff, Z.eqb_neq in Aall.
        pose proof (cycle_cnt c s i lo hi l v Hlo Hhi Hpm I Hrun Hl Hv) as CE. rewrite ES in CE. cbn [fst] in CE.
        assert (Hsup : supports_pwm (s_fan s) i && ci_read_ok i = true).
        { unfold supports_pwm. rewrite Hread. destruct (fk (s_fan s)); reflexivity. }
        destruct (third_party_changed c s i l e Hl We Hsup) as [Hch _].
        apply Z.eqb_eq. rewrite CE, Hch; [lia|congruence].
    + apply Z.eqb_eq. destruct CC as [E|E]; rewrite E; [lia|].
      destruct TP as [T|(_ & l' & e' & El & _)]; [lia|discriminate].
  - (* the PWM value is re-asserted *)
    destruct ((o_err o =? 0) && ci_write_ok i && rb) eqn:G; [|reflexivity].
    apply andb_true_iff in G. destruct G as [G Grb]. apply andb_true_iff in G. destruct G as [Gerr Gw].
    apply Z.eqb_eq in Gerr.
    pose proof (cycle_reasserts c s i lo hi Hlo Hhi Hpm (Hrb Grb) I Hrun Gw) as R. rewrite ES in R.
    destruct (R Gerr) as (Sh & (r & Er) & _).
    rewrite Oreq, Er, Opwm.
    destruct (written_in_cands (c_pm c) r Hpm) as (e & We & Ine).
    rewrite (Sh r Er) in We. inversion We; subst e.
    apply existsb_exists. exists (s_pwm s'). split; [exact Ine|apply Z.eqb_refl].
  - (* manual mode is re-asserted *)
    destruct ((o_err o =? 0) && hm && ci_mode_ok i) eqn:G; [|reflexivity].
    apply andb_true_iff in G. destruct G as [G Gm]. apply andb_true_iff in G. destruct G as [Gerr Ghm].
    apply Z.eqb_eq in Gerr. rewrite Omode. apply Z.eqb_eq.
    (* the mode write does not depend on the PWM write: redo the cycle by hand *)
    clear CC TP. cbn [step] in ES. rewrite Hrun in ES. cbn [Z.eqb negb] in ES.
    pose proof (calc_target_static c s i) as T.
    pose proof (calc_target_spec c s i lo hi Hlo Hhi I) as T2.
    destruct (calc_target c s i) as [s1 r|s1 code].
    + destruct T as (Hmode1 & _). unfold apply_target in ES. rewrite Hmode1, (Hhm Ghm), Gm in ES. cbn [andb] in ES.
      destruct (written (c_pm c) r); [destruct (_ && _ && _)|..]; inversion ES; reflexivity.
    + destruct T2 as (_ & _ & _ & Hcode & _). inversion ES; subst. cbn in Gerr. destruct Hcode; lia.
Qed.

Lemma c05_step c s e lo hi rb hm sc :
  0 <= lo -> hi <= 255 -> pm_ok (c_pm c) -> inv lo hi s -> c05_rel s sc ->
  (hm = true -> has_mode (s_fan s) = true) -> (rb = true -> reads_back c) ->
  CtrlC05.c05_evb (c_pm c) (supported (c_pm c)) rb hm sc e (snd (step c s e)) = true
  /\ c05_rel (fst (step c s e))
       (CtrlC05.mkScan (snd (step c s e))
          (CtrlC05.sc_stopped sc || match e with Cycle _ => negb (o_err (snd (step c s e)) =? 0) | _ => false end)).
Proof.
  intros Hlo Hhi Hpm I R Hhm Hrb. split.
  - destruct e as [rpm|i|m p]; [| apply (c05_cycle c s i lo hi); assumption |];
      destruct R as (Rc & _); cbn; rewrite Rc; apply Z.eqb_eq; lia.
  - pose proof (step_obs_state c s e) as SO. pose proof (step_stopped c s e lo hi Hlo Hhi Hpm I) as SS.
    destruct R as (_ & _ & _ & Rs). rewrite Rs, <- SS.
    destruct (step c s e) as [s' o]. cbn [fst snd] in *.
    destruct SO as (Oreq & _ & _ & Opwm & _ & Ocnt). repeat split; assumption.
Qed.

Lemma c05_run c lo hi rb hm :
  0 <= lo -> hi <= 255 -> pm_ok (c_pm c) -> (rb = true -> reads_back c) ->
  forall h s sc, inv lo hi s -> c05_rel s sc -> (hm = true -> has_mode (s_fan s) = true) ->
  CtrlC05.c05_scan (c_pm c) (supported (c_pm c)) rb hm sc (zip h (snd (run c s h))) = true.
Proof.
  intros Hlo Hhi Hpm Hrb. induction h as [|e h IH]; intros s sc I R Hhm; [reflexivity|].
  cbn [run].
  pose proof (c05_step c s e lo hi rb hm sc Hlo Hhi Hpm I R Hhm Hrb) as [S1 S2].
  pose proof (step_spec c s e lo hi Hlo Hhi Hpm I) as S.
  pose proof (step_static c s e) as (St & _).
  destruct (step c s e) as [s1 o]. cbn [fst snd] in *. destruct S as (I1 & _).
  specialize (IH s1 _ I1 S2 ltac:(intros H; rewrite St; auto)).
  destruct (run c s1 h) as [s2 os]. cbn [snd zip CtrlC05.c05_scan] in *.
  apply andb_true_iff. split; assumption.
Qed.

Lemma C05_model_passes_base c : base_wf c -> CtrlC05.holdsb (with_obs c (model_obs c)) = true.
Proof.
  intros W. pose proof (base_init_inv c W) as I. destruct W as [Hpm Hout (A & B & C)].
  unfold CtrlC05.holdsb. cbv zeta.
  apply (c05_run (case_cfg c) (GetMinPwm (case_fan c)) (GetMaxPwm (case_fan c))); auto.
  - apply (reads_backb_back (case_cfg c)).
  - repeat split.
  - intros H. apply andb_true_iff in H. destruct H as [H _].
    destruct (case_fan_static c) as (E & _). cbn. rewrite E. exact H.
Qed.
