(* C07 link for the `ctrl` driver: the model's own observations satisfy the history observer of
   Drv/CtrlC07.v (request monotone in the curve value at a fixed raise count under the plain direct
   algorithm; written value follows for a non-decreasing map on an exact device). *)
From Coq Require Import ZArith Bool List Floats Lia Sorting.Sorted.
From F2G Require Import Go.GoFloat gen.Consts Model.Util Model.Fan Model.ControlLoop Model.Controller
                        Proofs.Closest Proofs.Rescale Proofs.Ctrl Proofs.CtrlC04 Proofs.CtrlC05 Drv.Common Drv.Ctrl
                        Proofs.CtrlLinks Proofs.CtrlLinksC04 Proofs.CtrlLinksC10Progress.
From F2G Require Drv.CtrlC07.
Import ListNotations.
Open Scope Z_scope.

(* ---- nearest keys are monotone in the target; a key-sorted map with non-decreasing outputs is monotone ---- *)
Lemma nearest_mono arr t1 t2 k1 k2 : nearest arr t1 k1 -> nearest arr t2 k2 -> t1 < t2 -> k1 <= k2.
Proof. intros [I1 N1] [I2 N2] Ht. specialize (N1 k2 I2). specialize (N2 k1 I1). lia. Qed.

Lemma lookup_hd_le pm : StronglySorted Z.lt (map fst pm) -> CtrlC07.nondec_snd pm = true ->
  forall k, In k (map fst pm) -> match pm with [] => True | (_, v0) :: _ => v0 <= lookup pm k end.
Proof.
  induction pm as [|[k0 v0] r IH]; intros Hs Hn k Hk; [exact Logic.I|].
  cbn [map fst] in *. inversion Hs as [|? ? Hs' Hall]; subst.
  cbn [lookup]. destruct (k0 =? k) eqn:E; [lia|]. apply Z.eqb_neq in E.
  destruct Hk as [->|Hk]; [congruence|].
  destruct r as [|[k1 v1] r2]; [contradiction|].
  cbn [CtrlC07.nondec_snd] in Hn. apply andb_true_iff in Hn. destruct Hn as [Hle Hn]. apply Z.leb_le in Hle.
  specialize (IH Hs' Hn k Hk). cbn beta iota in IH. lia.
Qed.

Lemma lookup_mono pm : StronglySorted Z.lt (map fst pm) -> CtrlC07.nondec_snd pm = true ->
  forall k1 k2, In k1 (map fst pm) -> In k2 (map fst pm) -> k1 <= k2 -> lookup pm k1 <= lookup pm k2.
Proof.
  induction pm as [|[k0 v0] r IH]; intros Hs Hn k1 k2 H1 H2 Hle; [contradiction|].
  cbn [map fst] in *. inversion Hs as [|? ? Hs' Hall]; subst. rewrite Forall_forall in Hall.
  assert (Hn' : CtrlC07.nondec_snd r = true).
  { destruct r as [|[k1' v1'] r2]; [reflexivity|]. cbn [CtrlC07.nondec_snd] in Hn. apply andb_true_iff in Hn. apply Hn. }
  cbn [lookup]. destruct (k0 =? k1) eqn:E1; destruct (k0 =? k2) eqn:E2;
    rewrite ?Z.eqb_eq, ?Z.eqb_neq in *.
  - lia.
  - destruct H2 as [->|H2]; [congruence|].
    pose proof (lookup_hd_le r Hs' Hn' k2 H2) as Hh.
    destruct r as [|[k1' v1'] r2]; [contradiction|]. cbn [CtrlC07.nondec_snd] in Hn.
    apply andb_true_iff in Hn. destruct Hn as [Hv _]. apply Z.leb_le in Hv. cbn beta iota in Hh. lia.
  - destruct H1 as [->|H1]; [congruence|]. subst k2. specialize (Hall k1 H1). lia.
  - destruct H1 as [->|H1]; [congruence|]. destruct H2 as [->|H2]; [congruence|]. apply IH; auto.
Qed.

Lemma written_mono pm r1 r2 e1 e2 : pm_ok pm -> CtrlC07.nondec_snd pm = true -> r1 <= r2 ->
  written pm r1 = FcVal e1 -> written pm r2 = FcVal e2 -> e1 <= e2.
Proof.
  intros [Hne Hs] Hn Hr W1 W2.
  destruct (Z.eq_dec r1 r2) as [->|Hneq]; [rewrite W1 in W2; inversion W2; lia|].
  destruct (written_spec pm r1 Hne Hs) as (k1 & _ & N1 & E1 & _).
  destruct (written_spec pm r2 Hne Hs) as (k2 & _ & N2 & E2 & _).
  rewrite W1 in E1. rewrite W2 in E2. inversion E1; inversion E2; subst.
  apply lookup_mono; auto; try (eapply nearest_supported_in_keys; eauto).
  apply (nearest_mono (supported pm) r1 r2); auto. lia.
Qed.

(* ---- what a comparison point of the observer means in the model ---- *)
Definition pt_ok (c : cfg) (lo hi : Z) (p : Z * Z * Z * Z * bool) : Prop :=
  let '(off, v, r, w, k) := p in
  0 <= off /\ lo + off <= hi /\ r = steady v (lo + off) hi
  /\ (k = true -> c_respq c = 1 -> written (c_pm c) r = FcVal w).

Lemma reads_back_q1 c : c_respq c = 1 -> reads_back c.
Proof. intros Hq k _. unfold resp. rewrite Hq, Z.div_1_r. lia. Qed.

Lemma c07_points_ok c lo hi :
  0 <= lo -> hi <= 255 -> pm_ok (c_pm c) ->
  forall h s, inv lo hi s -> s_stopped s = 0 -> s_alg s = Direct None ->
  Forall (pt_ok c lo hi) (CtrlC07.c07_points (s_offset s) (zip h (snd (run c s h)))).
Proof.
  intros Hlo Hhi Hpm. induction h as [|e h IH]; intros s I Hrun Ha; [constructor|].
  cbn [run].
  pose proof (step_spec c s e lo hi Hlo Hhi Hpm I) as S.
  pose proof (step_stopped c s e lo hi Hlo Hhi Hpm I) as SS. rewrite Hrun in SS. cbn [Z.eqb negb orb] in SS.
  pose proof (step_alg_direct c s e None Ha) as Ha1.
  pose proof (step_obs_state c s e) as SO.
  assert (Hc : forall i, e = Cycle i -> o_err (snd (step c s e)) = 0 ->
     exists s1 r, calc_target c s i = TOk s1 r
       /\ s_last (fst (step c s e)) = Some r /\ s_offset (fst (step c s e)) = s_offset s1)
    by (intros i -> E; destruct (cycle_ok_shape c s i lo hi Hlo Hhi Hpm I Hrun E) as (s1 & r & A & B & C & _); eauto).
  assert (Hw : forall i, e = Cycle i -> o_err (snd (step c s e)) = 0 -> ci_write_ok i = true -> c_respq c = 1 ->
     forall r, s_last (fst (step c s e)) = Some r -> written (c_pm c) r = FcVal (s_pwm (fst (step c s e)))).
  { intros i -> E Hwr Hq r Er.
    pose proof (cycle_reasserts c s i lo hi Hlo Hhi Hpm (reads_back_q1 c Hq) I Hrun Hwr) as R.
    destruct (step c s (Cycle i)) as [s' o]. cbn [fst snd] in *. destruct (R E) as (Sh & _). apply Sh; exact Er. }
  destruct (step c s e) as [s1 o]. cbn [fst snd] in *. destruct S as (I1 & _).
  destruct SO as (Oreq & Ooff & _ & Opwm & _).
  pose proof (IH s1 I1) as IH1.
  destruct (run c s1 h) as [s2 os]. cbn [snd zip CtrlC07.c07_points] in *.
  rewrite Ooff in *.
  destruct e as [rpm|i|m p].
  - apply IH1; auto. apply negb_false_iff in SS. apply Z.eqb_eq in SS. exact SS.
  - destruct (o_err o =? 0) eqn:E; cbn [negb]; [|constructor]. cbn [negb] in SS. apply Z.eqb_eq in E.
    assert (Hrun1 : s_stopped s1 = 0) by (apply negb_false_iff in SS; apply Z.eqb_eq in SS; exact SS).
    specialize (IH1 Hrun1 Ha1).
    destruct (Hc i eq_refl E) as (sc & r & ET & EL & EO).
    destruct (ci_curve i) as [v|] eqn:Ev; [|exact IH1].
    rewrite Oreq, EL.
    destruct (s_offset s1 =? s_offset s) eqn:Eoff; [|exact IH1]. apply Z.eqb_eq in Eoff.
    constructor; [|exact IH1].
    destruct (calc_target_direct_ok c s i None sc r lo hi I Ha ET ltac:(lia)) as (v' & cur & Ev' & _ & Er & _).
    rewrite Ev in Ev'. inversion Ev'; subst v'.
    destruct I as [_ _ Ioff Ifloor _].
    unfold pt_ok. rewrite Eoff. split; [exact Ioff|]. split; [exact Ifloor|]. split.
    + rewrite Er. unfold steady, direct_cycle. rewrite clamp_target_clampZ. reflexivity.
    + intros Hk Hq. rewrite Opwm. apply (Hw i eq_refl E Hk Hq r EL).
  - apply IH1; auto. apply negb_false_iff in SS. apply Z.eqb_eq in SS. exact SS.
Qed.

Lemma pairs_ok_of_pts c lo hi chk pts :
  0 <= lo -> hi <= 255 -> pm_ok (c_pm c) ->
  (chk = true -> CtrlC07.nondec_snd (c_pm c) = true /\ c_respq c = 1) ->
  Forall (pt_ok c lo hi) pts -> CtrlC07.c07_pairs_ok chk pts = true.
Proof.
  intros Hlo Hhi Hpm Hchk Hall. rewrite Forall_forall in Hall.
  unfold CtrlC07.c07_pairs_ok. apply forallb_forall. intros [[[[o1 v1] r1] w1] k1] H1.
  apply forallb_forall. intros [[[[o2 v2] r2] w2] k2] H2.
  destruct ((o1 =? o2) && (v1 <=? v2)) eqn:G; [|reflexivity].
  apply andb_true_iff in G. destruct G as [Go Gv]. apply Z.eqb_eq in Go. apply Z.leb_le in Gv. subst o2.
  destruct (Hall _ H1) as (A1 & B1 & C1 & D1). destruct (Hall _ H2) as (_ & _ & C2 & D2).
  assert (Hr : r1 <= r2).
  { rewrite C1, C2. destruct (steady_shape (lo + o1) hi ltac:(lia) B1 Hhi) as (_ & _ & _ & M & _). apply M; exact Gv. }
  apply andb_true_iff. split; [apply Z.leb_le; exact Hr|].
  destruct (chk && k1 && k2) eqn:G; [|reflexivity].
  apply andb_true_iff in G. destruct G as [G G2]. apply andb_true_iff in G. destruct G as [G0 G1].
  destruct (Hchk G0) as [Hn Hq]. apply Z.leb_le.
  exact (written_mono (c_pm c) r1 r2 w1 w2 Hpm Hn Hr (D1 G1 Hq) (D2 G2 Hq)).
Qed.

(* ---- the cycles that perform a raise: request = steady request with the OLD floor, plus one ---- *)
Definition rp_ok (lo hi : Z) (p : Z * Z * Z) : Prop :=
  let '(o1, v1, r1) := p in
  1 <= o1 /\ lo + o1 <= hi /\ r1 = steady v1 (lo + (o1 - 1)) hi + 1.

Lemma c07_raise_points_ok c lo hi :
  0 <= lo -> hi <= 255 -> pm_ok (c_pm c) ->
  forall h s, inv lo hi s -> s_stopped s = 0 -> s_alg s = Direct None ->
  Forall (rp_ok lo hi) (CtrlC07.c07_raise_points (s_offset s) (zip h (snd (run c s h)))).
Proof.
  intros Hlo Hhi Hpm. induction h as [|e h IH]; intros s I Hrun Ha; [constructor|].
  cbn [run].
  pose proof (step_spec c s e lo hi Hlo Hhi Hpm I) as S.
  pose proof (step_stopped c s e lo hi Hlo Hhi Hpm I) as SS. rewrite Hrun in SS. cbn [Z.eqb negb orb] in SS.
  pose proof (step_alg_direct c s e None Ha) as Ha1.
  pose proof (step_obs_state c s e) as SO.
  assert (Hc : forall i, e = Cycle i -> o_err (snd (step c s e)) = 0 ->
     exists s1 r, calc_target c s i = TOk s1 r
       /\ s_last (fst (step c s e)) = Some r /\ s_offset (fst (step c s e)) = s_offset s1)
    by (intros i -> E; destruct (cycle_ok_shape c s i lo hi Hlo Hhi Hpm I Hrun E) as (s1 & r & A & B & C & _); eauto).
  destruct (step c s e) as [s1 o]. cbn [fst snd] in *. destruct S as (I1 & _).
  destruct SO as (Oreq & Ooff & _).
  pose proof (IH s1 I1) as IH1.
  destruct (run c s1 h) as [s2 os]. cbn [snd zip CtrlC07.c07_raise_points] in *.
  rewrite Ooff in *.
  destruct e as [rpm|i|m p].
  - apply IH1; auto. apply negb_false_iff in SS. apply Z.eqb_eq in SS. exact SS.
  - destruct (o_err o =? 0) eqn:E; cbn [negb]; [|constructor]. cbn [negb] in SS. apply Z.eqb_eq in E.
    assert (Hrun1 : s_stopped s1 = 0) by (apply negb_false_iff in SS; apply Z.eqb_eq in SS; exact SS).
    specialize (IH1 Hrun1 Ha1).
    destruct (Hc i eq_refl E) as (sc & r & ET & EL & EO).
    destruct (ci_curve i) as [v|] eqn:Ev; [|exact IH1].
    rewrite Oreq, EL.
    destruct (s_offset s <? s_offset s1) eqn:Eoff; [|exact IH1]. apply Z.ltb_lt in Eoff.
    constructor; [|exact IH1].
    destruct (calc_target_dn c s i lo hi sc r I Ha ET) as (v' & Ev' & Hcases).
    rewrite Ev in Ev'. inversion Ev'; subst v'.
    destruct I as [_ _ Ioff _ _]. destruct I1 as [_ _ _ Ifloor1 _].
    destruct Hcases as [(E1 & _)|(E1 & E2 & _)]; [lia|].
    unfold rp_ok. rewrite EO, E1 in *. split; [lia|]. split; [lia|].
    replace (s_offset s + 1 - 1) with (s_offset s) by lia. exact E2.
  - apply IH1; auto. apply negb_false_iff in SS. apply Z.eqb_eq in SS. exact SS.
Qed.

Lemma raise_ok_of_pts c lo hi rps pts :
  0 <= lo -> hi <= 255 ->
  Forall (rp_ok lo hi) rps -> Forall (pt_ok c lo hi) pts -> CtrlC07.c07_raise_ok rps pts = true.
Proof.
  intros Hlo Hhi Hr Hp. rewrite Forall_forall in Hr, Hp.
  unfold CtrlC07.c07_raise_ok. apply forallb_forall. intros [[o1 v1] r1] H1.
  apply forallb_forall. intros [[[[o2 v2] r2] w2] k2] H2.
  destruct (o1 =? o2) eqn:Eo; [|reflexivity]. apply Z.eqb_eq in Eo. subst o2.
  destruct (Hr _ H1) as (A1 & B1 & C1). destruct (Hp _ H2) as (_ & _ & C2 & _).
  pose proof (steady_floor_step v1 (lo + (o1 - 1)) hi ltac:(lia) ltac:(lia) Hhi) as FS.
  replace (lo + (o1 - 1) + 1) with (lo + o1) in FS by lia.
  destruct (steady_shape (lo + o1) hi ltac:(lia) B1 Hhi) as (_ & _ & _ & M & _).
  apply andb_true_iff. split.
  - destruct (v1 <=? v2) eqn:G; [|reflexivity]. apply Z.leb_le in G. apply Z.leb_le. specialize (M v1 v2 G). lia.
  - destruct (v2 <=? v1) eqn:G; [|reflexivity]. apply Z.leb_le in G. apply Z.leb_le. specialize (M v2 v1 G). lia.
Qed.

Theorem C07_ctrl_model_passes c : base_wf c -> CtrlC07.holdsb (with_obs c (model_obs c)) = true.
Proof.
  intros W. pose proof (base_init_inv c W) as I. destruct W as [Hpm Hout (A & B & C)].
  unfold CtrlC07.holdsb. change (k_alg (with_obs c (model_obs c))) with (k_alg c).
  destruct (k_alg c) as [[cl|]|p|f] eqn:Ea; try reflexivity.
  pose proof (c07_points_ok (case_cfg c) _ _ A C Hpm (k_hist c) (case_init c) I eq_refl Ea) as Hpts.
  pose proof (c07_raise_points_ok (case_cfg c) _ _ A C Hpm (k_hist c) (case_init c) I eq_refl Ea) as Hrps.
  apply andb_true_iff. split; [|exact (raise_ok_of_pts (case_cfg c) _ _ _ _ A C Hrps Hpts)].
  apply (pairs_ok_of_pts (case_cfg c) (GetMinPwm (case_fan c)) (GetMaxPwm (case_fan c))); auto.
  - intros H. apply andb_true_iff in H. destruct H as [H1 H2]. apply Z.eqb_eq in H2. split; assumption.
Qed.

Theorem C07_ctrl_no_false_alarm c : mismatch c = false -> base_wf c -> CtrlC07.holdsb c = true.
Proof. intros M W. rewrite <- (agree_with_obs c M) at 1. apply C07_ctrl_model_passes; exact W. Qed.
