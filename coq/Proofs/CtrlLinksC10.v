(* C10 link: the model's own observations satisfy the C10 observer (Drv/CtrlC10.v), including the
   binary64 decay rule R2 exactly as the observer evaluates it. *)
From Coq Require Import ZArith Bool List Floats Lia Sorting.Sorted.
From F2G Require Import Go.GoFloat gen.Consts Model.Util Model.Fan Model.ControlLoop Model.Controller
                        Proofs.Closest Proofs.Rescale Proofs.Ctrl Proofs.CtrlC10 Drv.Common Drv.Ctrl
                        Proofs.CtrlLinks Proofs.CtrlLinksAvg.
From F2G Require Drv.CtrlC10.
Import ListNotations.
Open Scope Z_scope.

Definition poll_ok (e : hev) : Prop :=
  match e with Poll (Some r) => 0 <= r <= AvgMax | _ => True end.
Definition poll_okb (e : hev) : bool :=
  match e with Poll (Some r) => (0 <=? r) && (r <=? AvgMax) | _ => true end.
Lemma poll_okb_ok e : poll_okb e = true -> poll_ok e.
Proof.
  destruct e as [[r|]|i|m p]; cbn; auto. rewrite andb_true_iff, !Z.leb_le. tauto.
Qed.

(* the hwmon moving average is a finite bounded non-negative number *)
Definition fan_avg_ok (n : Z) (f : fan) : Prop := fk f = HwMon -> avg_ok n (rpm_avg f).

Lemma GetRpmAvg_hw f : fk f = HwMon -> GetRpmAvg f = rpm_avg f.
Proof. unfold GetRpmAvg. intros ->. reflexivity. Qed.

Lemma SetRpmAvg_hw f x : fk f = HwMon -> rpm_avg (SetRpmAvg f x) = x.
Proof. unfold SetRpmAvg. intros ->. reflexivity. Qed.

Lemma poll_avg_ok n f rpm : 1 <= n <= 1000 -> poll_ok (Poll rpm) -> fan_avg_ok n f -> fan_avg_ok n (poll_rpm n f rpm).
Proof.
  intros Hn Hp Hf Hk. destruct (poll_rpm_limits n f rpm) as (_ & _ & _ & _ & _ & Ek). rewrite Ek in Hk.
  pose proof (poll_rpm_hwmon n f rpm Hk) as E. rewrite GetRpmAvg_hw in E by (rewrite Ek; exact Hk).
  rewrite E. apply avg_ok_upd; auto. destruct rpm as [r|]; cbn in *; [exact Hp|unfold AvgMax; lia].
Qed.

Lemma calc_target_fan_cases c s i :
  match calc_target c s i with
  | TOk s1 _ | TErr s1 _ => s_fan s1 = s_fan s \/ s_fan s1 = SetRpmAvg (s_fan s) PostRaiseAvg
  end.
Proof.
  unfold calc_target.
  destruct (match s_last s with Some l => Some l | None => _ end); [|auto].
  destruct (ci_curve i); [|auto].
  destruct (alg_cycle _ _ _ _).
  destruct (_ && _ && _ && _); [|cbn; auto].
  destruct (_ <=? _); cbn; auto.
Qed.

Lemma step_avg_ok c s e : 1 <= c_nrpm c <= 1000 -> poll_ok e ->
  fan_avg_ok (c_nrpm c) (s_fan s) -> fan_avg_ok (c_nrpm c) (s_fan (fst (step c s e))).
Proof.
  intros Hn Hp Hf. destruct e as [rpm|i|m p]; cbn [step].
  - cbn. apply poll_avg_ok; assumption.
  - destruct (negb (s_stopped s =? 0)); [exact Hf|].
    pose proof (calc_target_fan_cases c s i) as T.
    assert (G : forall f', f' = s_fan s \/ f' = SetRpmAvg (s_fan s) PostRaiseAvg -> fan_avg_ok (c_nrpm c) f').
    { intros f' [->| ->]; [exact Hf|]. intros Hk.
      destruct (SetRpmAvg_limits (s_fan s) PostRaiseAvg) as (_ & _ & _ & _ & _ & Ek). rewrite Ek in Hk.
      rewrite (SetRpmAvg_hw _ _ Hk). apply avg_ok_one. }
    destruct (calc_target c s i) as [s1 r|s1 code]; [|cbn; apply G; exact T].
    destruct (apply_target c s1 i r) as [[s2 ws] err] eqn:EA.
    destruct (apply_target_keeps c s1 i r s2 ws err EA) as (K & _). cbn [fst]. rewrite K. apply G; exact T.
  - exact Hf.
Qed.

Lemma step_obs_avg c s e : o_avg (snd (step c s e)) = GetRpmAvg (s_fan (fst (step c s e))).
Proof.
  destruct e as [rpm|i|m p]; cbn [step]; [reflexivity| |reflexivity].
  destruct (negb (s_stopped s =? 0)); [reflexivity|].
  destruct (calc_target c s i) as [s1 r|s1 code]; [|reflexivity].
  destruct (apply_target c s1 i r) as [[s2 ws] err]. reflexivity.
Qed.

(* ---- the cycle rules R1, R1', R3 ---- *)
Lemma calc_target_c10 c s i lo hi :
  inv lo hi s ->
  match calc_target c s i with
  | TOk s1 r => has_rpm (s_fan s) && never_stop (s_fan s) = true -> stall_test (GetRpmAvg (s_fan s)) = true ->
                forall l, s_last s = Some l -> is_some (ci_curve i) = true -> r <> l
  | TErr s1 code => code = 1 -> exists l, s_last s = Some l /\ hi <= l
  end.
Proof.
  intros [Imin Imax _ _ _]. unfold calc_target.
  destruct (s_last s) as [l|] eqn:Hl.
  - destruct (ci_curve i) as [v|]; [|discriminate].
    destruct (alg_cycle _ _ _ _) as [alg' t0]. rewrite Imax.
    set (r := rescale_c _ _ _).
    destruct (has_rpm (s_fan s) && never_stop (s_fan s)) eqn:Harm; cbn [andb].
    + destruct (l =? r) eqn:Elr; cbn [andb].
      * apply Z.eqb_eq in Elr.
        destruct (stall_test (GetRpmAvg (s_fan s))) eqn:Hst.
        -- destruct (hi <=? r) eqn:Ehi.
           ++ intros _. exists l. split; auto. apply Z.leb_le in Ehi. lia.
           ++ intros _ _ l' E _. inversion E; subst l'. lia.
        -- intros _ Hc. discriminate.
      * apply Z.eqb_neq in Elr. intros _ _ l' E _. inversion E; subst l'. congruence.
    + intros Hc. discriminate.
  - destruct (if supports_pwm (s_fan s) i then _ else _); [|discriminate].
    destruct (ci_curve i) as [v|]; [|discriminate].
    destruct (alg_cycle _ _ _ _) as [alg' t0]. rewrite andb_false_r. cbn [andb].
    intros _ _ l E. discriminate.
Qed.

Definition c10_rel (s : st) (p : obs) (stopped : bool) : Prop :=
  o_req p = s_last s /\ o_offset p = s_offset s /\ o_avg p = GetRpmAvg (s_fan s)
  /\ stopped = negb (s_stopped s =? 0).

Lemma c10_cycle c s i lo hi armed kindHw n p stopped :
  0 <= lo -> hi <= 255 -> pm_ok (c_pm c) -> inv lo hi s -> c10_rel s p stopped ->
  (armed = true -> has_rpm (s_fan s) && never_stop (s_fan s) = true) ->
  CtrlC10.c10_evb armed kindHw n hi stopped p (Cycle i) (snd (step c s (Cycle i))) = true.
Proof.
  intros Hlo Hhi Hpm I (Rr & Ro & Ra & Rs) Harm. unfold CtrlC10.c10_evb.
  destruct (stopped || negb armed) eqn:G; [reflexivity|].
  apply orb_false_iff in G. destruct G as [G1 G2]. apply negb_false_iff in G2.
  rewrite Rs in G1. apply negb_false_iff in G1. specialize (Harm G2).
  cbn [step]. rewrite G1. cbn [negb].
  pose proof (calc_target_spec c s i lo hi Hlo Hhi I) as T.
  pose proof (calc_target_c10 c s i lo hi I) as T2.
  destruct (calc_target c s i) as [s1 r|s1 code].
  - destruct T as (I1 & L1 & Hr & _ & _ & _ & Hoff).
    assert (Hr' : lo <= r <= hi) by (destruct I1; lia).
    pose proof (apply_target_spec c s1 i r lo hi Hpm I1 Hr') as A.
    destruct (apply_target c s1 i r) as [[s2 ws] err].
    destruct A as (_ & -> & L2 & O2 & _). cbn [snd mk_obs o_err o_req o_offset Z.eqb].
    rewrite L2, O2, Rr, Ro, Ra. apply andb_true_iff. split.
    + destruct (CtrlC10.below_one (GetRpmAvg (s_fan s)) && is_some (s_last s) && is_some (ci_curve i)) eqn:B; [|reflexivity].
      apply andb_true_iff in B. destruct B as [B Bc]. apply andb_true_iff in B. destruct B as [Bb Bl].
      destruct (s_last s) as [l|] eqn:Hl; [|discriminate].
      specialize (T2 Harm Bb l eq_refl Bc). cbn. apply negb_true_iff, Z.eqb_neq. exact T2.
    + destruct (s_offset s <? s_offset s1) eqn:Lt; [|reflexivity]. apply Z.ltb_lt in Lt.
      destruct Hoff as [E|(E & _ & l & El & Er)]; [lia|]. rewrite El. subst r.
      rewrite Z.eqb_refl. cbn [andb]. apply Z.ltb_lt. lia.
  - destruct T as (_ & _ & _ & Hcode & _). cbn [snd mk_obs o_err].
    destruct Hcode as [->| ->]; cbn [Z.eqb]; [|reflexivity].
    destruct (T2 eq_refl) as (l & El & Hl). rewrite Rr. cbn [set_stopped s_last]. rewrite El. apply Z.leb_le. exact Hl.
Qed.

(* ---- the poll rule R2 ---- *)
Lemma poll0_file_cmd n f : fk f <> HwMon -> 1 <= n <= 1000 -> feqb (GetRpmAvg (poll_rpm n f (Some 0))) 0%float = true.
Proof.
  intros Hk Hn. destruct (poll0_facts n Hn) as (A & _ & _).
  assert (E : GetRpmAvg (poll_rpm n f (Some 0)) = i2f (f2i (upd_avg 0%float n 0%float))).
  { unfold poll_rpm, GetRpmAvg, SetRpmAvg. destruct (fk f) eqn:E; [congruence| |]; cbn; rewrite ?E; cbn; rewrite ?E; reflexivity. }
  rewrite E.
  assert (Z0 : f2i (upd_avg 0%float n 0%float) = 0).
  { revert A. generalize (upd_avg 0%float n 0%float). intros x Hx. unfold feqb in Hx. unfold f2i.
    destruct (Prim2SF x); try discriminate. reflexivity. }
  rewrite Z0. reflexivity.
Qed.

Lemma c10_poll0 c s armed hi' p stopped :
  1 <= c_nrpm c <= 1000 -> c10_rel s p stopped -> fan_avg_ok (c_nrpm c) (s_fan s) ->
  CtrlC10.c10_evb armed (match fk (s_fan s) with HwMon => true | _ => false end) (c_nrpm c) hi' stopped p
                  (Poll (Some 0)) (snd (step c s (Poll (Some 0)))) = true.
Proof.
  intros Hn (_ & _ & Ra & _) Hf. unfold CtrlC10.c10_evb. cbn [step snd mk_obs o_avg set_fan s_fan].
  destruct (fk (s_fan s)) eqn:Hk.
  - rewrite Ra, (poll_rpm_hwmon _ _ _ Hk), (GetRpmAvg_hw _ Hk). cbn [odflt]. rewrite i2f_0.
    exact (decay_obs (c_nrpm c) (rpm_avg (s_fan s)) Hn (Hf Hk)).
  - apply poll0_file_cmd; [congruence|exact Hn].
  - apply poll0_file_cmd; [congruence|exact Hn].
Qed.

Lemma c10_step c s e lo hi armed kindHw p stopped :
  0 <= lo -> hi <= 255 -> pm_ok (c_pm c) -> 1 <= c_nrpm c <= 1000 -> inv lo hi s -> c10_rel s p stopped ->
  (armed = true -> has_rpm (s_fan s) && never_stop (s_fan s) = true) ->
  kindHw = match fk (s_fan s) with HwMon => true | _ => false end ->
  fan_avg_ok (c_nrpm c) (s_fan s) ->
  CtrlC10.c10_evb armed kindHw (c_nrpm c) hi stopped p e (snd (step c s e)) = true
  /\ c10_rel (fst (step c s e)) (snd (step c s e))
       (stopped || match e with Cycle _ => negb (o_err (snd (step c s e)) =? 0) | _ => false end).
Proof.
  intros Hlo Hhi Hpm Hn I R Harm Hkind Hf. split.
  - destruct e as [[[| |]|]|i|m p']; try reflexivity.
    + subst kindHw. apply (c10_poll0 c s); assumption.
    + apply (c10_cycle c s i lo hi); assumption.
  - pose proof (step_obs_state c s e) as SO. pose proof (step_stopped c s e lo hi Hlo Hhi Hpm I) as SS.
    pose proof (step_obs_avg c s e) as SA.
    destruct R as (_ & _ & _ & Rs). rewrite Rs, <- SS.
    destruct (step c s e) as [s' o]. cbn [fst snd] in *.
    destruct SO as (Oreq & Ooff & _). repeat split; assumption.
Qed.

Lemma c10_run c lo hi armed kindHw :
  0 <= lo -> hi <= 255 -> pm_ok (c_pm c) -> 1 <= c_nrpm c <= 1000 ->
  forall h s p stopped, Forall poll_ok h -> inv lo hi s -> c10_rel s p stopped ->
  (armed = true -> has_rpm (s_fan s) && never_stop (s_fan s) = true) ->
  kindHw = match fk (s_fan s) with HwMon => true | _ => false end ->
  fan_avg_ok (c_nrpm c) (s_fan s) ->
  CtrlC10.c10_scan armed kindHw (c_nrpm c) hi stopped p (zip h (snd (run c s h))) = true.
Proof.
  intros Hlo Hhi Hpm Hn. induction h as [|e h IH]; intros s p stopped Hp I R Harm Hkind Hf; [reflexivity|].
  inversion Hp as [|e' h' Hpe Hph]; subst e' h'.
  cbn [run].
  pose proof (c10_step c s e lo hi armed kindHw p stopped Hlo Hhi Hpm Hn I R Harm Hkind Hf) as [S1 S2].
  pose proof (step_spec c s e lo hi Hlo Hhi Hpm I) as S.
  pose proof (step_static c s e) as (_ & Sk & Sn & Sr).
  pose proof (step_avg_ok c s e Hn Hpe Hf) as Hf1.
  destruct (step c s e) as [s1 o]. cbn [fst snd] in *. destruct S as (I1 & _).
  specialize (IH s1 o _ Hph I1 S2 ltac:(rewrite Sn, Sr; exact Harm) ltac:(rewrite Sk; exact Hkind) Hf1).
  destruct (run c s1 h) as [s2 os]. cbn [snd zip CtrlC10.c10_scan] in *.
  apply andb_true_iff. split; assumption.
Qed.

Record c10_wf (c : case) : Prop := mkC10Wf {
  cw_n : 1 <= k_n c <= 1000;
  cw_avg : avg_ok (k_n c) (k_avg0 c);
  cw_polls : Forall poll_ok (k_hist c);
}.

Definition c10_wfb (c : case) : bool :=
  (1 <=? k_n c) && (k_n c <=? 1000) && avg_okb (k_n c) (k_avg0 c) && forallb poll_okb (k_hist c).

Lemma c10_wfb_wf c : c10_wfb c = true -> c10_wf c.
Proof.
  unfold c10_wfb. rewrite !andb_true_iff, !Z.leb_le. intros [[[A B] C] D]. constructor.
  - lia.
  - apply avg_okb_ok; exact C.
  - rewrite forallb_forall in D. apply Forall_forall. intros e He. apply poll_okb_ok. auto.
Qed.

Lemma case_fan_avg c : fk (case_fan c) = HwMon -> rpm_avg (case_fan c) = k_avg0 c.
Proof.
  unfold case_fan. cbv zeta. match goal with |- context [SetRpmAvg ?f _] => set (f3 := f) end.
  intros Hk. destruct (SetRpmAvg_limits f3 (k_avg0 c)) as (_ & _ & _ & _ & _ & Ek). rewrite Ek in Hk.
  apply SetRpmAvg_hw; exact Hk.
Qed.

Lemma C10_model_passes_base c : base_wf c -> c10_wf c -> CtrlC10.holdsb (with_obs c (model_obs c)) = true.
Proof.
  intros W [Hn Havg Hpolls]. pose proof (base_init_inv c W) as I. destruct W as [Hpm Hout (A & B & C)].
  unfold CtrlC10.holdsb. cbv zeta.
  destruct (case_fan_static c) as (_ & Ek & En & Er).
  apply (c10_run (case_cfg c) (GetMinPwm (case_fan c)) (GetMaxPwm (case_fan c))); auto.
  - repeat split.
  - cbn. rewrite En, Er. intros H. rewrite andb_comm. exact H.
  - cbn. rewrite Ek. reflexivity.
  - intros Hk. cbn in Hk |- *. rewrite (case_fan_avg c Hk). exact Havg.
Qed.
