(* link of the third C10 observer (Drv/CtrlC10Keep.v): it demands a part of what the C02 observer demands, so the
   C02 links carry over *)
From Coq Require Import ZArith Bool List Floats Lia.
From F2G Require Import Model.Controller Drv.Common Drv.Ctrl Proofs.CtrlLinks.
From F2G Require Drv.CtrlC02 Drv.CtrlC10Keep.
Import ListNotations.
Open Scope Z_scope.

Lemma keep_of_c02_scan min0 : forall l prev,
  CtrlC02.c02_scan min0 prev l = true -> CtrlC10Keep.keep_scan (o_offset prev) l = true.
Proof.
  induction l as [|o r IH]; intros prev H; cbn [CtrlC02.c02_scan CtrlC10Keep.keep_scan] in *; [reflexivity|].
  apply andb_true_iff in H. destruct H as [H1 H2].
  unfold CtrlC02.c02_stepb in H1. rewrite !andb_true_iff in H1. destruct H1 as [[[_ B] _] _].
  rewrite B. cbn [andb]. apply IH. exact H2.
Qed.

Lemma keep_of_c02 c : CtrlC02.holdsb c = true -> CtrlC10Keep.holdsb c = true.
Proof.
  unfold CtrlC02.holdsb, CtrlC10Keep.holdsb. cbv zeta. intros H.
  exact (keep_of_c02_scan _ _ _ H).
Qed.

Theorem C10_keep_model_passes c : base_wf c -> CtrlC10Keep.holdsb (with_obs c (model_obs c)) = true.
Proof. intros W. apply keep_of_c02. apply C02_model_passes_base. exact W. Qed.

Theorem C10_keep_no_false_alarm c : mismatch c = false -> base_wf c -> CtrlC10Keep.holdsb c = true.
Proof. intros M W. rewrite <- (agree_with_obs c M) at 1. apply C10_keep_model_passes; exact W. Qed.
