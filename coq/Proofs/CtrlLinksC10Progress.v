(* C10 progress link: the model's own observations satisfy the raise-progress observer of
   Drv/CtrlC10Progress.v. In the model (plain direct algorithm, never-stop fan with RPM sensor, average
   below the threshold, same curve value) a raise happens at least every second control cycle: after a
   raise the re-mapped request is the raised one again (checked at once) or one below (restored, then
   checked in the next cycle) -- because the rescale into [lo+1, hi] differs from the one into [lo, hi]
   by 0 or 1 (exhaustive over 0..255 squared). *)
From Coq Require Import ZArith Bool List Floats Lia Sorting.Sorted.
From F2G Require Import Go.GoFloat gen.Consts Model.Util Model.Fan Model.ControlLoop Model.Controller
                        Proofs.Closest Proofs.Rescale Proofs.Ctrl Proofs.CtrlC04 Proofs.CtrlC10 Drv.Common Drv.Ctrl
                        Proofs.CtrlLinks Proofs.CtrlLinksC04 Proofs.CtrlLinksC10.
From F2G Require Drv.CtrlC10Progress.
Import ListNotations.
Open Scope Z_scope.

(* ---- G t (d-1) <= G t d <= G t (d-1) + 1 for 0 <= t <= 255, 1 <= d <= 255 (each G computed once) ---- *)
Fixpoint gd_scan (t : Z) (n : nat) (d prev : Z) : bool :=
  match n with
  | O => true
  | S k => let g := G t d in (prev <=? g) && (g <=? prev + 1) && gd_scan t k (d + 1) g
  end.

Definition gd_row (t : Z) : bool := gd_scan t 255 1 (G t 0).

Lemma gd_chk_true : upto 256 gd_row = true.
Proof. vm_compute. reflexivity. Qed.

Lemma gd_scan_spec t : forall n d0 prev, gd_scan t n d0 prev = true -> prev = G t (d0 - 1) ->
  forall d, d0 <= d < d0 + Z.of_nat n -> G t (d - 1) <= G t d <= G t (d - 1) + 1.
Proof.
  induction n as [|n IH]; intros d0 prev H Hp d Hd; [lia|].
  cbn [gd_scan] in H. cbv zeta in H. apply andb_true_iff in H. destruct H as [H H3].
  apply andb_true_iff in H. destruct H as [H1 H2]. apply Z.leb_le in H1, H2.
  destruct (Z.eq_dec d d0) as [->|N]; [subst prev; lia|].
  apply (IH (d0 + 1) (G t d0) H3); [f_equal; lia|lia].
Qed.

Lemma G_dstep t d : 0 <= t <= 255 -> 1 <= d <= 255 -> G t (d - 1) <= G t d <= G t (d - 1) + 1.
Proof.
  intros Ht Hd. pose proof (upto_spec _ _ gd_chk_true t ltac:(lia)) as C. unfold gd_row in C.
  apply (gd_scan_spec t 255 1 (G t 0) C eq_refl d). lia.
Qed.

Lemma steady_floor_step v lo hi : 0 <= lo -> lo + 1 <= hi -> hi <= 255 ->
  steady v lo hi <= steady v (lo + 1) hi <= steady v lo hi + 1.
Proof.
  intros H0 H1 H2. unfold steady. rewrite !rescale_c_G by lia.
  pose proof (G_dstep (clamp_target v) (hi - lo) (clamp_target_range v) ltac:(lia)).
  replace (hi - (lo + 1)) with (hi - lo - 1) by lia. lia.
Qed.

(* ---- calculateTargetPwm under the plain direct algorithm ---- *)
Lemma calc_target_dn c s i lo hi s1 r :
  inv lo hi s -> s_alg s = Direct None -> calc_target c s i = TOk s1 r ->
  exists v, ci_curve i = Some v /\
    ((s_offset s1 = s_offset s /\ r = steady v (lo + s_offset s) hi
      /\ ~ (has_rpm (s_fan s) && never_stop (s_fan s) = true /\ s_last s = Some (steady v (lo + s_offset s) hi)
            /\ stall_test (GetRpmAvg (s_fan s)) = true))
     \/ (s_offset s1 = s_offset s + 1 /\ r = steady v (lo + s_offset s) hi + 1
         /\ s_last s = Some (steady v (lo + s_offset s) hi))).
Proof.
  intros [Imin Imax _ _ _] Ha. unfold calc_target.
  destruct (match s_last s with Some l => Some l | None => _ end) as [cur0|]; [|discriminate].
  destruct (ci_curve i) as [v|]; [|discriminate]. rewrite Ha. cbn [alg_cycle]. rewrite Imin, Imax.
  unfold direct_cycle. rewrite clamp_target_clampZ. fold (steady v (lo + s_offset s) hi).
  set (S := steady v (lo + s_offset s) hi).
  destruct (has_rpm (s_fan s) && never_stop (s_fan s) && match s_last s with Some l => l =? S | None => false end
            && stall_test (GetRpmAvg (s_fan s))) eqn:C.
  - destruct (hi <=? S); [discriminate|]. intros E. injection E as Es1 Er. subst s1 r. exists v. split; auto. right. cbn [s_offset].
    repeat split; auto. apply andb_true_iff in C. destruct C as [C _]. apply andb_true_iff in C. destruct C as [_ C].
    destruct (s_last s) as [l|]; [|discriminate]. apply Z.eqb_eq in C. rewrite C. reflexivity.
  - intros E. injection E as Es1 Er. subst s1 r. exists v. split; auto. left. cbn [s_offset]. repeat split; auto.
    intros (A & B & D). rewrite A, B, D, Z.eqb_refl in C. discriminate.
Qed.

Import CtrlC10Progress.

Section Prog.
Variables (c : cfg) (lo hi : Z).
Hypotheses (Hlo : 0 <= lo) (Hhi : hi <= 255) (Hpm : pm_ok (c_pm c)).

Definition Sv (v off : Z) : Z := steady v (lo + off) hi.

(* where the current streak stands: the request is either the loop output for the current raise count
   (the next qualifying cycle raises) or one above it (the next one restores it, the one after raises) *)
Definition streak_ok (q : prog_st) (s : st) : Prop :=
  match g_curve q with
  | None => s_last s = None
  | Some v =>
      let off0 := if g_k q =? 0 then s_offset s else g_off0 q in
      let R := s_offset s - off0 in
      0 <= R /\ (g_k q =? 0 = false -> g_floor0 q = lo + g_off0 q)
      /\ exists l, s_last s = Some l
           /\ ((l = Sv v (s_offset s) /\ g_k q <= 2 * R + 1) \/ (l = Sv v (s_offset s) + 1 /\ g_k q <= 2 * R))
  end.

Definition PI (s : st) (q : prog_st) : Prop :=
  g_stopped q = negb (s_stopped s =? 0)
  /\ o_req (g_prev q) = s_last s /\ o_offset (g_prev q) = s_offset s /\ o_min (g_prev q) = lo
  /\ o_avg (g_prev q) = GetRpmAvg (s_fan s)
  /\ 0 <= g_k q
  /\ (s_stopped s = 0 -> g_moved q = false -> streak_ok q s).

Lemma prog_cycle s i q :
  inv lo hi s -> s_alg s = Direct None -> has_rpm (s_fan s) && never_stop (s_fan s) = true -> PI s q ->
  fst (prog_evb true hi q (Cycle i) (snd (step c s (Cycle i)))) = true
  /\ PI (fst (step c s (Cycle i))) (snd (prog_evb true hi q (Cycle i) (snd (step c s (Cycle i))))).
Proof.
  intros I Ha Harm (Ps & Pr & Po & Pm & Pa & Pk & Pstk).
  unfold prog_evb. rewrite Ps. cbn [negb]. rewrite orb_false_r.
  destruct (s_stopped s =? 0) eqn:Hrun; cbn [negb].
  2:{ cbn [step]. rewrite Hrun. cbn [negb fst snd]. split; [reflexivity|].
      destruct I as [Imin _ _ _ _]. unfold PI. cbn. rewrite Hrun. repeat split; auto; try lia.
      all: try (intros E; rewrite E in Hrun; discriminate). }
  pose proof (step_stopped c s (Cycle i) lo hi Hlo Hhi Hpm I) as SS. rewrite Hrun in SS. cbn [negb orb] in SS.
  pose proof (step_obs_state c s (Cycle i)) as SO.
  pose proof (step_obs_avg c s (Cycle i)) as SA.
  pose proof (step_spec c s (Cycle i) lo hi Hlo Hhi Hpm I) as SP.
  apply Z.eqb_eq in Hrun.
  pose proof (cycle_ok_shape c s i lo hi Hlo Hhi Hpm I Hrun) as Shape.
  destruct (step c s (Cycle i)) as [s' o]. cbn [fst snd] in *.
  destruct SO as (Oreq & Ooff & _). destruct SP as (I' & _ & _ & _ & _ & Omin).
  destruct (o_err o =? 0) eqn:Eerr; cbn [negb] in *.
  2:{ cbn [fst snd]. split; [reflexivity|]. unfold PI. cbn. repeat split; auto; try lia.
      all: try (intros E; rewrite E in SS; discriminate). }
  apply Z.eqb_eq in Eerr. destruct (Shape Eerr) as (s1 & r & ET & EL & EO & _). clear Shape.
  destruct (calc_target_dn c s i lo hi s1 r I Ha ET) as (v & Ev & Hcases).
  assert (Hst' : s_stopped s' = 0) by (apply negb_false_iff in SS; apply Z.eqb_eq in SS; exact SS).
  assert (Base : forall k off0 fl0, 0 <= k ->
            (s_stopped s' = 0 -> streak_ok (mkProg o k off0 fl0 (Some v) false false) s') ->
            PI s' (mkProg o k off0 fl0 (Some v) false false)).
  { intros k off0 fl0 Hk Hs. unfold PI. cbn [g_stopped g_prev g_k g_moved]. rewrite Hst'.
    split; [reflexivity|]. split; [exact Oreq|]. split; [exact Ooff|]. split; [exact Omin|]. split; [exact SA|].
    split; [exact Hk|]. intros _ _. apply Hs. exact Hst'. }
  destruct I' as [_ _ Ioff' Ifloor' _]. destruct I as [_ _ Ioff Ifloor _].
  (* the shape of the request after this cycle, whatever the streak *)
  assert (Fresh : exists l', s_last s' = Some l'
            /\ ((l' = Sv v (s_offset s') ) \/ (l' = Sv v (s_offset s') + 1))).
  { exists r. split; [exact EL|]. rewrite EO. unfold Sv.
    destruct Hcases as [(E1 & E2 & _)|(E1 & E2 & _)]; rewrite E1, E2; [left; reflexivity|].
    pose proof (steady_floor_step v (lo + s_offset s) hi ltac:(lia) ltac:(lia) Hhi).
    replace (lo + (s_offset s + 1)) with (lo + s_offset s + 1) by lia. lia. }
  cbv zeta. rewrite Pa, Pr, Po, Pm, Ev, Ooff.
  change (below1 (GetRpmAvg (s_fan s))) with (stall_test (GetRpmAvg (s_fan s))).
  destruct (stall_test (GetRpmAvg (s_fan s))
            && match g_curve q with Some a => a =? v | None => true end
            && negb (g_moved q) && is_some (s_last s)) eqn:EQ.
  - (* a qualifying cycle *)
    apply andb_true_iff in EQ. destruct EQ as [EQ Hsome]. apply andb_true_iff in EQ. destruct EQ as [EQ Hmv].
    apply andb_true_iff in EQ. destruct EQ as [Hstall Hsame]. apply negb_true_iff in Hmv.
    specialize (Pstk Hrun Hmv). unfold streak_ok in Pstk.
    destruct (g_curve q) as [a|]; [|rewrite Pstk in Hsome; discriminate].
    apply Z.eqb_eq in Hsame. subst a. cbv zeta in Pstk.
    destruct Pstk as (HR & Hfl & l & El & HAB).
    cbn [fst snd]. clear Hpm Ha Pa SA ET Ev Pr Po Pm Ps Oreq Omin SS Hsome Hmv Hst' Eerr Hrun.
    destruct (g_k q =? 0) eqn:Ek.
    + (* first cycle of the streak *)
      apply Z.eqb_eq in Ek. rewrite Ek in *.
      assert (Hoff' : s_offset s <= s_offset s') by (rewrite EO; destruct Hcases as [(E1 & _)|(E1 & _)]; lia).
      split.
      * apply andb_true_iff. split; apply Z.leb_le; lia.
      * apply Base; [lia|]. intros _. unfold streak_ok. cbn [g_curve g_k g_off0 g_floor0]. cbv zeta.
        change (0 + 1 =? 0) with false. cbv iota.
        split; [lia|]. split; [intros _; lia|].
        destruct Fresh as (l' & El' & HF). exists l'. split; [exact El'|].
        destruct HAB as [[ElA _]|[ElB _]].
        -- destruct Hcases as [(E1 & E2 & Hneg)|(E1 & E2 & E3)].
           ++ exfalso. apply Hneg. subst l. unfold Sv in El. auto.
           ++ destruct HF; [left|right]; split; auto; lia.
        -- destruct Hcases as [(E1 & E2 & _)|(E1 & E2 & E3)].
           ++ left. split; [|lia]. rewrite EL in El'. inversion El'. subst l'. rewrite EO, E1. exact E2.
           ++ exfalso. rewrite El in E3. inversion E3. unfold Sv in ElB. lia.
    + (* the streak continues *)
      specialize (Hfl eq_refl). apply Z.eqb_neq in Ek.
      assert (Hoff' : s_offset s <= s_offset s') by (rewrite EO; destruct Hcases as [(E1 & _)|(E1 & _)]; lia).
      destruct HAB as [[ElA HkA]|[ElB HkB]].
      * destruct Hcases as [(E1 & E2 & Hneg)|(E1 & E2 & E3)].
        { exfalso. apply Hneg. subst l. unfold Sv in El. auto. }
        assert (Eo' : s_offset s' = s_offset s + 1) by lia.
        split; [apply andb_true_iff; split; apply Z.leb_le; lia|].
        apply Base; [lia|]. intros _. unfold streak_ok. cbn [g_curve g_k g_off0 g_floor0]. cbv zeta.
        replace (g_k q + 1 =? 0) with false by (symmetry; apply Z.eqb_neq; lia). cbv iota.
        split; [lia|]. split; [intros _; exact Hfl|].
        destruct Fresh as (l' & El' & HF). exists l'. split; [exact El'|].
        destruct HF; [left|right]; split; auto; lia.
      * destruct Hcases as [(E1 & E2 & _)|(E1 & E2 & E3)].
        2:{ exfalso. rewrite El in E3. inversion E3. unfold Sv in ElB. lia. }
        assert (Eo' : s_offset s' = s_offset s) by lia.
        split; [apply andb_true_iff; split; apply Z.leb_le; lia|].
        apply Base; [lia|]. intros _. unfold streak_ok. cbn [g_curve g_k g_off0 g_floor0]. cbv zeta.
        replace (g_k q + 1 =? 0) with false by (symmetry; apply Z.eqb_neq; lia). cbv iota.
        split; [lia|]. split; [intros _; exact Hfl|].
        exists r. split; [exact EL|]. left. split; [rewrite Eo'; exact E2|lia].
  - (* not qualifying: a new streak may start after this cycle *)
    cbn [fst snd]. split; [reflexivity|].
    apply Base; [lia|]. intros _. unfold streak_ok. cbn [g_curve g_k g_off0 g_floor0]. cbv zeta.
    change (0 =? 0) with true. cbv iota.
    split; [lia|]. split; [intros E; discriminate|].
    destruct Fresh as (l' & El' & HF). exists l'. split; [exact El'|].
    destruct HF; [left|right]; split; auto; lia.
Qed.

Lemma prog_quiet s e q :
  match e with Cycle _ => False | _ => True end -> inv lo hi s -> PI s q ->
  fst (prog_evb true hi q e (snd (step c s e))) = true
  /\ PI (fst (step c s e)) (snd (prog_evb true hi q e (snd (step c s e)))).
Proof.
  intros He I (Ps & Pr & Po & Pm & Pa & Pk & Pstk).
  pose proof (step_spec c s e lo hi Hlo Hhi Hpm I) as SP.
  pose proof (step_obs_state c s e) as SO. pose proof (step_obs_avg c s e) as SA.
  assert (Keep : s_last (fst (step c s e)) = s_last s /\ s_offset (fst (step c s e)) = s_offset s
                 /\ s_stopped (fst (step c s e)) = s_stopped s)
    by (destruct e as [rpm|i|m p]; [|contradiction|]; cbn; auto).
  destruct (step c s e) as [s' o]. cbn [fst snd] in *.
  destruct SP as (_ & _ & _ & _ & _ & Omin). destruct SO as (Oreq & Ooff & _). destruct Keep as (K1 & K2 & K3).
  assert (Reset : PI s' (mkProg o 0 (o_offset o) 0 None true (g_stopped q))).
  { unfold PI. cbn [g_stopped g_prev g_k g_moved]. rewrite K3. repeat split; auto; try lia. all: try (intros _ E; discriminate). }
  destruct e as [[[| |]|]|i|m p]; [| | | |contradiction|]; cbn [prog_evb fst snd]; (split; [reflexivity|]); try exact Reset.
  unfold PI. cbn [g_stopped g_prev g_k g_moved]. rewrite K3.
  split; [exact Ps|]. split; [exact Oreq|]. split; [exact Ooff|]. split; [exact Omin|]. split; [exact SA|].
  split; [exact Pk|]. intros E1 E2. specialize (Pstk E1 E2). unfold streak_ok in *.
  cbn [g_curve g_k g_off0 g_floor0]. rewrite K1, K2. exact Pstk.
Qed.

Lemma prog_run : forall h s q,
  inv lo hi s -> s_alg s = Direct None -> has_rpm (s_fan s) && never_stop (s_fan s) = true -> PI s q ->
  prog_scan true hi q (zip h (snd (run c s h))) = true.
Proof.
  induction h as [|e h IH]; intros s q I Ha Harm P; [reflexivity|].
  cbn [run].
  assert (Hstep : fst (prog_evb true hi q e (snd (step c s e))) = true
                  /\ PI (fst (step c s e)) (snd (prog_evb true hi q e (snd (step c s e))))).
  { destruct e as [rpm|i|m p]; [apply prog_quiet|apply prog_cycle|apply prog_quiet]; auto; exact Logic.I. }
  pose proof (step_spec c s e lo hi Hlo Hhi Hpm I) as SP.
  pose proof (step_alg_direct c s e None Ha) as Ha1.
  pose proof (step_static c s e) as (_ & _ & Sn & Sr).
  destruct (step c s e) as [s1 o]. cbn [fst snd] in *. destruct SP as (I1 & _).
  destruct Hstep as [H1 H2].
  specialize (IH s1 (snd (prog_evb true hi q e o)) I1 Ha1 ltac:(rewrite Sn, Sr; exact Harm) H2).
  destruct (run c s1 h) as [s2 os]. cbn [snd zip prog_scan] in *.
  destruct (prog_evb true hi q e o) as [ok q']. cbn [fst snd] in *. subst ok. exact IH.
Qed.
End Prog.

Lemma prog_unarmed hi : forall l q, prog_scan false hi q l = true.
Proof.
  induction l as [|[e o] l IH]; intros q; [reflexivity|]. cbn [prog_scan].
  destruct e as [[[| |]|]|i|m p]; cbn [prog_evb negb]; rewrite ?orb_true_r; cbn [andb]; apply IH.
Qed.

Theorem C10_progress_model_passes c : base_wf c -> CtrlC10Progress.holdsb (with_obs c (model_obs c)) = true.
Proof.
  intros W. pose proof (base_init_inv c W) as I. destruct W as [Hpm Hout (A & B & C)].
  unfold CtrlC10Progress.holdsb. cbv zeta.
  change (k_alg (with_obs c (model_obs c))) with (k_alg c).
  change (k_never (with_obs c (model_obs c))) with (k_never c).
  change (k_has_rpm (with_obs c (model_obs c))) with (k_has_rpm c).
  destruct (k_never c && k_has_rpm c && match k_alg c with Direct None => true | _ => false end) eqn:Earm;
    [|apply prog_unarmed].
  apply andb_true_iff in Earm. destruct Earm as [Earm Ealg]. apply andb_true_iff in Earm. destruct Earm as [En Er].
  destruct (case_fan_static c) as (_ & _ & Fn & Fr).
  apply (prog_run (case_cfg c) (GetMinPwm (case_fan c)) (GetMaxPwm (case_fan c)) A C Hpm (k_hist c) (case_init c)); auto.
  - cbn. destruct (k_alg c) as [[cl|]|p|f]; try discriminate. reflexivity.
  - cbn [case_init init_st s_fan]. rewrite Fn, Fr, En, Er. reflexivity.
  - unfold PI. cbn. repeat split; auto. lia.
Qed.

Theorem C10_progress_no_false_alarm c : Ctrl.mismatch c = false -> base_wf c -> CtrlC10Progress.holdsb c = true.
Proof. intros M W. rewrite <- (agree_with_obs c M) at 1. apply C10_progress_model_passes; exact W. Qed.
