(* A Drv-style module over the `ctrl` case type that lets the correspondence check evaluate the
   well-formedness predicate of the observer links on every generated case:
   F (holdsb false) = generated cases outside [case_wfb] or whose map does not read back under k_q
   ([dev_wfb], needed by the C01 device-content link)  (expected: none),
   M (mismatch true) = cases on which the C04 link does not apply (default-PID settling rule). *)
From F2G Require Export Drv.Common gen.Consts Model.Util Model.Fan Model.ControlLoop Model.Controller Drv.Ctrl.
From F2G Require Import Proofs.CtrlLinksC04 Proofs.CtrlLinksAll Proofs.CtrlLinksC01Dev.

Definition holdsb (c : case) : bool := case_wfb c && dev_wfb c.
Definition mismatch (c : case) : bool := negb (alg_okb (k_alg c)).
Definition finding_code (c : case) : Z := 0.
