(* Float64 facts used by the curve proofs, through the Flocq bridge
   (Prim2B, *_equiv, B*_correct, round_le). *)
From Coq Require Import ZArith Reals Lia Lra Floats Uint63 Bool SpecFloat.
From Flocq Require Import Core BinarySingleNaN.
From Flocq Require PrimFloat.
Import Flocq.IEEE754.PrimFloat.
From F2G Require Import Go.GoFloat.
Open Scope Z_scope.

Notation fx := (fexp prec emax).
Notation rnd := (round radix2 fx ZnearestE).
Notation fin x := (BinarySingleNaN.is_finite (Prim2B x)).
Notation R_ x := (B2R (Prim2B x)).

Lemma fexp_valid : Valid_exp fx.
Proof. apply (fexp_correct prec emax). exact Hprec. Qed.
#[global] Existing Instance fexp_valid.

(* ---- float64(int) for 0 <= z < 2^63 ---- *)
Lemma rnd_two63 : rnd (IZR two63) = IZR two63.
Proof.
  apply round_generic; [apply valid_rnd_N|].
  replace (IZR two63) with (bpow radix2 63) by (simpl; unfold two63; lra).
  apply generic_format_bpow. unfold fexp, FLT_exp, emin, prec, emax. lia.
Qed.

Lemma of_nonneg_correct z : 0 <= z < two63 ->
  fin (i2f z) = true /\ R_ (i2f z) = rnd (IZR z).
Proof.
  intros Hz. unfold i2f. destruct (z <? 0) eqn:E; [apply Z.ltb_lt in E; lia|].
  rewrite of_int63_equiv.
  assert (Hphi : Uint63.to_Z (Uint63.of_Z z) = z).
  { symmetry. apply Uint63.is_int. change (2 ^ Uint63.to_Z Uint63.digits) with two63. exact Hz. }
  rewrite Hphi.
  pose proof (binary_normalize_correct prec emax Hprec Hmax mode_NE z 0 false) as C.
  cbv zeta in C.
  assert (F : F2R (Float radix2 z 0) = IZR z) by (unfold F2R; simpl; lra).
  rewrite F in C.
  rewrite Rlt_bool_true in C.
  - destruct C as (C1 & C2 & _). split; assumption.
  - change (round_mode mode_NE) with ZnearestE.
    assert (0 <= rnd (IZR z) <= IZR two63)%R.
    { split.
      - rewrite <- (round_0 radix2 fx ZnearestE). apply round_le; try typeclasses eauto. apply IZR_le. lia.
      - rewrite <- rnd_two63. apply round_le; try typeclasses eauto. apply IZR_le. lia. }
    rewrite Rabs_pos_eq by lra.
    apply Rle_lt_trans with (IZR two63); [lra|].
    change (bpow radix2 emax) with (IZR (2 ^ 1024)). apply IZR_lt. reflexivity.
Qed.

Lemma rnd_small z : Z.abs z < 2 ^ 53 -> rnd (IZR z) = IZR z.
Proof.
  intros Hz. apply round_generic; [apply valid_rnd_N|].
  apply generic_format_FLT. exists (Float radix2 z 0).
  - unfold F2R; simpl; lra.
  - simpl. exact Hz.
  - simpl. unfold emin, emax, prec. lia.
Qed.

Lemma i2f_nonneg_exact z : 0 <= z < 2 ^ 53 -> fin (i2f z) = true /\ R_ (i2f z) = IZR z.
Proof.
  intros Hz. destruct (of_nonneg_correct z) as [A B]; [unfold two63; lia|].
  split; [exact A|]. rewrite B. apply rnd_small. lia.
Qed.

(* monotone: float64 of a larger int is not smaller *)
Lemma i2f_nonneg_ge z c : 0 <= c <= z -> z < two63 -> Z.abs c < 2 ^ 53 ->
  fin (i2f z) = true /\ (IZR c <= R_ (i2f z))%R.
Proof.
  intros Hc Hz Hs. destruct (of_nonneg_correct z) as [A B]; [lia|].
  split; [exact A|]. rewrite B. rewrite <- (rnd_small c Hs).
  apply round_le; try typeclasses eauto. apply IZR_le. lia.
Qed.

(* ---- bridge for the Go-layer predicates ---- *)
Lemma fin_is_inf x : fin x = true -> is_inf x = false.
Proof.
  unfold is_inf. rewrite <- B2SF_Prim2B. destruct (Prim2B x); simpl; congruence.
Qed.

Lemma fin_is_nan x : fin x = true -> is_nan x = false.
Proof.
  intros F. unfold is_nan. rewrite eqb_equiv, Beqb_correct by assumption.
  unfold Req_bool. rewrite Rcompare_Eq by reflexivity. reflexivity.
Qed.

Lemma fin_ltb x y : fin x = true -> fin y = true -> PrimFloat.ltb x y = Rlt_bool (R_ x) (R_ y).
Proof. intros. rewrite ltb_equiv. now apply Bltb_correct. Qed.
Lemma fin_leb x y : fin x = true -> fin y = true -> PrimFloat.leb x y = Rle_bool (R_ x) (R_ y).
Proof. intros. rewrite leb_equiv. now apply Bleb_correct. Qed.
Lemma fin_eqb x y : fin x = true -> fin y = true -> PrimFloat.eqb x y = Req_bool (R_ x) (R_ y).
Proof. intros. rewrite eqb_equiv. now apply Beqb_correct. Qed.

Lemma R_255 : R_ 255%float = 255%R.
Proof. cbv -[IZR Rmult Rinv]. lra. Qed.
Lemma R_0 : R_ 0%float = 0%R.
Proof. reflexivity. Qed.

(* a finite float whose real value is that of a strictly finite constant IS that constant *)
Lemma R_inj_strict x c : fin x = true -> is_finite_strict (Prim2B c) = true ->
  R_ x = R_ c -> R_ c <> 0%R -> x = c.
Proof.
  intros F Sc E N. apply Prim2B_inj. apply B2R_inj; try assumption.
  destruct (Prim2B x); simpl in *; try congruence; exfalso; apply N; rewrite <- E; reflexivity.
Qed.

(* ---- math.Min(255, float64(sum)) and math.Max(0, float64(diff)) ---- *)
Lemma goMin_255_big z : 255 <= z < two63 -> f2i (goMin 255 (i2f z)) = 255.
Proof.
  intros Hz. destruct (i2f_nonneg_ge z 255) as [F G]; [lia|lia|reflexivity|].
  set (y := i2f z) in *.
  unfold goMin.
  change (is_inf 255 && sign_bit 255) with false. cbv iota.
  rewrite (fin_is_inf y F). cbv [andb].
  change (is_nan 255) with false. cbv iota. rewrite (fin_is_nan y F).
  change (PrimFloat.eqb 255 0) with false. cbv [andb].
  rewrite fin_ltb by (try assumption; reflexivity).
  rewrite R_255. case Rlt_bool_spec; intros C; [reflexivity|].
  assert (E : R_ y = R_ 255%float) by (rewrite R_255; lra).
  rewrite (R_inj_strict y 255%float F eq_refl E); [reflexivity|rewrite R_255; lra].
Qed.

Lemma i2f_neg_correct z : - two63 < z < 0 -> fin (i2f z) = true /\ (R_ (i2f z) <= -1)%R.
Proof.
  intros Hz. unfold i2f. destruct (z <? 0) eqn:E; [|apply Z.ltb_ge in E; lia].
  destruct (i2f_nonneg_ge (- z) 1) as [F G]; [lia|lia|reflexivity|].
  unfold i2f in F, G. destruct (- z <? 0) eqn:E2; [apply Z.ltb_lt in E2; lia|].
  rewrite opp_equiv. rewrite is_finite_Bopp, B2R_Bopp. split; [exact F|lra].
Qed.

Lemma goMax_0_neg z : - two63 < z < 0 -> f2i (goMax 0 (i2f z)) = 0.
Proof.
  intros Hz. destruct (i2f_neg_correct z Hz) as [F G]. set (y := i2f z) in *.
  unfold goMax.
  change (is_inf 0 && negb (sign_bit 0)) with false. cbv iota.
  rewrite (fin_is_inf y F). cbv [andb].
  change (is_nan 0) with false. cbv iota. rewrite (fin_is_nan y F).
  rewrite (fin_eqb y 0%float F eq_refl). rewrite R_0.
  unfold Req_bool. rewrite Rcompare_Lt by lra. change (PrimFloat.eqb 0 0) with true. cbv beta iota delta [andb].
  rewrite (fin_ltb y 0%float F eq_refl), R_0. rewrite Rlt_bool_true by lra. reflexivity.
Qed.
