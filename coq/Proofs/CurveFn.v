(* The function-curve aggregation switch (curves/functional.go) equals its documented
   integer meaning, for ANY number of members (< 2^40) whose values are in 0..255:
   sum capped at 255, difference floored at 0, delta = largest - smallest, minimum, maximum,
   integer mean.  Float steps on 0..255 are settled exhaustively (65 536 pairs each, by
   computation, lifted with the Leibniz float equality); float64(sum) >= 255 and
   float64(difference) < 0 for unbounded operands go through Proofs/CurveFloat.v. *)
From Coq Require Import ZArith Bool List Floats Lia.
From F2G Require Import Go.GoFloat Model.Util Model.Curves Proofs.CurveFloat.
Import ListNotations.
Open Scope Z_scope.

(* ---- the documented integer meaning ---- *)
Definition sumZ (vs : list Z) : Z := fold_left Z.add vs 0.
Definition minZ (vs : list Z) (start : Z) : Z := fold_left Z.min vs start.
Definition maxZ (vs : list Z) (start : Z) : Z := fold_left Z.max vs start.

Definition agg_spec (ty : fty) (vs : list Z) : Z :=
  match ty with
  | FSum => Z.min 255 (sumZ vs)
  | FDifference => match vs with [] => 0 | v :: r => Z.max 0 (v - sumZ r) end
  | FDelta => match vs with [] => 0 | v :: _ => maxZ vs v - minZ vs v end
  | FMinimum => minZ vs 255
  | FMaximum => maxZ vs 0
  | FAverage => sumZ vs / Z.of_nat (length vs)
  end.

Definition in255 (v : Z) : Prop := 0 <= v <= 255.
Definition small_len (vs : list Z) : Prop := Z.of_nat (length vs) < 2 ^ 40.

(* ---- exhaustive float facts on 0..255 ---- *)
Fixpoint upto (n : nat) (f : Z -> bool) : bool :=
  match n with O => true | S k => f (Z.of_nat k) && upto k f end.

Lemma upto_spec n f : upto n f = true -> forall z, 0 <= z < Z.of_nat n -> f z = true.
Proof.
  induction n as [|k IH]; intros H z Hz; [lia|].
  cbn [upto] in H. apply andb_true_iff in H. destruct H as [H1 H2].
  destruct (Z.eq_dec z (Z.of_nat k)) as [->|N]; [exact H1|]. apply IH; auto. lia.
Qed.

Definition dsub_ok (lo hi : Z) : bool :=
  (hi <? lo) || PrimFloat.Leibniz.eqb (PrimFloat.sub (i2f hi) (i2f lo)) (i2f (hi - lo)).
Lemma dsub_chk : upto 256 (fun lo => upto 256 (fun hi => dsub_ok lo hi)) = true.
Proof. vm_compute. reflexivity. Qed.
Lemma sub_exact lo hi : 0 <= lo -> lo <= hi -> hi <= 255 ->
  PrimFloat.sub (i2f hi) (i2f lo) = i2f (hi - lo).
Proof.
  intros H0 H1 H2.
  pose proof (upto_spec _ _ (upto_spec _ _ dsub_chk lo ltac:(lia)) hi ltac:(lia)) as C. unfold dsub_ok in C.
  apply orb_true_iff in C. destruct C as [C|C]; [apply Z.ltb_lt in C; lia|now apply FloatAxioms.Leibniz.eqb_spec].
Qed.

Definition fz_ok (a : Z) : bool := f2i (i2f a) =? a.
Lemma fz_chk : upto 256 fz_ok = true.
Proof. vm_compute. reflexivity. Qed.
Lemma f2i_i2f a : 0 <= a <= 255 -> f2i (i2f a) = a.
Proof. intros H. apply Z.eqb_eq. exact (upto_spec _ _ fz_chk a ltac:(lia)). Qed.

Definition mm_ok (a v : Z) : bool :=
  PrimFloat.Leibniz.eqb (goMin (i2f a) (i2f v)) (i2f (Z.min a v))
  && PrimFloat.Leibniz.eqb (goMax (i2f a) (i2f v)) (i2f (Z.max a v)).
Lemma mm_chk : upto 256 (fun a => upto 256 (fun v => mm_ok a v)) = true.
Proof. vm_compute. reflexivity. Qed.
Lemma mm_all a v : 0 <= a <= 255 -> 0 <= v <= 255 ->
  goMin (i2f a) (i2f v) = i2f (Z.min a v) /\ goMax (i2f a) (i2f v) = i2f (Z.max a v).
Proof.
  intros Ha Hv. pose proof (upto_spec _ _ (upto_spec _ _ mm_chk a ltac:(lia)) v ltac:(lia)) as C.
  unfold mm_ok in C. apply andb_true_iff in C. destruct C as [C1 C2].
  split; now apply FloatAxioms.Leibniz.eqb_spec.
Qed.

Definition cap_ok (s : Z) : bool :=
  (f2i (goMin 255 (i2f s)) =? Z.min 255 s) && (f2i (goMax 0 (i2f s)) =? Z.max 0 s).
Lemma cap_chk : upto 256 cap_ok = true.
Proof. vm_compute. reflexivity. Qed.
Lemma cap_small s : 0 <= s <= 255 ->
  f2i (goMin 255 (i2f s)) = Z.min 255 s /\ f2i (goMax 0 (i2f s)) = Z.max 0 s.
Proof.
  intros H. pose proof (upto_spec _ _ cap_chk s ltac:(lia)) as C. unfold cap_ok in C.
  apply andb_true_iff in C. destruct C as [C1 C2]. split; now apply Z.eqb_eq.
Qed.

Lemma i2f64_i2f z : - two63 < z -> i2f64 z = i2f z.
Proof. intros H. unfold i2f64. destruct (z =? - two63) eqn:E; [apply Z.eqb_eq in E; lia|reflexivity]. Qed.

Lemma wrap64_id z : - two63 <= z < two63 -> wrap64 z = z.
Proof. intros H. unfold wrap64, two64, two63 in *. rewrite Z.mod_small; lia. Qed.

(* ---- integer folds ---- *)
Lemma sumZ_from vs : forall a, fold_left Z.add vs a = a + sumZ vs.
Proof.
  unfold sumZ. induction vs as [|v r IH]; intros a; cbn [fold_left]; [lia|].
  rewrite IH, (IH (0 + v)). lia.
Qed.

Lemma sumZ_bounds vs : Forall in255 vs -> 0 <= sumZ vs <= 255 * Z.of_nat (length vs).
Proof.
  induction 1 as [|v r Hv Hr IH]; [cbn; lia|].
  unfold sumZ in *. cbn [fold_left length]. rewrite sumZ_from. unfold in255 in Hv. unfold sumZ. lia.
Qed.

Lemma isum_from vs : forall a, Forall in255 vs -> 0 <= a -> a + 255 * Z.of_nat (length vs) < two63 ->
  fold_left (fun a v => wrap64 (a + v)) vs a = a + sumZ vs.
Proof.
  induction vs as [|v r IH]; intros a Hvs Ha Hb; [unfold sumZ; cbn; lia|].
  inversion Hvs as [|? ? Hv Hr]; subst. unfold in255 in Hv.
  cbn [fold_left]. cbn [length] in Hb. rewrite wrap64_id by (unfold two63 in *; lia).
  rewrite IH; [|assumption|lia|lia]. unfold sumZ at 2. cbn [fold_left]. rewrite (sumZ_from r (0 + v)). lia.
Qed.

Lemma isum_sumZ vs : Forall in255 vs -> small_len vs -> isum vs = sumZ vs.
Proof.
  intros H L. unfold isum. rewrite isum_from; [lia|assumption|lia|]. unfold small_len, two63 in *. lia.
Qed.

Lemma idiff_from r : forall a, Forall in255 r -> a <= 255 -> - two63 < a - 255 * Z.of_nat (length r) ->
  fold_left (fun a x => wrap64 (a - x)) r a = a - sumZ r.
Proof.
  induction r as [|v r IH]; intros a Hvs Ha Hb; [unfold sumZ; cbn; lia|].
  inversion Hvs as [|? ? Hv Hr]; subst. unfold in255 in Hv.
  cbn [fold_left]. cbn [length] in Hb. rewrite wrap64_id by (unfold two63 in *; lia).
  rewrite IH; [|assumption|lia|lia]. unfold sumZ at 2. cbn [fold_left]. rewrite (sumZ_from r (0 + v)). lia.
Qed.

(* ---- the six theorems ---- *)
Theorem fn_sum vs : Forall in255 vs -> small_len vs -> agg FSum vs = Val (Z.min 255 (sumZ vs)).
Proof.
  intros H L. unfold agg. rewrite isum_sumZ by assumption.
  pose proof (sumZ_bounds vs H) as B. unfold small_len in L.
  rewrite i2f64_i2f by (unfold two63; lia). f_equal.
  destruct (Z_le_gt_dec (sumZ vs) 255) as [S|S].
  - now destruct (cap_small (sumZ vs) ltac:(lia)) as [C _].
  - rewrite goMin_255_big by (unfold two63; lia). lia.
Qed.

Theorem fn_difference v r : in255 v -> Forall in255 r -> small_len r ->
  agg FDifference (v :: r) = Val (Z.max 0 (v - sumZ r)).
Proof.
  intros Hv H L. unfold agg, idiff. unfold in255 in Hv. unfold small_len in L.
  pose proof (sumZ_bounds r H) as B.
  rewrite idiff_from; [|assumption|lia|unfold two63; lia].
  rewrite i2f64_i2f by (unfold two63; lia). f_equal.
  destruct (Z_le_gt_dec 0 (v - sumZ r)) as [S|S].
  - now destruct (cap_small (v - sumZ r) ltac:(lia)) as [_ C].
  - rewrite goMax_0_neg by (unfold two63; lia). lia.
Qed.

Lemma fmin_fold_Z vs : forall a, 0 <= a <= 255 -> Forall in255 vs ->
  fmin_fold vs (i2f a) = i2f (minZ vs a) /\ 0 <= minZ vs a <= 255.
Proof.
  unfold fmin_fold, minZ. induction vs as [|v r IH]; intros a Ha H; [cbn; auto|].
  inversion H as [|? ? Hv Hr]; subst. unfold in255 in Hv. cbn [fold_left].
  rewrite i2f64_i2f by (unfold two63; lia).
  destruct (mm_all a v Ha Hv) as [-> _]. apply IH; [lia|assumption].
Qed.

Lemma fmax_fold_Z vs : forall a, 0 <= a <= 255 -> Forall in255 vs ->
  fmax_fold vs (i2f a) = i2f (maxZ vs a) /\ 0 <= maxZ vs a <= 255.
Proof.
  unfold fmax_fold, maxZ. induction vs as [|v r IH]; intros a Ha H; [cbn; auto|].
  inversion H as [|? ? Hv Hr]; subst. unfold in255 in Hv. cbn [fold_left].
  rewrite i2f64_i2f by (unfold two63; lia).
  destruct (mm_all a v Ha Hv) as [_ ->]. apply IH; [lia|assumption].
Qed.

Theorem fn_minimum vs : Forall in255 vs -> agg FMinimum vs = Val (minZ vs 255).
Proof.
  intros H. unfold agg. change 255%float with (i2f 255).
  destruct (fmin_fold_Z vs 255 ltac:(lia) H) as [-> B]. now rewrite f2i_i2f.
Qed.

Theorem fn_maximum vs : Forall in255 vs -> agg FMaximum vs = Val (maxZ vs 0).
Proof.
  intros H. unfold agg. change 0%float with (i2f 0).
  destruct (fmax_fold_Z vs 0 ltac:(lia) H) as [-> B]. now rewrite f2i_i2f.
Qed.

Lemma minZ_le vs : forall a, minZ vs a <= a.
Proof. unfold minZ. induction vs as [|v r IH]; intros a; cbn [fold_left]; [lia|]. specialize (IH (Z.min a v)). lia. Qed.
Lemma maxZ_ge vs : forall a, a <= maxZ vs a.
Proof. unfold maxZ. induction vs as [|v r IH]; intros a; cbn [fold_left]; [lia|]. specialize (IH (Z.max a v)). lia. Qed.

Theorem fn_delta v r : Forall in255 (v :: r) ->
  agg FDelta (v :: r) = Val (maxZ (v :: r) v - minZ (v :: r) v).
Proof.
  intros H. unfold agg. inversion H as [|? ? Hv Hr]; subst. unfold in255 in Hv.
  rewrite i2f64_i2f by (unfold two63; lia).
  destruct (fmax_fold_Z (v :: r) v Hv H) as [-> B1].
  destruct (fmin_fold_Z (v :: r) v Hv H) as [-> B2].
  pose proof (minZ_le (v :: r) v). pose proof (maxZ_ge (v :: r) v).
  rewrite sub_exact by lia. rewrite f2i_i2f by lia. reflexivity.
Qed.

Theorem fn_average vs : vs <> [] -> Forall in255 vs -> small_len vs ->
  agg FAverage vs = Val (sumZ vs / Z.of_nat (length vs)).
Proof.
  intros N H L. unfold agg. destruct vs as [|v r]; [congruence|].
  rewrite isum_sumZ by assumption. pose proof (sumZ_bounds (v :: r) H).
  rewrite Z.quot_div_nonneg; [reflexivity|lia|cbn [length]; lia].
Qed.

(* all six at once, and the range *)
Theorem agg_is_spec ty vs : vs <> [] -> Forall in255 vs -> small_len vs -> agg ty vs = Val (agg_spec ty vs).
Proof.
  intros N H L. destruct ty; unfold agg_spec.
  - now apply fn_sum.
  - destruct vs as [|v r]; [congruence|]. inversion H; subst.
    apply fn_difference; auto. unfold small_len in *. cbn [length] in L. lia.
  - destruct vs as [|v r]; [congruence|]. now apply fn_delta.
  - now apply fn_minimum.
  - now apply fn_maximum.
  - now apply fn_average.
Qed.

Lemma minZ_ge_all vs : forall a lo, lo <= a -> Forall (fun v => lo <= v) vs -> lo <= minZ vs a.
Proof.
  unfold minZ. induction vs as [|v r IH]; intros a lo Ha H; cbn [fold_left]; [lia|].
  inversion H; subst. apply IH; [lia|assumption].
Qed.
Lemma maxZ_le_all vs : forall a hi, a <= hi -> Forall (fun v => v <= hi) vs -> maxZ vs a <= hi.
Proof.
  unfold maxZ. induction vs as [|v r IH]; intros a hi Ha H; cbn [fold_left]; [lia|].
  inversion H; subst. apply IH; [lia|assumption].
Qed.

Theorem agg_spec_range ty vs : vs <> [] -> Forall in255 vs -> 0 <= agg_spec ty vs <= 255.
Proof.
  intros N H. pose proof (sumZ_bounds vs H) as B.
  assert (Hlo : Forall (fun v => 0 <= v) vs) by (eapply Forall_impl; [|exact H]; unfold in255; intros; lia).
  assert (Hhi : Forall (fun v => v <= 255) vs) by (eapply Forall_impl; [|exact H]; unfold in255; intros; lia).
  destruct ty; unfold agg_spec.
  - lia.
  - destruct vs as [|v r]; [congruence|]. inversion H as [|? ? Hv Hr]; subst. unfold in255 in Hv.
    pose proof (sumZ_bounds r Hr). lia.
  - destruct vs as [|v r]; [congruence|]. inversion H as [|? ? Hv Hr]; subst. unfold in255 in Hv.
    pose proof (minZ_le (v :: r) v). pose proof (maxZ_ge (v :: r) v).
    pose proof (minZ_ge_all (v :: r) v 0 ltac:(lia) Hlo). pose proof (maxZ_le_all (v :: r) v 255 ltac:(lia) Hhi). lia.
  - pose proof (minZ_le vs 255). pose proof (minZ_ge_all vs 255 0 ltac:(lia) Hlo). lia.
  - pose proof (maxZ_ge vs 0). pose proof (maxZ_le_all vs 0 255 ltac:(lia) Hhi). lia.
  - destruct vs as [|v r]; [congruence|].
    assert (0 < Z.of_nat (length (v :: r))) by (cbn [length]; lia).
    split; [apply Z.div_pos; lia|]. apply Z.div_le_upper_bound; lia.
Qed.

(* ---- C07_fn: sum / max / min / average preserve the pointwise order ---- *)
Lemma sumZ_mono vs vs' : Forall2 Z.le vs vs' -> sumZ vs <= sumZ vs'.
Proof.
  induction 1 as [|v v' r r' Hv Hr IH]; [lia|].
  unfold sumZ in *. cbn [fold_left]. rewrite (sumZ_from r), (sumZ_from r'). unfold sumZ. lia.
Qed.
Lemma minZ_mono vs vs' : Forall2 Z.le vs vs' -> forall a a', a <= a' -> minZ vs a <= minZ vs' a'.
Proof.
  unfold minZ. induction 1 as [|v v' r r' Hv Hr IH]; intros a a' Ha; cbn [fold_left]; [lia|]. apply IH. lia.
Qed.
Lemma maxZ_mono vs vs' : Forall2 Z.le vs vs' -> forall a a', a <= a' -> maxZ vs a <= maxZ vs' a'.
Proof.
  unfold maxZ. induction 1 as [|v v' r r' Hv Hr IH]; intros a a' Ha; cbn [fold_left]; [lia|]. apply IH. lia.
Qed.

Lemma Forall2_len {A B} (R : A -> B -> Prop) l l' : Forall2 R l l' -> length l = length l'.
Proof. induction 1; cbn; congruence. Qed.

Definition mono_ty (ty : fty) : Prop := ty = FSum \/ ty = FMaximum \/ ty = FMinimum \/ ty = FAverage.

Theorem agg_spec_mono ty vs vs' : mono_ty ty -> Forall2 Z.le vs vs' -> agg_spec ty vs <= agg_spec ty vs'.
Proof.
  intros M H. pose proof (sumZ_mono _ _ H) as S.
  destruct M as [ -> | [ -> | [ -> | -> ] ] ]; unfold agg_spec.
  - lia.
  - apply maxZ_mono; [assumption|lia].
  - apply minZ_mono; [assumption|lia].
  - rewrite <- (Forall2_len _ _ _ H).
    destruct (Z.eq_dec (Z.of_nat (length vs)) 0) as [->|N]; [rewrite !Zdiv_0_r; lia|].
    apply Z.div_le_mono; lia.
Qed.
