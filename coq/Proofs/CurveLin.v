(* Linear curve, min/max form: for ALL float temperatures (not a grid) the value is in 0..255
   and does not decrease with the temperature; 255 at/above max, 0 at/below min.  Every float
   operation of the ramp is followed through the Flocq bridge: subtraction, division and
   multiplication round monotonically (round_le), truncation is monotone (Ztrunc_le). *)
From Coq Require Import ZArith Reals Lia Lra Floats Uint63 Bool SpecFloat.
From Flocq Require Import Core BinarySingleNaN Plus_error.
From Flocq Require PrimFloat.
Import Flocq.IEEE754.PrimFloat.
From F2G Require Import Go.GoFloat Proofs.CurveFloat.
Open Scope Z_scope.

#[global] Instance fx_monotone : Monotone_exp fx.
Proof. unfold fexp. apply FLT_exp_monotone. Qed.

(* ---- int(x) = truncation of the real value ---- *)
Lemma f2i_trunc y : fin y = true -> (Rabs (R_ y) < IZR two63)%R -> f2i y = Ztrunc (R_ y).
Proof.
  intros F B. unfold f2i. rewrite <- B2SF_Prim2B.
  destruct (Prim2B y) as [s|s| |s m e Hb]; try discriminate.
  - simpl. now rewrite Ztrunc_IZR.
  - cbn [B2SF B2R] in *.
    assert (Hm : (0 < IZR (Z.pos m))%R) by (apply IZR_lt; lia).
    destruct (0 <=? e) eqn:E.
    + apply Z.leb_le in E.
      assert (V : F2R (Float radix2 (cond_Zopp s (Z.pos m)) e) = IZR (cond_Zopp s (Z.pos m) * 2 ^ e)).
      { unfold F2R. cbn [Fnum Fexp]. rewrite mult_IZR. f_equal. now rewrite (IZR_Zpower radix2). }
      rewrite V in *. rewrite Ztrunc_IZR. rewrite <- abs_IZR in B. apply lt_IZR in B.
      set (mag := Z.pos m * 2 ^ e) in *.
      assert (Hc : cond_Zopp s (Z.pos m) * 2 ^ e = if s then - mag else mag) by (destruct s; subst mag; cbn [cond_Zopp]; lia).
      rewrite Hc in *.
      destruct s.
      * destruct ((- mag <? - two63) || (two63 <=? - mag)) eqn:C; [|reflexivity].
        apply orb_true_iff in C. rewrite Z.ltb_lt, Z.leb_le in C. lia.
      * destruct ((mag <? - two63) || (two63 <=? mag)) eqn:C; [|reflexivity].
        apply orb_true_iff in C. rewrite Z.ltb_lt, Z.leb_le in C. lia.
    + apply Z.leb_gt in E.
      set (d := 2 ^ (- e)). assert (Hd : 0 < d) by (subst d; apply Z.pow_pos_nonneg; lia).
      assert (V : F2R (Float radix2 (cond_Zopp s (Z.pos m)) e) = (IZR (cond_Zopp s (Z.pos m)) / IZR d)%R).
      { unfold F2R. cbn [Fnum Fexp]. unfold Rdiv. f_equal.
        replace e with (- - e) at 1 by lia. rewrite bpow_opp. f_equal. subst d. now rewrite (IZR_Zpower radix2) by lia. }
      rewrite V in *.
      assert (Q : Zfloor (IZR (Z.pos m) / IZR d) = Z.pos m / d) by (apply Zfloor_div; lia).
      assert (P : (0 <= IZR (Z.pos m) / IZR d)%R).
      { apply Rmult_le_pos; [lra|]. apply Rlt_le, Rinv_0_lt_compat, IZR_lt. lia. }
      assert (Mb : Z.pos m / d < two63).
      { rewrite <- Q. apply lt_IZR. apply Rle_lt_trans with (IZR (Z.pos m) / IZR d)%R; [apply Zfloor_lb|].
        destruct s; cbn [cond_Zopp] in B.
        - rewrite opp_IZR in B. unfold Rdiv in B. rewrite Ropp_mult_distr_l_reverse, Rabs_Ropp in B.
          rewrite Rabs_pos_eq in B; assumption.
        - rewrite Rabs_pos_eq in B; assumption. }
      assert (M0 : 0 <= Z.pos m / d) by (apply Z.div_pos; lia).
      destruct s; cbn [cond_Zopp].
      * rewrite opp_IZR. unfold Rdiv. rewrite Ropp_mult_distr_l_reverse, Ztrunc_opp.
        rewrite Ztrunc_floor by exact P. unfold Rdiv in Q. rewrite Q.
        destruct ((- (Z.pos m / d) <? - two63) || (two63 <=? - (Z.pos m / d))) eqn:C; [|reflexivity].
        apply orb_true_iff in C. rewrite Z.ltb_lt, Z.leb_le in C. unfold two63 in *. lia.
      * rewrite Ztrunc_floor by exact P. rewrite Q.
        destruct ((Z.pos m / d <? - two63) || (two63 <=? Z.pos m / d)) eqn:C; [|reflexivity].
        apply orb_true_iff in C. rewrite Z.ltb_lt, Z.leb_le in C. unfold two63 in *. lia.
Qed.

(* ---- rounded operations that cannot overflow ---- *)
Lemma rnd_abs_le z e : (e < emax)%Z -> (emin prec emax <= e)%Z -> (Rabs z <= bpow radix2 e)%R -> (Rabs (rnd z) < bpow radix2 emax)%R.
Proof.
  intros He He' Hz. apply Rle_lt_trans with (bpow radix2 e); [|now apply bpow_lt].
  apply abs_round_le_generic; try typeclasses eauto; [|exact Hz].
  apply generic_format_bpow. unfold fexp, FLT_exp, emin, prec, emax in *. lia.
Qed.

Lemma fsub_correct x y e : fin x = true -> fin y = true -> (-1000 <= e < emax)%Z ->
  (Rabs (R_ x - R_ y) <= bpow radix2 e)%R ->
  fin (PrimFloat.sub x y) = true /\ R_ (PrimFloat.sub x y) = rnd (R_ x - R_ y).
Proof.
  intros Fx Fy He Hb. rewrite sub_equiv.
  pose proof (Bminus_correct prec emax Hprec Hmax mode_NE (Prim2B x) (Prim2B y) Fx Fy) as C.
  rewrite Rlt_bool_true in C by (apply (rnd_abs_le _ e); unfold emin, prec, emax in *; try lia; exact Hb).
  destruct C as (C1 & C2 & _). split; assumption.
Qed.

Lemma fmul_correct x y e : fin x = true -> fin y = true -> (-1000 <= e < emax)%Z ->
  (Rabs (R_ x * R_ y) <= bpow radix2 e)%R ->
  fin (PrimFloat.mul x y) = true /\ R_ (PrimFloat.mul x y) = rnd (R_ x * R_ y).
Proof.
  intros Fx Fy He Hb. rewrite mul_equiv.
  pose proof (Bmult_correct prec emax Hprec Hmax mode_NE (Prim2B x) (Prim2B y)) as C.
  rewrite Rlt_bool_true in C by (apply (rnd_abs_le _ e); unfold emin, prec, emax in *; try lia; exact Hb).
  destruct C as (C1 & C2 & _). rewrite Fx, Fy in C2. split; assumption.
Qed.

Lemma fdiv_correct x y e : fin x = true -> fin y = true -> R_ y <> 0%R -> (-1000 <= e < emax)%Z ->
  (Rabs (R_ x / R_ y) <= bpow radix2 e)%R ->
  fin (PrimFloat.div x y) = true /\ R_ (PrimFloat.div x y) = rnd (R_ x / R_ y).
Proof.
  intros Fx Fy Ny He Hb. rewrite div_equiv.
  pose proof (Bdiv_correct prec emax Hprec Hmax mode_NE (Prim2B x) (Prim2B y) Ny) as C.
  rewrite Rlt_bool_true in C by (apply (rnd_abs_le _ e); unfold emin, prec, emax in *; try lia; exact Hb).
  destruct C as (C1 & C2 & _). rewrite Fx in C2. split; assumption.
Qed.

Lemma rnd_le a b : (a <= b)%R -> (rnd a <= rnd b)%R.
Proof. apply round_le; typeclasses eauto. Qed.
Lemma rnd_0 : rnd 0 = 0%R.
Proof. apply round_0. typeclasses eauto. Qed.
Lemma rnd_int z : Z.abs z < 2 ^ 53 -> rnd (IZR z) = IZR z.
Proof. apply rnd_small. Qed.
Lemma fmt_R x : generic_format radix2 fx (R_ x).
Proof. apply generic_format_B2R. Qed.

(* the difference of two distinct floats never rounds to zero *)
Lemma rnd_sub_pos x y : (R_ y < R_ x)%R -> (0 < rnd (R_ x - R_ y))%R.
Proof.
  intros H. assert (N : rnd (R_ x + - R_ y) <> 0%R).
  { apply round_plus_neq_0; try typeclasses eauto.
    - apply fmt_R.
    - apply generic_format_opp, fmt_R.
    - lra. }
  assert (G : (0 <= rnd (R_ x - R_ y))%R) by (rewrite <- rnd_0; apply rnd_le; lra).
  unfold Rminus in *. destruct G as [G|G]; [exact G|exfalso; apply N; symmetry; exact G].
Qed.

(* ---- the ramp ---- *)
Section Ramp.
  Variables lo hi : f64.
  Hypothesis Flo : fin lo = true.
  Hypothesis Fhi : fin hi = true.
  Hypothesis Blo : (Rabs (R_ lo) <= bpow radix2 100)%R.
  Hypothesis Bhi : (Rabs (R_ hi) <= bpow radix2 100)%R.

  Definition ramp (T : f64) : Z :=
    if PrimFloat.leb hi T then 255
    else if PrimFloat.leb T lo then 0
    else f2i (PrimFloat.mul (PrimFloat.div (PrimFloat.sub T lo) (PrimFloat.sub hi lo)) 255).

  (* the real-number shadow of the middle branch *)
  Definition Bw : R := rnd (R_ hi - R_ lo).
  Definition gR (t : R) : R := rnd (rnd (rnd (t - R_ lo) / Bw) * 255).

  Lemma bpow101 : (bpow radix2 100 + bpow radix2 100 = bpow radix2 101)%R.
  Proof. change 101 with (100 + 1). rewrite bpow_plus. replace (bpow radix2 1) with 2%R by (simpl; lra). lra. Qed.

  Lemma mid_facts T : fin T = true -> (R_ lo < R_ T < R_ hi)%R ->
    let p := PrimFloat.mul (PrimFloat.div (PrimFloat.sub T lo) (PrimFloat.sub hi lo)) 255 in
    fin p = true /\ R_ p = gR (R_ T) /\ (0 <= gR (R_ T) <= 255)%R.
  Proof.
    intros FT [H1 H2]. cbv zeta.
    assert (BT : (Rabs (R_ T) <= bpow radix2 100)%R).
    { apply Rabs_le. apply Rabs_le_inv in Blo, Bhi. lra. }
    assert (Ba : (Rabs (R_ T - R_ lo) <= bpow radix2 101)%R).
    { rewrite <- bpow101. apply Rabs_le. apply Rabs_le_inv in Blo, Bhi, BT. lra. }
    assert (Bb : (Rabs (R_ hi - R_ lo) <= bpow radix2 101)%R).
    { rewrite <- bpow101. apply Rabs_le. apply Rabs_le_inv in Blo, Bhi. lra. }
    destruct (fsub_correct T lo 101 FT Flo ltac:(unfold emax; lia) Ba) as [Fa Ra].
    destruct (fsub_correct hi lo 101 Fhi Flo ltac:(unfold emax; lia) Bb) as [Fb Rb].
    fold Bw in Rb.
    assert (Pa : (0 < R_ (PrimFloat.sub T lo))%R) by (rewrite Ra; apply rnd_sub_pos; lra).
    assert (Pb : (0 < Bw)%R) by (apply rnd_sub_pos; lra).
    assert (Lab : (R_ (PrimFloat.sub T lo) <= Bw)%R) by (rewrite Ra; apply rnd_le; lra).
    assert (Q01 : (0 <= R_ (PrimFloat.sub T lo) / Bw <= 1)%R).
    { split; [apply Rmult_le_pos; [lra|apply Rlt_le, Rinv_0_lt_compat; lra]|].
      apply Rmult_le_reg_r with Bw; [lra|]. unfold Rdiv. rewrite Rmult_assoc, Rinv_l by lra. lra. }
    assert (Bq : (Rabs (R_ (PrimFloat.sub T lo) / R_ (PrimFloat.sub hi lo)) <= bpow radix2 0)%R).
    { rewrite Rb. simpl bpow. apply Rabs_le. lra. }
    destruct (fdiv_correct _ _ 0 Fa Fb ltac:(rewrite Rb; lra) ltac:(unfold emax; lia) Bq) as [Fq Rq].
    rewrite Rb in Rq.
    assert (Q01' : (0 <= R_ (PrimFloat.div (PrimFloat.sub T lo) (PrimFloat.sub hi lo)) <= 1)%R).
    { rewrite Rq. split; [rewrite <- rnd_0; apply rnd_le; lra|].
      replace 1%R with (rnd (IZR 1)) by (apply rnd_int; reflexivity). apply rnd_le. simpl. lra. }
    assert (Bp : (Rabs (R_ (PrimFloat.div (PrimFloat.sub T lo) (PrimFloat.sub hi lo)) * R_ 255%float) <= bpow radix2 8)%R).
    { rewrite R_255. simpl bpow. apply Rabs_le. lra. }
    destruct (fmul_correct _ 255%float 8 Fq eq_refl ltac:(unfold emax; lia) Bp) as [Fp Rp].
    rewrite R_255 in Rp.
    split; [exact Fp|]. split.
    - rewrite Rp, Rq, Ra. reflexivity.
    - unfold gR. rewrite <- Ra, <- Rq. split; [rewrite <- rnd_0; apply rnd_le; lra|].
      replace 255%R with (rnd (IZR 255)) at 2 by (apply rnd_int; reflexivity). apply rnd_le. simpl. lra.
  Qed.

  Lemma gR_mono t1 t2 : (R_ lo < R_ hi)%R -> (t1 <= t2)%R -> (gR t1 <= gR t2)%R.
  Proof.
    intros Hlh H. assert (Pb : (0 < Bw)%R) by (apply rnd_sub_pos; lra).
    unfold gR. apply rnd_le. apply Rmult_le_compat_r; [lra|]. apply rnd_le.
    unfold Rdiv. apply Rmult_le_compat_r; [apply Rlt_le, Rinv_0_lt_compat; lra|]. apply rnd_le. lra.
  Qed.

  Lemma mid_value T : fin T = true -> (R_ lo < R_ T < R_ hi)%R ->
    f2i (PrimFloat.mul (PrimFloat.div (PrimFloat.sub T lo) (PrimFloat.sub hi lo)) 255) = Ztrunc (gR (R_ T))
    /\ 0 <= Ztrunc (gR (R_ T)) <= 255.
  Proof.
    intros FT H. destruct (mid_facts T FT H) as (Fp & Rp & G).
    split.
    - rewrite f2i_trunc; [now rewrite Rp|exact Fp|]. rewrite Rp. apply Rle_lt_trans with 255%R.
      + apply Rabs_le. lra.
      + unfold two63. lra.
    - split.
      + apply Z.le_trans with (Ztrunc (IZR 0)); [rewrite Ztrunc_IZR; lia|apply Ztrunc_le; lra].
      + apply Z.le_trans with (Ztrunc (IZR 255)); [apply Ztrunc_le; lra|rewrite Ztrunc_IZR; lia].
  Qed.

  (* where a non-NaN temperature sits relative to the two finite bounds *)
  Lemma leb_fin a b : fin a = true -> fin b = true -> PrimFloat.leb a b = Rle_bool (R_ a) (R_ b).
  Proof. apply fin_leb. Qed.

  Lemma not_fin_cases T : fin T = false -> is_nan T = false ->
    Prim2B T = B754_infinity false \/ Prim2B T = B754_infinity true.
  Proof.
    intros F N. unfold is_nan in N. rewrite eqb_equiv in N.
    destruct (Prim2B T) as [s|[|]| |s m e B]; try discriminate; auto.
  Qed.

  Lemma leb_fin_pinf a T : fin a = true -> Prim2B T = B754_infinity false -> PrimFloat.leb a T = true.
  Proof. intros F E. rewrite leb_equiv, E. destruct (Prim2B a) as [s|s| |s m e B]; try discriminate; destruct s; reflexivity. Qed.
  Lemma leb_pinf_fin a T : fin a = true -> Prim2B T = B754_infinity false -> PrimFloat.leb T a = false.
  Proof. intros F E. rewrite leb_equiv, E. destruct (Prim2B a) as [s|s| |s m e B]; try discriminate; destruct s; reflexivity. Qed.
  Lemma leb_ninf_fin a T : fin a = true -> Prim2B T = B754_infinity true -> PrimFloat.leb T a = true.
  Proof. intros F E. rewrite leb_equiv, E. destruct (Prim2B a) as [s|s| |s m e B]; try discriminate; destruct s; reflexivity. Qed.
  Lemma leb_fin_ninf a T : fin a = true -> Prim2B T = B754_infinity true -> PrimFloat.leb a T = false.
  Proof. intros F E. rewrite leb_equiv, E. destruct (Prim2B a) as [s|s| |s m e B]; try discriminate; destruct s; reflexivity. Qed.

  (* range: every non-NaN temperature gives a value in 0..255 *)
  Lemma ramp_range T : is_nan T = false -> 0 <= ramp T <= 255.
  Proof.
    intros N. unfold ramp.
    destruct (BinarySingleNaN.is_finite (Prim2B T)) eqn:FT.
    - rewrite !leb_fin by assumption.
      case Rle_bool_spec; intros C1; [lia|]. case Rle_bool_spec; intros C2; [lia|].
      destruct (mid_value T FT ltac:(lra)) as [-> G]. exact G.
    - destruct (not_fin_cases T FT N) as [E|E].
      + rewrite (leb_fin_pinf hi T Fhi E). lia.
      + rewrite (leb_fin_ninf hi T Fhi E), (leb_ninf_fin lo T Flo E). lia.
  Qed.

  Lemma ramp_ends T : (PrimFloat.leb hi T = true -> ramp T = 255)
                      /\ (PrimFloat.leb hi T = false -> PrimFloat.leb T lo = true -> ramp T = 0).
  Proof. unfold ramp. split; [intros ->; reflexivity|intros -> ->; reflexivity]. Qed.

  (* monotone over all floats *)
  Theorem ramp_mono T1 T2 : PrimFloat.leb T1 T2 = true -> ramp T1 <= ramp T2.
  Proof.
    intros L.
    assert (N1 : is_nan T1 = false /\ is_nan T2 = false).
    { unfold is_nan. rewrite !eqb_equiv. rewrite leb_equiv in L.
      destruct (Prim2B T1) as [s|s| |s m e B], (Prim2B T2) as [s'|s'| |s' m' e' B']; try discriminate; split; try reflexivity;
        unfold Beqb, SFeqb, SFcompare; cbn [B2SF]; try (destruct s; reflexivity); try (destruct s'; reflexivity);
        rewrite ?Z.compare_refl, ?Pcompare_refl; try (destruct s; reflexivity); destruct s'; reflexivity. }
    destruct N1 as [N1 N2].
    pose proof (ramp_range T1 N1) as G1. pose proof (ramp_range T2 N2) as G2.
    destruct (BinarySingleNaN.is_finite (Prim2B T2)) eqn:F2.
    - destruct (BinarySingleNaN.is_finite (Prim2B T1)) eqn:F1.
      + rewrite leb_fin in L by assumption. revert L. case Rle_bool_spec; [|discriminate]. intros L _.
        unfold ramp in *. rewrite !leb_fin in * by assumption.
        revert G1 G2.
        case (Rle_bool_spec (R_ hi) (R_ T2)); intros C2; [intros; lia|].
        case (Rle_bool_spec (R_ hi) (R_ T1)); intros C1; [lra|].
        case (Rle_bool_spec (R_ T2) (R_ lo)); intros D2.
        * case (Rle_bool_spec (R_ T1) (R_ lo)); intros D1; [intros; lia|lra].
        * case (Rle_bool_spec (R_ T1) (R_ lo)); intros D1; [intros; lia|].
          intros _ _.
          destruct (mid_value T1 F1 ltac:(lra)) as [-> _]. destruct (mid_value T2 F2 ltac:(lra)) as [-> _].
          apply Ztrunc_le. apply gR_mono; lra.
      + destruct (not_fin_cases T1 F1 N1) as [E|E].
        * rewrite leb_equiv, E in L. destruct (Prim2B T2) as [s|s| |s m e B]; try discriminate; destruct s; discriminate.
        * unfold ramp at 1. rewrite (leb_fin_ninf hi T1 Fhi E), (leb_ninf_fin lo T1 Flo E). lia.
    - destruct (not_fin_cases T2 F2 N2) as [E|E].
      + unfold ramp at 2. rewrite (leb_fin_pinf hi T2 Fhi E). lia.
      + assert (E1 : Prim2B T1 = B754_infinity true).
        { rewrite leb_equiv, E in L. destruct (Prim2B T1) as [s|[|]| |s m e B]; try discriminate; try reflexivity; destruct s; discriminate. }
        unfold ramp. rewrite (leb_fin_ninf hi T1 Fhi E1), (leb_ninf_fin lo T1 Flo E1),
          (leb_fin_ninf hi T2 Fhi E), (leb_ninf_fin lo T2 Flo E). lia.
  Qed.
End Ramp.
