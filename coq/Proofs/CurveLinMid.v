(* Linear curve, min/max form, strictly between the bounds: the value is within (-1 - 2^-40, 2^-40)
   of the real ramp 255 * (T - min*1000) / ((max - min)*1000).  Three roundings (subtraction,
   division, multiplication by 255), each with relative error <= 2^-53 plus an underflow term
   (Flocq error_N_FLT), then truncation.  Discharges Props.C06.C06_lin_minmax_mid_full. *)
From Coq Require Import ZArith Reals Lia Lra Floats Bool List Psatz.
From Flocq Require Import Core BinarySingleNaN Relative.
From Flocq Require PrimFloat.
Import Flocq.IEEE754.PrimFloat.
From F2G Require Import Go.GoFloat Model.Util Model.Curves Proofs.CurveFloat Proofs.CurveLin Proofs.CurveLinMono.
Open Scope Z_scope.

Definition E53 : R := (/ 9007199254740992)%R.

(* one rounding: relative error 2^-53 plus (underflow) absolute error, both bounded by 2^-53 *)
Lemma rnd_err z : exists eps eta, (Rabs eps <= E53)%R /\ (Rabs eta <= E53)%R /\ rnd z = (z * (1 + eps) + eta)%R.
Proof.
  destruct (error_N_FLT radix2 (SpecFloat.emin prec emax) prec Hprec (fun x => negb (Z.even x)) z) as (eps & eta & H1 & H2 & _ & H3).
  exists eps, eta. split; [|split].
  - eapply Rle_trans; [exact H1|]. change (bpow radix2 (- prec + 1)) with (/ 4503599627370496)%R. unfold E53. lra.
  - eapply Rle_trans; [exact H2|].
    apply Rle_trans with (/ 2 * bpow radix2 (-52))%R.
    + apply Rmult_le_compat_l; [lra|]. apply bpow_le. unfold SpecFloat.emin, emax, prec. lia.
    + change (bpow radix2 (-52)) with (/ 4503599627370496)%R. unfold E53. lra.
  - exact H3.
Qed.

Lemma mid_algebra E u e1 e2 e3 h1 h2 h3 : (0 <= E <= / 1000)%R -> (0 <= u <= 1)%R ->
  (Rabs e1 <= E)%R -> (Rabs e2 <= E)%R -> (Rabs e3 <= E)%R ->
  (Rabs h1 <= E)%R -> (Rabs h2 <= E)%R -> (Rabs h3 <= E)%R ->
  let q := (u * (1 + e1) * (1 + e2) + h1 * (1 + e2) + h2)%R in
  let g := (q * 255 * (1 + e3) + h3)%R in
  (Rabs (g - 255 * u) <= 4000 * E)%R.
Proof.
  intros HE Hu A1 A2 A3 B1 B2 B3 q g.
  apply Rabs_le_inv in A1, A2, A3, B1, B2, B3.
  assert (Q1 : (- (4 * E) <= u * (1 + e1) * (1 + e2) - u <= 4 * E)%R).
  { assert (- (3 * E) <= (1 + e1) * (1 + e2) - 1 <= 3 * E)%R by nra. nra. }
  assert (Q2 : (- (2 * E) <= h1 * (1 + e2) <= 2 * E)%R) by nra.
  assert (Q : (- (7 * E) <= q - u <= 7 * E)%R) by (subst q; lra).
  assert (Q3 : (- (3 * E) <= q * e3 <= 3 * E)%R) by nra.
  assert (G : (g - 255 * u = 255 * (q - u) + 255 * (q * e3) + h3)%R) by (subst g; ring).
  rewrite G. apply Rabs_le. lra.
Qed.

Theorem lin_minmax_mid : forall c T v, l_steps c = None -> lin_small c -> l_min c < l_max c ->
  fin T = true ->
  (IZR (l_min c * 1000) < R_ T < IZR (l_max c * 1000))%R ->
  eval_lin c T = Val v ->
  let r := (255 * (R_ T - IZR (l_min c * 1000)) / IZR ((l_max c - l_min c) * 1000))%R in
  (-1 - / 2 ^ 40 < IZR v - r < / 2 ^ 40)%R.
Proof.
  intros c T v S [Hmin Hmax] Hlt FT HT EV r.
  destruct (milli_exact (l_min c) Hmin) as (Fl & Rl & Bl). destruct (milli_exact (l_max c) Hmax) as (Fh & Rh & Bh).
  fold (minT c) in Fl, Rl, Bl. fold (maxT c) in Fh, Rh, Bh.
  rewrite eval_lin_ramp in EV by assumption. unfold ramp in EV.
  rewrite (fin_leb (maxT c) T Fh FT), (fin_leb T (minT c) FT Fl), Rl, Rh in EV.
  rewrite !Rle_bool_false in EV by lra.
  destruct (mid_value (minT c) (maxT c) Fl Fh Bl Bh T FT ltac:(rewrite Rl, Rh; exact HT)) as [MV _].
  destruct (mid_facts (minT c) (maxT c) Fl Fh Bl Bh T FT ltac:(rewrite Rl, Rh; exact HT)) as (_ & _ & G01).
  rewrite MV in EV. assert (EV' : Ztrunc (gR (minT c) (maxT c) (R_ T)) = v) by congruence. clear EV MV.
  set (g := gR (minT c) (maxT c) (R_ T)) in *.
  (* the exact width *)
  set (w := (l_max c - l_min c) * 1000).
  assert (Hw : 1000 <= w < 2 ^ 53) by (subst w; assert (2 ^ 41 * 1000 < 2 ^ 53) by reflexivity; lia).
  assert (BW : Bw (minT c) (maxT c) = IZR w).
  { unfold Bw. rewrite Rl, Rh, <- minus_IZR. replace (l_max c * 1000 - l_min c * 1000) with w by (subst w; ring).
    apply rnd_int. lia. }
  assert (Pw : (1000 <= IZR w)%R) by (apply IZR_le; lia).
  set (d := (R_ T - IZR (l_min c * 1000))%R).
  assert (Hd : (0 < d < IZR w)%R).
  { subst d w. rewrite !mult_IZR, minus_IZR. rewrite !mult_IZR in HT. lra. }
  set (u := (d / IZR w)%R).
  assert (Hu : (0 <= u <= 1)%R).
  { subst u. split.
    - apply Rmult_le_pos; [lra|]. apply Rlt_le, Rinv_0_lt_compat. lra.
    - apply Rmult_le_reg_r with (IZR w); [lra|]. unfold Rdiv. rewrite Rmult_assoc, Rinv_l by lra. lra. }
  assert (Er : r = (255 * u)%R) by (subst r u d w; unfold Rdiv; ring).
  (* the three roundings *)
  destruct (rnd_err d) as (e1 & n1 & A1 & B1 & V1).
  set (a := rnd d) in *.
  destruct (rnd_err (a / IZR w)) as (e2 & n2 & A2 & B2 & V2).
  set (q := rnd (a / IZR w)) in *.
  destruct (rnd_err (q * 255)) as (e3 & n3 & A3 & B3 & V3).
  assert (Eg : g = rnd (q * 255)).
  { subst g q a d. unfold gR. rewrite BW, Rl. reflexivity. }
  set (h1 := (n1 / IZR w)%R).
  assert (Bh1 : (Rabs h1 <= E53)%R).
  { subst h1. unfold Rdiv. rewrite Rabs_mult. rewrite (Rabs_pos_eq (/ IZR w)) by (apply Rlt_le, Rinv_0_lt_compat; lra).
    assert (0 <= Rabs n1)%R by apply Rabs_pos.
    assert (/ IZR w <= 1)%R by (rewrite <- Rinv_1; apply Rinv_le_contravar; lra).
    assert (0 < / IZR w)%R by (apply Rinv_0_lt_compat; lra). nra. }
  assert (Eq : q = (u * (1 + e1) * (1 + e2) + h1 * (1 + e2) + n2)%R).
  { rewrite V2, V1. subst u h1. field. lra. }
  assert (HE : (0 <= E53 <= / 1000)%R) by (unfold E53; lra).
  pose proof (mid_algebra E53 u e1 e2 e3 h1 n2 n3 HE Hu A1 A2 A3 Bh1 B2 B3) as M. cbv zeta in M.
  clearbody r g q h1 u a d.
  assert (M' : (Rabs (g - r) <= 4000 * E53)%R).
  { subst g r. rewrite V3. subst q. rewrite Eq. exact M. }
  clear M. apply Rabs_le_inv in M'.
  (* truncation *)
  assert (Tr : (g - 1 < IZR v <= g)%R).
  { rewrite <- EV'. rewrite Ztrunc_floor by lra. split; [|apply Zfloor_lb].
    pose proof (Zfloor_ub g). lra. }
  assert (P40 : (4000 * E53 < / 2 ^ 40)%R).
  { unfold E53. replace (2 ^ 40)%R with 1099511627776%R by (simpl; lra). lra. }
  lra.
Qed.
