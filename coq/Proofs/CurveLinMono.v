(* The min/max linear curve of the model IS the ramp of Proofs/CurveLin.v; consequences:
   C07_lin_minmax (monotone over all floats), range, ends, and the closed forms used by C06. *)
From Coq Require Import ZArith Reals Lia Lra Floats Bool List.
From Flocq Require Import Core BinarySingleNaN.
From Flocq Require PrimFloat.
Import Flocq.IEEE754.PrimFloat.
From F2G Require Import Go.GoFloat Model.Util Model.Curves Proofs.CurveFloat Proofs.CurveLin.
Open Scope Z_scope.

Definition minT (c : lincfg) : f64 := PrimFloat.mul (i2f64 (l_min c)) 1000.
Definition maxT (c : lincfg) : f64 := PrimFloat.mul (i2f64 (l_max c)) 1000.

Lemma eval_lin_ramp c T : l_steps c = None -> eval_lin c T = Val (ramp (minT c) (maxT c) T).
Proof.
  intros S. unfold eval_lin, ramp. rewrite S. fold (minT c) (maxT c).
  destruct (PrimFloat.leb (maxT c) T); [reflexivity|]. destruct (PrimFloat.leb T (minT c)); reflexivity.
Qed.

Lemma i2f64_i2f' z : - two63 < z -> i2f64 z = i2f z.
Proof. intros H. unfold i2f64. destruct (z =? - two63) eqn:E; [apply Z.eqb_eq in E; lia|reflexivity]. Qed.

(* float64(z) is exact for |z| < 2^53 *)
Lemma i2f_exact z : Z.abs z < 2 ^ 53 -> fin (i2f z) = true /\ R_ (i2f z) = IZR z.
Proof.
  intros H. destruct (Z_lt_le_dec z 0) as [N|P].
  - unfold i2f. destruct (z <? 0) eqn:E; [|apply Z.ltb_ge in E; lia].
    destruct (i2f_nonneg_exact (- z)) as [F G]; [lia|].
    unfold i2f in F, G. destruct (- z <? 0) eqn:E2; [apply Z.ltb_lt in E2; lia|].
    rewrite opp_equiv, is_finite_Bopp, B2R_Bopp, G, opp_IZR. split; [exact F|lra].
  - apply i2f_nonneg_exact. lia.
Qed.

Lemma R_1000 : R_ 1000%float = 1000%R.
Proof. cbv -[IZR Rmult Rinv]. lra. Qed.

(* degrees -> milli-degrees: exact for |z| < 2^40, finite and far from overflow *)
Lemma milli_exact z : Z.abs z < 2 ^ 40 ->
  let m := PrimFloat.mul (i2f64 z) 1000 in
  fin m = true /\ R_ m = IZR (z * 1000) /\ (Rabs (R_ m) <= bpow radix2 100)%R.
Proof.
  intros H. cbv zeta. rewrite i2f64_i2f' by (unfold two63; lia).
  destruct (i2f_exact z ltac:(lia)) as [F G].
  assert (B : (Rabs (R_ (i2f z) * R_ 1000%float) <= bpow radix2 63)%R).
  { rewrite G, R_1000, <- mult_IZR, <- abs_IZR. change (bpow radix2 63) with (IZR (2 ^ 63)). apply IZR_le. lia. }
  destruct (fmul_correct (i2f z) 1000%float 63 F eq_refl ltac:(unfold emax; lia) B) as [Fm Rm].
  rewrite G, R_1000, <- mult_IZR in Rm. rewrite rnd_int in Rm by lia.
  split; [exact Fm|]. split; [exact Rm|].
  rewrite Rm, <- abs_IZR. change (bpow radix2 100) with (IZR (2 ^ 100)). apply IZR_le. lia.
Qed.

Lemma leb_true_not_nan T1 T2 : PrimFloat.leb T1 T2 = true -> is_nan T1 = false /\ is_nan T2 = false.
Proof.
  intros L. unfold is_nan. rewrite !eqb_equiv. rewrite leb_equiv in L.
  destruct (Prim2B T1) as [s|s| |s m e B], (Prim2B T2) as [s'|s'| |s' m' e' B']; try discriminate; split; try reflexivity;
    unfold Beqb, SFeqb, SFcompare; cbn [B2SF]; try (destruct s; reflexivity); try (destruct s'; reflexivity);
    rewrite ?Z.compare_refl, ?Pcompare_refl; try (destruct s; reflexivity); destruct s'; reflexivity.
Qed.

Definition lin_small (c : lincfg) : Prop := Z.abs (l_min c) < 2 ^ 40 /\ Z.abs (l_max c) < 2 ^ 40.

(* C07_lin_minmax, together with range and totality: exactly [leaf_mono] of Proofs/CurveMono.v *)
Theorem lin_minmax_mono c T1 T2 : l_steps c = None -> lin_small c -> PrimFloat.leb T1 T2 = true ->
  exists v1 v2, eval_lin c T1 = Val v1 /\ eval_lin c T2 = Val v2 /\ 0 <= v1 /\ v1 <= v2 /\ v2 <= 255.
Proof.
  intros S [Hmin Hmax] L.
  destruct (milli_exact (l_min c) Hmin) as (Fl & _ & Bl). destruct (milli_exact (l_max c) Hmax) as (Fh & _ & Bh).
  fold (minT c) in Fl, Bl. fold (maxT c) in Fh, Bh.
  exists (ramp (minT c) (maxT c) T1), (ramp (minT c) (maxT c) T2).
  rewrite !eval_lin_ramp by assumption. split; [reflexivity|]. split; [reflexivity|].
  destruct (leb_true_not_nan T1 T2 L) as [N1 N2].
  pose proof (ramp_range _ _ Fl Fh Bl Bh T1 N1). pose proof (ramp_range _ _ Fl Fh Bl Bh T2 N2).
  pose proof (ramp_mono _ _ Fl Fh Bl Bh T1 T2 L). lia.
Qed.

(* C06_range for the min/max form *)
Theorem lin_minmax_range c T : l_steps c = None -> lin_small c -> is_nan T = false ->
  exists v, eval_lin c T = Val v /\ 0 <= v <= 255.
Proof.
  intros S [Hmin Hmax] N.
  destruct (milli_exact (l_min c) Hmin) as (Fl & _ & Bl). destruct (milli_exact (l_max c) Hmax) as (Fh & _ & Bh).
  exists (ramp (minT c) (maxT c) T). rewrite eval_lin_ramp by assumption. split; [reflexivity|].
  now apply ramp_range.
Qed.

(* C06_lin_minmax_ends, over the reals: the milli-degree bounds are the exact integers *)
Theorem lin_minmax_ends c T : l_steps c = None -> lin_small c -> fin T = true ->
  ((IZR (l_max c * 1000) <= R_ T)%R -> eval_lin c T = Val 255) /\
  ((R_ T < IZR (l_max c * 1000))%R -> (R_ T <= IZR (l_min c * 1000))%R -> eval_lin c T = Val 0).
Proof.
  intros S [Hmin Hmax] FT.
  destruct (milli_exact (l_min c) Hmin) as (Fl & Rl & _). destruct (milli_exact (l_max c) Hmax) as (Fh & Rh & _).
  fold (minT c) in Fl, Rl. fold (maxT c) in Fh, Rh.
  rewrite eval_lin_ramp by assumption. unfold ramp.
  rewrite (fin_leb (maxT c) T Fh FT), (fin_leb T (minT c) FT Fl), Rl, Rh. split.
  - intros H. rewrite Rle_bool_true by exact H. reflexivity.
  - intros H1 H2. rewrite Rle_bool_false by exact H1. rewrite Rle_bool_true by exact H2. reflexivity.
Qed.
