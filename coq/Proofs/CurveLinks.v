(* C06 observer link ("no false alarm"): whenever the implementation's observations of a case
   equal the model's (mismatch = false), the verified observer of Drv/Curves.v can only fail on
   the recorded finding D18 (a PID term that was NaN in the failing call).  Every demand of the
   observer is derived from the model through the C06 theorems: range and totality
   (Proofs/CurveRange.v), the documented value of min/max curves in exact rational arithmetic
   (C06_lin_minmax_ends + C06_lin_minmax_mid), the integer meaning of the six aggregates
   (the six C06_fn theorems).  ONE conjunct is not derived: the closeness |v - exact interpolant| <= 1/2 + 2^-10
   demanded of a ROOT STEPS curve ([StepsDocClose] below, a visible hypothesis). *)
From Coq Require Import ZArith Reals Lia Lra Psatz Floats Bool List SpecFloat.
From Flocq Require Import Core BinarySingleNaN.
From Flocq Require PrimFloat.
Import Flocq.IEEE754.PrimFloat.
From F2G Require Import Go.GoFloat Model.Util Model.ControlLoop Model.Curves
  Proofs.CurveFloat Proofs.CurveLin Proofs.CurveLinMono Proofs.CurveLinMid Proofs.CurveFn Proofs.CurveMono
  Proofs.CurveSteps Proofs.StepsMono Proofs.CurveRange Drv.Common Drv.Curves.
Import ListNotations.
Open Scope Z_scope.

(* ---- exact rationals of the observer vs. the real value of a float ---- *)
Lemma f2q_R x n d : f2q x = Some (n, d) -> fin x = true /\ 0 < d /\ R_ x = (IZR n / IZR d)%R.
Proof.
  unfold f2q. rewrite <- B2SF_Prim2B. destruct (Prim2B x) as [s|s| |s m e Hb]; cbn [B2SF]; try discriminate.
  - intros E. inversion E; subst. split; [reflexivity|]. split; [lia|]. cbn [B2R]. unfold Rdiv. now rewrite Rmult_0_l.
  - destruct (0 <=? e) eqn:Ee; intros E; inversion E; subst; clear E.
    + apply Z.leb_le in Ee. split; [reflexivity|]. split; [lia|].
      cbn [B2R]. unfold F2R. cbn [Fnum Fexp]. rewrite mult_IZR, (IZR_Zpower radix2) by exact Ee.
      destruct s; cbn [cond_Zopp Z.opp]; lra.
    + apply Z.leb_gt in Ee. split; [reflexivity|]. split; [apply Z.pow_pos_nonneg; lia|].
      cbn [B2R]. unfold F2R. cbn [Fnum Fexp]. unfold Rdiv.
      replace (IZR (cond_Zopp s (Z.pos m))) with (IZR (if s then - Z.pos m else Z.pos m)) by (destruct s; reflexivity).
      f_equal. replace e with (- - e) at 1 by lia. rewrite bpow_opp. f_equal. now rewrite (IZR_Zpower radix2) by lia.
Qed.

Lemma finiteb_fin x : finiteb x = true -> fin x = true /\ is_nan x = false.
Proof.
  unfold finiteb. destruct (f2q x) as [[n d]|] eqn:Q; [|discriminate]. intros _.
  destruct (f2q_R x n d Q) as [F _]. split; [exact F|now apply fin_is_nan].
Qed.

Lemma finiteb_f2q x : finiteb x = true -> exists n d, f2q x = Some (n, d).
Proof. unfold finiteb. destruct (f2q x) as [[n d]|]; [eauto|discriminate]. Qed.

Lemma Rle_div_r x y z : (0 < z -> (x * z <= y <-> x <= y / z))%R.
Proof.
  intros Hz. assert (E : (y / z * z = y)%R) by (field; lra). split; intros H.
  - apply Rmult_le_reg_r with z; [exact Hz|]. now rewrite E.
  - rewrite <- E. apply Rmult_le_compat_r; lra.
Qed.
Lemma Rle_div_l x y z : (0 < z -> (x / z <= y <-> x <= y * z))%R.
Proof.
  intros Hz. assert (E : (x / z * z = x)%R) by (field; lra). split; intros H.
  - rewrite <- E. apply Rmult_le_compat_r; lra.
  - apply Rmult_le_reg_r with z; [exact Hz|]. now rewrite E.
Qed.
Lemma Rlt_div_r x y z : (0 < z -> (x * z < y <-> x < y / z))%R.
Proof.
  intros Hz. assert (E : (y / z * z = y)%R) by (field; lra). split; intros H.
  - apply Rmult_lt_reg_r with z; [exact Hz|]. now rewrite E.
  - rewrite <- E. apply Rmult_lt_compat_r; lra.
Qed.
Lemma Rlt_div_l x y z : (0 < z -> (x / z < y <-> x < y * z))%R.
Proof.
  intros Hz. assert (E : (x / z * z = x)%R) by (field; lra). split; intros H.
  - rewrite <- E. apply Rmult_lt_compat_r; lra.
  - apply Rmult_lt_reg_r with z; [exact Hz|]. now rewrite E.
Qed.

Lemma q_le a n d : 0 < d -> (a * d <= n <-> (IZR a <= IZR n / IZR d)%R).
Proof.
  intros Hd. assert (HD : (0 < IZR d)%R) by (apply IZR_lt; lia).
  rewrite <- Rle_div_r by exact HD. rewrite <- mult_IZR. split; [apply IZR_le|apply le_IZR].
Qed.
Lemma q_ge a n d : 0 < d -> (n <= a * d <-> (IZR n / IZR d <= IZR a)%R).
Proof.
  intros Hd. assert (HD : (0 < IZR d)%R) by (apply IZR_lt; lia).
  rewrite Rle_div_l by exact HD. rewrite <- mult_IZR. split; [apply IZR_le|apply le_IZR].
Qed.
Lemma q_lt a n d : 0 < d -> (a * d < n <-> (IZR a < IZR n / IZR d)%R).
Proof.
  intros Hd. assert (HD : (0 < IZR d)%R) by (apply IZR_lt; lia).
  rewrite <- Rlt_div_r by exact HD. rewrite <- mult_IZR. split; [apply IZR_lt|apply lt_IZR].
Qed.
Lemma q_gt a n d : 0 < d -> (n < a * d <-> (IZR n / IZR d < IZR a)%R).
Proof.
  intros Hd. assert (HD : (0 < IZR d)%R) by (apply IZR_lt; lia).
  rewrite Rlt_div_l by exact HD. rewrite <- mult_IZR. split; [apply IZR_lt|apply lt_IZR].
Qed.

(* ---- well-formedness: boolean -> the Prop of Proofs/CurveRange.v ---- *)
Lemma wf_linb_small c : wf_linb c = true -> l_steps c = None -> lin_small c /\ l_min c < l_max c.
Proof.
  unfold wf_linb, lin_small, big. intros W S. rewrite S in W.
  apply andb_true_iff in W. destruct W as [W W3]. apply andb_true_iff in W. destruct W as [W1 W2].
  apply Z.ltb_lt in W1, W2, W3. lia.
Qed.

Lemma wf_linb_steps c steps : wf_linb c = true -> l_steps c = Some steps ->
  steps <> [] /\ speeds_in_range steps.
Proof.
  unfold wf_linb. intros W S. rewrite S in W.
  apply andb_true_iff in W. destruct W as [W _]. apply andb_true_iff in W. destruct W as [W1 W2].
  split; [intro; subst; discriminate|].
  unfold speeds_in_range. apply Forall_forall. intros kv Hin. rewrite forallb_forall in W2. specialize (W2 kv Hin).
  apply andb_true_iff in W2. destruct W2 as [W2 _]. apply andb_true_iff in W2. destruct W2 as [W2 _].
  unfold speed_okb in W2. apply andb_true_iff in W2. exact W2.
Qed.

Lemma wf_linb_leaf_range c : wf_linb c = true -> leaf_range c.
Proof.
  intros W T N. destruct (l_steps c) as [steps|] eqn:S.
  - destruct (wf_linb_steps c steps W S) as [Ne R]. exact (steps_range c steps T S Ne R N).
  - destruct (wf_linb_small c W S) as [Sm _]. exact (lin_minmax_range c T S Sm N).
Qed.

Fixpoint all_wfb (l : list curve) : bool := match l with [] => true | m :: r => wfb m && all_wfb r end.
Lemma wfb_Fn ty ms : wfb (Fn ty ms) =
  negb (match ms with [] => true | _ => false end) && (Z.of_nat (length ms) <? big) && all_wfb ms.
Proof.
  reflexivity.
Qed.

Lemma wfb_wf_tree t : wfb t = true -> wf_tree t.
Proof.
  induction t as [c|c|ty ms IH] using curve_ind2; intros W.
  - cbn [wfb] in W. cbn [wf_tree]. now apply wf_linb_leaf_range.
  - exact I.
  - rewrite wfb_Fn in W. apply andb_true_iff in W. destruct W as [W W3]. apply andb_true_iff in W. destruct W as [W1 W2].
    apply (proj2 (wf_tree_Fn ty ms)). split; [intro; subst; discriminate|].
    split; [apply Z.ltb_lt in W2; exact W2|].
    clear W1 W2. induction IH as [|m r Hm Hr IHr]; [exact I|].
    cbn [all_wfb] in W3. apply andb_true_iff in W3. destruct W3 as [A B]. split; [apply Hm, A|apply IHr, B].
Qed.

Fixpoint all_sens_okb (e : env) (l : list curve) : bool :=
  match l with [] => true | m :: r => sens_okb e m && all_sens_okb e r end.
Lemma sens_okb_Fn e ty ms : sens_okb e (Fn ty ms) = all_sens_okb e ms.
Proof. cbn [sens_okb]. induction ms as [|m r IH]; [reflexivity|]. cbn [all_sens_okb]. rewrite <- IH. reflexivity. Qed.

Lemma sens_okb_ok e t : sens_okb e t = true -> sens_ok t e.
Proof.
  induction t as [c|c|ty ms IH] using curve_ind2; intros S.
  - cbn [sens_okb] in S. cbn [sens_ok]. destruct (lookup_sensor e (l_sensor c)) as [s|]; [|discriminate].
    exists s. split; [reflexivity|]. now apply finiteb_fin.
  - cbn [sens_okb] in S. cbn [sens_ok]. destruct (lookup_sensor e (p_sensor c)) as [s|]; [|discriminate].
    destruct (s_val s) as [m|] eqn:V; [|discriminate]. exists s, m. auto.
  - rewrite sens_okb_Fn in S. apply (proj2 (sens_ok_Fn ty ms e)).
    induction IH as [|m r Hm Hr IHr]; [exact I|].
    cbn [all_sens_okb] in S. apply andb_true_iff in S. destruct S as [A B]. split; [apply Hm, A|apply IHr, B].
Qed.

(* ---- the documented value of a min/max curve, in the observer's exact rationals ---- *)
Lemma pow40 : IZR big = (2 ^ 40)%R.
Proof. unfold big. change 40 with (Z.of_nat 40). rewrite <- pow_IZR. reflexivity. Qed.

Lemma lin_mm_link c T v n d : wf_linb c = true -> l_steps c = None -> eval_lin c T = Val v ->
  f2q T = Some (n, d) -> lin_mm_okb (l_min c) (l_max c) n d v = true.
Proof.
  intros W S E Q. destruct (wf_linb_small c W S) as [Sm Hlt]. destruct (f2q_R T n d Q) as (FT & Hd & RT).
  destruct (lin_minmax_ends c T S Sm FT) as [Ehi Elo].
  apply lin_mm_okb_spec. unfold Lin_mm_ok. cbv zeta.
  set (a := l_min c * 1000). set (b := (l_max c - l_min c) * 1000).
  assert (Hab : a + b = l_max c * 1000) by (subst a b; lia).
  assert (Hb : 0 < b) by (subst b; lia).
  split; [|split].
  - intros H. apply (proj1 (q_le _ _ _ Hd)) in H. rewrite Hab, <- RT in H.
    rewrite (Ehi H) in E. now inversion E.
  - intros H1 H2. apply (proj1 (q_gt _ _ _ Hd)) in H1. apply (proj1 (q_ge _ _ _ Hd)) in H2.
    rewrite Hab, <- RT in H1. rewrite <- RT in H2. fold a in Elo. rewrite (Elo H1 H2) in E. now inversion E.
  - intros H1 H2. apply (proj1 (q_gt _ _ _ Hd)) in H1. apply (proj1 (q_lt _ _ _ Hd)) in H2.
    rewrite Hab, <- RT in H1. rewrite <- RT in H2.
    pose proof (lin_minmax_mid c T v S Sm Hlt FT (conj H2 H1) E) as M. cbv zeta in M.
    fold a b in M.
    assert (HD : (0 < IZR d)%R) by (apply IZR_lt; lia). assert (HB : (0 < IZR b)%R) by (apply IZR_lt; lia).
    assert (HP : (0 < 2 ^ 40)%R) by (apply pow_lt; lra).
    set (X := IZR v) in *. set (A := IZR a) in *. set (B := IZR b) in *. set (D := IZR d) in *. set (N := IZR n) in *.
    set (P := (2 ^ 40)%R) in *.
    assert (Hq : (R_ T * D = N)%R) by (rewrite RT; fold N D; field; lra).
    set (q := R_ T) in *.
    assert (Hr : (255 * (q - A) / B * (B * D) = 255 * (N - A * D))%R).
    { rewrite <- Hq. field. lra. }
    assert (HBD : (0 < B * D)%R) by (apply Rmult_lt_0_compat; assumption).
    destruct M as [M1 M2].
    split.
    + apply lt_IZR. rewrite !mult_IZR, minus_IZR, !mult_IZR, minus_IZR, mult_IZR, pow40.
      fold X A B D N P. rewrite <- Hr.
      replace ((X * (B * D) - 255 * (q - A) / B * (B * D)) * P)%R with ((X - 255 * (q - A) / B) * P * (B * D))%R by ring.
      rewrite <- (Rmult_1_l (B * D)) at 2. apply Rmult_lt_compat_r; [exact HBD|].
      apply Rmult_lt_reg_r with (/ P)%R; [apply Rinv_0_lt_compat; exact HP|].
      rewrite Rmult_assoc, Rinv_r, Rmult_1_r, Rmult_1_l by lra. exact M2.
    + apply lt_IZR. rewrite opp_IZR, !mult_IZR, minus_IZR, !mult_IZR, plus_IZR, minus_IZR, mult_IZR, pow40.
      fold X A B D N P. rewrite <- Hr.
      replace (((X + 1) * (B * D) - 255 * (q - A) / B * (B * D)) * P)%R with ((X + 1 - 255 * (q - A) / B) * P * (B * D))%R by ring.
      replace (- (B * D))%R with (-1 * (B * D))%R by ring. apply Rmult_lt_compat_r; [exact HBD|].
      apply Rmult_lt_reg_r with (/ P)%R; [apply Rinv_0_lt_compat; exact HP|].
      rewrite Rmult_assoc, Rinv_r, Rmult_1_r by lra. lra.
Qed.

(* ---- the one conjunct that is not derived here (proved in Proofs/StepsCloseLink.v) ---- *)
(* closeness of a steps curve's value to the exact piecewise-linear interpolant, as demanded by the
   observer of a ROOT steps curve (range 0..255, totality and - for integer speeds - monotonicity
   of the steps form ARE proved: Props/C06Steps.v, Props/C07Steps.v) *)
Definition StepsDocClose : Prop :=
  forall c steps T v n d sq rn rd,
  wf_linb c = true -> l_steps c = Some steps -> eval_lin c T = Val v -> f2q T = Some (n, d) ->
  steps_q steps = Some sq -> interp_q true sq n (d * 1000) = Some (rn, rd) -> near_roundb v rn rd = true.

Definition root_is_steps (t : curve) : bool :=
  match t with Lin c => match l_steps c with Some _ => true | None => false end | _ => false end.

Lemma lin_doc_link c T v : (root_is_steps (Lin c) = true -> StepsDocClose) ->
  wf_linb c = true -> eval_lin c T = Val v -> lin_doc_okb c T v = true.
Proof.
  intros HS W E. unfold lin_doc_okb. destruct (f2q T) as [[n d]|] eqn:Q; [|reflexivity].
  destruct (l_steps c) as [steps|] eqn:S.
  - destruct (steps_q steps) as [sq|] eqn:SQ; [|reflexivity].
    destruct (interp_q true sq n (d * 1000)) as [[rn rd]|] eqn:IQ; [|reflexivity].
    assert (R : root_is_steps (Lin c) = true) by (cbn; now rewrite S).
    exact (HS R c steps T v n d sq rn rd W S E Q SQ IQ).
  - exact (lin_mm_link c T v n d W S E Q).
Qed.

(* ---- one call of the model's run ---- *)
Lemma model_run_cons g root topt ev r s :
  let rt0 := mkRts (rt_pids (ru_rt s)) false in
  let now := ru_now s + ev_dt ev in
  let res := geval (fuel_of g) g root (ev_env ev) now rt0 in
  let cur := match fst res with Val v => v | _ => ru_cur s end in
  model_run g root topt (ev :: r) s =
  mkRow (fst (out_kind (fst res))) (snd (out_kind (fst res))) cur (rt_nan (snd res))
        (model_mvals topt (ev_env ev) now rt0)
  :: model_run g root topt r (mkRun (snd res) now cur).
Proof.
  cbv zeta. cbn [model_run]. unfold run_step. cbn [ru_rt ru_now ru_cur].
  destruct (geval (fuel_of g) g root (ev_env ev) (ru_now s + ev_dt ev) (mkRts (rt_pids (ru_rt s)) false)) as [o rt'].
  cbn [fst snd]. destruct o; reflexivity.
Qed.

Lemma list_eqb_Z l1 l2 : list_eqb Z.eqb l1 l2 = true -> l1 = l2.
Proof. apply list_eqb_Z_eq. Qed.

(* a call on which model and implementation agree passes the observer, or its PID term was NaN *)
Lemma ev_link g root t ev r s : tree_of_gr g root = Some t -> wfb t = true ->
  (root_is_steps t = true -> StepsDocClose) ->
  match model_run g root (Some t) (ev :: r) s with
  | row :: _ => ev_agrees row ev = true -> ev_okb t ev = true \/ m_nan row = true
  | [] => False
  end.
Proof.
  intros Tr W HS. rewrite model_run_cons. cbv zeta.
  set (rt0 := mkRts (rt_pids (ru_rt s)) false). set (now := ru_now s + ev_dt ev).
  unfold tree_of_gr in Tr. rewrite (geval_unfold _ _ _ _ (ev_env ev) now rt0 Tr).
  unfold ev_okb. destruct (sens_okb (ev_env ev) t) eqn:SO; [|intros _; left; reflexivity].
  pose proof (wfb_wf_tree t W) as Wt. pose proof (sens_okb_ok _ _ SO) as So.
  destruct (tree_total t (ev_env ev) now rt0 Wt So) as (v & st' & Ev & Rg).
  rewrite Ev. cbn [fst snd out_kind]. unfold ev_agrees. cbn [m_kind m_val m_cur m_nan m_mvals].
  intros A. apply andb_true_iff in A. destruct A as [A Amv]. apply andb_true_iff in A. destruct A as [A A3].
  apply andb_true_iff in A. destruct A as [A1 A2]. apply Z.eqb_eq in A1, A2, A3.
  destruct (rt_nan st') eqn:Nn; [right; reflexivity|left]. specialize (Rg eq_refl).
  rewrite <- A1, <- A2, <- A3, Z.eqb_refl. cbn [andb].
  assert (I255 : in255b v = true) by (apply in255b_spec; exact Rg). rewrite I255. cbn [andb]. rewrite Z.eqb_refl. cbn [andb].
  unfold root_doc_okb. destruct t as [c|c|ty ms].
  - cbn [sens_ok] in So. destruct So as (sn & L & _). rewrite L. rewrite <- A2.
    cbn [eval] in Ev. rewrite L in Ev. inversion Ev. cbn [wfb] in W. now apply lin_doc_link.
  - reflexivity.
  - destruct (root_members_total ty ms (ev_env ev) now rt0 Wt So) as (vs & st2 & Em & Ln & Nvs & Ef & Rm).
    rewrite Ev in Ef. inversion Ef; subst st2. destruct (Rm Nn) as [Rvs Ea].
    cbn [model_mvals] in Amv. rewrite Em in Amv. cbn [Z.eqb] in Amv. apply list_eqb_Z in Amv. rewrite <- Amv.
    rewrite Ln, Nat.eqb_refl. cbn [andb].
    assert (Fb : forallb in255b vs = true).
    { apply forallb_forall. intros x Hx. apply in255b_spec. rewrite Forall_forall in Rvs. exact (Rvs x Hx). }
    rewrite Fb. cbn [andb]. rewrite <- A2. rewrite Ea in H0. inversion H0. apply Z.eqb_refl.
Qed.

Lemma rows_link g root t : tree_of_gr g root = Some t -> wfb t = true ->
  (root_is_steps t = true -> StepsDocClose) ->
  forall evs s, all2b ev_agrees (model_run g root (Some t) evs s) evs = true ->
  all2b (fun (mr : mrow) ev => ev_okb t ev || m_nan mr) (model_run g root (Some t) evs s) evs = true.
Proof.
  intros Tr W HS. induction evs as [|ev r IH]; intros s A; [reflexivity|].
  pose proof (ev_link g root t ev r s Tr W HS) as L.
  rewrite model_run_cons in *. cbv zeta in *. cbn [all2b] in *.
  apply andb_true_iff in A. destruct A as [A1 A2]. apply andb_true_iff. split.
  - destruct (L A1) as [H|H]; rewrite H; [reflexivity|apply orb_true_r].
  - apply IH. exact A2.
Qed.

(* ---- the link theorem ---- *)
Theorem curves_link c : (forall t, tree_of c = Some t -> root_is_steps t = true -> StepsDocClose) ->
  mismatch c = false -> holdsb c = true \/ finding_code c = 1.
Proof.
  intros HS M. unfold finding_code. destruct (holdsb c) eqn:Hh; [left; reflexivity|right].
  unfold holdsb in Hh. destruct (tree_of c) as [t|] eqn:Tr; [|discriminate].
  destruct (wfb t) eqn:W; [|discriminate].
  rewrite M. cbn [negb andb].
  unfold mismatch in M. apply negb_false_iff in M. unfold model_rows in *. unfold tree_of in Tr. rewrite Tr in *.
  rewrite (rows_link _ _ t Tr W (HS t eq_refl) _ _ M). reflexivity.
Qed.

(* unconditional for every case whose root is not a steps curve *)
Definition root_steps (c : case) : bool :=
  match tree_of c with Some t => root_is_steps t | None => false end.

Theorem curves_no_false_alarm_nonsteps c : root_steps c = false ->
  mismatch c = false -> holdsb c = true \/ finding_code c = 1.
Proof.
  intros R. apply curves_link. intros t Tr Rs. unfold root_steps in R. rewrite Tr in R. congruence.
Qed.

Theorem curves_no_false_alarm : StepsDocClose -> forall c,
  mismatch c = false -> holdsb c = true \/ finding_code c = 1.
Proof. intros H c. apply curves_link. intros; exact H. Qed.

(* equivalently: the model's own rows pass the observer unless a PID term was NaN *)
Theorem curves_model_passes c t : tree_of c = Some t -> wfb t = true -> (root_is_steps t = true -> StepsDocClose) ->
  mismatch c = false ->
  all2b (fun (mr : mrow) ev => ev_okb t ev || m_nan mr) (model_rows (c_graph c) (c_root c) (c_evs c)) (c_evs c) = true.
Proof.
  intros Tr W HS M. unfold mismatch in M. apply negb_false_iff in M. unfold model_rows in *. unfold tree_of in Tr.
  rewrite Tr in *. now apply rows_link.
Qed.
