(* C07 observer link, request / written ("no false alarm"): whenever the implementation's
   observations of a `curvesctrl` case equal the model's, the observer of Drv/CurvesCtrl.v passes.
   From C07_request (rescale monotone, all fan limits) and C07_written (nearest specification of
   FindClosest, non-decreasing PWM map).  No recorded finding is involved. *)
From Coq Require Import ZArith Lia Floats Bool List Sorting.Sorted Relations.
From F2G Require Import Go.GoFloat gen.Consts Model.Util Model.ControlLoop Model.Controller
  Proofs.Rescale Proofs.Closest Proofs.CurveMono Drv.Common.
From F2G Require Drv.CurvesCtrl.
Import ListNotations.
Open Scope Z_scope.
Import CurvesCtrl.

(* every generated case: PWM-map outputs are PWM values (>= 0) *)
Definition case_wf (c : case) : Prop := Forall (fun kv => 0 <= snd kv) (c_pm c).
Definition case_wfb (c : case) : bool := forallb (fun kv => 0 <=? snd kv) (c_pm c).
Lemma case_wfb_wf c : case_wfb c = true -> case_wf c.
Proof.
  unfold case_wfb, case_wf. rewrite forallb_forall, Forall_forall. intros H x Hx. apply Z.leb_le. auto.
Qed.

Lemma list_eqb_Z l1 l2 : list_eqb Z.eqb l1 l2 = true -> l1 = l2.
Proof. apply list_eqb_Z_eq. Qed.

Lemma zrange_len n a : length (zrange n a) = n.
Proof. revert a. induction n as [|n IH]; intros a; cbn; [reflexivity|now rewrite IH]. Qed.

Lemma zrange_in n : forall a v, In v (zrange n a) -> a <= v < a + Z.of_nat n.
Proof.
  induction n as [|n IH]; intros a v H; [contradiction|]. cbn [zrange] in H. destruct H as [<-|H]; [lia|].
  apply IH in H. lia.
Qed.

(* a function that is monotone and non-negative on a..a+n maps the range to a non-decreasing list *)
Lemma map_range_nondec (f : Z -> Z) n : forall a,
  (forall v, a <= v -> v + 1 < a + Z.of_nat n -> f v <= f (v + 1)) -> nondecb (map f (zrange n a)) = true.
Proof.
  induction n as [|n IH]; intros a H; [reflexivity|]. destruct n as [|n]; [reflexivity|].
  change (zrange (S (S n)) a) with (a :: (a + 1) :: zrange n (a + 1 + 1)).
  change (nondecb (map f (a :: (a + 1) :: zrange n (a + 1 + 1))))
    with ((f a <=? f (a + 1)) && nondecb (map f (zrange (S n) (a + 1)))).
  apply andb_true_iff. split; [apply Z.leb_le, H; lia|].
  apply IH. intros v Hv Hv2. apply H; lia.
Qed.

Lemma map_range_nonneg (f : Z -> Z) n a :
  (forall v, a <= v < a + Z.of_nat n -> 0 <= f v) -> forallb (fun r => 0 <=? r) (map f (zrange n a)) = true.
Proof.
  intros H. apply forallb_forall. intros x Hx. apply in_map_iff in Hx. destruct Hx as (v & <- & Hv).
  apply Z.leb_le, H. now apply zrange_in.
Qed.

Lemma strictb_sorted l : strictb l = true -> StronglySorted Z.lt l.
Proof.
  intros H. apply Sorted_StronglySorted; [intros x y z; lia|].
  induction l as [|x l IH]; [constructor|]. destruct l as [|y r]; [repeat constructor|].
  change (strictb (x :: y :: r)) with ((x <? y) && strictb (y :: r)) in H.
  apply andb_true_iff in H. destruct H as [H1 H2]. constructor; [apply IH, H2|constructor; now apply Z.ltb_lt].
Qed.
Lemma nondecb_sorted l : nondecb l = true -> StronglySorted Z.le l.
Proof.
  intros H. apply Sorted_StronglySorted; [intros x y z; lia|].
  induction l as [|x l IH]; [constructor|]. destruct l as [|y r]; [repeat constructor|].
  change (nondecb (x :: y :: r)) with ((x <=? y) && nondecb (y :: r)) in H.
  apply andb_true_iff in H. destruct H as [H1 H2]. constructor; [apply IH, H2|constructor; now apply Z.leb_le].
Qed.

Lemma direct_none_mono v v' : v <= v' -> direct_cycle None v 0 <= direct_cycle None v' 0.
Proof.
  intros H. unfold direct_cycle, clampZ.
  destruct (255 <? v) eqn:E1; destruct (255 <? v') eqn:E2; destruct (v <? 0) eqn:E3; destruct (v' <? 0) eqn:E4;
    rewrite ?Z.ltb_lt, ?Z.ltb_ge in *; lia.
Qed.

Theorem ctrl_no_false_alarm c : case_wf c -> mismatch c = false -> holdsb c = true.
Proof.
  intros Wf M. unfold mismatch in M. apply negb_false_iff in M. cbv zeta in M.
  apply andb_true_iff in M. destruct M as [Mr Mw]. apply list_eqb_Z in Mr, Mw.
  unfold holdsb. destruct (limits_okb c) eqn:Lim; [|reflexivity].
  unfold limits_okb in Lim. apply andb_true_iff in Lim. destruct Lim as [Lim L3]. apply andb_true_iff in Lim.
  destruct Lim as [L1 L2]. apply Z.leb_le in L1, L2, L3.
  assert (Freq : forall v, 0 <= model_req c v).
  { intros v. unfold model_req. pose proof (clamp_target_range (direct_cycle None v 0)).
    pose proof (rescale_bounds (clamp_target (direct_cycle None v 0)) (c_lo c) (c_hi c) ltac:(lia) L1 L2 L3). lia. }
  assert (Mreq : forall v v', v <= v' -> model_req c v <= model_req c v').
  { intros v v' H. unfold model_req. apply request_mono; try assumption. now apply direct_none_mono. }
  rewrite <- Mr, <- Mw. rewrite !map_length, zrange_len. cbn [Nat.eqb andb].
  rewrite (map_range_nonneg (model_req c) 256 0) by (intros; apply Freq).
  rewrite (map_range_nondec (model_req c) 256 0) by (intros; apply Mreq; lia). cbn [andb].
  destruct (pm_nondecb (c_pm c)) eqn:Pm; [|reflexivity].
  unfold pm_nondecb in Pm. apply andb_true_iff in Pm. destruct Pm as [Pm P3]. apply andb_true_iff in Pm. destruct Pm as [P1 P2].
  assert (NE : c_pm c <> []) by (intro E; rewrite E in P1; discriminate).
  pose proof (strictb_sorted _ P2) as SK. pose proof (nondecb_sorted _ P3) as SV.
  set (g := fun v => match FindClosest (model_req c v) (supported (c_pm c)) with FcVal k => lookup (c_pm c) k | _ => -1 end).
  assert (Gw : forall v, written (c_pm c) (model_req c v) = FcVal (g v) /\ 0 <= g v).
  { intros v. destruct (written_spec (c_pm c) (model_req c v) NE SK) as (k & Ek & _ & Wk & Hin).
    subst g. cbv beta. rewrite Ek. split; [exact Wk|].
    unfold case_wf in Wf. rewrite Forall_forall in Wf. apply in_map_iff in Hin. destruct Hin as (kv & <- & Hkv). now apply Wf. }
  fold g. rewrite (map_range_nonneg g 256 0) by (intros; apply Gw).
  rewrite (map_range_nondec g 256 0); [reflexivity|].
  intros v _ _. destruct (Gw v) as [W1 _]. destruct (Gw (v + 1)) as [W2 _].
  apply (written_mono (c_pm c) (model_req c v) (model_req c (v + 1)) _ _ NE (conj SK SV)); [apply Mreq; lia|exact W1|exact W2].
Qed.
