(* C07 observer link, curve level ("no false alarm"): whenever the implementation's observations of
   a `curvesmono` case equal the model's, the observer of Drv/CurvesMono.v can only fail on the
   recorded finding D19 (a steps curve with a non-integer speed somewhere in the tree).  The
   monotone pairs the observer demands follow from C07_tree over leaves that are monotone by
   C07_lin_minmax (min/max form) and C07_steps_integer (steps with integer non-decreasing speeds). *)
From Coq Require Import ZArith Lia Floats Bool List SpecFloat.
From F2G Require Import Go.GoFloat Model.Util Model.ControlLoop Model.Curves
  Proofs.CurveLinMono Proofs.CurveFn Proofs.CurveMono Proofs.CurveSteps Proofs.StepsMono
  Proofs.CurveLinks Drv.Common Drv.Curves.
From F2G Require Drv.CurvesMono.
Import ListNotations.
Open Scope Z_scope.

Lemma feqb_eq x y : feqb x y = true -> x = y.
Proof.
  unfold feqb. intros H.
  rewrite <- (FloatAxioms.SF2Prim_Prim2SF x), <- (FloatAxioms.SF2Prim_Prim2SF y). f_equal.
  destruct (Prim2SF x) as [a|a| |a m e], (Prim2SF y) as [b|b| |b m' e']; try discriminate; try reflexivity.
  - apply eqb_prop in H. congruence.
  - apply eqb_prop in H. congruence.
  - apply andb_true_iff in H. destruct H as [H H3]. apply andb_true_iff in H. destruct H as [H1 H2].
    apply eqb_prop in H1. apply Pos.eqb_eq in H2. apply Z.eqb_eq in H3. congruence.
Qed.

(* ---- well-formed cases: integer step speeds are in canonical form (float64 of an int 0..255;
   excludes only -0.0, which no configuration decoder and no generator produces) ---- *)
Definition canon_speedb (y : f64) : bool :=
  negb (speed_okb y) || negb (CurvesMono.is_intb y) || (feqb y (i2f (f2i y)) && in255b (f2i y)).

Fixpoint canon_treeb (t : curve) : bool :=
  match t with
  | Lin c => match l_steps c with Some steps => forallb (fun kv => canon_speedb (snd kv)) steps | None => true end
  | PidC _ => true
  | Fn _ ms => (fix go (l : list curve) : bool := match l with [] => true | m :: r => canon_treeb m && go r end) ms
  end.

Definition case_wfb (c : case) : bool :=
  match tree_of c with Some t => canon_treeb t | None => true end.
Definition case_wf (c : case) : Prop := forall t, tree_of c = Some t -> canon_treeb t = true.
Lemma case_wfb_wf c : case_wfb c = true -> case_wf c.
Proof. unfold case_wfb, case_wf. intros H t E. now rewrite E in H. Qed.

(* ---- leaves ---- *)
Lemma speeds_nondecb_spec : forall steps, CurvesMono.speeds_nondecb steps = true -> speeds_nondec steps.
Proof.
  induction steps as [|[k y] r IH]; [intros _; exact I|]. destruct r as [|[k' y'] r'].
  - intros _. exact I.
  - intros H. change (CurvesMono.speeds_nondecb ((k, y) :: (k', y') :: r'))
      with (PrimFloat.leb y y' && CurvesMono.speeds_nondecb ((k', y') :: r')) in H.
    apply andb_true_iff in H. destruct H as [H1 H2].
    change (speeds_nondec ((k, y) :: (k', y') :: r')) with (PrimFloat.leb y y' = true /\ speeds_nondec ((k', y') :: r')).
    split; [exact H1|apply IH; exact H2].
Qed.

Lemma leaf_link c : CurvesMono.mono_classb (Lin c) = true -> CurvesMono.has_fractionalb (Lin c) = false ->
  canon_treeb (Lin c) = true -> leaf_mono c.
Proof.
  cbn [CurvesMono.mono_classb CurvesMono.has_fractionalb canon_treeb]. intros M F C.
  apply andb_true_iff in M. destruct M as [W M].
  destruct (l_steps c) as [steps|] eqn:S.
  - destruct (wf_linb_steps c steps W S) as [Ne R].
    apply negb_false_iff in F.
    apply (steps_int_leaf_mono c steps S Ne); [|now apply speeds_nondecb_spec].
    unfold steps_int_speeds. apply Forall_forall. intros kv Hin.
    rewrite forallb_forall in F, C. specialize (F kv Hin). specialize (C kv Hin).
    unfold speeds_in_range in R. rewrite Forall_forall in R. specialize (R kv Hin).
    unfold canon_speedb in C. unfold speed_okb in C. destruct R as [R1 R2]. rewrite R1, R2, F in C. cbn in C.
    apply andb_true_iff in C. destruct C as [C1 C2]. apply feqb_eq in C1. apply in255b_spec in C2.
    exists (f2i (snd kv)). split; [exact C2|exact C1].
  - destruct (wf_linb_small c W S) as [Sm _]. intros T1 T2 L. exact (lin_minmax_mono c T1 T2 S Sm L).
Qed.

(* ---- trees ---- *)
Fixpoint all_classb (l : list curve) : bool := match l with [] => true | m :: r => CurvesMono.mono_classb m && all_classb r end.
Fixpoint any_fracb (l : list curve) : bool := match l with [] => false | m :: r => CurvesMono.has_fractionalb m || any_fracb r end.
Fixpoint all_canonb (l : list curve) : bool := match l with [] => true | m :: r => canon_treeb m && all_canonb r end.

Lemma mono_tyb_spec ty : CurvesMono.mono_tyb ty = true -> mono_ty ty.
Proof. unfold mono_ty. destruct ty; try discriminate; auto. Qed.

Lemma tree_link t : CurvesMono.mono_classb t = true -> CurvesMono.has_fractionalb t = false ->
  canon_treeb t = true -> mono_tree t.
Proof.
  induction t as [c|c|ty ms IH] using curve_ind2; intros M F C.
  - cbn [mono_tree]. now apply leaf_link.
  - discriminate.
  - change (CurvesMono.mono_classb (Fn ty ms)) with
      (CurvesMono.mono_tyb ty && negb (match ms with [] => true | _ => false end) && (Z.of_nat (length ms) <? big) && all_classb ms) in M.
    change (CurvesMono.has_fractionalb (Fn ty ms)) with (any_fracb ms) in F.
    change (canon_treeb (Fn ty ms)) with (all_canonb ms) in C.
    apply andb_true_iff in M. destruct M as [M M4]. apply andb_true_iff in M. destruct M as [M M3].
    apply andb_true_iff in M. destruct M as [M1 M2].
    cbn [mono_tree]. split; [now apply mono_tyb_spec|]. split; [intro; subst; discriminate|].
    split; [apply Z.ltb_lt in M3; exact M3|].
    clear M1 M2 M3. induction IH as [|m r Hm Hr IHr]; [exact I|].
    cbn [all_classb any_fracb all_canonb] in *.
    apply andb_true_iff in M4. destruct M4 as [A1 A2]. apply orb_false_iff in F. destruct F as [F1 F2].
    apply andb_true_iff in C. destruct C as [C1 C2]. split; [apply Hm; assumption|apply IHr; assumption].
Qed.

Fixpoint all_leb_on (l : list curve) (e1 e2 : env) : bool :=
  match l with [] => true | m :: r => CurvesMono.env_leb_on m e1 e2 && all_leb_on r e1 e2 end.
Lemma env_leb_on_Fn ty ms e1 e2 : CurvesMono.env_leb_on (Fn ty ms) e1 e2 = all_leb_on ms e1 e2.
Proof.
  cbn [CurvesMono.env_leb_on]. induction ms as [|m r IH]; [reflexivity|]. cbn [all_leb_on]. rewrite <- IH. reflexivity.
Qed.

Lemma env_link t e1 e2 : CurvesMono.env_leb_on t e1 e2 = true -> env_le_on t e1 e2.
Proof.
  induction t as [c|c|ty ms IH] using curve_ind2; intros H.
  - cbn [CurvesMono.env_leb_on] in H. cbn [env_le_on].
    destruct (lookup_sensor e1 (l_sensor c)) as [s1|]; [|discriminate].
    destruct (lookup_sensor e2 (l_sensor c)) as [s2|]; [|discriminate]. exists s1, s2. auto.
  - discriminate.
  - rewrite env_leb_on_Fn in H. cbn [env_le_on].
    induction IH as [|m r Hm Hr IHr]; [exact I|].
    cbn [all_leb_on] in H. apply andb_true_iff in H. destruct H as [A B]. split; [apply Hm, A|apply IHr, B].
Qed.

(* ---- pairs of calls ---- *)
Lemma pairs_link g root t : tree_of_gr g root = Some t -> mono_tree t ->
  forall n evs s, (length evs <= n)%nat ->
  all2b ev_agrees (model_run g root (Some t) evs s) evs = true -> CurvesMono.pairs_okb t evs = true.
Proof.
  intros Tr Mt. induction n as [|n IH]; intros evs s Hn A.
  - destruct evs; [reflexivity|cbn in Hn; lia].
  - destruct evs as [|a [|b r]]; [reflexivity|reflexivity|].
    cbn [CurvesMono.pairs_okb]. rewrite model_run_cons in A. cbv zeta in A. rewrite model_run_cons in A. cbv zeta in A.
    cbn [all2b] in A. apply andb_true_iff in A. destruct A as [Aa A]. apply andb_true_iff in A. destruct A as [Ab Ar].
    apply andb_true_iff. split.
    + unfold CurvesMono.pair_okb. destruct (CurvesMono.env_leb_on t (ev_env a) (ev_env b)) eqn:LE; [|reflexivity].
      pose proof (env_link _ _ _ LE) as Le. unfold tree_of_gr in Tr.
      rewrite (geval_unfold _ _ _ _ _ _ _ Tr) in Aa. rewrite (geval_unfold _ _ _ _ _ _ _ Tr) in Ab.
      edestruct (tree_mono t (ev_env a) (ev_env b)) as (v1 & v2 & E1 & E2 & B0 & B1 & B2); [exact Mt|exact Le|].
      rewrite E1 in Aa. rewrite E2 in Ab. unfold ev_agrees in Aa, Ab. cbn [fst snd out_kind m_kind m_val m_cur] in Aa, Ab.
      apply andb_true_iff in Aa. destruct Aa as [Aa _]. apply andb_true_iff in Aa. destruct Aa as [Aa _].
      apply andb_true_iff in Aa. destruct Aa as [Ka Va].
      apply andb_true_iff in Ab. destruct Ab as [Ab _]. apply andb_true_iff in Ab. destruct Ab as [Ab _].
      apply andb_true_iff in Ab. destruct Ab as [Kb Vb].
      apply Z.eqb_eq in Ka, Va, Kb, Vb. rewrite <- Ka, <- Kb, <- Va, <- Vb. cbn [Z.eqb andb]. apply Z.leb_le. exact B1.
    + eapply IH; [|exact Ar]. cbn [length] in Hn. lia.
Qed.

(* ---- the link theorem ---- *)
Theorem mono_no_false_alarm c : case_wf c -> CurvesMono.mismatch c = false ->
  CurvesMono.holdsb c = true \/ CurvesMono.finding_code c = 2.
Proof.
  intros Wf M. unfold CurvesMono.finding_code. destruct (CurvesMono.holdsb c) eqn:Hh; [left; reflexivity|right].
  unfold CurvesMono.holdsb in Hh. destruct (tree_of c) as [t|] eqn:Tr; [|discriminate].
  destruct (CurvesMono.mono_classb t) eqn:Cl; [|discriminate].
  rewrite M. cbn [negb andb].
  destruct (CurvesMono.has_fractionalb t) eqn:Fr; [reflexivity|exfalso].
  pose proof (tree_link t Cl Fr (Wf t Tr)) as Mt.
  unfold CurvesMono.mismatch, mismatch in M. apply negb_false_iff in M. unfold model_rows in M.
  unfold tree_of in Tr. rewrite Tr in M.
  rewrite (pairs_link _ _ t Tr Mt _ _ _ (le_n _) M) in Hh. discriminate.
Qed.

(* for trees without fractional step speeds the observer passes outright *)
Theorem mono_model_passes c t : case_wf c -> tree_of c = Some t -> CurvesMono.has_fractionalb t = false ->
  CurvesMono.mismatch c = false -> CurvesMono.holdsb c = true.
Proof.
  intros Wf Tr Fr M. destruct (mono_no_false_alarm c Wf M) as [H|H]; [exact H|].
  unfold CurvesMono.finding_code in H. rewrite Tr, Fr in H. rewrite andb_false_r in H. discriminate.
Qed.
