(* C07, everything that does not need float reasoning: function curves preserve the pointwise
   order (sum / max / min / average), trees of monotone leaves are monotone (structural
   induction), the request is monotone in the curve value (from Proofs/Rescale.v) and the
   written value is monotone in the request for a non-decreasing PWM map (from the nearest
   specification of FindClosest in Proofs/Closest.v). *)
From Coq Require Import ZArith Bool List Floats Lia Sorting.Sorted.
From F2G Require Import Go.GoFloat gen.Consts Model.Util Model.Controller Model.Curves
  Proofs.Rescale Proofs.Closest Proofs.CurveFn.
Import ListNotations.
Open Scope Z_scope.

(* ---- C07_fn on the code's aggregation switch ---- *)
Theorem agg_mono ty vs vs' a a' :
  mono_ty ty -> vs <> [] -> Forall in255 vs -> Forall in255 vs' -> small_len vs ->
  Forall2 Z.le vs vs' -> agg ty vs = Val a -> agg ty vs' = Val a' -> a <= a'.
Proof.
  intros M N H H' L LE A A'.
  assert (N' : vs' <> []) by (intro; subst; inversion LE; subst; congruence).
  assert (L' : small_len vs') by (unfold small_len in *; rewrite <- (Forall2_len _ _ _ LE); exact L).
  rewrite agg_is_spec in A, A' by assumption. inversion A; inversion A'; subst.
  now apply agg_spec_mono.
Qed.

(* ---- C07_tree ---- *)
(* a monotone leaf: over ALL float temperatures (leb = true excludes NaN) it yields values in
   0..255 that do not decrease *)
Definition leaf_mono (c : lincfg) : Prop :=
  forall T1 T2, PrimFloat.leb T1 T2 = true ->
  exists v1 v2, eval_lin c T1 = Val v1 /\ eval_lin c T2 = Val v2 /\ 0 <= v1 /\ v1 <= v2 /\ v2 <= 255.

Fixpoint mono_tree (t : curve) : Prop :=
  match t with
  | Lin c => leaf_mono c
  | PidC _ => False
  | Fn ty ms => mono_ty ty /\ ms <> [] /\ Z.of_nat (length ms) < 2 ^ 40 /\
                (fix go (l : list curve) : Prop := match l with [] => True | m :: r => mono_tree m /\ go r end) ms
  end.

(* every sensor the tree reads is registered in both states and is not colder in the second *)
Fixpoint env_le_on (t : curve) (e1 e2 : env) : Prop :=
  match t with
  | Lin c => exists s1 s2, lookup_sensor e1 (l_sensor c) = Some s1 /\ lookup_sensor e2 (l_sensor c) = Some s2
                           /\ PrimFloat.leb (s_avg s1) (s_avg s2) = true
  | PidC _ => False
  | Fn _ ms => (fix go (l : list curve) : Prop := match l with [] => True | m :: r => env_le_on m e1 e2 /\ go r end) ms
  end.

Fixpoint all_mono (l : list curve) : Prop := match l with [] => True | m :: r => mono_tree m /\ all_mono r end.
Fixpoint all_le_on (l : list curve) (e1 e2 : env) : Prop :=
  match l with [] => True | m :: r => env_le_on m e1 e2 /\ all_le_on r e1 e2 end.

Definition tree_mono_at (t : curve) : Prop :=
  forall e1 e2 now1 now2 st1 st2, mono_tree t -> env_le_on t e1 e2 ->
  exists v1 v2, eval t e1 now1 st1 = (Val v1, st1) /\ eval t e2 now2 st2 = (Val v2, st2)
                /\ 0 <= v1 /\ v1 <= v2 /\ v2 <= 255.

Lemma members_mono ms : Forall tree_mono_at ms ->
  forall e1 e2 now1 now2 st1 st2, all_mono ms -> all_le_on ms e1 e2 ->
  exists vs1 vs2, eval_members ms e1 now1 st1 = (MVals vs1, st1) /\ eval_members ms e2 now2 st2 = (MVals vs2, st2)
                  /\ Forall in255 vs1 /\ Forall in255 vs2 /\ Forall2 Z.le vs1 vs2 /\ length vs1 = length ms.
Proof.
  induction 1 as [|m r Hm Hr IH]; intros e1 e2 now1 now2 st1 st2 M L.
  - exists [], []. cbn. repeat split; constructor.
  - destruct M as [Mm Mr]. destruct L as [Lm Lr].
    destruct (Hm e1 e2 now1 now2 st1 st2 Mm Lm) as (v1 & v2 & E1 & E2 & B0 & B1 & B2).
    destruct (IH e1 e2 now1 now2 st1 st2 Mr Lr) as (vs1 & vs2 & F1 & F2 & R1 & R2 & LE & Len).
    exists (v1 :: vs1), (v2 :: vs2). cbn [eval_members]. rewrite E1, E2, F1, F2.
    split; [reflexivity|]. split; [reflexivity|].
    split; [constructor; [unfold in255; lia|assumption]|].
    split; [constructor; [unfold in255; lia|assumption]|].
    split; [constructor; assumption|]. cbn [length]. congruence.
Qed.

Theorem tree_mono t : tree_mono_at t.
Proof.
  induction t as [c|c|ty ms IH] using curve_ind2; unfold tree_mono_at; intros e1 e2 now1 now2 st1 st2 M L.
  - cbn [mono_tree env_le_on] in M, L. destruct L as (s1 & s2 & L1 & L2 & LE).
    destruct (M _ _ LE) as (v1 & v2 & E1 & E2 & B). exists v1, v2. cbn [eval]. rewrite L1, L2, E1, E2. auto.
  - contradiction.
  - cbn [mono_tree] in M. destruct M as (Mty & Nne & Len & Mall).
    cbn [env_le_on] in L.
    assert (Mall' : all_mono ms) by (clear - Mall; induction ms; cbn in *; tauto).
    assert (L' : all_le_on ms e1 e2) by (clear - L; induction ms; cbn in *; tauto).
    destruct (members_mono ms IH e1 e2 now1 now2 st1 st2 Mall' L') as (vs1 & vs2 & F1 & F2 & R1 & R2 & LE & Ln).
    rewrite !eval_Fn, F1, F2.
    assert (N1 : vs1 <> []) by (intro; subst; cbn in Ln; destruct ms; [congruence|discriminate]).
    assert (N2 : vs2 <> []) by (intro; subst; inversion LE; subst; congruence).
    assert (S1 : small_len vs1) by (unfold small_len; rewrite Ln; exact Len).
    assert (S2 : small_len vs2) by (unfold small_len; rewrite <- (Forall2_len _ _ _ LE), Ln; exact Len).
    rewrite !agg_is_spec by assumption.
    exists (agg_spec ty vs1), (agg_spec ty vs2). repeat split.
    + apply (agg_spec_range ty vs1 N1 R1).
    + now apply agg_spec_mono.
    + apply (agg_spec_range ty vs2 N2 R2).
Qed.

(* range half, as a statement of its own *)
Theorem tree_range t e now st : mono_tree t -> env_le_on t e e ->
  exists v, eval t e now st = (Val v, st) /\ 0 <= v <= 255.
Proof.
  intros M L. destruct (tree_mono t e e now now st st M L) as (v1 & v2 & E1 & E2 & A & B & C).
  exists v1. split; [exact E1|]. rewrite E1 in E2. inversion E2; subst. lia.
Qed.

(* the range statement over ALL well-formed trees (any of the six function types, PID leaves):
   kept visible, not proved as one theorem (see Props/C06.v for the parts that are) *)
Definition leaf_range (c : lincfg) : Prop :=
  forall T, is_nan T = false -> exists v, eval_lin c T = Val v /\ 0 <= v <= 255.
Fixpoint wf_tree (t : curve) : Prop :=
  match t with
  | Lin c => leaf_range c
  | PidC _ => True
  | Fn _ ms => ms <> [] /\ Z.of_nat (length ms) < 2 ^ 40 /\
               (fix go (l : list curve) : Prop := match l with [] => True | m :: r => wf_tree m /\ go r end) ms
  end.
Definition env_finite (e : env) : Prop :=
  forall id s, lookup_sensor e id = Some s -> is_nan (s_avg s) = false.
Definition range_full : Prop :=
  forall t e now st v st', wf_tree t -> env_finite e -> rt_nan st = false ->
  eval t e now st = (Val v, st') -> rt_nan st' = false -> 0 <= v <= 255.

(* ---- C07_request ---- *)
Lemma clamp_target_mono v v' : v <= v' -> clamp_target v <= clamp_target v'.
Proof.
  intros H. unfold clamp_target, ClampHiTest, ClampHiSet, ClampLoTest, ClampLoSet, MaxPwmValue, MinPwmValue.
  destruct (255 <? v) eqn:E1; destruct (255 <? v') eqn:E2; destruct (v <? 0) eqn:E3; destruct (v' <? 0) eqn:E4;
    rewrite ?Z.ltb_lt, ?Z.ltb_ge in *; lia.
Qed.

Theorem request_mono v v' lo hi : v <= v' -> 0 <= lo -> lo <= hi -> hi <= 255 ->
  rescale_c (clamp_target v) lo hi <= rescale_c (clamp_target v') lo hi.
Proof.
  intros H H0 H1 H2. pose proof (clamp_target_range v). pose proof (clamp_target_range v').
  apply rescale_mono; try lia. now apply clamp_target_mono.
Qed.

(* ---- C07_written ---- *)
(* non-decreasing PWM map: outputs do not decrease along the (strictly sorted) keys *)
Definition nondecreasing (pm : list (Z * Z)) : Prop :=
  StronglySorted Z.lt (map fst pm) /\ StronglySorted Z.le (map snd pm).

Lemma lookup_ge_head (v : Z) (r : list (Z * Z)) (k' : Z) : StronglySorted Z.le (v :: map snd r) -> In k' (map fst r) -> v <= lookup r k'.
Proof.
  intros S Hin. apply StronglySorted_inv in S. destruct S as [_ F].
  rewrite Forall_forall in F. apply F. now apply lookup_in.
Qed.

Lemma lookup_mono pm : nondecreasing pm -> forall k k', In k (map fst pm) -> In k' (map fst pm) -> k <= k' ->
  lookup pm k <= lookup pm k'.
Proof.
  intros [SK SV]. induction pm as [|[k0 v0] r IH]; intros k k' Hk Hk' Hle; [contradiction|].
  cbn [map fst snd] in *. pose proof (StronglySorted_inv SK) as [SKr FK]. pose proof (StronglySorted_inv SV) as [SVr FV].
  rewrite Forall_forall in FK. cbn [lookup].
  destruct Hk as [->|Hk]; destruct Hk' as [->|Hk'].
  - lia.
  - rewrite Z.eqb_refl. destruct (k =? k') eqn:E; [lia|]. now apply (lookup_ge_head v0 r k').
  - specialize (FK _ Hk). lia.
  - pose proof (FK _ Hk). pose proof (FK _ Hk').
    destruct (k0 =? k) eqn:E1; [apply Z.eqb_eq in E1; lia|]. destruct (k0 =? k') eqn:E2; [apply Z.eqb_eq in E2; lia|].
    now apply IH.
Qed.

Lemma nearest_order arr r r' k k' : r < r' -> nearest arr r k -> nearest arr r' k' -> k <= k'.
Proof.
  intros Hr [Hk N] [Hk' N']. specialize (N k' Hk'). specialize (N' k Hk). lia.
Qed.

Theorem written_mono pm r r' w w' : pm <> [] -> nondecreasing pm -> r <= r' ->
  written pm r = FcVal w -> written pm r' = FcVal w' -> w <= w'.
Proof.
  intros NE ND Hr W W'. destruct (Z.eq_dec r r') as [->|Hne]; [rewrite W in W'; inversion W'; lia|].
  destruct ND as [SK SV].
  destruct (written_spec pm r NE SK) as (k & _ & N & Wk & _).
  destruct (written_spec pm r' NE SK) as (k' & _ & N' & Wk' & _).
  rewrite W in Wk. rewrite W' in Wk'. inversion Wk; inversion Wk'; subst.
  apply lookup_mono; [split; assumption| | |].
  - destruct N as [Hin _]. eapply extract_sub; eauto.
  - destruct N' as [Hin _]. eapply extract_sub; eauto.
  - apply (nearest_order (supported pm) r r'); auto. lia.
Qed.
