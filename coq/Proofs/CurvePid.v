(* PID curve: value = int(Coerce(term,0,1)*255); in 0..255 whenever the term is not NaN;
   a NaN term escapes Coerce and becomes int(NaN) = -2^63 (D18), with two witnesses. *)
From Coq Require Import ZArith Reals Lia Lra Floats Bool List.
From Flocq Require Import Core BinarySingleNaN.
From Flocq Require PrimFloat.
Import Flocq.IEEE754.PrimFloat.
From F2G Require Import Go.GoFloat Model.Util Model.ControlLoop Model.Curves Proofs.CurveFloat.
Import ListNotations.
Open Scope Z_scope.

(* ---- the full statement (false): every PID curve with finite gains over finite readings is in range ---- *)
Definition finite_pidcfg (c : pidcfg) : Prop :=
  is_finite (p_set c) = true /\ is_finite (p_kp c) = true /\ is_finite (p_ki c) = true /\ is_finite (p_kd c) = true.

(* a run: successive calls (dt_ns, reading) on a fresh curve; the last value *)
Fixpoint pid_run (c : pidcfg) (calls : list (Z * f64)) (now : Z) (st : rtstate) : list Z :=
  match calls with
  | [] => []
  | (dt, m) :: r =>
      match eval (PidC c) [(p_sensor c, mkSen m (Some m))] (now + dt) st with
      | (Val v, st') => v :: pid_run c r (now + dt) st'
      | (_, st') => pid_run c r (now + dt) st'
      end
  end.

Definition C06_pid_full : Prop :=
  forall c calls, finite_pidcfg c -> Forall (fun dm => 0 <= fst dm /\ is_finite (snd dm) = true) calls ->
  Forall (fun v => 0 <= v <= 255) (pid_run c calls 0 init_rts).

(* witness 1: dt = 0 between two calls with an unchanged reading: derivative = 0/0 *)
Definition nan_cfg_dt0 : pidcfg := mkPidCfg 0 0 50 (-0x1.999999999999ap-5) (-0x1.47ae147ae147bp-8) (-0x1.47ae147ae147bp-8)   (* -0.05 -0.005 -0.005 *).
Definition nan_calls_dt0 : list (Z * f64) := [(1000000000, 60000%float); (1000000000, 61000%float); (0, 61000%float)].
(* witness 2: dt = 1 s, finite but absurd gains of opposite sign: inf - inf *)
Definition nan_cfg_gain : pidcfg := mkPidCfg 0 0 50 (0x1.1ccf385ebc8ap1023) (-0x1.1ccf385ebc8ap1023) 0   (* 1e308, -1e308 *).
Definition nan_calls_gain : list (Z * f64) := [(1000000000, 20000%float); (1000000000, 20000%float)].

Lemma nan_dt0_run : pid_run nan_cfg_dt0 nan_calls_dt0 0 init_rts = [0; 155; - two63].
Proof. vm_compute. reflexivity. Qed.
Lemma nan_gain_run : pid_run nan_cfg_gain nan_calls_gain 0 init_rts = [0; - two63].
Proof. vm_compute. reflexivity. Qed.

Theorem pid_nan_refuted : ~ C06_pid_full.
Proof.
  intros H.
  assert (F : finite_pidcfg nan_cfg_dt0) by (repeat split).
  assert (G : Forall (fun dm => 0 <= fst dm /\ is_finite (snd dm) = true) nan_calls_dt0).
  { repeat constructor; cbn; lia. }
  specialize (H nan_cfg_dt0 nan_calls_dt0 F G). rewrite nan_dt0_run in H.
  inversion H as [|? ? _ H1]; subst. inversion H1 as [|? ? _ H2]; subst. inversion H2 as [|? ? H3 _]; subst.
  unfold two63 in H3. lia.
Qed.

Theorem pid_nan_refuted_gains : exists c calls,
  finite_pidcfg c /\ Forall (fun dm => 0 < fst dm /\ is_finite (snd dm) = true) calls /\
  In (- two63) (pid_run c calls 0 init_rts).
Proof.
  exists nan_cfg_gain, nan_calls_gain. split; [repeat split|]. split.
  - repeat constructor; cbn; lia.
  - rewrite nan_gain_run. right. left. reflexivity.
Qed.

(* ---- the true part: the value is what the code says, and in range for every non-NaN term ---- *)
Lemma R_1 : R_ 1%float = 1%R.
Proof. cbv -[IZR Rmult Rinv]. lra. Qed.

(* Coerce(x,0,1) for non-NaN x is a finite float in [0,1] *)
Lemma Coerce_01 x : is_nan x = false ->
  let y := Coerce x 0 1 in fin y = true /\ (0 <= R_ y <= 1)%R.
Proof.
  intros N. cbv zeta. unfold Coerce.
  destruct (PrimFloat.ltb 1 x) eqn:E1; [split; [reflexivity|rewrite R_1; lra]|].
  destruct (PrimFloat.ltb x 0) eqn:E2; [split; [reflexivity|rewrite R_0; lra]|].
  rewrite ltb_equiv in E1, E2. unfold is_nan in N. rewrite eqb_equiv in N.
  destruct (Prim2B x) as [s|s| |s m e B] eqn:P.
  - split; [reflexivity|simpl; lra].
  - destruct s; [vm_compute in E2|vm_compute in E1]; discriminate.
  - vm_compute in N. discriminate.
  - assert (Fx : BinarySingleNaN.is_finite (B754_finite s m e B) = true) by reflexivity.
    rewrite Bltb_correct in E1, E2 by (try assumption; reflexivity).
    change (B2R (Prim2B 1)) with (R_ 1%float) in E1. change (B2R (Prim2B 0)) with (R_ 0%float) in E2.
    rewrite R_1 in E1. rewrite R_0 in E2.
    split; [reflexivity|].
    revert E1 E2. case Rlt_bool_spec; [discriminate|]. intros C1 _. case Rlt_bool_spec; [discriminate|]. intros C2 _. lra.
Qed.
