(* C06_pid: the PID curve's value is int(Coerce(term,0,1)*255), in 0..255 whenever the term is not NaN *)
From Coq Require Import ZArith Reals Lia Lra Floats Bool List.
From Flocq Require Import Core BinarySingleNaN.
From Flocq Require PrimFloat.
Import Flocq.IEEE754.PrimFloat.
From F2G Require Import Go.GoFloat Model.Util Model.ControlLoop Model.Curves Proofs.CurveFloat Proofs.CurveLin Proofs.CurvePid.
Open Scope Z_scope.

Theorem pid_value_range loopv : is_nan loopv = false -> 0 <= pid_value loopv <= 255.
Proof.
  intros N. unfold pid_value. destruct (Coerce_01 loopv N) as [F [G0 G1]].
  set (y := Coerce loopv 0 1) in *.
  assert (B : (Rabs (R_ y * R_ 255%float) <= bpow radix2 8)%R).
  { rewrite R_255. simpl bpow. apply Rabs_le. lra. }
  destruct (fmul_correct y 255%float 8 F eq_refl ltac:(unfold emax; lia) B) as [Fp Rp]. rewrite R_255 in Rp.
  assert (R0 : (0 <= rnd (R_ y * 255) <= 255)%R).
  { split; [rewrite <- rnd_0; apply rnd_le; lra|].
    replace 255%R with (rnd (IZR 255)) at 2 by (apply rnd_int; reflexivity). apply rnd_le. simpl. lra. }
  rewrite f2i_trunc; [|exact Fp|rewrite Rp; apply Rle_lt_trans with 255%R; [apply Rabs_le; lra|unfold two63; lra]].
  rewrite Rp. split.
  - apply Z.le_trans with (Ztrunc (IZR 0)); [rewrite Ztrunc_IZR; lia|apply Ztrunc_le; lra].
  - apply Z.le_trans with (Ztrunc (IZR 255)); [apply Ztrunc_le; lra|rewrite Ztrunc_IZR; lia].
Qed.

(* the curve, as evaluated: registered sensor, successful read *)
Theorem pid_eval_value c s m now st : s_val s = Some m ->
  let rt := match lookup_pid (rt_pids st) (p_id c) with Some rt => rt | None => init_pidrt c end in
  let loopv := snd (pid_term c rt m now) in
  fst (eval_pid c s now st) = Val (pid_value loopv) /\ (is_nan loopv = false -> 0 <= pid_value loopv <= 255).
Proof.
  intros E. cbv zeta. unfold eval_pid. rewrite E.
  destruct (pid_term c _ m now) as [p' loopv] eqn:P. cbn [fst snd]. split; [reflexivity|apply pid_value_range].
Qed.
