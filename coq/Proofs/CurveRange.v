(* C06_range_full assembled: every well-formed curve tree — all six function types, any depth,
   min/max and steps leaves that are total and in range on non-NaN readings, PID leaves — evaluates
   to a value in 0..255 whenever no PID term was NaN during the call; and, when every sensor it
   reads is registered and delivers a value, the evaluation is total (no error, no panic).
   Structural induction (curve_ind2) over the nested tree; the leaves come from C06_fn_range,
   C06_lin_minmax_range, C06_steps_range and C06_pid (instantiated in Proofs/CurveLinks.v). *)
From Coq Require Import ZArith Bool List Floats Lia.
From F2G Require Import Go.GoFloat Model.Util Model.ControlLoop Model.Curves
  Proofs.CurveFn Proofs.CurveMono Proofs.CurvePidRange.
Import ListNotations.
Open Scope Z_scope.

Fixpoint all_wf (l : list curve) : Prop := match l with [] => True | m :: r => wf_tree m /\ all_wf r end.

Lemma wf_tree_Fn ty ms : wf_tree (Fn ty ms) <-> ms <> [] /\ Z.of_nat (length ms) < 2 ^ 40 /\ all_wf ms.
Proof.
  cbn [wf_tree]. assert (H : forall l, (fix go (l : list curve) : Prop := match l with [] => True | m :: r => wf_tree m /\ go r end) l <-> all_wf l).
  { induction l as [|m r IH]; cbn; [tauto|]. rewrite IH. tauto. }
  rewrite H. tauto.
Qed.

Lemma agg_val ty vs : vs <> [] -> exists v, agg ty vs = Val v.
Proof. intros N. destruct vs as [|x r]; [congruence|]. destruct ty; cbn [agg]; eauto. Qed.

(* ---- the ghost flag only ever goes up ---- *)
Lemma eval_pid_nan c s now st o st' : eval_pid c s now st = (o, st') -> rt_nan st = true -> rt_nan st' = true.
Proof.
  unfold eval_pid. destruct (s_val s) as [m|].
  - destruct (pid_term c _ m now) as [p' lv]. intros E H. inversion E; subst. cbn. now rewrite H.
  - intros E H. inversion E; subst. exact H.
Qed.

Definition nan_mono_at (t : curve) : Prop :=
  forall e now st o st', eval t e now st = (o, st') -> rt_nan st = true -> rt_nan st' = true.

Lemma members_nan ms : Forall nan_mono_at ms ->
  forall e now st r st', eval_members ms e now st = (r, st') -> rt_nan st = true -> rt_nan st' = true.
Proof.
  induction 1 as [|m r Hm Hr IH]; intros e now st res st' E H.
  - cbn in E. inversion E; subst. exact H.
  - cbn [eval_members] in E. destruct (eval m e now st) as [o s1] eqn:Em.
    pose proof (Hm _ _ _ _ _ Em H) as H1.
    destruct o as [v|v| |]; try (inversion E; subst; exact H1).
    destruct (eval_members r e now s1) as [rr s2] eqn:Er. pose proof (IH _ _ _ _ _ Er H1) as H2.
    destruct rr; inversion E; subst; exact H2.
Qed.

Lemma nan_mono t : nan_mono_at t.
Proof.
  induction t as [c|c|ty ms IH] using curve_ind2; unfold nan_mono_at; intros e now st o st' E H.
  - cbn [eval] in E. destruct (lookup_sensor e (l_sensor c)); inversion E; subst; exact H.
  - cbn [eval] in E. destruct (lookup_sensor e (p_sensor c)) as [s|]; [eapply eval_pid_nan; eauto|inversion E; subst; exact H].
  - rewrite eval_Fn in E. destruct (eval_members ms e now st) as [r s2] eqn:Em.
    pose proof (members_nan ms IH _ _ _ _ _ Em H) as H2. destruct r; inversion E; subst; exact H2.
Qed.

Lemma members_stop_not_val ms e now : forall st o st', eval_members ms e now st = (MStop o, st') -> forall v, o <> Val v.
Proof.
  induction ms as [|m r IH]; intros st o st' E v; [discriminate|].
  cbn [eval_members] in E. destruct (eval m e now st) as [om s1].
  destruct om as [x|x| |]; try (inversion E; subst; discriminate).
  destruct (eval_members r e now s1) as [rr s2] eqn:Er. destruct rr as [vs|o2]; [discriminate|].
  inversion E; subst. eapply IH; eauto.
Qed.

(* ---- range, as stated in [range_full] (Proofs/CurveMono.v) ---- *)
Definition range_at (t : curve) : Prop :=
  forall e now st v st', wf_tree t -> env_finite e ->
  eval t e now st = (Val v, st') -> rt_nan st' = false -> 0 <= v <= 255.

Lemma members_range ms : Forall range_at ms ->
  forall e now st vs st', all_wf ms -> env_finite e ->
  eval_members ms e now st = (MVals vs, st') -> rt_nan st' = false ->
  Forall in255 vs /\ length vs = length ms.
Proof.
  induction 1 as [|m r Hm Hr IH]; intros e now st vs st' W F E N.
  - cbn in E. inversion E; subst. split; constructor.
  - destruct W as [Wm Wr]. cbn [eval_members] in E. destruct (eval m e now st) as [o s1] eqn:Em.
    destruct o as [v|v| |]; try discriminate.
    destruct (eval_members r e now s1) as [rr s2] eqn:Er. destruct rr as [vs2|]; [|discriminate].
    inversion E; subst.
    assert (N1 : rt_nan s1 = false).
    { destruct (rt_nan s1) eqn:X; [|reflexivity].
      assert (A : Forall nan_mono_at r) by (apply Forall_forall; intros; apply nan_mono).
      pose proof (members_nan r A _ _ _ _ _ Er X). congruence. }
    destruct (IH _ _ _ _ _ Wr F Er N) as [R L].
    split; [constructor; [exact (Hm _ _ _ _ _ Wm F Em N1)|exact R]|cbn [length]; congruence].
Qed.

Theorem range_full_proved : range_full.
Proof.
  unfold range_full. intros t. induction t as [c|c|ty ms IH] using curve_ind2; intros e now st v st' W F _ E N.
  - cbn [eval] in E. destruct (lookup_sensor e (l_sensor c)) as [s|] eqn:L; [|discriminate].
    inversion E; subst. cbn [wf_tree] in W. unfold leaf_range in W. destruct (W (s_avg s) (F _ _ L)) as (v' & Ev & R).
    rewrite Ev in H0. inversion H0; subst. exact R.
  - cbn [eval] in E. destruct (lookup_sensor e (p_sensor c)) as [s|]; [|discriminate].
    unfold eval_pid in E. destruct (s_val s) as [m|]; [|discriminate].
    destruct (pid_term c _ m now) as [p' lv] eqn:P. inversion E; subst. cbn in N.
    apply orb_false_iff in N. destruct N as [_ N]. now apply pid_value_range.
  - destruct (proj1 (wf_tree_Fn ty ms) W) as (Nne & Len & Wall).
    rewrite eval_Fn in E. destruct (eval_members ms e now st) as [r s2] eqn:Em. destruct r as [vs|o].
    + inversion E; subst.
      assert (IH' : Forall range_at ms).
      { eapply Forall_impl; [|exact IH]. intros a Ha e0 now0 st0 v0 st0' W0 F0 E0 N0.
        destruct (rt_nan st0) eqn:X.
        - pose proof (nan_mono a _ _ _ _ _ E0 X). congruence.
        - eapply Ha; eauto. }
      destruct (members_range ms IH' _ _ _ _ _ Wall F Em N) as [R L].
      assert (Nvs : vs <> []) by (intro; subst; destruct ms; [congruence|discriminate]).
      rewrite agg_is_spec in H0; [|assumption|assumption|unfold small_len; rewrite L; exact Len].
      inversion H0; subst. now apply agg_spec_range.
    + inversion E; subst. exfalso. eapply members_stop_not_val; eauto.
Qed.

(* ---- totality + range, when every sensor the tree reads is registered and delivers a value ---- *)
Fixpoint sens_ok (t : curve) (e : env) : Prop :=
  match t with
  | Lin c => exists s, lookup_sensor e (l_sensor c) = Some s /\ is_nan (s_avg s) = false
  | PidC c => exists s m, lookup_sensor e (p_sensor c) = Some s /\ s_val s = Some m
  | Fn _ ms => (fix go (l : list curve) : Prop := match l with [] => True | m :: r => sens_ok m e /\ go r end) ms
  end.
Fixpoint all_sens_ok (l : list curve) (e : env) : Prop :=
  match l with [] => True | m :: r => sens_ok m e /\ all_sens_ok r e end.

Lemma sens_ok_Fn ty ms e : sens_ok (Fn ty ms) e <-> all_sens_ok ms e.
Proof. cbn [sens_ok]. induction ms as [|m r IH]; cbn; [tauto|]. rewrite IH. tauto. Qed.

Definition total_at (t : curve) : Prop :=
  forall e now st, wf_tree t -> sens_ok t e ->
  exists v st', eval t e now st = (Val v, st') /\ (rt_nan st' = false -> 0 <= v <= 255).

Lemma members_total ms : Forall total_at ms ->
  forall e now st, all_wf ms -> all_sens_ok ms e ->
  exists vs st', eval_members ms e now st = (MVals vs, st') /\ length vs = length ms
                 /\ (rt_nan st' = false -> Forall in255 vs).
Proof.
  induction 1 as [|m r Hm Hr IH]; intros e now st W S.
  - exists [], st. cbn. repeat split; constructor.
  - destruct W as [Wm Wr]. destruct S as [Sm Sr].
    destruct (Hm e now st Wm Sm) as (v & s1 & Em & Rv).
    destruct (IH e now s1 Wr Sr) as (vs & s2 & Er & L & Rvs).
    exists (v :: vs), s2. cbn [eval_members]. rewrite Em, Er. split; [reflexivity|]. split; [cbn [length]; congruence|].
    intros N. assert (N1 : rt_nan s1 = false).
    { destruct (rt_nan s1) eqn:X; [|reflexivity].
      assert (A : Forall nan_mono_at r) by (apply Forall_forall; intros; apply nan_mono).
      pose proof (members_nan r A _ _ _ _ _ Er X). congruence. }
    constructor; [exact (Rv N1)|exact (Rvs N)].
Qed.

Theorem tree_total t : total_at t.
Proof.
  induction t as [c|c|ty ms IH] using curve_ind2; unfold total_at; intros e now st W S.
  - cbn [sens_ok] in S. destruct S as (s & L & N). cbn [wf_tree] in W. unfold leaf_range in W. destruct (W (s_avg s) N) as (v & Ev & R).
    exists v, st. cbn [eval]. rewrite L, Ev. split; [reflexivity|intros _; exact R].
  - cbn [sens_ok] in S. destruct S as (s & m & L & V). cbn [eval]. rewrite L. unfold eval_pid. rewrite V.
    destruct (pid_term c _ m now) as [p' lv] eqn:P. eexists _, _. split; [reflexivity|].
    cbn. intros N. apply orb_false_iff in N. destruct N as [_ N]. now apply pid_value_range.
  - destruct (proj1 (wf_tree_Fn ty ms) W) as (Nne & Len & Wall). apply (proj1 (sens_ok_Fn ty ms e)) in S.
    destruct (members_total ms IH e now st Wall S) as (vs & s2 & Em & L & R).
    assert (Nvs : vs <> []) by (intro; subst; destruct ms; [congruence|discriminate]).
    destruct (agg_val ty vs Nvs) as [v Ev]. exists v, s2. rewrite eval_Fn, Em. split; [now rewrite Ev|].
    intros N. specialize (R N).
    rewrite agg_is_spec in Ev; [|assumption|assumption|unfold small_len; rewrite L; exact Len].
    inversion Ev; subst. now apply agg_spec_range.
Qed.

(* the member values of a function curve at the root, as the observer sees them *)
Theorem root_members_total ty ms e now st : wf_tree (Fn ty ms) -> sens_ok (Fn ty ms) e ->
  exists vs st', eval_members ms e now st = (MVals vs, st') /\ length vs = length ms /\ vs <> []
                 /\ eval (Fn ty ms) e now st = (agg ty vs, st')
                 /\ (rt_nan st' = false -> Forall in255 vs /\ agg ty vs = Val (agg_spec ty vs)).
Proof.
  intros W S. destruct (proj1 (wf_tree_Fn ty ms) W) as (Nne & Len & Wall). apply (proj1 (sens_ok_Fn ty ms e)) in S.
  assert (IH : Forall total_at ms) by (apply Forall_forall; intros; apply tree_total).
  destruct (members_total ms IH e now st Wall S) as (vs & s2 & Em & L & R).
  assert (Nvs : vs <> []) by (intro; subst; destruct ms; [congruence|discriminate]).
  exists vs, s2. split; [exact Em|]. split; [exact L|]. split; [exact Nvs|]. split; [rewrite eval_Fn, Em; reflexivity|].
  intros N. specialize (R N). split; [exact R|]. apply agg_is_spec; [assumption|assumption|unfold small_len; rewrite L; exact Len].
Qed.
