(* Steps form of the linear curve: value = int(math.Round(float64(float32(interpolation)))).
   The monotonicity statement over ALL non-decreasing step speeds is false of the code
   (D19): interpolated values are re-rounded to float32, exact step values are not. *)
From Coq Require Import ZArith Bool List Floats Lia.
From F2G Require Import Go.GoFloat Model.Util Model.Curves.
Import ListNotations.
Open Scope Z_scope.

Fixpoint speeds_nondec (l : list (Z * f64)) : Prop :=
  match l with
  | (_, y) :: (((_, y') :: _) as r) => PrimFloat.leb y y' = true /\ speeds_nondec r
  | _ => True
  end.
Fixpoint keys_sorted (l : list (Z * f64)) : Prop :=
  match l with
  | (k, _) :: (((k', _) :: _) as r) => k < k' /\ keys_sorted r
  | _ => True
  end.
Definition speeds_in_range (l : list (Z * f64)) : Prop :=
  Forall (fun kv => PrimFloat.leb 0 (snd kv) = true /\ PrimFloat.leb (snd kv) 255 = true) l.

(* the full statement (false): any non-decreasing step speeds in 0..255 *)
Definition C07_steps_full : Prop :=
  forall sensor steps T1 T2 v1 v2,
  steps <> [] -> keys_sorted steps -> speeds_in_range steps -> speeds_nondec steps ->
  PrimFloat.leb T1 T2 = true ->
  eval_lin (mkLin sensor 0 0 (Some steps)) T1 = Val v1 ->
  eval_lin (mkLin sensor 0 0 (Some steps)) T2 = Val v2 -> v1 <= v2.

(* 188.4455, 188.499999999 (nearest binary64 values), 255 *)
Definition dip_steps : list (Z * f64) :=
  [(40, 0x1.78e4189374bc7p7%float); (50, 0x1.78fffffff769p7%float); (60, 255%float)].

Lemma dip_values :
  eval_lin (mkLin 0 0 0 (Some dip_steps)) 49999 = Val 189 /\ eval_lin (mkLin 0 0 0 (Some dip_steps)) 50000 = Val 188.
Proof. vm_compute. split; reflexivity. Qed.

Theorem steps_fractional_refuted : ~ C07_steps_full.
Proof.
  intros H. destruct dip_values as [A B].
  assert (C : (189 <= 188)%Z).
  { apply (H 0 dip_steps 49999%float 50000%float 189 188); try assumption.
    - discriminate.
    - cbn. lia.
    - repeat constructor.
    - cbn. repeat split; reflexivity.
    - reflexivity. }
  lia.
Qed.

(* ---- the parts of the steps form that are proved ---- *)
(* a single step: the curve is the constant Round(speed) *)
Lemma steps_single sensor x y T : eval_lin (mkLin sensor 0 0 (Some [(x, y)])) T = Val (f2i (goRound y)).
Proof. reflexivity. Qed.

(* at or below the first step: Round(first speed), not re-rounded to float32 *)
Lemma steps_below_first sensor x0 y0 x1 y1 r T :
  PrimFloat.leb (PrimFloat.div T 1000) (i2f x0) = true ->
  eval_lin (mkLin sensor 0 0 (Some ((x0, y0) :: (x1, y1) :: r))) T = Val (f2i (goRound y0)).
Proof. intros H. unfold eval_lin, interpolate. cbn [l_steps interp_loop andb]. rewrite H. reflexivity. Qed.

(* strictly inside the first segment: Round(float32(y0 + Ratio * (y1 - y0))) *)
Lemma steps_first_segment sensor x0 y0 x1 y1 r T :
  let x := PrimFloat.div T 1000 in
  PrimFloat.leb x (i2f x0) = false -> PrimFloat.leb (i2f x1) x = false -> PrimFloat.eqb x (i2f x0) = false ->
  eval_lin (mkLin sensor 0 0 (Some ((x0, y0) :: (x1, y1) :: r))) T =
  Val (f2i (goRound (to_f32 (PrimFloat.add y0 (PrimFloat.mul (Ratio x (i2f x0) (i2f x1)) (PrimFloat.sub y1 y0)))))).
Proof. cbv zeta. intros H1 H2 H3. unfold eval_lin, interpolate. cbn [l_steps interp_loop andb]. rewrite H1, H2, H3. reflexivity. Qed.

(* the statements that remain open (kept visible; exercised by the drivers, not proved):
   value of the steps form at every temperature = Round(float32-rounded piecewise-linear interpolant)
   within 1/2 + 2^-10 of the exact interpolant, and monotonicity for INTEGER non-decreasing speeds *)
Definition is_int_speed (y : f64) : Prop := exists z, 0 <= z <= 255 /\ y = i2f z.
Definition C07_steps_integer_full : Prop :=
  forall sensor steps T1 T2 v1 v2,
  steps <> [] -> keys_sorted steps -> Forall (fun kv => is_int_speed (snd kv)) steps -> speeds_nondec steps ->
  PrimFloat.leb T1 T2 = true ->
  eval_lin (mkLin sensor 0 0 (Some steps)) T1 = Val v1 ->
  eval_lin (mkLin sensor 0 0 (Some steps)) T2 = Val v2 -> v1 <= v2.
Definition C06_steps_range_full : Prop :=
  forall sensor steps T, steps <> [] -> keys_sorted steps -> speeds_in_range steps -> is_nan T = false ->
  exists v, eval_lin (mkLin sensor 0 0 (Some steps)) T = Val v /\ 0 <= v <= 255.
