(* C06_tree_full: ONE theorem over the whole curve-graph model (registry evaluator with fuel =
   tree evaluator on the unfolding, any depth, any member count < 2^40): for well-formed leaves
   (min/max with min < max; steps with speeds in [0,255]; PID curves) every outcome of Evaluate()
   on any node is accounted for:
     Val v   - in 0..255 unless a PID term was NaN in this call (the recorded class D18), and for a
               function node v is the code's aggregate of its members' values, which is the
               documented integer aggregate (sum capped at 255, difference floored at 0, delta,
               minimum, maximum, integer mean) when no PID term was NaN;
     Err _   - only when some PID leaf's sensor read failed;
     Crash   - only when some leaf's sensor is not registered;
     OutOfFuel - never.
   Structural induction (curve_ind2) over the nested tree. *)
From Coq Require Import ZArith Bool List Floats Lia.
From F2G Require Import Go.GoFloat Model.Util Model.ControlLoop Model.Curves
  Proofs.CurveFn Proofs.CurveMono Proofs.CurveSteps Proofs.CurveLinMono Proofs.StepsMono
  Proofs.CurvePidRange Proofs.CurveRange.
Import ListNotations.
Open Scope Z_scope.

(* ---- concrete well-formedness (the quantifier of the property) ---- *)
Definition wf_lin (c : lincfg) : Prop :=
  match l_steps c with
  | None => l_min c < l_max c /\ lin_small c
  | Some steps => steps <> [] /\ speeds_in_range steps
  end.

Fixpoint wf_curve (t : curve) : Prop :=
  match t with
  | Lin c => wf_lin c
  | PidC _ => True
  | Fn _ ms => ms <> [] /\ Z.of_nat (length ms) < 2 ^ 40 /\
               (fix go (l : list curve) : Prop := match l with [] => True | m :: r => wf_curve m /\ go r end) ms
  end.

Lemma wf_lin_leaf_range c : wf_lin c -> leaf_range c.
Proof.
  unfold wf_lin. intros W T N. destruct (l_steps c) as [steps|] eqn:S.
  - destruct W as [Ne R]. exact (steps_range c steps T S Ne R N).
  - destruct W as [_ Sm]. exact (lin_minmax_range c T S Sm N).
Qed.

Lemma wf_curve_wf_tree t : wf_curve t -> wf_tree t.
Proof.
  induction t as [c|c|ty ms IH] using curve_ind2; intros W.
  - cbn [wf_tree]. now apply wf_lin_leaf_range.
  - exact I.
  - cbn [wf_curve] in W. destruct W as (Ne & Len & Wall). apply (proj2 (wf_tree_Fn ty ms)).
    split; [exact Ne|]. split; [exact Len|]. clear Ne Len.
    induction IH as [|m r Hm Hr IHr]; [exact I|]. destruct Wall as [A B]. split; [apply Hm, A|apply IHr, B].
Qed.

(* ---- which leaves a tree has ---- *)
Fixpoint pid_leaf (c : pidcfg) (t : curve) : Prop :=
  match t with
  | Lin _ => False
  | PidC c' => c' = c
  | Fn _ ms => (fix go (l : list curve) : Prop := match l with [] => False | m :: r => pid_leaf c m \/ go r end) ms
  end.
Fixpoint reads (t : curve) (sid : Z) : Prop :=
  match t with
  | Lin c => l_sensor c = sid
  | PidC c => p_sensor c = sid
  | Fn _ ms => (fix go (l : list curve) : Prop := match l with [] => False | m :: r => reads m sid \/ go r end) ms
  end.
Fixpoint any_pid_leaf (c : pidcfg) (l : list curve) : Prop :=
  match l with [] => False | m :: r => pid_leaf c m \/ any_pid_leaf c r end.
Fixpoint any_reads (l : list curve) (sid : Z) : Prop :=
  match l with [] => False | m :: r => reads m sid \/ any_reads r sid end.
Lemma pid_leaf_Fn c ty ms : pid_leaf c (Fn ty ms) <-> any_pid_leaf c ms.
Proof. cbn [pid_leaf]. induction ms as [|m r IH]; cbn; [tauto|]. rewrite IH. tauto. Qed.
Lemma reads_Fn ty ms sid : reads (Fn ty ms) sid <-> any_reads ms sid.
Proof. cbn [reads]. induction ms as [|m r IH]; cbn; [tauto|]. rewrite IH. tauto. Qed.

(* ---- the PID guard: the recorded class D18 is exactly its failure ---- *)
Definition pid_guardb (c : pidcfg) (rt : pidrt) (measured : f64) (now : Z) : bool :=
  negb (is_nan (snd (pid_term c rt measured now))).

Lemma pid_leaf_flag c s m now st : s_val s = Some m ->
  let rt := match lookup_pid (rt_pids st) (p_id c) with Some rt => rt | None => init_pidrt c end in
  rt_nan (snd (eval_pid c s now st)) = rt_nan st || negb (pid_guardb c rt m now).
Proof.
  intros V. cbv zeta. unfold eval_pid, pid_guardb. rewrite V.
  destruct (pid_term c _ m now) as [p' lv]. cbn [snd rt_nan]. now rewrite negb_involutive.
Qed.

(* ---- what an outcome must look like ---- *)
Definition explained (t : curve) (e : env) (now : Z) (st : rtstate) (res : outcome * rtstate) : Prop :=
  let '(o, st') := res in
  match o with
  | Val v =>
      (rt_nan st' = false -> 0 <= v <= 255) /\
      (forall ty ms, t = Fn ty ms ->
         exists vs, eval_members ms e now st = (MVals vs, st') /\ length vs = length ms /\ agg ty vs = Val v
                    /\ (rt_nan st' = false -> Forall in255 vs /\ v = agg_spec ty vs))
  | Err _ => exists c s, pid_leaf c t /\ lookup_sensor e (p_sensor c) = Some s /\ s_val s = None
  | Crash => exists sid, reads t sid /\ lookup_sensor e sid = None
  | OutOfFuel => False
  end.

Definition full_at (t : curve) : Prop :=
  forall e now st, wf_curve t -> env_finite e -> explained t e now st (eval t e now st).

Fixpoint all_wfc (l : list curve) : Prop := match l with [] => True | m :: r => wf_curve m /\ all_wfc r end.

(* the member loop: values (in range unless the flag rose), or the first failing member explained *)
Lemma members_full ms : Forall full_at ms ->
  forall e now st, all_wfc ms -> env_finite e ->
  match eval_members ms e now st with
  | (MVals vs, st') => length vs = length ms /\ (rt_nan st' = false -> Forall in255 vs)
  | (MStop o, st') =>
      match o with
      | Val _ => False
      | Err x => x = 0 /\ exists c s, any_pid_leaf c ms /\ lookup_sensor e (p_sensor c) = Some s /\ s_val s = None
      | Crash => exists sid, any_reads ms sid /\ lookup_sensor e sid = None
      | OutOfFuel => False
      end
  end.
Proof.
  induction 1 as [|m r Hm Hr IH]; intros e now st W F.
  - cbn. split; [reflexivity|constructor].
  - destruct W as [Wm Wr]. cbn [eval_members].
    pose proof (Hm e now st Wm F) as Xm. unfold explained in Xm.
    destruct (eval m e now st) as [o s1] eqn:Em. destruct o as [v|x| |].
    + destruct Xm as [Rv _]. specialize (IH e now s1 Wr F).
      destruct (eval_members r e now s1) as [rr s2] eqn:Er. destruct rr as [vs|o2].
      * destruct IH as [L R]. split; [cbn [length]; congruence|].
        intros N. assert (N1 : rt_nan s1 = false).
        { destruct (rt_nan s1) eqn:X; [|reflexivity].
          assert (A : Forall nan_mono_at r) by (apply Forall_forall; intros; apply nan_mono).
          pose proof (members_nan r A _ _ _ _ _ Er X). congruence. }
        constructor; [exact (Rv N1)|exact (R N)].
      * destruct o2 as [v2|x2| |]; try exact IH.
        -- destruct IH as [X0 (c & s & P & L & V)]. split; [exact X0|]. exists c, s. cbn [any_pid_leaf]. auto.
        -- destruct IH as (sid & P & L). exists sid. cbn [any_reads]. auto.
    + split; [reflexivity|]. destruct Xm as (c & s & P & L & V). exists c, s. cbn [any_pid_leaf]. auto.
    + destruct Xm as (sid & P & L). exists sid. cbn [any_reads]. auto.
    + exact Xm.
Qed.

Theorem tree_full t : full_at t.
Proof.
  induction t as [c|c|ty ms IH] using curve_ind2; unfold full_at; intros e now st W F.
  - (* linear leaf *)
    cbn [eval]. destruct (lookup_sensor e (l_sensor c)) as [s|] eqn:L.
    + pose proof (wf_lin_leaf_range c W (s_avg s) (F _ _ L)) as (v & Ev & R). rewrite Ev. cbn.
      split; [intros _; exact R|intros ty ms E; discriminate].
    + cbn. exists (l_sensor c). split; [reflexivity|exact L].
  - (* PID leaf *)
    cbn [eval]. destruct (lookup_sensor e (p_sensor c)) as [s|] eqn:L.
    + unfold eval_pid. destruct (s_val s) as [m|] eqn:V.
      * destruct (pid_term c _ m now) as [p' lv] eqn:P. cbn.
        split; [|intros ty ms E; discriminate]. intros N. apply orb_false_iff in N. destruct N as [_ N].
        now apply pid_value_range.
      * cbn. exists c, s. split; [reflexivity|]. split; [exact L|exact V].
    + cbn. exists (p_sensor c). split; [reflexivity|exact L].
  - (* function node *)
    cbn [wf_curve] in W. destruct W as (Ne & Len & Wall).
    assert (Wall' : all_wfc ms) by (clear - Wall; induction ms; cbn in *; tauto).
    pose proof (members_full ms IH e now st Wall' F) as M.
    rewrite eval_Fn. destruct (eval_members ms e now st) as [rr s2] eqn:Em. destruct rr as [vs|o].
    + destruct M as [L R].
      assert (Nvs : vs <> []) by (intro; subst; destruct ms; [congruence|discriminate]).
      destruct (agg_val ty vs Nvs) as [v Ev]. rewrite Ev. cbn.
      assert (Doc : rt_nan s2 = false -> Forall in255 vs /\ v = agg_spec ty vs).
      { intros N. specialize (R N). split; [exact R|].
        rewrite agg_is_spec in Ev; [|assumption|assumption|unfold small_len; rewrite L; exact Len]. now inversion Ev. }
      split.
      * intros N. destruct (Doc N) as [R' ->]. now apply agg_spec_range.
      * intros ty' ms' E. inversion E; subst ty' ms'. exists vs. rewrite Em. repeat split; auto; apply Doc; assumption.
    + destruct o as [v|x| |]; cbn.
      * contradiction.
      * destruct M as [_ (c & s & P & L & V)]. exists c, s. split; [apply (proj2 (pid_leaf_Fn c ty ms)); exact P|auto].
      * destruct M as (sid & P & L). exists sid. split; [apply (proj2 (reads_Fn ty ms sid)); exact P|exact L].
      * exact M.
Qed.

(* the error value of a function node is 0 (return 0, err); of a PID leaf its previous Value *)
Lemma fn_err_zero ty ms e now st x st' : eval (Fn ty ms) e now st = (Err x, st') -> x = 0.
Proof.
  rewrite eval_Fn. destruct (eval_members ms e now st) as [rr s2] eqn:Em. destruct rr as [vs|o].
  - intros E. destruct ty, vs; cbn in E; inversion E.
  - intros E. inversion E; subst. clear E. revert st st' Em.
    induction ms as [|m r IH]; intros st st' Em; [discriminate|].
    cbn [eval_members] in Em. destruct (eval m e now st) as [om s1]. destruct om as [v|y| |]; try (inversion Em; reflexivity).
    destruct (eval_members r e now s1) as [rr s3] eqn:Er. destruct rr; [discriminate|]. inversion Em; subst. eapply IH; eauto.
Qed.

(* ---- on the registry form: any node of any acyclic graph ---- *)
Theorem tree_full_graph g rank fuel id e now st :
  acyclic g rank -> lookup_node g id <> None ->
  (forall i, (rank i < length g)%nat) -> (length g <= fuel)%nat ->
  exists t, unfold fuel g id = Some t /\
            (wf_curve t -> env_finite e -> explained t e now st (geval fuel g id e now st)).
Proof.
  intros A Hin Hr Hf. destruct (geval_tree g rank fuel id e now st A Hin Hr Hf) as (t & U & E).
  exists t. split; [exact U|]. intros W F. rewrite E. now apply tree_full.
Qed.
