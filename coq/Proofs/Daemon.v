(* C03, process part: an invariant over ALL schedules (induction on the list of
   events: any length, any number of signals at any positions), for the
   repaired semantics; witnesses for the code as found (D2, D4). *)
From Coq Require Import ZArith Bool List Lia.
From F2G Require Import gen.Consts Model.Restore Proofs.Restore Model.Daemon.
Import ListNotations.
Open Scope Z_scope.

Definition okb (c : ctrl) (p : rplan) (r : rres) : bool :=
  safeb (sup c) (c_orig c) (r_dev r) || last_resort_write_failedb p r.

Definition rok (c : ctrl) : Prop :=
  match c_restore c with
  | Some (p, r) => c_dev c = r_dev r /\ okb c p r = true
  | None => True
  end.

(* per-controller invariant: which flags go with which phase *)
Definition cinv (c : ctrl) : Prop :=
  rok c /\
  match c_phase c with
  | PInit | PWait | PLoad => c_restore c = None /\ c_started c = false /\ c_touched c = false
  | PAttach => c_restore c = None /\ c_started c = false
  | PFirstSecond | PTicking => c_restore c = None /\ c_started c = true
  | PStopped => c_restore c <> None /\ c_started c = true
  | PReturned => c_started c = true \/ c_touched c = true -> c_restore c <> None
  end.

Lemma rok_do_restore c p ph e :
  undetectableb p = false -> rok (do_restore repaired c p ph e).
Proof.
  intros U. unfold rok, do_restore, okb, sup. cbn. split; [reflexivity|].
  apply (restore_local_b (c_backend c) (c_exists c) (c_orig c) (c_dev c) p U).
Qed.

Lemma cinv_adv canc c a :
  cinv c -> undetectableb (a_plan a) = false -> cinv (ctrl_adv repaired canc c a).
Proof.
  intros [R I] U. unfold ctrl_adv.
  destruct (c_phase c) eqn:P.
  - (* PInit *) destruct I as [N [S T]]. destruct (a_fail a).
    + split; [exact R|]. cbn. intros [H|H]; congruence.
    + split; [unfold rok; cbn; rewrite N; exact Logic.I|]. cbn. auto.
  - (* PWait *) split; [exact R|]. cbn. exact I.
  - (* PLoad *) destruct I as [N [S T]]. destruct (a_init a).
    + destruct (c_backend c) eqn:B.
      * destruct (a_skip a).
        -- destruct (a_fail a); (split; [exact R|]); cbn; auto. intros [H|H]; congruence.
        -- destruct (a_fail a).
           ++ split; [apply rok_do_restore; exact U|]. cbn. intros _; discriminate.
           ++ split; [unfold rok; cbn; rewrite N; exact Logic.I|]. cbn. auto.
      * destruct (a_fail a); (split; [exact R|]); cbn; auto. intros [H|H]; congruence.
      * destruct (a_fail a); (split; [exact R|]); cbn; auto. intros [H|H]; congruence.
    + split; [exact R|]. cbn. auto.
  - (* PAttach *) destruct I as [N S]. destruct (a_fail a).
    + cbn [d23_no_restore_after_init repaired negb]. rewrite andb_true_r.
      destruct (c_touched c) eqn:T.
      * split; [apply rok_do_restore; exact U|]. cbn. intros _; discriminate.
      * split; [exact R|]. cbn. rewrite T. intros [H|H]; congruence.
    + destruct (a_sweep a); (split; [unfold rok; cbn; rewrite N; exact Logic.I|]); cbn; auto.
  - (* PFirstSecond *) split; [exact R|]. cbn. exact I.
  - (* PTicking *) destruct I as [N S]. destruct canc.
    + split; [apply rok_do_restore; exact U|].
      unfold do_restore, after_control. cbn.
      destruct (c_has_rpm c && negb (c_rpm_done c)); cbn; [split; [discriminate|exact S]|intros _; discriminate].
    + split; [exact R|]. rewrite P. auto.
  - (* PStopped *) split; [exact R|]. rewrite P. exact I.
  - (* PReturned *) split; [exact R|]. rewrite P. exact I.
Qed.

Lemma cinv_tick c t :
  cinv c -> undetectableb (t_plan t) = false -> cinv (ctrl_tick repaired c t).
Proof.
  intros [R I] U. unfold ctrl_tick.
  destruct (c_phase c) eqn:P; try (split; [exact R|rewrite P; exact I]).
  destruct I as [N S]. destruct (t_err t).
  - split; [apply rok_do_restore; exact U|].
    unfold do_restore, after_control. cbn.
    destruct (c_has_rpm c && negb (c_rpm_done c)); cbn; [split; [discriminate|exact S]|intros _; discriminate].
  - split; [unfold rok; cbn; rewrite N; exact I|]. cbn. rewrite P. auto.
Qed.

Lemma cinv_rpm canc c : cinv c -> cinv (ctrl_rpm_done canc c).
Proof.
  intros [R I]. unfold ctrl_rpm_done.
  destruct (c_started c && c_has_rpm c && canc && negb (c_rpm_done c)) eqn:E; [|split; assumption].
  apply andb_true_iff in E. destruct E as [E _]. apply andb_true_iff in E. destruct E as [E _].
  apply andb_true_iff in E. destruct E as [S _].
  split.
  - exact R.
  - cbn. destruct (c_phase c); cbn; try exact I. destruct I as [N _]. intros _. exact N.
Qed.

(* ---- process level ---- *)
Lemma Forall_upd {A} (Q : A -> Prop) (f : A -> A) i l :
  Forall Q l -> (forall x, Q x -> Q (f x)) -> Forall Q (upd i f l).
Proof.
  intros H F. revert i. induction H as [|x r Hx Hr IH]; intros i; [destruct i; constructor|].
  destruct i; cbn; constructor; auto.
Qed.

Definition pinv (s : proc) : Prop :=
  Forall cinv (ctrls s)
  /\ sig_closed s = false
  /\ (forall site, st s <> Crashed site)
  /\ (forall code, st s = Exited code -> forallb is_returned (ctrls s) = true).

Lemma actor_ret_repaired err s :
  actor_ret repaired err s = s \/
  actor_ret repaired err s = mkProc (ctrls s) (mons s) true (sig_buf s) false (sig_done s) true err (st s).
Proof.
  unfold actor_ret. cbn. rewrite andb_false_r. destruct (first_done s); auto.
Qed.

Lemma pinv_same s s' :
  ctrls s' = ctrls s -> sig_closed s' = sig_closed s -> st s' = st s -> pinv s -> pinv s'.
Proof.
  intros E1 E2 E3 [P1 [P2 [P3 P4]]]. unfold pinv. rewrite E1, E2, E3. auto.
Qed.

Lemma pinv_actor_ret err s : st s = Running -> pinv s -> pinv (actor_ret repaired err s).
Proof.
  intros R P. destruct (actor_ret_repaired err s) as [->| ->]; [exact P|].
  eapply pinv_same; [| | |exact P]; try reflexivity. cbn. symmetry. apply P.
Qed.

Lemma st_actor_ret err s : st (actor_ret repaired err s) = st s.
Proof. destruct (actor_ret_repaired err s) as [->| ->]; reflexivity. Qed.

Lemma pinv_with_ctrl s i f :
  st s = Running -> pinv s -> (forall c, cinv c -> cinv (f c)) -> pinv (with_ctrl repaired s i f).
Proof.
  intros R P F. unfold with_ctrl.
  assert (P' : pinv (set_ctrls s (upd i f (ctrls s)))).
  { destruct P as [P1 [P2 [P3 P4]]]. split; [|split; [|split]]; cbn.
    - apply Forall_upd; auto.
    - exact P2.
    - exact P3.
    - intros code E. congruence. }
  destruct (newly_returned (ctrls s) (upd i f (ctrls s)) i); [|exact P'].
  apply pinv_actor_ret; [exact R|exact P'].
Qed.

Lemma step_pinv s e : pinv s -> ev_detectable e = true -> pinv (step repaired s e).
Proof.
  intros P D. unfold step. destruct (st s) eqn:R; try exact P.
  destruct e.
  - (* Signal *) assert (C : sig_closed s = false) by apply P. rewrite C.
    eapply pinv_same; [| | |exact P]; cbn; congruence.
  - (* SigRecv *)
    destruct (negb (sig_done s) && (sig_buf s || cancelled s)); [|exact P].
    apply pinv_actor_ret; [reflexivity|].
    eapply pinv_same; [| | |exact P]; cbn; congruence.
  - (* Advance *) cbn in D. apply negb_true_iff in D.
    apply pinv_with_ctrl; auto. intros c C. apply cinv_adv; auto.
  - (* Tick *) cbn in D. apply negb_true_iff in D.
    apply pinv_with_ctrl; auto. intros c C. apply cinv_tick; auto.
  - (* RpmDone *) apply pinv_with_ctrl; auto. intros c C. apply cinv_rpm; auto.
  - (* MonDone *) destruct (cancelled s); [|exact P].
    eapply pinv_same; [| | |exact P]; cbn; congruence.
  - (* MonitorErr *)
    destruct (nth_error (mons s) j) as [[|]|]; try exact P.
    apply pinv_actor_ret; [reflexivity|].
    eapply pinv_same; [| | |exact P]; cbn; congruence.
  - (* Finish *)
    destruct (first_done s && all_returned s) eqn:E; [|exact P].
    destruct P as [P1 [P2 [P3 P4]]]. split; [|split; [|split]]; cbn.
    + exact P1.
    + exact P2.
    + intros site. discriminate.
    + intros code _. apply andb_true_iff in E. destruct E as [_ E]. unfold all_returned in E.
      apply andb_true_iff in E. destruct E as [E _]. apply andb_true_iff in E. tauto.
Qed.

Lemma init_pinv fans n : pinv (init fans n).
Proof.
  unfold init. repeat split; cbn; auto; try discriminate.
  apply Forall_forall. intros c H. apply in_map_iff in H. destruct H as [[[[b ex] rpm] d] [<- _]].
  unfold cinv, rok. cbn. auto.
Qed.

Lemma exec_pinv s sched : pinv s -> forallb ev_detectable sched = true -> pinv (exec repaired s sched).
Proof.
  unfold exec. revert s. induction sched as [|e r IH]; intros s P D; [exact P|].
  cbn in D. apply andb_true_iff in D. destruct D as [De Dr].
  cbn [fold_left]. apply IH; auto. apply step_pinv; auto.
Qed.

(* ---- C03_process ---- *)
Theorem process_safe :
  forall fans nmons sched,
    forallb ev_detectable sched = true ->
    let s := exec repaired (init fans nmons) sched in
    (forall site, st s <> Crashed site) /\
    (terminated s ->
     forall c, In c (ctrls s) -> c_started c = true \/ c_touched c = true ->
       exists p r, c_restore c = Some (p, r) /\ c_dev c = r_dev r /\
                   (safe (sup c) (c_orig c) (c_dev c) \/ last_resort_write_failed p r)).
Proof.
  intros fans nmons sched D. cbv zeta.
  pose proof (exec_pinv _ sched (init_pinv fans nmons) D) as [P1 [P2 [P3 P4]]].
  split; [exact P3|].
  intros [code T] c Hc S.
  specialize (P4 code T). rewrite forallb_forall in P4. specialize (P4 c Hc).
  rewrite Forall_forall in P1. destruct (P1 c Hc) as [R I].
  unfold is_returned in P4. destruct (c_phase c); try discriminate.
  specialize (I S). unfold rok in R.
  destruct (c_restore c) as [[p r]|]; [|congruence].
  destruct R as [Rd Ro]. exists p, r. split; [reflexivity|]. split; [exact Rd|].
  unfold okb in Ro. apply orb_true_iff in Ro. rewrite Rd.
  destruct Ro as [Ro|Ro]; [left; apply safeb_spec; exact Ro|right; apply last_resort_write_failedb_spec; exact Ro].
Qed.

(* every restorePwmEnabled that ran - also the one after a failed initialisation
   sequence, at any point of any schedule, terminated or not - left its fan safe *)
Theorem process_every_restore_safe :
  forall fans nmons sched,
    forallb ev_detectable sched = true ->
    let s := exec repaired (init fans nmons) sched in
    forall c p r, In c (ctrls s) -> c_restore c = Some (p, r) ->
      c_dev c = r_dev r /\ (safe (sup c) (c_orig c) (c_dev c) \/ last_resort_write_failed p r).
Proof.
  intros fans nmons sched D. cbv zeta.
  pose proof (exec_pinv _ sched (init_pinv fans nmons) D) as [P1 _].
  intros c p r Hc E. rewrite Forall_forall in P1. destruct (P1 c Hc) as [R _].
  unfold rok in R. rewrite E in R. destruct R as [Rd Ro]. split; [exact Rd|].
  unfold okb in Ro. apply orb_true_iff in Ro. rewrite Rd.
  destruct Ro as [Ro|Ro]; [left; apply safeb_spec; exact Ro|right; apply last_resort_write_failedb_spec; exact Ro].
Qed.

(* ---- the code as found: witnesses ---- *)

Definition plan_ok : rplan := mkPlan WOk WOk ROk WOk.
Definition adv_ok : adv := mkAdv false false false false (mkDev 1 0) ROk ROk 0 plan_ok.
Definition adv_init_fail : adv := mkAdv true true false false (mkDev 1 30) ROk ROk 0 plan_ok.
Definition to_ticking (i : nat) : list event := repeat (Advance i adv_ok) 5.

Definition one_fan : list fan_cfg := [(BHwmon, true, true, mkDev 2 90)].
Definition two_fans : list fan_cfg := [(BFile, false, false, mkDev 1 100); (BHwmon, true, true, mkDev 2 90)].

(* D2: a second signal after the channel was closed panics; the fan stays in manual mode at PWM 60 *)
Definition sched_two_signals : list event :=
  to_ticking 0 ++ [Tick 0 (mkTick (mkDev 1 60) false plan_ok); Signal; SigRecv; Signal].

Theorem process_d2_refuted :
  let s := exec d2_only (init one_fan 1) sched_two_signals in
  st s = Crashed 2 /\ map c_dev (ctrls s) = [mkDev 1 60] /\ map c_started (ctrls s) = [true].
Proof. vm_compute. repeat split. Qed.

(* the same schedule, continued, on the repaired code: the signal is dropped, the fan handed back, exit 0 *)
Example process_repaired_three_signals :
  let s := exec repaired (init one_fan 1)
             (sched_two_signals ++ [Signal; Advance 0 adv_ok; Signal; RpmDone 0; MonDone 0; Finish]) in
  st s = Exited 0 /\ map c_dev (ctrls s) = [mkDev 2 90] /\ map c_started (ctrls s) = [true]
  /\ forallb ev_detectable (sched_two_signals ++ [Signal; Advance 0 adv_ok; Signal; RpmDone 0; MonDone 0; Finish]) = true.
Proof. vm_compute. repeat split. Qed.

(* D4: controller 1 fails its initialisation while controller 0 regulates: panic(err), fan 0 left in manual mode at PWM 40 *)
Definition sched_init_fails : list event :=
  to_ticking 0 ++ [Tick 0 (mkTick (mkDev 1 40) false plan_ok);
                   Advance 1 adv_ok; Advance 1 adv_ok; Advance 1 adv_init_fail].

Theorem process_d4_refuted :
  let s := exec d4_only (init two_fans 1) sched_init_fails in
  st s = Crashed 4 /\ map c_dev (ctrls s) = [mkDev 1 40; mkDev 2 90].
Proof. vm_compute. repeat split. Qed.

Example process_repaired_init_fails :
  let s := exec repaired (init two_fans 1) (sched_init_fails ++ [Advance 0 adv_ok; SigRecv; MonDone 0; Finish]) in
  st s = Exited 1 /\ map c_dev (ctrls s) = [mkDev 1 255; mkDev 2 90].
Proof. vm_compute. repeat split. Qed.

(* D23 as found: the second LoadFanPwmData / AttachFanRpmCurveData failing AFTER a
   successful initialisation sequence returned without restorePwmEnabled: the
   swept fan stays in manual mode at the last measured PWM *)
Definition adv_init_ok : adv := mkAdv false true false false (mkDev 1 200) ROk ROk 0 plan_ok.
Definition adv_fail : adv := mkAdv true false false false (mkDev 1 0) ROk ROk 0 plan_ok.
Definition sched_attach_fails : list event :=
  [Advance 0 adv_ok; Advance 0 adv_ok; Advance 0 adv_init_ok; Advance 0 adv_fail; SigRecv; Finish].

Theorem process_d23_refuted :
  let s := exec d23_only (init one_fan 0) sched_attach_fails in
  st s = Exited 1 /\ map c_dev (ctrls s) = [mkDev 1 200] /\ map c_touched (ctrls s) = [true]
  /\ map c_restore (ctrls s) = [None].
Proof. vm_compute. repeat split. Qed.

Example process_repaired_attach_fails :
  let s := exec repaired (init one_fan 0) sched_attach_fails in
  st s = Exited 1 /\ map c_dev (ctrls s) = [mkDev 2 90] /\ map c_touched (ctrls s) = [true].
Proof. vm_compute. repeat split. Qed.
