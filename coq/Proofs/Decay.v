(* C10: geometric decay of the hwmon RPM moving average under all-zero readings,
   for every binary64 value (no sampling), through Flocq's PrimFloat bridge.
   Reuses the per-operation lemmas of Proofs/SensorFloat.v (add_R/sub_R/mul_R/div_R, upd_R). *)
From Coq Require Import ZArith Reals Lra Lia Psatz Floats Uint63.
From Flocq Require Import Core Plus_error Relative BinarySingleNaN.
From Flocq Require PrimFloat.
From F2G Require Import Go.GoFloat Model.Util Proofs.SensorFloat.
Import Flocq.IEEE754.PrimFloat.
Open Scope R_scope.

(* real value of a float (0 for NaN / infinities, which the theorems exclude by is_finite) *)
Definition RV (x : f64) : R := B2R (Prim2B x).

Lemma RV_R_of x : RV x = R_of x.
Proof. reflexivity. Qed.

(* ------------------------------------------------------------------ constants *)

Lemma zero_R : fin 0%float /\ R_of 0%float = 0.
Proof. split; reflexivity. Qed.

Lemma format_IZR_small z : (Z.abs z < 2 ^ 53)%Z -> format (IZR z).
Proof.
  intros Hz. apply generic_format_FLT. exists (Float radix2 z 0).
  - unfold F2R; simpl; ring.
  - exact Hz.
  - simpl; lia.
Qed.

Lemma bpow64_le_B1021 : bpow radix2 64 <= B1021.
Proof. unfold B1021. apply bpow_le. lia. Qed.

Lemma bpow64 : bpow radix2 64 = 2 ^ 64.
Proof. rewrite pow_IZR. reflexivity. Qed.

Lemma bnd_of_range x : fin x -> 0 <= R_of x <= 2 ^ 64 -> bnd x.
Proof.
  intros F H. split; auto. rewrite Rabs_pos_eq by lra.
  rewrite <- bpow64 in H. pose proof bpow64_le_B1021. lra.
Qed.

Lemma bnd_zero : bnd 0%float.
Proof.
  destruct zero_R as [F E]. split; auto. rewrite E, Rabs_R0. apply Rlt_le, B1021_pos.
Qed.

(* ------------------------------------------------------------------ the four rounded operations,
   specialised to a reading of 0 *)

(* 0 - x = -x exactly *)
Lemma neg_exact X : format X -> rnd (0 - X) = - X.
Proof.
  intros FX. replace (0 - X) with (- X) by ring. apply rnd_id. now apply generic_format_opp.
Qed.

(* c * (-x) = - fl(c * x) *)
Lemma mul_neg c X : rnd (c * - X) = - rnd (c * X).
Proof. replace (c * - X) with (- (c * X)) by ring. apply rnd_opp. Qed.

(* relative error of one rounding in the normal range *)
Lemma rel_err x : bpow radix2 (-1022) <= Rabs x ->
  exists e, Rabs e <= uu /\ rnd x = x * (1 + e).
Proof.
  intros H.
  destruct (relative_error_N_FLT_ex radix2 (-1074) 53 eq_refl (fun z => negb (Z.even z)) x H) as [e [He E]].
  exists e. split; auto.
Qed.

Lemma bpow_m1022_small : bpow radix2 (-1022) <= / 1048576.
Proof.
  apply Rle_trans with (bpow radix2 (-20)); [apply bpow_le; lia|].
  change (bpow radix2 (-20)) with (/ IZR (Z.pow_pos 2 20)).
  replace (IZR (Z.pow_pos 2 20)) with 1048576 by (vm_compute; reflexivity). apply Rle_refl.
Qed.

(* float64(n) is exact for window sizes up to 65536 *)
Lemma rnd_n n : (1 <= n <= 65536)%Z -> rnd (IZR n) = IZR n.
Proof. intros H. apply rnd_id. apply format_IZR_small. lia. Qed.

Lemma inv_n_bounds n : (1 <= n <= 65536)%Z -> / 65536 <= / IZR n <= 1.
Proof.
  intros H. assert (1 <= IZR n <= 65536) by (split; apply IZR_le; lia).
  split.
  - apply Rinv_le_contravar; lra.
  - rewrite <- Rinv_1. apply Rinv_le_contravar; lra.
Qed.

(* c = fl(1/n):  (1/n)(1-u) <= c *)
Lemma c_lower n : (1 <= n <= 65536)%Z -> / IZR n * (1 - uu) <= rnd (1 / IZR n).
Proof.
  intros H. pose proof (inv_n_bounds n H) as Ha. pose proof uu_bounds as Hu.
  destruct (rel_err (1 / IZR n)) as [e [He E]].
  { pose proof bpow_m1022_small. rewrite Rabs_pos_eq; lra. }
  rewrite E. apply Rabs_le_inv in He. unfold Rdiv. rewrite Rmult_1_l.
  apply Rmult_le_compat_l; lra.
Qed.

(* p = fl(c x) is within c x (1 -+ u) for x >= 1, c >= 2^-17 *)
Lemma p_bounds c X : / 131072 <= c -> 1 <= X ->
  c * X * (1 - uu) <= rnd (c * X) <= c * X * (1 + uu).
Proof.
  intros Hc HX. pose proof uu_bounds as Hu.
  assert (HcX : / 131072 <= c * X) by nra.
  destruct (rel_err (c * X)) as [e [He E]].
  { pose proof bpow_m1022_small. rewrite Rabs_pos_eq; lra. }
  rewrite E. apply Rabs_le_inv in He. split; apply Rmult_le_compat_l; lra.
Qed.

(* s = fl(x - p) <= (x - p)(1+u) for x - p >= 2^-20 *)
Lemma s_upper d : / 1048576 <= d -> rnd d <= d * (1 + uu).
Proof.
  intros Hd. destruct (rel_err d) as [e [He E]].
  { pose proof bpow_m1022_small. rewrite Rabs_pos_eq; lra. }
  rewrite E. apply Rabs_le_inv in He. apply Rmult_le_compat_l; lra.
Qed.

(* the real-number core: (1 - a(1-u)^2)(1+u) <= 1 - a/2 for 2^-16 <= a <= 1 *)
Lemma factor_bound a : / 65536 <= a <= 1 ->
  (1 - a * (1 - uu) * (1 - uu)) * (1 + uu) <= 1 - a / 2.
Proof.
  intros Ha. pose proof uu_bounds as Hu.
  assert (H1 : 1 - 2 * uu <= (1 - uu) * (1 - uu)) by nra.
  assert (H2 : a * (1 - 2 * uu) <= a * (1 - uu) * (1 - uu)) by (rewrite Rmult_assoc; apply Rmult_le_compat_l; lra).
  assert (H3 : (1 - a * (1 - uu) * (1 - uu)) * (1 + uu) <= (1 - a * (1 - 2 * uu)) * (1 + uu))
    by (apply Rmult_le_compat_r; lra).
  apply Rle_trans with (1 := H3).
  assert (H4 : 15 * uu <= a) by lra.
  assert (H5 : a * uu <= uu) by nra.
  assert (H6 : a * uu * uu <= uu * uu) by (apply Rmult_le_compat_r; lra).
  assert (H7 : uu * uu <= uu) by nra.
  replace ((1 - a * (1 - 2 * uu)) * (1 + uu)) with (1 + uu - a + a * uu + 2 * (a * uu * uu)) by ring.
  lra.
Qed.

(* one zero poll, on reals: X >= 1 *)
Lemma decay_R X n : (1 <= n <= 65536)%Z -> format X -> 1 <= X ->
  let r := rnd (1 / IZR n) in
  rnd (X + rnd (r * rnd (0 - X))) <= X * (1 - / (2 * IZR n)).
Proof.
  intros Hn FX HX r. pose proof uu_bounds as Hu.
  pose proof (inv_n_bounds n Hn) as Ha. pose proof (c_lower n Hn) as Hc. fold r in Hc.
  set (a := / IZR n) in *.
  assert (Hr1 : r <= 1).
  { unfold r. rewrite <- rnd_1 at 2. apply rnd_le. unfold Rdiv. fold a. lra. }
  rewrite (neg_exact X FX), mul_neg.
  set (p := rnd (r * X)).
  assert (Hr0 : / 131072 <= r) by nra.
  destruct (p_bounds r X Hr0 HX) as [Hp Hp2]. fold p in Hp, Hp2.
  assert (Hlow : a * (1 - uu) * (1 - uu) * X <= p).
  { apply Rle_trans with (2 := Hp).
    replace (a * (1 - uu) * (1 - uu) * X) with (a * (1 - uu) * X * (1 - uu)) by ring.
    apply Rmult_le_compat_r; [lra|]. apply Rmult_le_compat_r; lra. }
  replace (X + - p) with (X - p) by ring.
  destruct (Z.eq_dec n 1) as [E1|N1].
  - (* n = 1: c = 1, p = x, x - x = 0 *)
    assert (Er : r = 1). { unfold r. rewrite E1. replace (1 / 1) with 1 by field. apply rnd_1. }
    assert (Ep : p = X). { unfold p. rewrite Er, Rmult_1_l. now apply rnd_id. }
    rewrite Ep. replace (X - X) with 0 by ring. rewrite rnd_0.
    assert (0 <= 1 - / (2 * IZR n)). { rewrite E1. lra. }
    nra.
  - assert (Ha2 : a <= / 2).
    { unfold a. apply Rinv_le_contravar; [lra|]. apply (IZR_le 2). lia. }
    assert (Hr2 : r <= / 2).
    { unfold r. replace (/ 2) with (rnd (/ 2)).
      - apply rnd_le. unfold Rdiv. fold a. lra.
      - apply rnd_id. change (/ 2) with (bpow radix2 (-1)). apply format_bpow. lia. }
    assert (Hpu : p <= X * (51 / 100)).
    { apply Rle_trans with (1 := Hp2). rewrite Rmult_assoc, (Rmult_comm r), Rmult_assoc.
      apply Rmult_le_compat_l; [lra|]. nra. }
    assert (Hd : / 1048576 <= X - p) by lra.
    apply Rle_trans with (1 := s_upper (X - p) Hd).
    apply Rle_trans with (X * (1 - a * (1 - uu) * (1 - uu)) * (1 + uu)).
    { apply Rmult_le_compat_r; [lra|]. lra. }
    rewrite Rmult_assoc. apply Rmult_le_compat_l; [lra|].
    replace (/ (2 * IZR n)) with (a / 2).
    + apply factor_bound. lra.
    + unfold a. field. apply Rgt_not_eq. apply (IZR_lt 0). lia.
Qed.

(* ------------------------------------------------------------------ one zero poll, on floats *)

Lemma upd_zero_R x n : (1 <= n <= 65536)%Z -> fin x -> 0 <= R_of x <= 2 ^ 64 ->
  let r := rnd (1 / IZR n) in
  fin (upd_avg x n 0%float) /\
  R_of (upd_avg x n 0%float) = rnd (R_of x + rnd (r * rnd (0 - R_of x))) /\
  0 <= r <= 1 /\ ((2 <= n)%Z -> r <= 1 / 2).
Proof.
  intros Hn F H r.
  destruct (upd_R x n 0%float (bnd_of_range x F H) bnd_zero) as (Fy & Ey & Hr & Hr2); [lia|].
  rewrite (rnd_n n Hn) in *. destruct zero_R as [_ E0]. rewrite E0 in Ey. auto.
Qed.

(* non-negative and non-increasing, whatever the magnitude (subnormals and zeros included):
   rounding monotonicity against the representable points 0 and x *)
Lemma upd_zero_mono x n : (1 <= n <= 65536)%Z -> fin x -> 0 <= R_of x <= 2 ^ 64 ->
  fin (upd_avg x n 0%float) /\ 0 <= R_of (upd_avg x n 0%float) <= R_of x.
Proof.
  intros Hn F H. destruct (upd_zero_R x n Hn F H) as (Fy & Ey & Hr & Hr2).
  split; auto. rewrite Ey. clear Ey Fy.
  pose proof (format_R_of x) as FX. set (X := R_of x) in *.
  destruct (Z.eq_dec n 1) as [E1|N1].
  - rewrite E1. replace (1 / 1) with 1 by field. rewrite rnd_1, Rmult_1_l.
    rewrite (neg_exact X FX). rewrite (rnd_id (- X)) by now apply generic_format_opp.
    replace (X + - X) with 0 by ring. rewrite rnd_0. lra.
  - apply upd_between_ge; auto.
    + apply generic_format_0.
    + lra.
    + split; [lra|]. apply Hr2. lia.
Qed.

Lemma upd_zero_decay_R x n : (1 <= n <= 65536)%Z -> fin x -> 1 <= R_of x <= 2 ^ 64 ->
  R_of (upd_avg x n 0%float) <= R_of x * (1 - / (2 * IZR n)).
Proof.
  intros Hn F H. destruct (upd_zero_R x n Hn F) as (_ & Ey & _); [lra|].
  rewrite Ey. apply decay_R; auto. apply format_R_of. lra.
Qed.

(* ------------------------------------------------------------------ the statements of C10, items 1 and 2 *)

Theorem upd_zero_decay : forall (x : f64) (n : Z), (2 <= n <= 65536)%Z -> GoFloat.is_finite x = true ->
  (1 <= RV x <= 2 ^ 64)%R ->
  let y := upd_avg x n 0%float in
  GoFloat.is_finite y = true /\ (0 <= RV y <= RV x * (1 - / (2 * IZR n)))%R.
Proof.
  intros x n Hn F H y. apply fin_is_finite in F. unfold RV in *. fold (R_of x) in *. fold (R_of y).
  destruct (upd_zero_mono x n) as (Fy & Hy0 & _); auto; try lia; try lra.
  split; [now apply fin_is_finite|]. split; auto.
  apply upd_zero_decay_R; auto. lia.
Qed.

Theorem upd_zero_small : forall x n, (1 <= n <= 65536)%Z -> GoFloat.is_finite x = true ->
  (0 <= RV x < 1)%R ->
  let y := upd_avg x n 0%float in
  GoFloat.is_finite y = true /\ (0 <= RV y <= RV x)%R.
Proof.
  intros x n Hn F H y. apply fin_is_finite in F. unfold RV in *. fold (R_of x) in *. fold (R_of y).
  assert (1 <= 2 ^ 64) by (apply pow_R1_Rle; lra).
  destruct (upd_zero_mono x n) as (Fy & Hy); auto; try lra.
  split; [now apply fin_is_finite|exact Hy].
Qed.

(* window size 1: x + 1 * (0 - x) = 0 for every finite x, however large *)
Lemma fin_lt_bmax x : Rabs (R_of x) < bmax.
Proof. apply (abs_B2R_lt_emax prec emax). Qed.

Theorem upd_zero_n1 : forall x, GoFloat.is_finite x = true -> RV (upd_avg x 1 0%float) = 0%R.
Proof.
  intros x F. apply fin_is_finite in F. unfold RV. fold (R_of (upd_avg x 1 0%float)).
  pose proof (format_R_of x) as FX. pose proof (fin_lt_bmax x) as HX.
  destruct zero_R as [F0 E0]. destruct one_R as [F1 E1].
  set (X := R_of x) in *.
  assert (FnX : format (- X)) by now apply generic_format_opp.
  assert (E11 : R_of (i2f 1) = 1 /\ fin (i2f 1)).
  { destruct (i2f_R 1) as [Fi Ei]; [lia|]. rewrite Ei. split; auto. apply rnd_1. }
  destruct E11 as [Ei Fi].
  (* 1 / float64(1) *)
  destruct (div_R 1%float (i2f 1)) as [Fq Eq]; auto.
  { rewrite Ei. lra. }
  { rewrite E1, Ei. replace (1 / 1) with 1 by field. rewrite rnd_1, Rabs_R1.
    change 1 with (bpow radix2 0). now apply bpow_lt_max. }
  rewrite E1, Ei in Eq. replace (1 / 1) with 1 in Eq by field. rewrite rnd_1 in Eq.
  (* 0 - x *)
  destruct (sub_R 0%float x) as [Fd Ed]; auto.
  { rewrite E0. fold X. rewrite (neg_exact X FX), Rabs_Ropp. exact HX. }
  rewrite E0 in Ed. fold X in Ed. rewrite (neg_exact X FX) in Ed.
  (* 1 * (0 - x) *)
  destruct (mul_R (1 / i2f 1)%float (0 - x)%float) as [Fp Ep]; auto.
  { rewrite Eq, Ed, Rmult_1_l, (rnd_id _ FnX), Rabs_Ropp. exact HX. }
  rewrite Eq, Ed, Rmult_1_l, (rnd_id _ FnX) in Ep.
  (* x + (-x) *)
  destruct (add_R x ((1 / i2f 1) * (0 - x))%float) as [Fs Es]; auto.
  { rewrite Ep. fold X. replace (X + - X) with 0 by ring. rewrite rnd_0, Rabs_R0. apply bpow_gt_0. }
  rewrite Ep in Es. fold X in Es. replace (X + - X) with 0 in Es by ring. rewrite rnd_0 in Es.
  exact Es.
Qed.

(* ------------------------------------------------------------------ comparison with the threshold *)

Lemma ltb_R a b : fin a -> fin b -> (PrimFloat.ltb a b = true <-> R_of a < R_of b).
Proof.
  intros Fa Fb. rewrite ltb_equiv. rewrite Bltb_correct by assumption.
  unfold R_of. case Rlt_bool_spec; intros H; split; intros; auto; try discriminate; lra.
Qed.

(* ------------------------------------------------------------------ real-number facts about the decay factor *)

Definition qf (n : Z) : R := 1 - / (2 * IZR n).

Lemma qf_range n : (1 <= n)%Z -> 0 <= qf n <= 1.
Proof.
  intros H. unfold qf. assert (1 <= IZR n) by (apply IZR_le; lia).
  assert (0 < / (2 * IZR n) <= 1).
  { split; [apply Rinv_0_lt_compat; lra|]. rewrite <- Rinv_1. apply Rinv_le_contravar; lra. }
  lra.
Qed.

Lemma pow_le_1 t k : 0 <= t <= 1 -> 0 <= t ^ k <= 1.
Proof.
  intros H. split; [apply pow_le; lra|]. rewrite <- (pow1 k). apply pow_incr. exact H.
Qed.

Lemma pow_antitone t j k : 0 <= t <= 1 -> (j <= k)%nat -> t ^ k <= t ^ j.
Proof.
  intros H L. replace k with (j + (k - j))%nat by lia. rewrite pow_add.
  pose proof (pow_le_1 t j H). pose proof (pow_le_1 t (k - j) H). nra.
Qed.

(* (1 - y)^m <= 1 / (1 + m y) *)
Lemma pow_inv_bound y m : 0 <= y <= 1 -> (1 - y) ^ m <= / (1 + INR m * y).
Proof.
  intros Hy. induction m as [|m IH].
  - simpl. rewrite Rmult_0_l, Rplus_0_r, Rinv_1. apply Rle_refl.
  - assert (Hm : 0 <= INR m) by apply pos_INR.
    assert (P1 : 0 < 1 + INR m * y) by nra.
    assert (P2 : 0 < 1 + INR (S m) * y) by (rewrite S_INR; nra).
    change ((1 - y) ^ S m) with ((1 - y) * (1 - y) ^ m).
    apply Rle_trans with ((1 - y) * / (1 + INR m * y)).
    { apply Rmult_le_compat_l; [lra|exact IH]. }
    apply Rmult_le_reg_r with (1 + INR m * y); [exact P1|].
    apply Rmult_le_reg_r with (1 + INR (S m) * y); [exact P2|].
    rewrite S_INR in *.
    replace ((1 - y) * / (1 + INR m * y) * (1 + INR m * y) * (1 + (INR m + 1) * y))
      with ((1 - y) * (1 + (INR m + 1) * y)) by (field; lra).
    replace (/ (1 + (INR m + 1) * y) * (1 + INR m * y) * (1 + (INR m + 1) * y))
      with (1 + INR m * y) by (field; lra).
    assert (0 <= (INR m + 1) * (y * y)) by (apply Rmult_le_pos; nra).
    replace ((1 - y) * (1 + (INR m + 1) * y)) with (1 + INR m * y - (INR m + 1) * (y * y)) by ring.
    lra.
Qed.

(* after 2n polls the factor is at most one half *)
Lemma qf_half n : (1 <= n)%Z -> qf n ^ Z.to_nat (2 * n) <= / 2.
Proof.
  intros H. assert (Hn : 1 <= IZR n) by (apply IZR_le; lia).
  assert (Hy : 0 <= / (2 * IZR n) <= 1).
  { split; [apply Rlt_le, Rinv_0_lt_compat; lra|]. rewrite <- Rinv_1. apply Rinv_le_contravar; lra. }
  unfold qf. eapply Rle_trans; [apply pow_inv_bound; exact Hy|].
  rewrite INR_IZR_INZ, Z2Nat.id by lia. rewrite mult_IZR.
  replace (IZR 2 * IZR n * / (2 * IZR n)) with 1 by (field; lra).
  apply Req_le. reflexivity.
Qed.

Lemma IZR_le_pow2_log2_up A : (1 <= A)%Z -> IZR A <= 2 ^ Z.to_nat (Z.log2_up A).
Proof.
  intros H. pose proof (Z.log2_up_nonneg A) as HL.
  rewrite pow_IZR, Z2Nat.id by exact HL. apply IZR_le.
  destruct (Z.eq_dec A 1) as [E|N].
  - rewrite E. simpl. lia.
  - apply Z.log2_up_spec. lia.
Qed.

Definition decay_polls (n A : Z) : Z := 2 * n * (Z.log2_up A + 1).

Lemma decay_polls_half n A : (1 <= n)%Z -> (1 <= A)%Z ->
  IZR A * qf n ^ Z.to_nat (decay_polls n A) <= / 2.
Proof.
  intros Hn HA. pose proof (Z.log2_up_nonneg A) as HL. pose proof (qf_range n Hn) as Hq.
  unfold decay_polls. rewrite Z2Nat.inj_mul by lia. rewrite pow_mult.
  set (l := Z.to_nat (Z.log2_up A)).
  replace (Z.to_nat (Z.log2_up A + 1)) with (S l) by (unfold l; lia).
  pose proof (qf_half n Hn) as Hh.
  assert (Hh0 : 0 <= qf n ^ Z.to_nat (2 * n)) by (apply pow_le; lra).
  apply Rle_trans with (IZR A * (/ 2) ^ S l).
  { apply Rmult_le_compat_l; [apply IZR_le; lia|]. apply pow_incr. split; assumption. }
  apply Rle_trans with (2 ^ l * (/ 2) ^ S l).
  { apply Rmult_le_compat_r; [apply pow_le; lra|]. now apply IZR_le_pow2_log2_up. }
  change ((/ 2) ^ S l) with (/ 2 * (/ 2) ^ l).
  replace (2 ^ l * (/ 2 * (/ 2) ^ l)) with (/ 2 * (2 ^ l * (/ 2) ^ l)) by ring.
  rewrite <- Rpow_mult_distr. replace (2 * / 2) with 1 by field. rewrite pow1. lra.
Qed.

(* ------------------------------------------------------------------ iteration *)

Lemma iter_inv n X0 x k : (1 <= n <= 65536)%Z -> fin x -> 0 <= R_of x <= X0 -> X0 <= 2 ^ 64 ->
  let y := Nat.iter k (fun a => upd_avg a n 0%float) x in
  fin y /\ 0 <= R_of y <= X0 /\ (R_of y < 1 \/ R_of y <= X0 * qf n ^ k).
Proof.
  intros Hn F H HX0. induction k as [|k IH]; cbn zeta.
  - simpl. split; auto. split; auto. right. lra.
  - cbn zeta in IH. cbn [Nat.iter nat_rect]. fold (Nat.iter k (fun a => upd_avg a n 0%float) x).
    set (y := Nat.iter k (fun a => upd_avg a n 0%float) x) in *.
    destruct IH as (Fy & Hy & Hd).
    destruct (upd_zero_mono y n Hn Fy) as (Fz & Hz); [lra|].
    split; auto. split; [lra|].
    destruct (Rlt_or_le (R_of y) 1) as [Lt|Ge]; [left; lra|].
    destruct Hd as [Hd|Hd]; [lra|]. right.
    pose proof (upd_zero_decay_R y n Hn Fy ltac:(lra)) as Hdec. fold (qf n) in Hdec.
    pose proof (qf_range n ltac:(lia)) as Hq.
    apply Rle_trans with (1 := Hdec). simpl. 
    replace (X0 * (qf n * qf n ^ k)) with (X0 * qf n ^ k * qf n) by ring.
    apply Rmult_le_compat_r; lra.
Qed.

Theorem hwmon_detect_bound : forall n A x k, (1 <= n <= 65536)%Z -> (1 <= A <= 2 ^ 62)%Z ->
  GoFloat.is_finite x = true -> (0 <= RV x <= IZR A)%R ->
  (Z.to_nat (decay_polls n A) <= k)%nat ->
  PrimFloat.ltb (Nat.iter k (fun a => upd_avg a n 0%float) x) 1%float = true.
Proof.
  intros n A x k Hn HA F H Hk. apply fin_is_finite in F. unfold RV in H. fold (R_of x) in H.
  assert (HA64 : IZR A <= 2 ^ 64).
  { rewrite pow_IZR. apply IZR_le. simpl Z.of_nat. lia. }
  destruct (iter_inv n (IZR A) x k Hn F H HA64) as (Fy & Hy & Hd).
  destruct one_R as [F1 E1].
  apply ltb_R; auto. rewrite E1.
  destruct Hd as [Hd|Hd]; [exact Hd|].
  pose proof (qf_range n ltac:(lia)) as Hq.
  pose proof (pow_antitone (qf n) _ k Hq Hk) as Hp.
  pose proof (decay_polls_half n A ltac:(lia) ltac:(lia)) as Hh.
  assert (0 <= IZR A) by (apply IZR_le; lia).
  assert (IZR A * qf n ^ k <= IZR A * qf n ^ Z.to_nat (decay_polls n A)) by (apply Rmult_le_compat_l; assumption).
  lra.
Qed.

Print Assumptions hwmon_detect_bound.
