(* The default PWM map of a fan whose PWM cannot be swept:
   util.InterpolateLinearlyInt({0:0, 255:255}, 0, 255).  Model.Startup states it as
   the identity on 0..255; here that is DERIVED from the model of
   CalculateInterpolatedCurveValue (float64 ratio, float32 rounding of the result,
   truncation to int), and the value written through it is characterised. *)
From Coq Require Import ZArith Bool List Lia Floats Sorting.Sorted.
From F2G Require Import Go.GoFloat gen.Consts Model.Util Model.Fan Model.Startup Proofs.Closest Proofs.ClosestMono.
Import ListNotations.
Open Scope Z_scope.

Definition default_steps : list (Z * f64) := [(0, i2f 0); (255, i2f 255)].

(* InterpolateLinearlyInt over the model of CalculateInterpolatedCurveValue;
   None = the interpolation would panic for some key *)
Definition interp_default : option pmap :=
  fold_right (fun i acc => match interpolate default_steps (i2f i), acc with
                           | IvVal y, Some l => Some ((i, f2i y) :: l)
                           | _, _ => None end) (Some []) pwm_values.

Theorem default_map_is_interpolated : interp_default = Some default_map.
Proof. vm_compute. reflexivity. Qed.

(* the identity depends on the float32 rounding inside CalculateInterpolatedCurveValue:
   the float64 expression alone truncates to i-1 at 31 keys *)
Definition raw_default (i : Z) : Z :=
  f2i (PrimFloat.add (i2f 0) (PrimFloat.mul (Ratio (i2f i) (i2f 0) (i2f 255)) (PrimFloat.sub (i2f 255) (i2f 0)))).
Example default_map_needs_f32 :
  filter (fun i => negb (raw_default i =? i)) pwm_values =
  [15; 21; 30; 41; 42; 59; 60; 82; 83; 84; 85; 118; 119; 120; 121; 164; 165; 166; 167; 168; 169; 170; 171;
   236; 237; 238; 239; 240; 241; 242; 243]
  /\ forallb (fun i => raw_default i =? i - 1) [15; 21; 30; 41; 243] = true.
Proof. split; vm_compute; reflexivity. Qed.

(* ---- generic facts about zrange_from and identity maps over it ---- *)
Lemma in_zrange n : forall lo x, In x (zrange_from lo n) <-> lo <= x < lo + Z.of_nat n.
Proof.
  induction n as [|n IH]; intros lo x; cbn [zrange_from].
  - split; [contradiction|lia].
  - cbn [In]. rewrite IH. lia.
Qed.

Lemma zrange_sorted n : forall lo, StronglySorted Z.lt (zrange_from lo n).
Proof.
  induction n as [|n IH]; intros lo; cbn [zrange_from]; constructor; [apply IH|].
  rewrite Forall_forall. intros x Hx. apply in_zrange in Hx. lia.
Qed.

Definition id_map (l : list Z) : pmap := map (fun i => (i, i)) l.

Lemma id_map_fst l : map fst (id_map l) = l.
Proof. unfold id_map. rewrite map_map. cbn [fst]. apply map_id. Qed.

Lemma id_map_lookup l k : In k l -> lookup (id_map l) k = k.
Proof.
  induction l as [|a r IH]; [contradiction|]. intros Hin. cbn [id_map map lookup].
  destruct (Z.eqb_spec a k) as [->|Hne]; [reflexivity|].
  destruct Hin as [->|Hin]; [congruence|]. apply IH, Hin.
Qed.

Lemma pwm_values_eq : pwm_values = zrange_from 0 256.
Proof. reflexivity. Qed.

Lemma default_supported : supported default_map = pwm_values.
Proof. vm_compute. reflexivity. Qed.

(* every integer request through the default map: the fan receives the request
   clamped to 0..255, nothing else *)
Theorem written_default_clamp r : written default_map r = FcVal (Z.max 0 (Z.min 255 r)).
Proof.
  assert (S : StronglySorted Z.lt (map fst default_map)).
  { unfold default_map. change (map (fun i => (i, i)) pwm_values) with (id_map pwm_values).
    rewrite id_map_fst, pwm_values_eq. apply zrange_sorted. }
  destruct (written_spec default_map r) as [k [_ [[Hin N] [W _]]]]; [discriminate|exact S|].
  rewrite W. f_equal.
  rewrite default_supported in Hin, N.
  assert (Hk : 0 <= k < 256) by (rewrite pwm_values_eq in Hin; apply in_zrange in Hin; lia).
  assert (Hc : In (Z.max 0 (Z.min 255 r)) pwm_values) by (rewrite pwm_values_eq; apply in_zrange; lia).
  specialize (N _ Hc).
  change default_map with (id_map pwm_values). rewrite id_map_lookup; [lia|exact Hin].
Qed.
