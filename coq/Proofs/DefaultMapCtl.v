(* composition: the controller's rescaled request through the default map.
   For every curve value and every limit pair the value written to a fan without
   PWM read-back IS the rescaled request (no rounding loss in the map stage). *)
From Coq Require Import ZArith Bool List Lia Floats.
From F2G Require Import Go.GoFloat gen.Consts Model.Util Model.Controller Model.Startup
                        Proofs.Rescale Proofs.DefaultMap.
Open Scope Z_scope.

Theorem written_default_rescaled t lo hi :
  0 <= t <= 255 -> 0 <= lo -> lo <= hi -> hi <= 255 ->
  written default_map (rescale_c t lo hi) = FcVal (rescale_c t lo hi)
  /\ lo <= rescale_c t lo hi <= hi.
Proof.
  intros Ht H0 H1 H2. pose proof (rescale_bounds t lo hi Ht H0 H1 H2) as B.
  split; [|exact B]. rewrite written_default_clamp. f_equal. lia.
Qed.

(* any curve value at all: the clamp of calculateTargetPwm comes first *)
Theorem written_default_steady v lo hi :
  0 <= lo -> lo <= hi -> hi <= 255 ->
  written default_map (steady v lo hi) = FcVal (steady v lo hi) /\ lo <= steady v lo hi <= hi.
Proof.
  intros H0 H1 H2. unfold steady. apply written_default_rescaled; auto. apply clamp_target_range.
Qed.
