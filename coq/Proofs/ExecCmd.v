(* C19: SafeCmdExecution and its callers never crash, classify every behaviour
   as trimmed output or error, and return within timeout + wait delay — as
   theorems about the model of os/exec in Model/Exec.v.  Axiom-free. *)
From Coq Require Import ZArith Bool List Lia.
From F2G Require Import Go.GoFloat Model.Exec Proofs.ExecPerm.
Import ListNotations.
Open Scope Z_scope.

(* ---- never a crash; output or error ---- *)
Lemma safe_cmd_classify T d ck b :
  ck <> CkPanic ->
  r_out (safe_cmd T d ck b) = Ok (trim_nl (out_of b)) \/ exists e, r_out (safe_cmd T d ck b) = Err e.
Proof.
  intros H. unfold safe_cmd. destruct ck; [|right; eexists; reflexivity|congruence].
  destruct (cmd_output T d b) as [err tau]. destruct (tleb (At T) tau).
  - right. eexists. reflexivity.
  - destruct err; [right; eexists; reflexivity|left; reflexivity].
Qed.

Lemma safe_cmd_no_crash T d ck b : ck <> CkPanic -> r_out (safe_cmd T d ck b) <> Crash.
Proof.
  intros H. destruct (safe_cmd_classify T d ck b H) as [E|[e E]]; rewrite E; discriminate.
Qed.

(* with the permission check as it is in the code, for every pair of file
   systems the check may see (i.e. also under concurrent change) *)
Lemma safe_cmd_total s1 s2 p T d b :
  let r := safe_cmd T d (check_file2 s1 s2 p) b in
  r_out r <> Crash /\ (r_out r = Ok (trim_nl (out_of b)) \/ exists e, r_out r = Err e).
Proof.
  cbv zeta. pose proof (check_file_never_panics s1 s2 p) as N. split.
  - now apply safe_cmd_no_crash.
  - now apply safe_cmd_classify.
Qed.

(* output is returned exactly for a command that was allowed, started, ended
   by itself with status 0 before the deadline, and whose pipes were released
   in time *)
Lemma safe_cmd_ok_inv T d ck b t :
  r_out (safe_cmd T d ck b) = Ok t ->
  ck = CkOk /\ exists pr, b = Starts pr /\ p_exit pr = ExitCode 0
     /\ tleb (p_exit_at pr) (At T) = true /\ t = trim_nl (p_out pr).
Proof.
  unfold safe_cmd. destruct ck; try discriminate. split; [reflexivity|].
  destruct b as [f|pr]; cbn [cmd_output] in H.
  - destruct (tleb (At T) (At 0)); discriminate.
  - exists pr. split; [reflexivity|]. revert H. cbv zeta.
    destruct (tleb (p_exit_at pr) (At T)) eqn:K; cbn [negb].
    + destruct (p_exit pr) as [c|sg] eqn:X.
      * destruct (Z.eqb_spec c 0) as [->|NZ].
        -- set (te := match p_exit_at pr with At t0 => t0 | Never => T end).
           destruct (d =? 0).
           ++ destruct (tleb (At T) (tmax (At te) (p_held_until pr))); [discriminate|].
              intros H. inversion H. auto.
           ++ destruct (tleb (tmax (At te) (p_held_until pr)) (At (te + d))).
              ** destruct (tleb (At T) (tmax (At te) (p_held_until pr))); [discriminate|].
                 intros H. inversion H. auto.
              ** destruct (tleb (At T) (At (te + d))); discriminate.
        -- assert (E : match c with 0 => @None go_err | _ => Some (EExit (ExitCode c)) end = Some (EExit (ExitCode c)))
             by (destruct c; congruence).
           rewrite E. destruct (d =? 0).
           ++ match goal with |- context [tleb (At T) ?x] => destruct (tleb (At T) x) end; discriminate.
           ++ match goal with |- context [if tleb ?a ?b then (_, ?a) else _] => destruct (tleb a b) end;
              match goal with |- context [tleb (At T) ?x] => destruct (tleb (At T) x) end; discriminate.
      * destruct (d =? 0).
        ++ match goal with |- context [tleb (At T) ?x] => destruct (tleb (At T) x) end; discriminate.
        ++ match goal with |- context [if tleb ?a ?b then (_, ?a) else _] => destruct (tleb a b) end;
           match goal with |- context [tleb (At T) ?x] => destruct (tleb (At T) x) end; discriminate.
    + destruct (d =? 0).
      * match goal with |- context [tleb (At T) ?x] => destruct (tleb (At T) x) end; discriminate.
      * match goal with |- context [if tleb ?a ?b then (_, ?a) else _] => destruct (tleb a b) end;
        match goal with |- context [tleb (At T) ?x] => destruct (tleb (At T) x) end; discriminate.
Qed.

(* ... and a well-behaved command does get its output through (the function is
   not trivially "always error") *)
Lemma safe_cmd_ok_intro T d pr te :
  0 <= d -> p_exit pr = ExitCode 0 -> p_exit_at pr = At te -> te < T ->
  tleb (p_held_until pr) (At te) = true ->
  safe_cmd T d CkOk (Starts pr) = mkRes (Ok (trim_nl (p_out pr))) (At te).
Proof.
  intros Hd X E Hlt Hh. unfold safe_cmd, cmd_output. rewrite X, E. cbn [tleb].
  assert (L : (te <=? T) = true) by (apply Z.leb_le; lia). rewrite L. cbn [negb].
  assert (TP : tmax (At te) (p_held_until pr) = At te).
  { destruct (p_held_until pr) as [h|]; cbn in *; [|discriminate]. apply Z.leb_le in Hh. f_equal. lia. }
  rewrite TP. cbn [tleb].
  assert (L2 : (te <=? te + d) = true) by (apply Z.leb_le; lia).
  assert (L3 : (T <=? te) = false) by (apply Z.leb_gt; lia).
  destruct (d =? 0); [|rewrite L2]; cbn [tleb]; rewrite L3; reflexivity.
Qed.

(* ---- the time bound ---- *)
(* the numbers of the property statement: "within its timeout (2 s) plus a small
   margin".  [small_margin_ms] is what this development accepts as small on the
   real wall clock; [slack_ms] of it is reserved for process creation and
   scheduling, which the model does not have. *)
Definition prop_timeout_ms : Z := 2000.
Definition small_margin_ms : Z := 600.
Definition slack_ms : Z := 400.

Definition time_le (t : time) (bound : Z) : Prop := exists ms, t = At ms /\ ms <= bound.

Lemma cmd_output_bounded T d b :
  0 <= T -> 0 < d -> time_le (snd (cmd_output T d b)) (T + d).
Proof.
  intros HT Hd. destruct b as [f|pr]; cbn [cmd_output].
  - exists 0. split; [reflexivity|lia].
  - cbv zeta. assert (D0 : (d =? 0) = false) by (apply Z.eqb_neq; lia). rewrite D0.
    set (killed := negb (tleb (p_exit_at pr) (At T))).
    set (te := if killed then T else match p_exit_at pr with At t0 => t0 | Never => T end).
    assert (Hte : te <= T).
    { unfold te, killed. destruct (p_exit_at pr) as [t0|]; cbn [tleb negb].
      - destruct (t0 <=? T) eqn:L; cbn [negb]; cbv iota; [apply Z.leb_le in L; exact L|apply Z.le_refl].
      - cbv iota. apply Z.le_refl. }
    destruct (tleb (tmax (At te) (p_held_until pr)) (At (te + d))) eqn:W; cbn [snd].
    + destruct (p_held_until pr) as [h|]; cbn [tmax tleb] in *; [|discriminate].
      apply Z.leb_le in W. eexists. split; [reflexivity|lia].
    + eexists. split; [reflexivity|lia].
Qed.

Lemma safe_cmd_bounded T d ck b :
  0 <= T -> 0 < d -> time_le (r_time (safe_cmd T d ck b)) (T + d).
Proof.
  intros HT Hd. unfold safe_cmd. destruct ck; try (exists 0; split; [reflexivity|lia]).
  pose proof (cmd_output_bounded T d b HT Hd) as B.
  destruct (cmd_output T d b) as [err tau]. cbn [snd] in B.
  destruct (tleb (At T) tau); [exact B|]. destruct err; exact B.
Qed.

(* without a wait delay (cmd.WaitDelay = 0, the pinned code) there is no bound at
   all: a command that exits at once but leaves a descendant holding its stdout *)
Definition lingering (h : time) : behaviour :=
  Starts (mkProc (ExitCode 0) (At 0) [(52, 1); (50, 1); (10, 1)] h).

Lemma no_wait_delay_unbounded T B :
  0 <= T -> 0 <= B -> ~ time_le (r_time (safe_cmd T 0 CkOk (lingering (At (B + 1))))) B.
Proof.
  intros HT HB [ms [E L]]. unfold safe_cmd, lingering, cmd_output in E. cbn [p_exit_at p_exit p_held_until tleb] in E.
  assert (L0 : (0 <=? T) = true) by (apply Z.leb_le; lia). rewrite L0 in E. cbn [negb tmax] in E.
  change (0 =? 0) with true in E. cbv iota in E.
  replace (Z.max 0 (B + 1)) with (B + 1) in E by lia.
  destruct (T <=? B + 1); cbn [r_time] in E; inversion E; lia.
Qed.

Lemma no_wait_delay_hangs T :
  r_time (safe_cmd T 0 CkOk (lingering Never)) = Never.
Proof.
  unfold safe_cmd, lingering, cmd_output. cbn [p_exit_at p_exit p_held_until tleb].
  destruct (0 <=? T); cbn [negb tmax]; change (0 =? 0) with true; cbv iota; cbn [tleb]; reflexivity.
Qed.

(* ---- the callers ---- *)
Section Callers.
  Variable parse : text -> option f64.

  Lemma sensor_no_crash T d ck b : ck <> CkPanic -> fst (sensor_get_value parse T d ck b) <> CvCrash.
  Proof.
    intros H. unfold sensor_get_value. cbn [fst].
    destruct (safe_cmd_classify T d ck b H) as [E|[e E]]; rewrite E; [destruct (parse _) as [f|]; [destruct (is_finite f)|]|]; discriminate.
  Qed.

  Lemma fan_get_no_crash T d ck b : ck <> CkPanic -> fst (fan_get_int parse T d ck b) <> CvCrash.
  Proof.
    intros H. unfold fan_get_int. cbn [fst].
    destruct (safe_cmd_classify T d ck b H) as [E|[e E]]; rewrite E; [destruct (parse _)|]; discriminate.
  Qed.

  Lemma fan_set_no_crash T d ck b : ck <> CkPanic -> fst (fan_set_pwm T d ck b) <> CvCrash.
  Proof.
    intros H. unfold fan_set_pwm. cbn [fst].
    destruct (safe_cmd_classify T d ck b H) as [E|[e E]]; rewrite E; discriminate.
  Qed.

  Lemma callers_time T d ck b :
    snd (sensor_get_value parse T d ck b) = r_time (safe_cmd T d ck b)
    /\ snd (fan_get_int parse T d ck b) = r_time (safe_cmd T d ck b)
    /\ snd (fan_set_pwm T d ck b) = r_time (safe_cmd T d ck b).
  Proof. repeat split. Qed.
End Callers.

Lemma callers_never_crash (parse : text -> option f64) s1 s2 p T d b :
  let ck := check_file2 s1 s2 p in
  fst (sensor_get_value parse T d ck b) <> CvCrash
  /\ fst (fan_get_int parse T d ck b) <> CvCrash
  /\ fst (fan_set_pwm T d ck b) <> CvCrash.
Proof.
  cbv zeta. pose proof (check_file_never_panics s1 s2 p) as N. repeat split.
  - now apply sensor_no_crash.
  - now apply fan_get_no_crash.
  - now apply fan_set_no_crash.
Qed.

(* ---- strings.Trim(s, "\n") on run-length encoded text ---- *)
Fixpoint expand (t : text) : list Z :=
  match t with
  | [] => []
  | (b, n) :: r => repeat b (Z.to_nat n) ++ expand r
  end.

Fixpoint drop_nl_bytes (l : list Z) : list Z :=
  match l with
  | b :: r => if b =? 10 then drop_nl_bytes r else l
  | [] => []
  end.
Definition trim_nl_bytes (l : list Z) : list Z := rev (drop_nl_bytes (rev (drop_nl_bytes l))).

Lemma drop_nl_bytes_repeat10 n l : drop_nl_bytes (repeat 10 n ++ l) = drop_nl_bytes l.
Proof. induction n; cbn; auto. Qed.

Lemma expand_drop_nl t : expand (drop_nl t) = drop_nl_bytes (expand t).
Proof.
  induction t as [|[b n] r IH]; [reflexivity|]. cbn [drop_nl].
  destruct (Z.eqb_spec b 10) as [->|NB]; cbn [orb].
  - rewrite IH. cbn [expand]. now rewrite drop_nl_bytes_repeat10.
  - destruct (Z.leb_spec n 0) as [L|G].
    + rewrite IH. cbn [expand]. replace (Z.to_nat n) with O by lia. reflexivity.
    + cbn [expand]. destruct (Z.to_nat n) as [|k] eqn:K; [lia|]. cbn.
      destruct (Z.eqb_spec b 10); [contradiction|reflexivity].
Qed.

Lemma rev_repeat {A} (x : A) n : rev (repeat x n) = repeat x n.
Proof.
  induction n; [reflexivity|]. cbn. rewrite IHn. clear IHn.
  induction n; [reflexivity|]. cbn. now rewrite IHn.
Qed.

Lemma expand_app t1 t2 : expand (t1 ++ t2) = expand t1 ++ expand t2.
Proof. induction t1 as [|[b n] r IH]; cbn; [reflexivity|]. now rewrite IH, app_assoc. Qed.

Lemma expand_rev t : expand (rev t) = rev (expand t).
Proof.
  induction t as [|[b n] r IH]; [reflexivity|]. cbn. rewrite expand_app, IH, rev_app_distr, rev_repeat.
  cbn. now rewrite app_nil_r.
Qed.

(* the run-length trim used by the model denotes strings.Trim(_, "\n") on the bytes *)
Lemma trim_nl_expand t : expand (trim_nl t) = trim_nl_bytes (expand t).
Proof.
  unfold trim_nl, trim_nl_bytes. now rewrite expand_rev, expand_drop_nl, expand_rev, expand_drop_nl.
Qed.
