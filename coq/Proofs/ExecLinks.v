(* "No false alarm" links for the drivers `perm` (C18) and `exec` (C19): a case
   on which the model agrees with the implementation (mismatch = false) is never
   reported as a property violation (holdsb = true).  Together with the
   observer specifications (holds_ops_spec, holdsb_spec) this ties the verdict
   F of ./check to the theorems: F <> [] implies M <> [] — a failing input is
   always also a point where the code left the model — and a clean M means the
   property holds on every explored case BECAUSE the model has it. *)
From Coq Require Import ZArith Bool List Lia.
From F2G Require Import Go.GoFloat gen.Consts gen.ExecConsts Model.Exec.
From F2G Require Import Proofs.ExecPerm Proofs.ExecCmd Proofs.ExecShape Proofs.CtrlLinks.
From F2G Require Drv.Perm Drv.Exec Drv.ExecHist.
Import ListNotations.
Open Scope Z_scope.

(* ================================================================== *)
(* driver perm                                                         *)
(* ================================================================== *)
Module PermLink.
Import F2G.Drv.Perm.

Lemma attrs_eqb_eq a b : attrs_eqb a b = true -> a = b.
Proof.
  destruct a as [[u g] m], b as [[u' g'] m']. cbn. intros H.
  apply andb_true_iff in H. destruct H as [H H3]. apply andb_true_iff in H. destruct H as [H1 H2].
  apply Z.eqb_eq in H1, H2, H3. congruence.
Qed.

Lemma stat_eqb_eq a b : stat_eqb a b = true -> a = b.
Proof.
  destruct a as [x|], b as [y|]; cbn; try discriminate; auto. intros H. f_equal. now apply attrs_eqb_eq.
Qed.

Lemma start_eqb_eq a b : start_eqb a b = true -> a = b.
Proof.
  destruct a as [f x], b as [f' y]. unfold start_eqb. cbn [fst snd]. intros H.
  apply andb_true_iff in H. destruct H as [H1 H2]. apply Z.eqb_eq in H1. apply attrs_eqb_eq in H2. congruence.
Qed.

Lemma obs_eqb_eq a b : obs_eqb a b = true -> a = b.
Proof.
  destruct a as [s1 st1 r1 q1], b as [s2 st2 r2 q2]. unfold obs_eqb. cbn [ob_stat ob_starts ob_res ob_reason].
  intros H. apply andb_true_iff in H. destruct H as [H H4]. apply andb_true_iff in H. destruct H as [H H3].
  apply andb_true_iff in H. destruct H as [H1 H2].
  apply stat_eqb_eq in H1. apply (list_eqb_eq start_eqb start_eqb_eq) in H2. apply Z.eqb_eq in H3, H4. congruence.
Qed.

Lemma stat_of_resolved s p f u g m :
  eval_symlinks s p = RFile f u g m -> stat_of s p = Some (u, g, m).
Proof.
  intros R. unfold stat_of. unfold eval_symlinks in R.
  rewrite (follow_mono _ _ _ _ _ _ _ R 300%nat) by (unfold go_maxlinks; lia). reflexivity.
Qed.

Lemma allowed_path_stat s p x r q :
  allowed_path s p -> stat_allowed (mkObs (stat_of s p) x r q).
Proof.
  intros [f [u [g [m [E A]]]]]. exists u, g, m. cbn [ob_stat]. split; [now apply (stat_of_resolved s p f)|now apply allowed_spec].
Qed.

(* the model's own observation of a call satisfies the observer, in every file system *)
Lemma model_call_holds failing s api p : Call_holds api (call_obs failing s api p).
Proof.
  unfold call_obs. destruct (exec_call s p) as [f u g m|e| |] eqn:X.
  - apply exec_call_ran in X. destruct X as [R [A _]]. split; cbn [ob_starts].
    + constructor; [exact A|constructor].
    + intros N. exfalso. apply N. exists u, g, m. cbn [ob_stat]. split; [now apply (stat_of_resolved s p f)|exact A].
  - split; cbn [ob_starts ob_res]; [constructor|]. intros _. split; [|reflexivity].
    intros N5. apply Z.eqb_neq in N5. now rewrite N5.
  - split; cbn [ob_starts ob_res]; [constructor|]. intros _. split; [|reflexivity].
    intros N5. apply Z.eqb_neq in N5. now rewrite N5.
  - exfalso. eapply exec_call_never_panics. exact X.
Qed.

Lemma model_validate_holds c s p :
  let ob := match validate c s p with
            | VOk => mkObs (stat_of s p) [] 0 0
            | VErrOther => mkObs (stat_of s p) [] 1 8
            | VErrPerm e => mkObs (stat_of s p) [] 1 (reason_code e)
            | VPanic => mkObs (stat_of s p) [] 2 0
            end in
  if has_cmd c then Validate_holds ob else ob_res ob <> 2.
Proof.
  cbv zeta. destruct (has_cmd c) eqn:HC.
  - destruct (validate c s p) as [| |e|] eqn:V.
    + pose proof (config_file_rule c s p HC V) as A. split; intros; [now apply allowed_path_stat|].
      exfalso. apply H. now apply allowed_path_stat.
    + split; cbn [ob_res]; [discriminate|reflexivity].
    + split; cbn [ob_res]; [discriminate|reflexivity].
    + exfalso. eapply validate_never_panics. exact V.
  - destruct (validate c s p) eqn:V; cbn [ob_res]; try discriminate.
    exfalso. eapply validate_never_panics. exact V.
Qed.

Lemma model_bare_holds failing s api l q : Bare_holds (bare_obs failing s api l q).
Proof.
  unfold bare_obs. destruct q as [q'|].
  - destruct (model_call_holds failing s api q') as [H _]. split; [exact H|].
    unfold call_obs. destruct (exec_call s q') as [f u g m|e| |] eqn:X; cbn [ob_res].
    + destruct (memb f failing && negb (api =? 5)); discriminate.
    + destruct (api =? 5); discriminate.
    + destruct (api =? 5); discriminate.
    + exfalso. eapply exec_call_never_panics. exact X.
  - destruct (check_file s l) eqn:C.
    + split; cbn [ob_starts ob_res]; [constructor|destruct (api =? 5); discriminate].
    + split; cbn [ob_starts ob_res]; [constructor|destruct (api =? 5); discriminate].
    + exfalso. eapply check_file_never_panics. exact C.
Qed.

Lemma model_run_holds failing ops : forall s, Holds_ops ops (model_run failing s ops).
Proof.
  induction ops as [|o r IH]; intros s; [reflexivity|].
  destruct o; cbn [model_run model_obs Holds_ops]; try apply IH.
  - split; [apply model_call_holds|apply IH].
  - split; [apply model_validate_holds|apply IH].
  - split; [apply model_bare_holds|apply IH].
  - split; [apply model_call_holds|apply IH].
Qed.

(* every case, no well-formedness needed *)
Theorem perm_no_false_alarm c : mismatch c = false -> holdsb c = true.
Proof.
  unfold mismatch, holdsb. intros H. apply negb_false_iff in H.
  apply (list_eqb_eq obs_eqb obs_eqb_eq) in H. rewrite <- H.
  apply holds_ops_spec. apply model_run_holds.
Qed.
End PermLink.

(* ================================================================== *)
(* driver exec                                                         *)
(* ================================================================== *)
Module ExecLink.
Import F2G.Drv.Exec.

(* what a well-formed case is: a non-negative timeout, and the wall clock of the
   real call exceeded the model's return time by at most [slack_ms] (process
   creation and scheduling, which the model does not have) *)
Definition case_wf (c : case) : Prop :=
  0 <= c_T c /\
  match snd (model c) with
  | At ms => o_ms c <= ms + slack_ms
  | Never => False
  end.

Lemma res_eqb_eq a b : res_eqb a b = true -> a = b.
Proof.
  destruct a, b; cbn; try discriminate; auto; intros H.
  - apply text_eqb_eq in H. congruence.
  - apply feqb_eq in H. congruence.
  - apply Z.eqb_eq in H. congruence.
Qed.

Definition res_okb (c : case) (r : obs_res) : bool :=
  match r with
  | OText t => text_eqb t (trim_nl (out_of (c_b c)))
  | OFloat f => match c_parse c with Some f' => feqb f f' | None => false end
  | OInt z => match c_parse c with Some f' => z =? f2i f' | None => false end
  | OUnit => true
  | OErr => true
  | OPanic => false
  | OHang => false
  end.

Lemma holdsb_split c : holdsb c = (o_ms c <=? bound_ms c) && res_okb c (o_res c).
Proof. reflexivity. Qed.

Lemma ck_of_no_panic z : ck_of z <> CkPanic.
Proof. unfold ck_of. repeat match goal with |- context [if ?b then _ else _] => destruct b end; discriminate. Qed.

Lemma text_eqb_refl t : text_eqb t t = true.
Proof. now apply text_eqb_eq. Qed.

Lemma feqb_refl_finite f : is_finite f = true -> feqb f f = true.
Proof.
  unfold is_finite, feqb. destruct (Prim2SF f) as [s|s| |s m e]; try discriminate; intros _.
  - apply eqb_reflx.
  - rewrite eqb_reflx, Pos.eqb_refl, Z.eqb_refl. reflexivity.
Qed.

Definition timeout_ok (c : case) : Z := if c_api c =? 0 then c_T c else prop_timeout_ms.

Lemma timeout_of_le c : timeout_of c <= timeout_ok c.
Proof.
  destruct within_property_numbers as [A1 [A2 _]]. unfold timeout_of, timeout_ok.
  destruct (c_api c =? 0); [lia|]. destruct ((c_api c =? 1) || (c_api c =? 6)); assumption.
Qed.

Lemma timeout_of_nonneg c : 0 <= c_T c -> 0 <= timeout_of c.
Proof.
  destruct timeouts_nonneg as [A1 A2]. unfold timeout_of. intros H.
  destruct (c_api c =? 0); [exact H|]. destruct ((c_api c =? 1) || (c_api c =? 6)); assumption.
Qed.

(* the model's result satisfies the result part of the observer *)
Lemma model_res_ok c : res_okb c (fst (model c)) = true.
Proof.
  unfold model. cbv zeta. pose proof (ck_of_no_panic (c_ck c)) as NP.
  set (T := timeout_of c). set (d := CmdWaitDelayMs). set (ck := ck_of (c_ck c)) in *.
  destruct (safe_cmd_classify T d ck (c_b c) NP) as [E|[e E]].
  - destruct (c_api c =? 0); [|destruct (c_api c =? 6); [|destruct (c_api c =? 1); [|destruct (c_api c =? 3)]]].
    + cbn [fst]. rewrite E. cbn. apply text_eqb_refl.
    + cbn [fst]. rewrite E. reflexivity.
    + unfold sensor_get_value. cbn [fst]. rewrite E. destruct (c_parse c) as [f|] eqn:P; [|reflexivity].
      destruct (is_finite f) eqn:F; [|reflexivity]. cbn. rewrite P. now apply feqb_refl_finite.
    + unfold fan_set_pwm. cbn [fst]. rewrite E. reflexivity.
    + unfold fan_get_int. cbn [fst]. rewrite E. destruct (c_parse c) as [f|] eqn:P; [|reflexivity].
      cbn. rewrite P. apply Z.eqb_refl.
  - destruct (c_api c =? 0); [|destruct (c_api c =? 6); [|destruct (c_api c =? 1); [|destruct (c_api c =? 3)]]].
    + cbn [fst]. rewrite E. reflexivity.
    + cbn [fst]. rewrite E. reflexivity.
    + unfold sensor_get_value. cbn [fst]. rewrite E. reflexivity.
    + unfold fan_set_pwm. cbn [fst]. rewrite E. reflexivity.
    + unfold fan_get_int. cbn [fst]. rewrite E. reflexivity.
Qed.

Lemma model_time c : snd (model c) = r_time (safe_cmd (timeout_of c) CmdWaitDelayMs (ck_of (c_ck c)) (c_b c)).
Proof.
  unfold model. cbv zeta.
  destruct (c_api c =? 0); [reflexivity|]. destruct (c_api c =? 6); [reflexivity|].
  destruct (c_api c =? 1); [reflexivity|]. destruct (c_api c =? 3); reflexivity.
Qed.

Theorem exec_no_false_alarm c : case_wf c -> mismatch c = false -> holdsb c = true.
Proof.
  intros [HT W] M. rewrite holdsb_split. unfold mismatch in M.
  pose proof (model_res_ok c) as R. pose proof (model_time c) as TM.
  destruct (model c) as [r t] eqn:MD. cbn [fst snd] in *.
  apply negb_false_iff in M. apply andb_true_iff in M. destruct M as [M1 _].
  apply res_eqb_eq in M1. subst r. rewrite R, andb_true_r. apply Z.leb_le.
  pose proof (safe_cmd_bounded (timeout_of c) CmdWaitDelayMs (ck_of (c_ck c)) (c_b c)
                (timeout_of_nonneg c HT) wait_delay_positive) as [ms [E L]].
  rewrite <- TM in E. subst t.
  destruct within_property_numbers as [_ [_ A3]]. pose proof (timeout_of_le c) as TL.
  unfold bound_ms. unfold timeout_ok in TL. rewrite E in W. destruct (c_api c =? 0); lia.
Qed.
End ExecLink.

(* ================================================================== *)
(* driver exechist: a history is judged call by call                  *)
(* ================================================================== *)
Module ExecHistLink.
Import F2G.Drv.ExecHist.

Theorem exechist_no_false_alarm (c : case) :
  Forall ExecLink.case_wf c -> mismatch c = false -> holdsb c = true.
Proof.
  unfold mismatch, holdsb. intros W M. apply forallb_forall. intros x Hx.
  apply ExecLink.exec_no_false_alarm.
  - rewrite Forall_forall in W. auto.
  - destruct (Drv.Exec.mismatch x) eqn:E; [|reflexivity].
    assert (existsb Drv.Exec.mismatch c = true) by (apply existsb_exists; exists x; auto). congruence.
Qed.
End ExecHistLink.
