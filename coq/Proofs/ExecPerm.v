(* C18: the permission decision, symlink resolution, every call re-checks, and
   the configuration-file rule.  Axiom-free (Z, bool, lists). *)
From Coq Require Import ZArith Bool List Lia.
From F2G Require Import Model.Exec.
Import ListNotations.
Open Scope Z_scope.

(* ---- the decision as a statement on mode bits, for every uid/gid/mode ---- *)
Definition root_controlled (uid gid mode : Z) : Prop :=
  uid = 0 /\ ~ (gid <> 0 /\ Z.land mode 16 <> 0) /\ Z.land mode 2 = 0.

Lemma allowed_spec uid gid mode :
  allowed uid gid mode = true <-> root_controlled uid gid mode.
Proof.
  unfold allowed, decide, root_controlled, group_write, other_write.
  destruct (uid =? 0) eqn:U; cbn [negb].
  - apply Z.eqb_eq in U. destruct (gid =? 0) eqn:G; cbn [negb andb].
    + apply Z.eqb_eq in G. destruct (Z.land mode 2 =? 0) eqn:O; cbn [negb].
      * apply Z.eqb_eq in O. split; [intros _|reflexivity]. repeat split; auto. intros [H _]. auto.
      * apply Z.eqb_neq in O. split; [discriminate|]. intros [_ [_ H]]. contradiction.
    + apply Z.eqb_neq in G. destruct (Z.land mode 16 =? 0) eqn:W; cbn [negb].
      * apply Z.eqb_eq in W. destruct (Z.land mode 2 =? 0) eqn:O; cbn [negb].
        -- apply Z.eqb_eq in O. split; [intros _|reflexivity]. repeat split; auto. intros [_ H]. auto.
        -- apply Z.eqb_neq in O. split; [discriminate|]. intros [_ [_ H]]. contradiction.
      * apply Z.eqb_neq in W. split; [discriminate|]. intros [_ [H _]]. exfalso. apply H. auto.
  - apply Z.eqb_neq in U. split; [discriminate|]. intros [H _]. contradiction.
Qed.

(* the bits really are the Unix permission bits: on a 9-bit mode, bit 4 is
   group-write (0o020) and bit 1 is other-write (0o002) *)
Lemma group_write_testbit mode : group_write mode = Z.testbit mode 4.
Proof.
  unfold group_write. change 16 with (2 ^ 4).
  destruct (Z.testbit mode 4) eqn:B.
  - assert (Z.land mode (2 ^ 4) <> 0).
    { intro H. assert (Z.testbit (Z.land mode (2 ^ 4)) 4 = false) by (rewrite H; apply Z.bits_0).
      rewrite Z.land_spec, B, Z.pow2_bits_true in H0 by lia. discriminate. }
    apply Z.eqb_neq in H. now rewrite H.
  - assert (Z.land mode (2 ^ 4) = 0).
    { apply Z.bits_inj'. intros n Hn. rewrite Z.land_spec, Z.bits_0, Z.pow2_bits_eqb by lia.
      destruct (Z.eqb_spec 4 n); [subst; now rewrite B|apply andb_false_r]. }
    now rewrite H.
Qed.

Lemma other_write_testbit mode : other_write mode = Z.testbit mode 1.
Proof.
  unfold other_write. change 2 with (2 ^ 1).
  destruct (Z.testbit mode 1) eqn:B.
  - assert (Z.land mode (2 ^ 1) <> 0).
    { intro H. assert (Z.testbit (Z.land mode (2 ^ 1)) 1 = false) by (rewrite H; apply Z.bits_0).
      rewrite Z.land_spec, B, Z.pow2_bits_true in H0 by lia. discriminate. }
    apply Z.eqb_neq in H. now rewrite H.
  - assert (Z.land mode (2 ^ 1) = 0).
    { apply Z.bits_inj'. intros n Hn. rewrite Z.land_spec, Z.bits_0, Z.pow2_bits_eqb by lia.
      destruct (Z.eqb_spec 1 n); [subst; now rewrite B|apply andb_false_r]. }
    now rewrite H.
Qed.

(* ---- the 2 x 2 x 512 grid, exhaustively, against an independent reading of the
   rule (octal digits: group digit = (mode / 8) mod 8, other digit = mode mod 8;
   "writable" = digit in {2,3,6,7}) ---- *)
Definition digit_writable (dg : Z) : bool := (dg =? 2) || (dg =? 3) || (dg =? 6) || (dg =? 7).
Definition rule_by_digits (uid gid mode : Z) : bool :=
  (uid =? 0)
  && negb (negb (gid =? 0) && digit_writable ((mode / 8) mod 8))
  && negb (digit_writable (mode mod 8)).

Definition ids : list Z := [0; 4242].
Definition modes : list Z := map Z.of_nat (seq 0 512).

Definition grid_ok : bool :=
  forallb (fun uid => forallb (fun gid => forallb (fun mode =>
     Bool.eqb (allowed uid gid mode) (rule_by_digits uid gid mode)) modes) ids) ids.

Lemma grid_ok_true : grid_ok = true.
Proof. vm_compute. reflexivity. Qed.

Lemma In_modes mode : 0 <= mode < 512 -> In mode modes.
Proof.
  intros H. unfold modes. apply in_map_iff. exists (Z.to_nat mode). split; [lia|].
  apply in_seq. lia.
Qed.

Lemma allowed_grid uid gid mode :
  In uid ids -> In gid ids -> 0 <= mode < 512 ->
  allowed uid gid mode = rule_by_digits uid gid mode.
Proof.
  intros Hu Hg Hm. pose proof grid_ok_true as G. unfold grid_ok in G.
  rewrite forallb_forall in G. specialize (G uid Hu).
  rewrite forallb_forall in G. specialize (G gid Hg).
  rewrite forallb_forall in G. specialize (G mode (In_modes mode Hm)).
  now apply eqb_prop in G.
Qed.

(* ---- symlink resolution ---- *)
Lemma follow_mono n s p f u g m :
  follow n s p = RFile f u g m -> forall k, (n <= k)%nat -> follow k s p = RFile f u g m.
Proof.
  revert p. induction n as [|n IH]; intros p H k Hk.
  - destruct k; cbn in *; destruct (lookup s p) as [[?|?]|]; try discriminate; auto.
  - destruct k as [|k]; [lia|]. cbn in *. destruct (lookup s p) as [[?|t]|]; try discriminate; auto.
    apply IH; [exact H|lia].
Qed.

Lemma kstat_eval s p f u g m :
  kstat s p = RFile f u g m -> eval_symlinks s p = RFile f u g m.
Proof.
  intros H. unfold eval_symlinks. eapply follow_mono; [exact H|].
  unfold kernel_maxlinks, go_maxlinks. lia.
Qed.

(* the resolved object is a regular file: stat on it needs no further link *)
Lemma follow_file n s p f u g m :
  follow n s p = RFile f u g m -> lookup s f = Some (NFile u g m).
Proof.
  revert p. induction n as [|n IH]; intros p H; cbn in H;
    destruct (lookup s p) as [[u' g' m'|t]|] eqn:L; try discriminate.
  - inversion H; subst. exact L.
  - inversion H; subst. exact L.
  - eauto.
Qed.

Lemma kstat_of_resolved s p f u g m :
  eval_symlinks s p = RFile f u g m -> kstat s f = RFile f u g m.
Proof.
  intros H. apply follow_file in H. unfold kstat, kernel_maxlinks. cbn. now rewrite H.
Qed.

(* ---- the check on a quiescent file system ---- *)
Definition allowed_path (s : fs) (p : Z) : Prop :=
  exists f u g m, eval_symlinks s p = RFile f u g m /\ allowed u g m = true.

Lemma check_file_ok s p :
  check_file s p = CkOk <-> allowed_path s p.
Proof.
  unfold check_file, check_file2, allowed_path. split.
  - destruct (eval_symlinks s p) as [f u g m| |] eqn:E; try discriminate.
    rewrite (kstat_of_resolved _ _ _ _ _ _ E). unfold allowed.
    destruct (decide u g m) eqn:D; [discriminate|]. intros _.
    exists f, u, g, m. rewrite D. auto.
  - intros [f [u [g [m [E A]]]]]. rewrite E, (kstat_of_resolved _ _ _ _ _ _ E).
    unfold allowed in A. destruct (decide u g m); [discriminate|reflexivity].
Qed.

Lemma check_file_never_panics s1 s2 p : check_file2 s1 s2 p <> CkPanic.
Proof.
  unfold check_file2. destruct (eval_symlinks s1 p) as [f u0 g0 m0| |]; try discriminate.
  destruct (kstat s2 f) as [f' u g m| |]; try discriminate. destruct (decide u g m); discriminate.
Qed.

(* under a concurrent change between EvalSymlinks and Stat: Ok only on the
   strength of attributes that pass the rule *)
Lemma check_file2_ok s1 s2 p :
  check_file2 s1 s2 p = CkOk ->
  exists f u0 g0 m0 f' u g m,
    eval_symlinks s1 p = RFile f u0 g0 m0 /\ kstat s2 f = RFile f' u g m /\ allowed u g m = true.
Proof.
  unfold check_file2. destruct (eval_symlinks s1 p) as [f u0 g0 m0| |]; try discriminate.
  destruct (kstat s2 f) as [f' u g m| |] eqn:K; try discriminate.
  unfold allowed. destruct (decide u g m) eqn:D; [discriminate|]. intros _.
  exists f, u0, g0, m0, f', u, g, m. rewrite D. auto.
Qed.

(* ---- one call ---- *)
Lemma exec_call_ran s p f u g m :
  exec_call s p = Ran f u g m ->
  eval_symlinks s p = RFile f u g m /\ root_controlled u g m /\ has_exec m = true.
Proof.
  unfold exec_call. destruct (check_file s p) eqn:C; try discriminate.
  apply check_file_ok in C. destruct C as [f' [u' [g' [m' [E A]]]]].
  destruct (kstat s p) as [f2 u2 g2 m2| |] eqn:K; try discriminate.
  destruct (has_exec m2) eqn:X; try discriminate. intros H. inversion H; subst.
  apply kstat_eval in K. rewrite K in E. inversion E; subst.
  split; [exact K|]. split; [now apply allowed_spec|exact X].
Qed.

Lemma exec_call_refused s p :
  ~ allowed_path s p -> exists e, exec_call s p = Refused e.
Proof.
  intros N. unfold exec_call. destruct (check_file s p) eqn:C.
  - apply check_file_ok in C. contradiction.
  - eauto.
  - exfalso. eapply check_file_never_panics. exact C.
Qed.

Lemma exec_call_never_panics s p : exec_call s p <> Panicked.
Proof.
  unfold exec_call. destruct (check_file s p) eqn:C; try discriminate.
  - destruct (kstat s p) as [f u g m| |]; try discriminate. destruct (has_exec m); discriminate.
  - exfalso. eapply check_file_never_panics. exact C.
Qed.

(* ---- every call in every operation sequence ---- *)
Lemma run_nth s ops k o :
  nth_error ops k = Some o ->
  nth_error (run s ops) k = Some (event_of (state_at s ops k) o).
Proof.
  revert s k. induction ops as [|o' r IH]; intros s k H.
  - destruct k; discriminate.
  - destruct k as [|k]; cbn in *.
    + inversion H; subst. reflexivity.
    + apply IH. exact H.
Qed.

Lemma every_call s0 ops k api p :
  nth_error ops k = Some (OpExec api p) ->
  let s := state_at s0 ops k in
  nth_error (run s0 ops) k = Some (EvCall (exec_call s p))
  /\ (forall f u g m, exec_call s p = Ran f u g m ->
        eval_symlinks s p = RFile f u g m /\ root_controlled u g m)
  /\ (~ allowed_path s p -> exists e, exec_call s p = Refused e)
  /\ exec_call s p <> Panicked.
Proof.
  intros H s. split; [apply (run_nth s0 ops k _ H)|]. split; [|split].
  - intros f u g m R. apply exec_call_ran in R. tauto.
  - apply exec_call_refused.
  - apply exec_call_never_panics.
Qed.

(* the same when the tree is changed WHILE the started command runs: the call
   is still one check and at most one start, both in the state before the change *)
Lemma every_call_during s0 ops k api p d :
  nth_error ops k = Some (OpExecDuring api p d) ->
  let s := state_at s0 ops k in
  nth_error (run s0 ops) k = Some (EvCall (exec_call s p))
  /\ (forall f u g m, exec_call s p = Ran f u g m ->
        eval_symlinks s p = RFile f u g m /\ root_controlled u g m)
  /\ (~ allowed_path s p -> exists e, exec_call s p = Refused e)
  /\ exec_call s p <> Panicked.
Proof.
  intros H s. split; [apply (run_nth s0 ops k _ H)|]. split; [|split].
  - intros f u g m R. apply exec_call_ran in R. tauto.
  - apply exec_call_refused.
  - apply exec_call_never_panics.
Qed.

(* a bare command name: whatever is started is the file exec.LookPath found, and
   it passed the check in the state of that step; nothing is started otherwise *)
Lemma exec_bare_ran s l q f u g m :
  exec_bare s l q = Ran f u g m ->
  exists q', q = Some q' /\ eval_symlinks s q' = RFile f u g m /\ root_controlled u g m.
Proof.
  unfold exec_bare. destruct q as [q'|].
  - intros R. apply exec_call_ran in R. exists q'. tauto.
  - destruct (check_file s l); discriminate.
Qed.

Lemma exec_bare_never_panics s l q : exec_bare s l q <> Panicked.
Proof.
  unfold exec_bare. destruct q as [q'|]; [apply exec_call_never_panics|].
  destruct (check_file s l) eqn:C; try discriminate. exfalso. eapply check_file_never_panics. exact C.
Qed.

Lemma every_call_bare s0 ops k api l q :
  nth_error ops k = Some (OpExecBare api l q) ->
  let s := state_at s0 ops k in
  nth_error (run s0 ops) k = Some (EvCall (exec_bare s l q))
  /\ (forall f u g m, exec_bare s l q = Ran f u g m ->
        exists q', q = Some q' /\ eval_symlinks s q' = RFile f u g m /\ root_controlled u g m)
  /\ exec_bare s l q <> Panicked.
Proof.
  intros H s. split; [apply (run_nth s0 ops k _ H)|]. split.
  - intros f u g m R. now apply exec_bare_ran in R.
  - apply exec_bare_never_panics.
Qed.

(* ---- the configuration file ---- *)
Lemma config_file_rule c s path :
  has_cmd c = true -> validate c s path = VOk -> allowed_path s path.
Proof.
  unfold validate. intros Hc. rewrite Hc. destruct (early_err c); [discriminate|].
  destruct (check_file s path) eqn:C; try discriminate. intros _. now apply check_file_ok.
Qed.

Lemma config_file_rejected c s path :
  has_cmd c = true -> early_err c = false -> ~ allowed_path s path ->
  exists e, validate c s path = VErrPerm e.
Proof.
  unfold validate. intros Hc He N. rewrite Hc, He. destruct (check_file s path) eqn:C.
  - apply check_file_ok in C. contradiction.
  - eauto.
  - exfalso. eapply check_file_never_panics. exact C.
Qed.

Lemma validate_never_panics c s path : validate c s path <> VPanic.
Proof.
  unfold validate. destruct (early_err c); [discriminate|]. destruct (has_cmd c).
  - destruct (check_file s path) eqn:C; try discriminate.
    + destruct (fans_err c); discriminate.
    + exfalso. eapply check_file_never_panics. exact C.
  - destruct (fans_err c); discriminate.
Qed.
