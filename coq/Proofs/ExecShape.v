(* C19: facts that depend on the constants regenerated from the source
   (gen/Consts.v: command timeouts; gen/ExecConsts.v: wait delay, shape of the
   error classification).  Kept apart from Proofs/ExecCmd.v so that the driver
   model still evaluates when the source loses the wait delay. *)
From Coq Require Import ZArith Bool List Lia.
From F2G Require Import Go.GoFloat gen.Consts gen.ExecConsts Model.Exec Proofs.ExecCmd.
Open Scope Z_scope.

Lemma wait_delay_positive : 0 < CmdWaitDelayMs.
Proof. reflexivity. Qed.

Lemma timeouts_nonneg : 0 <= CmdSensorTimeoutS * 1000 /\ 0 <= CmdFanTimeoutS * 1000.
Proof. split; discriminate. Qed.

Lemma callers_bounded (parse : text -> option f64) ck b :
  time_le (snd (sensor_get_value parse (CmdSensorTimeoutS * 1000) CmdWaitDelayMs ck b)) (CmdSensorTimeoutS * 1000 + CmdWaitDelayMs)
  /\ time_le (snd (fan_get_int parse (CmdFanTimeoutS * 1000) CmdWaitDelayMs ck b)) (CmdFanTimeoutS * 1000 + CmdWaitDelayMs)
  /\ time_le (snd (fan_set_pwm (CmdFanTimeoutS * 1000) CmdWaitDelayMs ck b)) (CmdFanTimeoutS * 1000 + CmdWaitDelayMs).
Proof.
  destruct timeouts_nonneg as [HS HF]. pose proof wait_delay_positive as HD.
  destruct (callers_time parse (CmdSensorTimeoutS * 1000) CmdWaitDelayMs ck b) as [E1 _].
  destruct (callers_time parse (CmdFanTimeoutS * 1000) CmdWaitDelayMs ck b) as [_ [E2 E3]].
  rewrite E1, E2, E3. repeat split; now apply safe_cmd_bounded.
Qed.

(* the constants of the source stay within the numbers of the property *)
Lemma within_property_numbers :
  CmdSensorTimeoutS * 1000 <= prop_timeout_ms /\ CmdFanTimeoutS * 1000 <= prop_timeout_ms
  /\ CmdWaitDelayMs + slack_ms <= small_margin_ms.
Proof. repeat split; discriminate. Qed.

Lemma callers_within_property_bound (parse : text -> option f64) ck b :
  let B := prop_timeout_ms + (small_margin_ms - slack_ms) in
  time_le (snd (sensor_get_value parse (CmdSensorTimeoutS * 1000) CmdWaitDelayMs ck b)) B
  /\ time_le (snd (fan_get_int parse (CmdFanTimeoutS * 1000) CmdWaitDelayMs ck b)) B
  /\ time_le (snd (fan_set_pwm (CmdFanTimeoutS * 1000) CmdWaitDelayMs ck b)) B.
Proof.
  cbv zeta. destruct (callers_bounded parse ck b) as [[t1 [E1 L1]] [[t2 [E2 L2]] [t3 [E3 L3]]]].
  destruct within_property_numbers as [A1 [A2 A3]].
  repeat split; eexists; (split; [eassumption|]); lia.
Qed.
