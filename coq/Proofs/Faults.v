(* C09: the closed loop under every fault plan never crashes (repaired code),
   stops only through a safe restore, and keeps regulating under benign faults. *)
From Coq Require Import ZArith Bool List Lia.
From F2G Require Import gen.Consts Model.Restore Proofs.Restore Model.Faults.
Import ListNotations.
Open Scope Z_scope.

(* induction principle for the nested curve type *)
Fixpoint curve_ind' (P : curve -> Prop) (HL : P CLinear) (HP : P CPid)
         (HF : forall t ms, Forall P ms -> P (CFunc t ms)) (c : curve) : P c :=
  match c with
  | CLinear => HL
  | CPid => HP
  | CFunc t ms =>
      HF t ms ((fix go (l : list curve) : Forall P l :=
                  match l with
                  | [] => Forall_nil P
                  | x :: r => Forall_cons x (curve_ind' P HL HP HF x) (go r)
                  end) ms)
  end.

Lemma op_result_repaired cmd f : op_result repaired cmd f <> OpCrash.
Proof. destruct f, cmd; cbn; discriminate. Qed.

Lemma cmd_crash_repaired cmd f : cmd_crash repaired cmd f = false.
Proof. unfold cmd_crash. destruct f, cmd; reflexivity. Qed.

Lemma first_fail_no_crash ev l :
  Forall (fun m => ev m <> OpCrash) l -> first_fail ev l <> OpCrash.
Proof.
  induction 1 as [|m r Hm _ IH]; cbn; [discriminate|].
  destruct (ev m) eqn:E; [exact IH | discriminate | congruence].
Qed.

Lemma eval_curve_no_crash cmd f c :
  curve_valid c = true -> eval_curve repaired cmd f c <> OpCrash.
Proof.
  induction c as [| |t ms IH] using curve_ind'; intros V.
  - cbn. discriminate.
  - apply op_result_repaired.
  - cbn in V. apply andb_true_iff in V. destruct V as [NE V].
    rewrite forallb_forall in V.
    assert (F : Forall (fun m => eval_curve repaired cmd f m <> OpCrash) ms).
    { rewrite Forall_forall in *. intros m Hm. apply IH; auto. }
    apply first_fail_no_crash in F.
    cbn [eval_curve].
    destruct (first_fail (eval_curve repaired cmd f) ms); try discriminate; try congruence.
    destruct ms; [discriminate|discriminate].
Qed.

(* no sensor fault: no curve error either *)
Lemma eval_curve_nofault D cmd c : curve_valid c = true -> eval_curve D cmd FNone c = OpOk.
Proof.
  induction c as [| |t ms IH] using curve_ind'; intros V; try reflexivity.
  cbn in V. apply andb_true_iff in V. destruct V as [NE V].
  rewrite forallb_forall in V.
  assert (F : first_fail (eval_curve D cmd FNone) ms = OpOk).
  { clear NE. induction ms as [|m r IHr]; [reflexivity|].
    inversion IH; subst. cbn. rewrite H1 by (apply V; left; reflexivity).
    apply IHr; auto. intros x Hx. apply V. right. exact Hx. }
  cbn [eval_curve]. rewrite F. destruct ms; [discriminate|reflexivity].
Qed.

(* ---- one cycle ---- *)
Definition outcome_ok (cb : combo) (orig : dev) (o : outcome) : Prop :=
  match o with
  | Crash _ _ => False
  | FanStopped _ p r => safe (mode_supported (cb_fan cb) (cb_enable_exists cb)) orig (r_dev r)
                        \/ last_resort_write_failed p r
  | Regulating _ => True
  end.

Lemma plan_of_detectable y : ~ undetectable (plan_of y).
Proof. unfold undetectable, plan_of. cbn. intros [_ H]. discriminate. Qed.

Lemma update_no_crash cb s y :
  valid_config cb -> forall site, update_fan_speed repaired cb s y <> CCrash site.
Proof.
  intros [V M] site. unfold update_fan_speed.
  pose proof (eval_curve_no_crash (is_cmd_sensor cb) (cy_sensor y) (cb_curve cb) V) as E.
  rewrite M, !cmd_crash_repaired.
  destruct (eval_curve repaired (is_cmd_sensor cb) (cy_sensor y) (cb_curve cb)); [| |congruence];
    destruct (l_last s), (is_cmd_fan cb), (pwm_read_fails y 0), (pwm_read_fails y 1),
             (pwm_read_fails y 2), (cy_pwm_read y);
    cbn -[try_manual]; try discriminate;
    try (destruct (cb_has_rpm cb && cb_never_stop cb && true && cy_stall y); [discriminate|]);
    try (destruct (cb_has_rpm cb && cb_never_stop cb && false && cy_stall y); [discriminate|]);
    destruct (try_manual _ _ _ _ _ _ _ _) as [[? ?] ?]; discriminate.
Qed.

Lemma cycle_repaired cb orig k s y :
  cycle repaired cb orig k s y =
  match update_fan_speed repaired cb s y with
  | CCont s' => Regulating s'
  | CCrash site => Crash k site
  | CErr => FanStopped k (plan_of y) (restore repaired (cb_fan cb) (cb_enable_exists cb) orig (plan_of y) (l_dev s))
  end.
Proof.
  unfold cycle. rewrite !cmd_crash_repaired.
  destruct (cb_has_rpm cb), (is_cmd_fan cb), (pwm_read_fails y 0); reflexivity.
Qed.

Lemma cycle_ok cb orig k s y : valid_config cb -> outcome_ok cb orig (cycle repaired cb orig k s y).
Proof.
  intros V. rewrite cycle_repaired.
  destruct (update_fan_speed repaired cb s y) eqn:U.
  - exact I.
  - cbn. apply restore_local. apply plan_of_detectable.
  - exfalso. eapply update_no_crash; eauto.
Qed.

Theorem run_no_crash :
  forall cb orig d0 plan, valid_config cb -> outcome_ok cb orig (run repaired cb orig d0 plan).
Proof.
  intros cb orig d0 plan V. unfold run. generalize 0 (mkL d0 false).
  induction plan as [|y rest IH]; intros k s; cbn [run_from]; [exact I|].
  pose proof (cycle_ok cb orig k s y V) as C.
  destruct (cycle repaired cb orig k s y); auto.
Qed.

(* ---- benign faults never stop regulation ---- *)
Lemma update_benign cb s y :
  valid_config cb -> benign_cycle (negb (l_last s)) y = true ->
  exists s', update_fan_speed repaired cb s y = CCont s' /\ l_last s' = true.
Proof.
  intros [V M] B. unfold benign_cycle in B.
  apply andb_true_iff in B. destruct B as [B B3]. apply andb_true_iff in B. destruct B as [B1 B2].
  apply negb_true_iff in B2.
  destruct (cy_sensor y) eqn:S; try discriminate. clear B1.
  unfold update_fan_speed. rewrite !cmd_crash_repaired, !andb_false_r, M, S, B2, !andb_false_r.
  rewrite (eval_curve_nofault repaired _ _ V). cbn [negb].
  assert (Hfirst : (if l_last s then OpOk
                    else if is_cmd_fan cb
                         then if pwm_read_fails y 0 then op_result repaired true (cy_pwm_read y) else OpOk
                         else if pwm_read_fails y 0 then OpOk
                              else if pwm_read_fails y 1 then OpOk
                                   else if pwm_read_fails y 2 then OpErr else OpOk) = OpOk).
  { destruct (l_last s); [reflexivity|]. cbn in B3.
    unfold pwm_read_fails. destruct (cy_pwm_read y); try discriminate.
    destruct (is_cmd_fan cb); reflexivity. }
  rewrite Hfirst.
  destruct (try_manual _ _ _ _ _ _ _ _) as [[d1 e] o].
  eexists. split; reflexivity.
Qed.

Lemma benign_cycle_weaken first s y :
  (first = false -> l_last s = true) -> benign_cycle first y = true ->
  benign_cycle (negb (l_last s)) y = true.
Proof.
  intros Hf B. destruct (l_last s) eqn:L; cbn [negb].
  - unfold benign_cycle in *. apply andb_true_iff in B. destruct B as [B _]. rewrite B. reflexivity.
  - destruct first; [exact B|]. specialize (Hf eq_refl). discriminate.
Qed.

Theorem run_continues :
  forall cb orig d0 plan, valid_config cb -> benign plan = true ->
    exists s, run repaired cb orig d0 plan = Regulating s.
Proof.
  intros cb orig d0 plan V. unfold run, benign.
  assert (G : forall k s first, (first = false -> l_last s = true) ->
              benign_from first plan = true -> exists s', run_from repaired cb orig k s plan = Regulating s').
  { induction plan as [|y rest IH]; intros k s first Hf B; cbn [run_from]; [eexists; reflexivity|].
    cbn [benign_from] in B. apply andb_true_iff in B. destruct B as [By Br].
    pose proof (benign_cycle_weaken first s y Hf By) as By'.
    destruct (update_benign cb s y V By') as [s' [U L]].
    rewrite cycle_repaired, U.
    apply (IH (k + 1) s' false); auto. }
  intros B. apply (G 0 (mkL d0 false) true); [discriminate|exact B].
Qed.

(* ---- the code as found: witnesses ---- *)

Definition combo_pid : combo := mkCombo BHwmon SHwmon CPid true true false true.
Definition combo_nested : combo := mkCombo BFile SFile (CFunc FMax [CLinear; CFunc FAvg [CPid]]) false false false true.
Definition combo_cmd : combo := mkCombo BCmd SCmd CLinear false true false true.
Definition quiet : cyc := mkCyc FNone FNone FNone 0 FNone FNone false.
Definition sensor_fault (f : fault) : cyc := mkCyc f FNone FNone 0 FNone FNone false.

(* D5: a failing sensor read under a PID curve (alone or nested) reached ui.Fatal *)
Theorem run_d5_refuted :
  run d5_only combo_pid (mkDev 2 90) (mkDev 2 90) [quiet; sensor_fault FErr] = Crash 1 5
  /\ run d5_only combo_nested (mkDev 1 90) (mkDev 1 90) [quiet; quiet; sensor_fault FGarbage] = Crash 2 5.
Proof. split; reflexivity. Qed.

(* D13: a command that cannot be started panicked in the type assertion *)
Theorem run_d13_refuted :
  run d13_only combo_cmd (mkDev 1 90) (mkDev 1 90) [quiet; sensor_fault FCannotStart] = Crash 1 13.
Proof. reflexivity. Qed.

(* the same plans on the repaired code: stop through a safe restore / keep regulating *)
Example run_repaired_examples :
  (exists p r, run repaired combo_pid (mkDev 2 90) (mkDev 2 90) [quiet; sensor_fault FErr] = FanStopped 1 p r
               /\ r_dev r = mkDev 2 90)
  /\ (exists s, run repaired combo_cmd (mkDev 1 90) (mkDev 1 90) [quiet; sensor_fault FCannotStart] = Regulating s)
  /\ valid_config combo_pid /\ valid_config combo_nested /\ valid_config combo_cmd.
Proof.
  split; [eexists; eexists; split; reflexivity|].
  split; [eexists; reflexivity|]. repeat split.
Qed.

(* non-vacuity of the benign hypothesis: a fault storm on RPM reads, PWM writes, mode writes and late PWM reads *)
Example benign_example :
  benign [mkCyc FNone FErr FNone 0 FErr FErr false; mkCyc FNone FGarbage FErr 0 FGarbage FNone false;
          mkCyc FNone FTimeout FCannotStart 0 FTimeout FGarbage false] = true.
Proof. reflexivity. Qed.
