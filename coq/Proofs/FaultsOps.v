(* C09 over per-operation fault plans: compositional proofs over the state-and-error
   monad of Model/FaultsOps.v (never a crash; a stop only through Model.Restore.restore
   under a detectable plan; benign traces keep regulating). *)
From Coq Require Import ZArith Bool List Lia.
From F2G Require Import gen.Consts Model.Restore Proofs.Restore Model.Faults Proofs.Faults Model.FaultsOps.
Import ListNotations.
Open Scope Z_scope.

(* never a crash / never an error, as predicates on monadic computations *)
Definition NC {A} (m : M A) : Prop := forall x, match fst (m x) with RCrash_ _ => False | _ => True end.
Definition NE {A} (m : M A) : Prop := forall x, match fst (m x) with RErr_ => False | _ => True end.

Lemma NC_ret {A} (a : A) : NC (ret a). Proof. intros x. exact I. Qed.
Lemma NC_fail {A} : NC (@fail A). Proof. intros x. exact I. Qed.
Lemma NE_ret {A} (a : A) : NE (ret a). Proof. intros x. exact I. Qed.

Lemma NC_bind {A B} (m : M A) (f : A -> M B) : NC m -> (forall a, NC (f a)) -> NC (bind m f).
Proof.
  intros Hm Hf x. unfold bind. specialize (Hm x).
  destruct (m x) as [[a| |s] x']; cbn in *; auto. apply Hf.
Qed.
Lemma NE_bind {A B} (m : M A) (f : A -> M B) : NE m -> (forall a, NE (f a)) -> NE (bind m f).
Proof.
  intros Hm Hf x. unfold bind. specialize (Hm x).
  destruct (m x) as [[a| |s] x']; cbn in *; auto. apply Hf.
Qed.

Lemma NC_next k : NC (next k). Proof. intros x. exact I. Qed.
Lemma NE_next k : NE (next k). Proof. intros x. exact I. Qed.

Lemma NC_attempt cmd k : NC (attempt repaired cmd k).
Proof.
  apply NC_bind; [apply NC_next|]. intros f.
  pose proof (op_result_repaired cmd f). destruct (op_result repaired cmd f); try congruence; apply NC_ret.
Qed.
Lemma NE_attempt D cmd k : NE (attempt D cmd k).
Proof.
  apply NE_bind; [apply NE_next|]. intros f. destruct (op_result D cmd f); intros x; exact I.
Qed.

Lemma NC_probe cb k : NC (probe repaired cb k).
Proof. unfold probe. destruct (is_cmd_fan cb); [apply NC_ret|apply NC_attempt]. Qed.
Lemma NE_probe D cb k : NE (probe D cb k).
Proof. unfold probe. destruct (is_cmd_fan cb); [apply NE_ret|apply NE_attempt]. Qed.

Lemma NC_if {A} (b : bool) (m1 m2 : M A) : NC m1 -> NC m2 -> NC (if b then m1 else m2).
Proof. destruct b; auto. Qed.
Lemma NE_if {A} (b : bool) (m1 m2 : M A) : NE m1 -> NE m2 -> NE (if b then m1 else m2).
Proof. destruct b; auto. Qed.

Lemma NC_set_mode cb kw kr d v : NC (set_mode_ops repaired cb kw kr d v).
Proof.
  unfold set_mode_ops. apply NC_bind; [apply NC_next|]. intros fw.
  destruct (w_of_fault fw); try apply NC_ret;
    (apply NC_bind; [apply NC_next|]; intros fr;
     destruct (hw_set_mode repaired _ (r_of_fault fr) d v) as [[d1 e] o]; apply NC_ret).
Qed.

Lemma NC_try_manual cb d : NC (try_manual_ops repaired cb d).
Proof.
  unfold try_manual_ops. apply NC_if; [apply NC_ret|].
  apply NC_bind; [apply NC_set_mode|]. intros [d1 e1].
  apply NC_if; [|apply NC_ret].
  apply NC_bind; [apply NC_set_mode|]. intros r2. apply NC_ret.
Qed.

Lemma NC_eval cmd c : curve_valid c = true -> NC (eval_ops repaired cmd c).
Proof.
  induction c as [| |t ms IH] using curve_ind'; intros V.
  - apply NC_ret.
  - cbn. apply NC_bind; [apply NC_attempt|]. intros ok. apply NC_if; [apply NC_ret|apply NC_fail].
  - cbn in V. apply andb_true_iff in V. destruct V as [NEm V]. rewrite forallb_forall in V.
    cbn [eval_ops]. apply NC_bind.
    + clear NEm. induction ms as [|m r IHr]; [apply NC_ret|].
      inversion IH; subst. apply NC_bind; [apply H1; apply V; left; reflexivity|].
      intros _. apply IHr; auto. intros y Hy. apply V. right. exact Hy.
    + intros _. destruct ms; [discriminate|apply NC_ret].
Qed.

Lemma NC_update cb s stall : valid_config cb -> NC (update_ops repaired cb s stall).
Proof.
  intros [V Mp]. unfold update_ops.
  apply NC_bind.
  { apply NC_if; [apply NC_ret|].
    apply NC_bind; [apply NC_probe|]. intros p1. apply NC_if; [|apply NC_ret].
    apply NC_bind; [apply NC_probe|]. intros p2. apply NC_if; [|apply NC_ret].
    apply NC_bind; [apply NC_attempt|]. intros ok. apply NC_if; [apply NC_ret|apply NC_fail]. }
  intros _. apply NC_bind.
  { intros x. pose proof (NC_eval (is_cmd_sensor cb) (cb_curve cb) V x) as E.
    destruct (eval_ops repaired (is_cmd_sensor cb) (cb_curve cb) x) as [[a| |st] x']; cbn in *; auto. }
  intros _. apply NC_bind.
  { apply NC_bind; [apply NC_probe|]. intros p. apply NC_if; [|apply NC_ret].
    apply NC_bind; [apply NC_attempt|]. intros _. apply NC_ret. }
  intros _. apply NC_if; [apply NC_fail|].
  apply NC_bind; [apply NC_try_manual|]. intros d1.
  rewrite Mp. cbn [negb].
  apply NC_bind; [apply NC_probe|]. intros p.
  apply NC_bind.
  { apply NC_if; [|apply NC_ret]. apply NC_bind; [apply NC_probe|]. intros p2.
    apply NC_if; [|apply NC_ret]. apply NC_bind; [apply NC_attempt|]. intros _. apply NC_ret. }
  intros _. apply NC_ret.
Qed.

Lemma NC_monitors cb : NC (monitors_ops repaired cb).
Proof.
  unfold monitors_ops. apply NC_bind; [apply NC_attempt|]. intros _.
  apply NC_if; [|apply NC_ret].
  apply NC_bind; [apply NC_probe|]. intros p.
  apply NC_bind. { apply NC_if; [|apply NC_ret]. apply NC_bind; [apply NC_attempt|]. intros _. apply NC_ret. }
  intros _. apply NC_bind; [apply NC_attempt|]. intros _. apply NC_ret.
Qed.
Lemma NE_monitors D cb : NE (monitors_ops D cb).
Proof.
  unfold monitors_ops. apply NE_bind; [apply NE_attempt|]. intros _.
  apply NE_if; [|apply NE_ret].
  apply NE_bind; [apply NE_probe|]. intros p.
  apply NE_bind. { apply NE_if; [|apply NE_ret]. apply NE_bind; [apply NE_attempt|]. intros _. apply NE_ret. }
  intros _. apply NE_bind; [apply NE_attempt|]. intros _. apply NE_ret.
Qed.

(* total success with a postcondition *)
Definition Post {A} (m : M A) (Q : A -> Prop) : Prop :=
  forall x, match fst (m x) with ROk_ a => Q a | _ => False end.
Lemma Post_ret {A} (a : A) (Q : A -> Prop) : Q a -> Post (ret a) Q.
Proof. intros H x. exact H. Qed.
Lemma Post_bind {A B} (m : M A) (f : A -> M B) Q R :
  Post m Q -> (forall a, Q a -> Post (f a) R) -> Post (bind m f) R.
Proof.
  intros Hm Hf x. unfold bind. specialize (Hm x).
  destruct (m x) as [[a| |s] x']; cbn in *; try contradiction. apply (Hf a Hm).
Qed.
Lemma Post_next k : Post (next k) (fun _ => True).
Proof. intros x. exact I. Qed.

Lemma r_of_fault_not_perm f : r_of_fault f <> RPerm.
Proof. destruct f; discriminate. Qed.

(* restorePwmEnabled under a per-operation plan: it is Model.Restore's restore under a detectable plan *)
Lemma restore_ops_spec cb orig d :
  Post (restore_ops repaired cb orig d)
       (fun pr => snd pr = restore repaired (cb_fan cb) (cb_enable_exists cb) orig (fst pr) d /\ p_rb (fst pr) <> RPerm).
Proof.
  unfold restore_ops.
  eapply Post_bind; [apply Post_next|]. intros f1 _.
  destruct (mode_supported (cb_fan cb) (cb_enable_exists cb) && negb (mode orig =? ControlModePWM)).
  - eapply Post_bind; [apply Post_next|]. intros fm _.
    eapply Post_bind with (Q := fun rb => rb <> RPerm).
    { destruct (w_of_fault fm).
      - eapply Post_bind; [apply Post_next|]. intros fr _. apply Post_ret. apply r_of_fault_not_perm.
      - apply Post_ret. discriminate.
      - eapply Post_bind; [apply Post_next|]. intros fr _. apply Post_ret. apply r_of_fault_not_perm. }
    intros rb Hrb.
    destruct (hw_set_mode repaired (w_of_fault fm) rb d (mode orig)) as [[d1 e] o].
    eapply Post_bind with (Q := fun _ => True).
    { destruct e; [eapply Post_bind; [apply Post_next|]; intros f2 _; apply Post_ret; exact I|apply Post_ret; exact I]. }
    intros v2 _. apply Post_ret. cbn. split; [reflexivity|exact Hrb].
  - eapply Post_bind; [apply Post_next|]. intros f2 _. apply Post_ret. cbn. split; [reflexivity|discriminate].
Qed.

Lemma cycle_ops_ok cb orig k s y :
  valid_config cb -> outcome_ok cb orig (fst (cycle_ops repaired cb orig k s y)).
Proof.
  intros V. unfold cycle_ops.
  pose proof (NC_monitors cb (mkO (oy_ops y) 0 [])) as C1.
  pose proof (NE_monitors repaired cb (mkO (oy_ops y) 0 [])) as E1.
  destruct (monitors_ops repaired cb (mkO (oy_ops y) 0 [])) as [[u| |st] x1]; cbn [fst] in C1, E1; try contradiction.
  pose proof (NC_update cb s (oy_stall y) V x1) as C2.
  destruct (update_ops repaired cb s (oy_stall y) x1) as [[s'| |st] x2]; cbn [fst] in C2; try contradiction; [exact I|].
  pose proof (restore_ops_spec cb orig (l_dev s) x2) as R.
  destruct (restore_ops repaired cb orig (l_dev s) x2) as [[[p r]| |st] x3]; cbn [fst snd] in R; try contradiction.
  destruct R as [-> Hp]. cbn [fst outcome_ok]. apply restore_local. intros [_ H]. congruence.
Qed.

Theorem run_ops_no_crash :
  forall cb orig d0 plan, valid_config cb -> outcome_ok cb orig (fst (run_ops repaired cb orig d0 plan)).
Proof.
  intros cb orig d0 plan V. unfold run_ops. generalize 0 (mkL d0 false).
  induction plan as [|y rest IH]; intros k s; cbn [run_ops_from]; [exact I|].
  pose proof (cycle_ops_ok cb orig k s y V) as C.
  destruct (cycle_ops repaired cb orig k s y) as [o t]. cbn in C.
  destruct o; cbn; auto.
  specialize (IH (k + 1) s0). destruct (run_ops_from repaired cb orig (k + 1) s0 rest). exact IH.
Qed.

(* ---- benign faults: every operation that was hit by a fault is of an allowed kind ---- *)
Definition noerr {A} (r : res A) : Prop := match r with RErr_ => False | _ => True end.
Definition BN {A} (m : M A) : Prop :=
  forall x, exists t, oc_trace (snd (m x)) = oc_trace x ++ t /\ (forallb benign_entry t = true -> noerr (fst (m x))).

Lemma BN_ret {A} (a : A) : BN (ret a).
Proof. intros x. exists []. cbn. rewrite app_nil_r. split; auto. Qed.

Lemma BN_bind {A B} (m : M A) (f : A -> M B) : BN m -> (forall a, BN (f a)) -> BN (bind m f).
Proof.
  intros Hm Hf x. unfold bind. destruct (Hm x) as [t1 [E1 N1]].
  destruct (m x) as [[a| |s] x'] eqn:Em; cbn [fst snd] in *.
  - destruct (Hf a x') as [t2 [E2 N2]]. exists (t1 ++ t2). rewrite E2, E1, app_assoc. split; [reflexivity|].
    intros Hb. rewrite forallb_app in Hb. apply andb_true_iff in Hb. apply N2. apply Hb.
  - exists t1. split; [exact E1|exact N1].
  - exists t1. split; [exact E1|]. intros _. exact I.
Qed.

Lemma BN_if {A} (b : bool) (m1 m2 : M A) : BN m1 -> BN m2 -> BN (if b then m1 else m2).
Proof. destruct b; auto. Qed.

Lemma BN_next k : BN (next k).
Proof. intros x. eexists. cbn. split; [reflexivity|]. intros _. exact I. Qed.

Lemma BN_attempt D cmd k : BN (attempt D cmd k).
Proof.
  apply BN_bind; [apply BN_next|]. intros f.
  destruct (op_result D cmd f); intros x; exists []; cbn; rewrite app_nil_r; split; auto.
Qed.

Lemma BN_probe D cb k : BN (probe D cb k).
Proof. unfold probe. destruct (is_cmd_fan cb); [apply BN_ret|apply BN_attempt]. Qed.

(* an operation whose failure IS a control error: benign plans do not hit it *)
Lemma BN_must D cmd k :
  allowed k = false -> BN (do ok <- attempt D cmd k; if ok then ret tt else fail).
Proof.
  intros Ak x. unfold bind, attempt, next, ret, fail, bind. cbn.
  set (f := nth (oc_i x) (oc_plan x) FNone).
  exists [(k, f)]. 
  destruct f eqn:F; cbn; unfold benign_entry; cbn; rewrite ?Ak;
    try (destruct (cmd && d13_exec_assert D)); cbn; split; auto; try discriminate.
Qed.

Lemma BN_set_mode D cb kw kr d v : BN (set_mode_ops D cb kw kr d v).
Proof.
  unfold set_mode_ops. apply BN_bind; [apply BN_next|]. intros fw.
  destruct (w_of_fault fw); try apply BN_ret;
    (apply BN_bind; [apply BN_next|]; intros fr;
     destruct (hw_set_mode D _ (r_of_fault fr) d v) as [[d1 e] o]; apply BN_ret).
Qed.

Lemma BN_try_manual D cb d : BN (try_manual_ops D cb d).
Proof.
  unfold try_manual_ops. apply BN_if; [apply BN_ret|].
  apply BN_bind; [apply BN_set_mode|]. intros [d1 e1].
  apply BN_if; [|apply BN_ret].
  apply BN_bind; [apply BN_set_mode|]. intros r2. apply BN_ret.
Qed.

Lemma BN_eval D cmd c : curve_valid c = true -> BN (eval_ops D cmd c).
Proof.
  induction c as [| |t ms IH] using curve_ind'; intros V.
  - apply BN_ret.
  - apply BN_must. reflexivity.
  - cbn in V. apply andb_true_iff in V. destruct V as [NEm V]. rewrite forallb_forall in V.
    cbn [eval_ops]. apply BN_bind.
    + clear NEm. induction ms as [|m r IHr]; [apply BN_ret|].
      inversion IH; subst. apply BN_bind; [apply H1; apply V; left; reflexivity|].
      intros _. apply IHr; auto. intros y Hy. apply V. right. exact Hy.
    + intros _. destruct ms; [discriminate|apply BN_ret].
Qed.

Lemma BN_update cb s : valid_config cb -> BN (update_ops repaired cb s false).
Proof.
  intros [V Mp]. unfold update_ops.
  apply BN_bind.
  { apply BN_if; [apply BN_ret|].
    apply BN_bind; [apply BN_probe|]. intros p1. apply BN_if; [|apply BN_ret].
    apply BN_bind; [apply BN_probe|]. intros p2. apply BN_if; [|apply BN_ret].
    apply BN_must. reflexivity. }
  intros _. apply BN_bind.
  { intros x. destruct (BN_eval repaired (is_cmd_sensor cb) (cb_curve cb) V x) as [t [E N]].
    exists t. destruct (eval_ops repaired (is_cmd_sensor cb) (cb_curve cb) x) as [[a| |st] x']; cbn in *; auto. }
  intros _. apply BN_bind.
  { apply BN_bind; [apply BN_probe|]. intros p. apply BN_if; [|apply BN_ret].
    apply BN_bind; [apply BN_attempt|]. intros _. apply BN_ret. }
  intros _. rewrite andb_false_r. 
  apply BN_bind; [apply BN_try_manual|]. intros d1.
  rewrite Mp. cbn [negb].
  apply BN_bind; [apply BN_probe|]. intros p.
  apply BN_bind.
  { apply BN_if; [|apply BN_ret]. apply BN_bind; [apply BN_probe|]. intros p2.
    apply BN_if; [|apply BN_ret]. apply BN_bind; [apply BN_attempt|]. intros _. apply BN_ret. }
  intros _. apply BN_ret.
Qed.

Lemma BN_monitors D cb : BN (monitors_ops D cb).
Proof.
  unfold monitors_ops. apply BN_bind; [apply BN_attempt|]. intros _.
  apply BN_if; [|apply BN_ret].
  apply BN_bind; [apply BN_probe|]. intros p.
  apply BN_bind. { apply BN_if; [|apply BN_ret]. apply BN_bind; [apply BN_attempt|]. intros _. apply BN_ret. }
  intros _. apply BN_bind; [apply BN_attempt|]. intros _. apply BN_ret.
Qed.

Definition benign_trace (t : list (okind * fault)) : bool := forallb benign_entry t.

(* one cycle under a benign trace and without a stall verdict keeps regulating *)
Lemma cycle_ops_benign cb orig k s y :
  valid_config cb -> oy_stall y = false ->
  benign_trace (snd (cycle_ops repaired cb orig k s y)) = true ->
  exists s', fst (cycle_ops repaired cb orig k s y) = Regulating s'.
Proof.
  intros V St. unfold cycle_ops. rewrite St.
  set (x0 := mkO (oy_ops y) 0 []).
  pose proof (NC_monitors cb x0) as C1. pose proof (NE_monitors repaired cb x0) as E1.
  destruct (BN_monitors repaired cb x0) as [t1 [T1 _]].
  destruct (monitors_ops repaired cb x0) as [[u| |st] x1]; cbn [fst snd] in *; try contradiction.
  pose proof (NC_update cb s false V x1) as C2.
  destruct (BN_update cb s V x1) as [t2 [T2 N2]].
  destruct (update_ops repaired cb s false x1) as [[s'| |st] x2]; cbn [fst snd] in *; try contradiction.
  - intros _. eexists; reflexivity.
  - intros B. exfalso.
    pose proof (restore_ops_spec cb orig (l_dev s) x2) as R.
    assert (TE : exists t3, oc_trace (snd (restore_ops repaired cb orig (l_dev s) x2)) = oc_trace x2 ++ t3).
    { clear. unfold restore_ops.
      assert (G : forall A (m : M A), BN m -> forall x, exists t, oc_trace (snd (m x)) = oc_trace x ++ t).
      { intros A m H x. destruct (H x) as [t [E _]]. eauto. }
      apply G. apply BN_bind; [apply BN_next|]. intros f1.
      apply BN_if.
      - apply BN_bind; [apply BN_next|]. intros fm.
        apply BN_bind. { destruct (w_of_fault fm); try apply BN_ret; (apply BN_bind; [apply BN_next|]; intros; apply BN_ret). }
        intros rb. destruct (hw_set_mode repaired (w_of_fault fm) rb (l_dev s) (mode orig)) as [[d1 e] o].
        apply BN_bind. { destruct e; [apply BN_bind; [apply BN_next|]; intros; apply BN_ret|apply BN_ret]. }
        intros; apply BN_ret.
      - apply BN_bind; [apply BN_next|]. intros; apply BN_ret. }
    destruct TE as [t3 T3].
    destruct (restore_ops repaired cb orig (l_dev s) x2) as [[[p r]| |st] x3]; cbn [fst snd] in *; try contradiction.
    unfold benign_trace in B. rewrite T3, T2, forallb_app, forallb_app in B.
    apply andb_true_iff in B. destruct B as [B _]. apply andb_true_iff in B. destruct B as [_ B].
    exact (N2 B).
Qed.

Theorem run_ops_continues :
  forall cb orig d0 plan, valid_config cb ->
    forallb (fun y => negb (oy_stall y)) plan = true ->
    forallb benign_trace (snd (run_ops repaired cb orig d0 plan)) = true ->
    exists s, fst (run_ops repaired cb orig d0 plan) = Regulating s.
Proof.
  intros cb orig d0 plan V. unfold run_ops. generalize 0 (mkL d0 false).
  induction plan as [|y rest IH]; intros k s St B; cbn [run_ops_from] in *; [eexists; reflexivity|].
  cbn in St. apply andb_true_iff in St. destruct St as [Sy Sr]. apply negb_true_iff in Sy.
  pose proof (cycle_ops_benign cb orig k s y V Sy) as C.
  destruct (cycle_ops repaired cb orig k s y) as [o t]. cbn [fst snd] in C.
  destruct o.
  - specialize (IH (k + 1) s0 Sr).
    destruct (run_ops_from repaired cb orig (k + 1) s0 rest) as [o' ts]. cbn [fst snd] in *.
    apply andb_true_iff in B. apply IH. apply B.
  - cbn in B. rewrite andb_true_r in B. destruct (C B) as [s' E]. discriminate.
  - cbn in B. rewrite andb_true_r in B. destruct (C B) as [s' E]. discriminate.
Qed.

(* non-vacuity: a plan that faults six operations of allowed kinds in the second cycle is benign and keeps regulating;
   faulting the curve's sensor read (operation 4 of a later cycle of this combination) stops through a restore *)
Example ops_examples :
  let cb := mkCombo BHwmon SHwmon CPid true true false true in
  let storm := mkOC [FErr; FNone; FErr; FGarbage; FNone; FNone; FErr; FGarbage; FNone; FErr; FNone; FErr] false in
  valid_config cb
  /\ forallb benign_trace (snd (run_ops repaired cb (mkDev 2 90) (mkDev 2 90) [mkOC [] false; storm])) = true
  /\ (exists s, fst (run_ops repaired cb (mkDev 2 90) (mkDev 2 90) [mkOC [] false; storm]) = Regulating s)
  /\ (exists p r, fst (run_ops repaired cb (mkDev 2 90) (mkDev 2 90) [mkOC [] false; mkOC [FNone; FNone; FNone; FNone; FErr] false]) = FanStopped 1 p r
                  /\ r_dev r = mkDev 2 90).
Proof.
  cbv zeta. split; [split; reflexivity|]. split; [vm_compute; reflexivity|].
  split; [eexists; vm_compute; reflexivity|]. eexists. eexists. vm_compute. split; reflexivity.
Qed.
