(* Lemmas about the hwmon binding model (C17).  Axiom-free. *)
From Coq Require Import ZArith Bool List Lia Permutation.
From F2G Require Import Model.Hwmon.
Import ListNotations.
Open Scope Z_scope.

(* ---- discovery: what GetFans / GetTempSensors assign ---- *)
Definition with_input (feats : list (Z * bool)) : list Z := map fst (filter snd feats).

Lemma get_fans_from_nth feats : forall n k,
  nth_error (get_fans_from n feats) k =
  option_map (fun ch => mkHFan (n + Z.of_nat k + 1) ch ch) (nth_error (with_input feats) k).
Proof.
  unfold with_input. induction feats as [|[ch has] r IH]; intros n k.
  - destruct k; reflexivity.
  - cbn [get_fans_from filter snd]. destruct has.
    + destruct k as [|k]; cbn [nth_error map fst option_map].
      * f_equal. f_equal; lia.
      * rewrite IH. destruct (nth_error (map fst (filter snd r)) k); cbn; [|reflexivity].
        f_equal. f_equal; lia.
    + apply IH.
Qed.

(* index = position (from 1) among the chip's fan features that have an input;
   rpm and pwm channel = the number in the feature name *)
Lemma get_fans_nth feats k :
  nth_error (get_fans feats) k =
  option_map (fun ch => mkHFan (Z.of_nat k + 1) ch ch) (nth_error (with_input feats) k).
Proof. unfold get_fans. rewrite get_fans_from_nth. reflexivity. Qed.

Lemma get_temps_from_nth feats : forall n k,
  nth_error (get_temps_from n feats) k =
  option_map (fun ti => (n + Z.of_nat k + 1, ti)) (nth_error (with_input feats) k).
Proof.
  unfold with_input. induction feats as [|[ti has] r IH]; intros n k.
  - destruct k; reflexivity.
  - cbn [get_temps_from filter snd]. destruct has.
    + destruct k as [|k]; cbn [nth_error map fst option_map].
      * f_equal. f_equal; lia.
      * rewrite IH. destruct (nth_error (map fst (filter snd r)) k); cbn; [|reflexivity].
        f_equal. f_equal; lia.
    + apply IH.
Qed.

Lemma lookup_get_temps_from feats : forall n i,
  lookup i (get_temps_from n feats) =
  if n <? i then nth_error (with_input feats) (Z.to_nat (i - n - 1)) else None.
Proof.
  unfold with_input. induction feats as [|[ti has] r IH]; intros n i.
  - cbn. destruct (n <? i); [destruct (Z.to_nat (i - n - 1))|]; reflexivity.
  - cbn [get_temps_from filter snd]. destruct has.
    + cbn [lookup map fst]. destruct (n + 1 =? i) eqn:E.
      * apply Z.eqb_eq in E. replace (n <? i) with true by (symmetry; apply Z.ltb_lt; lia).
        replace (i - n - 1) with 0 by lia. reflexivity.
      * apply Z.eqb_neq in E. rewrite IH. destruct (n <? i) eqn:L.
        -- apply Z.ltb_lt in L. replace (n + 1 <? i) with true by (symmetry; apply Z.ltb_lt; lia).
           replace (Z.to_nat (i - n - 1)) with (S (Z.to_nat (i - (n + 1) - 1))) by lia. reflexivity.
        -- apply Z.ltb_ge in L. replace (n + 1 <? i) with false by (symmetry; apply Z.ltb_ge; lia). reflexivity.
    + apply IH.
Qed.

(* the sensor with ordinal i is the i-th temperature feature that has an input *)
Lemma lookup_get_temps feats i :
  lookup i (get_temps feats) =
  if 0 <? i then nth_error (with_input feats) (Z.to_nat (i - 1)) else None.
Proof. unfold get_temps. rewrite lookup_get_temps_from. replace (i - 0 - 1) with (i - 1) by lia. reflexivity. Qed.

Section Binding.
Variable valid : Z -> bool.
Variable matches : Z -> Z -> bool.

Notation find_fan := (find_fan).
Notation bind_fan := (bind_fan valid matches).
Notation sensor_loop := (sensor_loop valid matches).
Notation bind_sensor := (bind_sensor valid matches).
Notation bind_sensor_d17 := (bind_sensor_d17 valid matches).

Definition mb (pat : Z) (c : chip) : bool := matches pat (ch_platform c).
Definition matching (pat : Z) (chips : list chip) : list chip := filter (mb pat) chips.

(* the selector as a proposition: the two `continue` conditions both fail *)
Definition selected (s : fan_sel) (f : hfan) : Prop :=
  (0 < fs_index s -> hf_index f = fs_index s) /\ (0 < fs_rpm s -> hf_rpm f = fs_rpm s).

Lemma selectedb_spec s f : selectedb s f = true <-> selected s f.
Proof.
  unfold selectedb, selected. rewrite andb_true_iff, !negb_true_iff, !andb_false_iff, !negb_false_iff.
  rewrite !Z.ltb_ge, !Z.eqb_eq. split.
  - intros [[H|H] [G|G]]; split; intros; auto; lia.
  - intros [H G]. split.
    + destruct (Z_lt_le_dec 0 (fs_index s)); [right; auto|left; lia].
    + destruct (Z_lt_le_dec 0 (fs_rpm s)); [right; auto|left; lia].
Qed.

(* all (chip, fan) pairs the two nested loops would accept, in visiting order *)
Definition fan_cands (chips : list chip) (s : fan_sel) : list (chip * hfan) :=
  flat_map (fun c => map (fun f => (c, f)) (filter (selectedb s) (ch_fans c))) (matching (fs_pat s) chips).

Lemma find_fan_hd s fans : find_fan s fans = hd_error (filter (selectedb s) fans).
Proof.
  induction fans as [|f r IH]; [reflexivity|]. cbn. destruct (selectedb s f); [reflexivity|exact IH].
Qed.

Lemma bind_fan_char chips s : valid (fs_pat s) = true ->
  bind_fan chips s = match fan_cands chips s with
                     | [] => Err ENoFan
                     | (c, f) :: _ => Ok (cfg_of c f s)
                     end.
Proof.
  intros V. unfold fan_cands, matching. induction chips as [|c r IH]; [reflexivity|].
  cbn [Hwmon.bind_fan filter]. rewrite V. cbn [negb]. unfold mb at 1.
  destruct (matches (fs_pat s) (ch_platform c)); cbn [negb]; [|exact IH].
  cbn [flat_map]. rewrite find_fan_hd.
  destruct (filter (selectedb s) (ch_fans c)) as [|f l]; cbn; [exact IH|reflexivity].
Qed.

Lemma bind_fan_invalid chips s : valid (fs_pat s) = false ->
  bind_fan chips s = match chips with [] => Err ENoFan | _ => Err ERegex end.
Proof. intros V. destruct chips; cbn; [reflexivity|]. rewrite V. reflexivity. Qed.

Lemma hd_filter_unique {A} (p : A -> bool) (l : list A) (x : A) :
  In x l -> p x = true -> (forall y, In y l -> p y = true -> y = x) ->
  hd_error (filter p l) = Some x.
Proof.
  induction l as [|y r IH]; [contradiction|]. intros Hin Hp U. cbn.
  destruct (p y) eqn:E.
  - cbn. f_equal. apply U; [left; reflexivity|exact E].
  - destruct Hin as [->|Hin]; [congruence|]. apply IH; auto. intros z Hz. apply U. right; exact Hz.
Qed.

Lemma filter_perm {A} (p : A -> bool) (l l' : list A) :
  Permutation l l' -> Permutation (filter p l) (filter p l').
Proof.
  induction 1; cbn.
  - constructor.
  - destruct (p x); [constructor|]; assumption.
  - destruct (p x), (p y); first [apply perm_swap | apply Permutation_refl].
  - eapply Permutation_trans; eassumption.
Qed.

Lemma unique_match_perm pat chips chips' c :
  Permutation chips chips' -> matching pat chips = [c] -> matching pat chips' = [c].
Proof.
  intros P E. unfold matching in *. pose proof (filter_perm (mb pat) _ _ P) as Q. rewrite E in Q.
  apply Permutation_length_1_inv in Q. exact Q.
Qed.

Lemma nonempty_perm {A} (l l' : list A) x r : Permutation l l' -> l = x :: r -> exists y r', l' = y :: r'.
Proof.
  intros P E. subst l. destruct l' as [|y r']; [|eauto].
  apply Permutation_sym, Permutation_nil in P. discriminate.
Qed.

(* ---- fans ---- *)
Lemma fan_bound chips s c f :
  valid (fs_pat s) = true -> matching (fs_pat s) chips = [c] ->
  In f (ch_fans c) -> selected s f ->
  (forall f', In f' (ch_fans c) -> selected s f' -> f' = f) ->
  bind_fan chips s = Ok (cfg_of c f s)
  /\ set_paths (cfg_of c f s) =
       let pwm := if fs_pwm s =? 0 then hf_pwm f else fs_pwm s in
       ((ch_id c, K_FAN_INPUT, hf_rpm f), (ch_id c, K_PWM, pwm), (ch_id c, K_PWM_ENABLE, pwm)).
Proof.
  intros V M Hin Hs U. split; [|reflexivity].
  rewrite bind_fan_char by exact V. unfold fan_cands. rewrite M. cbn [flat_map]. rewrite app_nil_r.
  assert (H : hd_error (filter (selectedb s) (ch_fans c)) = Some f).
  { apply hd_filter_unique; auto.
    - apply selectedb_spec; exact Hs.
    - intros y Hy Hp. apply U; auto. apply selectedb_spec; exact Hp. }
  destruct (filter (selectedb s) (ch_fans c)) as [|f0 l]; [discriminate|].
  cbn in H. inversion H; subst. reflexivity.
Qed.

Lemma fan_order_independent chips chips' s c :
  Permutation chips chips' -> matching (fs_pat s) chips = [c] ->
  bind_fan chips s = bind_fan chips' s.
Proof.
  intros P M. destruct (valid (fs_pat s)) eqn:V.
  - rewrite !bind_fan_char by exact V. unfold fan_cands.
    rewrite M, (unique_match_perm _ _ _ _ P M). reflexivity.
  - rewrite !bind_fan_invalid by exact V.
    destruct chips as [|x r]; [discriminate|].
    destruct (nonempty_perm _ _ _ _ P eq_refl) as [y [r' ->]]. reflexivity.
Qed.

Lemma fan_fails_cleanly chips s :
  (forall c, In c chips -> mb (fs_pat s) c = true -> forall f, In f (ch_fans c) -> ~ selected s f) ->
  exists e, bind_fan chips s = Err e /\ names_entry e = true.
Proof.
  induction chips as [|c r IH]; intros H; [exists ENoFan; auto|].
  cbn [Hwmon.bind_fan]. destruct (valid (fs_pat s)); cbn [negb]; [|exists ERegex; auto].
  assert (IH' : exists e, bind_fan r s = Err e /\ names_entry e = true).
  { apply IH. intros c' Hc'. apply H. right; exact Hc'. }
  destruct (matches (fs_pat s) (ch_platform c)) eqn:E; cbn [negb]; [|exact IH'].
  rewrite find_fan_hd. destruct (filter (selectedb s) (ch_fans c)) as [|f l] eqn:F; [exact IH'|].
  exfalso. assert (Hf : In f (filter (selectedb s) (ch_fans c))) by (rewrite F; left; reflexivity).
  apply filter_In in Hf. destruct Hf as [Hin Hp].
  apply (H c (or_introl eq_refl) E f Hin). apply selectedb_spec; exact Hp.
Qed.

Lemma fan_sound chips s cfg :
  bind_fan chips s = Ok cfg ->
  exists c f, In c chips /\ mb (fs_pat s) c = true /\ In f (ch_fans c) /\ selected s f /\ cfg = cfg_of c f s.
Proof.
  induction chips as [|c r IH]; [discriminate|]. cbn [Hwmon.bind_fan].
  destruct (valid (fs_pat s)); cbn [negb]; [|discriminate].
  assert (IH' : bind_fan r s = Ok cfg ->
          exists c0 f, In c0 (c :: r) /\ mb (fs_pat s) c0 = true /\ In f (ch_fans c0) /\ selected s f /\ cfg = cfg_of c0 f s).
  { intros H. destruct (IH H) as [c0 [f [H1 H2]]]. exists c0, f. split; [right; exact H1|exact H2]. }
  destruct (matches (fs_pat s) (ch_platform c)) eqn:E; cbn [negb]; [|exact IH'].
  rewrite find_fan_hd. destruct (filter (selectedb s) (ch_fans c)) as [|f l] eqn:F; cbn [hd_error]; [exact IH'|].
  intros H. inversion H; subst.
  assert (Hf : In f (filter (selectedb s) (ch_fans c))) by (rewrite F; left; reflexivity).
  apply filter_In in Hf. destruct Hf as [Hin Hp].
  exists c, f. repeat split; auto; [left; reflexivity|apply selectedb_spec; exact Hp..].
Qed.

Lemma fan_never_crashes chips s : bind_fan chips s <> Crash.
Proof.
  induction chips as [|c r IH]; [discriminate|]. cbn [Hwmon.bind_fan].
  destruct (valid (fs_pat s)); cbn [negb]; [|discriminate].
  destruct (matches (fs_pat s) (ch_platform c)); cbn [negb]; [|exact IH].
  destruct (Hwmon.find_fan s (ch_fans c)); [discriminate|exact IH].
Qed.

(* a chip as discovered by GetFans from sysfs (distinct file names): any selector
   with index > 0 or rpmChannel > 0 picks at most one fan *)
Lemma selected_unique_discovered feats s f f' :
  NoDup (with_input feats) -> (0 < fs_index s \/ 0 < fs_rpm s) ->
  In f (get_fans feats) -> In f' (get_fans feats) -> selected s f -> selected s f' -> f' = f.
Proof.
  intros ND Sel Hf Hf' [S1 S2] [S1' S2'].
  apply In_nth_error in Hf. destruct Hf as [k Hk].
  apply In_nth_error in Hf'. destruct Hf' as [k' Hk'].
  rewrite get_fans_nth in Hk, Hk'.
  destruct (nth_error (with_input feats) k) as [ch|] eqn:E; [|discriminate].
  destruct (nth_error (with_input feats) k') as [ch'|] eqn:E'; [|discriminate].
  cbn in Hk, Hk'. inversion Hk; inversion Hk'; subst. cbn in *.
  assert (K : k = k').
  { destruct Sel as [Sel|Sel].
    - specialize (S1 Sel). specialize (S1' Sel). lia.
    - specialize (S2 Sel). specialize (S2' Sel). assert (ch = ch') by lia. subst ch'.
      eapply NoDup_nth_error; eauto.
      + apply nth_error_Some. congruence.
      + congruence. }
  subst k'. congruence.
Qed.

(* ---- sensors (initializeSensors after the D17 repair) ---- *)
Lemma sensor_loop_nomatch d chips s acc :
  valid (ss_pat s) = true -> matching (ss_pat s) chips = [] ->
  sensor_loop d chips s acc = match acc with Some p => Ok p | None => Err ENoPlatform end.
Proof.
  intros V. unfold matching. induction chips as [|c r IH]; intros M; [reflexivity|].
  cbn [Hwmon.sensor_loop]. rewrite V. cbn [negb]. cbn [filter] in M. unfold mb at 1 in M.
  destruct (matches (ss_pat s) (ch_platform c)); [discriminate|]. apply IH; exact M.
Qed.

Lemma sensor_bound chips s c ti :
  valid (ss_pat s) = true -> matching (ss_pat s) chips = [c] ->
  lookup (ss_index s) (ch_temps c) = Some ti ->
  bind_sensor chips s = Ok (ch_id c, K_TEMP_INPUT, ti).
Proof.
  intros V M L. unfold Hwmon.bind_sensor, bind_sensor_gen. generalize (@None spath) as acc.
  unfold matching in M. induction chips as [|c0 r IH]; intros acc; [discriminate|].
  cbn [Hwmon.sensor_loop]. rewrite V. cbn [negb]. cbn [filter] in M. unfold mb at 1 in M.
  destruct (matches (ss_pat s) (ch_platform c0)).
  - inversion M; subst. rewrite L. rewrite sensor_loop_nomatch; auto.
  - apply IH; exact M.
Qed.

Lemma sensor_loop_invalid d chips s acc : valid (ss_pat s) = false ->
  sensor_loop d chips s acc =
  match chips with [] => match acc with Some p => Ok p | None => Err ENoPlatform end | _ => Err ERegex end.
Proof. intros V. destruct chips; cbn; [reflexivity|]. rewrite V. reflexivity. Qed.

Lemma sensor_loop_filter d chips s : valid (ss_pat s) = true -> forall acc,
  sensor_loop d chips s acc = sensor_loop d (matching (ss_pat s) chips) s acc.
Proof.
  intros V. unfold matching. induction chips as [|c r IH]; intros acc; [reflexivity|].
  cbn [filter]. unfold mb at 1. cbn [Hwmon.sensor_loop]. rewrite V. cbn [negb].
  destruct (matches (ss_pat s) (ch_platform c)) eqn:E.
  - cbn [Hwmon.sensor_loop]. rewrite V, E. cbn [negb].
    destruct (lookup (ss_index s) (ch_temps c)); [apply IH|reflexivity].
  - apply IH.
Qed.

Lemma sensor_order_independent chips chips' s c :
  Permutation chips chips' -> matching (ss_pat s) chips = [c] ->
  bind_sensor chips s = bind_sensor chips' s.
Proof.
  intros P M. unfold Hwmon.bind_sensor, bind_sensor_gen. destruct (valid (ss_pat s)) eqn:V.
  - rewrite (sensor_loop_filter _ chips) by exact V. rewrite (sensor_loop_filter _ chips') by exact V.
    rewrite M, (unique_match_perm _ _ _ _ P M). reflexivity.
  - rewrite !sensor_loop_invalid by exact V.
    destruct chips as [|x r]; [discriminate|].
    destruct (nonempty_perm _ _ _ _ P eq_refl) as [y [r' ->]]. reflexivity.
Qed.

Lemma sensor_fails_cleanly chips s :
  (forall c, In c chips -> mb (ss_pat s) c = true -> lookup (ss_index s) (ch_temps c) = None) ->
  exists e, bind_sensor chips s = Err e /\ names_entry e = true.
Proof.
  unfold Hwmon.bind_sensor, bind_sensor_gen.
  induction chips as [|c r IH]; intros H; [exists ENoPlatform; auto|].
  cbn [Hwmon.sensor_loop]. destruct (valid (ss_pat s)); cbn [negb]; [|exists ERegex; auto].
  destruct (matches (ss_pat s) (ch_platform c)) eqn:E.
  - rewrite (H c (or_introl eq_refl) E). exists ENoIndex; auto.
  - apply IH. intros c' Hc'. apply H. right; exact Hc'.
Qed.

Lemma sensor_loop_sound chips s : forall acc p,
  sensor_loop false chips s acc = Ok p ->
  acc = Some p \/
  exists c ti, In c chips /\ mb (ss_pat s) c = true /\ lookup (ss_index s) (ch_temps c) = Some ti
               /\ p = (ch_id c, K_TEMP_INPUT, ti).
Proof.
  induction chips as [|c r IH]; intros acc p.
  - cbn. destruct acc; [|discriminate]. intros H; inversion H; auto.
  - cbn [Hwmon.sensor_loop]. destruct (valid (ss_pat s)); cbn [negb]; [|discriminate].
    destruct (matches (ss_pat s) (ch_platform c)) eqn:E.
    + destruct (lookup (ss_index s) (ch_temps c)) as [ti|] eqn:L; [|discriminate].
      intros H. apply IH in H. right. destruct H as [H|[c0 [ti0 [H1 H2]]]].
      * inversion H; subst. exists c, ti. repeat split; auto. left; reflexivity.
      * exists c0, ti0. split; [right; exact H1|exact H2].
    + intros H. apply IH in H. destruct H as [H|[c0 [ti0 [H1 H2]]]]; [left; exact H|].
      right. exists c0, ti0. split; [right; exact H1|exact H2].
Qed.

Lemma sensor_sound chips s p :
  bind_sensor chips s = Ok p ->
  exists c ti, In c chips /\ mb (ss_pat s) c = true /\ lookup (ss_index s) (ch_temps c) = Some ti
               /\ p = (ch_id c, K_TEMP_INPUT, ti).
Proof.
  intros H. apply sensor_loop_sound in H. destruct H as [H|H]; [discriminate|exact H].
Qed.

Lemma sensor_loop_never_crashes chips s : forall acc, sensor_loop false chips s acc <> Crash.
Proof.
  induction chips as [|c r IH]; intros acc.
  - cbn. destruct acc; discriminate.
  - cbn [Hwmon.sensor_loop]. destruct (valid (ss_pat s)); cbn [negb]; [|discriminate].
    destruct (matches (ss_pat s) (ch_platform c)); [|apply IH].
    destruct (lookup (ss_index s) (ch_temps c)); [apply IH|discriminate].
Qed.

Lemma sensor_never_crashes chips s : bind_sensor chips s <> Crash.
Proof. apply sensor_loop_never_crashes. Qed.

End Binding.

(* ---- the code before the repair (D17): the clean-failure statement is false ---- *)
Definition sensor_fails_cleanly_d17_full : Prop :=
  forall valid matches chips s,
    (forall c, In c chips -> mb matches (ss_pat s) c = true -> lookup (ss_index s) (ch_temps c) = None) ->
    exists e, bind_sensor_d17 valid matches chips s = Err e.

Lemma sensor_fails_cleanly_d17_refuted :
  exists valid matches chips s c,
    matching matches (ss_pat s) chips = [c] /\ valid (ss_pat s) = true
    /\ lookup (ss_index s) (ch_temps c) = None
    /\ bind_sensor_d17 valid matches chips s = Crash.
Proof.
  exists (fun _ => true), (fun p pl => p =? pl),
         (get_chips [mkRaw 1 1 [(1, true)] [(2, true)]; mkRaw 2 2 [] [(1, true); (5, true)]]),
         (mkSensorSel 1 2).
  eexists. vm_compute. repeat split.
Qed.
