(* Bridging lemmas for the float64-on-small-integers code translated into gen/Leaf2.v:
   a float that REPRESENTS an integer (finite, real value = that integer) is tracked through
   float64(int), unary minus, +, the comparisons, util.Coerce and int(math.Round(.)); all of these are
   exact as long as the integers stay below 2^53 in magnitude.  Used by Proofs/LeafTie2_DirectCycle.v
   to show that DirectControlLoop.Cycle, which computes in float64, IS the integer function
   Model.ControlLoop.direct_cycle on the int32 range. *)
From Coq Require Import ZArith Reals Lia Lra Floats Bool.
From Flocq Require Import Core BinarySingleNaN.
From Flocq Require PrimFloat.
Import Flocq.IEEE754.PrimFloat.
From F2G Require Import Go.GoFloat Model.Util Model.ControlLoop Proofs.CurveFloat Proofs.StepsFloat.
Open Scope Z_scope.

Definition repr (x : f64) (n : Z) : Prop := fin x = true /\ R_ x = IZR n.

Lemma repr_i2f z : Z.abs z < 2 ^ 53 -> repr (i2f z) z.
Proof.
  intros H. split; [apply i2f_any|].
  rewrite i2f_rnd by (unfold two63; lia). now apply rnd_small.
Qed.

Lemma repr_opp x n : repr x n -> repr (PrimFloat.opp x) (- n).
Proof.
  intros [F V]. split; rewrite opp_equiv.
  - now rewrite is_finite_Bopp.
  - now rewrite B2R_Bopp, V, opp_IZR.
Qed.

Lemma repr_add a b p q : repr a p -> repr b q -> Z.abs (p + q) < 2 ^ 53 ->
  repr (PrimFloat.add a b) (p + q).
Proof.
  intros [Fa Va] [Fb Vb] H.
  destruct (fadd_correct a b 53 Fa Fb) as [F V].
  - unfold emax. lia.
  - rewrite Va, Vb, <- plus_IZR, <- abs_IZR. change (bpow radix2 53) with (IZR (2 ^ 53)). apply IZR_le. lia.
  - split; [exact F|]. rewrite V, Va, Vb, <- plus_IZR. now apply rnd_small.
Qed.

Lemma repr_ltb a b p q : repr a p -> repr b q -> PrimFloat.ltb a b = (p <? q).
Proof.
  intros [Fa Va] [Fb Vb]. rewrite (fin_ltb a b Fa Fb), Va, Vb.
  case Rlt_bool_spec; intros H.
  - apply lt_IZR in H. symmetry. now apply Z.ltb_lt.
  - apply le_IZR in H. symmetry. apply Z.ltb_ge. lia.
Qed.

Lemma repr_0 : repr 0%float 0.
Proof. split; reflexivity. Qed.
Lemma repr_255 : repr 255%float 255.
Proof. split; [reflexivity|apply R_255]. Qed.

Lemma repr_Coerce v lo hi p l h : repr v p -> repr lo l -> repr hi h ->
  repr (Coerce v lo hi) (clampZ p l h).
Proof.
  intros Hv Hl Hh. unfold Coerce, clampZ.
  rewrite (repr_ltb hi v h p Hh Hv), (repr_ltb v lo p l Hv Hl).
  destruct (h <? p); [exact Hh|]. destruct (p <? l); assumption.
Qed.

Lemma repr_round_f2i x n : repr x n -> 0 <= n < 2 ^ 50 -> f2i (goRound x) = n.
Proof.
  intros [F V] H. rewrite round_floor; [rewrite V; apply Zfloor_half_int|exact F|].
  rewrite V. change (bpow radix2 50) with (IZR (2 ^ 50)). split; apply IZR_le; lia.
Qed.

Lemma clampZ_abs x lo hi : Z.abs (clampZ x lo hi) <= Z.max (Z.abs x) (Z.max (Z.abs lo) (Z.abs hi)).
Proof. unfold clampZ. destruct (hi <? x); [lia|]. destruct (x <? lo); lia. Qed.

Lemma clampZ_0_255 x : 0 <= clampZ x 0 255 <= 255.
Proof. unfold clampZ. destruct (255 <? x) eqn:A; [lia|]. destruct (x <? 0) eqn:B; lia. Qed.
