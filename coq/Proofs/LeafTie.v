(* The leaf arithmetic functions translated from the current Go source
   (gen/Leaf.v, rewritten on every run) ARE the hand-written model functions. *)
From Coq Require Import ZArith Floats.
From F2G Require Import Go.GoFloat Model.Util gen.Leaf.

Lemma tie_Coerce : forall v lo hi, go_Coerce v lo hi = Coerce v lo hi.
Proof. reflexivity. Qed.
Lemma tie_Ratio : forall t a b, go_Ratio t a b = Ratio t a b.
Proof. reflexivity. Qed.
Lemma tie_UpdateSimpleMovingAvg : forall old n x, go_UpdateSimpleMovingAvg old n x = upd_avg old n x.
Proof. reflexivity. Qed.
Lemma tie_getClosest : forall v1 v2 t, go_getClosest v1 v2 t = getClosest v1 v2 t.
Proof. reflexivity. Qed.
