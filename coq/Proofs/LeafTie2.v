(* All ties of gen/Leaf2.v (tools/gen_leaf2.py): one file per translated function, so that a property can list
   exactly the ties it depends on in its `tie_vo`; this file only collects them. *)
From F2G Require Export Proofs.LeafTie2_DirectCycle.
From F2G Require Export Proofs.LeafTie2_PidLoop.
From F2G Require Export Proofs.LeafTie2_PidCycle.
From F2G Require Export Proofs.LeafTie2_increaseMinPwmOffset.
From F2G Require Export Proofs.LeafTie2_applyPwmMapping.
From F2G Require Export Proofs.LeafTie2_clampTarget.
From F2G Require Export Proofs.LeafTie2_rescaleTarget.
From F2G Require Export Proofs.LeafTie2_functionAgg.
From F2G Require Export Proofs.LeafTie2_linearEval.
From F2G Require Export Proofs.LeafTie2_ComputePwmBoundaries.
From F2G Require Export Proofs.LeafTie2_CheckFilePermissions.
From F2G Require Export Proofs.LeafTie2_HwMonGetMinPwm.
From F2G Require Export Proofs.LeafTie2_HwMonGetStartPwm.
From F2G Require Export Proofs.LeafTie2_HwMonGetMaxPwm.
From F2G Require Export Proofs.LeafTie2_HwMonGetRpmAvg.
From F2G Require Export Proofs.LeafTie2_HwMonShouldNeverStop.
From F2G Require Export Proofs.LeafTie2_HwMonSetMinPwm.
From F2G Require Export Proofs.LeafTie2_HwMonSetStartPwm.
From F2G Require Export Proofs.LeafTie2_HwMonSetMaxPwm.
From F2G Require Export Proofs.LeafTie2_HwMonSetRpmAvg.
From F2G Require Export Proofs.LeafTie2_stallBranch.
From F2G Require Export Proofs.LeafTie2_calcTarget.
