(* Tie for the decision of internal/util/file.go CheckFilePermissionsForExecution on (st_uid, st_gid, mode) <-> Model.Exec.decide / allowed.
   gen/Leaf2.v (regenerated from /repo's working tree by tools/gen_leaf2.py on every check) holds the translation of the
   CURRENT Go source; this file proves it equal to the hand-written model function for all uid, gid, mode (three destructs: the Go code nests the group test and repeats the others-test after it, the model is one if-chain). *)
From Coq Require Import ZArith Lia Floats Bool List.
From F2G Require Import Go.GoFloat gen.Consts Model.Exec gen.Leaf2.
Import ListNotations.
Open Scope Z_scope.

Lemma tie_CheckFilePermissions_translated : Translated_CheckFilePermissions = true.
Proof. reflexivity. Qed.

Lemma tie_CheckFilePermissions : forall uid gid mode, go_CheckFilePermissions uid gid mode = decide uid gid mode.
Proof.
  intros. unfold go_CheckFilePermissions, decide, group_write, other_write. cbv zeta.
  destruct (uid =? 0); [|reflexivity]. destruct (gid =? 0); cbn [negb andb]; [reflexivity|].
  destruct (Z.land mode 16 =? 0); reflexivity.
Qed.

Lemma tie_CheckFilePermissions_allowed : forall uid gid mode,
  allowed uid gid mode = match go_CheckFilePermissions uid gid mode with None => true | Some _ => false end.
Proof. intros. rewrite tie_CheckFilePermissions. reflexivity. Qed.
