(* Tie for internal/fans/common.go ComputePwmBoundaries <-> Model.Fan.ComputePwmBoundaries / bounds_loop (the map iterated through its sorted keys = the key-sorted association list).
   gen/Leaf2.v (regenerated from /repo's working tree by tools/gen_leaf2.py on every check) holds the translation of the
   CURRENT Go source; this file proves it equal to the hand-written model function for every fan and curve (induction on the curve: the Go loop is a fold_left over a triple, the model a Fixpoint with three accumulators). *)
From Coq Require Import ZArith Lia Floats Bool List.
From F2G Require Import Go.GoFloat gen.Consts Model.Util Model.Fan gen.Leaf2.
Import ListNotations.
Open Scope Z_scope.

Lemma tie_ComputePwmBoundaries_translated : Translated_ComputePwmBoundaries = true.
Proof. reflexivity. Qed.

Lemma bounds_fold data : forall maxRpm startPwm maxPwm,
  (let '(_, m, s) := fold_left (fun '(maxRpm_, maxPwm_, startPwm_) '(pwm_, pwm_val) =>
      let avgRpm_ := f2i pwm_val in
      let '(maxRpm_, maxPwm_) := if maxRpm_ <? avgRpm_ then (avgRpm_, pwm_) else (maxRpm_, maxPwm_) in
      let startPwm_ := if (0 <? avgRpm_) && (pwm_ <? startPwm_) then pwm_ else startPwm_ in
      (maxRpm_, maxPwm_, startPwm_)) data (maxRpm, maxPwm, startPwm) in (s, m))
  = bounds_loop data maxRpm startPwm maxPwm.
Proof.
  induction data as [|[pwm rpm] r IH]; intros; [reflexivity|].
  cbn [fold_left bounds_loop]. cbv zeta.
  destruct (maxRpm <? f2i rpm); apply IH.
Qed.

Lemma tie_ComputePwmBoundaries : forall f data, go_ComputePwmBoundaries (GetStartPwm f) data = ComputePwmBoundaries f data.
Proof.
  intros f data. unfold go_ComputePwmBoundaries, ComputePwmBoundaries. cbv zeta.
  rewrite <- bounds_fold.
  match goal with |- context [fold_left ?F data ?I] => destruct (fold_left F data I) as [[a b] c] end.
  reflexivity.
Qed.
