(* Tie for internal/control_loop/direct.go DirectControlLoop.Cycle.
   gen/Leaf2.v holds the FAITHFUL translation of the current Go source: it computes in float64
   (float64(target), util.Coerce, +, math.Round, int(.)) exactly as the code does.  The model function
   Model.ControlLoop.direct_cycle is written over Z.  This file proves the two equal for all arguments
   in the int32 range (|target|, |current|, |maxPwmChangePerCycle| < 2^31) by following every float
   through Proofs/Leaf2Float.v (`repr`: finite and equal, as a real, to an integer below 2^53, where
   float64 conversion, negation, addition and comparison are exact).  PROVED, not by reflexivity. *)
From Coq Require Import ZArith Lia Floats Bool.
From F2G Require Import Go.GoFloat Model.Util Model.ControlLoop gen.Leaf2 Proofs.Leaf2Float.
Open Scope Z_scope.

Lemma tie_DirectCycle_translated : Translated_DirectCycle = true.
Proof. reflexivity. Qed.

Definition int32_range (z : Z) : Prop := Z.abs z < 2 ^ 31.

Theorem tie_DirectCycle : forall lim target current,
  int32_range target -> int32_range current ->
  (forall m, lim = Some m -> int32_range m) ->
  go_DirectCycle lim target current = direct_cycle lim target current.
Proof.
  unfold int32_range. intros lim t c Ht Hc Hm.
  unfold go_DirectCycle, direct_cycle. cbv zeta.
  assert (Fin : forall x n, repr x n -> Z.abs n < 2 ^ 53 ->
                 f2i (goRound (Coerce x 0 255)) = clampZ n 0 255).
  { intros x n Hx _. apply (repr_round_f2i _ (clampZ n 0 255)).
    - apply repr_Coerce; [exact Hx|exact repr_0|exact repr_255].
    - pose proof (clampZ_0_255 n). lia. }
  destruct lim as [m|].
  - specialize (Hm m eq_refl).
    assert (Herr : repr (i2f (t - c)) (t - c)) by (apply repr_i2f; lia).
    assert (Hhi : repr (i2f m) m) by (apply repr_i2f; lia).
    assert (Hlo : repr (PrimFloat.opp (i2f m)) (- m)) by (apply repr_opp; exact Hhi).
    pose proof (repr_Coerce _ _ _ _ _ _ Herr Hlo Hhi) as Hcl.
    pose proof (clampZ_abs (t - c) (- m) m) as B.
    assert (Hc' : repr (i2f c) c) by (apply repr_i2f; lia).
    assert (Hsum : Z.abs (c + clampZ (t - c) (- m) m) < 2 ^ 53) by lia.
    apply (Fin _ _ (repr_add _ _ _ _ Hc' Hcl Hsum) Hsum).
  - apply Fin; [apply repr_i2f|]; lia.
Qed.

(* non-vacuity / sanity: the two sides on concrete arguments, including a negative limit *)
Example tie_DirectCycle_ex :
  go_DirectCycle (Some 10) 200 50 = 60 /\ direct_cycle (Some 10) 200 50 = 60 /\
  go_DirectCycle None 300 0 = 255 /\ go_DirectCycle (Some (-3)) 7 9 = direct_cycle (Some (-3)) 7 9.
Proof. vm_compute. repeat split. Qed.
