(* Tie for internal/fans/hwmon.go HwMonFan.GetMaxPwm <-> Model.Fan (the hwmon kind of the model's `fan` record).
   gen/Leaf2.v (regenerated from /repo's working tree by tools/gen_leaf2.py on every check) holds the translation of the
   CURRENT Go source over the model's record (Config.MinPwm/StartPwm/MaxPwm = cfg_*, MinPwm/StartPwm/MaxPwm = cur_*,
   RpmMovingAvg = rpm_avg, Config.NeverStop = never_stop); this file proves it equal to the hand-written model function
   for every fan of kind HwMon (rewriting the kind, then reflexivity). *)
From Coq Require Import ZArith Lia Floats Bool List.
From F2G Require Import Go.GoFloat gen.Consts Model.Util Model.Fan gen.Leaf2.
Open Scope Z_scope.

Lemma tie_HwMonGetMaxPwm_translated : Translated_HwMonGetMaxPwm = true.
Proof. reflexivity. Qed.

Lemma tie_HwMonGetMaxPwm : forall f, fk f = HwMon -> go_HwMonGetMaxPwm f = GetMaxPwm f.
Proof. intros f H. unfold go_HwMonGetMaxPwm, GetMaxPwm. rewrite H. reflexivity. Qed.
