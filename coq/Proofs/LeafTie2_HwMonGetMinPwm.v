(* Tie for internal/fans/hwmon.go HwMonFan.GetMinPwm <-> Model.Fan (the hwmon kind of the model's `fan` record).
   gen/Leaf2.v (regenerated from /repo's working tree by tools/gen_leaf2.py on every check) holds the translation of the
   CURRENT Go source over the model's record (Config.MinPwm/StartPwm/MaxPwm = cfg_*, MinPwm/StartPwm/MaxPwm = cur_*,
   RpmMovingAvg = rpm_avg, Config.NeverStop = never_stop); this file proves it equal to the hand-written model function
   for every fan of kind HwMon (unfolding; one destruct per branch). *)
From Coq Require Import ZArith Lia Floats Bool List.
From F2G Require Import Go.GoFloat gen.Consts Model.Util Model.Fan gen.Leaf2.
Open Scope Z_scope.

Lemma tie_HwMonGetMinPwm_translated : Translated_HwMonGetMinPwm = true.
Proof. reflexivity. Qed.

Lemma tie_HwMonGetMinPwm : forall f, fk f = HwMon -> go_HwMonGetMinPwm f = GetMinPwm f.
Proof. intros f H. unfold go_HwMonGetMinPwm, GetMinPwm. rewrite H. destruct (never_stop f); [destruct (cur_min f)|]; reflexivity. Qed.
