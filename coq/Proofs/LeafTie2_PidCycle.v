(* Tie for internal/control_loop/pid.go PidControlLoop.Cycle <-> Model.ControlLoop.pid_cycle.
   gen/Leaf2.v (regenerated from /repo's working tree by tools/gen_leaf2.py on every check) holds the translation of the
   CURRENT Go source; this file proves it equal to the hand-written model function for all arguments (rewriting with the tie of the callee PidLoop.Loop, then reflexivity). *)
From Coq Require Import ZArith Lia Floats Bool List.
From F2G Require Import Go.GoFloat gen.Consts Model.Util Model.ControlLoop gen.Leaf2 Proofs.LeafTie2_PidLoop.
Import ListNotations.
Open Scope Z_scope.

Lemma tie_PidCycle_translated : Translated_PidCycle = true.
Proof. reflexivity. Qed.

Lemma tie_PidCycle : forall s target current dt_ns, go_PidCycle s target current dt_ns = pid_cycle s target current dt_ns.
Proof. intros. unfold go_PidCycle, pid_cycle. rewrite tie_PidLoop. reflexivity. Qed.
