(* Tie for internal/util/pid.go PidLoop.Loop <-> Model.ControlLoop.pid_loop (time.Now() = the explicit dt_ns parameter, lastTime.IsZero() = negb started).
   gen/Leaf2.v (regenerated from /repo's working tree by tools/gen_leaf2.py on every check) holds the translation of the
   CURRENT Go source; this file proves it equal to the hand-written model function for all arguments (one destruct: the Go code joins the two branches after the if, the model returns inside them). *)
From Coq Require Import ZArith Lia Floats Bool List.
From F2G Require Import Go.GoFloat gen.Consts Model.Util Model.ControlLoop gen.Leaf2.
Import ListNotations.
Open Scope Z_scope.

Lemma tie_PidLoop_translated : Translated_PidLoop = true.
Proof. reflexivity. Qed.

Lemma tie_PidLoop : forall s target measured dt_ns, go_PidLoop s target measured dt_ns = pid_loop s target measured dt_ns.
Proof. intros. unfold go_PidLoop, pid_loop. destruct (started s); reflexivity. Qed.
