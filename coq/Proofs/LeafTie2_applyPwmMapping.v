(* Tie for internal/controller/controller.go DefaultFanController.applyPwmMapping <-> Model.Util.lookup (Go map read, zero for a missing key).
   gen/Leaf2.v (regenerated from /repo's working tree by tools/gen_leaf2.py on every check) holds the translation of the
   CURRENT Go source; this file proves it equal to the hand-written model function (by reflexivity). *)
From Coq Require Import ZArith Lia Floats Bool List.
From F2G Require Import Go.GoFloat gen.Consts Model.Util gen.Leaf2.
Import ListNotations.
Open Scope Z_scope.

Lemma tie_applyPwmMapping_translated : Translated_applyPwmMapping = true.
Proof. reflexivity. Qed.

Lemma tie_applyPwmMapping : forall pm k, go_applyPwmMapping pm k = Util.lookup pm k.
Proof. reflexivity. Qed.
