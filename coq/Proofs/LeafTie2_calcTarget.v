(* Model.Controller.calc_target IS the composition of the fragments of calculateTargetPwm translated from the current Go
   source (gen/Leaf2.v): the bounds check (go_clampTarget), the range mapping (go_rescaleTarget) and the stall tail
   (go_stallBranch, which calls go_increaseMinPwmOffset), around the parts that stay hand-written because they are device I/O
   (the choice of lastSetPwm, curve evaluation, the control-loop call, the third-party counter).  So an edit of an operator,
   comparison, constant or statement order in those three fragments breaks this theorem (or one of the four ties it imports). *)
From Coq Require Import ZArith Lia Floats Bool List.
From F2G Require Import Go.GoFloat gen.Consts Model.Util Model.Fan Model.ControlLoop Model.Controller gen.Leaf2.
From F2G Require Import Proofs.LeafTie2_clampTarget Proofs.LeafTie2_rescaleTarget Proofs.LeafTie2_increaseMinPwmOffset Proofs.LeafTie2_stallBranch.
Open Scope Z_scope.

Lemma tie_calcTarget_translated :
  Translated_clampTarget && Translated_rescaleTarget && Translated_stallBranch && Translated_increaseMinPwmOffset = true.
Proof. reflexivity. Qed.

(* calc_target with its arithmetic and decision parts replaced by the translated fragments *)
Definition calc_target_via_go (c : cfg) (s : st) (i : cin) : target_result :=
  let f := s_fan s in
  let cur0 :=
    match s_last s with
    | Some l => Some l
    | None => if supports_pwm f i then (if ci_read_ok i then Some (s_pwm s) else None) else Some (GetMinPwm f)
    end in
  match cur0 with
  | None => TErr s 2
  | Some cur0 =>
    match ci_curve i with
    | None => TErr s 2
    | Some v =>
      let current := match s_loopcur s with Some t => t | None => cur0 end in
      let '(alg', t0) := alg_cycle (s_alg s) v current (ci_dt i) in
      let t := go_clampTarget t0 in
      let r := go_rescaleTarget t (s_offset s) (GetMinPwm f) (GetMaxPwm f) in
      let cnt' := third_party_cnt c s i in
      let s1 := mkSt f (s_last s) (Some t) (s_offset s) cnt' alg' (s_pwm s) (s_mode s) (s_stopped s) in
      match go_stallBranch r (GetMinPwm f + s_offset s) (GetMaxPwm f) (s_last s) (s_offset s) 0 0
                           (has_rpm f) (never_stop f) (GetRpmAvg f) with
      | ((off', _, _, setavg), code, r') =>
          if code =? 0 then
            TOk (mkSt (match setavg with Some a => SetRpmAvg f a | None => f end)
                      (s_last s) (Some t) off' cnt' alg' (s_pwm s) (s_mode s) (s_stopped s)) r'
          else TErr s1 code
      end
    end
  end.

Theorem calc_target_is_via_go : forall c s i, calc_target c s i = calc_target_via_go c s i.
Proof.
  intros c s i. unfold calc_target, calc_target_via_go. cbv zeta.
  destruct (match s_last s with Some l => Some l | None => _ end) as [cur0|]; [|reflexivity].
  destruct (ci_curve i) as [v|]; [|reflexivity].
  destruct (alg_cycle _ _ _ _) as [alg' t0].
  rewrite tie_stallBranch. unfold stall_tail.
  change (go_clampTarget t0) with (clamp_target t0).
  change (go_rescaleTarget (clamp_target t0) (s_offset s) (GetMinPwm (s_fan s)) (GetMaxPwm (s_fan s)))
    with (rescale_c (clamp_target t0) (GetMinPwm (s_fan s) + s_offset s) (GetMaxPwm (s_fan s))).
  destruct (has_rpm (s_fan s) && never_stop (s_fan s) && _ && stall_test _); [|reflexivity].
  destruct (GetMaxPwm (s_fan s) <=? _); reflexivity.
Qed.
