(* Tie for the bounds check of internal/controller/controller.go calculateTargetPwm <-> Model.Controller.clamp_target.
   gen/Leaf2.v (regenerated from /repo's working tree by tools/gen_leaf2.py on every check) holds the translation of the
   CURRENT Go source; this file proves it equal to the hand-written model function (by reflexivity). *)
From Coq Require Import ZArith Lia Floats Bool List.
From F2G Require Import Go.GoFloat gen.Consts Model.Util Model.Fan Model.ControlLoop Model.Controller gen.Leaf2.
Import ListNotations.
Open Scope Z_scope.

Lemma tie_clampTarget_translated : Translated_clampTarget = true.
Proof. reflexivity. Qed.

Lemma tie_clampTarget : forall t, go_clampTarget t = clamp_target t.
Proof. reflexivity. Qed.
