(* Tie for the aggregation switch of internal/curves/functional.go FunctionSpeedCurve.Evaluate <-> Model.Curves.agg.
   gen/Leaf2.v (regenerated from /repo's working tree by tools/gen_leaf2.py on every check) holds the translation of the
   CURRENT Go source; this file proves it equal to the hand-written model function for all member values.
   sum / minimum / maximum: by reflexivity.  difference: the Go loop tests `idx == 0` in every iteration, the model peels the
   first element (lemma fold_idx, induction).  delta: the Go loop updates dmin and dmax together, the model folds twice (lemma
   fold_pair, induction).  average: Go divides by len(curves); `curves` and `values` receive one append each per iteration of
   the member loop (which is outside the subset), so the tie is stated at ncurves = length values; the divide-by-zero guard is
   the model's match on the empty list. *)
From Coq Require Import ZArith Lia Floats Bool List.
From F2G Require Import Go.GoFloat gen.Consts Model.Util Model.ControlLoop Model.Curves gen.Leaf2.
Import ListNotations.
Open Scope Z_scope.

Lemma tie_functionAgg_translated : Translated_functionAgg = true.
Proof. reflexivity. Qed.

Lemma fold_pair {A B C} (f : A -> C -> A) (g : B -> C -> B) l : forall a b,
  fold_left (fun '(x, y) v => (f x v, g y v)) l (a, b) = (fold_left f l a, fold_left g l b).
Proof. induction l as [|v r IH]; intros; [reflexivity|]. cbn. apply IH. Qed.

Lemma fold_idx (l : list Z) : forall i a, 0 < i ->
  fold_left (fun '(idx, d) v => (idx + 1, if idx =? 0 then v else wrap64 (d - v))) l (i, a)
  = (i + Z.of_nat (length l), fold_left (fun a x => wrap64 (a - x)) l a).
Proof.
  induction l as [|v r IH]; intros i a Hi.
  - cbn. f_equal. lia.
  - cbn [fold_left length]. destruct (i =? 0) eqn:E; [apply Z.eqb_eq in E; lia|].
    rewrite IH by lia. f_equal. lia.
Qed.

Lemma tie_functionAgg : forall ty values, go_functionAgg values ty (Z.of_nat (length values)) = agg ty values.
Proof.
  intros ty values. destruct ty; unfold go_functionAgg, agg; cbv zeta.
  - reflexivity.
  - unfold idiff. destruct values as [|v r]; [reflexivity|].
    cbn [fold_left]. change (0 =? 0) with true. cbv iota. rewrite fold_idx by lia. reflexivity.
  - destruct values as [|v r]; [reflexivity|].
    rewrite (fold_pair (fun m x => goMin m (i2f64 x)) (fun m x => goMax m (i2f64 x))). reflexivity.
  - reflexivity.
  - reflexivity.
  - destruct values as [|v r]; [reflexivity|].
    destruct (Z.of_nat (length (v :: r)) =? 0) eqn:E; [apply Z.eqb_eq in E; cbn [length] in E; lia|]. reflexivity.
Qed.
