(* Tie for internal/controller/controller.go DefaultFanController.increaseMinPwmOffset <-> the `s_offset s + 1` of Model.Controller.calc_target.
   gen/Leaf2.v (regenerated from /repo's working tree by tools/gen_leaf2.py on every check) holds the translation of the
   CURRENT Go source; this file proves it equal to the hand-written model function's offset update (by reflexivity): the offset grows by exactly one, the statistics copy equals it, the raise counter grows by one. *)
From Coq Require Import ZArith Lia Floats Bool List.
From F2G Require Import Go.GoFloat gen.Consts Model.Util Model.Fan Model.ControlLoop Model.Controller gen.Leaf2.
Import ListNotations.
Open Scope Z_scope.

Lemma tie_increaseMinPwmOffset_translated : Translated_increaseMinPwmOffset = true.
Proof. reflexivity. Qed.

Lemma tie_increaseMinPwmOffset : forall offset stat_offset stat_count,
  go_increaseMinPwmOffset offset stat_offset stat_count = (offset + 1, offset + 1, stat_count + 1).
Proof. reflexivity. Qed.
