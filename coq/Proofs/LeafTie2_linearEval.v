(* Tie for the steps / min-max statement of internal/curves/linear.go LinearSpeedCurve.Evaluate <-> Model.Curves.eval_lin.
   gen/Leaf2.v (regenerated from /repo's working tree by tools/gen_leaf2.py on every check) holds the translation of the
   CURRENT Go source; this file proves it equal to the hand-written model function for every configuration and temperature (three destructs: the Go code assigns `value` in the branches and returns after them, the model returns inside). *)
From Coq Require Import ZArith Lia Floats Bool List.
From F2G Require Import Go.GoFloat gen.Consts Model.Util Model.ControlLoop Model.Curves gen.Leaf2.
Import ListNotations.
Open Scope Z_scope.

Lemma tie_linearEval_translated : Translated_linearEval = true.
Proof. reflexivity. Qed.

Lemma tie_linearEval : forall c avg, go_linearEval c avg = eval_lin c avg.
Proof.
  intros c avg. unfold go_linearEval, eval_lin. destruct (l_steps c) as [steps|].
  - destruct (interpolate steps _); reflexivity.
  - cbv zeta. destruct (PrimFloat.leb _ avg); [reflexivity|]. destruct (PrimFloat.leb avg _); reflexivity.
Qed.
