(* Tie for the range mapping of internal/controller/controller.go calculateTargetPwm (maxPwm, minPwm + offset, min + int(t/255*(max-min))) <-> Model.Controller.rescale_c.
   gen/Leaf2.v (regenerated from /repo's working tree by tools/gen_leaf2.py on every check) holds the translation of the
   CURRENT Go source; this file proves it equal to the hand-written model function (by reflexivity). *)
From Coq Require Import ZArith Lia Floats Bool List.
From F2G Require Import Go.GoFloat gen.Consts Model.Util Model.Fan Model.ControlLoop Model.Controller gen.Leaf2.
Import ListNotations.
Open Scope Z_scope.

Lemma tie_rescaleTarget_translated : Translated_rescaleTarget = true.
Proof. reflexivity. Qed.

Lemma tie_rescaleTarget : forall t offset fan_min fan_max,
  go_rescaleTarget t offset fan_min fan_max = rescale_c t (fan_min + offset) fan_max.
Proof. reflexivity. Qed.
