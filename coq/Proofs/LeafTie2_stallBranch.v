(* Tie for the tail of internal/controller/controller.go calculateTargetPwm (everything after the third-party check: the
   RPM-sensor / never-stop / same-target / stall test, the error at maxPwm, increaseMinPwmOffset, target++, SetRpmAvg(1), the
   result) <-> the corresponding tail of Model.Controller.calc_target, stated as [stall_tail] over exactly the values the Go
   fragment reads.  gen/Leaf2.v holds the translation of the CURRENT Go source.  Proved by following the five conditions
   (the Go code nests them, the model conjoins them); Proofs/LeafTie2_calcTarget.v shows calc_target is built from it. *)
From Coq Require Import ZArith Lia Floats Bool List.
From F2G Require Import Go.GoFloat gen.Consts Model.Util Model.Fan Model.ControlLoop Model.Controller gen.Leaf2.
Open Scope Z_scope.

Lemma tie_stallBranch_translated : Translated_stallBranch = true.
Proof. reflexivity. Qed.

(* the model's stall tail as a function of exactly the values the Go fragment reads *)
Definition stall_tail (has_rpm never_stop : bool) (last : option Z) (avg : f64) (r hi off so sc : Z)
  : (Z * Z * Z * option f64) * Z * Z :=
  if has_rpm && never_stop && (match last with Some l => l =? r | None => false end) && stall_test avg then
    if hi <=? r then ((off, so, sc, None), 1, -1)
    else ((off + 1, off + 1, sc + 1, Some PostRaiseAvg), 0, r + 1)
  else ((off, so, sc, None), 0, r).

Lemma tie_stallBranch : forall r lo hi last off so sc has_rpm never_stop avg,
  go_stallBranch r lo hi last off so sc has_rpm never_stop avg = stall_tail has_rpm never_stop last avg r hi off so sc.
Proof.
  intros. unfold go_stallBranch, stall_tail. cbv zeta.
  change (stall_test avg) with (PrimFloat.ltb avg 1).
  destruct has_rpm; [|reflexivity]. destruct never_stop; [|reflexivity]. cbn [andb].
  destruct (match last with Some l => l =? r | None => false end); [|reflexivity]. cbn [andb].
  destruct (PrimFloat.ltb avg 1); [|reflexivity].
  destruct (hi <=? r); reflexivity.
Qed.

