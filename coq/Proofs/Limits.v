(* C13: specification of the measured limits and the theorems about
   ComputePwmBoundaries / AttachFanRpmCurveData / the setters. Integer-only:
   RPM values enter through [whole r = f2i r] (Go's int(rpm)) which is never unfolded. *)
From Coq Require Import ZArith Bool List Floats Lia Sorting.Sorted.
From F2G Require Import Go.GoFloat gen.Consts Model.Util Model.Fan Model.Limits.
Import ListNotations.
Open Scope Z_scope.

(* ------------------------------------------------------------------ specification *)
Definition sorted_keys (data : rpm_curve) : Prop := StronglySorted Z.lt (map fst data).
Definition keys_le_255 (data : rpm_curve) : Prop := Forall (fun kv => fst kv <= 255) data.

(* no measured point shows a whole RPM above zero (NaN, +-Inf, negative and
   sub-1 RPM values count as "not spinning": int() of them is <= 0) *)
Definition none_spinning (data : rpm_curve) : Prop := forall p r, In (p, r) data -> whole r <= 0.

(* s is the lowest measured PWM with non-zero whole RPM; 255 if there is none *)
Definition start_spec (data : rpm_curve) (s : Z) : Prop :=
  (exists r, In (s, r) data /\ 0 < whole r /\
             forall p' r', In (p', r') data -> 0 < whole r' -> s <= p')
  \/ (none_spinning data /\ s = 255).

(* m is the lowest measured PWM at which the highest whole RPM is reached; 255 if nothing spins *)
Definition max_spec (data : rpm_curve) (m : Z) : Prop :=
  (exists r, In (m, r) data /\ 0 < whole r /\
             (forall p' r', In (p', r') data -> whole r' <= whole r) /\
             (forall p' r', In (p', r') data -> whole r' = whole r -> m <= p'))
  \/ (none_spinning data /\ m = 255).

(* ------------------------------------------------------------------ the scan loop *)
(* ComputePwmBoundaries' loop computes two independent things *)
Fixpoint start_loop (data : rpm_curve) (s : Z) : Z :=
  match data with
  | [] => s
  | (p, r) :: t => start_loop t (if (0 <? whole r) && (p <? s) then p else s)
  end.
Fixpoint max_loop (data : rpm_curve) (M m : Z) : Z :=
  match data with
  | [] => m
  | (p, r) :: t => if M <? whole r then max_loop t (whole r) p else max_loop t M m
  end.

Lemma bounds_loop_split : forall data M s m,
  bounds_loop data M s m = (start_loop data s, max_loop data M m).
Proof.
  induction data as [|[p r] t IH]; intros M s m; [reflexivity|].
  cbn [bounds_loop start_loop max_loop]. unfold whole. cbv zeta.
  destruct (M <? f2i r); cbv beta iota; apply IH.
Qed.

Lemma start_loop_spec : forall data s,
  let s' := start_loop data s in
  (s' = s /\ forall p r, In (p, r) data -> 0 < whole r -> s <= p)
  \/ ((exists r, In (s', r) data /\ 0 < whole r) /\ s' < s /\
      forall p r, In (p, r) data -> 0 < whole r -> s' <= p).
Proof.
  induction data as [|[p r] t IH]; intros s; cbn [start_loop].
  - left. split; [reflexivity|]. intros ? ? [].
  - cbv zeta.
    destruct (0 <? whole r) eqn:E1; destruct (p <? s) eqn:E2; cbn [andb];
      [apply Z.ltb_lt in E1, E2 | apply Z.ltb_lt in E1; apply Z.ltb_ge in E2
       | apply Z.ltb_ge in E1 | apply Z.ltb_ge in E1 ];
      match goal with |- context [start_loop t ?x] => destruct (IH x) as [[Hs Hall]|[[r' [Hin Hpos]] [Hlt Hall]]] end.
    + (* head lowers the start, tail does not *)
      right. split; [exists r; split; [left; congruence|exact E1]|]. split; [lia|].
      intros p' r'' [H|H] Hp; [inversion H; subst; lia|]. specialize (Hall _ _ H Hp). lia.
    + right. split; [exists r'; split; [right; exact Hin|exact Hpos]|]. split; [lia|].
      intros p' r'' [H|H] Hp; [inversion H; subst; lia|]. exact (Hall _ _ H Hp).
    + left. split; [exact Hs|]. intros p' r'' [H|H] Hp; [inversion H; subst; lia|]. exact (Hall _ _ H Hp).
    + right. split; [exists r'; split; [right; exact Hin|exact Hpos]|]. split; [lia|].
      intros p' r'' [H|H] Hp; [inversion H; subst; lia|]. exact (Hall _ _ H Hp).
    + left. split; [exact Hs|]. intros p' r'' [H|H] Hp; [inversion H; subst; lia|]. exact (Hall _ _ H Hp).
    + right. split; [exists r'; split; [right; exact Hin|exact Hpos]|]. split; [lia|].
      intros p' r'' [H|H] Hp; [inversion H; subst; lia|]. exact (Hall _ _ H Hp).
    + left. split; [exact Hs|]. intros p' r'' [H|H] Hp; [inversion H; subst; lia|]. exact (Hall _ _ H Hp).
    + right. split; [exists r'; split; [right; exact Hin|exact Hpos]|]. split; [lia|].
      intros p' r'' [H|H] Hp; [inversion H; subst; lia|]. exact (Hall _ _ H Hp).
Qed.

Lemma spinning_dec : forall data : rpm_curve,
  none_spinning data \/ exists p r, In (p, r) data /\ 0 < whole r.
Proof.
  induction data as [|[p r] t [IH|[p' [r' [Hin Hp]]]]].
  - left. intros ? ? [].
  - destruct (Z_lt_dec 0 (whole r)) as [H|H].
    + right. exists p, r. split; [left; reflexivity|exact H].
    + left. intros p' r' [E|E]; [inversion E; subst; lia|exact (IH _ _ E)].
  - right. exists p', r'. split; [right; exact Hin|exact Hp].
Qed.

Theorem start_loop_ok : forall data,
  keys_le_255 data -> start_spec data (start_loop data 255).
Proof.
  intros data Hk. destruct (start_loop_spec data 255) as [[Hs Hall]|[[r [Hin Hpos]] [Hlt Hall]]].
  - rewrite Hs. destruct (spinning_dec data) as [N|[p [r [Hin Hp]]]].
    + right. split; [exact N|reflexivity].
    + left. assert (p = 255).
      { pose proof (Hall _ _ Hin Hp). unfold keys_le_255 in Hk. rewrite Forall_forall in Hk.
        specialize (Hk _ Hin). cbn in Hk. lia. }
      subst p. exists r. split; [exact Hin|]. split; [exact Hp|exact Hall].
  - left. exists r. split; [exact Hin|]. split; [exact Hpos|exact Hall].
Qed.

Lemma sorted_keys_cons p r t : sorted_keys ((p, r) :: t) ->
  sorted_keys t /\ forall p' r', In (p', r') t -> p < p'.
Proof.
  unfold sorted_keys. cbn [map fst]. intros H. inversion H as [|? ? HS HF]; subst. split; [exact HS|].
  intros p' r' Hin. rewrite Forall_forall in HF. apply HF.
  change p' with (fst (p', r')). now apply in_map.
Qed.

Lemma max_loop_spec : forall data M m, sorted_keys data ->
  let m' := max_loop data M m in
  (m' = m /\ forall p r, In (p, r) data -> whole r <= M)
  \/ (exists r, In (m', r) data /\ M < whole r /\
        (forall p' r', In (p', r') data -> whole r' <= whole r) /\
        (forall p' r', In (p', r') data -> whole r' = whole r -> m' <= p')).
Proof.
  induction data as [|[p r] t IH]; intros M m HS; cbn [max_loop].
  - left. split; [reflexivity|]. intros ? ? [].
  - cbv zeta. apply sorted_keys_cons in HS. destruct HS as [HS Hlt].
    destruct (M <? whole r) eqn:E; [apply Z.ltb_lt in E|apply Z.ltb_ge in E].
    + destruct (IH (whole r) p HS) as [[Hm Hall]|[r' [Hin [Hgt [Hall Hlow]]]]].
      * right. exists r. rewrite Hm. split; [left; reflexivity|]. split; [exact E|]. split.
        -- intros p' r'' [H|H]; [inversion H; subst; lia|exact (Hall _ _ H)].
        -- intros p' r'' [H|H] _; [inversion H; subst; lia|]. specialize (Hlt _ _ H). lia.
      * right. exists r'. split; [right; exact Hin|]. split; [lia|]. split.
        -- intros p' r'' [H|H]; [inversion H; subst; lia|exact (Hall _ _ H)].
        -- intros p' r'' [H|H] Heq; [inversion H; subst; lia|exact (Hlow _ _ H Heq)].
    + destruct (IH M m HS) as [[Hm Hall]|[r' [Hin [Hgt [Hall Hlow]]]]].
      * left. split; [exact Hm|]. intros p' r'' [H|H]; [inversion H; subst; lia|exact (Hall _ _ H)].
      * right. exists r'. split; [right; exact Hin|]. split; [exact Hgt|]. split.
        -- intros p' r'' [H|H]; [inversion H; subst; lia|exact (Hall _ _ H)].
        -- intros p' r'' [H|H] Heq; [inversion H; subst; lia|exact (Hlow _ _ H Heq)].
Qed.

Theorem max_loop_ok : forall data, sorted_keys data -> max_spec data (max_loop data 0 255).
Proof.
  intros data HS. destruct (max_loop_spec data 0 255 HS) as [[Hm Hall]|[r [Hin [Hgt [Hall Hlow]]]]].
  - right. split; [exact Hall|exact Hm].
  - left. exists r. auto.
Qed.

(* both specifications determine their value *)
Lemma start_spec_unique data a b : start_spec data a -> start_spec data b -> a = b.
Proof.
  intros [[ra [Ia [Pa La]]]|[Na Ea]] [[rb [Ib [Pb Lb]]]|[Nb Eb]].
  - pose proof (La _ _ Ib Pb). pose proof (Lb _ _ Ia Pa). lia.
  - specialize (Nb _ _ Ia). lia.
  - specialize (Na _ _ Ib). lia.
  - lia.
Qed.

Lemma max_spec_unique data a b : max_spec data a -> max_spec data b -> a = b.
Proof.
  intros [[ra [Ia [Pa [Ta La]]]]|[Na Ea]] [[rb [Ib [Pb [Tb Lb]]]]|[Nb Eb]].
  - pose proof (Ta _ _ Ib). pose proof (Tb _ _ Ia).
    assert (E : whole ra = whole rb) by lia.
    pose proof (La _ _ Ib (eq_sym E)). pose proof (Lb _ _ Ia E). lia.
  - specialize (Nb _ _ Ia). lia.
  - specialize (Na _ _ Ib). lia.
  - lia.
Qed.

(* ------------------------------------------------------------------ attach *)
Lemma ComputePwmBoundaries_eq f data :
  ComputePwmBoundaries f data =
  ((if GetStartPwm f <? 255 then GetStartPwm f else start_loop data 255), max_loop data 0 255).
Proof. unfold ComputePwmBoundaries. rewrite bounds_loop_split. reflexivity. Qed.

(* the start value AttachFanRpmCurveData works with: a configured start PWM
   below 255, otherwise the measured one *)
Definition eff_start (f : fan) (data : rpm_curve) : Z :=
  match cfg_start f with
  | None => start_loop data 255
  | Some _ => let u := odflt (cur_start f) MaxPwmValue in if u <? 255 then u else start_loop data 255
  end.

(* everything a successful attachment does to a hwmon fan *)
Lemma attach_hwmon_effect f data :
  fk f = HwMon -> data <> [] ->
  exists f', attachL f data = Some f' /\
    fk f' = HwMon /\ never_stop f' = never_stop f /\
    cfg_min f' = cfg_min f /\ cfg_start f' = cfg_start f /\ cfg_max f' = cfg_max f /\
    cur_start f' = (match cfg_start f with Some _ => cur_start f | None => Some (start_loop data 255) end) /\
    cur_max f' = (match cfg_max f with Some _ => cur_max f | None => Some (max_loop data 0 255) end) /\
    cur_min f' = (match cfg_min f with Some _ => cur_min f | None => Some (eff_start f data) end) /\
    rpm_avg f' = rpm_avg f /\ rpm_last f' = rpm_last f /\ has_rpm f' = has_rpm f /\ has_mode f' = has_mode f.
Proof.
  intros Hk Hd. unfold attachL. rewrite Hk. unfold attach_hwmon.
  destruct data as [|kv t]; [congruence|]. set (d := kv :: t).
  destruct f as [k ns cmn cst cmx umn ust umx ra rl hr hm]. cbn in Hk. subst k.
  cbn [cfg_start is_some]. unfold eff_start. cbn [cfg_start cur_start].
  destruct cst as [cs|]; cbn [is_some]; rewrite ComputePwmBoundaries_eq;
    unfold SetStartPwm, SetMaxPwm, SetMinPwm, GetStartPwm, set_cur_start, set_cur_max, set_cur_min;
    cbn [fk cfg_min cfg_start cfg_max cur_min cur_start cur_max never_stop rpm_avg rpm_last has_rpm has_mode is_some negb orb odflt];
    destruct cmn, cmx; cbn [fk cfg_min cfg_start cfg_max cur_min cur_start cur_max never_stop rpm_avg rpm_last has_rpm has_mode is_some negb orb odflt];
    eexists; (split; [reflexivity|]);
    cbn [fk cfg_min cfg_start cfg_max cur_min cur_start cur_max never_stop rpm_avg rpm_last has_rpm has_mode];
    repeat split; reflexivity.
Qed.

Lemma attach_empty f : fk f = HwMon -> attachL f [] = None.
Proof. intros Hk. unfold attachL. rewrite Hk. reflexivity. Qed.

Lemma attach_other_kind f data : fk f <> HwMon -> attachL f data = Some f.
Proof. unfold attachL. destruct (fk f); congruence. Qed.

(* measured start and max after an attachment - for ANY hwmon fan state, fresh or not *)
Theorem attach_start_measured f data f' :
  fk f = HwMon -> cfg_start f = None -> attachL f data = Some f' ->
  keys_le_255 data -> start_spec data (GetStartPwm f').
Proof.
  intros Hk Hc Ha Hr. destruct data as [|kv t]; [rewrite attach_empty in Ha by exact Hk; discriminate|].
  destruct (attach_hwmon_effect f (kv :: t) Hk) as [f2 [E [Hk2 [_ [_ [_ [_ [Hs _]]]]]]]]; [discriminate|].
  rewrite E in Ha. inversion Ha; subst f2. unfold GetStartPwm. rewrite Hk2, Hs, Hc. cbn [odflt].
  apply start_loop_ok. exact Hr.
Qed.

Theorem attach_max_measured f data f' :
  fk f = HwMon -> cfg_max f = None -> attachL f data = Some f' ->
  sorted_keys data -> max_spec data (GetMaxPwm f').
Proof.
  intros Hk Hc Ha Hr. destruct data as [|kv t]; [rewrite attach_empty in Ha by exact Hk; discriminate|].
  destruct (attach_hwmon_effect f (kv :: t) Hk) as [f2 [E [Hk2 [_ [_ [_ [_ [_ [Hm _]]]]]]]]]; [discriminate|].
  rewrite E in Ha. inversion Ha; subst f2. unfold GetMaxPwm. rewrite Hk2, Hm, Hc. cbn [odflt].
  apply max_loop_ok. exact Hr.
Qed.

Lemma new_fan_hwmon ns mn st mx :
  let f := new_fan HwMon ns mn st mx in
  fk f = HwMon /\ never_stop f = ns /\ cfg_min f = mn /\ cfg_start f = st /\ cfg_max f = mx /\
  cur_min f = mn /\ cur_start f = st /\ cur_max f = mx.
Proof. cbn. repeat split. Qed.

(* C13_start / C13_max on a fresh fan *)
Theorem fresh_start ns mn mx data f' :
  attachL (new_fan HwMon ns mn None mx) data = Some f' ->
  keys_le_255 data -> start_spec data (GetStartPwm f').
Proof. intros. eapply attach_start_measured; eauto; reflexivity. Qed.

Theorem fresh_max ns mn st data f' :
  attachL (new_fan HwMon ns mn st None) data = Some f' ->
  sorted_keys data -> max_spec data (GetMaxPwm f').
Proof. intros. eapply attach_max_measured; eauto; reflexivity. Qed.

(* no data: refused with os.ErrInvalid, nothing changes; and that is the only refusal *)
Theorem empty_refused f : fk f = HwMon -> step f (Attach []) = (f, 1).
Proof. intros Hk. unfold step, step_with. rewrite attach_empty by exact Hk. reflexivity. Qed.

Theorem refused_only_empty f data : fk f = HwMon -> snd (step f (Attach data)) <> 0 -> data = [].
Proof.
  intros Hk H. destruct data as [|kv t]; [reflexivity|].
  destruct (attach_hwmon_effect f (kv :: t) Hk) as [f2 [E _]]; [discriminate|].
  unfold step, step_with in H. rewrite E in H. cbn in H. congruence.
Qed.

(* ------------------------------------------------------------------ call sequences *)
Lemma run_ops_app f a b : run_ops f (a ++ b) = run_ops (run_ops f a) b.
Proof. unfold run_ops. apply fold_left_app. Qed.

(* what no call ever changes *)
Definition same_static (f0 f : fan) : Prop :=
  fk f = fk f0 /\ never_stop f = never_stop f0 /\
  cfg_min f = cfg_min f0 /\ cfg_start f = cfg_start f0 /\ cfg_max f = cfg_max f0 /\
  rpm_avg f = rpm_avg f0 /\ rpm_last f = rpm_last f0 /\ has_rpm f = has_rpm f0 /\ has_mode f = has_mode f0.

Lemma same_static_refl f : same_static f f.
Proof. repeat split. Qed.

Lemma same_static_trans a b c : same_static a b -> same_static b c -> same_static a c.
Proof. unfold same_static. intuition congruence. Qed.

Lemma setter_static f v b :
  same_static f (SetMinPwm f v b) /\ same_static f (SetStartPwm f v b) /\ same_static f (SetMaxPwm f v b).
Proof.
  unfold SetMinPwm, SetStartPwm, SetMaxPwm.
  destruct f as [k ns cmn cst cmx umn ust umx ra rl hr hm]. cbn [fk cfg_min cfg_start cfg_max].
  destruct k; repeat split;
    try (destruct (negb (is_some cmn) || b)); try (destruct (negb (is_some cst) || b));
    try (destruct (negb (is_some cmx) || b)); reflexivity.
Qed.

Lemma step_static f o : same_static f (fst (step f o)).
Proof.
  destruct o as [d|v b|v b|v b|k r]; cbn [step step_with fst]; try apply setter_static; [|apply same_static_refl].
  unfold step, step_with. destruct (fk f) eqn:Hk.
  - destruct d as [|kv t]; [rewrite attach_empty by exact Hk; apply same_static_refl|].
    destruct (attach_hwmon_effect f (kv :: t) Hk) as [f2 [E H]]; [discriminate|]. rewrite E. cbn [fst].
    unfold same_static. rewrite Hk. intuition.
  - rewrite attach_other_kind by congruence. apply same_static_refl.
  - rewrite attach_other_kind by congruence. apply same_static_refl.
Qed.

Lemma run_ops_static : forall ops f, same_static f (run_ops f ops).
Proof.
  induction ops as [|o r IH]; intros f; [apply same_static_refl|].
  change (run_ops f (o :: r)) with (run_ops (fst (step f o)) r).
  eapply same_static_trans; [apply step_static|apply IH].
Qed.

(* a fan without neverStop always has minimum 0: every kind, every state *)
Theorem min_zero_without_neverstop f : never_stop f = false -> GetMinPwm f = 0.
Proof. intros H. unfold GetMinPwm. rewrite H. destruct (fk f); reflexivity. Qed.

Theorem no_neverstop_always f0 ops :
  never_stop f0 = false -> GetMinPwm (run_ops f0 ops) = 0.
Proof.
  intros H. apply min_zero_without_neverstop.
  destruct (run_ops_static ops f0) as [_ [E _]]. congruence.
Qed.

(* configured limits: the effective value equals the configured one *)
Definition cfg_wins (f : fan) : Prop :=
  (forall x, cfg_min f = Some x -> cur_min f = Some x) /\
  (forall x, cfg_start f = Some x -> cur_start f = Some x) /\
  (forall x, cfg_max f = Some x -> cur_max f = Some x).

Lemma step_cfg_wins f o :
  fk f = HwMon -> forced o = false -> cfg_wins f -> cfg_wins (fst (step f o)).
Proof.
  intros Hk Hf [W1 [W2 W3]].
  destruct o as [d|v b|v b|v b|k r]; cbn [forced] in Hf; try subst b; [| | | |repeat split; assumption].
  - unfold step, step_with. destruct d as [|kv t]; [rewrite attach_empty by exact Hk; repeat split; assumption|].
    destruct (attach_hwmon_effect f (kv :: t) Hk) as [f2 [E [_ [_ [C1 [C2 [C3 [S [M [Mi _]]]]]]]]]]; [discriminate|].
    rewrite E. cbn [fst]. unfold cfg_wins. rewrite C1, C2, C3, S, M, Mi. repeat split; intros x Hx.
    + rewrite Hx. auto.
    + rewrite Hx. auto.
    + rewrite Hx. auto.
  - cbn [step step_with fst]. unfold SetMinPwm. rewrite Hk. destruct f as [k ns cmn cst cmx umn ust umx ra rl hr hm].
    cbn in *. destruct cmn; cbn; repeat split; auto. intros; discriminate.
  - cbn [step step_with fst]. unfold SetStartPwm. rewrite Hk. destruct f as [k ns cmn cst cmx umn ust umx ra rl hr hm].
    cbn in *. destruct cst; cbn; repeat split; auto. intros; discriminate.
  - cbn [step step_with fst]. unfold SetMaxPwm. rewrite Hk. destruct f as [k ns cmn cst cmx umn ust umx ra rl hr hm].
    cbn in *. destruct cmx; cbn; repeat split; auto. intros; discriminate.
Qed.

Lemma run_ops_cfg_wins : forall ops f,
  fk f = HwMon -> Forall (fun o => forced o = false) ops -> cfg_wins f -> cfg_wins (run_ops f ops).
Proof.
  induction ops as [|o r IH]; intros f Hk Hf W; [exact W|].
  change (run_ops f (o :: r)) with (run_ops (fst (step f o)) r). inversion Hf; subst.
  apply IH; [|assumption|apply step_cfg_wins; assumption].
  destruct (step_static f o) as [E _]. congruence.
Qed.

Theorem config_wins ns mn st mx ops :
  Forall (fun o => forced o = false) ops ->
  let f := run_ops (new_fan HwMon ns mn st mx) ops in
  (forall x, mn = Some x -> GetMinPwm f = if ns then x else 0) /\
  (forall x, st = Some x -> GetStartPwm f = x) /\
  (forall x, mx = Some x -> GetMaxPwm f = x).
Proof.
  intros Hf f. set (f0 := new_fan HwMon ns mn st mx) in *.
  assert (W : cfg_wins f).
  { apply run_ops_cfg_wins; [reflexivity|exact Hf|]. repeat split; intros x Hx; exact Hx. }
  destruct (run_ops_static ops f0) as [Hk [Hn [C1 [C2 [C3 _]]]]]. fold f in Hk, Hn, C1, C2, C3.
  destruct W as [W1 [W2 W3]]. cbn in Hk, Hn, C1, C2, C3.
  unfold GetMinPwm, GetStartPwm, GetMaxPwm. rewrite Hk, Hn. repeat split; intros x Hx.
  - rewrite Hx in C1. rewrite (W1 x C1). destruct ns; reflexivity.
  - rewrite Hx in C2. rewrite (W2 x C2). reflexivity.
  - rewrite Hx in C3. rewrite (W3 x C3). reflexivity.
Qed.

(* file and cmd fans: limits are constants, nothing is ever refused or invented *)
Theorem other_kinds_constant k ns mn st mx ops :
  k <> HwMon ->
  limits (run_ops (new_fan k ns mn st mx) ops) = (0, 1, 255) /\
  Forall (fun e => fst e = 0) (run_obs (new_fan k ns mn st mx) ops).
Proof.
  intros Hk. set (f0 := new_fan k ns mn st mx).
  assert (K0 : fk f0 = k) by (destruct k; reflexivity).
  split.
  - destruct (run_ops_static ops f0) as [E _]. unfold limits, GetMinPwm, GetStartPwm, GetMaxPwm.
    rewrite E, K0. destruct k; [congruence|reflexivity|reflexivity].
  - assert (G : forall ops f, fk f <> HwMon -> Forall (fun e => fst e = 0) (run_obs f ops)).
    { clear. induction ops as [|o r IH]; intros f Hk; [constructor|].
      unfold run_obs in *. cbn [run_obs_with].
      assert (S : snd (step f o) = 0).
      { destruct o; try reflexivity. unfold step, step_with. rewrite attach_other_kind by exact Hk. reflexivity. }
      destruct (step f o) as [f' e] eqn:E. cbn in S. subst e. constructor; [reflexivity|].
      apply IH. pose proof (step_static f o) as [Ek _]. rewrite E in Ek. cbn in Ek. congruence. }
    apply G. congruence.
Qed.

(* ------------------------------------------------------------------ re-attachment *)
(* after any sequence of non-forced calls, attaching data gives exactly the state a
   fresh fan would get from that data alone *)
Lemma attach_history_independent f0 f data :
  fk f0 = HwMon -> same_static f0 f -> cfg_wins f0 -> cfg_wins f -> data <> [] ->
  attachL f data = attachL f0 data.
Proof.
  intros Hk0 S W0 W Hd. pose proof S as [Hk [Hn [C1 [C2 [C3 [R1 [R2 [R3 R4]]]]]]]].
  rewrite Hk0 in Hk.
  destruct (attach_hwmon_effect f data Hk Hd) as [a [Ea [Ak [An [A1 [A2 [A3 [As [Am [Ami [Ar1 [Ar2 [Ar3 Ar4]]]]]]]]]]]]].
  destruct (attach_hwmon_effect f0 data Hk0 Hd) as [b [Eb [Bk [Bn [B1 [B2 [B3 [Bs [Bm [Bmi [Br1 [Br2 [Br3 Br4]]]]]]]]]]]]].
  rewrite Ea, Eb. f_equal.
  destruct W0 as [V1 [V2 V3]], W as [U1 [U2 U3]].
  assert (Es : cur_start a = cur_start b).
  { rewrite As, Bs, C2. destruct (cfg_start f0) as [x|] eqn:Ex; [|reflexivity].
    rewrite (V2 x eq_refl). apply U2. congruence. }
  assert (Em : cur_max a = cur_max b).
  { rewrite Am, Bm, C3. destruct (cfg_max f0) as [x|] eqn:Ex; [|reflexivity].
    rewrite (V3 x eq_refl). apply U3. congruence. }
  assert (Emi : cur_min a = cur_min b).
  { rewrite Ami, Bmi, C1. destruct (cfg_min f0) as [x|] eqn:Ex.
    - rewrite (V1 x eq_refl). apply U1. congruence.
    - f_equal. unfold eff_start. rewrite C2. destruct (cfg_start f0) as [y|] eqn:Ey; [|reflexivity].
      rewrite (V2 y eq_refl), (U2 y) by congruence. reflexivity. }
  destruct a, b. cbn in *. congruence.
Qed.

Definition C13_reattach_full_stmt : Prop :=
  forall ns mn st mx ops data,
    Forall (fun o => forced o = false) ops -> data <> [] ->
    run_ops (new_fan HwMon ns mn st mx) (ops ++ [Attach data]) =
    run_ops (new_fan HwMon ns mn st mx) [Attach data].

Theorem reattach_full : C13_reattach_full_stmt.
Proof.
  intros ns mn st mx ops data Hf Hd. set (f0 := new_fan HwMon ns mn st mx).
  rewrite run_ops_app. set (f := run_ops f0 ops).
  assert (W0 : cfg_wins f0) by (repeat split; intros x Hx; exact Hx).
  assert (W : cfg_wins f) by (apply run_ops_cfg_wins; [reflexivity|exact Hf|exact W0]).
  unfold run_ops. cbn [fold_left]. unfold step, step_with.
  rewrite (attach_history_independent f0 f data); auto; [|apply run_ops_static].
  destruct (attach_hwmon_effect f0 data eq_refl Hd) as [b [Eb _]]. rewrite Eb. reflexivity.
Qed.

(* the code before the repair (Fan.attach): the second attachment keeps the start
   PWM measured by the first - the regression witness for D16 *)
Theorem reattach_old_model_witness :
  exists ops data, Forall (fun o => forced o = false) ops /\ data <> [] /\
    limits (run_ops_old (new_fan HwMon false None None None) (ops ++ [Attach data])) <>
    limits (run_ops_old (new_fan HwMon false None None None) [Attach data]).
Proof.
  exists [Attach [(200, 0x1.2cp+8%float)]], [(15, 0x1.2cp+8%float); (200, 0x1.9p+8%float)].
  split; [repeat constructor|]. split; [discriminate|]. vm_compute. discriminate.
Qed.
