(* C13: the observer of Drv/Limits.v demands nothing beyond the theorems of
   Proofs/Limits.v - the model's own observations always satisfy [Holds], hence a
   case on which implementation and model agree holds. *)
From Coq Require Import ZArith Bool List Floats Lia Sorting.Sorted.
From F2G Require Import Go.GoFloat Model.Fan Model.Limits Proofs.Limits Drv.Common Drv.Limits.
Import ListNotations.
Open Scope Z_scope.

Definition agrees (c : case) (f : fan) : Prop :=
  fk f = c_kind c /\ never_stop f = c_ns c /\
  cfg_min f = c_min c /\ cfg_start f = c_start c /\ cfg_max f = c_max c.

Lemma agrees_step c f o : agrees c f -> agrees c (fst (step f o)).
Proof.
  intros [A1 [A2 [A3 [A4 A5]]]]. destruct (step_static f o) as [S1 [S2 [S3 [S4 [S5 _]]]]].
  unfold agrees. intuition congruence.
Qed.

Lemma state_ok_model c nf f :
  agrees c f -> (nf = true -> c_kind c = HwMon -> cfg_wins f) -> state_ok c nf (limits f).
Proof.
  intros [A1 [A2 [A3 [A4 A5]]]] W. unfold state_ok, limits, l_min, l_start, l_max. cbn [fst snd]. split.
  - intros Hn. apply min_zero_without_neverstop. congruence.
  - intros Hk Hnf. destruct (W Hnf Hk) as [W1 [W2 W3]].
    unfold GetMinPwm, GetStartPwm, GetMaxPwm. rewrite A1, Hk, A2. repeat split; intros x Hx.
    + rewrite (W1 x) by congruence. destruct (c_ns c); reflexivity.
    + rewrite (W2 x) by congruence. reflexivity.
    + rewrite (W3 x) by congruence. reflexivity.
Qed.

Lemma step_ok_model c f o :
  agrees c f -> step_ok c (limits f) o (snd (step f o)) (limits (fst (step f o))).
Proof.
  intros [A1 [A2 [A3 [A4 A5]]]] Hk. assert (Hf : fk f = HwMon) by congruence.
  destruct o as [d|v b|v b|v b|k r]; try reflexivity; [|split; reflexivity].
  destruct d as [|kv t].
  - rewrite empty_refused by exact Hf. split; reflexivity.
  - set (d := kv :: t).
    destruct (attach_hwmon_effect f d Hf) as [f' [E _]]; [discriminate|].
    unfold step, step_with. rewrite E. cbn [fst snd]. split; [reflexivity|].
    unfold limits, l_start, l_max. cbn [fst snd]. split.
    + intros Hs Hr _. eapply attach_start_measured; eauto. congruence.
    + intros Hm Hr. eapply attach_max_measured; eauto. congruence.
Qed.

Lemma steps_ok_model c nf : forall ops f,
  agrees c f ->
  (nf = true -> c_kind c = HwMon -> cfg_wins f /\ Forall (fun o => forced o = false) ops) ->
  steps_ok c nf (limits f) ops (run_obs f ops).
Proof.
  induction ops as [|o r IH]; intros f A W; [exact I|].
  unfold run_obs. cbn [run_obs_with]. fold step. destruct (step f o) as [f' e] eqn:E.
  fold (run_obs f' r). cbn [steps_ok].
  pose proof (step_ok_model c f o A) as S. pose proof (agrees_step c f o A) as A'.
  rewrite E in S, A'. cbn [fst snd] in S, A'.
  assert (W' : nf = true -> c_kind c = HwMon -> cfg_wins f' /\ Forall (fun o => forced o = false) r).
  { intros Hnf Hk. destruct (W Hnf Hk) as [Wf Hall]. inversion Hall; subst. split; [|assumption].
    replace f' with (fst (step f o)) by (rewrite E; reflexivity).
    apply step_cfg_wins; try assumption. destruct A as [A1 _]. congruence. }
  split; [exact S|]. split.
  - apply state_ok_model; [exact A'|]. intros Hnf Hk. exact (proj1 (W' Hnf Hk)).
  - apply IH; assumption.
Qed.

(* the model's observations of ANY case input satisfy the property observer *)
Theorem model_case_holds k ns mn st mx ops :
  let f0 := new_fan k ns mn st mx in
  Holds (mkCase k ns mn st mx ops (limits f0) (run_obs f0 ops)).
Proof.
  intros f0. unfold Holds. cbv zeta. cbn [c_ops o_init o_steps].
  set (c := mkCase k ns mn st mx ops (limits f0) (run_obs f0 ops)).
  assert (A : agrees c f0) by (unfold agrees, f0; destruct k; cbn; repeat split).
  assert (W : forallb (fun o => negb (forced o)) ops = true -> c_kind c = HwMon ->
              cfg_wins f0 /\ Forall (fun o => forced o = false) ops).
  { intros Hnf Hk. cbn in Hk. subst k. split; [repeat split; intros x Hx; exact Hx|].
    rewrite forallb_forall in Hnf. apply Forall_forall. intros o Ho. specialize (Hnf o Ho).
    destruct (forced o); [discriminate|reflexivity]. }
  split.
  - apply state_ok_model; [exact A|]. intros Hnf Hk. exact (proj1 (W Hnf Hk)).
  - apply steps_ok_model; assumption.
Qed.

Lemma list_eqb_eq {A} (eqb : A -> A -> bool) :
  (forall a b, eqb a b = true -> a = b) -> forall l1 l2, list_eqb eqb l1 l2 = true -> l1 = l2.
Proof.
  intros H. induction l1 as [|x r IH]; destruct l2 as [|y r2]; cbn; try congruence; try discriminate.
  intros E. apply andb_true_iff in E. destruct E as [E1 E2]. f_equal; [apply H; exact E1|apply IH; exact E2].
Qed.

Lemma obs_eqb_eq a b : obs_eqb a b = true -> a = b.
Proof.
  destruct a as [e1 l1], b as [e2 l2]. unfold obs_eqb. cbn [fst snd]. intros E.
  apply andb_true_iff in E. destruct E as [E1 E2]. apply Z.eqb_eq in E1. apply lim_eqb_iff in E2. congruence.
Qed.

(* agreement with the model implies the property on the implementation's observation *)
Theorem agreement_implies_holds c : mismatch c = false -> holdsb c = true.
Proof.
  intros M. apply holdsb_spec. unfold mismatch, mismatch_with in M. apply negb_false_iff in M.
  apply andb_true_iff in M. destruct M as [M1 M2]. apply lim_eqb_iff in M1.
  apply (list_eqb_eq obs_eqb obs_eqb_eq) in M2. fold (run_obs (fan0 c) (c_ops c)) in M2.
  destruct c as [k ns mn st mx ops oi os]. cbn [o_init o_steps c_ops] in *. unfold fan0 in *.
  cbn [c_kind c_ns c_min c_start c_max] in *. subst oi os. apply model_case_holds.
Qed.
