(* every explicit abrupt-termination site of the current source is classified, and the
   fact the "unreachable" verdict of the inner interrupt handler rests on holds of the source *)
From Coq Require Import String List ZArith Bool.
From F2G Require Import gen.PanicSites Model.PanicSites.
Import ListNotations.
Open Scope string_scope.

Lemma all_classified_b : forallb classified sites = true.
Proof. vm_compute. reflexivity. Qed.

Theorem all_sites_classified : forall s, In s sites -> exists c, classify s = Some c.
Proof.
  intros s H. pose proof all_classified_b as A. rewrite forallb_forall in A. specialize (A s H).
  unfold classified in A. destruct (classify s) as [c|]; [eauto|discriminate].
Qed.

(* both actors of the inner run group of DefaultFanController.Run return nil on every path *)
Theorem inner_actors_return_nil : forall r, In r inner_actor_returns -> r = "nil".
Proof.
  assert (A : forallb (String.eqb "nil") inner_actor_returns = true) by (vm_compute; reflexivity).
  intros r H. rewrite forallb_forall in A. specialize (A r H). apply String.eqb_eq in A. congruence.
Qed.

(* no site of the regulation path is classified as a modelled crash: the only modelled sites are the two os.Exit of RunDaemon *)
Lemma modelled_sites_are_exits :
  forall s id, In s sites -> classify s = Some (Modelled id) -> snd (fst s) = SExit.
Proof.
  assert (A : forallb (fun s => match classify s with Some (Modelled _) => kind_eqb (snd (fst s)) SExit | _ => true end) sites = true)
    by (vm_compute; reflexivity).
  intros s id H C. rewrite forallb_forall in A. specialize (A s H). rewrite C in A.
  destruct (snd (fst s)); try discriminate; reflexivity.
Qed.
