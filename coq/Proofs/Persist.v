(* C14: the persistence wrapper refines two maps id -> value, for every
   sequence of operations; corollaries in terms of [look] (what a Load would
   return).  std++ file.  Oracle hypotheses (Section): JSON fidelity
   [enc_dec], [enc_able]; bbolt atomicity is built into [CrashDuring]. *)
From stdpp Require Import gmap.
From F2G Require Import gen.Consts Model.Persist.

(* the two bucket names differ in the source the model was generated from *)
Lemma buckets_distinct : BucketsDistinct = true.
Proof. reflexivity. Qed.

Section PersistProofs.
  Context {value bytes : Type}.
  Variable encode : kind -> value -> option bytes.
  Variable decode : kind -> bytes -> option value.
  Variable encodable : kind -> value -> bool.
  (* JSON fidelity: what json.Marshal produced, json.Unmarshal reads back unchanged *)
  Hypothesis enc_dec : forall k v b, encode k v = Some b -> decode k b = Some v.
  (* json.Marshal fails exactly on values that are not encodable (NaN, +-Inf) *)
  Hypothesis enc_able : forall k v, encodable k v = true <-> exists b, encode k v = Some b.

  Notation db := (db bytes).
  Notation sdb := (sdb value).
  Notation op := (op value bytes).
  Notation bop := (bop value bytes).
  Notation step := (step encode decode).
  Notation bstep := (bstep encode decode).
  Notation run := (run encode decode).
  Notation look := (look decode).
  Notation absb := (absb decode).
  Notation abs := (abs decode).
  Notation sstep := (sstep decode encodable).
  Notation sbstep := (sbstep decode encodable).
  Notation srun := (srun decode encodable).
  Notation effect := (effect decode encodable).
  Notation beffect := (beffect decode encodable).
  Notation expected := (expected decode encodable).
  Notation expected_out := (expected_out decode encodable).
  Notation expected_trace := (expected_trace decode encodable).

  Lemma dflt_some {A} (d x : A) : default d (Some x) = x.
  Proof. reflexivity. Qed.
  Lemma dflt_none {A} (d : A) : default d None = d.
  Proof. reflexivity. Qed.

  Lemma bkt_id k : bkt k = k.
  Proof. unfold bkt. rewrite buckets_distinct. reflexivity. Qed.

  Lemma get_set_same k m (s : db) : get_bucket k (set_bucket k m s) = m.
  Proof. unfold get_bucket, set_bucket. rewrite bkt_id. destruct k; reflexivity. Qed.
  Lemma get_set_other k k' m (s : db) : k' <> k -> get_bucket k' (set_bucket k m s) = get_bucket k' s.
  Proof. unfold get_bucket, set_bucket. rewrite !bkt_id. destruct k, k'; try reflexivity; congruence. Qed.

  (* ---- effect of the two primitive writes on the abstraction ---- *)
  Lemma absb_put_same k id b (s : db) :
    absb k (put k id b s) = match decode k b with Some v => <[id := v]> (absb k s) | None => delete id (absb k s) end.
  Proof.
    unfold absb, put. rewrite get_set_same, dflt_some.
    apply map_eq. intros i. rewrite lookup_omap.
    destruct (decide (i = id)) as [->|Hne].
    - rewrite lookup_insert. cbn. destruct (decode k b); [rewrite lookup_insert|rewrite lookup_delete]; reflexivity.
    - rewrite lookup_insert_ne by congruence.
      destruct (decode k b); [rewrite lookup_insert_ne by congruence|rewrite lookup_delete_ne by congruence];
        rewrite lookup_omap; reflexivity.
  Qed.
  Lemma absb_set_other k k' m (s : db) : k' <> k -> absb k' (set_bucket k m s) = absb k' s.
  Proof. intros H. unfold absb. rewrite get_set_other by exact H. reflexivity. Qed.
  Lemma absb_del_same k id m (s : db) :
    get_bucket k s = Some m -> absb k (set_bucket k (Some (delete id m)) s) = delete id (absb k s).
  Proof.
    intros H. unfold absb. rewrite get_set_same, H, !dflt_some.
    apply map_eq. intros i. rewrite lookup_omap.
    destruct (decide (i = id)) as [->|Hne].
    - rewrite !lookup_delete. reflexivity.
    - rewrite !lookup_delete_ne by congruence. rewrite lookup_omap. reflexivity.
  Qed.

  Lemma abs_sset_put k id b (s : db) :
    abs (put k id b s) =
    sset k (match decode k b with Some v => <[id := v]> (sget k (abs s)) | None => delete id (sget k (abs s)) end) (abs s).
  Proof.
    unfold abs. destruct k; cbn [sset sget s_data s_pwm];
      rewrite absb_put_same; unfold put; rewrite absb_set_other by discriminate; reflexivity.
  Qed.
  Lemma abs_sset_del k id m (s : db) :
    get_bucket k s = Some m ->
    abs (set_bucket k (Some (delete id m)) s) = sset k (delete id (sget k (abs s))) (abs s).
  Proof.
    intros H. unfold abs. destruct k; cbn [sset sget s_data s_pwm];
      rewrite (absb_del_same _ _ _ _ H); rewrite absb_set_other by discriminate; reflexivity.
  Qed.
  Lemma sset_sget_id k (s : sdb) : sset k (sget k s) s = s.
  Proof. destruct s, k; reflexivity. Qed.

  Lemma absb_lookup k (s : db) m id :
    get_bucket k s = Some m -> absb k s !! id = m !! id ≫= decode k.
  Proof. intros H. unfold absb. rewrite H, dflt_some. apply lookup_omap. Qed.
  Lemma absb_nobucket k (s : db) : get_bucket k s = None -> absb k s = ∅.
  Proof. intros H. unfold absb. rewrite H, dflt_none. apply omap_empty. Qed.
  Lemma sget_abs k (s : db) : sget k (abs s) = absb k s.
  Proof. destruct k; reflexivity. Qed.

  (* ---- one step simulates ---- *)
  Lemma bstep_refines (s : db) (o : bop) :
    abs (fst (bstep s o)) = fst (sbstep (abs s) o) /\ snd (bstep s o) = snd (sbstep (abs s) o).
  Proof.
    destruct o as [k id v|k id|k id| |k id b]; cbn [bstep sbstep].
    - (* Save *)
      destruct (encode k v) as [b|] eqn:E.
      + assert (Hen : encodable k v = true) by (apply enc_able; eauto).
        rewrite Hen. cbn [fst snd]. split; [|reflexivity].
        rewrite abs_sset_put, (enc_dec _ _ _ E). reflexivity.
      + assert (Hen : encodable k v = false).
        { destruct (encodable k v) eqn:E2; [|reflexivity]. apply enc_able in E2. destruct E2 as [b E2]. congruence. }
        rewrite Hen. split; reflexivity.
    - (* Load *)
      cbn [fst snd]. rewrite sget_abs.
      destruct (get_bucket k s) as [m|] eqn:Hb.
      + rewrite (absb_lookup _ _ _ _ Hb).
        destruct (m !! id) as [b|] eqn:Hm; cbn; [|split; reflexivity].
        destruct (decode k b) as [v|] eqn:Hd; cbn; [split; reflexivity|].
        split; [|reflexivity].
        rewrite (abs_sset_del _ _ _ _ Hb), sget_abs.
        rewrite delete_notin; [rewrite <- sget_abs; apply sset_sget_id|].
        rewrite (absb_lookup _ _ _ _ Hb), Hm. cbn. exact Hd.
      + rewrite (absb_nobucket _ _ Hb), lookup_empty. split; reflexivity.
    - (* Delete *)
      destruct (get_bucket k s) as [m|] eqn:Hb.
      + destruct (m !! id) as [b|] eqn:Hm; cbn [fst snd]; (split; [|reflexivity]).
        * apply (abs_sset_del _ _ _ _ Hb).
        * rewrite sget_abs, delete_notin; [symmetry; rewrite <- sget_abs; apply sset_sget_id|].
          rewrite (absb_lookup _ _ _ _ Hb), Hm. reflexivity.
      + cbn [fst snd]. split; [|reflexivity].
        rewrite sget_abs, (absb_nobucket _ _ Hb), delete_empty.
        rewrite <- (absb_nobucket _ _ Hb), <- sget_abs. symmetry. apply sset_sget_id.
    - split; reflexivity.
    - cbn [fst snd]. split; [|reflexivity]. apply abs_sset_put.
  Qed.

  Lemma step_refines (s : db) (o : op) :
    abs (fst (step s o)) = fst (sstep (abs s) o) /\ snd (step s o) = snd (sstep (abs s) o).
  Proof.
    destruct o as [o|o c]; cbn [step sstep].
    - apply bstep_refines.
    - cbn [fst snd]. split; [|reflexivity]. destruct c; [apply bstep_refines|reflexivity].
  Qed.

  (* ---- refinement for every operation sequence, from every state ---- *)
  Theorem run_refines : forall (ops : list op) (s : db),
    abs (fst (run s ops)) = fst (srun (abs s) ops) /\ snd (run s ops) = snd (srun (abs s) ops).
  Proof.
    induction ops as [|o r IH]; intros s; [split; reflexivity|].
    cbn [Persist.run Persist.srun].
    destruct (step_refines s o) as [H1 H2].
    destruct (step s o) as [s1 x] eqn:E1. destruct (sstep (abs s) o) as [t1 y] eqn:E2.
    cbn [fst snd] in H1, H2. subst y t1.
    specialize (IH s1). destruct (run s1 r) as [s2 xs]. destruct (srun (abs s1) r) as [t2 ys].
    cbn [fst snd] in *. destruct IH as [-> ->]. split; reflexivity.
  Qed.

  Lemma abs_init : abs (db_init : db) = s_init.
  Proof. unfold abs. rewrite !absb_nobucket by (unfold get_bucket; rewrite bkt_id; reflexivity). reflexivity. Qed.

  Theorem C14_refines_lemma : forall ops : list op,
    abs (fst (run db_init ops)) = fst (srun s_init ops) /\ snd (run db_init ops) = snd (srun s_init ops).
  Proof. intros ops. rewrite <- abs_init. apply run_refines. Qed.

  (* ---- the abstract spec in history form ---- *)
  Definition slook (s : sdb) (k : kind) (id : Z) : option value := sget k s !! id.

  Lemma look_abs (s : db) k id : look s k id = slook (abs s) k id.
  Proof. unfold Persist.look, slook. rewrite sget_abs. reflexivity. Qed.

  Lemma same_true k k' id id' : same k k' id id' = true <-> k = k' /\ id = id'.
  Proof. unfold same. rewrite andb_true_iff, !bool_decide_eq_true. reflexivity. Qed.

  Lemma slook_sset k k' id (m : gmap Z value) (s : sdb) :
    slook (sset k' m s) k id = if decide (k = k') then m !! id else slook s k id.
  Proof. unfold slook. destruct k, k', s; reflexivity. Qed.

  Lemma sbstep_effect (s : sdb) (o : bop) k id :
    slook (fst (sbstep s o)) k id = match beffect o k id with Some e => e | None => slook s k id end.
  Proof.
    destruct o as [k' id' v|k' id'|k' id'| |k' id' b]; cbn [sbstep beffect fst]; try reflexivity.
    - destruct (encodable k' v); cbn [fst]; [|rewrite andb_false_r; reflexivity].
      rewrite andb_true_r, slook_sset.
      destruct (same k k' id id') eqn:E.
      + apply same_true in E. destruct E as [-> ->]. rewrite decide_True by reflexivity. apply lookup_insert.
      + destruct (decide (k = k')) as [->|]; [|reflexivity].
        rewrite lookup_insert_ne; [reflexivity|]. intros ->.
        assert (same k' k' id id = true) by (apply same_true; auto). congruence.
    - rewrite slook_sset. destruct (same k k' id id') eqn:E.
      + apply same_true in E. destruct E as [-> ->]. rewrite decide_True by reflexivity. apply lookup_delete.
      + destruct (decide (k = k')) as [->|]; [|reflexivity].
        rewrite lookup_delete_ne; [reflexivity|]. intros ->.
        assert (same k' k' id id = true) by (apply same_true; auto). congruence.
    - rewrite slook_sset. destruct (same k k' id id') eqn:E.
      + apply same_true in E. destruct E as [-> ->]. rewrite decide_True by reflexivity.
        destruct (decode k' b); [apply lookup_insert|apply lookup_delete].
      + destruct (decide (k = k')) as [->|]; [|reflexivity].
        assert (id' <> id).
        { intros ->. assert (same k' k' id id = true) by (apply same_true; auto). congruence. }
        destruct (decode k' b); [rewrite lookup_insert_ne by assumption|rewrite lookup_delete_ne by assumption]; reflexivity.
  Qed.

  Lemma sstep_effect (s : sdb) (o : op) k id :
    slook (fst (sstep s o)) k id = match effect o k id with Some e => e | None => slook s k id end.
  Proof.
    destruct o as [o|o c]; cbn [sstep effect fst]; [apply sbstep_effect|].
    destruct c; [apply sbstep_effect|reflexivity].
  Qed.

  Lemma sstep_out (s : sdb) (o : op) (h : list op) :
    (forall k id, slook s k id = expected h k id) -> snd (sstep s o) = expected_out h o.
  Proof.
    intros H. destruct o as [[k id v|k id|k id| |k id b]|o c]; cbn [sstep sbstep expected_out snd]; try reflexivity.
    - destruct (encodable k v); reflexivity.
    - rewrite <- H. reflexivity.
  Qed.

  Lemma srun_history : forall (ops : list op) (s : sdb) (h : list op),
    (forall k id, slook s k id = expected h k id) ->
    (forall k id, slook (fst (srun s ops)) k id = expected (rev ops ++ h) k id)
    /\ snd (srun s ops) = expected_trace h ops.
  Proof.
    induction ops as [|o r IH]; intros s h H; [split; [exact H|reflexivity]|].
    cbn [Persist.srun Persist.expected_trace rev].
    pose proof (sstep_out s o h H) as Ho.
    assert (H1 : forall k id, slook (fst (sstep s o)) k id = expected (o :: h) k id).
    { intros k id. rewrite sstep_effect. cbn [Persist.expected]. destruct (effect o k id); [reflexivity|apply H]. }
    destruct (sstep s o) as [s1 x]. cbn [fst snd] in *. subst x.
    destruct (IH s1 (o :: h) H1) as [IH1 IH2].
    destruct (srun s1 r) as [s2 xs]. cbn [fst snd] in *. split.
    - intros k id. rewrite IH1, <- app_assoc. reflexivity.
    - rewrite IH2. reflexivity.
  Qed.

  (* ---- main history theorem on the concrete model ---- *)
  Theorem run_history : forall ops : list op,
    (forall k id, look (fst (run db_init ops)) k id = expected (rev ops) k id)
    /\ snd (run db_init ops) = expected_trace [] ops.
  Proof.
    intros ops. destruct (C14_refines_lemma ops) as [Ha Ho].
    destruct (srun_history ops s_init []) as [H1 H2].
    { intros k id. unfold slook. destruct k; cbn; apply lookup_empty. }
    split.
    - intros k id. rewrite look_abs, Ha, H1, app_nil_r. reflexivity.
    - rewrite Ho. exact H2.
  Qed.

  (* the same from the state reached by any earlier history h *)
  Theorem run_history_from : forall h ops : list op,
    snd (run (fst (run db_init h)) ops) = expected_trace (rev h) ops.
  Proof.
    intros h ops.
    destruct (run_refines ops (fst (run db_init h))) as [_ ->].
    destruct (C14_refines_lemma h) as [-> _].
    destruct (srun_history h s_init []) as [H1 _].
    { intros k id. unfold slook. destruct k; cbn; apply lookup_empty. }
    rewrite app_nil_r in H1.
    destruct (srun_history ops (fst (srun s_init h)) (rev h) H1) as [_ H2]. exact H2.
  Qed.

  (* ---- corollaries, all in terms of [look] / the output of Load ---- *)
  Lemma load_is_look (s : db) k id :
    snd (step s (Do (Load k id))) = load_out (look s k id)
    /\ forall k' id', look (fst (step s (Do (Load k id)))) k' id' = look s k' id'.
  Proof.
    destruct (step_refines s (Do (Load k id))) as [H1 H2]. split.
    - rewrite H2. cbn. rewrite look_abs. reflexivity.
    - intros k' id'. rewrite !look_abs, H1. reflexivity.
  Qed.

  Lemma step_effect (s : db) (o : op) k id :
    look (fst (step s o)) k id = match effect o k id with Some e => e | None => look s k id end.
  Proof. destruct (step_refines s o) as [H1 _]. rewrite !look_abs, H1. apply sstep_effect. Qed.

  (* an operation that does not name (k, id) as its target leaves it alone *)
  Definition btarget (o : bop) : option (kind * Z) :=
    match o with
    | Save k id _ | Delete k id | Corrupt k id _ => Some (k, id)
    | Load _ _ | Reopen => None     (* a Load only ever removes an entry that already reads as absent *)
    end.
  Definition target (o : op) : option (kind * Z) :=
    match o with Do o | CrashDuring o _ => btarget o end.

  Lemma effect_not_target (o : op) k id : target o <> Some (k, id) -> effect o k id = None.
  Proof.
    assert (B : forall o, btarget o <> Some (k, id) -> beffect o k id = None).
    { intros [k' id' v|k' id'|k' id'| |k' id' b] H; cbn in *; try reflexivity;
        (destruct (same k k' id id') eqn:E; [apply same_true in E; destruct E; subst; congruence|reflexivity]). }
    destruct o as [o|o c]; cbn; [apply B|]. intros H. destruct c; [apply B; exact H|reflexivity].
  Qed.

  (* frame: saving / overwriting / deleting / corrupting / crashing on one entry never
     changes what any other (kind, fan) loads *)
  Theorem frame (s : db) (o : op) k id :
    target o <> Some (k, id) -> look (fst (step s o)) k id = look s k id.
  Proof. intros H. rewrite step_effect, (effect_not_target _ _ _ H). reflexivity. Qed.

  Lemma frame_run : forall (ops : list op) (s : db) k id,
    Forall (fun o => target o <> Some (k, id)) ops -> look (fst (run s ops)) k id = look s k id.
  Proof.
    induction ops as [|o r IH]; intros s k id H; [reflexivity|].
    inversion H as [|? ? Ho Hr]; subst. cbn [Persist.run].
    pose proof (frame s o k id Ho) as F.
    destruct (step s o) as [s1 x]. specialize (IH s1 k id Hr).
    destruct (run s1 r) as [s2 xs]. cbn [fst] in *. congruence.
  Qed.

  (* round trip: after a successful save, through any later operations that do not
     target this entry (loads, reopen, anything on other fans or the other kind,
     crashes during those), a load returns exactly the saved value *)
  Theorem round_trip (s : db) k id v (ops : list op) :
    encodable k v = true ->
    Forall (fun o => target o <> Some (k, id)) ops ->
    let s1 := fst (step s (Do (Save k id v))) in
    snd (step s (Do (Save k id v))) = OSaved /\
    snd (step (fst (run s1 ops)) (Do (Load k id))) = OFound v.
  Proof.
    intros He Hf s1. split.
    - destruct (step_refines s (Do (Save k id v))) as [_ H2]. rewrite H2. cbn. rewrite He. reflexivity.
    - destruct (load_is_look (fst (run s1 ops)) k id) as [-> _].
      rewrite (frame_run ops s1 k id Hf). unfold s1. rewrite step_effect. cbn.
      assert (E : same k k id id = true) by (apply same_true; auto). rewrite E, He. reflexivity.
  Qed.

  (* a save that json.Marshal rejects changes nothing *)
  Theorem save_rejected (s : db) k id v :
    encodable k v = false -> step s (Do (Save k id v)) = (s, OSaveErr).
  Proof.
    intros He. cbn. destruct (encode k v) as [b|] eqn:E; [|reflexivity].
    assert (encodable k v = true) by (apply enc_able; eauto). congruence.
  Qed.

  Theorem load_missing (s : db) k id : look s k id = None -> snd (step s (Do (Load k id))) = ONotFound.
  Proof. intros H. destruct (load_is_look s k id) as [-> _]. rewrite H. reflexivity. Qed.

  Theorem load_fresh k id : snd (step db_init (Do (Load k id))) = ONotFound.
  Proof. destruct k; reflexivity. Qed.

  Theorem load_total (s : db) k id :
    snd (step s (Do (Load k id))) = ONotFound \/ exists v, snd (step s (Do (Load k id))) = OFound v.
  Proof. destruct (load_is_look s k id) as [-> _]. destruct (look s k id); cbn; eauto. Qed.

  Theorem delete_effect (s : db) k id :
    snd (step s (Do (Delete k id))) = ODeleted /\ look (fst (step s (Do (Delete k id)))) k id = None.
  Proof.
    split.
    - destruct (step_refines s (Do (Delete k id))) as [_ ->]. reflexivity.
    - rewrite step_effect. cbn. assert (E : same k k id id = true) by (apply same_true; auto). rewrite E. reflexivity.
  Qed.

  (* deleting twice = deleting once, on the concrete state *)
  Theorem delete_idempotent (s : db) k id :
    let s1 := fst (step s (Do (Delete k id))) in step s1 (Do (Delete k id)) = (s1, ODeleted).
  Proof.
    cbn. destruct (get_bucket k s) as [m|] eqn:Hb; cbn [fst].
    - destruct (m !! id) as [b|] eqn:Hm; cbn [fst].
      + rewrite get_set_same, lookup_delete. reflexivity.
      + rewrite Hb, Hm. reflexivity.
    - rewrite Hb. reflexivity.
  Qed.

  (* an undecodable entry: the load that meets it reports "not found" and removes the
     bytes; every other entry is untouched; the next load finds nothing *)
  Theorem corrupt_discarded (s : db) k id b :
    decode k b = None ->
    let s1 := fst (step s (Do (Corrupt k id b))) in
    let s2 := fst (step s1 (Do (Load k id))) in
    snd (step s1 (Do (Load k id))) = ONotFound
    /\ (exists m, get_bucket k s2 = Some m /\ m !! id = None)
    /\ snd (step s2 (Do (Load k id))) = ONotFound
    /\ forall k' id', (k', id') <> (k, id) -> look s2 k' id' = look s k' id'.
  Proof.
    intros Hd s1 s2.
    assert (L1 : look s1 k id = None).
    { unfold s1. rewrite step_effect. cbn. assert (E : same k k id id = true) by (apply same_true; auto).
      rewrite E. exact Hd. }
    assert (L2 : forall k' id', look s2 k' id' = look s1 k' id') by apply load_is_look.
    repeat split.
    - apply load_missing, L1.
    - unfold s2, s1. cbn. unfold put. rewrite get_set_same, lookup_insert, Hd. cbn [fst].
      rewrite get_set_same. eexists. split; [reflexivity|apply lookup_delete].
    - apply load_missing. rewrite L2. exact L1.
    - intros k' id' Hne. rewrite L2. unfold s1. apply frame. cbn. congruence.
  Qed.

  (* kill during a save: every other entry unchanged, the target old or new *)
  Theorem crash_during_save (s : db) k id v c :
    let s1 := fst (step s (CrashDuring (Save k id v) c)) in
    (forall k' id', (k', id') <> (k, id) -> look s1 k' id' = look s k' id')
    /\ (look s1 k id = look s k id \/ (encodable k v = true /\ look s1 k id = Some v)).
  Proof.
    intros s1. split.
    - intros k' id' Hne. apply frame. cbn. congruence.
    - unfold s1. rewrite step_effect. cbn. destruct c; [|left; reflexivity].
      assert (E : same k k id id = true) by (apply same_true; auto). rewrite E. cbn.
      destruct (encodable k v); [right; auto|left; reflexivity].
  Qed.

  (* kill during anything: the state is the one before or the one after, nothing else *)
  Theorem crash_atomic (s : db) (o : bop) c :
    fst (step s (CrashDuring o c)) = s \/ fst (step s (CrashDuring o c)) = fst (step s (Do o)).
  Proof. destruct c; cbn; auto. Qed.
End PersistProofs.
