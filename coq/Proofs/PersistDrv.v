(* C14: the driver's observer and the theorems.  The concrete codec of
   Drv/Persist.v meets the oracle hypotheses, so on every case the model's own
   outputs satisfy the observer: a case with holdsb = false is a disagreement
   between the implementation and C14_history. *)
From stdpp Require Import gmap.
From F2G Require Import Model.Persist Proofs.Persist Drv.Persist.

Lemma model_obs_expected h ops : model_obs h ops = x_trace (rev h) ops.
Proof.
  unfold model_obs, model_final, m_run, x_trace.
  exact (run_history_from c_encode c_decode c_encodable c_enc_dec c_enc_able h ops).
Qed.

(* the model never fails its own observer *)
Lemma model_holds pre infl ops raw :
  holdsb (mkCase pre infl ops (model_obs (hd [] (hists (mkCase pre infl ops [] raw))) ops) raw) = true.
Proof.
  apply holdsb_spec. unfold Holds. cbn [c_ops c_obs].
  exists (hd [] (hists (mkCase pre infl ops [] raw))). split.
  - unfold hists. cbn [c_inflight c_pre]. destruct infl; cbn; auto.
  - rewrite model_obs_expected. unfold hists. cbn [c_inflight c_pre]. destruct infl; reflexivity.
Qed.

(* when the outputs agree with the model for some allowed history, the property holds *)
Lemma agree_holds c : mismatch c = false -> holdsb c = true.
Proof.
  unfold mismatch, holdsb. intros H. apply Bool.negb_false_iff in H.
  apply existsb_exists in H. destruct H as [h [Hin H]]. apply andb_true_iff in H. destruct H as [H _].
  apply existsb_exists. exists h. split; [exact Hin|].
  change (snd (model_final h (c_ops c))) with (model_obs h (c_ops c)) in H.
  rewrite model_obs_expected in H. exact H.
Qed.
