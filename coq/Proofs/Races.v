(* C20 - proofs about the race classifier of Model/Races.v, for an ARBITRARY access table.
   Nothing in this file depends on the generated table, so it (and Drv/Race.v, which needs only these
   lemmas) keeps compiling when a source change makes the verdict lemmas of Proofs/RacesTable.v fail. *)
From Coq Require Import ZArith List String Bool Lia.
From F2G Require Import Model.Races.
Import ListNotations.
Open Scope string_scope.

(* ---- the boolean classifier is the Prop ---- *)
Lemma disjointb_spec : forall l1 l2,
  disjointb l1 l2 = true <-> (forall l, In l l1 -> ~ In l l2).
Proof.
  intros l1 l2. unfold disjointb. rewrite forallb_forall. split.
  - intros H l Hl1 Hl2. specialize (H l Hl1). rewrite negb_true_iff in H.
    assert (existsb (String.eqb l) l2 = true) as E.
    { apply existsb_exists. exists l. split; [assumption | apply String.eqb_refl]. }
    rewrite E in H. discriminate H.
  - intros H l Hl1. rewrite negb_true_iff. destruct (existsb (String.eqb l) l2) eqn:E; [|reflexivity].
    apply existsb_exists in E. destruct E as [x [Hx Hxe]]. apply String.eqb_eq in Hxe. subst x.
    exfalso. exact (H l Hl1 Hx).
Qed.

Lemma raceb_spec : forall a b, raceb a b = true <-> race a b.
Proof.
  intros a b. unfold raceb, race.
  rewrite !andb_true_iff, String.eqb_eq, disjointb_spec, negb_true_iff. tauto.
Qed.

(* race is symmetric as far as the pair of accesses is concerned (given the cells agree, the class is the
   class of the common cell; classes are a function of the cell name in the generated table) *)
Lemma conflict_sym : forall m1 m2, conflict m1 m2 = conflict m2 m1.
Proof. destruct m1, m2; reflexivity. Qed.

Lemma kind_eqb_sym : forall a b, kind_eqb a b = kind_eqb b a.
Proof. intros. unfold kind_eqb. apply Z.eqb_sym. Qed.

Lemma race_sym : forall a b, a_class a = a_class b -> race a b -> race b a.
Proof.
  intros a b Hc [Hl [Hm [Hs [Hd Ho]]]]. unfold race. rewrite <- Hc. repeat split.
  - symmetry; assumption.
  - rewrite conflict_sym; assumption.
  - unfold may_share in *. rewrite kind_eqb_sym. destruct (kind_eqb (a_kind a) (a_kind b)) eqn:E.
    + apply kind_eqb_eq in E. rewrite <- E. assumption.
    + reflexivity.
  - intros l Hb Ha. exact (Hd l Ha Hb).
  - unfold ordered_by_start in *. rewrite orb_comm. assumption.
Qed.

(* ---- C20_classifier_sound_complete ---- *)
Theorem classifier_sound_complete : forall t a b,
  In (a, b) (racy t) <-> In a t /\ In b t /\ race a b.
Proof.
  intros t a b. unfold racy. rewrite filter_In, in_prod_iff. simpl. rewrite raceb_spec. tauto.
Qed.

(* ---- grouping ---- *)
Lemma group_eqb_eq : forall g h, group_eqb g h = true <-> g = h.
Proof.
  intros [[l1 a1] b1] [[l2 a2] b2]. simpl.
  rewrite !andb_true_iff, String.eqb_eq, !kind_eqb_eq. split.
  - intros [[-> ->] ->]. reflexivity.
  - intros H. inversion H. auto.
Qed.

Lemma listedb_spec : forall fs g, listedb fs g = true <-> exists n, In (g, n) fs.
Proof.
  intros fs g. unfold listedb. rewrite existsb_exists. split.
  - intros [[g' n] [Hin He]]. simpl in He. apply group_eqb_eq in He. subst g'. exists n. assumption.
  - intros [n Hin]. exists (g, n). split; [assumption|]. simpl. apply group_eqb_eq. reflexivity.
Qed.

Lemma finding_of_listed : forall fs g, listedb fs g = true -> exists n, finding_of fs g = n /\ In (g, n) fs.
Proof.
  intros fs g H. unfold finding_of. unfold listedb in H.
  destruct (find (fun f => group_eqb (fst f) g) fs) as [[g' n]|] eqn:E.
  - apply find_some in E. destruct E as [Hin He]. simpl in He. apply group_eqb_eq in He. subst g'.
    exists n. split; [reflexivity | assumption].
  - apply existsb_exists in H. destruct H as [x [Hin Hx]]. pose proof (find_none _ _ E x Hin) as N.
    simpl in N. rewrite Hx in N. discriminate N.
Qed.

Lemma racy_groups_spec : forall t g,
  In g (racy_groups t) <-> exists a b, In a t /\ In b t /\ race a b /\ group_of a b = g.
Proof.
  intros t g. unfold racy_groups. rewrite in_map_iff. split.
  - intros [[a b] [Hg Hin]]. simpl in Hg. apply classifier_sound_complete in Hin.
    exists a, b. tauto.
  - intros [a [b [Ha [Hb [Hr Hg]]]]]. exists (a, b). split; [assumption|].
    apply classifier_sound_complete. tauto.
Qed.

(* ---- generic lemmas (stated for an arbitrary table so that no proof step ever unfolds the generated one) ---- *)
Definition all_listed (fs : list finding) (t : list access) : bool :=
  forallb (fun p => listedb fs (group_of (fst p) (snd p))) (racy t).

Lemma all_listed_spec : forall fs t, all_listed fs t = true ->
  forall a b, In a t -> In b t -> race a b -> exists n, In (group_of a b, n) fs.
Proof.
  intros fs t H a b Ha Hb Hr.
  assert (In (a, b) (racy t)) as Hin by (apply classifier_sound_complete; tauto).
  unfold all_listed in H. rewrite forallb_forall in H. specialize (H (a, b) Hin).
  apply listedb_spec. exact H.
Qed.

Lemma race_free_iff_generic : forall t,
  (forall a b, In a t -> In b t -> ~ race a b) <-> racy t = [].
Proof.
  intros t. split.
  - intros H. destruct (racy t) as [|[a b] r] eqn:E; [reflexivity|].
    assert (In (a, b) (racy t)) as Hin by (rewrite E; left; reflexivity).
    apply (classifier_sound_complete t a b) in Hin. destruct Hin as [Ha [Hb Hr]]. exfalso. exact (H a b Ha Hb Hr).
  - intros E a b Ha Hb Hr.
    assert (In (a, b) (racy t)) as Hin by (apply classifier_sound_complete; tauto).
    rewrite E in Hin. exact Hin.
Qed.

Definition nonemptyb {A} (l : list A) : bool := match l with [] => false | _ => true end.

Lemma refuted_generic : forall t, nonemptyb (racy t) = true ->
  ~ (forall a b, In a t -> In b t -> ~ race a b).
Proof.
  intros t N H. apply race_free_iff_generic in H. rewrite H in N. discriminate N.
Qed.

(* classes are a function of the cell name (used for symmetry of `race`) *)
Definition class_code (c : oclass) : Z :=
  match c with OFan => 1 | OController => 2 | OControlLoop => 3 | OCurve => 4 | OSensor => 5
             | OPid => 6 | OConfig => 7 | OGlobal => 8 | OOther => 9 end%Z.

Lemma class_code_inj : forall a b, class_code a = class_code b -> a = b.
Proof. destruct a, b; simpl; intros H; try reflexivity; discriminate H. Qed.

Definition classes_functional (t : list access) : bool :=
  forallb (fun a => forallb (fun b => negb (String.eqb (a_loc a) (a_loc b))
                                      || Z.eqb (class_code (a_class a)) (class_code (a_class b))) t) t.

Lemma race_symmetric_generic : forall t, classes_functional t = true ->
  forall a b, In a t -> In b t -> race a b -> race b a.
Proof.
  intros t H a b Ha Hb Hr. apply race_sym; [|assumption].
  unfold classes_functional in H.
  rewrite forallb_forall in H. specialize (H a Ha). rewrite forallb_forall in H. specialize (H b Hb).
  destruct Hr as [Hl _]. apply orb_true_iff in H. destruct H as [H|H].
  - rewrite negb_true_iff in H. apply String.eqb_neq in H. contradiction.
  - apply Z.eqb_eq in H. apply class_code_inj. assumption.
Qed.

(* ---- non-vacuity: the classifier separates a guarded from an unguarded access on a two-entry table ---- *)
Example lock_protects :
  racy [mkAccess KSensorMon "sensors.HwmonSensor.MovingAvg" OSensor MW ["sensors.HwmonSensor.mu"] 1 1;
        mkAccess KControl "sensors.HwmonSensor.MovingAvg" OSensor MR ["sensors.HwmonSensor.mu"] 1 2] = [].
Proof. vm_compute. reflexivity. Qed.

Example removed_lock_races :
  List.length (racy [mkAccess KSensorMon "sensors.HwmonSensor.MovingAvg" OSensor MW [] 1 1;
                     mkAccess KControl "sensors.HwmonSensor.MovingAvg" OSensor MR ["sensors.HwmonSensor.mu"] 1 2]) = 2%nat.
Proof. vm_compute. reflexivity. Qed.

Example prelude_ordered_on_fan_cells_only :
  racy [mkAccess KPrelude "fans.HwMonFan.MinPwm" OFan MW [] 1 1; mkAccess KControl "fans.HwMonFan.MinPwm" OFan MR [] 1 2] = []
  /\ List.length (racy [mkAccess KPrelude "curves.LinearSpeedCurve.Value" OCurve MW [] 1 1;
                        mkAccess KControl "curves.LinearSpeedCurve.Value" OCurve MR [] 1 2]) = 3%nat.
Proof. vm_compute. split; reflexivity. Qed.
