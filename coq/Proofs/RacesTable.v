(* C20 - the verdict of the verified classifier on the table regenerated from the Go source
   (gen/Accesses.v) against the recorded findings (Model/RaceFindings.v).  Every lemma here is an
   exhaustive evaluation over the finite generated table (bound = the table) lifted by the generic
   lemmas of Proofs/Races.v.  A source change that removes a lock or adds an unguarded shared access
   changes gen/Accesses.v and makes all_racy_listed_true fail. *)
From Coq Require Import ZArith List String Bool.
From F2G Require Import Model.Races Model.RaceFindings gen.Accesses Proofs.Races.
Import ListNotations.
Open Scope string_scope.

(* ---- the verdict on the generated table (finite: bound = the table) ---- *)
Lemma all_racy_listed_true : all_listed findings table = true.
Proof. vm_compute. reflexivity. Qed.

Theorem race_free_modulo : forall a b,
  In a table -> In b table -> race a b -> exists n, In (group_of a b, n) findings.
Proof. exact (all_listed_spec findings table all_racy_listed_true). Qed.

Corollary race_free_outside_findings : forall a b,
  In a table -> In b table -> (forall n, ~ In (group_of a b, n) findings) -> ~ race a b.
Proof.
  intros a b Ha Hb Hn Hr. destruct (race_free_modulo a b Ha Hb Hr) as [n Hin]. exact (Hn n Hin).
Qed.

(* ---- the full statement, and its refutation on the tree as it stands (D21) ---- *)
Definition race_free_full : Prop := forall a b, In a table -> In b table -> ~ race a b.

Lemma race_free_full_iff : race_free_full <-> racy table = [].
Proof. exact (race_free_iff_generic table). Qed.

Lemma racy_nonempty_true : nonemptyb (racy table) = true.
Proof. vm_compute. reflexivity. Qed.

Theorem race_free_full_refuted : ~ race_free_full.
Proof. exact (refuted_generic table racy_nonempty_true). Qed.

Lemma classes_functional_true : classes_functional table = true.
Proof. vm_compute. reflexivity. Qed.

Theorem race_symmetric_on_table : forall a b, In a table -> In b table -> race a b -> race b a.
Proof. exact (race_symmetric_generic table classes_functional_true). Qed.

