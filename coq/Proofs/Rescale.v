(* Exhaustive facts about the controller's float rescale
      min + int(float64(t)/255 * (float64(max) - float64(min)))
   on the finite domain 0 <= t <= 255, 0 <= min <= max <= 255 (bound stated in every lemma).
   Method: (1) float64(max) - float64(min) = float64(max - min) for all 65 536 pairs, checked by
   computation with the Leibniz float equality test and lifted with the standard library's
   FloatAxioms.Leibniz.eqb_spec; (2) all 65 536 values of G t d = int(float64(t)/255 * float64(d))
   checked by computation. *)
From Coq Require Import ZArith Bool List Floats Lia.
From F2G Require Import Go.GoFloat gen.Consts Model.Util Model.Controller.
Import ListNotations.
Open Scope Z_scope.

Fixpoint upto (n : nat) (f : Z -> bool) : bool :=
  match n with O => true | S k => f (Z.of_nat k) && upto k f end.

Lemma upto_spec n f : upto n f = true -> forall z, 0 <= z < Z.of_nat n -> f z = true.
Proof.
  induction n as [|k IH]; intros H z Hz; [lia|].
  cbn [upto] in H. apply andb_true_iff in H. destruct H as [H1 H2].
  destruct (Z.eq_dec z (Z.of_nat k)) as [->|N]; [exact H1|]. apply IH; auto. lia.
Qed.

Definition G (t d : Z) : Z := f2i (PrimFloat.mul (PrimFloat.div (i2f t) (i2f RescaleDivisor)) (i2f d)).

(* (1) subtraction of small integers is exact *)
Definition sub_ok (lo hi : Z) : bool :=
  (hi <? lo) || PrimFloat.Leibniz.eqb (PrimFloat.sub (i2f hi) (i2f lo)) (i2f (hi - lo)).

Lemma sub_exact_chk_true : upto 256 (fun lo => upto 256 (fun hi => sub_ok lo hi)) = true.
Proof. vm_compute. reflexivity. Qed.

Lemma sub_ok_all lo hi : 0 <= lo <= 255 -> 0 <= hi <= 255 -> sub_ok lo hi = true.
Proof.
  intros Hl Hh. pose proof sub_exact_chk_true as C.
  pose proof (upto_spec _ _ C lo ltac:(lia)) as C1.
  exact (upto_spec _ _ C1 hi ltac:(lia)).
Qed.

Lemma sub_exact lo hi : 0 <= lo -> lo <= hi -> hi <= 255 ->
  PrimFloat.sub (i2f hi) (i2f lo) = i2f (hi - lo).
Proof.
  intros H0 H1 H2. pose proof (sub_ok_all lo hi ltac:(lia) ltac:(lia)) as C. unfold sub_ok in C.
  apply orb_true_iff in C. destruct C as [C|C].
  - apply Z.ltb_lt in C. lia.
  - now apply FloatAxioms.Leibniz.eqb_spec.
Qed.

Lemma rescale_c_G t lo hi : 0 <= lo -> lo <= hi -> hi <= 255 ->
  rescale_c t lo hi = lo + G t (hi - lo).
Proof. intros. unfold rescale_c, G. now rewrite sub_exact. Qed.

(* (2) the table of G *)
Definition G_okv (t d g g' : Z) : bool :=
  (0 <=? g) && (g <=? d)
  && ((negb (t =? 0)) || (g =? 0))
  && ((negb (t =? 255)) || (g =? d))
  && ((negb (t <? 255)) || ((g <=? g') && (g' <=? g + 1))).
Definition G_ok (t d : Z) : bool := G_okv t d (G t d) (G (t + 1) d).

Lemma G_chk_true : upto 256 (fun d => upto 256 (fun t => G_ok t d)) = true.
Proof. vm_compute. reflexivity. Qed.

Lemma G_ok_all t d : 0 <= t <= 255 -> 0 <= d <= 255 -> G_ok t d = true.
Proof.
  intros Ht Hd. pose proof G_chk_true as C.
  pose proof (upto_spec _ _ C d ltac:(lia)) as C1.
  exact (upto_spec _ _ C1 t ltac:(lia)).
Qed.

Lemma G_facts t d : 0 <= t <= 255 -> 0 <= d <= 255 ->
  0 <= G t d <= d /\ (t = 0 -> G t d = 0) /\ (t = 255 -> G t d = d)
  /\ (t < 255 -> G t d <= G (t + 1) d <= G t d + 1).
Proof.
  intros Ht Hd. pose proof (G_ok_all t d Ht Hd) as C. unfold G_ok in C.
  generalize dependent (G (t + 1) d). generalize dependent (G t d). intros g g' C. unfold G_okv in C.
  repeat (apply andb_true_iff in C; destruct C as [C ?]).
  repeat match goal with H : (_ || _) = true |- _ => apply orb_true_iff in H end.
  repeat match goal with H : (_ && _) = true |- _ => apply andb_true_iff in H; destruct H end.
  rewrite ?negb_true_iff, ?Z.eqb_neq, ?Z.eqb_eq, ?Z.leb_le, ?Z.ltb_ge in *.
  repeat match goal with H : _ \/ _ |- _ => rewrite ?negb_true_iff, ?Z.eqb_neq, ?Z.eqb_eq, ?Z.leb_le, ?Z.ltb_ge in H end.
  lia.
Qed.

Lemma G_mono d : 0 <= d <= 255 -> forall t t', 0 <= t -> t <= t' -> t' <= 255 -> G t d <= G t' d.
Proof.
  intros Hd t t' H0 Hle H255.
  replace t' with (t + Z.of_nat (Z.to_nat (t' - t))) by lia.
  assert (Hb : t + Z.of_nat (Z.to_nat (t' - t)) <= 255) by lia.
  revert Hb. generalize (Z.to_nat (t' - t)) as n. induction n as [|n IH]; intros Hb.
  - replace (t + Z.of_nat 0) with t by lia. lia.
  - replace (t + Z.of_nat (S n)) with (t + Z.of_nat n + 1) in * by lia.
    specialize (IH ltac:(lia)).
    pose proof (G_facts (t + Z.of_nat n) d ltac:(lia) Hd) as (_ & _ & _ & S). specialize (S ltac:(lia)). lia.
Qed.

(* ---- the facts the controller proofs use ---- *)
Theorem rescale_bounds t lo hi : 0 <= t <= 255 -> 0 <= lo -> lo <= hi -> hi <= 255 ->
  lo <= rescale_c t lo hi <= hi.
Proof.
  intros Ht H0 H1 H2. rewrite rescale_c_G by lia.
  pose proof (G_facts t (hi - lo) Ht ltac:(lia)) as (B & _). lia.
Qed.

Theorem rescale_ends lo hi : 0 <= lo -> lo <= hi -> hi <= 255 ->
  rescale_c 0 lo hi = lo /\ rescale_c 255 lo hi = hi.
Proof.
  intros H0 H1 H2. rewrite !rescale_c_G by lia.
  pose proof (G_facts 0 (hi - lo) ltac:(lia) ltac:(lia)) as (_ & A & _).
  pose proof (G_facts 255 (hi - lo) ltac:(lia) ltac:(lia)) as (_ & _ & B & _).
  rewrite A, B by reflexivity. lia.
Qed.

Theorem rescale_mono t t' lo hi : 0 <= t -> t <= t' -> t' <= 255 -> 0 <= lo -> lo <= hi -> hi <= 255 ->
  rescale_c t lo hi <= rescale_c t' lo hi.
Proof.
  intros. rewrite !rescale_c_G by lia. pose proof (G_mono (hi - lo) ltac:(lia) t t'). lia.
Qed.

Theorem rescale_step t lo hi : 0 <= t -> t < 255 -> 0 <= lo -> lo <= hi -> hi <= 255 ->
  rescale_c t lo hi <= rescale_c (t + 1) lo hi <= rescale_c t lo hi + 1.
Proof.
  intros. rewrite !rescale_c_G by lia.
  pose proof (G_facts t (hi - lo) ltac:(lia) ltac:(lia)) as (_ & _ & _ & S). specialize (S ltac:(lia)). lia.
Qed.

Lemma clamp_target_range t : 0 <= clamp_target t <= 255.
Proof.
  unfold clamp_target, ClampHiTest, ClampHiSet, ClampLoTest, ClampLoSet, MaxPwmValue, MinPwmValue.
  destruct (255 <? t) eqn:E1; [lia|]. destruct (t <? 0) eqn:E2; [lia|].
  apply Z.ltb_ge in E1. apply Z.ltb_ge in E2. lia.
Qed.

Lemma clamp_target_id t : 0 <= t <= 255 -> clamp_target t = t.
Proof.
  intros H. unfold clamp_target, ClampHiTest, ClampHiSet, ClampLoTest, ClampLoSet, MaxPwmValue, MinPwmValue.
  destruct (255 <? t) eqn:E1; [apply Z.ltb_lt in E1; lia|].
  destruct (t <? 0) eqn:E2; [apply Z.ltb_lt in E2; lia|]. reflexivity.
Qed.
