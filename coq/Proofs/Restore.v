(* C03, local part: restorePwmEnabled over every original state, every current
   device state, every backend and every combination of driver verdicts. *)
From Coq Require Import ZArith Bool List Lia.
From F2G Require Import gen.Consts Model.Restore.
Import ListNotations.
Open Scope Z_scope.

(* the constants the statement speaks about are the ones in the source *)
Lemma fallback_is_255 : RestoreFallbackPwm = 255.
Proof. reflexivity. Qed.
Lemma manual_is_1 : manual = 1.
Proof. reflexivity. Qed.

(* ---- the repaired SetPwmEnabled: no error  ->  the mode is the requested one,
        unless the write was ignored and the read-back was tolerated ---- *)
Lemma hw_set_mode_ok_sound mv rb d v d' ops :
  hw_set_mode repaired mv rb d v = (d', false, ops) ->
  ~ (mv = WIgnored /\ rb = RPerm) ->
  mode d' = v /\ pwm d' = pwm d.
Proof.
  unfold hw_set_mode, write_mode. intros H N.
  destruct mv, rb; cbn in H; inversion H; subst; cbn; auto;
    try (exfalso; apply N; auto; fail);
    try (match goal with H : negb (_ =? _) = false |- _ =>
           apply negb_false_iff in H; apply Z.eqb_eq in H; cbn in H; auto end).
Qed.

Lemma hw_set_mode_pwm D mv rb d v : pwm (fst (fst (hw_set_mode D mv rb d v))) = pwm d.
Proof.
  unfold hw_set_mode, write_mode.
  destruct mv, rb, (d3_readback_dead D); cbn; reflexivity.
Qed.

(* ---- C03_restore_local ---- *)
Theorem restore_local :
  forall (b : backend) (ex : bool) (orig d : dev) (p : rplan),
    ~ undetectable p ->
    let r := restore repaired b ex orig p d in
    safe (mode_supported b ex) orig (r_dev r) \/ last_resort_write_failed p r.
Proof.
  intros b ex orig d p N. cbv zeta.
  unfold restore, last_resort_write_failed, safe, undetectable in *.
  destruct p as [v1 mv rb v2]. cbn [p_v1 p_mv p_rb p_v2] in *.
  destruct (mode_supported b ex) eqn:S; cbn [andb].
  - destruct b; cbn in S; try discriminate.
    destruct (mode orig =? ControlModePWM) eqn:E; cbn [negb].
    + destruct v1, v2; cbn; try (left; right; reflexivity);
        right; split; auto; discriminate.
    + apply Z.eqb_neq in E.
      destruct (write_pwm v1 d (pwm orig)) as [d1 e1] eqn:W1.
      cbn [set_mode].
      destruct (hw_set_mode repaired mv rb d1 (mode orig)) as [[d2 err] ops2] eqn:H.
      destruct err.
      * destruct v2; cbn; try (left; right; reflexivity);
          right; split; auto; discriminate.
      * cbn. left. left. split; [reflexivity|]. split; [exact E|].
        eapply hw_set_mode_ok_sound in H; [tauto|exact N].
  - destruct (write_pwm v1 d (pwm orig)) as [d1 e1].
    destruct v2; cbn; try (left; right; reflexivity);
      right; split; auto; discriminate.
Qed.

(* the escape is about the LAST PWM write only: whenever that write is carried
   out, the fan ends safe, whatever happened to the mode write (refused, ignored) *)
Theorem restore_no_escape_for_mode_faults :
  forall b ex orig d p, ~ undetectable p -> p_v2 p = WOk ->
    safe (mode_supported b ex) orig (r_dev (restore repaired b ex orig p d)).
Proof.
  intros b ex orig d p N V.
  destruct (restore_local b ex orig d p N) as [H|[_ H]]; [exact H|congruence].
Qed.

(* the same, exhaustively over the verdicts, in executable form (used by the process proof and Drv) *)
Lemma restore_local_b b ex orig d p :
  undetectableb p = false ->
  let r := restore repaired b ex orig p d in
  safeb (mode_supported b ex) orig (r_dev r) || last_resort_write_failedb p r = true.
Proof.
  intros U. cbv zeta. apply orb_true_iff.
  destruct (restore_local b ex orig d p) as [H|H].
  - intro X. apply undetectableb_spec in X. congruence.
  - left. now apply safeb_spec.
  - right. now apply last_resort_write_failedb_spec.
Qed.

(* ---- the full statement (no hypothesis on the read-back) is false: keep it visible ---- *)
Definition restore_local_full : Prop :=
  forall b ex orig d p,
    let r := restore repaired b ex orig p d in
    safe (mode_supported b ex) orig (r_dev r) \/ last_resort_write_failed p r.

Theorem restore_local_full_refuted : ~ restore_local_full.
Proof.
  intros H.
  specialize (H BHwmon true (mkDev 2 90) (mkDev 1 60) (mkPlan WOk WIgnored RPerm WOk)).
  cbv in H. destruct H as [[[_ [_ H]]|H]|[H _]]; discriminate.
Qed.

(* ---- D3 as found: an ignored mode write is believed even with a working read-back ---- *)

Theorem restore_d3_refuted :
  exists orig d p, ~ undetectable p /\ p_rb p = ROk /\
    let r := restore d3_only BHwmon true orig p d in
    ~ (safe true orig (r_dev r) \/ last_resort_write_failed p r).
Proof.
  exists (mkDev 2 90), (mkDev 1 60), (mkPlan WOk WIgnored ROk WOk).
  split; [intros [_ H]; discriminate|]. split; [reflexivity|].
  cbv. intros [[[_ [_ H]]|H]|[H _]]; discriminate.
Qed.

(* ---- start-up capture is faithful when its two reads succeed ---- *)
Lemma capture_faithful min_pwm d : capture true min_pwm ROk ROk d = d.
Proof. destruct d; reflexivity. Qed.

(* ---- trySetManualPwm (repaired SetPwmEnabled): no error -> manual or disabled, PWM untouched ---- *)
Lemma try_manual_pwm D b ex mv1 rb1 mv2 rb2 d :
  pwm (fst (fst (try_manual D b ex mv1 rb1 mv2 rb2 d))) = pwm d.
Proof.
  unfold try_manual. destruct (mode_supported b ex); cbn [negb]; [|reflexivity].
  destruct b; cbn [set_mode]; try reflexivity.
  pose proof (hw_set_mode_pwm D mv1 rb1 d ControlModePWM) as P1.
  destruct (hw_set_mode D mv1 rb1 d ControlModePWM) as [[d1 e1] o1]. cbn in P1.
  destruct e1; [|exact P1].
  pose proof (hw_set_mode_pwm D mv2 rb2 d1 ControlModeDisabled) as P2.
  destruct (hw_set_mode D mv2 rb2 d1 ControlModeDisabled) as [[d2 e2] o2]. cbn in *. congruence.
Qed.

(* non-vacuity: a plan with a refused mode write and a working last resort ends at 255 *)
Example restore_example :
  let r := restore repaired BHwmon true (mkDev 2 90) (mkPlan WIgnored WRefused ROk WOk) (mkDev 1 60) in
  r_dev r = mkDev 1 255 /\ r_last_resort r = true /\ ~ undetectable (mkPlan WIgnored WRefused ROk WOk).
Proof. cbv. repeat split. intros [H _]; discriminate. Qed.
