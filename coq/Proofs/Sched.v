(* Lemmas behind Props/C16.v: mutual exclusion of analysis phases for every
   number of threads and every schedule (invariant: a thread inside an analysis
   phase holds the lock; at most one thread holds it), and the fact that the
   start-up programs derived from Model/Startup.v are well locked when
   runFanInitializationInParallel = false. *)
From Coq Require Import ZArith Bool List Lia.
From F2G Require Import Go.GoFloat gen.Consts Model.Util Model.Fan Model.Startup Model.Sched.
Import ListNotations.
Open Scope nat_scope.

Definition b2n (b : bool) : nat := if b then 1 else 0.

(* per-thread invariant: the rest of the program is well locked from the thread's current flags *)
Definition twl (t : thread) : Prop := wlb (t_holds t) (t_in t) (t_prog t) = true.

Lemma wlb_in_holds h i p : wlb h i p = true -> i = true -> h = true.
Proof. destruct p as [|[]]; cbn; destruct i, h; cbn; intros; congruence. Qed.

Lemma step_thread_inv lock t t' l' :
  twl t -> (t_holds t = true -> lock = true) -> step_thread lock t = (t', l') ->
  twl t' /\ b2n (t_holds t') + b2n lock = b2n (t_holds t) + b2n l'.
Proof.
  unfold twl, step_thread. destruct t as [p h i]. cbn [t_prog t_holds t_in].
  destruct p as [|o r]; intros W HL E.
  - inversion E; subst. cbn. auto.
  - destruct o; cbn [wlb] in W; apply andb_true_iff in W; destruct W as [_ W].
    + (* Acquire *)
      apply andb_true_iff in W. destruct W as [W1 W]. apply andb_true_iff in W1. destruct W1 as [Hh Hi].
      apply negb_true_iff in Hh, Hi. subst h i.
      destruct lock; inversion E; subst; cbn [t_prog t_holds t_in twl]; cbn; auto.
    + (* Release *)
      apply andb_true_iff in W. destruct W as [W1 W]. apply andb_true_iff in W1. destruct W1 as [Hh Hi].
      apply negb_true_iff in Hi. subst h i. rewrite (HL eq_refl) in *.
      inversion E; subst; cbn; auto.
    + (* Begin *)
      apply andb_true_iff in W. destruct W as [W1 W]. apply andb_true_iff in W1. destruct W1 as [Hh Hi].
      apply negb_true_iff in Hi. subst h i.
      inversion E; subst; cbn [t_prog t_holds t_in]. split; [exact W|lia].
    + (* End *)
      apply andb_true_iff in W. destruct W as [Hi W]. subst i.
      inversion E; subst; cbn [t_prog t_holds t_in]. split; [exact W|lia].
Qed.

Lemma holders_cons t r : holders (t :: r) = b2n (t_holds t) + holders r.
Proof. unfold holders. cbn. destruct (t_holds t); cbn; lia. Qed.

Lemma step_at_inv : forall ts lock i ts' l',
  Forall twl ts -> Forall (fun t => t_holds t = true -> lock = true) ts ->
  step_at ts lock i = (ts', l') ->
  Forall twl ts' /\ holders ts' + b2n lock = holders ts + b2n l'.
Proof.
  induction ts as [|t r IH]; intros lock i ts' l' W H E.
  - cbn in E. destruct i; inversion E; subst; auto.
  - inversion W as [|? ? Wt Wr]; subst. inversion H as [|? ? Ht Hr]; subst.
    destruct i as [|i']; cbn [step_at] in E.
    + destruct (step_thread lock t) as [t1 l1] eqn:S. inversion E; subst.
      destruct (step_thread_inv lock t t1 l' Wt Ht S) as [W1 D].
      split; [constructor; auto|]. rewrite !holders_cons. lia.
    + destruct (step_at r lock i') as [r1 l1] eqn:S. inversion E; subst.
      destruct (IH lock i' r1 l' Wr Hr S) as [W1 D].
      split; [constructor; auto|]. rewrite !holders_cons. lia.
Qed.

Definition Inv (s : state) : Prop :=
  Forall twl (s_threads s) /\ holders (s_threads s) = b2n (s_lock s).

Lemma holder_means_locked ts lock :
  holders ts = b2n lock -> Forall (fun t => t_holds t = true -> lock = true) ts.
Proof.
  intros H. apply Forall_forall. intros t Hin Ht. destruct lock; [reflexivity|]. cbn in H.
  exfalso. unfold holders in H.
  assert (In t (filter t_holds ts)) by (apply filter_In; auto).
  destruct (filter t_holds ts); [contradiction|discriminate].
Qed.

Lemma step_preserves_Inv s i : Inv s -> Inv (step s i).
Proof.
  intros [W H]. unfold step. destruct (step_at (s_threads s) (s_lock s) i) as [ts l] eqn:E.
  destruct (step_at_inv _ _ _ _ _ W (holder_means_locked _ _ H) E) as [W' D].
  split; cbn [s_threads s_lock]; [exact W'|lia].
Qed.

Lemma run_preserves_Inv sched : forall s, Inv s -> Inv (run s sched).
Proof.
  induction sched as [|i r IH]; intros s H; [exact H|]. cbn. apply IH. now apply step_preserves_Inv.
Qed.

Lemma init_Inv progs : Forall well_locked progs -> Inv (init progs).
Proof.
  intros H. unfold Inv, init. cbn [s_threads s_lock]. split.
  - apply Forall_forall. intros t Hin. apply in_map_iff in Hin. destruct Hin as [p [<- Hp]].
    unfold twl. cbn. rewrite Forall_forall in H. now apply H.
  - unfold holders. induction progs as [|p r IH]; [reflexivity|]. cbn. apply IH. now inversion H.
Qed.

Lemma inside_le_holders ts : Forall twl ts -> length (filter t_in ts) <= holders ts.
Proof.
  induction 1 as [|t r Wt Wr IH]; [cbn; lia|].
  rewrite holders_cons. cbn [filter]. destruct (t_in t) eqn:I.
  - rewrite (wlb_in_holds _ _ _ Wt I). cbn. lia.
  - destruct (t_holds t); cbn; lia.
Qed.

(* mutual exclusion for every number of threads and every schedule *)
Theorem exclusive : forall progs, Forall well_locked progs ->
  forall sched, inside (run (init progs) sched) <= 1.
Proof.
  intros progs H sched. pose proof (run_preserves_Inv sched _ (init_Inv progs H)) as [W Hh].
  unfold inside. pose proof (inside_le_holders _ W). destruct (s_lock (run (init progs) sched)); cbn in Hh; lia.
Qed.

(* and the invariant itself: whoever is inside an analysis phase holds the lock *)
Theorem in_analysis_holds_lock : forall progs, Forall well_locked progs ->
  forall sched t, In t (s_threads (run (init progs) sched)) -> t_in t = true -> t_holds t = true.
Proof.
  intros progs H sched t Hin I. pose proof (run_preserves_Inv sched _ (init_Inv progs H)) as [W _].
  rewrite Forall_forall in W. exact (wlb_in_holds _ _ _ (W t Hin) I).
Qed.

(* ---- the programs derived from the start-up model are well locked when parallel = false ---- *)
Ltac crush_measured :=
  repeat match goal with
  | |- context [match measured ?a ?b with _ => _ end] => destruct (measured a b)
  end.

Lemma start_well_locked f c e : f_par f = false -> well_locked (prog_of (start_actions f c e)).
Proof.
  destruct f as [k fm lo hi par], c as [cp cr cd], e as [d m]. cbn [f_par]. intros ->.
  unfold well_locked, start_actions, startup, start, init_seq, compute_map, needs_init, locked.
  cbn [f_kind f_map f_min f_max f_par cap_pwm cap_rpm e_data e_map].
  destruct d, k, lo, hi, fm, m, cp, cr; cbn -[measured]; crush_measured; reflexivity.
Qed.

Lemma init_well_locked f c e : f_par f = false -> well_locked (prog_of (fst (init_cmd f c e))).
Proof.
  destruct f as [k fm lo hi par], c as [cp cr cd]. cbn [f_par]. intros ->.
  unfold well_locked, init_cmd, init_seq, compute_map, locked.
  cbn [f_kind f_map f_min f_max f_par cap_pwm cap_rpm e_data e_map empty_entry].
  destruct k, fm, cp, cr; cbn -[measured]; crush_measured; reflexivity.
Qed.

Theorem startup_exclusive : forall (fans : list (fancfg * caps * entry)),
  Forall (fun x => f_par (fst (fst x)) = false) fans ->
  forall sched, inside (run (init (map thread_prog fans)) sched) <= 1.
Proof.
  intros fans H sched. apply exclusive. apply Forall_forall. intros p Hp.
  apply in_map_iff in Hp. destruct Hp as [[[f c] e] [<- Hin]].
  rewrite Forall_forall in H. specialize (H _ Hin). cbn in H. now apply start_well_locked.
Qed.
