(* C08: lemmas about the sensor smoothing model (Model/Sensor.v). *)
From Coq Require Import ZArith Bool List Floats Lia Reals Lra.
From Flocq Require Import Core.
From F2G Require Import Go.GoFloat Model.Util Model.Sensor Proofs.SensorFloat.
Import ListNotations.
Open Scope Z_scope.

(* ------------------------------------------------------------------ faults *)

(* a failed read or a non-finite reading leaves the average unchanged, for every backend *)
Lemma fault_skips : forall k n avg r, fault r -> poll k n avg r = avg.
Proof.
  intros k n avg r [->|[f [-> Hf]]]; unfold poll, update_sensor, update_sensor_with; cbn.
  - destruct k; reflexivity.
  - destruct k; cbn; try reflexivity. rewrite Hf. reflexivity.
Qed.

Lemma faultb_spec r : faultb r = true <-> fault r.
Proof.
  unfold fault. destruct r as [|z|f]; cbn; split; intros H; auto; try discriminate.
  - destruct H as [H|[f [H _]]]; discriminate.
  - right. exists f. split; auto. now apply negb_true_iff.
  - destruct H as [H|[f' [H1 H2]]]; [discriminate|]. inversion H1; subst. now rewrite H2.
Qed.

(* every value that reaches the average is a finite number: NaN / Inf never get in *)
Lemma value_of_finite k r v : value_of k r = Some v -> (exists z, v = i2f z) \/ is_finite v = true.
Proof.
  unfold value_of, get_value. destruct k, r as [|z|f]; try discriminate; intros H; inversion H; eauto.
  destruct (is_finite f) eqn:E; inversion H1; subst. now right.
Qed.

Lemma poll_value k n a r v : value_of k r = Some v -> poll k n a r = upd_avg a n v.
Proof.
  unfold value_of, poll, update_sensor, update_sensor_with. destruct (get_value k r); intros H; inversion H; reflexivity.
Qed.

Lemma poll_novalue k n a r : value_of k r = None -> poll k n a r = a.
Proof.
  unfold value_of, poll, update_sensor, update_sensor_with. destruct (get_value k r); intros H; inversion H; reflexivity.
Qed.

(* ------------------------------------------------------------------ one step *)

(* window >= 2: the new average is finite, within the magnitude bound and between the old
   average and the reading -- for ALL binary64 values of magnitude <= 2^1021 *)
Lemma step_between a n x : 2 <= n < 2 ^ 63 -> bnd a -> bnd x ->
  bnd (upd_avg a n x) /\
  ((R_of a <= R_of (upd_avg a n x) <= R_of x)%R \/ (R_of x <= R_of (upd_avg a n x) <= R_of a)%R).
Proof.
  intros Hn Ba Bx.
  destruct (upd_R a n x Ba Bx ltac:(lia)) as [F [E [Hr Hr2]]].
  specialize (Hr2 ltac:(lia)). cbv zeta in *.
  set (r := round radix2 (FLT_exp (-1074) 53) ZnearestE (1 / round radix2 (FLT_exp (-1074) 53) ZnearestE (IZR n))) in *.
  assert (Hrr : (0 <= r <= 1 / 2)%R) by lra.
  destruct Ba as [Fa Ba], Bx as [Fx Bx].
  pose proof (format_R_of a) as FA. pose proof (format_R_of x) as FX.
  apply Rabs_le_inv in Ba, Bx.
  destruct (Rle_or_lt (R_of a) (R_of x)) as [Hax|Hax].
  - pose proof (upd_between_le (R_of a) (R_of x) r FA FX Hax Hrr) as H. rewrite <- E in H.
    split; [|left; exact H]. split; [exact F|]. apply Rabs_le. lra.
  - pose proof (upd_between_ge (R_of a) (R_of x) r FA FX ltac:(lra) Hrr) as H. rewrite <- E in H.
    split; [|right; exact H]. split; [exact F|]. apply Rabs_le. lra.
Qed.

(* integers of magnitude below 2^52, as real values *)
Definition sint (v : f64) : Prop := fin v /\ exists z, Z.abs z < 2 ^ 52 /\ R_of v = IZR z.

Lemma format_IZR z : Z.abs z < 2 ^ 53 -> generic_format radix2 (FLT_exp (-1074) 53) (IZR z).
Proof.
  intros H. apply generic_format_FLT. apply FLT_spec with (Float radix2 z 0).
  - unfold F2R. simpl. ring.
  - simpl. exact H.
  - simpl. lia.
Qed.

Lemma small_int_sint v : small_int v -> sint v.
Proof.
  intros [z [Hz ->]]. destruct (i2f_R z) as [F R]; [lia|]. split; [exact F|].
  exists z. split; [exact Hz|]. rewrite R. apply round_generic; auto with typeclass_instances.
  apply format_IZR. lia.
Qed.

Lemma sint_bnd v : sint v -> bnd v.
Proof.
  intros [F [z [Hz R]]]. split; [exact F|]. rewrite R. rewrite <- abs_IZR.
  apply Rle_trans with (IZR (2 ^ 52)); [apply IZR_le; lia|].
  change (IZR (2 ^ 52)) with (bpow radix2 52). apply bpow_le. lia.
Qed.

(* window = 1 on small integers: the subtraction is exact and the new average IS the reading *)
Lemma step_one a x : sint a -> sint x -> fin (upd_avg a 1 x) /\ R_of (upd_avg a 1 x) = R_of x.
Proof.
  intros Sa Sx.
  destruct (upd_R a 1 x (sint_bnd a Sa) (sint_bnd x Sx) ltac:(lia)) as [F [E _]]. cbv zeta in E.
  split; [exact F|]. rewrite E.
  destruct Sa as [_ [za [Hza Ra]]], Sx as [_ [zx [Hzx Rx]]].
  rewrite rnd_1. replace (1 / 1)%R with 1%R by lra. rewrite rnd_1.
  assert (Hd : round radix2 (FLT_exp (-1074) 53) ZnearestE (R_of x - R_of a) = (R_of x - R_of a)%R).
  { apply round_generic; auto with typeclass_instances. rewrite Ra, Rx, <- minus_IZR. apply format_IZR. lia. }
  rewrite Hd. rewrite Rmult_1_l.
  rewrite (round_generic radix2 (FLT_exp (-1074) 53) ZnearestE (R_of x - R_of a)).
  2:{ rewrite Ra, Rx, <- minus_IZR. apply format_IZR. lia. }
  replace (R_of a + (R_of x - R_of a))%R with (R_of x) by ring.
  apply round_generic; auto with typeclass_instances. apply format_R_of.
Qed.

(* ------------------------------------------------------------------ sequences *)

Definition okv (n : Z) (v : f64) : Prop := if n =? 1 then sint v else bnd v.

Lemma value_ok_okv n v : value_ok n v -> okv n v.
Proof.
  unfold value_ok, okv. destruct (n =? 1); [apply small_int_sint|apply boundedb_bnd].
Qed.

Lemma okv_bnd n v : okv n v -> bnd v.
Proof. unfold okv. destruct (n =? 1); [apply sint_bnd|auto]. Qed.

Lemma okv_fin n v : okv n v -> fin v.
Proof. intros H. apply okv_bnd in H. apply H. Qed.

Lemma fle_R a b : fin a -> fin b -> (fle a b = true <-> (R_of a <= R_of b)%R).
Proof. apply leb_R. Qed.

Lemma in_hull_weaken seen a v : in_hull seen a -> in_hull (v :: seen) a.
Proof.
  intros [[v1 [I1 L1]] [v2 [I2 L2]]]. split; [exists v1|exists v2]; split; auto; now right.
Qed.

Theorem hull_run k n : 1 <= n < 2 ^ 63 -> forall rs seen a,
  okv n a -> Forall (okv n) seen -> in_hull seen a ->
  Forall (value_ok n) (values k rs) ->
  HullRun k n seen a rs.
Proof.
  intros Hn. induction rs as [|r rest IH]; intros seen a Oa Os Hh Hv; [exact I|].
  cbn [HullRun values] in *. cbv zeta.
  destruct (value_of k r) as [v|] eqn:Ev.
  - rewrite (poll_value k n a r v Ev).
    apply Forall_cons_iff in Hv. destruct Hv as [Hv Hrest].
    apply value_ok_okv in Hv.
    assert (Oa' : okv n (upd_avg a n v) /\ in_hull (v :: seen) (upd_avg a n v)).
    { unfold okv in *. destruct (n =? 1) eqn:E1.
      - apply Z.eqb_eq in E1. subst n.
        destruct (step_one a v Oa Hv) as [F R]. split.
        + split; [exact F|]. destruct Hv as [_ [z [Hz Rz]]]. exists z. split; [exact Hz|]. now rewrite R.
        + destruct Hv as [Fv _].
          split; exists v; (split; [now left|]); apply fle_R; auto; rewrite R; apply Rle_refl.
      - apply Z.eqb_neq in E1.
        destruct (step_between a n v ltac:(lia) Oa Hv) as [B Hb]. split; [exact B|].
        destruct Hh as [[v1 [I1 L1]] [v2 [I2 L2]]].
        assert (F1 : fin v1).
        { rewrite Forall_forall in Os. specialize (Os v1 I1). apply Os. }
        assert (F2 : fin v2).
        { rewrite Forall_forall in Os. specialize (Os v2 I2). apply Os. }
        destruct Oa as [Fa _]. destruct Hv as [Fv _]. destruct B as [Fa' _].
        apply fle_R in L1; auto. apply fle_R in L2; auto.
        destruct Hb as [Hb|Hb].
        + split; [exists v1; split; [now right|]|exists v; split; [now left|]]; apply fle_R; auto; lra.
        + split; [exists v; split; [now left|]|exists v2; split; [now right|]]; apply fle_R; auto; lra. }
    destruct Oa' as [Oa' Hh'].
    split; [|split; [exact Hh'|]].
    + apply fin_is_finite. exact (okv_fin n _ Oa').
    + apply IH; auto.
  - rewrite (poll_novalue k n a r Ev). split; [|split; [exact Hh|]].
    + apply fin_is_finite. exact (okv_fin n _ Oa).
    + apply IH; auto.
Qed.

(* the statement of C08_hull: start from the seeded / initial average *)
Theorem hull k n init rs : 1 <= n < 2 ^ 63 ->
  value_ok n init -> Forall (value_ok n) (values k rs) ->
  HullRun k n [init] init rs.
Proof.
  intros Hn Hi Hv. apply hull_run; auto.
  - now apply value_ok_okv.
  - constructor; [now apply value_ok_okv|constructor].
  - apply value_ok_okv in Hi. pose proof (okv_fin n init Hi) as F.
    split; exists init; (split; [now left|]); apply fle_R; auto; apply Rle_refl.
Qed.

(* not poisoned: one poll of a bounded average with any reading whose value is bounded stays finite
   (any window >= 1; a failed or non-finite read leaves the average as it is) *)
Theorem not_poisoned k n a r : 1 <= n < 2 ^ 63 -> boundedb a = true ->
  (forall v, value_of k r = Some v -> boundedb v = true) ->
  is_finite (poll k n a r) = true.
Proof.
  intros Hn Ha Hr. apply boundedb_bnd in Ha.
  destruct (value_of k r) as [v|] eqn:Ev.
  - rewrite (poll_value k n a r v Ev). specialize (Hr v eq_refl). apply boundedb_bnd in Hr.
    apply fin_is_finite. apply (upd_R a n v Ha Hr Hn).
  - rewrite (poll_novalue k n a r Ev). apply fin_is_finite. apply Ha.
Qed.

(* integer readings need no guard when the window is >= 2: every int64 (> minInt) is bounded *)
Lemma i2f_bounded z : Z.abs z < 2 ^ 63 -> boundedb (i2f z) = true.
Proof.
  intros Hz. destruct (i2f_R z Hz) as [F R]. destruct c1021_R as [Fc Rc].
  unfold boundedb. rewrite PrimFloat.leb_equiv, PrimFloat.abs_equiv.
  rewrite BinarySingleNaN.Bleb_correct; [|rewrite BinarySingleNaN.is_finite_Babs; exact F|exact Fc].
  rewrite BinarySingleNaN.B2R_Babs. fold (R_of (i2f z)). fold (R_of 0x1p1021%float). rewrite R, Rc.
  apply Rle_bool_true. unfold B1021.
  apply Rle_trans with (bpow radix2 63); [|apply bpow_le; lia].
  apply rnd_abs_le_bpow; [lia|]. rewrite <- abs_IZR. change (bpow radix2 63) with (IZR (2 ^ 63)). apply IZR_le. lia.
Qed.

(* one poll never overshoots and never moves away from the reading (window >= 2, guard) *)
Theorem between_step k n a r v : 2 <= n < 2 ^ 63 -> boundedb a = true -> value_of k r = Some v -> boundedb v = true ->
  (fle a (poll k n a r) = true /\ fle (poll k n a r) v = true) \/
  (fle v (poll k n a r) = true /\ fle (poll k n a r) a = true).
Proof.
  intros Hn Ha Ev Hv. rewrite (poll_value k n a r v Ev).
  apply boundedb_bnd in Ha, Hv.
  destruct (step_between a n v Hn Ha Hv) as [[F _] Hb].
  destruct Ha as [Fa _], Hv as [Fv _].
  destruct Hb as [Hb|Hb]; [left|right]; split; apply fle_R; auto; lra.
Qed.

(* ------------------------------------------------------------------ boolean form of the hull *)
Definition in_hullb (seen : list f64) (a : f64) : bool :=
  existsb (fun v => fle v a) seen && existsb (fun v => fle a v) seen.

Lemma in_hullb_spec seen a : in_hullb seen a = true <-> in_hull seen a.
Proof.
  unfold in_hullb, in_hull. rewrite andb_true_iff, !existsb_exists. tauto.
Qed.

Fixpoint hull_runb (k : kind) (n : Z) (seen : list f64) (a : f64) (rs : list reading) : bool :=
  match rs with
  | [] => true
  | r :: rest =>
      let a' := poll k n a r in
      let seen' := match value_of k r with Some v => v :: seen | None => seen end in
      is_finite a' && in_hullb seen' a' && hull_runb k n seen' a' rest
  end.

Lemma hull_runb_spec k n : forall rs seen a, hull_runb k n seen a rs = true <-> HullRun k n seen a rs.
Proof.
  induction rs as [|r rest IH]; intros seen a; cbn [hull_runb HullRun]; [tauto|].
  cbv zeta. rewrite !andb_true_iff, in_hullb_spec, IH. tauto.
Qed.

(* the unguarded statement is false in binary64 (finding D20) *)
Definition hull_full : Prop := forall k n init rs, 1 <= n < 2 ^ 63 ->
  is_finite init = true -> Forall (fun r => forall f, r = ValF f -> is_finite f = true) rs ->
  HullRun k n [init] init rs.

Definition d20_w1 : bool := hull_runb KHwmon 1 [i2f (- 2 ^ 53)] (i2f (- 2 ^ 53)) [ValZ 3].
Definition d20_w2 : bool := hull_runb KCmd 2 [(-1e308)%float] (-1e308)%float [ValF 1e308%float; ValF 1%float; ValF 1%float].
Lemma d20_w1_false : d20_w1 = false. Proof. vm_compute. reflexivity. Qed.
Lemma d20_w2_false : d20_w2 = false. Proof. vm_compute. reflexivity. Qed.

Lemma hull_refuted_extreme :
  (* window 1: the average jumps past the reading *)
  upd_avg (i2f (- 2 ^ 53)) 1 (i2f 3) = 4%float /\
  ~ HullRun KHwmon 1 [i2f (- 2 ^ 53)] (i2f (- 2 ^ 53)) [ValZ 3] /\
  (* magnitude 1e308: the difference overflows, the average becomes +Inf and then NaN for ever *)
  avgs KCmd 2 (-1e308)%float [ValF 1e308%float; ValF 1%float; ValF 1%float] = [infinity; nan; nan] /\
  ~ HullRun KCmd 2 [(-1e308)%float] (-1e308)%float [ValF 1e308%float; ValF 1%float; ValF 1%float] /\
  ~ hull_full.
Proof.
  assert (H1 : ~ HullRun KHwmon 1 [i2f (- 2 ^ 53)] (i2f (- 2 ^ 53)) [ValZ 3]).
  { intros H. apply hull_runb_spec in H. change (d20_w1 = true) in H. rewrite d20_w1_false in H. discriminate. }
  assert (H2 : ~ HullRun KCmd 2 [(-1e308)%float] (-1e308)%float [ValF 1e308%float; ValF 1%float; ValF 1%float]).
  { intros H. apply hull_runb_spec in H. change (d20_w2 = true) in H. rewrite d20_w2_false in H. discriminate. }
  split; [vm_compute; reflexivity|]. split; [exact H1|]. split; [vm_compute; reflexivity|]. split; [exact H2|].
  intros Hf. apply H1. apply Hf; [lia|vm_compute; reflexivity|].
  constructor; [intros f E; discriminate|constructor].
Qed.

(* ------------------------------------------------------------------ convergence *)

(* the idealisation: the same update over the reals (no rounding). NOT a statement about the code's
   binary64 arithmetic -- see [between_step] for what is proved of the floats. *)
Definition upd_ideal (n : Z) (a x : R) : R := (a + (1 / IZR n) * (x - a))%R.

Fixpoint iter_ideal (n : Z) (a x : R) (k : nat) : R :=
  match k with O => a | S k' => upd_ideal n (iter_ideal n a x k') x end.

Lemma ideal_step n a x : 1 <= n -> (x - upd_ideal n a x = (1 - 1 / IZR n) * (x - a))%R.
Proof. intros Hn. unfold upd_ideal. assert (IZR n <> 0)%R by (apply not_0_IZR; lia). field. assumption. Qed.

Theorem converges_ideal n a x k : 1 <= n ->
  (x - iter_ideal n a x k = (1 - 1 / IZR n) ^ k * (x - a))%R.
Proof.
  intros Hn. induction k as [|k IH]; cbn [iter_ideal pow]; [ring|].
  rewrite ideal_step by exact Hn. rewrite IH. ring.
Qed.

Lemma ideal_factor n : 1 <= n -> (0 <= 1 - 1 / IZR n < 1)%R.
Proof.
  intros Hn. assert (1 <= IZR n)%R by (apply IZR_le; lia).
  assert (0 < / IZR n <= 1)%R.
  { split; [apply Rinv_0_lt_compat; lra|]. rewrite <- Rinv_1. apply Rinv_le_contravar; lra. }
  lra.
Qed.

(* ------------------------------------------------------------------ what D9 was (before the repairs) *)
Lemma d9_was_violated :
  (* file sensor: a failed read was averaged in as the value 0 *)
  poll_d9 KFile 10 50000%float ReadErr = 45000%float /\
  (* cmd sensor: one "nan" poisoned the average for ever *)
  poll_d9 KCmd 10 45.5%float (ValF nan) = nan /\ poll_d9 KCmd 10 nan (ValF 46%float) = nan /\
  (* the repaired code skips both *)
  poll KFile 10 50000%float ReadErr = 50000%float /\ poll KCmd 10 45.5%float (ValF nan) = 45.5%float.
Proof. vm_compute. repeat split; reflexivity. Qed.

(* the binary64 contraction: one poll with a valid reading x shrinks the distance to x by the factor
   (1 - 1/n) up to the rounding slack 8*uu*(|avg|+|x|) + 2*eta0 = 2^-50*(|avg|+|x|) + 2^-1074
   (uu = 2^-53 unit roundoff, eta0 = 2^-1075 half the smallest subnormal); window 2 <= n < 2^53 *)
Theorem converges_step k n a r v : 2 <= n < 2 ^ 53 -> boundedb a = true -> value_of k r = Some v -> boundedb v = true ->
  (Rabs (R_of v - R_of (poll k n a r)) <=
   (1 - 1 / IZR n) * Rabs (R_of v - R_of a) + 8 * uu * (Rabs (R_of a) + Rabs (R_of v)) + 2 * eta0)%R.
Proof.
  intros Hn Ha Ev Hv. rewrite (poll_value k n a r v Ev).
  apply boundedb_bnd in Ha, Hv.
  destruct (upd_R a n v Ha Hv ltac:(lia)) as [_ [E [Hr Hr2]]]. cbv zeta in *.
  specialize (Hr2 ltac:(lia)).
  assert (EN : round radix2 (FLT_exp (-1074) 53) ZnearestE (IZR n) = IZR n).
  { apply round_generic; auto with typeclass_instances. apply format_IZR. lia. }
  rewrite EN in *. rewrite E.
  apply contraction_R.
  - apply format_R_of.
  - apply format_R_of.
  - apply IZR_le. lia.
  - reflexivity.
  - lra.
Qed.
