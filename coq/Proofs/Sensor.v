(* C08: lemmas about the sensor smoothing model (Model/Sensor.v). *)
From Coq Require Import ZArith Bool List Floats Lia.
From F2G Require Import Go.GoFloat Model.Util Model.Sensor.
Import ListNotations.
Open Scope Z_scope.

(* a failed read or a non-finite reading leaves the average unchanged, for every backend *)
Lemma fault_skips : forall k n avg r, fault r -> poll k n avg r = avg.
Proof.
  intros k n avg r [->|[f [-> Hf]]]; unfold poll, update_sensor, update_sensor_with; cbn.
  - destruct k; reflexivity.
  - destruct k; cbn; try reflexivity. rewrite Hf. reflexivity.
Qed.
